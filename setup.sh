#!/bin/bash
# MANIFEST.setup_cmd: build everything the checks need, offline, from files on disk.
cd "$(dirname "$0")"
set -x
tools/build_repo.sh rel || exit 1
tools/build_repo.sh asan || exit 1
tools/build_repo.sh tsan || exit 1
python3 -m translator.cxx2gallina --all || true      # regenerate coq/theories/Gen from /repo (checks redo it per property)
(cd coq && COQ_MAKE_TIMEOUT=3000 ../tools/coq_make.sh) || true   # a broken proof is reported by the check that owns it
exit 0
