// C14 fault-enumeration harness: interrupt every poll k of an interruptible C API operation and report what happened,
// in the canonical format that ocaml/drv_C14.ml (the extracted Coq model) predicts.
//
// stdin, one case per line:   <op> <p1:double> <p2:int> <hexWKB A> <hexWKB B | -> <ks>
//    ks = "count"  : only count polls (phase 1)
//       | rle list : "1-40,57,80-90"  (phase 2: interrupt exactly these polls)
// stdout, one line per case (fflush after each):
//    N=<polls> nocb=<R|E> nd=<0|1> cbsame=<0|1> det=<0|1> ref=<fnv of reference result> K=<k:code;...> pre=<code> rc=<code> cbrc=<code> sites=<hex,...>
//    code = A|C  then flags  m (no "nterrupt" in message) f (request flag still set) p<n> (callback invocations, always printed)
//                            w (an input's WKB changed) r (re-run differs from never-interrupted result) n<n> (re-run polls, always printed)
//                            L (LeakSanitizer: more leaked bytes than before this k)  d (completed, but result differs from reference)
// stderr: "@@case <i> k=<k>" markers before each LeakSanitizer check so that reports can be attributed.
#include <geos_c.h>
#include <geos/util/Interrupt.h>
#include <cstdarg>
#include <cstdint>
#include <cstdio>
#include <cstdlib>
#include <cstring>
#include <chrono>
#include <execinfo.h>
#include <dlfcn.h>
#include <iostream>
#include <set>
#include <sstream>
#include <string>
#include <vector>
#if defined(__SANITIZE_ADDRESS__)
#include <sanitizer/lsan_interface.h>
#define HAVE_LSAN 1
#else
#define HAVE_LSAN 0
#endif

static GEOSContextHandle_t h;
static char lastmsg[512]; static int nmsg = 0;
static void on_error(const char* fmt, ...) { va_list a; va_start(a, fmt); vsnprintf(lastmsg, sizeof lastmsg, fmt, a); va_end(a); nmsg++; }
static void on_notice(const char*, ...) {}

// ---------------------------------------------------------------- callbacks
static long polls = 0, target = -1; static int cancel_too = 0; static bool record_sites = false;
static std::set<uintptr_t> sites;
static std::set<std::string> contexts;   // distinct call stacks (library frames) under which a checkpoint polled in the counting run
static std::string stack_at_target;      // call stack at the poll where the interrupt was requested: "<lib><offset>,..." (g = libgeos, c = libgeos_c, x = other)
static std::string frame(void* a) {
    Dl_info di; char b[64];
    if (dladdr(a, &di) && di.dli_fbase && di.dli_fname) {
        const char* f = strrchr(di.dli_fname, '/'); f = f ? f + 1 : di.dli_fname;
        char tag = strncmp(f, "libgeos_c", 9) == 0 ? 'c' : strncmp(f, "libgeos", 7) == 0 ? 'g' : 'x';
        snprintf(b, sizeof b, "%c%llx", tag, (unsigned long long)((uintptr_t)a - (uintptr_t)di.dli_fbase)); return b;
    }
    return "x0";
}
static void cb(void) {
    polls++;
    // frames: [sanitizer interceptor,] cb, Interrupt::process (first frame inside libgeos), the function holding the checkpoint, its callers ...
    if (record_sites) {
        void* bt[28]; int n = backtrace(bt, 28); int i = 0;
        while (i < n && frame(bt[i])[0] != 'g') i++;
        if (i + 1 < n) { Dl_info di; if (dladdr(bt[i + 1], &di) && di.dli_fbase) sites.insert((uintptr_t)bt[i + 1] - (uintptr_t)di.dli_fbase); }
        // polling context: the checkpoint's return address and its callers (which stage of which operation polled here)
        if (contexts.size() < 48) {
            std::string c;
            for (int j = i + 1; j < n; j++) { std::string f = frame(bt[j]); if (f[0] == 'x') continue; if (!c.empty()) c += ","; c += f; }
            contexts.insert(c);
        }
    }
    if (polls == target) {
        void* bt[64]; int n = backtrace(bt, 64); stack_at_target.clear(); int i = 0;
        while (i < n && frame(bt[i])[0] != 'g') i++;
        for (i = i + 1; i < n; i++) { std::string f = frame(bt[i]); if (f[0] == 'x') continue; if (!stack_at_target.empty()) stack_at_target += ","; stack_at_target += f; }
        GEOS_interruptRequest(); if (cancel_too) GEOS_interruptCancel();
    }
}

// ---------------------------------------------------------------- results
struct Res { bool err; std::string canon; };
static GEOSWKBWriter* W;
static std::string hexwkb(const GEOSGeometry* g) {
    if (!g) return "NULL";
    size_t n = 0; unsigned char* b = GEOSWKBWriter_writeHEX_r(h, W, g, &n);
    if (!b) return "WKBFAIL";
    std::string s((char*)b, n); GEOSFree_r(h, b); return s;
}
static Res geomres(GEOSGeometry* g) { Res r; r.err = (g == nullptr); r.canon = hexwkb(g); if (g) GEOSGeom_destroy_r(h, g); return r; }
static Res charres(char c) { Res r; r.err = (c == 2); r.canon = std::to_string((int)c); return r; }
static Res strres(char* s) { Res r; r.err = (s == nullptr); r.canon = s ? s : "NULL"; if (s) GEOSFree_r(h, s); return r; }
static Res dblres(int ok, double d) { Res r; r.err = (ok == 0); char b[64]; uint64_t u; memcpy(&u, &d, 8); snprintf(b, 64, "%d:%016llx", ok, (unsigned long long)u); r.canon = b; return r; }

typedef const GEOSGeometry* G;
struct Op { const char* name; Res (*f)(G a, G b, double p1, int p2); };
#define OPG(nm, expr) static Res op_##nm(G a, G b, double p1, int p2) { (void)a; (void)b; (void)p1; (void)p2; return geomres(expr); }
#define OPC(nm, expr) static Res op_##nm(G a, G b, double p1, int p2) { (void)a; (void)b; (void)p1; (void)p2; return charres(expr); }
OPG(intersection, GEOSIntersection_r(h, a, b))
OPG(union, GEOSUnion_r(h, a, b))
OPG(difference, GEOSDifference_r(h, a, b))
OPG(symdifference, GEOSSymDifference_r(h, a, b))
OPG(intersection_prec, GEOSIntersectionPrec_r(h, a, b, p1))
OPG(union_prec, GEOSUnionPrec_r(h, a, b, p1))
OPG(difference_prec, GEOSDifferencePrec_r(h, a, b, p1))
OPG(symdifference_prec, GEOSSymDifferencePrec_r(h, a, b, p1))
OPG(unaryunion, GEOSUnaryUnion_r(h, a))
OPG(unaryunion_prec, GEOSUnaryUnionPrec_r(h, a, p1))
OPG(coverageunion, GEOSCoverageUnion_r(h, a))
OPG(buffer, GEOSBuffer_r(h, a, p1, p2))
OPG(buffer_style, GEOSBufferWithStyle_r(h, a, p1, 4, (p2 % 3) + 1, (p2 / 3) % 3 + 1, 2.0))
OPG(buffer_single, GEOSSingleSidedBuffer_r(h, a, p1, 8, GEOSBUF_JOIN_ROUND, 5.0, p2 & 1))
OPG(offsetcurve, GEOSOffsetCurve_r(h, a, p1, 8, GEOSBUF_JOIN_ROUND, 5.0))
OPG(makevalid, GEOSMakeValid_r(h, a))
static Res op_makevalid_structure(G a, G, double, int p2) {
    GEOSMakeValidParams* p = GEOSMakeValidParams_create_r(h);
    GEOSMakeValidParams_setMethod_r(h, p, GEOS_MAKE_VALID_STRUCTURE); GEOSMakeValidParams_setKeepCollapsed_r(h, p, p2 & 1);
    GEOSGeometry* r = GEOSMakeValidWithParams_r(h, a, p); GEOSMakeValidParams_destroy_r(h, p); return geomres(r);
}
static Res op_polygonize(G a, G, double, int) { const GEOSGeometry* arr[1] = {a}; return geomres(GEOSPolygonize_r(h, arr, 1)); }
static Res op_polygonize_valid(G a, G, double, int) { const GEOSGeometry* arr[1] = {a}; return geomres(GEOSPolygonize_valid_r(h, arr, 1)); }
static Res op_polygonize_cutedges(G a, G, double, int) { const GEOSGeometry* arr[1] = {a}; return geomres(GEOSPolygonizer_getCutEdges_r(h, arr, 1)); }
static Res op_polygonize_full(G a, G, double, int) {
    GEOSGeometry *cuts = nullptr, *dangles = nullptr, *invalid = nullptr;
    GEOSGeometry* r = GEOSPolygonize_full_r(h, a, &cuts, &dangles, &invalid);
    std::string extra = "|" + hexwkb(cuts) + "|" + hexwkb(dangles) + "|" + hexwkb(invalid);
    if (cuts) GEOSGeom_destroy_r(h, cuts); if (dangles) GEOSGeom_destroy_r(h, dangles); if (invalid) GEOSGeom_destroy_r(h, invalid);
    Res x = geomres(r); if (!x.err) x.canon += extra; return x;
}
OPG(buildarea, GEOSBuildArea_r(h, a))
OPG(convexhull, GEOSConvexHull_r(h, a))
OPG(minrotrect, GEOSMinimumRotatedRectangle_r(h, a))
OPG(minwidth, GEOSMinimumWidth_r(h, a))
OPG(pointonsurface, GEOSPointOnSurface_r(h, a))
OPG(mic, GEOSMaximumInscribedCircle_r(h, a, p1))
OPG(lec, GEOSLargestEmptyCircle_r(h, a, nullptr, p1))
OPG(lec_boundary, GEOSLargestEmptyCircle_r(h, a, b, p1))
OPG(node, GEOSNode_r(h, a))
OPG(snap, GEOSSnap_r(h, a, b, p1))
OPG(sharedpaths, GEOSSharedPaths_r(h, a, b))
OPG(linemerge, GEOSLineMerge_r(h, a))
OPG(clipbyrect, GEOSClipByRect_r(h, a, -p1, -p1, p1, p1))
OPG(setprecision, GEOSGeom_setPrecision_r(h, a, p1, p2))
OPG(voronoi, GEOSVoronoiDiagram_r(h, a, nullptr, 0.0, p2))
OPG(delaunay, GEOSDelaunayTriangulation_r(h, a, 0.0, p2))
OPG(constrained_delaunay, GEOSConstrainedDelaunayTriangulation_r(h, a))
OPG(concavehull, GEOSConcaveHull_r(h, a, p1, p2))
OPG(concavehull_polys, GEOSConcaveHullOfPolygons_r(h, a, p1, 0, p2))
OPG(simplify, GEOSSimplify_r(h, a, p1))
OPG(tpsimplify, GEOSTopologyPreserveSimplify_r(h, a, p1))
OPG(boundary, GEOSBoundary_r(h, a))
OPG(centroid, GEOSGetCentroid_r(h, a))
OPG(disjointsubsetunion, GEOSDisjointSubsetUnion_r(h, a))
OPG(linesubstring_dummy, GEOSEnvelope_r(h, a))
static Res op_relate(G a, G b, double, int) { return strres(GEOSRelate_r(h, a, b)); }
static Res op_relate_bnr(G a, G b, double, int p2) { return strres(GEOSRelateBoundaryNodeRule_r(h, a, b, (p2 % 4) + 1)); }
OPC(relate_pattern, GEOSRelatePattern_r(h, a, b, "T*T***T**"))
OPC(intersects, GEOSIntersects_r(h, a, b))
OPC(disjoint, GEOSDisjoint_r(h, a, b))
OPC(touches, GEOSTouches_r(h, a, b))
OPC(crosses, GEOSCrosses_r(h, a, b))
OPC(within, GEOSWithin_r(h, a, b))
OPC(contains, GEOSContains_r(h, a, b))
OPC(overlaps, GEOSOverlaps_r(h, a, b))
OPC(equals, GEOSEquals_r(h, a, b))
OPC(covers, GEOSCovers_r(h, a, b))
OPC(coveredby, GEOSCoveredBy_r(h, a, b))
OPC(isvalid, GEOSisValid_r(h, a))
OPC(issimple, GEOSisSimple_r(h, a))
static Res op_isvalidreason(G a, G, double, int) { return strres(GEOSisValidReason_r(h, a)); }
// prepared geometry: the (lazy) preparation is part of the operation
#define OPP(nm, fn) static Res op_prep_##nm(G a, G b, double, int) { const GEOSPreparedGeometry* p = GEOSPrepare_r(h, a); \
    if (!p) { Res r; r.err = true; r.canon = "PREPFAIL"; return r; } char c = fn(h, p, b); GEOSPreparedGeom_destroy_r(h, p); return charres(c); }
OPP(intersects, GEOSPreparedIntersects_r) OPP(contains, GEOSPreparedContains_r) OPP(containsproperly, GEOSPreparedContainsProperly_r)
OPP(covers, GEOSPreparedCovers_r) OPP(coveredby, GEOSPreparedCoveredBy_r) OPP(touches, GEOSPreparedTouches_r)
OPP(crosses, GEOSPreparedCrosses_r) OPP(overlaps, GEOSPreparedOverlaps_r) OPP(within, GEOSPreparedWithin_r) OPP(disjoint, GEOSPreparedDisjoint_r)
static Res op_prep_relate(G a, G b, double, int) { const GEOSPreparedGeometry* p = GEOSPrepare_r(h, a);
    if (!p) { Res r; r.err = true; r.canon = "PREPFAIL"; return r; } char* s = GEOSPreparedRelate_r(h, p, b); GEOSPreparedGeom_destroy_r(h, p); return strres(s); }
static Res op_distance(G a, G b, double, int) { double d = 0; int ok = GEOSDistance_r(h, a, b, &d); return dblres(ok, d); }
static Res op_hausdorff(G a, G b, double, int) { double d = 0; int ok = GEOSHausdorffDistance_r(h, a, b, &d); return dblres(ok, d); }
static Res op_minclearance(G a, G, double, int) { double d = 0; int rc = GEOSMinimumClearance_r(h, a, &d); return dblres(rc == 0 ? 1 : 0, d); }
static Res op_area(G a, G, double, int) { double d = 0; int ok = GEOSArea_r(h, a, &d); return dblres(ok, d); }

#define E(nm) {#nm, op_##nm}
static Op OPS[] = {
    E(intersection), E(union), E(difference), E(symdifference), E(intersection_prec), E(union_prec), E(difference_prec), E(symdifference_prec),
    E(unaryunion), E(unaryunion_prec), E(coverageunion), E(disjointsubsetunion), E(buffer), E(buffer_style), E(buffer_single), E(offsetcurve),
    E(makevalid), E(makevalid_structure), E(polygonize), E(polygonize_valid), E(polygonize_cutedges), E(polygonize_full), E(buildarea),
    E(convexhull), E(minrotrect), E(minwidth), E(pointonsurface), E(mic), E(lec), E(lec_boundary), E(node), E(snap), E(sharedpaths), E(linemerge),
    E(clipbyrect), E(setprecision), E(voronoi), E(delaunay), E(constrained_delaunay), E(concavehull), E(concavehull_polys), E(simplify), E(tpsimplify),
    E(boundary), E(centroid), E(relate), E(relate_bnr), E(relate_pattern), E(intersects), E(disjoint), E(touches), E(crosses), E(within), E(contains),
    E(overlaps), E(equals), E(covers), E(coveredby), E(isvalid), E(issimple), E(isvalidreason),
    E(prep_intersects), E(prep_contains), E(prep_containsproperly), E(prep_covers), E(prep_coveredby), E(prep_touches), E(prep_crosses),
    E(prep_overlaps), E(prep_within), E(prep_disjoint), E(prep_relate), E(distance), E(hausdorff), E(minclearance), E(area),
};

static uint64_t fnv(const std::string& s) { uint64_t x = 1469598103934665603ULL; for (unsigned char c : s) { x ^= c; x *= 1099511628211ULL; } return x; }

static std::vector<long> parse_ks(const std::string& s) {
    std::vector<long> v; std::stringstream ss(s); std::string t;
    if (s == "-") return v;
    while (std::getline(ss, t, ',')) { if (t.empty()) continue; size_t d = t.find('-');
        if (d == std::string::npos) v.push_back(atol(t.c_str())); else { long a = atol(t.substr(0, d).c_str()), b = atol(t.substr(d + 1).c_str()); for (long k = a; k <= b; k++) v.push_back(k); } }
    return v;
}

static uint64_t leaked_before = 0;
// LeakSanitizer re-reports everything still leaked on every recoverable check; the harness only needs "did the total grow",
// the python side reads the byte totals and stacks from stderr (markers below).
static int caseno = 0;

struct Obs { bool err; bool msg_ok; bool flag; long inv; bool wkb_same; Res res; };
static Obs run_once(const Op& op, G a, G b, double p1, int p2, const std::string& wa, const std::string& wb) {
    Obs o; polls = 0; nmsg = 0; lastmsg[0] = 0;
    o.res = op.f(a, b, p1, p2);
    o.inv = polls; o.err = o.res.err; o.msg_ok = strstr(lastmsg, "nterrupt") != nullptr;
    o.flag = geos::util::Interrupt::check();
    o.wkb_same = (hexwkb(a) == wa) && (!b || hexwkb(b) == wb);
    return o;
}
// Results of never-interrupted runs of the current case. Some operations are not functions of their input on this tree (random insertion
// order in HotPixelIndex -> sign of zero; heap-address ordering): a result that differs from the first reference is compared with further
// never-interrupted, callback-free runs before it is called different ('r' / 'd'); if it is one of them the flag is 'v' (varies by itself).
static std::set<std::string> refs; static int extra_runs = 0;
static const Op* cur_op; static G cur_a, cur_b; static double cur_p1; static int cur_p2;
static bool is_ref(const std::string& canon, bool& varies) {
    varies = false;
    if (refs.count(canon)) { varies = refs.size() > 1; return true; }
    GEOSInterruptCallback* prev = GEOS_interruptRegisterCallback(nullptr);
    bool was = geos::util::Interrupt::check(); if (was) GEOS_interruptCancel();
    bool found = false;
    for (int i = 0; i < 8 && !found && extra_runs < 64; i++) { extra_runs++; Res r = cur_op->f(cur_a, cur_b, cur_p1, cur_p2); refs.insert(r.canon); found = (r.canon == canon); }
    if (was) GEOS_interruptRequest();
    GEOS_interruptRegisterCallback(prev);
    varies = found; return found;
}
static std::string code(const Obs& o, const Obs* rerun, const std::string& ref, bool leak) {
    std::string c = o.err ? "A" : "C";
    if (o.err && !o.msg_ok) c += "m";
    if (o.flag) c += "f";
    c += "p" + std::to_string(o.inv);
    if (!o.wkb_same) c += "w";
    bool v = false, anyv = false;
    if (!o.err && !is_ref(o.res.canon, v)) c += "d";
    anyv |= v;
    if (rerun) { if (rerun->err || !is_ref(rerun->res.canon, v)) c += "r"; anyv |= v; c += "n" + std::to_string(rerun->inv); if (rerun->flag) c += "F"; if (!rerun->wkb_same) c += "W"; }
    if (leak) c += "L";
    if (anyv) c += "v";
    return c;
}

int main(int argc, char** argv) {
    setvbuf(stdout, nullptr, _IOLBF, 0);
    h = GEOS_init_r();
    GEOSContext_setErrorHandler_r(h, on_error); GEOSContext_setNoticeHandler_r(h, on_notice);
    W = GEOSWKBWriter_create_r(h); GEOSWKBWriter_setOutputDimension_r(h, W, 4); GEOSWKBWriter_setIncludeSRID_r(h, W, 1);
    std::string line;
    while (std::getline(std::cin, line)) {
        caseno++;
        std::stringstream ss(line); std::string opn, ha, hb, ks; double p1; int p2;
        ss >> opn >> p1 >> p2 >> ha >> hb >> ks;
        const Op* op = nullptr; for (auto& o : OPS) if (opn == o.name) op = &o;
        if (!op) { printf("BADOP %s\n", opn.c_str()); fflush(stdout); continue; }
        GEOS_interruptRegisterCallback(nullptr); GEOS_interruptCancel();
        GEOSGeometry* A = GEOSGeomFromHEX_buf_r(h, (const unsigned char*)ha.data(), ha.size());
        GEOSGeometry* B = hb == "-" ? nullptr : GEOSGeomFromHEX_buf_r(h, (const unsigned char*)hb.data(), hb.size());
        if (!A || (hb != "-" && !B)) { printf("BADINPUT\n"); fflush(stdout); if (A) GEOSGeom_destroy_r(h, A); if (B) GEOSGeom_destroy_r(h, B); continue; }
        std::string wa = hexwkb(A), wb = B ? hexwkb(B) : "";
        // never-interrupted reference, no callback registered at all
        target = -1; cancel_too = 0; record_sites = false;
        cur_op = op; cur_a = A; cur_b = B; cur_p1 = p1; cur_p2 = p2; refs.clear(); extra_runs = 0;
        Obs ref0 = run_once(*op, A, B, p1, p2, wa, wb);
        std::string ref = ref0.res.canon; refs.insert(ref);
        Obs ref1 = run_once(*op, A, B, p1, p2, wa, wb); refs.insert(ref1.res.canon);
        // counting callback that never requests
        GEOS_interruptRegisterCallback(cb); sites.clear(); contexts.clear(); record_sites = true;
        auto tc0 = std::chrono::steady_clock::now();
        Obs cnt = run_once(*op, A, B, p1, p2, wa, wb); long N = cnt.inv; record_sites = false;
        long ms = (long)std::chrono::duration_cast<std::chrono::milliseconds>(std::chrono::steady_clock::now() - tc0).count();
        Obs cnt2 = run_once(*op, A, B, p1, p2, wa, wb);
        bool v1 = false, v2 = false;
        bool cbsame = is_ref(cnt.res.canon, v1) && (cnt.err == ref0.err) && cnt.wkb_same && !cnt.flag;
        bool det = cnt2.inv == N && is_ref(cnt2.res.canon, v2);
        bool nd = refs.size() > 1;                // the operation itself is not a function of its input (nothing to do with interrupts)
        printf("N=%ld ms=%ld nocb=%s nd=%d cbsame=%d det=%d ref=%016llx", N, ms, ref0.err ? "E" : "R", nd ? 1 : 0, cbsame ? 1 : 0, det ? 1 : 0, (unsigned long long)fnv(ref));
        std::vector<std::string> stacks;
        if (ks != "count") {
#if HAVE_LSAN
            fprintf(stderr, "@@case %d k=0\n", caseno); __lsan_do_recoverable_leak_check(); fprintf(stderr, "@@end\n");
#endif
            printf(" K=");
            std::vector<long> kv = parse_ks(ks); bool first = true;
            for (long k : kv) {
                target = k; cancel_too = 0; stack_at_target.clear();
                Obs o = run_once(*op, A, B, p1, p2, wa, wb);
                target = -1;
                bool leak = false;
#if HAVE_LSAN
                fprintf(stderr, "@@case %d k=%ld\n", caseno, k); leak = __lsan_do_recoverable_leak_check() != 0; fprintf(stderr, "@@end\n");
#endif
                // the re-run starts from whatever state the interrupted call left behind (as in the model); clean up afterwards
                Obs rr = run_once(*op, A, B, p1, p2, wa, wb);
                if (rr.flag) GEOS_interruptCancel();
                std::string c = code(o, &rr, ref, leak);
                if (!o.err && k <= N) {               // completed although interrupted: say where the interrupt was raised
                    size_t id = 0; while (id < stacks.size() && stacks[id] != stack_at_target) id++;
                    if (id == stacks.size()) stacks.push_back(stack_at_target);
                    c += "s" + std::to_string(id);
                }
                printf("%s%ld:%s", first ? "" : ";", k, c.c_str()); first = false;
            }
            // interrupt requested before the call
            target = -1; GEOS_interruptRequest();
            Obs pre = run_once(*op, A, B, p1, p2, wa, wb);
            Obs prr = run_once(*op, A, B, p1, p2, wa, wb);
            GEOS_interruptCancel();
            printf(" pre=%s", code(pre, &prr, ref, false).c_str());
            // request then cancel before the call
            GEOS_interruptRequest(); GEOS_interruptCancel();
            Obs rc = run_once(*op, A, B, p1, p2, wa, wb);
            printf(" rc=%s", code(rc, nullptr, ref, false).c_str());
            // the callback requests and cancels within the same invocation (poll ceil(N/2))
            target = (N + 1) / 2; cancel_too = 1;
            Obs crc = run_once(*op, A, B, p1, p2, wa, wb);
            target = -1; cancel_too = 0;
            printf(" cbrc=%s", code(crc, nullptr, ref, false).c_str());
            // request pending while NO callback is registered
            GEOS_interruptRegisterCallback(nullptr); GEOS_interruptRequest();
            Obs nc = run_once(*op, A, B, p1, p2, wa, wb); GEOS_interruptCancel();
            printf(" prenocb=%s", code(nc, nullptr, ref, false).c_str());
        }
        printf(" sites=");
        { bool f = true; for (auto s : sites) { printf("%s%llx", f ? "" : ",", (unsigned long long)s); f = false; } }
        printf(" ctx=");
        { bool f = true; for (auto& c : contexts) { printf("%s%s", f ? "" : "|", c.c_str()); f = false; } }
        printf(" stacks=");
        for (size_t i = 0; i < stacks.size(); i++) printf("%s%zu:%s", i ? "|" : "", i, stacks[i].c_str());
        printf("\n"); fflush(stdout);
        GEOS_interruptRegisterCallback(nullptr); GEOS_interruptCancel();
        GEOSGeom_destroy_r(h, A); if (B) GEOSGeom_destroy_r(h, B);
    }
    GEOSWKBWriter_destroy_r(h, W);
    GEOS_finish_r(h);
    return 0;
}
