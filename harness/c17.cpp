// C17 harness: GEOSMakeValid_r / GEOSMakeValidWithParams_r of the real library, one request per line, one result line per request.
//   request:  MV <method: L|S|D> <keep: 0|1> <wkt>        L = linework, S = structure (GEOSMakeValidWithParams_r), D = GEOSMakeValid_r
//             MV H:<history> <ignored> <wkt>              a history of params setter calls (see fixHistory)
//   result :  <tokens of the result> | V=<isValid(result)> IV=<isValid(input)> EQ=<GEOSEquals(input,result)> DI=<dim in> DO=<dim out>
//             (EQ=2: GEOSEquals_r raised an exception, EQ=3: not evaluated)
//             IDEM=<fix(result) equals result exactly after normalisation> IDEMV=<isValid(fix(result))> | <tokens of fix(result)>
//             or  NULL <error message>
//   tokens :  PT x y | PT E | LS n x y .. | LR .. | PG k (n x y ..)*k | MPT|MLS|MPG|GC m ...   numbers %.17g (nan / inf / -inf)
#include <geos_c.h>
#include <cmath>
#include <cstdarg>
#include <cstdio>
#include <cstdlib>
#include <cstring>
#include <iostream>
#include <sstream>
#include <string>
#include <vector>

static GEOSContextHandle_t h;
static std::string lastErr;
static void quiet(const char*, ...) {}
static void onErr(const char* fmt, ...) {
    char buf[512]; va_list ap; va_start(ap, fmt); vsnprintf(buf, sizeof buf, fmt, ap); va_end(ap);
    lastErr = buf; for (auto& c : lastErr) if (c == '\n' || c == '|') c = ' ';
}
static std::string num(double d) {
    if (std::isnan(d)) return "nan"; if (std::isinf(d)) return d > 0 ? "inf" : "-inf";
    char b[64]; snprintf(b, sizeof b, "%.17g", d); return b;
}
static void seqTok(const GEOSCoordSequence* cs, std::ostringstream& o) {
    unsigned n = 0; GEOSCoordSeq_getSize_r(h, cs, &n); o << n;
    for (unsigned i = 0; i < n; i++) { double x, y; GEOSCoordSeq_getXY_r(h, cs, i, &x, &y); o << ' ' << num(x) << ' ' << num(y); }
}
static void geomTok(const GEOSGeometry* g, std::ostringstream& o) {
    int t = GEOSGeomTypeId_r(h, g);
    switch (t) {
    case GEOS_POINT:
        if (GEOSisEmpty_r(h, g)) o << "PT E"; else { double x, y; GEOSGeomGetX_r(h, g, &x); GEOSGeomGetY_r(h, g, &y); o << "PT " << num(x) << ' ' << num(y); }
        break;
    case GEOS_LINESTRING: case GEOS_LINEARRING:
        o << (t == GEOS_LINESTRING ? "LS " : "LR "); seqTok(GEOSGeom_getCoordSeq_r(h, g), o); break;
    case GEOS_POLYGON: {
        if (GEOSisEmpty_r(h, g)) { o << "PG 0"; break; }
        int nh = GEOSGetNumInteriorRings_r(h, g); o << "PG " << nh + 1 << ' ';
        seqTok(GEOSGeom_getCoordSeq_r(h, GEOSGetExteriorRing_r(h, g)), o);
        for (int i = 0; i < nh; i++) { o << ' '; seqTok(GEOSGeom_getCoordSeq_r(h, GEOSGetInteriorRingN_r(h, g, i)), o); }
        break; }
    case GEOS_MULTIPOINT: case GEOS_MULTILINESTRING: case GEOS_MULTIPOLYGON: case GEOS_GEOMETRYCOLLECTION: {
        int n = GEOSGetNumGeometries_r(h, g);
        o << (t == GEOS_MULTIPOINT ? "MPT " : t == GEOS_MULTILINESTRING ? "MLS " : t == GEOS_MULTIPOLYGON ? "MPG " : "GC ") << n;
        for (int i = 0; i < n; i++) { o << ' '; geomTok(GEOSGetGeometryN_r(h, g, i), o); }
        break; }
    default: o << "OTHER " << t;
    }
}
static std::string tok(const GEOSGeometry* g) { std::ostringstream o; geomTok(g, o); return o.str(); }
// a history of setter calls on ONE params object: "H:" then comma separated  K0 | K1 (setKeepCollapsed)  ML | MS (setMethod)
// C (an intermediate GEOSMakeValidWithParams_r call with the settings of that moment, result discarded).  The call whose
// result is returned is made after the last item, with the same object.
static GEOSGeometry* fixHistory(const GEOSGeometry* g, const std::string& hist) {
    GEOSMakeValidParams* p = GEOSMakeValidParams_create_r(h);
    std::stringstream ss(hist.substr(2)); std::string it;
    while (std::getline(ss, it, ',')) {
        if (it == "K0" || it == "K1") GEOSMakeValidParams_setKeepCollapsed_r(h, p, it == "K1");
        else if (it == "ML") GEOSMakeValidParams_setMethod_r(h, p, GEOS_MAKE_VALID_LINEWORK);
        else if (it == "MS") GEOSMakeValidParams_setMethod_r(h, p, GEOS_MAKE_VALID_STRUCTURE);
        else if (it == "C") { GEOSGeometry* t = GEOSMakeValidWithParams_r(h, g, p); if (t) GEOSGeom_destroy_r(h, t); }
    }
    GEOSGeometry* r = GEOSMakeValidWithParams_r(h, g, p);
    GEOSMakeValidParams_destroy_r(h, p);
    return r;
}
static GEOSGeometry* fix(const GEOSGeometry* g, const std::string& m, int keep) {
    char method = m.empty() ? 'D' : m[0];
    if (method == 'H') return fixHistory(g, m);
    if (method == 'D') return GEOSMakeValid_r(h, g);
    GEOSMakeValidParams* p = GEOSMakeValidParams_create_r(h);
    GEOSMakeValidParams_setMethod_r(h, p, method == 'L' ? GEOS_MAKE_VALID_LINEWORK : GEOS_MAKE_VALID_STRUCTURE);
    GEOSMakeValidParams_setKeepCollapsed_r(h, p, keep);
    GEOSGeometry* r = GEOSMakeValidWithParams_r(h, g, p);
    GEOSMakeValidParams_destroy_r(h, p);
    return r;
}
int main() {
    h = GEOS_init_r();
    GEOSContext_setNoticeHandler_r(h, quiet);
    GEOSContext_setErrorHandler_r(h, onErr);
    std::string line;
    while (std::getline(std::cin, line)) {
        lastErr.clear();
        std::stringstream ss(line); std::string op, m; int keep = 0;
        ss >> op >> m >> keep; std::string wkt; std::getline(ss, wkt);
        GEOSWKTReader* rd = GEOSWKTReader_create_r(h);
        GEOSGeometry* g = GEOSWKTReader_read_r(h, rd, wkt.c_str());
        GEOSWKTReader_destroy_r(h, rd);
        if (!g) { printf("READFAIL %s\n", lastErr.c_str()); fflush(stdout); continue; }
        GEOSGeometry* r = fix(g, m, keep);
        if (!r) { printf("NULL %s\n", lastErr.c_str()); GEOSGeom_destroy_r(h, g); fflush(stdout); continue; }
        std::ostringstream o;
        int iv = (int)GEOSisValid_r(h, g);
        o << tok(r) << " | V=" << (int)GEOSisValid_r(h, r) << " IV=" << iv;
        lastErr.clear();
        // GEOSEquals_r only where the property needs it (valid input)
        int eq = iv == 1 ? (int)GEOSEquals_r(h, g, r) : 3;
        o << " EQ=" << eq << " DI=" << GEOSGeom_getDimensions_r(h, g) << " DO=" << GEOSGeom_getDimensions_r(h, r);
        GEOSGeometry* r2 = fix(r, m, keep);
        if (!r2) o << " IDEM=-1 IDEMV=-1 | NULL";
        else {
            GEOSGeometry* a = GEOSGeom_clone_r(h, r); GEOSGeometry* b = GEOSGeom_clone_r(h, r2);
            GEOSNormalize_r(h, a); GEOSNormalize_r(h, b);
            o << " IDEM=" << (int)GEOSEqualsExact_r(h, a, b, 0.0) << " IDEMV=" << (int)GEOSisValid_r(h, r2) << " | " << tok(r2);
            GEOSGeom_destroy_r(h, a); GEOSGeom_destroy_r(h, b); GEOSGeom_destroy_r(h, r2);
        }
        GEOSGeom_destroy_r(h, r); GEOSGeom_destroy_r(h, g);
        printf("%s\n", o.str().c_str()); fflush(stdout);
    }
    GEOS_finish_r(h);
    return 0;
}
