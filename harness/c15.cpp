// C15 correspondence harness: replays operation histories on the real STRtree (C API and the C++ template directly)
// and prints canonical results, one line per history, in the format of ocaml/drv_C15.ml.
//   argv[1] = capi | cpp | itv
#include <geos_c.h>
#include <geos/index/strtree/TemplateSTRtree.h>
#include <geos/index/strtree/Interval.h>
#include <geos/geom/Envelope.h>
#include <algorithm>
#include <cmath>
#include <cstdio>
#include <cstring>
#include <iostream>
#include <map>
#include <sstream>
#include <string>
#include <vector>
using namespace geos::index::strtree;
using geos::geom::Envelope;

struct Item { long id; double x, y; };
static std::vector<std::string> split(const std::string& s, char c) {
    std::vector<std::string> v; std::stringstream ss(s); std::string t;
    while (std::getline(ss, t, c)) v.push_back(t); return v;
}
static std::string show(std::vector<long> v) {
    std::sort(v.begin(), v.end()); std::string s = "[";
    for (size_t i = 0; i < v.size(); i++) { if (i) s += ","; s += std::to_string(v[i]); } return s + "]";
}
struct PtDist { double operator()(const Item* a, const Item* b) const { return std::hypot(a->x - b->x, a->y - b->y); } };

template <class Tree> struct Expose : public Tree {
    using Tree::Tree;
    size_t ts(size_t n) { return this->treeSize(n); }
    size_t sc(size_t n) { return this->sliceCount(n); }
    static size_t scap(size_t n, size_t s) { return Tree::sliceCapacity(n, s); }
    size_t nn() { return this->nodes.size(); }
};

static GEOSContextHandle_t h;
static GEOSGeometry* box(double a, double b, double c, double d) {
    if (b < a) return GEOSGeom_createEmptyPolygon_r(h);
    if (a == b && c == d) return GEOSGeom_createPointFromXY_r(h, a, c);
    GEOSCoordSequence* cs = GEOSCoordSeq_create_r(h, 2, 2);
    GEOSCoordSeq_setXY_r(h, cs, 0, a, c); GEOSCoordSeq_setXY_r(h, cs, 1, b, d);
    return GEOSGeom_createLineString_r(h, cs);
}
static void qcb(void* item, void* ud) { ((std::vector<long>*)ud)->push_back(((Item*)item)->id); }
static int dcb(const void* a, const void* b, double* d, void*) {
    const Item* p = (const Item*)a; const Item* q = (const Item*)b; *d = std::hypot(p->x - q->x, p->y - q->y); return 1;
}

int main(int argc, char** argv) {
    std::string mode = argc > 1 ? argv[1] : "capi";
    h = GEOS_init_r();
    std::string line;
    while (std::getline(std::cin, line)) {
        auto parts = split(line, '|');
        std::stringstream hs(parts[0]); std::string tag; hs >> tag;
        if (tag == "S") {
            size_t cap, n; hs >> cap >> n;
            Expose<TemplateSTRtree<Item*>> t(cap);
            size_t s = t.sc(n);
            printf("%zu %zu %zu\n", t.ts(n), s, t.scap(n, s)); fflush(stdout); continue;
        }
        size_t cap; hs >> cap;
        std::vector<Item*> items; std::vector<GEOSGeometry*> geoms; std::string out;
        GEOSSTRtree* ct = nullptr; Expose<TemplateSTRtree<Item*>>* pt = nullptr; Expose<TemplateSTRtree<Item*, IntervalTraits>>* it = nullptr;
        if (mode == "capi") ct = GEOSSTRtree_create_r(h, cap);
        else if (mode == "cpp") pt = new Expose<TemplateSTRtree<Item*>>(cap);
        else it = new Expose<TemplateSTRtree<Item*, IntervalTraits>>(cap);
        std::map<long, Item*> byid; size_t ninserted = 0; bool built = false;
        for (size_t k = 1; k < parts.size(); k++) {
            std::stringstream os(parts[k]); std::string o; os >> o; double a, b, c, d; long id;
            if (k > 1) out += " ";
            if (o == "I") {
                os >> a >> b >> c >> d >> id; Item* i = new Item{id, a, c}; items.push_back(i); byid[id] = i;
                if (ct) { GEOSGeometry* g = box(a, b, c, d); geoms.push_back(g); GEOSSTRtree_insert_r(h, ct, g, i); }
                else if (pt) { Envelope e; if (!(b < a)) e.init(a, b, c, d); pt->insert(e, i); }
                else { if (!(b < a)) it->insert(Interval(a, b), i); }
                if (!(b < a)) ninserted++;
                out += "-";
            } else if (o == "B") {
                if (ct) GEOSSTRtree_build_r(h, ct); else if (pt) pt->build(); else it->build();
                out += "-";
            } else if (o == "Q") {
                os >> a >> b >> c >> d; std::vector<long> r;
                if (ct) { GEOSGeometry* g = box(a, b, c, d); GEOSSTRtree_query_r(h, ct, g, qcb, &r); GEOSGeom_destroy_r(h, g); }
                else if (pt) { Envelope e(a, b, c, d); pt->query(e, [&r](Item* x) { r.push_back(x->id); }); }
                else { it->query(Interval(a, b), [&r](Item* x) { r.push_back(x->id); }); }
                out += show(r);
            } else if (o == "R") {
                os >> a >> b >> c >> d >> id; Item* i = byid.count(id) ? byid[id] : nullptr; Item dummy{id, 0, 0}; if (!i) i = &dummy;
                bool ok;
                if (ct) { GEOSGeometry* g = box(a, b, c, d); char rc = GEOSSTRtree_remove_r(h, ct, g, i); GEOSGeom_destroy_r(h, g); ok = rc == 1; if (rc == 2) out += "ERR"; }
                else if (pt) { Envelope e(a, b, c, d); ok = pt->remove(e, i); }
                else ok = it->remove(Interval(a, b), i);
                out += ok ? "T" : "F";
            } else if (o == "T") {
                std::vector<long> r;
                if (ct) GEOSSTRtree_iterate_r(h, ct, qcb, &r); else if (pt) pt->iterate([&r](Item* x) { r.push_back(x->id); });
                else it->iterate([&r](Item* x) { r.push_back(x->id); });
                out += show(r);
            } else if (o == "N") {
                double px, py; os >> a >> b >> c >> d >> px >> py; Item q{-1, px, py}; const Item* r = nullptr; bool err = false;
                if (ct) { GEOSGeometry* g = box(a, b, c, d); r = (const Item*)GEOSSTRtree_nearest_generic_r(h, ct, &q, g, dcb, nullptr); GEOSGeom_destroy_r(h, g); }
                else if (pt) { Envelope e(a, b, c, d); PtDist pd; try { r = pt->nearestNeighbour(e, &q, pd); } catch (std::exception&) { r = nullptr; } }
                else { out += "N:skip"; continue; }
                if (!r) out += "N:none";
                else { double dx = r->x - px, dy = r->y - py; out += "N:" + std::to_string((long)(dx * dx + dy * dy)); }
            }
        }
        // after every history: the reserve is exact (nodes.size() == treeSize(numItems)) when the tree was built
        if (pt && pt->built() && ninserted > 0 && pt->nn() != pt->ts(ninserted)) out += " SIZE-MISMATCH";
        puts(out.c_str()); fflush(stdout);
        if (ct) GEOSSTRtree_destroy_r(h, ct); delete pt; delete it;
        for (auto g : geoms) GEOSGeom_destroy_r(h, g); for (auto i : items) delete i;
    }
    GEOS_finish_r(h);
    return 0;
}
