// C10 harness: same case lines / result lines as ocaml/drv_C10.ml, computed by the real library.
//   N <hex16> <tprecs> <uprecs>   GEOS_printDouble + GEOSWKTWriter_write_r (trim on / off) and the real WKT reader on every emitted number
//   S <token>                     GEOSWKTReader_read_r on "LINESTRING (<token> 0, 0 0)": bits of X, or REJECT
//   G <trim> <prec> <dim> <old3d> <tree> | G L - - - <tree>     GEOSWKTWriter_write_r under the setters / GEOSGeomToWKT_r, then GEOSWKTReader_read_r
//   J <indent> <tree>             GEOSGeoJSONWriter_writeGeometry_r then GEOSGeoJSONReader_readGeometry_r
// Geometries are built with the C++ GeometryFactory from the tree text (no reader involved), then handed to the C API.
// argv[1] (optional): a locale name for setlocale(LC_ALL, .) — the locale-independence run.
#include <geos_c.h>
#include <geos/geom/GeometryFactory.h>
#include <geos/geom/CoordinateSequence.h>
#include <geos/geom/Point.h>
#include <geos/geom/LineString.h>
#include <geos/geom/LinearRing.h>
#include <geos/geom/CircularString.h>
#include <geos/geom/CompoundCurve.h>
#include <geos/geom/Polygon.h>
#include <geos/geom/CurvePolygon.h>
#include <geos/geom/MultiPoint.h>
#include <geos/geom/MultiLineString.h>
#include <geos/geom/MultiPolygon.h>
#include <geos/geom/MultiCurve.h>
#include <geos/geom/MultiSurface.h>
#include <geos/geom/GeometryCollection.h>
#include <clocale>
#include <cstdarg>
#include <cstdio>
#include <cstring>
#include <cstdint>
#include <cmath>
#include <iostream>
#include <sstream>
#include <string>
#include <vector>

using namespace geos::geom;

static GEOSContextHandle_t H;
static inline const GEOSGeometry* CG(const geos::geom::Geometry* g) { return reinterpret_cast<const GEOSGeometry*>(g); }
static std::string lastErr;
static void onErr(const char* m, void*) { lastErr = m ? m : ""; for (auto& c : lastErr) if (c == '\n' || c == '|') c = ' '; }

static double d_of_hex(const std::string& h) { uint64_t b = std::stoull(h, nullptr, 16); double d; memcpy(&d, &b, 8); return d; }
static std::string hex_of_d(double d) {
    uint64_t b; memcpy(&b, &d, 8);
    if (std::isnan(d)) b = 0x7ff8000000000000ULL;          // canonical NaN
    char buf[32]; snprintf(buf, sizeof buf, "%016llx", (unsigned long long) b); return buf;
}
static std::vector<int> precs(const std::string& s) {
    std::vector<int> v; if (s == "-") return v;
    std::stringstream ss(s); std::string t; while (std::getline(ss, t, ',')) v.push_back(std::stoi(t)); return v;
}

// ---------------------------------------------------------------- trees
static std::unique_ptr<Geometry> build(std::istringstream& in, const GeometryFactory& f);
static std::unique_ptr<CoordinateSequence> readSeq(std::istringstream& in) {
    int d, n; in >> d >> n;
    auto seq = std::make_unique<CoordinateSequence>(0u, (d & 1) != 0, (d & 2) != 0);
    for (int i = 0; i < n; i++) {
        std::string x, y, z, m; in >> x >> y >> z >> m;
        // typed adds: an ordinate the sequence does not have is never stored (the padding slot stays NaN), as with every reader / C API constructor
        if ((d & 3) == 3) seq->add(CoordinateXYZM(d_of_hex(x), d_of_hex(y), d_of_hex(z), d_of_hex(m)));
        else if (d & 2) seq->add(CoordinateXYM(d_of_hex(x), d_of_hex(y), d_of_hex(m)));
        else if (d & 1) seq->add(Coordinate(d_of_hex(x), d_of_hex(y), d_of_hex(z)));
        else seq->add(CoordinateXY(d_of_hex(x), d_of_hex(y)));
    }
    return seq;
}
template <class T> static std::unique_ptr<T> as(std::unique_ptr<Geometry> g) {
    T* p = dynamic_cast<T*>(g.get()); if (!p) throw std::runtime_error("harness: member of the wrong class"); g.release(); return std::unique_ptr<T>(p);
}
static std::unique_ptr<Geometry> build(std::istringstream& in, const GeometryFactory& f) {
    std::string k; in >> k;
    if (k == "P") return f.createPoint(readSeq(in));
    if (k == "L") return f.createLineString(readSeq(in));
    if (k == "R") return f.createLinearRing(readSeq(in));
    if (k == "C") return f.createCircularString(readSeq(in));
    int n; in >> n;
    std::vector<std::unique_ptr<Geometry>> kids;
    for (int i = 0; i < n; i++) kids.push_back(build(in, f));
    if (k == "CC") { std::vector<std::unique_ptr<SimpleCurve>> v; for (auto& g : kids) v.push_back(as<SimpleCurve>(std::move(g))); return n ? f.createCompoundCurve(std::move(v)) : f.createCompoundCurve(); }
    if (k == "PG") {
        auto shell = as<LinearRing>(std::move(kids.at(0))); std::vector<std::unique_ptr<LinearRing>> holes;
        for (int i = 1; i < n; i++) holes.push_back(as<LinearRing>(std::move(kids[i])));
        return holes.empty() ? f.createPolygon(std::move(shell)) : f.createPolygon(std::move(shell), std::move(holes));
    }
    if (k == "CP") {
        auto shell = as<Curve>(std::move(kids.at(0))); std::vector<std::unique_ptr<Curve>> holes;
        for (int i = 1; i < n; i++) holes.push_back(as<Curve>(std::move(kids[i])));
        return holes.empty() ? f.createCurvePolygon(std::move(shell)) : f.createCurvePolygon(std::move(shell), std::move(holes));
    }
    if (k == "MP") return f.createMultiPoint(std::move(kids));
    if (k == "ML") return f.createMultiLineString(std::move(kids));
    if (k == "MG") return f.createMultiPolygon(std::move(kids));
    if (k == "MC") return f.createMultiCurve(std::move(kids));
    if (k == "MS") return f.createMultiSurface(std::move(kids));
    if (k == "GC") return f.createGeometryCollection(std::move(kids));
    throw std::runtime_error("harness: bad tree word " + k);
}

static std::string dumpSeq(const char* code, const CoordinateSequence* s) {
    std::ostringstream o;
    bool z = s->hasZ(), m = s->hasM();
    o << "(" << code << " " << (z ? 1 : 0) + (m ? 2 : 0) << " " << s->size();
    for (std::size_t i = 0; i < s->size(); i++) {
        CoordinateXYZM c; s->getAt(i, c);
        o << " " << hex_of_d(c.x) << "," << hex_of_d(c.y);
        if (z) o << "," << hex_of_d(c.z);
        if (m) o << "," << hex_of_d(c.m);
    }
    o << ")"; return o.str();
}
static std::string dump(const Geometry* g) {
    std::ostringstream o;
    switch (g->getGeometryTypeId()) {
    case geos::geom::GEOS_POINT: return dumpSeq("P", static_cast<const Point*>(g)->getCoordinatesRO());
    case geos::geom::GEOS_LINESTRING: return dumpSeq("L", static_cast<const LineString*>(g)->getCoordinatesRO());
    case geos::geom::GEOS_LINEARRING: return dumpSeq("R", static_cast<const LineString*>(g)->getCoordinatesRO());
    case geos::geom::GEOS_CIRCULARSTRING: return dumpSeq("C", static_cast<const SimpleCurve*>(g)->getCoordinatesRO());
    case geos::geom::GEOS_COMPOUNDCURVE: {
        auto cc = static_cast<const CompoundCurve*>(g);
        o << "(CC " << cc->getNumCurves(); for (std::size_t i = 0; i < cc->getNumCurves(); i++) o << " " << dump(cc->getCurveN(i)); o << ")"; return o.str(); }
    case geos::geom::GEOS_POLYGON: case geos::geom::GEOS_CURVEPOLYGON: {
        auto s = static_cast<const Surface*>(g);
        o << (g->getGeometryTypeId() == geos::geom::GEOS_POLYGON ? "(PG " : "(CP ") << 1 + s->getNumInteriorRing() << " " << dump(s->getExteriorRing());
        for (std::size_t i = 0; i < s->getNumInteriorRing(); i++) o << " " << dump(s->getInteriorRingN(i));
        o << ")"; return o.str(); }
    default: {
        const char* code = "GC";
        switch (g->getGeometryTypeId()) { case geos::geom::GEOS_MULTIPOINT: code = "MP"; break; case geos::geom::GEOS_MULTILINESTRING: code = "ML"; break; case geos::geom::GEOS_MULTIPOLYGON: code = "MG"; break;
            case geos::geom::GEOS_MULTICURVE: code = "MC"; break; case geos::geom::GEOS_MULTISURFACE: code = "MS"; break; default: break; }
        o << "(" << code << " " << g->getNumGeometries(); for (std::size_t i = 0; i < g->getNumGeometries(); i++) o << " " << dump(g->getGeometryN(i)); o << ")"; return o.str(); }
    }
}
static std::string esc(const char* s) { std::string r; for (; *s; s++) { if (*s == '\n') r += "\\n"; else if (*s == '|') r += "\\p"; else r += *s; } return r; }

// ---------------------------------------------------------------- numbers
static GEOSWKTReader* RD; static GEOSWKTWriter* WR;
static std::string rereadNumber(const std::string& tok) {
    std::string wkt = "LINESTRING (" + tok + " 0, 0 0)";
    GEOSGeometry* g = GEOSWKTReader_read_r(H, RD, wkt.c_str());
    if (!g) return "REJECT";
    double x = 0; const GEOSCoordSequence* cs = GEOSGeom_getCoordSeq_r(H, g); GEOSCoordSeq_getX_r(H, cs, 0, &x);
    std::string r = hex_of_d(x); GEOSGeom_destroy_r(H, g); return r;
}
static std::string writerNumber(double d, int trim, int prec) {   // the first ordinate of LINESTRING (d 0, 0 0) as the configured writer prints it
    GEOSCoordSequence* cs = GEOSCoordSeq_create_r(H, 2, 2);
    GEOSCoordSeq_setXY_r(H, cs, 0, d, 0); GEOSCoordSeq_setXY_r(H, cs, 1, 0, 0);
    GEOSGeometry* g = GEOSGeom_createLineString_r(H, cs);
    GEOSWKTWriter_setTrim_r(H, WR, (char) trim); GEOSWKTWriter_setRoundingPrecision_r(H, WR, prec);
    GEOSWKTWriter_setOutputDimension_r(H, WR, 2); GEOSWKTWriter_setOld3D_r(H, WR, 0);
    char* s = GEOSWKTWriter_write_r(H, WR, g);
    std::string r = "WRITE-FAIL";
    if (s) { std::string t(s); auto a = t.find('('), b = t.find(' ', a); if (a != std::string::npos && b != std::string::npos) r = t.substr(a + 1, b - a - 1); GEOSFree_r(H, s); }
    GEOSGeom_destroy_r(H, g); return r;
}
static int maxLen = 0;
static std::string printDouble(double d, unsigned prec) {
    unsigned char buf[64]; memset(buf, 0x7e, sizeof buf);
    int len = GEOS_printDouble(d, prec, (char*) buf);
    if (len > maxLen) maxLen = len;
    if (len < 0 || len > 27) return "OVERFLOW-len=" + std::to_string(len);
    for (int i = 28; i < 64; i++) if (buf[i] != 0x7e) return "OVERFLOW-wrote-past-28";
    return std::string((char*) buf, (std::size_t) len);
}

int main(int argc, char** argv) {
    std::string locname = "C";
    if (argc > 1) { const char* r = setlocale(LC_ALL, argv[1]); if (!r) { fprintf(stderr, "setlocale(%s) failed\n", argv[1]); return 3; } locname = r; }
    H = GEOS_init_r(); GEOSContext_setErrorMessageHandler_r(H, onErr, nullptr);
    RD = GEOSWKTReader_create_r(H); WR = GEOSWKTWriter_create_r(H);
    GEOSGeoJSONWriter* JW = GEOSGeoJSONWriter_create_r(H); GEOSGeoJSONReader* JR = GEOSGeoJSONReader_create_r(H);
    auto factory = GeometryFactory::create();
    std::string line;
    while (std::getline(std::cin, line)) {
        std::ostringstream out;
        try {
            std::istringstream in(line); std::string kind; in >> kind;
            if (kind == "N") {
                std::string h, tp, up; in >> h >> tp >> up; double d = d_of_hex(h); bool first = true;
                for (int p : precs(tp)) {
                    std::string s = p < 0 ? writerNumber(d, 1, p) : printDouble(d, (unsigned) p);
                    if (p >= 0) { std::string w = writerNumber(d, 1, p); if (w != s) s += "!writer=" + w; }
                    out << (first ? "" : "|") << "T" << p << "=" << s << ":" << rereadNumber(s); first = false;
                }
                for (int p : precs(up)) {
                    std::string s = writerNumber(d, 0, p);
                    out << (first ? "" : "|") << "U" << p << "=" << s << ":" << rereadNumber(s); first = false;
                }
            } else if (kind == "S") {
                std::string tok; in >> tok; out << rereadNumber(tok);
            } else if (kind == "LOCALE") {
                char b[64]; snprintf(b, sizeof b, "%.2f", 1.5); out << locname << " printf(1.5)=" << b << " maxlen=" << maxLen;
            } else if (kind == "G" || kind == "J") {
                std::string a, b, c, d4;
                if (kind == "G") in >> a >> b >> c >> d4; else in >> a;
                lastErr.clear();
                std::unique_ptr<Geometry> g = build(in, *factory);
                out << "I=" << dump(g.get());
                char* s = nullptr;
                if (kind == "J") s = GEOSGeoJSONWriter_writeGeometry_r(H, JW, CG(g.get()), std::stoi(a));
                else if (a == "L") s = GEOSGeomToWKT_r(H, CG(g.get()));
                else {
                    GEOSWKTWriter_setTrim_r(H, WR, (char) std::stoi(a)); GEOSWKTWriter_setRoundingPrecision_r(H, WR, std::stoi(b));
                    GEOSWKTWriter_setOutputDimension_r(H, WR, std::stoi(c)); GEOSWKTWriter_setOld3D_r(H, WR, std::stoi(d4));
                    s = GEOSWKTWriter_write_r(H, WR, CG(g.get()));
                }
                if (!s) out << "|W=WRITE-FAIL " << lastErr << "|R=NOTHING";
                else {
                    out << "|W=" << esc(s);
                    lastErr.clear();
                    GEOSGeometry* g2 = kind == "J" ? GEOSGeoJSONReader_readGeometry_r(H, JR, s) : GEOSWKTReader_read_r(H, RD, s);
                    if (g2) { out << "|R=" << dump(reinterpret_cast<const Geometry*>(g2)); GEOSGeom_destroy_r(H, g2); } else out << "|R=FAIL " << lastErr;
                    GEOSFree_r(H, s);
                }
            } else out << "?";
        } catch (std::exception& e) { out.str(""); out << "HARNESS-ERROR " << e.what(); }
        std::cout << out.str() << "\n" << std::flush;
    }
    return 0;
}
