// C03 harness: runs the overlay entry points of the C API on geometries given in the token format of ocaml/drv_C03.ml and
// prints the result in the same format, every ordinate as the 16 hex digits of its binary64 bits (nothing is rounded on the way).
//   in : <CALL> [args] | <geom A> [| <geom B>]
//        CALL = INT UNI DIF SYM (GEOSIntersection_r / Union / Difference / SymDifference: A, B)
//               UU UC DSU CU    (GEOSUnaryUnion_r / UnionCascaded / DisjointSubsetUnion / CoverageUnion: A)
//               CLIP x0 y0 x1 y1 (GEOSClipByRect_r: A)
//               RUNG <opcode>   (which rung of OverlayNGRobust's ladder produces a result: evidence only)
//        ordinates: decimal integers, or x<16 hex digits>
//   out: OK v=<GEOSisValid_r> <geom tokens>   |   EXC <message>   |   BADINPUT
#include <geos_c.h>
#include <geos/geom/Geometry.h>
#include <geos/geom/PrecisionModel.h>
#include <geos/operation/overlayng/OverlayNG.h>
#include <geos/operation/overlayng/OverlayNGRobust.h>
#include <geos/operation/overlayng/PrecisionUtil.h>
#include <geos/util/TopologyException.h>
#include <cstdarg>
#include <cstdint>
#include <cstdio>
#include <cstdlib>
#include <cstring>
#include <iostream>
#include <sstream>
#include <string>
#include <vector>

static GEOSContextHandle_t h;
static std::string lastmsg;
static void on_msg(const char* fmt, ...) {
    char buf[600]; va_list ap; va_start(ap, fmt); vsnprintf(buf, sizeof buf, fmt, ap); va_end(ap);
    lastmsg = buf;
    for (auto& c : lastmsg) if (c == '\n' || c == '\r') c = ' ';
}
struct Toks { std::vector<std::string> t; size_t i = 0; bool bad = false;
  std::string next() { if (i >= t.size()) { bad = true; return "0"; } return t[i++]; }
  std::string peek() { return i < t.size() ? t[i] : ""; } };
static double ord(const std::string& s) {
    if (s.size() == 17 && s[0] == 'x') { uint64_t b = strtoull(s.c_str() + 1, nullptr, 16); double d; memcpy(&d, &b, 8); return d; }
    return strtod(s.c_str(), nullptr);
}
static std::string hx(double d) { uint64_t b; memcpy(&b, &d, 8); char buf[20]; snprintf(buf, sizeof buf, "x%016llx", (unsigned long long)b); return buf; }
typedef std::vector<std::pair<double, double>> Pts;
static Pts takeSeq(Toks& tk) { int n = atoi(tk.next().c_str()); Pts p; for (int k = 0; k < n && !tk.bad; k++) { double x = ord(tk.next()); double y = ord(tk.next()); p.push_back({x, y}); } return p; }
static GEOSCoordSequence* cs(const Pts& p) {
    GEOSCoordSequence* s = GEOSCoordSeq_create_r(h, (unsigned)p.size(), 2);
    for (size_t k = 0; k < p.size(); k++) GEOSCoordSeq_setXY_r(h, s, (unsigned)k, p[k].first, p[k].second);
    return s;
}
static GEOSGeometry* mkPoly(Toks& tk) {
    int k = atoi(tk.next().c_str());
    if (k == 0) return GEOSGeom_createEmptyPolygon_r(h);
    GEOSGeometry* shell = GEOSGeom_createLinearRing_r(h, cs(takeSeq(tk)));
    std::vector<GEOSGeometry*> holes;
    for (int j = 1; j < k; j++) holes.push_back(GEOSGeom_createLinearRing_r(h, cs(takeSeq(tk))));
    for (auto* x : holes) if (!x) return nullptr;
    if (!shell) return nullptr;
    return GEOSGeom_createPolygon_r(h, shell, holes.data(), (unsigned)holes.size());
}
static GEOSGeometry* mkPoint(Toks& tk) {
    if (tk.peek() == "E") { tk.next(); return GEOSGeom_createEmptyPoint_r(h); }
    double x = ord(tk.next()); double y = ord(tk.next());
    return GEOSGeom_createPointFromXY_r(h, x, y);
}
static GEOSGeometry* mkLine(Toks& tk) { Pts p = takeSeq(tk); return p.empty() ? GEOSGeom_createEmptyLineString_r(h) : GEOSGeom_createLineString_r(h, cs(p)); }
static GEOSGeometry* mkGeom(Toks& tk) {
    std::string ty = tk.next();
    if (ty == "PT") return mkPoint(tk);
    if (ty == "LS") return mkLine(tk);
    if (ty == "LR") return GEOSGeom_createLinearRing_r(h, cs(takeSeq(tk)));
    if (ty == "PG") return mkPoly(tk);
    int type = ty == "MPT" ? GEOS_MULTIPOINT : ty == "MLS" ? GEOS_MULTILINESTRING : ty == "MPG" ? GEOS_MULTIPOLYGON : ty == "GC" ? GEOS_GEOMETRYCOLLECTION : -1;
    if (type < 0) { tk.bad = true; return nullptr; }
    int m = atoi(tk.next().c_str());
    std::vector<GEOSGeometry*> gs;
    for (int k = 0; k < m && !tk.bad; k++) {
        GEOSGeometry* g = type == GEOS_MULTIPOINT ? mkPoint(tk) : type == GEOS_MULTILINESTRING ? mkLine(tk) : type == GEOS_MULTIPOLYGON ? mkPoly(tk) : mkGeom(tk);
        if (!g) { tk.bad = true; break; }
        gs.push_back(g);
    }
    if (tk.bad) return nullptr;
    return GEOSGeom_createCollection_r(h, type, gs.data(), (unsigned)gs.size());
}
static void putSeq(std::ostringstream& o, const GEOSGeometry* g) {
    const GEOSCoordSequence* s = GEOSGeom_getCoordSeq_r(h, g);
    unsigned n = 0; GEOSCoordSeq_getSize_r(h, s, &n);
    o << ' ' << n;
    for (unsigned k = 0; k < n; k++) { double x, y; GEOSCoordSeq_getXY_r(h, s, k, &x, &y); o << ' ' << hx(x) << ' ' << hx(y); }
}
static void putPolyBody(std::ostringstream& o, const GEOSGeometry* g) {
    if (GEOSisEmpty_r(h, g)) { o << " 0"; return; }
    int nh = GEOSGetNumInteriorRings_r(h, g);
    o << ' ' << (1 + nh);
    putSeq(o, GEOSGetExteriorRing_r(h, g));
    for (int k = 0; k < nh; k++) putSeq(o, GEOSGetInteriorRingN_r(h, g, k));
}
static void putPointBody(std::ostringstream& o, const GEOSGeometry* g) {
    if (GEOSisEmpty_r(h, g)) { o << " E"; return; }
    double x, y; GEOSGeomGetX_r(h, g, &x); GEOSGeomGetY_r(h, g, &y); o << ' ' << hx(x) << ' ' << hx(y);
}
static bool putGeom(std::ostringstream& o, const GEOSGeometry* g) {
    int t = GEOSGeomTypeId_r(h, g);
    switch (t) {
    case GEOS_POINT: o << " PT"; putPointBody(o, g); return true;
    case GEOS_LINESTRING: o << " LS"; putSeq(o, g); return true;
    case GEOS_LINEARRING: o << " LR"; putSeq(o, g); return true;
    case GEOS_POLYGON: o << " PG"; putPolyBody(o, g); return true;
    case GEOS_MULTIPOINT: case GEOS_MULTILINESTRING: case GEOS_MULTIPOLYGON: case GEOS_GEOMETRYCOLLECTION: {
        int m = GEOSGetNumGeometries_r(h, g);
        o << (t == GEOS_MULTIPOINT ? " MPT " : t == GEOS_MULTILINESTRING ? " MLS " : t == GEOS_MULTIPOLYGON ? " MPG " : " GC ") << m;
        for (int k = 0; k < m; k++) {
            const GEOSGeometry* e = GEOSGetGeometryN_r(h, g, k);
            if (t == GEOS_MULTIPOINT) putPointBody(o, e);
            else if (t == GEOS_MULTILINESTRING) putSeq(o, e);
            else if (t == GEOS_MULTIPOLYGON) putPolyBody(o, e);
            else if (!putGeom(o, e)) return false;
        }
        return true; }
    default: return false;
    }
}
using geos::geom::Geometry;
using namespace geos::operation::overlayng;
// which rung of OverlayNGRobust::Overlay answers (1 floating noder, 2 snapping noder, 3 snap rounding, 0 none)
static int rung(const Geometry* a, const Geometry* b, int op) {
    try { geos::geom::PrecisionModel pmf; auto r = OverlayNG::overlay(a, b, op, &pmf); if (r) return 1; } catch (const std::runtime_error&) {}
    try { auto r = OverlayNGRobust::overlaySnapTries(a, b, op); if (r) return 2; } catch (const std::runtime_error&) {}
    try { double sc = PrecisionUtil::safeScale(a, b); geos::geom::PrecisionModel pm(sc); auto r = OverlayNG::overlay(a, b, op, &pm); if (r) return 3; } catch (const std::runtime_error&) {}
    return 0;
}

int main() {
    h = GEOS_init_r();
    GEOSContext_setNoticeHandler_r(h, on_msg);
    GEOSContext_setErrorHandler_r(h, on_msg);
    std::string line;
    while (std::getline(std::cin, line)) {
        std::vector<std::string> parts; { std::stringstream ss(line); std::string p; while (std::getline(ss, p, '|')) parts.push_back(p); }
        std::vector<std::string> head; { std::stringstream ss(parts.empty() ? "" : parts[0]); std::string w; while (ss >> w) head.push_back(w); }
        GEOSGeometry* g[2] = {nullptr, nullptr}; bool bad = head.empty();
        for (size_t k = 1; k < parts.size() && k <= 2 && !bad; k++) {
            Toks tk; std::stringstream ss(parts[k]); std::string w; while (ss >> w) tk.t.push_back(w);
            g[k - 1] = mkGeom(tk); if (!g[k - 1] || tk.bad) bad = true;
        }
        if (bad || !g[0]) { printf("BADINPUT %s\n", lastmsg.c_str()); fflush(stdout); continue; }
        lastmsg.clear();
        const std::string& c = head[0];
        GEOSGeometry* r = nullptr; bool done = false;
        if ((c == "INT" || c == "UNI" || c == "DIF" || c == "SYM") && g[1]) {
            r = c == "INT" ? GEOSIntersection_r(h, g[0], g[1]) : c == "UNI" ? GEOSUnion_r(h, g[0], g[1]) : c == "DIF" ? GEOSDifference_r(h, g[0], g[1]) : GEOSSymDifference_r(h, g[0], g[1]);
        } else if (c == "UU") r = GEOSUnaryUnion_r(h, g[0]);
        else if (c == "UC") r = GEOSUnionCascaded_r(h, g[0]);
        else if (c == "DSU") r = GEOSDisjointSubsetUnion_r(h, g[0]);
        else if (c == "CU") r = GEOSCoverageUnion_r(h, g[0]);
        else if (c == "CLIP" && head.size() >= 5) r = GEOSClipByRect_r(h, g[0], ord(head[1]), ord(head[2]), ord(head[3]), ord(head[4]));
        else if (c == "RUNG" && head.size() >= 2 && g[1]) {
            printf("RUNG %d\n", rung(reinterpret_cast<const Geometry*>(g[0]), reinterpret_cast<const Geometry*>(g[1]), atoi(head[1].c_str()))); done = true;
        } else { printf("BADINPUT unknown call\n"); done = true; }
        if (!done) {
            if (!r) printf("EXC %s\n", lastmsg.c_str());
            else {
                std::ostringstream o;
                int v = GEOSisValid_r(h, r);
                if (putGeom(o, r)) printf("OK v=%d%s\n", v, o.str().c_str()); else printf("EXC unprintable result type %d\n", GEOSGeomTypeId_r(h, r));
                GEOSGeom_destroy_r(h, r);
            }
        }
        fflush(stdout);
        for (auto* x : g) if (x) GEOSGeom_destroy_r(h, x);
    }
    GEOS_finish_r(h);
    return 0;
}
