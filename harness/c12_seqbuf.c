/* C12: GEOSCoordSeq_copyFromBuffer_r / copyToBuffer_r across every source and destination layout.
   input line:  <n> <srcZ> <srcM> <dstZ> <dstM> <seed>
   A sequence of n coordinates is built with copyFromBuffer(srcZ, srcM) from seeded values; copyToBuffer(dstZ, dstM) into a buffer
   with canaries must return 1, fill every slot with what getOrdinate reports for that dimension (X, Y always; Z / M when the
   sequence has them, NaN otherwise), leave the canaries and the source sequence untouched.  output: OK  |  BAD <what> */
#include <geos_c.h>
#include <math.h>
#include <stdio.h>
#include <stdlib.h>
#include <string.h>
static void nomsg(const char* m, void* u) { (void)m; (void)u; }
int main(void) {
    GEOSContextHandle_t h = GEOS_init_r();
    GEOSContext_setErrorMessageHandler_r(h, nomsg, NULL); GEOSContext_setNoticeMessageHandler_r(h, nomsg, NULL);
    char line[256];
    while (fgets(line, sizeof line, stdin)) {
        unsigned n, seed; int sz, sm, dz, dm;
        if (sscanf(line, "%u %d %d %d %d %u", &n, &sz, &sm, &dz, &dm, &seed) != 6 || n > 1000) { puts("PARSE"); fflush(stdout); continue; }
        unsigned ss = 2u + (sz ? 1u : 0u) + (sm ? 1u : 0u), ds = 2u + (dz ? 1u : 0u) + (dm ? 1u : 0u);
        double* src = malloc(sizeof(double) * (n * ss + 1));
        for (unsigned i = 0; i < n * ss; i++) { seed = seed * 1103515245u + 12345u; src[i] = (double)((seed >> 8) % 100000u) / 8.0 + 1.0; }
        GEOSCoordSequence* cs = GEOSCoordSeq_copyFromBuffer_r(h, src, n, sz, sm);
        char what[200] = "";
        if (!cs) { snprintf(what, sizeof what, "copyFromBuffer returned NULL"); }
        else {
            double* ref = malloc(sizeof(double) * (n * 4 + 1));         /* per-ordinate reading: X Y Z M (dims 0 1 2 3) */
            for (unsigned i = 0; i < n; i++) {
                for (unsigned d = 0; d < 4; d++) { double v = NAN; GEOSCoordSeq_getOrdinate_r(h, cs, i, d, &v); ref[i * 4 + d] = v; }
                if (!sz) ref[i * 4 + 2] = NAN;
                if (!sm) ref[i * 4 + 3] = NAN;
                /* the sequence must hold what was put in */
                unsigned k = 0;
                if (ref[i * 4 + 0] != src[i * ss + k++] || ref[i * 4 + 1] != src[i * ss + k++]) snprintf(what, sizeof what, "XY of coordinate %u differ from the source buffer", i);
                if (sz && ref[i * 4 + 2] != src[i * ss + k++]) snprintf(what, sizeof what, "Z of coordinate %u differs from the source buffer", i);
                if (sm && ref[i * 4 + 3] != src[i * ss + k++]) snprintf(what, sizeof what, "M of coordinate %u differs from the source buffer", i);
            }
            const double CAN = -777.25;
            double* dst = malloc(sizeof(double) * (n * ds + 4));
            for (unsigned i = 0; i < n * ds + 4; i++) dst[i] = CAN;
            int rc = GEOSCoordSeq_copyToBuffer_r(h, cs, dst + 2, dz, dm);
            if (rc != 1) snprintf(what, sizeof what, "copyToBuffer returned %d", rc);
            else {
                if (dst[0] != CAN || dst[1] != CAN || dst[2 + n * ds] != CAN || dst[3 + n * ds] != CAN) snprintf(what, sizeof what, "canary overwritten");
                for (unsigned i = 0; i < n && !what[0]; i++) {
                    unsigned k = 0; const double* c = dst + 2 + i * ds;
                    double ex[4]; unsigned ne = 0; ex[ne++] = ref[i * 4]; ex[ne++] = ref[i * 4 + 1]; if (dz) ex[ne++] = ref[i * 4 + 2]; if (dm) ex[ne++] = ref[i * 4 + 3];
                    for (k = 0; k < ne; k++)
                        if (!((isnan(ex[k]) && isnan(c[k])) || ex[k] == c[k])) { snprintf(what, sizeof what, "coordinate %u slot %u: got %.17g expected %.17g", i, k, c[k], ex[k]); break; }
                }
                for (unsigned i = 0; i < n && !what[0]; i++)
                    for (unsigned d = 0; d < 4; d++) { double v = NAN; GEOSCoordSeq_getOrdinate_r(h, cs, i, d, &v); double r = ref[i * 4 + d];
                        if ((d == 2 && !sz) || (d == 3 && !sm)) continue;
                        if (!((isnan(v) && isnan(r)) || v == r)) snprintf(what, sizeof what, "source sequence changed by copyToBuffer"); }
            }
            free(dst); free(ref); GEOSCoordSeq_destroy_r(h, cs);
        }
        free(src);
        if (what[0]) printf("BAD %s\n", what); else puts("OK");
        fflush(stdout);
    }
    GEOS_finish_r(h);
    return 0;
}
