/* C02 harness: every way of asking one topological question, printed for one pair per input line.
   input :  <seed>|<WKT A>|<WKT B>|<pattern1,pattern2,...>[|<primer WKT>;<primer WKT>...]
   output:  key=value tokens (chars '0','1','2'=error, 'x' = not applicable), or INVALID / PARSE. */
#include <geos_c.h>
#include <stdio.h>
#include <stdlib.h>
#include <string.h>
#include <stdarg.h>

static GEOSContextHandle_t h;
static void nomsg(const char* m, void* u) { (void)m; (void)u; }
typedef char (*pred2)(GEOSContextHandle_t, const GEOSGeometry*, const GEOSGeometry*);
typedef char (*ppred2)(GEOSContextHandle_t, const GEOSPreparedGeometry*, const GEOSGeometry*);
static const char* names[] = {"intersects", "disjoint", "touches", "crosses", "within", "contains", "overlaps", "equals", "covers", "coveredBy"};
static pred2 plain[] = {GEOSIntersects_r, GEOSDisjoint_r, GEOSTouches_r, GEOSCrosses_r, GEOSWithin_r, GEOSContains_r, GEOSOverlaps_r, GEOSEquals_r, GEOSCovers_r, GEOSCoveredBy_r};
static ppred2 prep[] = {GEOSPreparedIntersects_r, GEOSPreparedDisjoint_r, GEOSPreparedTouches_r, GEOSPreparedCrosses_r, GEOSPreparedWithin_r, GEOSPreparedContains_r, GEOSPreparedOverlaps_r, NULL, GEOSPreparedCovers_r, GEOSPreparedCoveredBy_r};
/* converse of predicate i when the arguments are swapped */
static int conv[] = {0, 1, 2, 3, 5, 4, 6, 7, 9, 8};
static char c(char v) { return v == 0 ? '0' : v == 1 ? '1' : '2'; }

int main(void) {
    static char line[1 << 20];
    h = GEOS_init_r();
    GEOSContext_setErrorMessageHandler_r(h, nomsg, NULL); GEOSContext_setNoticeMessageHandler_r(h, nomsg, NULL);
    while (fgets(line, sizeof line, stdin)) {
        line[strcspn(line, "\n")] = 0;
        char* p1 = strchr(line, '|'); if (!p1) { puts("PARSE"); fflush(stdout); continue; } *p1++ = 0;
        char* p2 = strchr(p1, '|'); if (!p2) { puts("PARSE"); fflush(stdout); continue; } *p2++ = 0;
        char* p3 = strchr(p2, '|'); if (p3) *p3++ = 0;
        char* p4 = p3 ? strchr(p3, '|') : NULL; if (p4) *p4++ = 0;      /* optional 5th field: primer geometries, ';' separated */
        unsigned seed = (unsigned)strtoul(line, NULL, 10);
        GEOSGeometry* A = GEOSGeomFromWKT_r(h, p1); GEOSGeometry* B = GEOSGeomFromWKT_r(h, p2);
        if (!A || !B) { puts("PARSE"); fflush(stdout); if (A) GEOSGeom_destroy_r(h, A); if (B) GEOSGeom_destroy_r(h, B); continue; }
        if (GEOSisValid_r(h, A) != 1 || GEOSisValid_r(h, B) != 1) { puts("INVALID"); fflush(stdout); GEOSGeom_destroy_r(h, A); GEOSGeom_destroy_r(h, B); continue; }
        char* R = GEOSRelate_r(h, A, B); char* RT = GEOSRelate_r(h, B, A);
        const GEOSPreparedGeometry* PA = GEOSPrepare_r(h, A); const GEOSPreparedGeometry* PB = GEOSPrepare_r(h, B);
        printf("R=%s RT=%s", R ? R : "ERR", RT ? RT : "ERR");
        /* primers: the SAME prepared geometries first answer a (seed-chosen, self-noding) predicate against OTHER geometries, each
           compared with the unprepared call; whatever the prepared object cached for them must not leak into the answers for B below */
        if (p4 && *p4) {
            int nprime = 0, primebad = 0; char* sv = NULL;
            for (char* t = strtok_r(p4, ";", &sv); t; t = strtok_r(NULL, ";", &sv)) {
                GEOSGeometry* P = GEOSGeomFromWKT_r(h, t);
                if (!P) continue;
                if (GEOSisValid_r(h, P) == 1) {
                    seed = seed * 1103515245u + 12345u; int i = 2 + (int)((seed >> 16) % 8u); if (!prep[i]) i = 6;
                    char a1 = prep[i](h, PA, P), b1 = plain[i](h, A, P), a2 = prep[i](h, PB, P), b2 = plain[i](h, B, P);
                    nprime++; if (a1 != b1 || a2 != b2) primebad++;
                }
                GEOSGeom_destroy_r(h, P);
            }
            printf(" prime=%d/%d", primebad, nprime);
        }
        /* prepared predicates in a seed-dependent order, on one reused prepared geometry */
        char pa[10], pb[10]; int order[10];
        for (int i = 0; i < 10; i++) order[i] = i;
        for (int i = 9; i > 0; i--) { seed = seed * 1103515245u + 12345u; int j = (int)((seed >> 16) % (unsigned)(i + 1)); int t = order[i]; order[i] = order[j]; order[j] = t; }
        for (int k = 0; k < 10; k++) { int i = order[k]; pa[i] = prep[i] ? c(prep[i](h, PA, B)) : 'x'; }
        for (int k = 9; k >= 0; k--) { int i = order[k]; pb[i] = prep[i] ? c(prep[i](h, PB, A)) : 'x'; }
        char* PR = GEOSPreparedRelate_r(h, PA, B);
        printf(" PR=%s", PR ? PR : "ERR");
        for (int i = 0; i < 10; i++)
            printf(" %s=%c%c%c%c", names[i], c(plain[i](h, A, B)), pa[i], c(plain[conv[i]](h, B, A)), pb[conv[i]]);
        printf(" containsProperly=%c", c(GEOSPreparedContainsProperly_r(h, PA, B)));
        /* self relations and clone */
        GEOSGeometry* A2 = GEOSGeom_clone_r(h, A);
        printf(" self=%c%c%c%c%c%c", c(GEOSEquals_r(h, A, A)), c(GEOSCovers_r(h, A, A)), c(GEOSCoveredBy_r(h, A, A)), c(GEOSEquals_r(h, A, A2)), c(GEOSCovers_r(h, A, A2)), c(GEOSCoveredBy_r(h, A2, A)));
        GEOSGeom_destroy_r(h, A2);
        /* XY point forms when B is a non-empty point */
        if (GEOSGeomTypeId_r(h, B) == GEOS_POINT && !GEOSisEmpty_r(h, B)) {
            double x, y; GEOSGeomGetX_r(h, B, &x); GEOSGeomGetY_r(h, B, &y);
            printf(" xy=%c%c", c(GEOSPreparedContainsXY_r(h, PA, x, y)), c(GEOSPreparedIntersectsXY_r(h, PA, x, y)));
        }
        /* pattern forms */
        if (p3 && R) {
            char* tok = strtok(p3, ",");
            printf(" pat=");
            while (tok) {
                if (strlen(tok) == 9)
                    printf("%s:%c%c%c,", tok, c(GEOSRelatePattern_r(h, A, B, tok)), c(GEOSRelatePatternMatch_r(h, R, tok)), c(GEOSPreparedRelatePattern_r(h, PA, B, tok)));
                tok = strtok(NULL, ",");
            }
        }
        printf(" empty=%c%c\n", GEOSisEmpty_r(h, A) ? '1' : '0', GEOSisEmpty_r(h, B) ? '1' : '0');
        fflush(stdout);
        if (R) GEOSFree_r(h, R); if (RT) GEOSFree_r(h, RT); if (PR) GEOSFree_r(h, PR);
        GEOSPreparedGeom_destroy_r(h, PA); GEOSPreparedGeom_destroy_r(h, PB); GEOSGeom_destroy_r(h, A); GEOSGeom_destroy_r(h, B);
    }
    GEOS_finish_r(h);
    return 0;
}
