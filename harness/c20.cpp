// C20 correspondence harness: constructions and normal form through the C API (plus HilbertCode directly).
// One case per input line, one result line per case. Geometry text (both directions), ordinates as 16 hex digits of
// the binary64 bit pattern:
//   P 0 | P 1 X Y | L n (X Y)*n | R n (X Y)*n | Y k (n (X Y)*n)*k | M t n geom*n      t = 4..7 (GEOS type ids)
// ops:  U <g>            every unary construction / measure
//       N <g>            normalize, normalize twice, reverse, reverse twice, clone, orientPolygons(1/0) + measures + equalities;
//                        ind_*: equalsIdentical / equalsExact (both argument orders) of each result with an independently
//                        constructed equal geometry, taken right after the operation, before anything queries an envelope
//       E <g> | <g>      equalsExact / equalsIdentical of the two, and of their normal forms
//       H level x y      HilbertCode::encode (C++), GEOSHilbertCode_r        D level i   HilbertCode::decode
//       O ax ay bx by px py   GEOSOrientationIndex_r (used to key the known finding on inexact orientation of collinear doubles)
//       I tolHex <g>     GEOSMaximumInscribedCircle_r       K ratioHex holes <g>   GEOSConcaveHull_r (+ isValid)
#include <geos_c.h>
#include <geos/shape/fractal/HilbertCode.h>
#include <geos/geom/Coordinate.h>
#include <cmath>
#include <cstdarg>
#include <cstdint>
#include <cstdio>
#include <cstring>
#include <iostream>
#include <sstream>
#include <string>
#include <vector>

static GEOSContextHandle_t h;
static std::string lastErr;
static void onErr(const char* m, void*) { lastErr = m ? m : ""; for (auto& c : lastErr) if (c == '\n' || c == ';' || c == '|') c = ' '; }
static void onNote(const char*, void*) {}

static double unhex(const std::string& s) { uint64_t b = std::stoull(s, nullptr, 16); double d; memcpy(&d, &b, 8); return d; }
static std::string hex(double d) { uint64_t b; memcpy(&b, &d, 8); char buf[20]; snprintf(buf, sizeof buf, "%016llx", (unsigned long long)b); return buf; }

struct Toks { std::vector<std::string> t; size_t i = 0; bool bad = false;
    std::string next() { if (i >= t.size()) { bad = true; return "0"; } return t[i++]; }
    long num() { std::string s = next(); try { return std::stol(s); } catch (...) { bad = true; return 0; } } };

static GEOSCoordSequence* readSeq(Toks& tk) {
    long n = tk.num(); if (tk.bad || n < 0 || n > 1000000) { tk.bad = true; return nullptr; }
    GEOSCoordSequence* cs = GEOSCoordSeq_create_r(h, (unsigned)n, 2);
    for (long k = 0; k < n; k++) { double x = unhex(tk.next()); double y = unhex(tk.next()); GEOSCoordSeq_setXY_r(h, cs, (unsigned)k, x, y); }
    return cs;
}
static GEOSGeometry* readGeom(Toks& tk) {
    std::string k = tk.next();
    if (k == "P") { long n = tk.num(); if (n == 0) return GEOSGeom_createEmptyPoint_r(h);
        double x = unhex(tk.next()), y = unhex(tk.next()); return GEOSGeom_createPointFromXY_r(h, x, y); }
    if (k == "L") { GEOSCoordSequence* cs = readSeq(tk); return cs ? GEOSGeom_createLineString_r(h, cs) : nullptr; }
    if (k == "R") { GEOSCoordSequence* cs = readSeq(tk); return cs ? GEOSGeom_createLinearRing_r(h, cs) : nullptr; }
    if (k == "Y") { long nr = tk.num(); if (nr == 0) return GEOSGeom_createEmptyPolygon_r(h);
        std::vector<GEOSGeometry*> rings;
        for (long r = 0; r < nr; r++) { GEOSCoordSequence* cs = readSeq(tk); GEOSGeometry* lr = cs ? GEOSGeom_createLinearRing_r(h, cs) : nullptr;
            if (!lr) { for (auto g : rings) GEOSGeom_destroy_r(h, g); return nullptr; } rings.push_back(lr); }
        return GEOSGeom_createPolygon_r(h, rings[0], rings.size() > 1 ? &rings[1] : nullptr, (unsigned)rings.size() - 1); }
    if (k == "M") { long t = tk.num(); long n = tk.num(); std::vector<GEOSGeometry*> gs;
        for (long e = 0; e < n; e++) { GEOSGeometry* g = readGeom(tk); if (!g) { for (auto x : gs) GEOSGeom_destroy_r(h, x); return nullptr; } gs.push_back(g); }
        if (n == 0) return GEOSGeom_createEmptyCollection_r(h, (int)t);
        return GEOSGeom_createCollection_r(h, (int)t, gs.data(), (unsigned)n); }
    tk.bad = true; return nullptr;
}
static void showSeq(const GEOSCoordSequence* cs, std::string& o) {
    unsigned n = 0; GEOSCoordSeq_getSize_r(h, cs, &n); o += std::to_string(n);
    for (unsigned k = 0; k < n; k++) { double x, y; GEOSCoordSeq_getXY_r(h, cs, k, &x, &y); o += " " + hex(x) + " " + hex(y); }
}
static void show(const GEOSGeometry* g, std::string& o) {
    int t = GEOSGeomTypeId_r(h, g);
    if (t == GEOS_POINT) { if (GEOSisEmpty_r(h, g)) { o += "P 0"; return; } double x, y; GEOSGeomGetX_r(h, g, &x); GEOSGeomGetY_r(h, g, &y); o += "P 1 " + hex(x) + " " + hex(y); return; }
    if (t == GEOS_LINESTRING || t == GEOS_LINEARRING) { o += (t == GEOS_LINESTRING ? "L " : "R "); showSeq(GEOSGeom_getCoordSeq_r(h, g), o); return; }
    if (t == GEOS_POLYGON) { if (GEOSisEmpty_r(h, g)) { o += "Y 0"; return; } int nh = GEOSGetNumInteriorRings_r(h, g);
        o += "Y " + std::to_string(nh + 1) + " "; showSeq(GEOSGeom_getCoordSeq_r(h, GEOSGetExteriorRing_r(h, g)), o);
        for (int k = 0; k < nh; k++) { o += " "; showSeq(GEOSGeom_getCoordSeq_r(h, GEOSGetInteriorRingN_r(h, g, k)), o); } return; }
    if (t >= GEOS_MULTIPOINT && t <= GEOS_GEOMETRYCOLLECTION) { int n = GEOSGetNumGeometries_r(h, g); o += "M " + std::to_string(t) + " " + std::to_string(n);
        for (int k = 0; k < n; k++) { o += " "; show(GEOSGetGeometryN_r(h, g, k), o); } return; }
    o += "T" + std::to_string(t);
}
static std::string sg(GEOSGeometry* g, bool destroy = true) {        // geometry result or error
    if (!g) return "ERR:" + lastErr;
    std::string o; show(g, o); if (destroy) GEOSGeom_destroy_r(h, g); return o;
}
static std::string measures(const GEOSGeometry* g) {
    double a = NAN, l = NAN; GEOSArea_r(h, g, &a); GEOSLength_r(h, g, &l);
    std::ostringstream s; s << hex(a) << " " << hex(l) << " " << GEOSGetNumCoordinates_r(h, g) << " " << GEOSGetNumGeometries_r(h, g)
      << " " << GEOSGeom_getDimensions_r(h, g) << " " << (int)GEOSisEmpty_r(h, g) << " " << GEOSGeomTypeId_r(h, g);
    return s.str();
}
static Toks toks(const std::string& s);
// an independently constructed copy (parsed back from the geometry's own text) compared in both argument orders; nothing between
// the operation that produced g and these comparisons queries g's envelope.  result: eqi(g,x) eqi(x,g) eqx(g,x) eqx(x,g)
static std::string indep(GEOSGeometry* g) {
    if (!g) return "ERR";
    std::string txt; show(g, txt);
    Toks t = toks(txt); GEOSGeometry* x = readGeom(t);
    if (!x || t.bad) { if (x) GEOSGeom_destroy_r(h, x); return "ERR"; }
    std::string o = std::to_string((int)GEOSEqualsIdentical_r(h, g, x)) + std::to_string((int)GEOSEqualsIdentical_r(h, x, g))
                  + std::to_string((int)GEOSEqualsExact_r(h, g, x, 0.0)) + std::to_string((int)GEOSEqualsExact_r(h, x, g, 0.0));
    GEOSGeom_destroy_r(h, x); return o;
}
static std::vector<std::string> splitBar(const std::string& s) { std::vector<std::string> v; std::stringstream ss(s); std::string t; while (std::getline(ss, t, '|')) v.push_back(t); return v; }
static Toks toks(const std::string& s) { Toks t; std::stringstream ss(s); std::string w; while (ss >> w) t.t.push_back(w); return t; }

int main() {
    h = GEOS_init_r();
    GEOSContext_setErrorMessageHandler_r(h, onErr, nullptr);
    GEOSContext_setNoticeMessageHandler_r(h, onNote, nullptr);
    std::string line;
    while (std::getline(std::cin, line)) {
        std::string out; lastErr.clear();
        Toks tk = toks(line);
        std::string op = tk.next();
        if (op == "H") { unsigned level = (unsigned)tk.num(); unsigned x = (unsigned)tk.num(), y = (unsigned)tk.num();
            uint32_t c1 = 0; bool thrown = false;
            try { c1 = geos::shape::fractal::HilbertCode::encode(level, x, y); } catch (...) { thrown = true; }
            // the same through the C API: extent [0, 2^level-1]^2 (stride exactly 1), the geometry is the point (x,y)
            double hs = std::pow(2.0, level) - 1;
            GEOSCoordSequence* cs = GEOSCoordSeq_create_r(h, 2, 2); GEOSCoordSeq_setXY_r(h, cs, 0, 0, 0); GEOSCoordSeq_setXY_r(h, cs, 1, hs, hs);
            GEOSGeometry* ext = GEOSGeom_createLineString_r(h, cs); GEOSGeometry* p = GEOSGeom_createPointFromXY_r(h, x, y);
            unsigned code = 0; int rc = (ext && p) ? GEOSHilbertCode_r(h, p, ext, level, &code) : -7;
            if (ext) GEOSGeom_destroy_r(h, ext); if (p) GEOSGeom_destroy_r(h, p);
            out = (thrown ? std::string("THROW") : std::to_string(c1)) + " " + (rc == 1 ? std::to_string(code) : "ERR");
        } else if (op == "O") { double v[6]; for (int k = 0; k < 6; k++) v[k] = unhex(tk.next());
            out = std::to_string(GEOSOrientationIndex_r(h, v[0], v[1], v[2], v[3], v[4], v[5]));
        } else if (op == "D") { unsigned level = (unsigned)tk.num(); unsigned i = (unsigned)tk.num();
            try { auto c = geos::shape::fractal::HilbertCode::decode(level, i); out = hex(c.x) + " " + hex(c.y); } catch (...) { out = "THROW"; }
        } else if (op == "U") {
            GEOSGeometry* g = readGeom(tk);
            if (!g || tk.bad) { out = "BADINPUT:" + lastErr; if (g) GEOSGeom_destroy_r(h, g); }
            else {
                out += "in=" + sg(g, false);
                out += " ; hull=" + sg(GEOSConvexHull_r(h, g));
                out += " ; env=" + sg(GEOSEnvelope_r(h, g));
                out += " ; cent=" + sg(GEOSGetCentroid_r(h, g));
                out += " ; pos=" + sg(GEOSPointOnSurface_r(h, g));
                { double r = NAN; GEOSGeometry* c = nullptr; GEOSGeometry* m = GEOSMinimumBoundingCircle_r(h, g, &r, &c);
                  out += " ; mbc=" + sg(m); out += " ; mbcr=" + hex(r); out += " ; mbcc=" + sg(c); }
                out += " ; mrr=" + sg(GEOSMinimumRotatedRectangle_r(h, g));
                out += " ; mw=" + sg(GEOSMinimumWidth_r(h, g));
                out += " ; bnd=" + sg(GEOSBoundary_r(h, g));
                out += " ; uniq=" + sg(GEOSGeom_extractUniquePoints_r(h, g));
                out += " ; meas=" + measures(g);
                out += " ; valid=" + std::to_string((int)GEOSisValid_r(h, g));
                GEOSGeom_destroy_r(h, g);
            }
        } else if (op == "N") {
            GEOSGeometry* g = readGeom(tk);
            if (!g || tk.bad) { out = "BADINPUT:" + lastErr; if (g) GEOSGeom_destroy_r(h, g); }
            else {
                out += "in=" + sg(g, false) + " ; meas=" + measures(g);
                GEOSGeometry* cl = GEOSGeom_clone_r(h, g);
                out += " ; ind_clone=" + indep(cl);
                out += " ; clone=" + sg(cl, false) + " ; cloneM=" + (cl ? measures(cl) : "ERR");
                out += " ; eqx_clone=" + std::to_string(cl ? (int)GEOSEqualsExact_r(h, g, cl, 0.0) : -9) + " ; eqi_clone=" + std::to_string(cl ? (int)GEOSEqualsIdentical_r(h, g, cl) : -9);
                GEOSGeometry* n1 = GEOSGeom_clone_r(h, g); int rc1 = n1 ? GEOSNormalize_r(h, n1) : -9;
                out += " ; ind_norm=" + (rc1 == 0 ? indep(n1) : std::string("ERR"));       // first thing after normalize
                out += " ; norm=" + (rc1 == 0 ? sg(n1, false) : "ERR:" + lastErr) + " ; normM=" + (rc1 == 0 ? measures(n1) : "ERR");
                GEOSGeometry* n2 = (rc1 == 0) ? GEOSGeom_clone_r(h, n1) : nullptr; int rc2 = n2 ? GEOSNormalize_r(h, n2) : -9;
                out += " ; ind_norm2=" + (rc2 == 0 ? indep(n2) : std::string("ERR"));
                out += " ; norm2=" + (rc2 == 0 ? sg(n2, false) : "ERR:" + lastErr);
                out += " ; eqx_n12=" + std::to_string(rc2 == 0 ? (int)GEOSEqualsExact_r(h, n1, n2, 0.0) : -9) + " ; eqi_n12=" + std::to_string(rc2 == 0 ? (int)GEOSEqualsIdentical_r(h, n1, n2) : -9);
                GEOSGeometry* r1 = GEOSReverse_r(h, g);
                out += " ; ind_rev=" + indep(r1);
                out += " ; rev=" + sg(r1, false) + " ; revM=" + (r1 ? measures(r1) : "ERR");
                GEOSGeometry* r2 = r1 ? GEOSReverse_r(h, r1) : nullptr;
                out += " ; ind_revrev=" + indep(r2);
                out += " ; revrev=" + sg(r2, false);
                out += " ; eqx_rr=" + std::to_string(r2 ? (int)GEOSEqualsExact_r(h, g, r2, 0.0) : -9) + " ; eqi_rr=" + std::to_string(r2 ? (int)GEOSEqualsIdentical_r(h, g, r2) : -9);
                // normal form of the reversed geometry
                GEOSGeometry* nr = r1 ? GEOSGeom_clone_r(h, r1) : nullptr; int rc3 = nr ? GEOSNormalize_r(h, nr) : -9;
                out += " ; normrev=" + (rc3 == 0 ? sg(nr, false) : "ERR:" + lastErr);
                for (int cw = 1; cw >= 0; cw--) { GEOSGeometry* o = GEOSGeom_clone_r(h, g); int rc = o ? GEOSOrientPolygons_r(h, o, cw) : -9;
                    out += std::string(" ; ori") + (cw ? "1" : "0") + "=" + (rc == 0 ? sg(o, false) : "ERR:" + lastErr) + std::string(" ; ori") + (cw ? "1" : "0") + "M=" + (rc == 0 ? measures(o) : "ERR");
                    if (o) GEOSGeom_destroy_r(h, o); }
                for (GEOSGeometry* x : {cl, n1, n2, r1, r2, nr, g}) if (x) GEOSGeom_destroy_r(h, x);
            }
        } else if (op == "E") {
            auto parts = splitBar(line.substr(1));
            Toks ta = toks(parts.size() > 0 ? parts[0] : ""), tb = toks(parts.size() > 1 ? parts[1] : "");
            GEOSGeometry* a = readGeom(ta); GEOSGeometry* b = readGeom(tb);
            if (!a || !b || ta.bad || tb.bad) out = "BADINPUT:" + lastErr;
            else {
                out += "eqx=" + std::to_string((int)GEOSEqualsExact_r(h, a, b, 0.0)) + " ; eqi=" + std::to_string((int)GEOSEqualsIdentical_r(h, a, b));
                int ra = GEOSNormalize_r(h, a), rb = GEOSNormalize_r(h, b);
                if (ra == 0 && rb == 0) {
                    out += " ; eqx_n=" + std::to_string((int)GEOSEqualsExact_r(h, a, b, 0.0)) + " ; eqi_n=" + std::to_string((int)GEOSEqualsIdentical_r(h, a, b));
                    out += " ; na=" + sg(a, false) + " ; nb=" + sg(b, false);
                } else out += " ; eqx_n=ERR ; eqi_n=ERR ; na=ERR:" + lastErr + " ; nb=ERR";
            }
            if (a) GEOSGeom_destroy_r(h, a); if (b) GEOSGeom_destroy_r(h, b);
        } else if (op == "I") {
            double tol = unhex(tk.next()); GEOSGeometry* g = readGeom(tk);
            if (!g || tk.bad) out = "BADINPUT:" + lastErr; else out = "mic=" + sg(GEOSMaximumInscribedCircle_r(h, g, tol));
            if (g) GEOSGeom_destroy_r(h, g);
        } else if (op == "K") {
            double ratio = unhex(tk.next()); unsigned holes = (unsigned)tk.num(); GEOSGeometry* g = readGeom(tk);
            if (!g || tk.bad) out = "BADINPUT:" + lastErr;
            else { GEOSGeometry* c = GEOSConcaveHull_r(h, g, ratio, holes); out = "chull=" + sg(c, false) + " ; valid=" + std::to_string(c ? (int)GEOSisValid_r(h, c) : -9);
                   GEOSGeometry* hu = GEOSConvexHull_r(h, g); out += " ; hull=" + sg(hu); if (c) GEOSGeom_destroy_r(h, c); }
            if (g) GEOSGeom_destroy_r(h, g);
        } else out = "?";
        puts(out.c_str()); fflush(stdout);
    }
    GEOS_finish_r(h);
    return 0;
}
