// C13 harness: run generated programs of reentrant C API calls in N threads (each with its own context and its own objects,
// optionally reading shared immutable geometries / a shared pre-built STRtree / a shared pre-warmed prepared geometry) and print
// one transcript per thread.  argv[1] = par | seq  (seq: the same programs one after the other in the main thread).
// Built with -fsanitize=thread against the tsan build of the library: every ThreadSanitizer report goes to TSAN_OPTIONS log_path.
//
// stdin:   shared <hexwkb> <hexwkb> ...
//          seed <n>
//          cold                                (optional: cold-start round, see main)
//          thread <op> ; <op> ; ...            (one line per thread)
//          fresh <mode>:<hexwkb> ...           shared geometries nobody has queried yet (see main)
// operands: P<i> private slot of the thread, S<i> shared geometry (read only), F<i> fresh shared geometry (read only)
// stdout:  T<i> <result> <result> ...          one token per op (wkb / free / ctx: none; rwkt / rjson: two)
#include <geos_c.h>
#include <atomic>
#include <cstdarg>
#include <cstdint>
#include <cstdio>
#include <cstdlib>
#include <cstring>
#include <iostream>
#include <pthread.h>
#include <sched.h>
#include <sstream>
#include <string>
#include <unistd.h>
#include <vector>

static std::vector<GEOSGeometry*> shared;
static std::vector<GEOSGeometry*> fresh;    // shared immutable geometries that NO call has touched since they were read / cloned / constructed
static GEOSSTRtree* shared_tree = nullptr;
static const GEOSPreparedGeometry* shared_prep = nullptr;
static std::vector<std::vector<std::string>> programs;
static std::vector<std::string> transcripts;
static uint64_t seed = 1;
static bool parallel = true;
static pthread_barrier_t barrier;

static void quiet(const char*, ...) {}
static uint64_t fnv(const std::string& s) { uint64_t x = 1469598103934665603ULL; for (unsigned char c : s) { x ^= c; x *= 1099511628211ULL; } return x; }
static std::string hx(uint64_t v) { char b[32]; snprintf(b, 32, "%016llx", (unsigned long long)v); return b; }
static std::string dbl(double d) { uint64_t u; memcpy(&u, &d, 8); return hx(u); }

struct Th {
    int id; GEOSContextHandle_t h; std::vector<GEOSGeometry*> slot; std::string out; uint64_t rng; GEOSWKBWriter* ww; GEOSWKTWriter* tw;
    void open() { h = GEOS_init_r(); GEOSContext_setErrorHandler_r(h, quiet); GEOSContext_setNoticeHandler_r(h, quiet);
                  ww = GEOSWKBWriter_create_r(h); GEOSWKBWriter_setOutputDimension_r(h, ww, 3); tw = GEOSWKTWriter_create_r(h); GEOSWKTWriter_setRoundingPrecision_r(h, tw, 17); }
    void close() { for (auto& g : slot) if (g) { GEOSGeom_destroy_r(h, g); g = nullptr; } GEOSWKBWriter_destroy_r(h, ww); GEOSWKTWriter_destroy_r(h, tw); GEOS_finish_r(h); }
    const GEOSGeometry* get(const std::string& o) {
        size_t i = (size_t)atoi(o.c_str() + 1);
        if (o[0] == 'S') return i < shared.size() ? shared[i] : nullptr;
        if (o[0] == 'F') return i < fresh.size() ? fresh[i] : nullptr;
        return i < slot.size() ? slot[i] : nullptr;
    }
    void put(const std::string& o, GEOSGeometry* g) {
        size_t i = (size_t)atoi(o.c_str() + 1); if (slot.size() <= i) slot.resize(i + 1, nullptr);
        if (slot[i]) GEOSGeom_destroy_r(h, slot[i]); slot[i] = g;
    }
    std::string gh(const GEOSGeometry* g) {
        if (!g) return "NULL";
        size_t n = 0; unsigned char* b = GEOSWKBWriter_writeHEX_r(h, ww, g, &n); if (!b) return "WKBFAIL";
        std::string s((char*)b, n); GEOSFree_r(h, b); return hx(fnv(s));
    }
    void emit(const std::string& s) { out += " " + s; }
    void jitter() {
        if (!parallel) return;
        rng ^= rng << 13; rng ^= rng >> 7; rng ^= rng << 17;
        switch (rng & 7) { case 0: sched_yield(); break; case 1: usleep((unsigned)((rng >> 8) % 150)); break; default: break; }
    }
};

static void qcb(void* item, void* ud) { (void)item; ++*(long*)ud; }

static void run_op(Th& t, const std::string& opline) {
    std::stringstream ss(opline); std::string op; ss >> op;
    if (op.empty()) return;
    std::string a, b, c; double d = 0; GEOSContextHandle_t h = t.h;
    if (op == "ctx") { t.close(); t.open(); return; }
    if (op == "dump") { ss >> a; const GEOSGeometry* g = t.get(a); char* w = g ? GEOSWKTWriter_write_r(h, t.tw, g) : nullptr; fprintf(stderr, "DUMP %s %s\n", a.c_str(), w ? w : "NULL"); if (w) GEOSFree_r(h, w); return; }   // debugging aid, never generated
    if (op == "wkb") { ss >> a >> b; t.put(a, GEOSGeomFromHEX_buf_r(h, (const unsigned char*)b.data(), b.size())); return; }
    if (op == "free") { ss >> a; t.put(a, nullptr); return; }
    if (op == "clone") { ss >> a >> b; const GEOSGeometry* g = t.get(b); t.put(a, g ? GEOSGeom_clone_r(h, g) : nullptr); t.emit(t.gh(t.get(a))); return; }
    if (op == "rwkt") { ss >> a >> b; const GEOSGeometry* g = t.get(b); if (!g) { t.emit("NULL"); t.emit("NULL"); return; }
        char* w = GEOSWKTWriter_write_r(h, t.tw, g); GEOSGeometry* r = w ? GEOSGeomFromWKT_r(h, w) : nullptr; t.emit(w ? hx(fnv(w)) : "NULL"); if (w) GEOSFree_r(h, w); t.put(a, r); t.emit(t.gh(r)); return; }
    if (op == "rjson") { ss >> a >> b; const GEOSGeometry* g = t.get(b); if (!g) { t.emit("NULL"); t.emit("NULL"); return; }
        GEOSGeoJSONWriter* jw = GEOSGeoJSONWriter_create_r(h); char* w = GEOSGeoJSONWriter_writeGeometry_r(h, jw, g, -1); GEOSGeoJSONWriter_destroy_r(h, jw);
        GEOSGeoJSONReader* jr = GEOSGeoJSONReader_create_r(h); GEOSGeometry* r = w ? GEOSGeoJSONReader_readGeometry_r(h, jr, w) : nullptr; GEOSGeoJSONReader_destroy_r(h, jr);
        t.emit(w ? hx(fnv(w)) : "NULL"); if (w) GEOSFree_r(h, w); t.put(a, r); t.emit(t.gh(r)); return; }
    // ---- unary -> value
    static const char* UV[] = {"area", "length", "isvalid", "issimple", "isempty", "npts", "wkbhash", "ngeoms", "validreason", "minclear", "extent", "xmin", "cdim", "hasz", nullptr};
    for (int i = 0; UV[i]; i++) if (op == UV[i]) {
        ss >> a; const GEOSGeometry* g = t.get(a); if (!g) { t.emit("NULL"); return; }
        double v = 0;
        if (op == "area") { int ok = GEOSArea_r(h, g, &v); t.emit(ok ? dbl(v) : "ERR"); }
        else if (op == "length") { int ok = GEOSLength_r(h, g, &v); t.emit(ok ? dbl(v) : "ERR"); }
        else if (op == "isvalid") t.emit(std::to_string((int)GEOSisValid_r(h, g)));
        else if (op == "issimple") t.emit(std::to_string((int)GEOSisSimple_r(h, g)));
        else if (op == "isempty") t.emit(std::to_string((int)GEOSisEmpty_r(h, g)));
        else if (op == "npts") t.emit(std::to_string(GEOSGetNumCoordinates_r(h, g)));
        else if (op == "ngeoms") t.emit(std::to_string(GEOSGetNumGeometries_r(h, g)));
        else if (op == "wkbhash") t.emit(t.gh(g));
        else if (op == "validreason") { char* r = GEOSisValidReason_r(h, g); t.emit(r ? hx(fnv(r)) : "NULL"); if (r) GEOSFree_r(h, r); }
        else if (op == "extent") { double x0 = 0, y0 = 0, x1 = 0, y1 = 0; int ok = GEOSGeom_getExtent_r(h, g, &x0, &y0, &x1, &y1); t.emit(ok ? dbl(x0) + dbl(y0) + dbl(x1) + dbl(y1) : "ERR"); }
        else if (op == "cdim") t.emit(std::to_string(GEOSGeom_getCoordinateDimension_r(h, g)));
        else if (op == "hasz") t.emit(std::to_string((int)GEOSHasZ_r(h, g)));
        else if (op == "xmin") { int ok = GEOSGeom_getXMin_r(h, g, &v); t.emit(ok ? dbl(v) : "ERR"); }
        else if (op == "minclear") { int rc = GEOSMinimumClearance_r(h, g, &v); t.emit(rc == 0 ? dbl(v) : "ERR"); }
        return;
    }
    // ---- unary -> geometry (stored in a private slot)
    static const char* UG[] = {"buffer", "hull", "centroid", "envelope", "boundary", "pos", "makevalid", "uunion", "simplify", "tpsimplify", "delaunay", "node",
                               "polygonize", "linemerge", "normalize", "reverse", "mic", "minrect", "offset", "densify", "concave", nullptr};
    for (int i = 0; UG[i]; i++) if (op == UG[i]) {
        ss >> a >> b >> d; const GEOSGeometry* g = t.get(b); if (!g) { t.emit("NULL"); return; }
        GEOSGeometry* r = nullptr;
        if (op == "buffer") r = GEOSBuffer_r(h, g, d, 6);
        else if (op == "hull") r = GEOSConvexHull_r(h, g);
        else if (op == "centroid") r = GEOSGetCentroid_r(h, g);
        else if (op == "envelope") r = GEOSEnvelope_r(h, g);
        else if (op == "boundary") r = GEOSBoundary_r(h, g);
        else if (op == "pos") r = GEOSPointOnSurface_r(h, g);
        else if (op == "makevalid") r = GEOSMakeValid_r(h, g);
        else if (op == "uunion") r = GEOSUnaryUnion_r(h, g);
        else if (op == "simplify") r = GEOSSimplify_r(h, g, d);
        else if (op == "tpsimplify") r = GEOSTopologyPreserveSimplify_r(h, g, d);
        else if (op == "delaunay") r = GEOSDelaunayTriangulation_r(h, g, 0.0, 0);
        else if (op == "node") r = GEOSNode_r(h, g);
        else if (op == "polygonize") { const GEOSGeometry* arr[1] = {g}; r = GEOSPolygonize_r(h, arr, 1); }
        else if (op == "linemerge") r = GEOSLineMerge_r(h, g);
        else if (op == "normalize") { r = GEOSGeom_clone_r(h, g); if (r) GEOSNormalize_r(h, r); }
        else if (op == "reverse") r = GEOSReverse_r(h, g);
        else if (op == "mic") r = GEOSMaximumInscribedCircle_r(h, g, d > 0 ? d : 0.5);
        else if (op == "minrect") r = GEOSMinimumRotatedRectangle_r(h, g);
        else if (op == "offset") r = GEOSOffsetCurve_r(h, g, d, 6, GEOSBUF_JOIN_ROUND, 5.0);
        else if (op == "densify") r = GEOSDensify_r(h, g, d > 0 ? d : 1.0);
        else if (op == "concave") r = GEOSConcaveHull_r(h, g, d, 0);
        t.put(a, r); t.emit(t.gh(r)); return;
    }
    // ---- binary -> value
    static const char* BV[] = {"intersects", "contains", "touches", "within", "covers", "equals", "disjoint", "overlaps", "crosses", "relate", "distance", "hausdorff", "equalsexact", nullptr};
    for (int i = 0; BV[i]; i++) if (op == BV[i]) {
        ss >> a >> b; const GEOSGeometry *g1 = t.get(a), *g2 = t.get(b); if (!g1 || !g2) { t.emit("NULL"); return; }
        double v = 0;
        if (op == "intersects") t.emit(std::to_string((int)GEOSIntersects_r(h, g1, g2)));
        else if (op == "contains") t.emit(std::to_string((int)GEOSContains_r(h, g1, g2)));
        else if (op == "touches") t.emit(std::to_string((int)GEOSTouches_r(h, g1, g2)));
        else if (op == "within") t.emit(std::to_string((int)GEOSWithin_r(h, g1, g2)));
        else if (op == "covers") t.emit(std::to_string((int)GEOSCovers_r(h, g1, g2)));
        else if (op == "equals") t.emit(std::to_string((int)GEOSEquals_r(h, g1, g2)));
        else if (op == "disjoint") t.emit(std::to_string((int)GEOSDisjoint_r(h, g1, g2)));
        else if (op == "overlaps") t.emit(std::to_string((int)GEOSOverlaps_r(h, g1, g2)));
        else if (op == "crosses") t.emit(std::to_string((int)GEOSCrosses_r(h, g1, g2)));
        else if (op == "equalsexact") t.emit(std::to_string((int)GEOSEqualsExact_r(h, g1, g2, 0.0)));
        else if (op == "relate") { char* r = GEOSRelate_r(h, g1, g2); t.emit(r ? r : "NULL"); if (r) GEOSFree_r(h, r); }
        else if (op == "distance") { int ok = GEOSDistance_r(h, g1, g2, &v); t.emit(ok ? dbl(v) : "ERR"); }
        else if (op == "hausdorff") { int ok = GEOSHausdorffDistance_r(h, g1, g2, &v); t.emit(ok ? dbl(v) : "ERR"); }
        return;
    }
    // ---- binary -> geometry
    static const char* BG[] = {"inter", "union", "diff", "symdiff", "snap", "sharedpaths", "nearest", nullptr};
    for (int i = 0; BG[i]; i++) if (op == BG[i]) {
        ss >> a >> b >> c >> d; const GEOSGeometry *g1 = t.get(b), *g2 = t.get(c); if (!g1 || !g2) { t.emit("NULL"); return; }
        GEOSGeometry* r = nullptr;
        if (op == "inter") r = GEOSIntersection_r(h, g1, g2);
        else if (op == "union") r = GEOSUnion_r(h, g1, g2);
        else if (op == "diff") r = GEOSDifference_r(h, g1, g2);
        else if (op == "symdiff") r = GEOSSymDifference_r(h, g1, g2);
        else if (op == "snap") r = GEOSSnap_r(h, g1, g2, d);
        else if (op == "sharedpaths") r = GEOSSharedPaths_r(h, g1, g2);
        else if (op == "nearest") { GEOSCoordSequence* cs = GEOSNearestPoints_r(h, g1, g2); r = cs ? GEOSGeom_createLineString_r(h, cs) : nullptr; }
        t.put(a, r); t.emit(t.gh(r)); return;
    }
    // ---- fixed-precision operations (snap-rounding). Their results may differ in the SIGN OF ZERO between identical calls (random insertion
    //      order in HotPixelIndex), so the result is not kept and the transcript records quantities that do not see the sign of zero.
    if (op == "setprec" || op == "unionprec" || op == "interprec" || op == "diffprec" || op == "uunionprec") {
        ss >> a >> b >> d; const GEOSGeometry *g1 = t.get(a), *g2 = t.get(b); if (!g1 || (!g2 && op != "setprec" && op != "uunionprec")) { t.emit("NULL"); return; }
        GEOSGeometry* r = op == "setprec" ? GEOSGeom_setPrecision_r(h, g1, d, 0) : op == "uunionprec" ? GEOSUnaryUnionPrec_r(h, g1, d) : op == "unionprec" ? GEOSUnionPrec_r(h, g1, g2, d)
                        : op == "interprec" ? GEOSIntersectionPrec_r(h, g1, g2, d) : GEOSDifferencePrec_r(h, g1, g2, d);
        if (!r) { t.emit("NULL"); return; }
        double ar = 0, ln = 0; GEOSArea_r(h, r, &ar); GEOSLength_r(h, r, &ln);
        t.emit(dbl(ar + 0.0) + ":" + dbl(ln + 0.0) + ":" + std::to_string(GEOSGetNumCoordinates_r(h, r))); GEOSGeom_destroy_r(h, r); return;
    }
    // ---- a prepared geometry owned by this thread (built lazily, used, destroyed here)
    if (op == "prepq") {
        ss >> a >> b; const GEOSGeometry *g1 = t.get(a), *g2 = t.get(b); if (!g1 || !g2) { t.emit("NULL"); return; }
        const GEOSPreparedGeometry* p = GEOSPrepare_r(h, g1); if (!p) { t.emit("PREPFAIL"); return; }
        std::string s; s += std::to_string((int)GEOSPreparedIntersects_r(h, p, g2)); s += std::to_string((int)GEOSPreparedContains_r(h, p, g2));
        s += std::to_string((int)GEOSPreparedCovers_r(h, p, g2)); s += std::to_string((int)GEOSPreparedTouches_r(h, p, g2)); s += std::to_string((int)GEOSPreparedWithin_r(h, p, g2));
        double dd = 0; int ok = GEOSPreparedDistance_r(h, p, g2, &dd); s += ok ? ":" + dbl(dd) : ":ERR";
        GEOSPreparedGeom_destroy_r(h, p); t.emit(s); return;
    }
    // ---- the shared prepared geometry (every index it builds lazily was built before the threads started)
    if (op == "spq") {
        ss >> a; const GEOSGeometry* g2 = t.get(a); if (!g2 || !shared_prep) { t.emit("NULL"); return; }
        std::string s; s += std::to_string((int)GEOSPreparedIntersects_r(h, shared_prep, g2)); s += std::to_string((int)GEOSPreparedContains_r(h, shared_prep, g2));
        s += std::to_string((int)GEOSPreparedCovers_r(h, shared_prep, g2)); t.emit(s); return;
    }
    // ---- STRtree owned by this thread: built from the envelopes of its slots, queried, destroyed
    if (op == "tree") {
        ss >> a; const GEOSGeometry* q = t.get(a); if (!q) { t.emit("NULL"); return; }
        GEOSSTRtree* tr = GEOSSTRtree_create_r(h, 4); long items = 0;
        for (auto* g : t.slot) if (g) { GEOSSTRtree_insert_r(h, tr, g, (void*)g); items++; }
        for (auto* g : shared) { GEOSSTRtree_insert_r(h, tr, g, (void*)g); items++; }
        for (auto* g : fresh) { GEOSSTRtree_insert_r(h, tr, g, (void*)g); items++; }
        long hits = 0; GEOSSTRtree_query_r(h, tr, q, qcb, &hits); GEOSSTRtree_destroy_r(h, tr);
        t.emit(std::to_string(items) + "/" + std::to_string(hits)); return;
    }
    // ---- the shared, already built STRtree: query only
    if (op == "stq") {
        ss >> a; const GEOSGeometry* q = t.get(a); if (!q || !shared_tree) { t.emit("NULL"); return; }
        long hits = 0; GEOSSTRtree_query_r(h, shared_tree, q, qcb, &hits); t.emit(std::to_string(hits)); return;
    }
    t.emit("BADOP:" + op);
}

static void* worker(void* arg) {
    Th& t = *(Th*)arg;
    if (parallel) pthread_barrier_wait(&barrier);
    t.open();
    for (auto& op : programs[(size_t)t.id]) { t.jitter(); run_op(t, op); }
    t.close();
    return nullptr;
}

int main(int argc, char** argv) {
    parallel = !(argc > 1 && std::string(argv[1]) == "seq");
    std::string line;
    std::vector<std::string> lines; bool cold = false;
    while (std::getline(std::cin, line)) { lines.push_back(line); if (line == "cold") cold = true; }
    // cold start: the main thread makes NO GEOS call before the workers exist, so the very first use of every process-wide object
    // (default factory, lazily initialised statics) happens concurrently in the workers, which start with GEOS_init_r at the barrier
    GEOSContextHandle_t h0 = nullptr;
    if (!cold) { h0 = GEOS_init_r(); GEOSContext_setErrorHandler_r(h0, quiet); GEOSContext_setNoticeHandler_r(h0, quiet); }
    for (const std::string& ln : lines) {
        std::stringstream ss(ln); std::string tag; ss >> tag;
        if (tag == "shared" && !cold) { std::string hx; while (ss >> hx) { GEOSGeometry* g = GEOSGeomFromHEX_buf_r(h0, (const unsigned char*)hx.data(), hx.size()); if (g) shared.push_back(g); } }
        else if (tag == "fresh" && !cold) {
            // <mode>:<hex>  b = as read from WKB, t = as read from WKT, c = clone, k = built through the constructor API (line strings),
            // h / u / e = result of convex hull / buffer / envelope
            // the geometry handed to the threads is never passed to any other call before they start
            std::string it;
            while (ss >> it) {
                char mode = it[0]; std::string hx = it.substr(2); GEOSGeometry* g = nullptr;
                if (mode == 'b') g = GEOSGeomFromHEX_buf_r(h0, (const unsigned char*)hx.data(), hx.size());
                else {
                    GEOSGeometry* tmp = GEOSGeomFromHEX_buf_r(h0, (const unsigned char*)hx.data(), hx.size());
                    if (tmp && mode == 't') { GEOSWKTWriter* w = GEOSWKTWriter_create_r(h0); GEOSWKTWriter_setRoundingPrecision_r(h0, w, 17); char* txt = GEOSWKTWriter_write_r(h0, w, tmp);
                        g = txt ? GEOSGeomFromWKT_r(h0, txt) : nullptr; if (txt) GEOSFree_r(h0, txt); GEOSWKTWriter_destroy_r(h0, w); }
                    else if (tmp && mode == 'k' && GEOSGeomTypeId_r(h0, tmp) == GEOS_LINESTRING) {
                        const GEOSCoordSequence* cs = GEOSGeom_getCoordSeq_r(h0, tmp); GEOSCoordSequence* c2 = cs ? GEOSCoordSeq_clone_r(h0, cs) : nullptr; g = c2 ? GEOSGeom_createLineString_r(h0, c2) : nullptr; }
                    else if (tmp && mode == 'h') g = GEOSConvexHull_r(h0, tmp);          // a geometry PRODUCED by an operation, handed over as it came out
                    else if (tmp && mode == 'u') g = GEOSBuffer_r(h0, tmp, 0.5, 3);
                    else if (tmp && mode == 'e') g = GEOSEnvelope_r(h0, tmp);
                    else if (tmp) g = GEOSGeom_clone_r(h0, tmp);
                    if (tmp) GEOSGeom_destroy_r(h0, tmp);
                }
                if (g) fresh.push_back(g);
            }
        }
        else if (tag == "seed") ss >> seed;
        else if (tag == "thread") { std::vector<std::string> ops; std::string rest; std::getline(ss, rest); std::stringstream rs(rest); std::string op;
            while (std::getline(rs, op, ';')) { size_t a = op.find_first_not_of(' '); if (a != std::string::npos) ops.push_back(op.substr(a)); } programs.push_back(ops); }
    }
    // everything lazily built inside shared objects is built now, before any second thread exists
    if (!shared.empty()) {
        shared_tree = GEOSSTRtree_create_r(h0, 4);
        for (auto* g : shared) GEOSSTRtree_insert_r(h0, shared_tree, g, (void*)g);
        GEOSSTRtree_build_r(h0, shared_tree);
        long hits = 0; GEOSSTRtree_query_r(h0, shared_tree, shared[0], qcb, &hits);
        shared_prep = GEOSPrepare_r(h0, shared[0]);
        {   // force every lazily built part of the prepared geometry: point locators, segment index, RelateNG edge stores
            GEOSGeometry* bd = GEOSBoundary_r(h0, shared[0]); GEOSGeometry* bf = GEOSBuffer_r(h0, shared[0], 0.75, 4); GEOSGeometry* ct = GEOSGetCentroid_r(h0, shared[0]);
            GEOSGeometry* bfb = bf ? GEOSBoundary_r(h0, bf) : nullptr;
            const GEOSGeometry* probes[] = {bd, bf, ct, bfb, shared[0]};
            for (const GEOSGeometry* q : probes) if (q) {
                GEOSPreparedIntersects_r(h0, shared_prep, q); GEOSPreparedContains_r(h0, shared_prep, q); GEOSPreparedCovers_r(h0, shared_prep, q);
                GEOSPreparedTouches_r(h0, shared_prep, q); GEOSPreparedOverlaps_r(h0, shared_prep, q); GEOSPreparedCrosses_r(h0, shared_prep, q);
                GEOSPreparedWithin_r(h0, shared_prep, q); GEOSPreparedCoveredBy_r(h0, shared_prep, q); GEOSPreparedContainsProperly_r(h0, shared_prep, q);
                char* r = GEOSPreparedRelate_r(h0, shared_prep, q); if (r) GEOSFree_r(h0, r);
            }
            for (GEOSGeometry* q : {bd, bf, ct, bfb}) if (q) GEOSGeom_destroy_r(h0, q);
        }
        for (auto* g : shared) { GEOSPreparedIntersects_r(h0, shared_prep, g); GEOSPreparedContains_r(h0, shared_prep, g); GEOSPreparedCovers_r(h0, shared_prep, g);
                                 double a = 0; GEOSArea_r(h0, g, &a); GEOSisValid_r(h0, g); GEOSGeom_getXMin_r(h0, g, &a); }
    }
    size_t n = programs.size(); std::vector<Th> th(n); std::vector<pthread_t> tid(n);
    for (size_t i = 0; i < n; i++) { th[i].id = (int)i; th[i].rng = seed * 0x9E3779B97F4A7C15ULL + i * 0xBF58476D1CE4E5B9ULL + 1; }
    if (parallel) {
        pthread_barrier_init(&barrier, nullptr, (unsigned)n);
        for (size_t i = 0; i < n; i++) pthread_create(&tid[i], nullptr, worker, &th[i]);
        for (size_t i = 0; i < n; i++) pthread_join(tid[i], nullptr);
    } else {
        for (size_t i = 0; i < n; i++) worker(&th[i]);
    }
    for (size_t i = 0; i < n; i++) printf("T%zu%s\n", i, th[i].out.c_str());
    if (shared_prep) GEOSPreparedGeom_destroy_r(h0, shared_prep);
    if (shared_tree) GEOSSTRtree_destroy_r(h0, shared_tree);
    for (auto* g : shared) GEOSGeom_destroy_r(h0, g);
    for (auto* g : fresh) GEOSGeom_destroy_r(h0, g);
    if (h0) GEOS_finish_r(h0);
    return 0;
}
