// C08: the facet sequences FacetSequenceTreeBuilder cuts a coordinate sequence into (private members reached by the
// usual trick), one line per input line:   S <n>  ->  start:end start:end ...   for a LineString of n points (n = 1: a Point)
#define private public
#define protected public
#include <geos/operation/distance/FacetSequenceTreeBuilder.h>
#include <geos/operation/distance/FacetSequence.h>
#undef private
#undef protected
#include <geos/geom/GeometryFactory.h>
#include <geos/geom/CoordinateSequence.h>
#include <geos/geom/LineString.h>
#include <geos/geom/Point.h>
#include <iostream>
#include <sstream>
#include <string>
using namespace geos::geom;
using namespace geos::operation::distance;
int main() {
    auto gf = GeometryFactory::create();
    std::string line;
    while (std::getline(std::cin, line)) {
        std::stringstream ss(line); std::string tag; long n = 0; ss >> tag >> n;
        std::unique_ptr<Geometry> g;
        if (n == 1) g = gf->createPoint(Coordinate(3, 4));
        else {
            auto cs = std::make_unique<CoordinateSequence>();
            for (long i = 0; i < n; i++) cs->add(Coordinate((double)i, (double)((i * 7) % 5)));
            g = gf->createLineString(std::move(cs));
        }
        auto secs = FacetSequenceTreeBuilder::computeFacetSequences(g.get());
        std::string o;
        for (auto& s : secs) { if (!o.empty()) o += " "; o += std::to_string(s.start) + ":" + std::to_string(s.end); }
        std::cout << o << std::endl;
    }
    return 0;
}
