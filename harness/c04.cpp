// C04 harness: fixed-precision entry points of the C API and the two leaf classes, on the token format of ocaml/drv_C03.ml
// (ordinates as bit patterns x<16 hex digits> or decimal integers); doubles cross the boundary as bit patterns only.
//   MP <scale> <v>*             PrecisionModel(scale).makePrecise(v) for every v          -> x<bits>*
//   PM <scale>                  members after PrecisionModel(scale)                        -> <scale> <gridSize>
//   HPP cx cy x y               HotPixel(Coordinate(cx,cy), 1.0).intersects(p)                -> 0 | 1
//   HP cx cy p0x p0y p1x p1y    HotPixel(Coordinate(cx,cy), 1.0).intersects(p0, p1)       -> 0 | 1
//   INT|UNI|DIF|SYM <g> | A | B GEOSIntersectionPrec_r ... GEOSSymDifferencePrec_r        -> OK v=<valid> p=<getPrecision bits> <geom> | EXC <msg>
//   UUP <g> | A                 GEOSUnaryUnionPrec_r
//   SETP <g> <flags> | A        GEOSGeom_setPrecision_r
//   HIST <k> (<g> <flags>)*k <op|-> | A [| B]
//                               a precision history: X_i = GEOSGeom_setPrecision_r(X_(i-1), g_i, flags_i) for each operand, then
//                               (op = INT UNI DIF SYM) the plain GEOSIntersection_r ... of the two reduced operands
//                               -> OK ;; S <operand> <i> v=<valid> p=<getPrecision bits> <geom> ;; ... ;; R v= p= <geom>  | EXC <where> <msg>
#define private public
#define protected public
#include <geos/geom/PrecisionModel.h>
#include <geos/noding/snapround/HotPixel.h>
#undef private
#undef protected
#include <geos_c.h>
#include <geos/geom/Coordinate.h>
#include <cstdarg>
#include <cstdint>
#include <cstdio>
#include <cstdlib>
#include <cstring>
#include <iostream>
#include <sstream>
#include <string>
#include <vector>

static GEOSContextHandle_t h;
static std::string lastmsg;
static void on_msg(const char* fmt, ...) {
    char buf[600]; va_list ap; va_start(ap, fmt); vsnprintf(buf, sizeof buf, fmt, ap); va_end(ap);
    lastmsg = buf;
    for (auto& c : lastmsg) if (c == '\n' || c == '\r') c = ' ';
}
struct Toks { std::vector<std::string> t; size_t i = 0; bool bad = false;
  std::string next() { if (i >= t.size()) { bad = true; return "0"; } return t[i++]; }
  std::string peek() { return i < t.size() ? t[i] : ""; } };
static double ord(const std::string& s) {
    if (s.size() == 17 && s[0] == 'x') { uint64_t b = strtoull(s.c_str() + 1, nullptr, 16); double d; memcpy(&d, &b, 8); return d; }
    return strtod(s.c_str(), nullptr);
}
static std::string hx(double d) { uint64_t b; memcpy(&b, &d, 8); char buf[20]; snprintf(buf, sizeof buf, "x%016llx", (unsigned long long)b); return buf; }
typedef std::vector<std::pair<double, double>> Pts;
static Pts takeSeq(Toks& tk) { int n = atoi(tk.next().c_str()); Pts p; for (int k = 0; k < n && !tk.bad; k++) { double x = ord(tk.next()); double y = ord(tk.next()); p.push_back({x, y}); } return p; }
static GEOSCoordSequence* cs(const Pts& p) {
    GEOSCoordSequence* s = GEOSCoordSeq_create_r(h, (unsigned)p.size(), 2);
    for (size_t k = 0; k < p.size(); k++) GEOSCoordSeq_setXY_r(h, s, (unsigned)k, p[k].first, p[k].second);
    return s;
}
static GEOSGeometry* mkPoly(Toks& tk) {
    int k = atoi(tk.next().c_str());
    if (k == 0) return GEOSGeom_createEmptyPolygon_r(h);
    GEOSGeometry* shell = GEOSGeom_createLinearRing_r(h, cs(takeSeq(tk)));
    std::vector<GEOSGeometry*> holes;
    for (int j = 1; j < k; j++) holes.push_back(GEOSGeom_createLinearRing_r(h, cs(takeSeq(tk))));
    for (auto* x : holes) if (!x) return nullptr;
    if (!shell) return nullptr;
    return GEOSGeom_createPolygon_r(h, shell, holes.data(), (unsigned)holes.size());
}
static GEOSGeometry* mkPoint(Toks& tk) {
    if (tk.peek() == "E") { tk.next(); return GEOSGeom_createEmptyPoint_r(h); }
    double x = ord(tk.next()); double y = ord(tk.next());
    return GEOSGeom_createPointFromXY_r(h, x, y);
}
static GEOSGeometry* mkLine(Toks& tk) { Pts p = takeSeq(tk); return p.empty() ? GEOSGeom_createEmptyLineString_r(h) : GEOSGeom_createLineString_r(h, cs(p)); }
static GEOSGeometry* mkGeom(Toks& tk) {
    std::string ty = tk.next();
    if (ty == "PT") return mkPoint(tk);
    if (ty == "LS") return mkLine(tk);
    if (ty == "LR") return GEOSGeom_createLinearRing_r(h, cs(takeSeq(tk)));
    if (ty == "PG") return mkPoly(tk);
    int type = ty == "MPT" ? GEOS_MULTIPOINT : ty == "MLS" ? GEOS_MULTILINESTRING : ty == "MPG" ? GEOS_MULTIPOLYGON : ty == "GC" ? GEOS_GEOMETRYCOLLECTION : -1;
    if (type < 0) { tk.bad = true; return nullptr; }
    int m = atoi(tk.next().c_str());
    std::vector<GEOSGeometry*> gs;
    for (int k = 0; k < m && !tk.bad; k++) {
        GEOSGeometry* g = type == GEOS_MULTIPOINT ? mkPoint(tk) : type == GEOS_MULTILINESTRING ? mkLine(tk) : type == GEOS_MULTIPOLYGON ? mkPoly(tk) : mkGeom(tk);
        if (!g) { tk.bad = true; break; }
        gs.push_back(g);
    }
    if (tk.bad) return nullptr;
    return GEOSGeom_createCollection_r(h, type, gs.data(), (unsigned)gs.size());
}
static void putSeq(std::ostringstream& o, const GEOSGeometry* g) {
    const GEOSCoordSequence* s = GEOSGeom_getCoordSeq_r(h, g);
    unsigned n = 0; GEOSCoordSeq_getSize_r(h, s, &n);
    o << ' ' << n;
    for (unsigned k = 0; k < n; k++) { double x, y; GEOSCoordSeq_getXY_r(h, s, k, &x, &y); o << ' ' << hx(x) << ' ' << hx(y); }
}
static void putPolyBody(std::ostringstream& o, const GEOSGeometry* g) {
    if (GEOSisEmpty_r(h, g)) { o << " 0"; return; }
    int nh = GEOSGetNumInteriorRings_r(h, g);
    o << ' ' << (1 + nh);
    putSeq(o, GEOSGetExteriorRing_r(h, g));
    for (int k = 0; k < nh; k++) putSeq(o, GEOSGetInteriorRingN_r(h, g, k));
}
static void putPointBody(std::ostringstream& o, const GEOSGeometry* g) {
    if (GEOSisEmpty_r(h, g)) { o << " E"; return; }
    double x, y; GEOSGeomGetX_r(h, g, &x); GEOSGeomGetY_r(h, g, &y); o << ' ' << hx(x) << ' ' << hx(y);
}
static bool putGeom(std::ostringstream& o, const GEOSGeometry* g) {
    int t = GEOSGeomTypeId_r(h, g);
    switch (t) {
    case GEOS_POINT: o << " PT"; putPointBody(o, g); return true;
    case GEOS_LINESTRING: o << " LS"; putSeq(o, g); return true;
    case GEOS_LINEARRING: o << " LR"; putSeq(o, g); return true;
    case GEOS_POLYGON: o << " PG"; putPolyBody(o, g); return true;
    case GEOS_MULTIPOINT: case GEOS_MULTILINESTRING: case GEOS_MULTIPOLYGON: case GEOS_GEOMETRYCOLLECTION: {
        int m = GEOSGetNumGeometries_r(h, g);
        o << (t == GEOS_MULTIPOINT ? " MPT " : t == GEOS_MULTILINESTRING ? " MLS " : t == GEOS_MULTIPOLYGON ? " MPG " : " GC ") << m;
        for (int k = 0; k < m; k++) {
            const GEOSGeometry* e = GEOSGetGeometryN_r(h, g, k);
            if (t == GEOS_MULTIPOINT) putPointBody(o, e);
            else if (t == GEOS_MULTILINESTRING) putSeq(o, e);
            else if (t == GEOS_MULTIPOLYGON) putPolyBody(o, e);
            else if (!putGeom(o, e)) return false;
        }
        return true; }
    default: return false;
    }
}

int main() {
    h = GEOS_init_r();
    GEOSContext_setNoticeHandler_r(h, on_msg);
    GEOSContext_setErrorHandler_r(h, on_msg);
    std::string line;
    while (std::getline(std::cin, line)) {
        std::vector<std::string> parts; { std::stringstream ss(line); std::string p; while (std::getline(ss, p, '|')) parts.push_back(p); }
        std::vector<std::string> head; { std::stringstream ss(parts.empty() ? "" : parts[0]); std::string w; while (ss >> w) head.push_back(w); }
        if (head.empty()) { printf("BADINPUT\n"); fflush(stdout); continue; }
        const std::string& c = head[0];
        if (c == "MP" && head.size() >= 2) {
            geos::geom::PrecisionModel pm(ord(head[1]));
            std::string o;
            for (size_t k = 2; k < head.size(); k++) { if (k > 2) o += ' '; o += hx(pm.makePrecise(ord(head[k]))); }
            printf("%s\n", o.c_str()); fflush(stdout); continue;
        }
        if (c == "PM" && head.size() == 2) {
            geos::geom::PrecisionModel pm(ord(head[1]));
            printf("%s %s\n", hx(pm.scale).c_str(), hx(pm.gridSize).c_str()); fflush(stdout); continue;
        }
        if (c == "HPP" && head.size() == 5) {      // HPP cx cy x y : HotPixel(centre, 1.0).intersects(p)
            geos::geom::Coordinate ctr(ord(head[1]), ord(head[2]));
            geos::noding::snapround::HotPixel hp(ctr, 1.0);
            geos::geom::CoordinateXY p(ord(head[3]), ord(head[4]));
            printf("%d\n", hp.intersects(p) ? 1 : 0); fflush(stdout); continue;
        }
        if (c == "HP" && head.size() == 7) {
            geos::geom::Coordinate ctr(ord(head[1]), ord(head[2]));
            geos::noding::snapround::HotPixel hp(ctr, 1.0);
            geos::geom::CoordinateXY p0(ord(head[3]), ord(head[4])), p1(ord(head[5]), ord(head[6]));
            printf("%d\n", hp.intersects(p0, p1) ? 1 : 0); fflush(stdout); continue;
        }
        GEOSGeometry* g[2] = {nullptr, nullptr}; bool bad = false;
        for (size_t k = 1; k < parts.size() && k <= 2 && !bad; k++) {
            Toks tk; std::stringstream ss(parts[k]); std::string w; while (ss >> w) tk.t.push_back(w);
            g[k - 1] = mkGeom(tk); if (!g[k - 1] || tk.bad) bad = true;
        }
        if (bad || !g[0] || head.size() < 2) { printf("BADINPUT %s\n", lastmsg.c_str()); fflush(stdout); continue; }
        lastmsg.clear();
        if (c == "HIST") {
            int k = atoi(head[1].c_str());
            if ((int)head.size() < 3 + 2 * k) { printf("BADINPUT HIST\n"); fflush(stdout); for (auto* x : g) if (x) GEOSGeom_destroy_r(h, x); continue; }
            std::string op = head[2 + 2 * k];
            std::ostringstream o; o << "OK";
            GEOSGeometry* cur[2] = {g[0], g[1]}; bool failed = false;
            for (int w = 0; w < 2 && !failed; w++) {
                if (!cur[w]) continue;
                for (int i = 0; i < k && !failed; i++) {
                    GEOSGeometry* nx = GEOSGeom_setPrecision_r(h, cur[w], ord(head[2 + 2 * i]), atoi(head[3 + 2 * i].c_str()));
                    if (!nx) { printf("EXC step %d operand %d: %s\n", i, w, lastmsg.c_str()); failed = true; break; }
                    if (cur[w] != g[w]) GEOSGeom_destroy_r(h, cur[w]);
                    cur[w] = nx;
                    o << " ;; S " << w << ' ' << i << " v=" << (int)GEOSisValid_r(h, nx) << " p=" << hx(GEOSGeom_getPrecision_r(h, nx));
                    if (!putGeom(o, nx)) { printf("EXC unprintable\n"); failed = true; }
                }
            }
            if (!failed && op != "-" && cur[1]) {
                GEOSGeometry* r = op == "INT" ? GEOSIntersection_r(h, cur[0], cur[1]) : op == "UNI" ? GEOSUnion_r(h, cur[0], cur[1])
                                : op == "DIF" ? GEOSDifference_r(h, cur[0], cur[1]) : GEOSSymDifference_r(h, cur[0], cur[1]);
                if (!r) { printf("EXC overlay: %s\n", lastmsg.c_str()); failed = true; }
                else {
                    o << " ;; R v=" << (int)GEOSisValid_r(h, r) << " p=" << hx(GEOSGeom_getPrecision_r(h, r));
                    if (!putGeom(o, r)) { printf("EXC unprintable\n"); failed = true; }
                    GEOSGeom_destroy_r(h, r);
                }
            }
            if (!failed) printf("%s\n", o.str().c_str());
            fflush(stdout);
            for (int w = 0; w < 2; w++) { if (cur[w] && cur[w] != g[w]) GEOSGeom_destroy_r(h, cur[w]); if (g[w]) GEOSGeom_destroy_r(h, g[w]); }
            continue;
        }
        double gs = ord(head[1]);
        GEOSGeometry* r = nullptr; bool done = false;
        if ((c == "INT" || c == "UNI" || c == "DIF" || c == "SYM") && g[1]) {
            r = c == "INT" ? GEOSIntersectionPrec_r(h, g[0], g[1], gs) : c == "UNI" ? GEOSUnionPrec_r(h, g[0], g[1], gs)
              : c == "DIF" ? GEOSDifferencePrec_r(h, g[0], g[1], gs) : GEOSSymDifferencePrec_r(h, g[0], g[1], gs);
        } else if (c == "UUP") r = GEOSUnaryUnionPrec_r(h, g[0], gs);
        else if (c == "SETP" && head.size() >= 3) r = GEOSGeom_setPrecision_r(h, g[0], gs, atoi(head[2].c_str()));
        else { printf("BADINPUT unknown call\n"); done = true; }
        if (!done) {
            if (!r) printf("EXC %s\n", lastmsg.c_str());
            else {
                std::ostringstream o;
                int v = GEOSisValid_r(h, r);
                double pr = GEOSGeom_getPrecision_r(h, r);
                if (putGeom(o, r)) printf("OK v=%d p=%s%s\n", v, hx(pr).c_str(), o.str().c_str()); else printf("EXC unprintable result type %d\n", GEOSGeomTypeId_r(h, r));
                GEOSGeom_destroy_r(h, r);
            }
        }
        fflush(stdout);
        for (auto* x : g) if (x) GEOSGeom_destroy_r(h, x);
    }
    GEOS_finish_r(h);
    return 0;
}
