// C19 harness: linework operations of the real library, one request per input line, one result line per request.
//   request:  <OP> <arg> ; <arg> ; ...        geometries are WKT (exact: repr of doubles), numbers are %.17g / hex floats
//   OPs (C API):  NODE g | UU g | MERGE g | MERGED g | POLYFULL g | POLY g | POLYVALID g | CUTS g | BUILDAREA g
//                 SHARED g1 ; g2 | SNAP g1 ; g2 ; tol | PROJ g ; x y | PROJN g ; x y | INTERP g ; d | INTERPN g ; f
//                 SUBSTR g ; s e | LENGTH g
//       (C++ API, the classes of src/linearref):
//                 LOC g ; len ; lower(0|1|2=plain getLocation)   -> comp seg frac
//                 LEN g ; comp seg frac                           -> length
//   result:  a geometry in token form  PT x y | PT E | LS n x y .. | PG k (n x y ..)*k | MPT|MLS|MPG|GC m ...,
//            several geometries separated by " | ", a number as %.17g, or  ERR <message>  /  NULL
#include <geos_c.h>
#include <geos/geom/Geometry.h>
#include <geos/geom/Coordinate.h>
#include <geos/linearref/LengthLocationMap.h>
#include <geos/linearref/LinearLocation.h>
#include <cmath>
#include <cstdarg>
#include <cstdio>
#include <cstdlib>
#include <cstring>
#include <iostream>
#include <sstream>
#include <string>
#include <vector>

static GEOSContextHandle_t h;
static std::string lastErr;
static void quiet(const char*, ...) {}
static void onErr(const char* fmt, ...) {
    char buf[512]; va_list ap; va_start(ap, fmt); vsnprintf(buf, sizeof buf, fmt, ap); va_end(ap);
    lastErr = buf; for (auto& c : lastErr) if (c == '\n' || c == '|' ) c = ' ';
}
static std::string num(double d) { char b[64]; snprintf(b, sizeof b, "%.17g", d); return b; }

static void seqTok(const GEOSCoordSequence* cs, std::ostringstream& o) {
    unsigned n = 0; GEOSCoordSeq_getSize_r(h, cs, &n); o << n;
    for (unsigned i = 0; i < n; i++) { double x, y; GEOSCoordSeq_getXY_r(h, cs, i, &x, &y); o << ' ' << num(x) << ' ' << num(y); }
}
static void geomTok(const GEOSGeometry* g, std::ostringstream& o) {
    int t = GEOSGeomTypeId_r(h, g);
    switch (t) {
    case GEOS_POINT:
        if (GEOSisEmpty_r(h, g)) o << "PT E"; else { double x, y; GEOSGeomGetX_r(h, g, &x); GEOSGeomGetY_r(h, g, &y); o << "PT " << num(x) << ' ' << num(y); }
        break;
    case GEOS_LINESTRING: case GEOS_LINEARRING:
        o << (t == GEOS_LINESTRING ? "LS " : "LR "); seqTok(GEOSGeom_getCoordSeq_r(h, g), o); break;
    case GEOS_POLYGON: {
        if (GEOSisEmpty_r(h, g)) { o << "PG 0"; break; }
        int nh = GEOSGetNumInteriorRings_r(h, g); o << "PG " << nh + 1 << ' ';
        seqTok(GEOSGeom_getCoordSeq_r(h, GEOSGetExteriorRing_r(h, g)), o);
        for (int i = 0; i < nh; i++) { o << ' '; seqTok(GEOSGeom_getCoordSeq_r(h, GEOSGetInteriorRingN_r(h, g, i)), o); }
        break; }
    case GEOS_MULTIPOINT: case GEOS_MULTILINESTRING: case GEOS_MULTIPOLYGON: case GEOS_GEOMETRYCOLLECTION: {
        int n = GEOSGetNumGeometries_r(h, g);
        o << (t == GEOS_MULTIPOINT ? "MPT " : t == GEOS_MULTILINESTRING ? "MLS " : t == GEOS_MULTIPOLYGON ? "MPG " : "GC ") << n;
        for (int i = 0; i < n; i++) { o << ' '; geomTok(GEOSGetGeometryN_r(h, g, i), o); }
        break; }
    default: o << "OTHER " << t;
    }
}
static std::string out(GEOSGeometry* g) {
    if (!g) return "ERR " + (lastErr.empty() ? std::string("null") : lastErr);
    std::ostringstream o; geomTok(g, o); GEOSGeom_destroy_r(h, g); return o.str();
}
static std::vector<std::string> split(const std::string& s, char sep) {
    std::vector<std::string> r; std::string cur;
    for (char c : s) { if (c == sep) { r.push_back(cur); cur.clear(); } else cur += c; }
    r.push_back(cur); return r;
}
static GEOSGeometry* rd(const std::string& w) {
    GEOSWKTReader* r = GEOSWKTReader_create_r(h);
    GEOSGeometry* g = GEOSWKTReader_read_r(h, r, w.c_str());
    GEOSWKTReader_destroy_r(h, r); return g;
}
static std::vector<double> nums(const std::string& s) {
    std::vector<double> v; std::stringstream ss(s); std::string w;
    while (ss >> w) v.push_back(std::strtod(w.c_str(), nullptr));
    return v;
}

int main() {
    h = GEOS_init_r();
    GEOSContext_setNoticeHandler_r(h, quiet);
    GEOSContext_setErrorHandler_r(h, onErr);
    std::string line;
    while (std::getline(std::cin, line)) {
        lastErr.clear();
        size_t sp = line.find(' ');
        std::string op = line.substr(0, sp), rest = sp == std::string::npos ? "" : line.substr(sp + 1);
        std::vector<std::string> a = split(rest, ';');
        std::string res;
        GEOSGeometry* g = a.empty() ? nullptr : rd(a[0]);
        if (!g) { printf("ERR read %s\n", lastErr.c_str()); fflush(stdout); continue; }
        if (op == "NODE") res = out(GEOSNode_r(h, g));
        else if (op == "UU") res = out(GEOSUnaryUnion_r(h, g));
        else if (op == "MERGE") res = out(GEOSLineMerge_r(h, g));
        else if (op == "MERGED") res = out(GEOSLineMergeDirected_r(h, g));
        else if (op == "BUILDAREA") res = out(GEOSBuildArea_r(h, g));
        else if (op == "LENGTH") { double l = -1; int ok = GEOSLength_r(h, g, &l); res = ok == 1 ? num(l) : "ERR " + lastErr; }
        else if (op == "POLYFULL") {
            GEOSGeometry *c = nullptr, *d = nullptr, *iv = nullptr;
            GEOSGeometry* p = GEOSPolygonize_full_r(h, g, &c, &d, &iv);
            if (!p) res = "ERR " + lastErr;
            else { res = out(p) + " | " + out(d) + " | " + out(c) + " | " + out(iv); }
        }
        else if (op == "POLY" || op == "POLYVALID" || op == "CUTS") {
            int n = GEOSGetNumGeometries_r(h, g);
            std::vector<const GEOSGeometry*> parts;
            for (int i = 0; i < n; i++) parts.push_back(GEOSGetGeometryN_r(h, g, i));
            GEOSGeometry* p = op == "POLY" ? GEOSPolygonize_r(h, parts.data(), (unsigned)n)
                            : op == "POLYVALID" ? GEOSPolygonize_valid_r(h, parts.data(), (unsigned)n)
                            : GEOSPolygonizer_getCutEdges_r(h, parts.data(), (unsigned)n);
            res = out(p);
        }
        else if (op == "SHARED" || op == "SNAP") {
            GEOSGeometry* g2 = a.size() > 1 ? rd(a[1]) : nullptr;
            if (!g2) res = "ERR read2";
            else {
                if (op == "SHARED") res = out(GEOSSharedPaths_r(h, g, g2));
                else res = out(GEOSSnap_r(h, g, g2, a.size() > 2 ? std::strtod(a[2].c_str(), nullptr) : 0.0));
                GEOSGeom_destroy_r(h, g2);
            }
        }
        else if (op == "PROJ" || op == "PROJN") {
            std::vector<double> v = nums(a.size() > 1 ? a[1] : "");
            GEOSGeometry* p = GEOSGeom_createPointFromXY_r(h, v.size() > 0 ? v[0] : 0, v.size() > 1 ? v[1] : 0);
            double d = op == "PROJ" ? GEOSProject_r(h, g, p) : GEOSProjectNormalized_r(h, g, p);
            GEOSGeom_destroy_r(h, p);
            res = num(d); if (!lastErr.empty()) res += " ERR " + lastErr;
        }
        else if (op == "INTERP" || op == "INTERPN") {
            std::vector<double> v = nums(a.size() > 1 ? a[1] : "");
            res = out(op == "INTERP" ? GEOSInterpolate_r(h, g, v.empty() ? 0 : v[0]) : GEOSInterpolateNormalized_r(h, g, v.empty() ? 0 : v[0]));
        }
        else if (op == "SUBSTR") {
            std::vector<double> v = nums(a.size() > 1 ? a[1] : "");
            res = out(GEOSLineSubstring_r(h, g, v.size() > 0 ? v[0] : 0, v.size() > 1 ? v[1] : 0));
        }
        else if (op == "LOC" || op == "LEN") {
            try {
                const geos::geom::Geometry* cg = reinterpret_cast<const geos::geom::Geometry*>(g);
                std::vector<double> v = nums(a.size() > 1 ? a[1] : "");
                if (op == "LOC") {
                    int mode = a.size() > 2 ? atoi(a[2].c_str()) : 2;
                    geos::linearref::LinearLocation l = mode == 2 ? geos::linearref::LengthLocationMap::getLocation(cg, v.empty() ? 0 : v[0])
                        : geos::linearref::LengthLocationMap::getLocation(cg, v.empty() ? 0 : v[0], mode == 1);
                    res = std::to_string(l.getComponentIndex()) + " " + std::to_string(l.getSegmentIndex()) + " " + num(l.getSegmentFraction());
                } else {
                    geos::linearref::LinearLocation l((std::size_t)(v.size() > 0 ? v[0] : 0), (std::size_t)(v.size() > 1 ? v[1] : 0), v.size() > 2 ? v[2] : 0.0);
                    res = num(geos::linearref::LengthLocationMap::getLength(cg, l));
                }
            } catch (const std::exception& e) { res = std::string("ERR ") + e.what(); }
        }
        else res = "ERR unknown op";
        GEOSGeom_destroy_r(h, g);
        printf("%s\n", res.c_str()); fflush(stdout);
    }
    GEOS_finish_r(h);
    return 0;
}
