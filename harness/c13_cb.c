/* C13: the process-wide interrupt callback seen from two threads with their own contexts and objects.
   Thread A enters the registered callback and stays inside it (rendezvous) while thread B runs a complete interruptible call whose
   callback invocation requests an interrupt.  Each thread's transcript (result text or NULL(interrupted), number of callback
   invocations on that thread) must equal the transcript of the same calls run one after the other.
   input line: <op> <n>     op: H convex hull, B buffer, U unary union;  n = size parameter     output: OK | BAD <what> */
#include <geos_c.h>
#include <pthread.h>
#include <stdio.h>
#include <stdlib.h>
#include <string.h>
#include <time.h>
static void nomsg(const char* m, void* u) { (void)m; (void)u; }
static __thread int role = 0;            /* 1 = A (parks in its first callback), 2 = B (requests an interrupt) */
static __thread int ncalls = 0;
static volatile int concurrent = 0, a_inside = 0, b_done = 0;
static void cb(void) {
    ncalls++;
    if (role == 2) { GEOS_interruptRequest(); return; }
    if (role == 1 && concurrent && ncalls == 1) {
        __atomic_store_n(&a_inside, 1, __ATOMIC_SEQ_CST);
        for (int i = 0; i < 5000 && !__atomic_load_n(&b_done, __ATOMIC_SEQ_CST); i++) { struct timespec ts = {0, 1000000}; nanosleep(&ts, NULL); }
    }
}
static char opc = 'H'; static int szp = 8;
static GEOSGeometry* input(GEOSContextHandle_t h, int off) {
    char w[256]; snprintf(w, sizeof w, "POLYGON((%d %d,%d %d,%d %d,%d %d,%d %d))", off, off, off, off + szp, off + szp, off + szp, off + szp, off, off, off);
    return GEOSGeomFromWKT_r(h, w);
}
typedef struct { int role; int off; char out[4096]; int calls; } job;
static void* run(void* p) {
    job* j = (job*)p; role = j->role; ncalls = 0;
    GEOSContextHandle_t h = GEOS_init_r();
    GEOSContext_setErrorMessageHandler_r(h, nomsg, NULL); GEOSContext_setNoticeMessageHandler_r(h, nomsg, NULL);
    GEOSGeometry* g = input(h, j->off);
    if (j->role == 2 && concurrent) for (int i = 0; i < 5000 && !__atomic_load_n(&a_inside, __ATOMIC_SEQ_CST); i++) { struct timespec ts = {0, 1000000}; nanosleep(&ts, NULL); }
    GEOSGeometry* r = opc == 'H' ? GEOSConvexHull_r(h, g) : opc == 'B' ? GEOSBuffer_r(h, g, 1.0, 4) : GEOSUnaryUnion_r(h, g);
    if (j->role == 2) __atomic_store_n(&b_done, 1, __ATOMIC_SEQ_CST);
    if (r) { GEOSNormalize_r(h, r); char* t = GEOSGeomToWKT_r(h, r); snprintf(j->out, sizeof j->out, "%s", t ? t : "?"); if (t) GEOSFree_r(h, t); GEOSGeom_destroy_r(h, r); }
    else snprintf(j->out, sizeof j->out, "NULL");
    j->calls = ncalls;
    GEOSGeom_destroy_r(h, g); GEOS_finish_r(h);
    return NULL;
}
int main(void) {
    char line[128];
    while (fgets(line, sizeof line, stdin)) {
        if (sscanf(line, " %c %d", &opc, &szp) != 2 || szp < 1 || szp > 1000) { puts("PARSE"); fflush(stdout); continue; }
        GEOS_interruptRegisterCallback(cb);
        job sa = {1, 1, "", 0}, sb = {2, 100, "", 0}, ca = {1, 1, "", 0}, cbj = {2, 100, "", 0};
        concurrent = 0; run(&sa); run(&sb);                       /* the same calls one after the other */
        concurrent = 1; a_inside = 0; b_done = 0;
        pthread_t ta, tb; pthread_create(&ta, NULL, run, &ca); pthread_create(&tb, NULL, run, &cbj); pthread_join(ta, NULL); pthread_join(tb, NULL);
        GEOS_interruptRegisterCallback(NULL); GEOS_interruptCancel();
        char what[9000] = "";
        if (strcmp(sa.out, ca.out)) snprintf(what, sizeof what, "thread A: sequential %s, concurrent %s", sa.out, ca.out);
        else if (strcmp(sb.out, cbj.out) || (sb.calls > 0) != (cbj.calls > 0)) snprintf(what, sizeof what, "thread B: sequential calls=%d %s, concurrent calls=%d %s", sb.calls, sb.out, cbj.calls, cbj.out);
        if (what[0]) printf("BAD %.600s\n", what); else printf("OK a=%d b=%d bres=%.20s\n", sa.calls, sb.calls, sb.out);
        fflush(stdout);
    }
    return 0;
}
