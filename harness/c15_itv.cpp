// C15: the real SortedPackedIntervalRTree beside the extracted model C15/ITVDefs.itv_run.
// line:  V lo hi id ; lo hi id ; ... | qlo qhi | qlo qhi ...      ->  [ids sorted] [ids sorted] ...
#include <geos/index/intervalrtree/SortedPackedIntervalRTree.h>
#include <geos/index/ItemVisitor.h>
#include <algorithm>
#include <cstdio>
#include <iostream>
#include <sstream>
#include <string>
#include <vector>
using namespace geos::index;
struct Coll : public ItemVisitor {
    std::vector<long> v;
    void visitItem(void* it) override { v.push_back((long)(size_t)it - 1); }
};
int main()
{
    std::string line;
    while (std::getline(std::cin, line)) {
        std::vector<std::string> parts; { std::stringstream ss(line); std::string p; while (std::getline(ss, p, '|')) parts.push_back(p); }
        std::string out;
        if (parts.empty() || parts[0].size() < 1 || parts[0][0] != 'V') { std::puts("?"); std::fflush(stdout); continue; }
        intervalrtree::SortedPackedIntervalRTree tree;
        { std::stringstream ss(parts[0].substr(1)); std::string item;
          while (std::getline(ss, item, ';')) { std::stringstream is(item); double lo, hi; long id; if (is >> lo >> hi >> id) tree.insert(lo, hi, (void*)(size_t)(id + 1)); } }
        for (size_t k = 1; k < parts.size(); k++) {
            std::stringstream qs(parts[k]); double qlo, qhi; if (!(qs >> qlo >> qhi)) continue;
            Coll c; tree.query(qlo, qhi, &c); std::sort(c.v.begin(), c.v.end());
            out += "[";
            for (size_t i = 0; i < c.v.size(); i++) { if (i) out += ","; out += std::to_string(c.v[i]); }
            out += "] ";
        }
        std::puts(out.c_str()); std::fflush(stdout);
    }
    return 0;
}
