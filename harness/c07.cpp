// C07 correspondence harness: the same case lines as ocaml/drv_C07.ml, answered by the real library (C++ API and C API).
// grid cases: integers n scaled to n * 2^k (exact in binary64); binary64 cases: 16-hex-digit bit patterns.
// One output line per input line; an exception is reported as EXC:<what> in place of the value.
#define private public
#define protected public
#include <geos/math/DD.h>
#include <geos/algorithm/LineIntersector.h>
#include <geos/algorithm/RayCrossingCounter.h>
#undef private
#undef protected
#include <geos_c.h>
#include <geos/algorithm/CGAlgorithmsDD.h>
#include <geos/algorithm/Orientation.h>
#include <geos/algorithm/PointLocation.h>
#include <geos/algorithm/Area.h>
#include <geos/algorithm/locate/IndexedPointInAreaLocator.h>
#include <geos/algorithm/locate/SimplePointInAreaLocator.h>
#include <geos/geom/Coordinate.h>
#include <geos/geom/CoordinateSequence.h>
#include <geos/geom/Envelope.h>
#include <geos/geom/GeometryFactory.h>
#include <geos/geom/LinearRing.h>
#include <geos/geom/Polygon.h>
#include <geos/geom/Location.h>
#include <cmath>
#include <cstdint>
#include <cstdio>
#include <cstring>
#include <iostream>
#include <memory>
#include <sstream>
#include <string>
#include <vector>
using namespace geos::geom;
using namespace geos::algorithm;
using geos::math::DD;

static GEOSContextHandle_t h;
static double unhex(const std::string& s) { uint64_t u = std::stoull(s, nullptr, 16); double d; std::memcpy(&d, &u, 8); return d; }
static std::string hex(double d) { uint64_t u; std::memcpy(&u, &d, 8); if (std::isnan(d)) u = 0x7ff8000000000000ULL; char b[20]; std::snprintf(b, 20, "%016llx", (unsigned long long)u); return b; }
static char locc(Location l) { return l == Location::INTERIOR ? 'I' : l == Location::BOUNDARY ? 'B' : l == Location::EXTERIOR ? 'E' : '?'; }
template <class F> static std::string guard(F f) {
    try { return f(); } catch (const std::exception& e) { return std::string("EXC:") + typeid(e).name(); } catch (...) { return "EXC:?"; }
}
static std::string i2s(long v) { return std::to_string(v); }

struct Rd {
    std::stringstream ss; int k = 0;
    double g() { long long n; ss >> n; return std::ldexp((double)n, k); }      // |n| <= 2^53: exact
    double x() { std::string t; ss >> t; return unhex(t); }
    Coordinate gp() { double a = g(); double b = g(); return Coordinate(a, b); }
    Coordinate xp() { double a = x(); double b = x(); return Coordinate(a, b); }
};

static std::string seg_report(const Coordinate& p1, const Coordinate& p2, const Coordinate& q1, const Coordinate& q2) {
    std::string out = guard([&]() {
        LineIntersector li;
        li.computeIntersection(p1, p2, q1, q2);
        std::string s = i2s((long)li.getIntersectionNum()) + " " + (li.isProper() ? "1" : "0");
        for (size_t i = 0; i < 2; i++) {
            if (i < li.getIntersectionNum()) s += " " + hex(li.getIntersection(i).x) + " " + hex(li.getIntersection(i).y);
            else s += " - -";
        }
        return s;
    });
    out += " | " + guard([&]() {
        double cx = 0, cy = 0;
        int r = GEOSSegmentIntersection_r(h, p1.x, p1.y, p2.x, p2.y, q1.x, q1.y, q2.x, q2.y, &cx, &cy);
        return i2s(r) + " " + (r == 1 ? hex(cx) + " " + hex(cy) : std::string("- -"));
    });
    return out;
}

static std::string ring_report(const Coordinate& p, const std::vector<Coordinate>& pts) {
    CoordinateSequence seq;
    for (auto& c : pts) seq.add(c);
    std::vector<const Coordinate*> pv;
    for (auto& c : pts) pv.push_back(&c);
    std::string s;
    s += guard([&]() { return std::string(1, locc(PointLocation::locateInRing(p, seq))); }); s += " ";
    s += guard([&]() { return std::string(1, locc(RayCrossingCounter::locatePointInRing(p, pv))); }); s += " ";
    s += guard([&]() { return std::string(PointLocation::isInRing(p, &seq) ? "1" : "0"); }); s += " ";
    // the counter driven segment by segment without the early exit (what the indexed locator does)
    s += guard([&]() { RayCrossingCounter rcc(p); for (size_t i = 1; i < pts.size(); i++) rcc.countSegment(pts[i - 1], pts[i]);
                       return std::string(1, locc(rcc.getLocation())) + ":" + i2s((long)rcc.crossingCount); });
    return s;
}

int main() {
    h = GEOS_init_r();
    auto gf = GeometryFactory::create();
    std::string line;
    while (std::getline(std::cin, line)) {
        Rd r; r.ss.str(line);
        std::string tag; r.ss >> tag;
        std::string out;
        if (tag == "O") {
            r.ss >> r.k; Coordinate a = r.gp(), b = r.gp(), c = r.gp();
            out = guard([&]() { return i2s(Orientation::index(a, b, c)); }) + " " +
                  guard([&]() { return i2s(GEOSOrientationIndex_r(h, a.x, a.y, b.x, b.y, c.x, c.y)); }) + " " +
                  guard([&]() { return i2s(Orientation::index(b, a, c)); }) + " " +
                  i2s(CGAlgorithmsDD::orientationIndexFilter(a.x, a.y, b.x, b.y, c.x, c.y)) + " " +
                  guard([&]() { return i2s(Orientation::index(a, c, b)); });
        } else if (tag == "OB") {
            Coordinate a = r.xp(), b = r.xp(), c = r.xp();
            out = guard([&]() { return i2s(CGAlgorithmsDD::orientationIndex(a.x, a.y, b.x, b.y, c.x, c.y)); }) + " " +
                  i2s(CGAlgorithmsDD::orientationIndexFilter(a.x, a.y, b.x, b.y, c.x, c.y)) + " " +
                  guard([&]() { return i2s(GEOSOrientationIndex_r(h, a.x, a.y, b.x, b.y, c.x, c.y)); }) + " " +
                  guard([&]() { return i2s(CGAlgorithmsDD::orientationIndex(b.x, b.y, a.x, a.y, c.x, c.y)); }) + " " +
                  guard([&]() { return i2s(CGAlgorithmsDD::orientationIndex(a.x, a.y, c.x, c.y, b.x, b.y)); });
        } else if (tag == "OP") {
            // all six argument orders of one triple: index and filter answer for abc acb bac bca cab cba
            Coordinate q[3] = { r.xp(), r.xp(), r.xp() };
            static const int P[6][3] = {{0,1,2},{0,2,1},{1,0,2},{1,2,0},{2,0,1},{2,1,0}};
            for (int i = 0; i < 6; i++) {
                const Coordinate &a = q[P[i][0]], &b = q[P[i][1]], &c = q[P[i][2]];
                if (i) out += " ";
                out += guard([&]() { return i2s(GEOSOrientationIndex_r(h, a.x, a.y, b.x, b.y, c.x, c.y)); }) + ":" +
                       i2s(CGAlgorithmsDD::orientationIndexFilter(a.x, a.y, b.x, b.y, c.x, c.y));
            }
        } else if (tag == "D") {
            double a = r.x(), b = r.x(), c = r.x(), d = r.x();
            out = guard([&]() { return i2s(CGAlgorithmsDD::signOfDet2x2(a, b, c, d)); });
        } else if (tag == "XB") {
            Coordinate p1 = r.xp(), p2 = r.xp(), q1 = r.xp(), q2 = r.xp();
            out = guard([&]() { CoordinateXY v = CGAlgorithmsDD::intersection(p1, p2, q1, q2); return hex(v.x) + " " + hex(v.y); });
        } else if (tag == "DD") {
            int op; r.ss >> op; double ah = r.x(), al = r.x(), bh = r.x(), bl = r.x();
            DD a(ah, al), b(bh, bl);
            DD c = op == 0 ? a + b : op == 1 ? a - b : op == 2 ? a * b : a / b;
            out = hex(c.hi) + " " + hex(c.lo);
        } else if (tag == "R" || tag == "RB") {
            bool bits = tag == "RB";
            if (!bits) r.ss >> r.k;
            Coordinate p = bits ? r.xp() : r.gp();
            int n; r.ss >> n; std::vector<Coordinate> pts;
            for (int i = 0; i < n; i++) pts.push_back(bits ? r.xp() : r.gp());
            out = ring_report(p, pts);
            if (bits) {           // reversed ring: the location must not change
                std::vector<Coordinate> rev(pts.rbegin(), pts.rend());
                out += " | " + ring_report(p, rev);
            }
        } else if (tag == "P") {
            r.ss >> r.k; Coordinate p = r.gp();
            int nr; r.ss >> nr;
            out = guard([&]() {
                std::unique_ptr<LinearRing> shell; std::vector<std::unique_ptr<LinearRing>> holes;
                for (int j = 0; j < nr; j++) {
                    int n; r.ss >> n; auto seq = std::make_unique<CoordinateSequence>();
                    for (int i = 0; i < n; i++) seq->add(r.gp());
                    auto lr = gf->createLinearRing(std::move(seq));
                    if (j == 0) shell = std::move(lr); else holes.push_back(std::move(lr));
                }
                auto poly = gf->createPolygon(std::move(shell), std::move(holes));
                std::string s;
                s += locc(locate::SimplePointInAreaLocator::locate(p, poly.get())); s += " ";
                locate::IndexedPointInAreaLocator ipa(*poly);
                s += locc(ipa.locate(&p)); s += " ";
                const GEOSPreparedGeometry* pg = GEOSPrepare_r(h, (const GEOSGeometry*)poly.get());
                s += i2s(GEOSPreparedIntersectsXY_r(h, pg, p.x, p.y)); s += " ";
                s += i2s(GEOSPreparedContainsXY_r(h, pg, p.x, p.y)); s += " ";
                GEOSGeometry* pt = GEOSGeom_createPointFromXY_r(h, p.x, p.y);
                s += i2s(GEOSIntersects_r(h, (const GEOSGeometry*)poly.get(), pt)); s += " ";
                s += i2s(GEOSContains_r(h, (const GEOSGeometry*)poly.get(), pt)); s += " ";
                s += i2s(GEOSPreparedIntersects_r(h, pg, pt)); s += " ";
                s += i2s(GEOSTouches_r(h, (const GEOSGeometry*)poly.get(), pt)); s += " ";
                char* im = GEOSRelate_r(h, (const GEOSGeometry*)poly.get(), pt);     // column "interior of the point": rows I, B, E of the polygon
                s += (im == nullptr) ? '?' : im[0] == '0' ? 'I' : im[3] == '0' ? 'B' : im[6] == '0' ? 'E' : '?';
                if (im) GEOSFree_r(h, im);
                GEOSGeom_destroy_r(h, pt); GEOSPreparedGeom_destroy_r(h, pg);
                return s;
            });
        } else if (tag == "S") {
            r.ss >> r.k; Coordinate p1 = r.gp(), p2 = r.gp(), q1 = r.gp(), q2 = r.gp();
            out = seg_report(p1, p2, q1, q2);
        } else if (tag == "SB") {
            Coordinate p1 = r.xp(), p2 = r.xp(), q1 = r.xp(), q2 = r.xp();
            out = seg_report(p1, p2, q1, q2) + " || " + seg_report(q1, q2, p1, p2) + " || " + seg_report(p2, p1, q2, q1);
        } else if (tag == "C") {
            r.ss >> r.k; int n; r.ss >> n; CoordinateSequence seq;
            for (int i = 0; i < n; i++) seq.add(r.gp());
            out = guard([&]() { return std::string(Orientation::isCCW(&seq) ? "1" : "0"); }) + " " +
                  guard([&]() { char v = 9; int rc = GEOSCoordSeq_isCCW_r(h, (const GEOSCoordSequence*)&seq, &v); return i2s(rc) + ":" + i2s(v); }) + " " +
                  guard([&]() { return std::string(Orientation::isCCWArea(&seq) ? "1" : "0"); });
        } else if (tag == "E") {
            r.ss >> r.k; Coordinate p1 = r.gp(), p2 = r.gp(), q1 = r.gp(), q2 = r.gp();
            out = std::string(Envelope::intersects(p1, p2, q1, q2) ? "1" : "0") + " " + (Envelope::intersects(p1, p2, q1) ? "1" : "0");
        } else out = "?";
        std::cout << out << "\n" << std::flush;
    }
    GEOS_finish_r(h);
    return 0;
}
