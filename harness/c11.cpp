// C11 harness: feeds one input per line to the reader entry points of the C API and reports, per input, one line:
//   ACC <structure> srid=<n> | cpu_us=<n> peak=<bytes> total=<bytes> maxreq=<bytes> post=<flags>
//   REJ msg=<text>           | cpu_us=... peak=... total=... maxreq=...
//   DISAGREE <first> <> <second>      (two entry points for the same format gave different answers)
// input lines:  B <hex WKB bytes> | H <hex of HEX text> | T <hex of WKT text> | J <hex of GeoJSON text>
//               b | h | t = the same through reader objects with the option fix-structure ON (GEOSWKBReader_setFixStructure_r,
//               GEOSWKTReader_setFixStructure_r); the buffer entry points have no options, so there is no second entry point to agree with
// Every returned geometry is written (WKB, WKT), cloned, measured (area, length, numpoints), validated and destroyed.
// Global operator new/delete are replaced to record the peak live bytes, the total and the largest single request made
// during the read call (the library's allocations resolve to these definitions).
#include <geos_c.h>
#include <geos/geom/Geometry.h>
#include <geos/geom/Point.h>
#include <geos/geom/LineString.h>
#include <geos/geom/LinearRing.h>
#include <geos/geom/CircularString.h>
#include <geos/geom/CompoundCurve.h>
#include <geos/geom/Polygon.h>
#include <geos/geom/CurvePolygon.h>
#include <geos/geom/GeometryCollection.h>
#include <geos/geom/CoordinateSequence.h>
#include <cstdio>
#include <cstdlib>
#include <cstring>
#include <cstdarg>
#include <string>
#include <vector>
#include <new>
#include <iostream>
#include <malloc.h>
#include <time.h>

// ---------------------------------------------------------------- allocation accounting
static bool g_track = false;
static size_t g_live = 0, g_peak = 0, g_total = 0, g_maxreq = 0, g_count = 0;
static inline void* tracked_alloc(size_t n) {
    void* p = malloc(n ? n : 1);
    if (!p) throw std::bad_alloc();
    if (g_track) {
        size_t u = malloc_usable_size(p);
        g_live += u; g_total += n; g_count++;
        if (g_live > g_peak) g_peak = g_live;
        if (n > g_maxreq) g_maxreq = n;
    }
    return p;
}
static inline void tracked_free(void* p) {
    if (!p) return;
    if (g_track) { size_t u = malloc_usable_size(p); g_live = g_live >= u ? g_live - u : 0; }
    free(p);
}
void* operator new(size_t n) { return tracked_alloc(n); }
void* operator new[](size_t n) { return tracked_alloc(n); }
void* operator new(size_t n, const std::nothrow_t&) noexcept { try { return tracked_alloc(n); } catch (...) { return nullptr; } }
void* operator new[](size_t n, const std::nothrow_t&) noexcept { try { return tracked_alloc(n); } catch (...) { return nullptr; } }
void operator delete(void* p) noexcept { tracked_free(p); }
void operator delete[](void* p) noexcept { tracked_free(p); }
void operator delete(void* p, size_t) noexcept { tracked_free(p); }
void operator delete[](void* p, size_t) noexcept { tracked_free(p); }

static double cpu_now() { struct timespec t; clock_gettime(CLOCK_PROCESS_CPUTIME_ID, &t); return t.tv_sec * 1e6 + t.tv_nsec * 1e-3; }

// ---------------------------------------------------------------- error handler
static int g_errs = 0; static char g_msg[96];
static void on_error(const char* m, void*) {
    g_errs++;
    size_t i = 0;
    for (; m[i] && i < sizeof(g_msg) - 1; i++) { unsigned char c = (unsigned char)m[i]; g_msg[i] = (c < 33 || c > 126 || c == '|') ? '_' : (char)c; }
    g_msg[i] = 0;
}
static void on_notice(const char*, void*) {}

// ---------------------------------------------------------------- structure (explicit stack: no recursion in the harness)
namespace gg = geos::geom;
using gg::Geometry; using gg::Point; using gg::SimpleCurve; using gg::Polygon; using gg::CompoundCurve; using gg::CurvePolygon; using gg::CoordinateSequence;
static void seq_str(std::string& out, const char* tag, const CoordinateSequence* cs) {
    char b[64]; snprintf(b, sizeof b, "%s:%zu%s%s", tag, cs ? cs->size() : 0, cs && cs->hasZ() ? "z" : "", cs && cs->hasM() ? "m" : "");
    out += b;
}
static std::string structure(const Geometry* root) {
    std::string out;
    struct Item { const Geometry* g; const char* lit; };
    std::vector<Item> st; st.push_back({root, nullptr});
    while (!st.empty()) {
        Item it = st.back(); st.pop_back();
        if (it.lit) { out += it.lit; continue; }
        const Geometry* g = it.g;
        switch (g->getGeometryTypeId()) {
        case gg::GEOS_POINT: seq_str(out, "pt", static_cast<const Point*>(g)->getCoordinatesRO()); break;
        case gg::GEOS_LINESTRING: case gg::GEOS_LINEARRING: seq_str(out, "ls", static_cast<const SimpleCurve*>(g)->getCoordinatesRO()); break;
        case gg::GEOS_CIRCULARSTRING: seq_str(out, "cs", static_cast<const SimpleCurve*>(g)->getCoordinatesRO()); break;
        case gg::GEOS_POLYGON: {
            const Polygon* p = static_cast<const Polygon*>(g);
            out += "pg["; seq_str(out, "r", p->getExteriorRing()->getCoordinatesRO());
            for (size_t i = 0; i < p->getNumInteriorRing(); i++) { out += ","; seq_str(out, "r", p->getInteriorRingN(i)->getCoordinatesRO()); }
            out += "]"; break; }
        default: {
            const char* open = "??["; std::vector<const Geometry*> ch;
            switch (g->getGeometryTypeId()) {
            case gg::GEOS_COMPOUNDCURVE: { open = "cc["; auto c = static_cast<const CompoundCurve*>(g); for (size_t i = 0; i < c->getNumCurves(); i++) ch.push_back(c->getCurveN(i)); break; }
            case gg::GEOS_CURVEPOLYGON: { open = "cp["; auto c = static_cast<const CurvePolygon*>(g); ch.push_back(c->getExteriorRing());
                                      for (size_t i = 0; i < c->getNumInteriorRing(); i++) ch.push_back(c->getInteriorRingN(i)); break; }
            case gg::GEOS_MULTIPOINT: open = "mp["; break;
            case gg::GEOS_MULTILINESTRING: open = "ml["; break;
            case gg::GEOS_MULTIPOLYGON: open = "mg["; break;
            case gg::GEOS_GEOMETRYCOLLECTION: open = "gc["; break;
            case gg::GEOS_MULTICURVE: open = "mc["; break;
            case gg::GEOS_MULTISURFACE: open = "ms["; break;
            default: break;
            }
            if (open[0] == 'm' || open[0] == 'g') for (size_t i = 0; i < g->getNumGeometries(); i++) ch.push_back(g->getGeometryN(i));
            out += open;
            st.push_back({nullptr, "]"});
            for (size_t i = ch.size(); i-- > 0;) { st.push_back({ch[i], nullptr}); if (i > 0) st.push_back({nullptr, ","}); }
        } }
    }
    return out;
}

// ---------------------------------------------------------------- one read + the post operations
struct Outcome { bool acc; std::string text; double us; size_t peak, total, maxreq; };

static std::vector<unsigned char> unhex(const char* s) {
    std::vector<unsigned char> v; size_t n = strlen(s);
    auto hv = [](char c) { return c <= '9' ? c - '0' : (c | 32) - 'a' + 10; };
    for (size_t i = 0; i + 1 < n; i += 2) v.push_back((unsigned char)(hv(s[i]) * 16 + hv(s[i + 1])));
    return v;
}

static GEOSContextHandle_t H; static GEOSWKBReader* WR; static GEOSWKTReader* TR; static GEOSGeoJSONReader* JR;
static GEOSWKBReader* WRF; static GEOSWKTReader* TRF;      // readers with fix-structure on
static GEOSWKBWriter* WW; static GEOSWKTWriter* TW;

static Outcome one(int entry, const std::vector<unsigned char>& in) {
    g_errs = 0; g_msg[0] = 0;
    std::string txt; if (entry >= 4 && entry != 7 && entry != 8) txt.assign(in.begin(), in.end());
    static const unsigned char dummy = 0;
    const unsigned char* p = in.empty() ? &dummy : in.data();
    g_live = g_peak = g_total = g_maxreq = g_count = 0;
    double t0 = cpu_now(); g_track = true;
    GEOSGeometry* g = nullptr;
    switch (entry) {
    case 0: g = GEOSWKBReader_read_r(H, WR, p, in.size()); break;
    case 1: g = GEOSGeomFromWKB_buf_r(H, p, in.size()); break;
    case 2: g = GEOSWKBReader_readHEX_r(H, WR, p, in.size()); break;
    case 3: g = GEOSGeomFromHEX_buf_r(H, p, in.size()); break;
    case 4: g = GEOSWKTReader_read_r(H, TR, txt.c_str()); break;
    case 5: g = GEOSGeomFromWKT_r(H, txt.c_str()); break;
    case 6: g = GEOSGeoJSONReader_readGeometry_r(H, JR, txt.c_str()); break;
    case 7: g = GEOSWKBReader_read_r(H, WRF, p, in.size()); break;
    case 8: g = GEOSWKBReader_readHEX_r(H, WRF, p, in.size()); break;
    case 9: g = GEOSWKTReader_read_r(H, TRF, txt.c_str()); break;
    }
    g_track = false; double t1 = cpu_now();
    Outcome o; o.us = t1 - t0; o.peak = g_peak; o.total = g_total; o.maxreq = g_maxreq; o.acc = g != nullptr;
    if (!g) { o.text = g_errs ? std::string("REJ msg=") + g_msg : std::string("REJ NOMSG"); return o; }
    const char* tag = g_errs ? "ACCERR " : "ACC ";       // a geometry AND an error message: not a documented outcome
    char b[64];
    std::string s = structure(reinterpret_cast<const Geometry*>(g));
    snprintf(b, sizeof b, " srid=%d", GEOSGetSRID_r(H, g));
    o.text = tag + s + b;
    // post operations: each may fail with its documented error value, none may crash
    std::string post;
    size_t sz = 0; unsigned char* w = GEOSWKBWriter_write_r(H, WW, g, &sz); post += w ? 'w' : '-';
    if (w) { GEOSGeometry* back = GEOSGeomFromWKB_buf_r(H, w, sz); post += back ? 'r' : '-'; if (back) GEOSGeom_destroy_r(H, back); GEOSFree_r(H, w); }
    char* t = GEOSWKTWriter_write_r(H, TW, g); post += t ? 't' : '-'; if (t) GEOSFree_r(H, t);
    GEOSGeometry* c = GEOSGeom_clone_r(H, g); post += c ? 'c' : '-';
    double a = 0, l = 0; post += GEOSArea_r(H, g, &a) == 1 ? 'a' : '-'; post += GEOSLength_r(H, g, &l) == 1 ? 'l' : '-';
    int np = GEOSGetNumCoordinates_r(H, g); post += np >= 0 ? 'n' : '-';
    char v = GEOSisValid_r(H, g); post += v == 2 ? '-' : (v ? 'V' : 'v');
    char e = GEOSisEmpty_r(H, g); post += e == 2 ? '-' : (e ? 'E' : 'e');
    if (c) { char q = GEOSEqualsIdentical_r(H, g, c); post += q == 2 ? '-' : (q ? '=' : '!'); GEOSGeom_destroy_r(H, c); }
    GEOSGeom_destroy_r(H, g);
    o.text += " post=" + post;
    return o;
}

int main(int argc, char** argv) {
    H = GEOS_init_r();
    GEOSContext_setErrorMessageHandler_r(H, on_error, nullptr);
    GEOSContext_setNoticeMessageHandler_r(H, on_notice, nullptr);
    WR = GEOSWKBReader_create_r(H); TR = GEOSWKTReader_create_r(H); JR = GEOSGeoJSONReader_create_r(H);
    WRF = GEOSWKBReader_create_r(H); GEOSWKBReader_setFixStructure_r(H, WRF, 1);
    TRF = GEOSWKTReader_create_r(H); GEOSWKTReader_setFixStructure_r(H, TRF, 1);
    WW = GEOSWKBWriter_create_r(H); GEOSWKBWriter_setOutputDimension_r(H, WW, 4); GEOSWKBWriter_setIncludeSRID_r(H, WW, 1);
    TW = GEOSWKTWriter_create_r(H); GEOSWKTWriter_setOutputDimension_r(H, TW, 4);
    std::string line;
    while (std::getline(std::cin, line)) {
        if (line.empty()) { printf("?\n"); fflush(stdout); continue; }
        char mode = line[0];
        std::vector<unsigned char> in = unhex(line.size() > 2 ? line.c_str() + 2 : "");
        int e0, e1;
        switch (mode) { case 'B': e0 = 0; e1 = 1; break; case 'H': e0 = 2; e1 = 3; break; case 'T': e0 = 4; e1 = 5; break; case 'J': e0 = 6; e1 = -1; break;
                        case 'b': e0 = 7; e1 = -1; break; case 'h': e0 = 8; e1 = -1; break; case 't': e0 = 9; e1 = -1; break;
                        default: printf("?\n"); fflush(stdout); continue; }
        Outcome a = one(e0, in);
        std::string out = a.text;
        if (e1 >= 0) {
            Outcome b = one(e1, in);
            if (b.text != a.text) out = "DISAGREE " + a.text + " <> " + b.text;
            if (b.us < a.us) a.us = b.us;       // the smaller of the two CPU times (less scheduling noise)
            if (b.peak > a.peak) a.peak = b.peak; if (b.total > a.total) a.total = b.total; if (b.maxreq > a.maxreq) a.maxreq = b.maxreq;
        }
        printf("%s | cpu_us=%.0f peak=%zu total=%zu maxreq=%zu\n", out.c_str(), a.us, a.peak, a.total, a.maxreq);
        fflush(stdout);
    }
    GEOSWKBReader_destroy_r(H, WR); GEOSWKTReader_destroy_r(H, TR); GEOSGeoJSONReader_destroy_r(H, JR);
    GEOSWKBReader_destroy_r(H, WRF); GEOSWKTReader_destroy_r(H, TRF);
    GEOSWKBWriter_destroy_r(H, WW); GEOSWKTWriter_destroy_r(H, TW);
    GEOS_finish_r(H);
    return 0;
}
