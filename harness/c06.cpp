// C06 harness: runs the real buffer entry points of the C API on one case per stdin line; one result line per case.
// input (fields separated by '|'; doubles in C99 hex-float or decimal text, geometry as WKT with 17 significant digits):
//   B|<d>|<q>|<wkt>                                  GEOSBuffer_r
//   S|<d>|<q>|<cap>|<join>|<mitre>|<wkt>             GEOSBufferWithStyle_r
//   P|<d>|<q>|<cap>|<join>|<mitre>|<single>|<wkt>    GEOSBufferWithParams_r
//   O|<d>|<q>|<join>|<mitre>|<wkt>                   GEOSOffsetCurve_r
//   D|<d>|<q>|<join>|<mitre>|<left>|<wkt>            GEOSSingleSidedBuffer_r
//   V|<wkt>                                          the geometry itself with GEOSisValid_r (decides validity of generated inputs)
//   F|<q>|<start>|<end>|<direction>|<radius>         OffsetSegmentGenerator::addDirectedFillet(p=(0,0), start, end, direction, radius)
//                                                    (private member, called directly) -> the points it appended
// output:  OK t=<GEOSGeomTypeId> v=<GEOSisValid> e=<isEmpty> ms=<wall ms> <geometry>   |   NULL <message>
//   <geometry> = G <ngeoms> ( A <nrings> (<npts> x y ...)* | L <npts> x y ... | T <x> <y> )*      coordinates as %a (exact)
#define private public
#define protected public
#include <geos/operation/buffer/OffsetSegmentString.h>
#include <geos/operation/buffer/OffsetSegmentGenerator.h>
#include <geos/operation/buffer/BufferParameters.h>
#undef private
#undef protected
#include <geos/geom/PrecisionModel.h>
#include <geos/geom/CoordinateSequence.h>
#include <geos/geom/Coordinate.h>
#include <geos_c.h>
#include <chrono>
#include <cstdio>
#include <cstdlib>
#include <cstring>
#include <iostream>
#include <sstream>
#include <string>
#include <vector>

static GEOSContextHandle_t h;
static std::string lastmsg;
static void onmsg(const char* m, void*) { lastmsg = m ? m : ""; for (auto& c : lastmsg) if (c == '\n' || c == '\r') c = ' '; }

static void seq(const GEOSGeometry* g, std::string& o) {
    const GEOSCoordSequence* cs = GEOSGeom_getCoordSeq_r(h, g);
    unsigned n = 0; if (cs) GEOSCoordSeq_getSize_r(h, cs, &n);
    char b[80]; snprintf(b, sizeof b, " %u", n); o += b;
    for (unsigned i = 0; i < n; i++) { double x, y; GEOSCoordSeq_getX_r(h, cs, i, &x); GEOSCoordSeq_getY_r(h, cs, i, &y); snprintf(b, sizeof b, " %a %a", x, y); o += b; }
}
static void atoms(const GEOSGeometry* g, std::string& o, int& n) {
    int t = GEOSGeomTypeId_r(h, g);
    if (t == GEOS_POINT) { if (!GEOSisEmpty_r(h, g)) { double x, y; GEOSGeomGetX_r(h, g, &x); GEOSGeomGetY_r(h, g, &y); char b[80]; snprintf(b, sizeof b, " T %a %a", x, y); o += b; n++; } return; }
    if (t == GEOS_LINESTRING || t == GEOS_LINEARRING) { if (!GEOSisEmpty_r(h, g)) { o += " L"; seq(g, o); n++; } return; }
    if (t == GEOS_POLYGON) {
        if (GEOSisEmpty_r(h, g)) return;
        int nh = GEOSGetNumInteriorRings_r(h, g); char b[40]; snprintf(b, sizeof b, " A %d", nh + 1); o += b;
        seq(GEOSGetExteriorRing_r(h, g), o);
        for (int i = 0; i < nh; i++) seq(GEOSGetInteriorRingN_r(h, g, i), o);
        n++; return;
    }
    int k = GEOSGetNumGeometries_r(h, g);
    for (int i = 0; i < k; i++) atoms(GEOSGetGeometryN_r(h, g, i), o, n);
}
static void out(GEOSGeometry* r, double ms) {
    if (!r) { printf("NULL %s\n", lastmsg.c_str()); return; }
    std::string o; int n = 0; atoms(r, o, n);
    printf("OK t=%d v=%d e=%d ms=%.1f G %d%s\n", GEOSGeomTypeId_r(h, r), (int)GEOSisValid_r(h, r), (int)GEOSisEmpty_r(h, r), ms, n, o.c_str());
    GEOSGeom_destroy_r(h, r);
}

int main() {
    h = GEOS_init_r();
    GEOSContext_setErrorMessageHandler_r(h, onmsg, nullptr);
    GEOSContext_setNoticeMessageHandler_r(h, onmsg, nullptr);
    std::string line;
    while (std::getline(std::cin, line)) {
        lastmsg.clear();
        std::vector<std::string> a; { std::stringstream ss(line); std::string t; while (std::getline(ss, t, '|')) a.push_back(t); }
        if (a.size() < 2) { printf("BAD\n"); fflush(stdout); continue; }
        const std::string& op = a[0];
        auto num = [&](size_t i) { return strtod(a[i].c_str(), nullptr); };
        auto inum = [&](size_t i) { return atoi(a[i].c_str()); };
        if (op == "F") {
            using namespace geos::operation::buffer;
            if (a.size() < 6) { printf("BAD\n"); fflush(stdout); continue; }
            BufferParameters bp; bp.setQuadrantSegments(inum(1));
            geos::geom::PrecisionModel pm;
            OffsetSegmentGenerator gen(&pm, bp, num(5));
            geos::geom::Coordinate p(0.0, 0.0);
            gen.addDirectedFillet(p, num(2), num(3), inum(4), num(5));
            const geos::geom::CoordinateSequence* cs = gen.segList.ptList;      // not getCoordinates(): that closes the ring
            printf("OK %zu", cs->size());
            for (size_t i = 0; i < cs->size(); i++) printf(" %a %a", cs->getAt(i).x, cs->getAt(i).y);
            printf(" quantum=%a\n", gen.filletAngleQuantum);
            fflush(stdout); continue;
        }
        GEOSWKTReader* rd = GEOSWKTReader_create_r(h);
        GEOSGeometry* g = GEOSWKTReader_read_r(h, rd, a.back().c_str());
        GEOSWKTReader_destroy_r(h, rd);
        if (!g) { printf("NULL unreadable input %s\n", lastmsg.c_str()); fflush(stdout); continue; }
        auto t0 = std::chrono::steady_clock::now();
        GEOSGeometry* r = nullptr; bool bad = false;
        if (op == "V") { r = GEOSGeom_clone_r(h, g); }
        else if (op == "B" && a.size() == 4) r = GEOSBuffer_r(h, g, num(1), inum(2));
        else if (op == "S" && a.size() == 7) r = GEOSBufferWithStyle_r(h, g, num(1), inum(2), inum(3), inum(4), num(5));
        else if (op == "P" && a.size() == 8) {
            GEOSBufferParams* bp = GEOSBufferParams_create_r(h);
            GEOSBufferParams_setQuadrantSegments_r(h, bp, inum(2));
            GEOSBufferParams_setEndCapStyle_r(h, bp, inum(3));
            GEOSBufferParams_setJoinStyle_r(h, bp, inum(4));
            GEOSBufferParams_setMitreLimit_r(h, bp, num(5));
            GEOSBufferParams_setSingleSided_r(h, bp, inum(6));
            r = GEOSBufferWithParams_r(h, g, bp, num(1));
            GEOSBufferParams_destroy_r(h, bp);
        }
        else if (op == "O" && a.size() == 6) r = GEOSOffsetCurve_r(h, g, num(1), inum(2), inum(3), num(4));
        else if (op == "D" && a.size() == 7) r = GEOSSingleSidedBuffer_r(h, g, num(1), inum(2), inum(3), num(4), inum(5));
        else bad = true;
        double ms = std::chrono::duration<double, std::milli>(std::chrono::steady_clock::now() - t0).count();
        if (bad) printf("BAD\n"); else out(r, ms);
        GEOSGeom_destroy_r(h, g);
        fflush(stdout);
    }
    GEOS_finish_r(h);
    return 0;
}
