// C18 correspondence harness: runs the real simplifiers on one case per stdin line and prints one canonical result line.
//   DP  <tol> <hexwkb>            GEOSSimplify_r
//   DPR <tol> <hexwkb linestring> GEOSSimplify_r on a LinearRing built from the line's coordinates
//   TP  <tol> <hexwkb>            GEOSTopologyPreserveSimplify_r          (TPR: on a LinearRing)
//   DPL <tol> <preserve> <hexwkb linestring>   DouglasPeuckerLineSimplifier::simplify on the coordinate sequence itself
//   HULL <outer> <frac> <hexwkb>  GEOSPolygonHullSimplify_r
//   HULLM <outer> <mode> <param> <hexwkb>      GEOSPolygonHullSimplifyMode_r
//   COV <tol> <preserve> <hexwkb collection>   GEOSCoverageSimplifyVW_r + GEOSCoverageIsValid_r (in, out) + GEOSCoverageUnion_r (in, out)
//   DENS <tol> <hexwkb>           GEOSDensify_r          RRP <tol> <hexwkb>  GEOSRemoveRepeatedPoints_r
//   VAL <hexwkb>                  the geometry itself with GEOSisValid_r (used to decide validity of generated / predicted geometries)
// result: OK t=<GEOSGeomTypeId> v=<isValid> <hexwkb> [extra k=v ...]   |   NULL <message>
#include <geos_c.h>
#include <geos/simplify/DouglasPeuckerLineSimplifier.h>
#include <geos/geom/CoordinateSequence.h>
#include <geos/geom/Coordinate.h>
#include <cstdarg>
#include <cstdio>
#include <cstdlib>
#include <cstring>
#include <iostream>
#include <sstream>
#include <string>
#include <vector>

static GEOSContextHandle_t h;
static std::string lastmsg;
static void onmsg(const char* m, void*) { lastmsg = m ? m : ""; for (auto& c : lastmsg) if (c == '\n' || c == '\r') c = ' '; }

static GEOSGeometry* rd(const std::string& hex) {
    GEOSWKBReader* r = GEOSWKBReader_create_r(h);
    GEOSGeometry* g = GEOSWKBReader_readHEX_r(h, r, (const unsigned char*)hex.data(), hex.size());
    GEOSWKBReader_destroy_r(h, r);
    return g;
}
static std::string wr(const GEOSGeometry* g) {
    if (!g) return "NULL";
    GEOSWKBWriter* w = GEOSWKBWriter_create_r(h);
    GEOSWKBWriter_setByteOrder_r(h, w, 1);
    GEOSWKBWriter_setOutputDimension_r(h, w, 2);
    size_t n = 0;
    unsigned char* b = GEOSWKBWriter_writeHEX_r(h, w, g, &n);
    GEOSWKBWriter_destroy_r(h, w);
    if (!b) return "NULL";
    std::string s((char*)b, n);
    GEOSFree_r(h, b);
    return s;
}
static GEOSGeometry* toRing(const GEOSGeometry* ls) {
    const GEOSCoordSequence* cs = GEOSGeom_getCoordSeq_r(h, ls);
    if (!cs) return nullptr;
    GEOSCoordSequence* c2 = GEOSCoordSeq_clone_r(h, cs);
    return GEOSGeom_createLinearRing_r(h, c2);
}
static void out(GEOSGeometry* r, const std::string& extra = "") {
    if (!r) { printf("NULL%s %s\n", extra.c_str(), lastmsg.c_str()); return; }
    int t = GEOSGeomTypeId_r(h, r);
    int v = GEOSisValid_r(h, r);
    printf("OK t=%d v=%d %s%s\n", t, v, wr(r).c_str(), extra.c_str());
}

int main() {
    h = GEOS_init_r();
    GEOSContext_setErrorMessageHandler_r(h, onmsg, nullptr);
    GEOSContext_setNoticeMessageHandler_r(h, onmsg, nullptr);
    std::string line;
    while (std::getline(std::cin, line)) {
        lastmsg.clear();
        std::stringstream ss(line);
        std::string op; ss >> op;
        std::vector<std::string> a; std::string t;
        while (ss >> t) a.push_back(t);
        if (a.empty()) { printf("BAD\n"); fflush(stdout); continue; }
        GEOSGeometry* g = rd(a.back());
        if (!g) { printf("NULL unreadable input %s\n", lastmsg.c_str()); fflush(stdout); continue; }
        auto num = [&](size_t i) { return strtod(a[i].c_str(), nullptr); };
        if (op == "DP" || op == "TP" || op == "DPR" || op == "TPR") {
            GEOSGeometry* in = g;
            if (op.size() == 3) { in = toRing(g); }
            GEOSGeometry* r = nullptr;
            if (in) r = op[0] == 'D' ? GEOSSimplify_r(h, in, num(0)) : GEOSTopologyPreserveSimplify_r(h, in, num(0));
            char buf[64]; snprintf(buf, sizeof buf, " vin=%d", in ? GEOSisValid_r(h, in) : 2);
            out(r, buf);
            if (r) GEOSGeom_destroy_r(h, r);
            if (in && in != g) GEOSGeom_destroy_r(h, in);
        } else if (op == "DPL") {
            const GEOSCoordSequence* cs = GEOSGeom_getCoordSeq_r(h, g);
            unsigned n = 0; GEOSCoordSeq_getSize_r(h, cs, &n);
            geos::geom::CoordinateSequence seq;
            for (unsigned i = 0; i < n; i++) { double x, y; GEOSCoordSeq_getXY_r(h, cs, i, &x, &y); seq.add(geos::geom::Coordinate(x, y)); }
            try {
                auto res = geos::simplify::DouglasPeuckerLineSimplifier::simplify(seq, num(0), atoi(a[1].c_str()) != 0);
                printf("OK n=%zu", res->size());
                for (size_t i = 0; i < res->size(); i++) printf(" %.17g %.17g", res->getAt(i).x, res->getAt(i).y);
                printf("\n");
            } catch (std::exception& e) { printf("NULL %s\n", e.what()); }
        } else if (op == "HULL") {
            GEOSGeometry* r = GEOSPolygonHullSimplify_r(h, g, (unsigned)atoi(a[0].c_str()), num(1));
            char buf[64]; snprintf(buf, sizeof buf, " vin=%d", GEOSisValid_r(h, g));
            out(r, buf); if (r) GEOSGeom_destroy_r(h, r);
        } else if (op == "HULLM") {
            GEOSGeometry* r = GEOSPolygonHullSimplifyMode_r(h, g, (unsigned)atoi(a[0].c_str()), (unsigned)atoi(a[1].c_str()), num(2));
            char buf[64]; snprintf(buf, sizeof buf, " vin=%d", GEOSisValid_r(h, g));
            out(r, buf); if (r) GEOSGeom_destroy_r(h, r);
        } else if (op == "COV") {
            int vin = GEOSCoverageIsValid_r(h, g, 0.0, nullptr);
            GEOSGeometry* r = GEOSCoverageSimplifyVW_r(h, g, num(0), atoi(a[1].c_str()));
            std::string extra;
            char buf[64];
            snprintf(buf, sizeof buf, " vin=%d gvin=%d", vin, GEOSisValid_r(h, g)); extra += buf;
            if (r) {
                snprintf(buf, sizeof buf, " vout=%d", GEOSCoverageIsValid_r(h, r, 0.0, nullptr)); extra += buf;
                GEOSGeometry* ui = GEOSCoverageUnion_r(h, g);
                GEOSGeometry* uo = GEOSCoverageUnion_r(h, r);
                extra += " uin=" + wr(ui) + " uout=" + wr(uo);
                double sd = -1;
                if (ui && uo) { GEOSGeometry* d = GEOSSymDifference_r(h, ui, uo); if (d) { GEOSArea_r(h, d, &sd); GEOSGeom_destroy_r(h, d); } }
                snprintf(buf, sizeof buf, " symdiff=%.17g", sd); extra += buf;
                if (ui) GEOSGeom_destroy_r(h, ui);
                if (uo) GEOSGeom_destroy_r(h, uo);
            }
            out(r, extra); if (r) GEOSGeom_destroy_r(h, r);
        } else if (op == "VAL") {
            GEOSGeometry* r = GEOSGeom_clone_r(h, g); out(r); if (r) GEOSGeom_destroy_r(h, r);
        } else if (op == "DENS") {
            GEOSGeometry* r = GEOSDensify_r(h, g, num(0)); out(r); if (r) GEOSGeom_destroy_r(h, r);
        } else if (op == "RRP") {
            GEOSGeometry* r = GEOSRemoveRepeatedPoints_r(h, g, num(0)); out(r); if (r) GEOSGeom_destroy_r(h, r);
        } else printf("BAD\n");
        GEOSGeom_destroy_r(h, g);
        fflush(stdout);
    }
    GEOS_finish_r(h);
    return 0;
}
