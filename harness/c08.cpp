// C08 correspondence harness: every distance entry point of the C API on one pair of geometries per input line.
//   line:   <id> <hex WKB of A> <hex WKB of B> <densify fraction> <margin> [n]      (n: skip GEOSPreparedNearestPoints_r)
//   output: <id> key=value ...   doubles as 16-hex-digit bit patterns, EXC = the call reported an exception,
//           point pairs as x0:y0:x1:y1, within tests as strings of 0/1/E for the thresholds
//           [v, prev(v), next(v), 0, 2v, +inf, v + margin, v - margin] where v is the distance returned by the same family (plain / prepared)
#include <geos_c.h>
#include <cmath>
#include <cstdint>
#include <cstdio>
#include <cstring>
#include <iostream>
#include <sstream>
#include <string>
#include <vector>

static GEOSContextHandle_t h;
static void quiet(const char*, ...) {}
static std::string hx(double d) { uint64_t u; memcpy(&u, &d, 8); char b[20]; snprintf(b, sizeof b, "%016llx", (unsigned long long)u); return b; }
static GEOSGeometry* rd(const std::string& s) {
    return GEOSGeomFromHEX_buf_r(h, (const unsigned char*)s.data(), s.size());
}
typedef int (*dfn)(GEOSContextHandle_t, const GEOSGeometry*, const GEOSGeometry*, double*);
static std::string call(dfn f, const GEOSGeometry* a, const GEOSGeometry* b, double* out = nullptr) {
    double d = -1; int rc = f(h, a, b, &d); if (rc != 1) return "EXC"; if (out) *out = d; return hx(d);
}
static std::string pts(GEOSCoordSequence* cs) {
    if (!cs) return "NULL";
    unsigned n = 0; GEOSCoordSeq_getSize_r(h, cs, &n);
    std::string s;
    for (unsigned i = 0; i < n; i++) { double x, y; GEOSCoordSeq_getXY_r(h, cs, i, &x, &y); if (i) s += ":"; s += hx(x) + ":" + hx(y); }
    GEOSCoordSeq_destroy_r(h, cs);
    return s;
}
static double g_margin = 0;
static std::vector<double> thresholds(double v) {
    return { v, std::nextafter(v, -INFINITY), std::nextafter(v, INFINITY), 0.0, 2 * v, INFINITY, v + g_margin, v - g_margin };
}
static char bit(char c) { return c == 0 ? '0' : c == 1 ? '1' : 'E'; }

int main() {
    h = GEOS_init_r();
    GEOSContext_setNoticeHandler_r(h, quiet); GEOSContext_setErrorHandler_r(h, quiet);
    std::string line;
    while (std::getline(std::cin, line)) {
        std::stringstream ss(line); std::string id, wa, wb; double frac = 0.5;
        std::string skip; double margin = 0; ss >> id >> wa >> wb >> frac >> margin >> skip;
        bool skip_pnp = skip.find('n') != std::string::npos;
        g_margin = margin;
        GEOSGeometry* a = rd(wa); GEOSGeometry* b = rd(wb);
        if (!a || !b) { printf("%s BADWKB\n", id.c_str()); fflush(stdout); continue; }
        std::string o = id;
        double dab = NAN, dba = NAN, pab = NAN, pba = NAN;
        o += " d_ab=" + call(GEOSDistance_r, a, b, &dab);
        o += " d_ba=" + call(GEOSDistance_r, b, a, &dba);
        o += " i_ab=" + call(GEOSDistanceIndexed_r, a, b);
        o += " i_ba=" + call(GEOSDistanceIndexed_r, b, a);
        o += " np_ab=" + pts(GEOSNearestPoints_r(h, a, b));
        o += " np_ba=" + pts(GEOSNearestPoints_r(h, b, a));
        const GEOSPreparedGeometry* pa = GEOSPrepare_r(h, a); const GEOSPreparedGeometry* pb = GEOSPrepare_r(h, b);
        { double d = -1; o += std::string(" p_ab=") + (GEOSPreparedDistance_r(h, pa, b, &d) == 1 ? (pab = d, hx(d)) : "EXC"); }
        { double d = -1; o += std::string(" p_ba=") + (GEOSPreparedDistance_r(h, pb, a, &d) == 1 ? (pba = d, hx(d)) : "EXC"); }
        if (!skip_pnp) {
            o += " pnp_ab=" + pts(GEOSPreparedNearestPoints_r(h, pa, b));
            o += " pnp_ba=" + pts(GEOSPreparedNearestPoints_r(h, pb, a));
        }
        if (!std::isnan(dab)) {
            std::string w1, w2;
            for (double t : thresholds(dab)) { w1 += bit(GEOSDistanceWithin_r(h, a, b, t)); w2 += bit(GEOSDistanceWithin_r(h, b, a, t)); }
            o += " w_ab=" + w1 + " w_ba=" + w2;
        }
        if (!std::isnan(pab)) { std::string w; for (double t : thresholds(pab)) w += bit(GEOSPreparedDistanceWithin_r(h, pa, b, t)); o += " pw_ab=" + w; }
        if (!std::isnan(pba)) { std::string w; for (double t : thresholds(pba)) w += bit(GEOSPreparedDistanceWithin_r(h, pb, a, t)); o += " pw_ba=" + w; }
        { double d = -1; int rc = GEOSMinimumClearance_r(h, a, &d); o += std::string(" mc_a=") + (rc == 0 ? hx(d) : "EXC"); }
        { double d = -1; int rc = GEOSMinimumClearance_r(h, b, &d); o += std::string(" mc_b=") + (rc == 0 ? hx(d) : "EXC"); }
        o += " h_ab=" + call(GEOSHausdorffDistance_r, a, b);
        o += " h_ba=" + call(GEOSHausdorffDistance_r, b, a);
        { double d = -1; o += std::string(" hd_ab=") + (GEOSHausdorffDistanceDensify_r(h, a, b, frac, &d) == 1 ? hx(d) : "EXC"); }
        o += " f_ab=" + call(GEOSFrechetDistance_r, a, b);
        o += " f_ba=" + call(GEOSFrechetDistance_r, b, a);
        { double d = -1; o += std::string(" fd_ab=") + (GEOSFrechetDistanceDensify_r(h, a, b, frac, &d) == 1 ? hx(d) : "EXC"); }
        GEOSPreparedGeom_destroy_r(h, pa); GEOSPreparedGeom_destroy_r(h, pb);
        GEOSGeom_destroy_r(h, a); GEOSGeom_destroy_r(h, b);
        puts(o.c_str()); fflush(stdout);
    }
    GEOS_finish_r(h);
    return 0;
}
