// C05 correspondence harness: builds a geometry from the token format of ocaml/drv_C05.ml and asks the real library
// (C API) for its verdicts.  One input line -> one output line:
//   in : <e> <geom tokens>          coordinates are integers multiplied by 2^e; the tokens nan / inf / -inf are non-finite ordinates
//   out: V=<GEOSisValid_r> R=<GEOSisValidReason_r text, blanks as _> D0=<ok>;<reason>;<x>;<y> D1=<ok>;<reason>;<x>;<y> S=<GEOSisSimple_r> G=<GEOSisRing_r>
// Rings that the constructors refuse (unclosed, fewer than 3 points) are installed with LinearRing::setPoints (public, unchecked),
// which is how such a ring reaches IsValidOp in C++ client code.
#include <geos_c.h>
#include <geos/geom/Geometry.h>
#include <geos/geom/LinearRing.h>
#include <geos/geom/CoordinateSequence.h>
#include <cmath>
#include <cstdio>
#include <cstdlib>
#include <cstring>
#include <iostream>
#include <limits>
#include <sstream>
#include <string>
#include <vector>

static GEOSContextHandle_t h;
static int E = 0;
struct Toks { std::vector<std::string> t; size_t i = 0; bool bad = false;
  std::string next() { if (i >= t.size()) { bad = true; return "0"; } return t[i++]; }
  std::string peek() { return i < t.size() ? t[i] : ""; } };
static double ord(const std::string& s) {
    if (s == "nan") return std::numeric_limits<double>::quiet_NaN();
    if (s == "inf") return std::numeric_limits<double>::infinity();
    if (s == "-inf") return -std::numeric_limits<double>::infinity();
    return std::ldexp((double)std::strtoll(s.c_str(), nullptr, 10), E);
}
typedef std::vector<std::pair<double, double>> Pts;
static Pts takeSeq(Toks& tk) { int n = atoi(tk.next().c_str()); Pts p; for (int k = 0; k < n; k++) { double x = ord(tk.next()); double y = ord(tk.next()); p.push_back({x, y}); } return p; }
static GEOSCoordSequence* cs(const Pts& p) {
    GEOSCoordSequence* s = GEOSCoordSeq_create_r(h, (unsigned)p.size(), 2);
    for (size_t k = 0; k < p.size(); k++) GEOSCoordSeq_setXY_r(h, s, (unsigned)k, p[k].first, p[k].second);
    return s;
}
static bool same(const std::pair<double,double>& a, const std::pair<double,double>& b) { return a.first == b.first && a.second == b.second; }
static GEOSGeometry* mkRing(const Pts& p) {
    bool ok = p.empty() || (p.size() >= 3 && same(p.front(), p.back()));
    if (ok) return GEOSGeom_createLinearRing_r(h, cs(p));
    Pts d = {{0, 0}, {1, 0}, {0, 0}};
    GEOSGeometry* g = GEOSGeom_createLinearRing_r(h, cs(d));
    if (!g) return nullptr;
    geos::geom::CoordinateSequence seq(0u, false, false);
    for (auto& c : p) seq.add(geos::geom::CoordinateXY(c.first, c.second));
    auto* ring = static_cast<geos::geom::LinearRing*>(reinterpret_cast<geos::geom::Geometry*>(g));
    ring->setPoints(&seq);
    ring->geometryChanged();
    return g;
}
static GEOSGeometry* mkLine(const Pts& p) { return GEOSGeom_createLineString_r(h, cs(p)); }
static GEOSGeometry* mkPoly(Toks& tk) {
    int k = atoi(tk.next().c_str());
    if (k == 0) return GEOSGeom_createEmptyPolygon_r(h);
    GEOSGeometry* shell = mkRing(takeSeq(tk));
    std::vector<GEOSGeometry*> holes;
    for (int j = 1; j < k; j++) holes.push_back(mkRing(takeSeq(tk)));
    for (auto* x : holes) if (!x) return nullptr;
    if (!shell) return nullptr;
    return GEOSGeom_createPolygon_r(h, shell, holes.data(), (unsigned)holes.size());
}
static GEOSGeometry* mkPoint(Toks& tk) {
    if (tk.peek() == "E") { tk.next(); return GEOSGeom_createEmptyPoint_r(h); }
    double x = ord(tk.next()); double y = ord(tk.next());
    Pts p = {{x, y}};
    return GEOSGeom_createPoint_r(h, cs(p));
}
static GEOSGeometry* mkGeom(Toks& tk) {
    std::string ty = tk.next();
    if (ty == "PT") return mkPoint(tk);
    if (ty == "LS") return mkLine(takeSeq(tk));
    if (ty == "LR") return mkRing(takeSeq(tk));
    if (ty == "PG") return mkPoly(tk);
    int type = ty == "MPT" ? GEOS_MULTIPOINT : ty == "MLS" ? GEOS_MULTILINESTRING : ty == "MPG" ? GEOS_MULTIPOLYGON : ty == "GC" ? GEOS_GEOMETRYCOLLECTION : -1;
    if (type < 0) { tk.bad = true; return nullptr; }
    int m = atoi(tk.next().c_str());
    std::vector<GEOSGeometry*> gs;
    for (int k = 0; k < m; k++) {
        GEOSGeometry* g = ty == "MPT" ? mkPoint(tk) : ty == "MLS" ? mkLine(takeSeq(tk)) : ty == "MPG" ? mkPoly(tk) : mkGeom(tk);
        gs.push_back(g);
    }
    for (auto* x : gs) if (!x) return nullptr;
    return GEOSGeom_createCollection_r(h, type, gs.data(), (unsigned)gs.size());
}
static std::string us(const char* s) { std::string r = s ? s : "null"; for (auto& c : r) if (c == ' ') c = '_'; return r; }
static void quiet(const char*, ...) {}
int main() {
    h = GEOS_init_r();
    GEOSContext_setNoticeHandler_r(h, quiet);
    GEOSContext_setErrorHandler_r(h, quiet);
    std::string line;
    while (std::getline(std::cin, line)) {
        Toks tk; std::stringstream ss(line); std::string w;
        while (ss >> w) tk.t.push_back(w);
        E = atoi(tk.next().c_str());
        GEOSGeometry* g = mkGeom(tk);
        if (!g || tk.bad) { printf("CONSTRUCT-FAIL\n"); fflush(stdout); continue; }
        std::ostringstream o;
        o << "V=" << (int)GEOSisValid_r(h, g);
        char* r = GEOSisValidReason_r(h, g);
        o << " R=" << us(r); if (r) GEOSFree_r(h, r);
        for (int flag = 0; flag <= 1; flag++) {
            char* reason = nullptr; GEOSGeometry* loc = nullptr;
            int v = GEOSisValidDetail_r(h, g, flag, &reason, &loc);
            char buf[128] = "-;-";
            if (loc) { double x = 0, y = 0; GEOSGeomGetX_r(h, loc, &x); GEOSGeomGetY_r(h, loc, &y); snprintf(buf, sizeof buf, "%.17g;%.17g", x, y); GEOSGeom_destroy_r(h, loc); }
            o << " D" << flag << "=" << v << ";" << us(reason) << ";" << buf;
            if (reason) GEOSFree_r(h, reason);
        }
        o << " S=" << (int)GEOSisSimple_r(h, g) << " G=" << (int)GEOSisRing_r(h, g);
        GEOSGeom_destroy_r(h, g);
        printf("%s\n", o.str().c_str()); fflush(stdout);
    }
    GEOS_finish_r(h);
    return 0;
}
