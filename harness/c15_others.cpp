// C15 (other index classes): every class is compared with the list-filter specification on one random scenario per
// input line:  <seed> <n items> <coordinate range> <node capacity>
// exact indexes (SimpleSTRtree, legacy STRtree, SIRtree, SortedPackedIntervalRTree, KdTree, VertexSequencePackedRtree)
// must return exactly the matching items; Quadtree (documented as a primary filter) and HotPixelIndex (candidates for
// HotPixel::intersects) must not miss any.
// output: OK <class>=<queries> ...   or   FAIL <class> <details>
#include <geos/index/strtree/SimpleSTRtree.h>
#include <geos/index/strtree/STRtree.h>
#include <geos/index/strtree/SIRtree.h>
#include <geos/index/quadtree/Quadtree.h>
#include <geos/index/kdtree/KdTree.h>
#include <geos/index/kdtree/KdNode.h>
#include <geos/index/intervalrtree/SortedPackedIntervalRTree.h>
#include <geos/index/VertexSequencePackedRtree.h>
#include <geos/index/ItemVisitor.h>
#include <geos/index/chain/MonotoneChain.h>
#include <geos/index/chain/MonotoneChainBuilder.h>
#include <geos/index/chain/MonotoneChainOverlapAction.h>
#include <geos/noding/snapround/HotPixelIndex.h>
#include <geos/noding/snapround/HotPixel.h>
#include <geos/geom/PrecisionModel.h>
#include <geos/geom/CoordinateSequence.h>
#include <geos/geom/Envelope.h>
#include <geos/geom/LineSegment.h>
#include <algorithm>
#include <cstdio>
#include <iostream>
#include <random>
#include <set>
#include <sstream>
#include <string>
#include <vector>
using namespace geos::index;
using geos::geom::Envelope;
using geos::geom::Coordinate;
using geos::geom::CoordinateSequence;

struct It { long id; Envelope e; };
struct Collect : public ItemVisitor { std::vector<long> v; void visitItem(void* p) override { v.push_back(((It*)p)->id); } };
static std::string sorted_str(std::vector<long> v) { std::sort(v.begin(), v.end()); std::string s; for (long x : v) s += std::to_string(x) + ","; return s; }

struct Overlaps : public chain::MonotoneChainOverlapAction {
    std::set<std::pair<size_t, size_t>> pairs;
    void overlap(const chain::MonotoneChain& mc1, std::size_t start1, const chain::MonotoneChain& mc2, std::size_t start2) override {
        pairs.insert({start1 + 100000 * (size_t)(uintptr_t)mc1.getContext(), start2 + 100000 * (size_t)(uintptr_t)mc2.getContext()});
    }
};

int main() {
    std::string line;
    while (std::getline(std::cin, line)) {
        std::stringstream ss(line); unsigned seed; int n, R, cap; ss >> seed >> n >> R >> cap;
        std::mt19937 rng(seed);
        auto ri = [&](int lo, int hi) { return (int)(rng() % (unsigned)(hi - lo + 1)) + lo; };
        std::vector<It> items(n);
        for (int i = 0; i < n; i++) {
            int x = ri(0, R), y = ri(0, R), k = ri(0, 3);
            int w = k == 0 ? 0 : ri(0, R / 4 + 1), h = k == 0 ? 0 : (k == 1 ? 0 : ri(0, R / 4 + 1));
            items[i].id = i; items[i].e = Envelope(x, x + w, y, y + h);
        }
        std::string fail; std::string stats;
        auto queries = [&](int q) { int x = ri(-1, R), y = ri(-1, R); int w = (q % 3 == 0) ? 0 : ri(0, R / 3 + 1), h = (q % 3 == 0) ? 0 : ri(0, R / 3 + 1);
                                    if (q % 5 == 1 && n > 0) { const Envelope& b = items[ri(0, n - 1)].e; return Envelope(b.getMaxX(), b.getMaxX() + w, b.getMaxY(), b.getMaxY() + h); }
                                    return Envelope(x, x + w, y, y + h); };
        const int NQ = 12;
        // ---- envelope indexes through the SpatialIndex interface, with removals in between
        for (int cls = 0; cls < 3 && fail.empty(); cls++) {
            std::unique_ptr<SpatialIndex> idx;
            if (cls == 0) idx.reset(new strtree::SimpleSTRtree((size_t)cap));
            else if (cls == 1) idx.reset(new strtree::STRtree((size_t)std::max(cap, 2)));
            else idx.reset(new quadtree::Quadtree());
            const char* nm = cls == 0 ? "SimpleSTRtree" : cls == 1 ? "STRtree" : "Quadtree";
            std::vector<bool> live(n, true);
            for (auto& it : items) idx->insert(&it.e, &it);
            int nq = 0;
            for (int q = 0; q < NQ && fail.empty(); q++) {
                if (q == NQ / 2) {
                    int mode = (int)(seed % 3);
                    for (int r = 0; r < n; r++) {
                        bool rm = mode == 0 ? (r % 3 == 0) : mode == 1 ? (r < n - 1) : (r >= n / 2);
                        if (!rm) continue;
                        bool ok = idx->remove(&items[r].e, &items[r]); if (!ok && fail.empty()) fail = std::string(nm) + " remove of a live item failed id=" + std::to_string(r); live[r] = false;
                    }
                }
                Envelope qe = (q == NQ / 2 + 1) ? Envelope(-2, R + 2, -2, R + 2) : queries(q); Collect c; idx->query(&qe, c);
                std::vector<long> exp; for (int i = 0; i < n; i++) if (live[i] && items[i].e.intersects(qe)) exp.push_back(i);
                std::set<long> got(c.v.begin(), c.v.end());
                for (long e : exp) if (!got.count(e)) { fail = std::string(nm) + " missed item " + std::to_string(e) + " query " + qe.toString(); break; }
                if (fail.empty() && cls != 2 && sorted_str(c.v) != sorted_str(exp)) fail = std::string(nm) + " returned " + sorted_str(c.v) + " expected " + sorted_str(exp) + " query " + qe.toString();
                if (fail.empty() && cls == 2) for (long g : c.v) if (!live[g]) { fail = "Quadtree returned removed item " + std::to_string(g); break; }
                nq++;
            }
            stats += std::string(" ") + nm + "=" + std::to_string(nq);
        }
        // ---- 1-D: SIRtree and SortedPackedIntervalRTree
        if (fail.empty()) {
            strtree::SIRtree sir((size_t)std::max(cap, 2)); intervalrtree::SortedPackedIntervalRTree sp;
            for (auto& it : items) { sir.insert(it.e.getMinX(), it.e.getMaxX(), &it); sp.insert(it.e.getMinX(), it.e.getMaxX(), &it); }
            int nq = 0;
            for (int q = 0; q < NQ && fail.empty() && n > 0; q++) {
                double a = ri(-1, R), b = a + ((q % 2) ? 0 : ri(0, R / 3 + 1));
                std::vector<long> exp; for (int i = 0; i < n; i++) if (!(items[i].e.getMinX() > b || items[i].e.getMaxX() < a)) exp.push_back(i);
                auto res = sir.query(a, b); std::vector<long> g1; for (void* p : *res) g1.push_back(((It*)p)->id);
                Collect c; sp.query(a, b, &c);
                if (sorted_str(g1) != sorted_str(exp)) fail = "SIRtree returned " + sorted_str(g1) + " expected " + sorted_str(exp);
                else if (sorted_str(c.v) != sorted_str(exp)) fail = "SortedPackedIntervalRTree returned " + sorted_str(c.v) + " expected " + sorted_str(exp);
                nq++;
            }
            stats += " SIRtree=" + std::to_string(nq) + " IntervalRTree=" + std::to_string(nq);
        }
        // ---- points: KdTree (tolerance 0) and VertexSequencePackedRtree
        if (fail.empty()) {
            kdtree::KdTree kd(0.0); CoordinateSequence cs;
            std::vector<Coordinate> pts;
            for (int i = 0; i < n; i++) { Coordinate c(items[i].e.getMinX(), items[i].e.getMinY()); pts.push_back(c); kd.insert(c); cs.add(c); }
            int nq = 0;
            if (n > 0) {
                VertexSequencePackedRtree vs(cs);
                std::vector<bool> live(n, true);
                for (int q = 0; q < NQ && fail.empty(); q++) {
                    // removal histories: scattered, an ascending prefix that leaves only the tail, a descending suffix, a 16-aligned block
                    if (q == 2) {
                        int mode = (int)(seed % 4);
                        if (mode == 0) for (int r = 0; r < n; r += 4) { vs.remove((size_t)r); live[r] = false; }
                        else if (mode == 1) for (int r = 0; r < n - 1 - (int)(seed / 4 % 3); r++) { vs.remove((size_t)r); live[r] = false; }
                        else if (mode == 2) for (int r = n - 1; r > (int)(seed / 4 % 5); r--) { vs.remove((size_t)r); live[r] = false; }
                        else { int b0 = (ri(0, n - 1) / 16) * 16; for (int r = b0; r < std::min(n, b0 + 16); r++) { vs.remove((size_t)r); live[r] = false; } }
                    }
                    Envelope qe = (q == 3) ? Envelope(-2, R + 2, -2, R + 2) : queries(q);
                    std::vector<size_t> res; vs.query(qe, res);
                    std::vector<long> exp, got(res.begin(), res.end());
                    for (int i = 0; i < n; i++) if (live[i] && qe.covers(pts[i].x, pts[i].y)) exp.push_back(i);
                    if (sorted_str(got) != sorted_str(exp)) fail = "VertexSequencePackedRtree returned " + sorted_str(got) + " expected " + sorted_str(exp) + " query " + qe.toString();
                    std::vector<kdtree::KdNode*> kr; kd.query(qe, kr);
                    std::set<std::pair<double, double>> kgot, kexp;
                    for (auto* nd : kr) kgot.insert({nd->getX(), nd->getY()});
                    for (int i = 0; i < n; i++) if (qe.covers(pts[i].x, pts[i].y)) kexp.insert({pts[i].x, pts[i].y});
                    if (fail.empty() && kgot != kexp) fail = "KdTree query returned " + std::to_string(kgot.size()) + " distinct points, expected " + std::to_string(kexp.size()) + " query " + qe.toString();
                    nq++;
                }
            }
            stats += " KdTree=" + std::to_string(nq) + " VertexSeqRtree=" + std::to_string(nq);
        }
        // ---- monotone chains: every pair of segments with intersecting envelopes is reported by computeOverlaps
        if (fail.empty() && n >= 4) {
            CoordinateSequence a, b;
            for (int i = 0; i < n / 2; i++) a.add(Coordinate(items[i].e.getMinX(), items[i].e.getMinY()));
            for (int i = n / 2; i < n; i++) b.add(Coordinate(items[i].e.getMinX(), items[i].e.getMinY()));
            // remove repeated points (chains require distinct consecutive points)
            auto dedup = [](CoordinateSequence& s) { CoordinateSequence o; for (size_t i = 0; i < s.size(); i++) if (i == 0 || !(s.getAt(i).equals2D(s.getAt(i - 1)))) o.add(s.getAt(i)); return o; };
            CoordinateSequence da = dedup(a), db = dedup(b);
            if (da.size() >= 2 && db.size() >= 2) {
                std::vector<chain::MonotoneChain> ca, cb;
                chain::MonotoneChainBuilder::getChains(&da, (void*)1, ca); chain::MonotoneChainBuilder::getChains(&db, (void*)2, cb);
                Overlaps ov;
                for (auto& x : ca) for (auto& y : cb) x.computeOverlaps(&y, &ov);
                size_t miss = 0;
                for (size_t i = 0; i + 1 < da.size(); i++) for (size_t j = 0; j + 1 < db.size(); j++) {
                    Envelope e1(da.getAt(i), da.getAt(i + 1)), e2(db.getAt(j), db.getAt(j + 1));
                    if (e1.intersects(e2) && !ov.pairs.count({i + 100000, j + 200000})) miss++;
                }
                if (miss) fail = "MonotoneChain::computeOverlaps missed " + std::to_string(miss) + " segment pairs with intersecting envelopes";
                // with an overlap tolerance (snapping / snap-rounding noders): every pair of segments whose distance is within
                // the tolerance is reported, in both argument orders
                for (int t = 0; t < 2 && fail.empty(); t++) {
                    double tol = (t == 0) ? 0.25 + (double)ri(0, 3) * 0.25 : (double)ri(1, 3);
                    for (int order = 0; order < 2 && fail.empty(); order++) {
                        Overlaps ovt;
                        if (order == 0) { for (auto& x : ca) for (auto& y : cb) x.computeOverlaps(&y, tol, &ovt); }
                        else { for (auto& y : cb) for (auto& x : ca) y.computeOverlaps(&x, tol, &ovt); }
                        size_t misst = 0;
                        for (size_t i = 0; i + 1 < da.size(); i++) for (size_t j = 0; j + 1 < db.size(); j++) {
                            geos::geom::LineSegment s1(da.getAt(i), da.getAt(i + 1)), s2(db.getAt(j), db.getAt(j + 1));
                            if (s1.distance(s2) <= tol) {
                                bool seen = order == 0 ? ovt.pairs.count({i + 100000, j + 200000}) > 0 : ovt.pairs.count({j + 200000, i + 100000}) > 0;
                                if (!seen) misst++;
                            }
                        }
                        if (misst) fail = "MonotoneChain::computeOverlaps(tolerance " + std::to_string(tol) + (order ? ", B vs A" : ", A vs B") + ") missed " + std::to_string(misst) + " segment pairs within the tolerance";
                    }
                }
                stats += " MonotoneChain=" + std::to_string((da.size() - 1) * (db.size() - 1));
            }
        }
        // ---- hot pixel index: a segment query visits every hot pixel that a linear scan finds intersecting the segment
        if (fail.empty() && n > 0) {
            using namespace geos::noding::snapround;
            static const double scales[] = {1.0, 10.0, 0.5, 4.0};
            double scale = scales[seed % 4];
            geos::geom::PrecisionModel pm(scale);
            HotPixelIndex hpi(&pm);
            std::set<HotPixel*> pix;
            auto frac = [&](int v) { return (double)v + (double)ri(0, 7) / 8.0; };
            for (int i = 0; i < n; i++) { Coordinate c(frac((int)items[i].e.getMinX()), frac((int)items[i].e.getMinY())); pix.insert(hpi.add(c)); }
            struct V : public kdtree::KdNodeVisitor { std::set<HotPixel*> seen; void visit(kdtree::KdNode* nd) override { seen.insert((HotPixel*)nd->getData()); } };
            int nq = 0;
            for (int q = 0; q < NQ && fail.empty(); q++) {
                Coordinate p0(frac(ri(-1, R)), frac(ri(-1, R))), p1;
                if (q % 4 == 0) p1 = p0;                                                   // zero-length
                else if (q % 4 == 1) p1 = Coordinate(p0.x + ri(0, R / 3 + 1), p0.y);       // horizontal
                else if (q % 4 == 2) { HotPixel* h = *std::next(pix.begin(), ri(0, (int)pix.size() - 1));   // ends exactly on a pixel edge/corner
                                       p1 = Coordinate(h->getCoordinate().x + 0.5 / scale, h->getCoordinate().y - 0.5 / scale); }
                else p1 = Coordinate(frac(ri(-1, R)), frac(ri(-1, R)));
                V v; hpi.query(p0, p1, v);
                for (HotPixel* h : pix) {
                    bool need = h->intersects(p0, p1);
                    if (need && !v.seen.count(h)) { fail = "HotPixelIndex missed pixel " + h->getCoordinate().toString() + " scale " + std::to_string(scale) + " segment " + p0.toString() + " " + p1.toString(); break; }
                }
                nq++;
            }
            stats += " HotPixelIndex=" + std::to_string(nq);
        }
        if (fail.empty()) printf("OK%s\n", stats.c_str()); else printf("FAIL %s\n", fail.c_str());
        fflush(stdout);
    }
    return 0;
}
