// C12 harness: executes programs (sequences of C API calls over a pool of handles) emitted by the extracted generator.
// One program per input line, each run in a forked child; the parent prints one result line per program:
//   OK calls=<n> errs=<n> nulls=<n> maxms=<n> slow=<op:ms> | <soft findings: V <k> <op> <what> ...>
//   FAIL <crash|timeout|leak|sanitizer> call=<k> op=<name> args=<...> :: <detail>
// Program line:   <call> ; <call> ; ...  # <handle>:<kind>:<flag>:<owner> ...      (final pool of the model, for the clean-up)
//   call  :=  name shape res class cons errval args... > <result handle or -> ! <handles that die with this call>
//   shape :=  one letter per argument:  G const geom, g mutated geom, X consumed geom, D destroyed geom, I tree item,
//             P const prepared, p destroyed prepared, t mutated tree, T destroyed tree, S const seq, s mutated seq, Y consumed seq,
//             Z destroyed seq, B const bufparams, b mutated bufparams, V destroyed bufparams, 0..8 numeric parameter of that class
//   args  :=  h<id> for objects, n<index> for numeric parameters (index into the boundary table of the class)
// Checks per call: error value <=> error handler called; WKB image of every live geometry the call does not own / mutate is
// unchanged; a fresh result is distinct from every live pointer; SRID of constructive results = SRID of the first argument;
// time (10 s of CPU per call, 60 s wall-clock backstop). At the end everything the model says is still owned is destroyed and GEOS_finish_r runs (LeakSanitizer at exit).
#include <geos_c.h>
#include <geos/geom/Geometry.h>
#include <geos/geom/CoordinateFilter.h>
#include <geos/geom/Coordinate.h>
#include <cstdio>
#include <cstdlib>
#include <cstring>
#include <cmath>
#include <cstdarg>
#include <climits>
#include <cfloat>
#include <string>
#include <vector>
#include <sstream>
#include <iostream>
#include <dlfcn.h>
#include <unistd.h>
#include <signal.h>
#include <sys/wait.h>
#include <sys/time.h>
#include <time.h>
#include <fcntl.h>

static const char* WKT[] = {
    "POINT(1 2)", "POINT EMPTY", "POINT(NaN 1)", "POINT(Infinity 1)", "POINT(1e300 -1e300)", "POINT Z (1 2 3)", "POINT M (1 2 3)",
    "LINESTRING(0 0,10 0,10 10)", "LINESTRING EMPTY", "LINESTRING(1 1,1 1)", "LINESTRING(0 0,NaN 5,10 10)", "LINESTRING(0 0,Infinity 5)",
    "LINESTRING(0 0,1e300 1e300,-1e300 1e300)", "LINESTRING(0 0,10 10,0 10,10 0)", "LINEARRING(0 0,1 0,1 1,0 0)", "LINESTRING ZM (0 0 1 2,5 5 3 4)",
    "POLYGON((0 0,10 0,10 10,0 10,0 0),(2 2,4 2,4 4,2 4,2 2))", "POLYGON EMPTY", "POLYGON((0 0,10 10,10 0,0 10,0 0))",
    "POLYGON((0 0,10 0,NaN 10,0 10,0 0))", "POLYGON((0 0,10 0,5 0,0 0))", "POLYGON((0 0,Infinity 0,10 10,0 0))", "POLYGON((0 0,0 0,0 0,0 0))",
    "POLYGON((0 0,1e300 0,1e300 1e300,0 1e300,0 0))", "POLYGON((0 0,4 0,4 4,0 4,0 0),(1 1,5 1,5 3,1 3,1 1))",
    "MULTIPOINT((0 0),EMPTY,(1 1))", "MULTIPOINT EMPTY", "MULTILINESTRING((0 0,1 1),EMPTY,(2 2,3 3))", "MULTILINESTRING((0 0,1 1),(1 1,2 2),(0 0,0 0))",
    "MULTIPOLYGON(((0 0,1 0,1 1,0 0)),EMPTY,((0 0,1 0,1 1,0 0)))", "MULTIPOLYGON(((0 0,4 0,4 4,0 4,0 0)),((2 2,6 2,6 6,2 6,2 2)))",
    "GEOMETRYCOLLECTION(POINT(1 1),LINESTRING EMPTY,GEOMETRYCOLLECTION(POLYGON((0 0,1 0,1 1,0 0))))", "GEOMETRYCOLLECTION EMPTY",
    "GEOMETRYCOLLECTION(GEOMETRYCOLLECTION EMPTY,POINT EMPTY,POLYGON EMPTY)", "GEOMETRYCOLLECTION(POLYGON((0 0,2 0,2 2,0 2,0 0)),LINESTRING(1 1,3 3),POINT(5 5))",
    "CIRCULARSTRING(0 0,1 1,2 0)", "CIRCULARSTRING EMPTY", "COMPOUNDCURVE(CIRCULARSTRING(0 0,1 1,2 0),(2 0,3 0))",
    "CURVEPOLYGON(CIRCULARSTRING(0 0,1 1,2 0,1 -1,0 0))", "CURVEPOLYGON EMPTY", "MULTICURVE((0 0,1 1),CIRCULARSTRING(0 0,1 1,2 0))",
    "MULTISURFACE(((0 0,1 0,1 1,0 0)),CURVEPOLYGON(CIRCULARSTRING(0 0,1 1,2 0,1 -1,0 0)))",
    "POLYGON((0 0,100 0,100 100,0 100,0 0))", "LINESTRING(0 0,100 100)", "POINT(50 50)", "MULTIPOINT((1 1),(2 2),(3 3),(1 1))",
    "POLYGON((0 0,5 0,5 5,0 5,0 0))", "POLYGON((5 0,10 0,10 5,5 5,5 0))", "LINESTRING(-1 2,11 2)", "POINT(0 0)",
    "LINEARRING(2 2,3 2,3 3,2 2)", "LINEARRING EMPTY", "LINEARRING(0 0,10 0,10 10,0 10,0 0)", "CIRCULARSTRING(2 0,3 1,4 0)", "LINESTRING(4 0,5 5)",
    "CIRCULARSTRING(0 0,5 5,10 0,5 -5,0 0)",
    // dense linework (filled in by dense_literals()): segments much shorter than the tolerances / distances of the boundary table,
    // the kind of operand snapping, densifying and noding produce (GEOSSnap_r then inserts many snap vertices per segment)
    "POINT EMPTY", "POINT EMPTY", "POINT EMPTY",
    // garbage words of 900, 1100, 5000 and 70000 characters (filled in by dense_literals()): the reader fails and its error text
    // quotes the word, so the message is longer than any fixed buffer of the C API
    "POINT EMPTY", "POINT EMPTY", "POINT EMPTY", "POINT EMPTY"
};
static const int NWKT = sizeof(WKT) / sizeof(WKT[0]);
static void dense_literals() {
    static std::string ring, comb, zig; char b[96];
    ring = "POLYGON(("; for (int i = 0; i <= 64; i++) { double a = 6.283185307179586 * (i % 64) / 64.0, r = 5.0 + 0.05 * (i % 2);
        snprintf(b, sizeof b, "%s%.6f %.6f", i ? "," : "", 5 + r * cos(a), 5 + r * sin(a)); ring += b; } ring += "))";
    comb = "MULTILINESTRING("; for (int i = 0; i < 24; i++) { double x = 0.2 * i, y = 3 + 0.05 * (i % 5);
        snprintf(b, sizeof b, "%s(%.6f %.6f,%.6f %.6f)", i ? "," : "", x, y, x + 0.1, y + 0.07); comb += b; } comb += ")";
    zig = "LINESTRING("; for (int i = 0; i < 24; i++) { snprintf(b, sizeof b, "%s%.6f %.6f", i ? "," : "", 0.1 * i, 5 + 0.04 * (i % 3)); zig += b; } zig += ")";
    WKT[NWKT - 7] = ring.c_str(); WKT[NWKT - 6] = comb.c_str(); WKT[NWKT - 5] = zig.c_str();
    static std::string longw[4]; static const size_t LEN[4] = {900, 1100, 5000, 70000};
    for (int i = 0; i < 4; i++) { longw[i] = std::string(LEN[i], 'Q'); WKT[NWKT - 4 + i] = longw[i].c_str(); }
}
static const double DBL[] = {0.0, -0.0, 1.0, -1.0, 0.5, 2.0, 10.0, 100.0, 1e300, -1e300, NAN, INFINITY, -INFINITY, 5.0, 0.25, DBL_MAX};
static const int INT[] = {0, 1, -1, 2, 3, 8, 16, 100, -100, INT_MAX, INT_MIN, 4};
static const unsigned UNS[] = {0u, 1u, 2u, 3u, 10u, 1000u, 1000000u, 0x7fffffffu, 0xffffffffu, 4u};
static const char* PAT[] = {"T*F**FFF*", "FF*FF****", "", "TTTTTTTTT", "*********", "0********", "T********X", "2FFF1FFF2", "abcdefghi", "T*F**FFF*T*F**FFF*", "212101212", "FF2FF1212",
                            "", "", "", ""};      // the last four: patterns of 900 .. 70000 characters (dense_literals())
static const int NPAT = sizeof(PAT) / sizeof(PAT[0]);
static void long_patterns() {
    static std::string longp[4]; static const size_t LEN[4] = {900, 1100, 5000, 70000};
    for (int i = 0; i < 4; i++) { longp[i] = std::string(LEN[i], 'T'); PAT[NPAT - 4 + i] = longp[i].c_str(); }
}
static const int TYP[] = {0, 1, 2, 3, 4, 5, 6, 7, 8, 9, 10, 11, 12, 99, -1};
static const int SRID[] = {0, 4326, 1, -1, INT_MAX, 3857};
static const unsigned SIZ[] = {0u, 1u, 2u, 3u, 4u, 10u, 100u};
static const unsigned DIM[] = {0u, 1u, 2u, 3u, 4u, 5u};
#define PICK(tab, i) (tab[(i) % (sizeof(tab) / sizeof(tab[0]))])

static double now_ms() { struct timespec t; clock_gettime(CLOCK_MONOTONIC, &t); return t.tv_sec * 1e3 + t.tv_nsec * 1e-6; }

static int g_errs = 0; static char g_msg[120];
static void on_error(const char* m, void*) {
    g_errs++; size_t i = 0;
    for (; m[i] && i < sizeof(g_msg) - 1; i++) { unsigned char c = (unsigned char)m[i]; g_msg[i] = (c < 33 || c > 126 || c == '|') ? '_' : (char)c; }
    g_msg[i] = 0;
}
static void on_notice(const char*, void*) {}
// the second context reports through the OLD handler style (printf-like, no user data): GEOSContext_setErrorHandler_r
static void on_error_old(const char* fmt, ...) { char b[256]; va_list ap; va_start(ap, fmt); vsnprintf(b, sizeof b, fmt, ap); va_end(ap); on_error(b, nullptr); }
static void on_notice_old(const char*, ...) {}

struct Obj { void* p; char kind; bool alive; int owner; };
union Arg { void* p; double d; int i; unsigned u; size_t z; };

static GEOSContextHandle_t H;
// a second, independent context: every third call of a program goes through it (handles are per thread, objects are not bound to
// them); HC = the context of the current call.  The harness's own bookkeeping calls always use H.
static GEOSContextHandle_t H2, HC;
// ---- the interruption API (global state).  Mirror of C12/Interrupt.v: i_pending = a request made by GEOS_interruptRequest() that
// was neither cancelled nor delivered; i_cb / i_budget = a callback is registered and will still make that many requests.
static bool i_pending = false, i_cb = false; static int i_budget = 0;
static int i_cb_calls = 0, i_cb_requests = 0;       // during the current call
static int n_longmsg = 0;                            // calls that failed with an error text quoting 900+ characters of caller data
static int i_delivered = 0, i_after = 0;             // calls interrupted; polling-capable calls made after a delivery in the same program
static void i_callback() { i_cb_calls++; if (i_budget > 0) { i_budget--; i_cb_requests++; GEOS_interruptRequest(); } }
static const int CBK[] = {-1, 1, 0, 2, 1, -1};      // numeric class 9: -1 = unregister, otherwise the number of requests the callback makes
static GEOSWKBWriter* WW;
static int progress_fd = -1;
static volatile int cur_call = -1;
static char cur_desc[400];

static void on_alarm(int) {
    char b[480]; int n = snprintf(b, sizeof b, "T %d %s\n", cur_call, cur_desc);
    if (progress_fd >= 0) { ssize_t w = write(progress_fd, b, n); (void)w; }
    _exit(42);
}

static void arm(int cpu_s) {
    struct itimerval it; memset(&it, 0, sizeof it); it.it_value.tv_sec = cpu_s; setitimer(ITIMER_PROF, &it, nullptr);
    alarm(cpu_s > 0 ? 6 * cpu_s : 0);
}
static int query_hits = 0;
static void query_cb(void* item, void*) { query_hits++; if (item) { volatile int t = GEOSGeomTypeId_r(H, (const GEOSGeometry*)item); (void)t; } }

static bool has_empty_part(const GEOSGeometry* g, int depth) {
    if (!g || depth > 8) return false;
    int n = GEOSGetNumGeometries_r(H, g); int ty = GEOSGeomTypeId_r(H, g);
    bool coll = (ty == GEOS_MULTIPOINT || ty == GEOS_MULTILINESTRING || ty == GEOS_MULTIPOLYGON || ty == GEOS_GEOMETRYCOLLECTION || ty == GEOS_MULTICURVE || ty == GEOS_MULTISURFACE);
    if (!coll) return false;
    for (int i = 0; i < n; i++) {
        const GEOSGeometry* c = GEOSGetGeometryN_r(H, g, i);
        if (!c) continue;
        if (GEOSisEmpty_r(H, c) == 1) return true;
        if (has_empty_part(c, depth + 1)) return true;
    }
    return false;
}
struct CoordFlags : public geos::geom::CoordinateFilter {
    bool nonfinite = false, huge = false;
    void filter_ro(const geos::geom::CoordinateXY* c) override {
        if (!std::isfinite(c->x) || !std::isfinite(c->y)) nonfinite = true;
        else if (std::fabs(c->x) >= 1e100 || std::fabs(c->y) >= 1e100) huge = true;
    }
};
static std::string coord_flags(const GEOSGeometry* g) {
    CoordFlags f; reinterpret_cast<const geos::geom::Geometry*>(g)->apply_ro(&f);
    return std::string(f.nonfinite ? "[NONFINITE]" : "") + (f.huge ? "[HUGE]" : "");
}
static std::string wkb_hex(const GEOSGeometry* g) {
    size_t n = 0; unsigned char* b = GEOSWKBWriter_writeHEX_r(H, WW, g, &n);
    if (!b) return "<unwritable>";
    std::string s((const char*)b, n); GEOSFree_r(H, b); return s;
}

// the C signature of an entry point: return type letter ':' argument type letters (p pointer, d double, i int, u unsigned, z size_t,
// D out double*, U out unsigned*, C out char*); special: "coll", "poly", "query", "iterate", "wkt"
static std::string csig(const std::string& name, const std::string& shape, char res, char cls) {
    static const struct { const char* n; const char* s; } special[] = {
        {"GEOSGeomFromWKT_r", "wkt"}, {"GEOSGeom_createCollection_r", "coll"}, {"GEOSGeom_createPolygon_r", "poly"}, {"GEOSGeom_createCompoundCurve_r", "ccurve"}, {"GEOSGeom_createCurvePolygon_r", "cpoly"},
        {"GEOSSTRtree_query_r", "query"}, {"GEOSSTRtree_iterate_r", "iterate"}, {"GEOSSTRtree_create_r", "p:z"},
        {"GEOSCoordSeq_getSize_r", "i:pU"}, {"GEOSCoordSeq_getDimensions_r", "i:pU"}, {"GEOSMinimumClearance_r", "i:pD"},
        {"GEOSPreparedDistanceWithin_r", "c:ppd"}, {"GEOSGetNumGeometries_r", "i:p"}, {"GEOSProjectNormalized_r", "d:pp"},
        {"GEOSSTRtree_nearest_r", "p:pp"}, {"GEOSGetSRID_r", "i:p"}, {"GEOSGeom_getDimensions_r", "i:p"}, {"GEOSGeom_getCoordinateDimension_r", "i:p"},
        {"GEOSSTRtree_remove_r", "c:ppp"}, {"GEOSSTRtree_insert_r", "v:ppp"},
    };
    for (auto& s : special) if (name == s.n) return s.s;
    std::string a;
    for (char ch : shape) {
        if (ch == '0') a += 'd'; else if (ch == '1' || ch == '5' || ch == '6') a += 'i'; else if (ch == '2' || ch == '7' || ch == '8') a += 'u';
        else if (ch == '4') a += 'p'; else a += 'p';
    }
    char r;
    if (res == 'G' || res == 'g' || res == 'P' || res == 'T' || res == 'S' || res == 's' || res == 'B') r = 'p';
    else if (res == '-') r = (cls == 'c') ? 'i' : 'v';
    else if (cls == 'p') r = 'c'; else if (cls == 'P') r = 'p'; else if (cls == 'd') r = 'd'; else r = 'i';
    // status + value through an out-parameter (measures and getters; setters mutate their first argument and have none)
    if (cls == 's' && res == 'v' && shape.find_first_of("gsbt") == std::string::npos) a += 'D';
    return std::string(1, r) + ":" + a;
}

struct Ret { void* p; long i; double d; double out; };

// generic invocation through the ABI: all pointers are passed alike
static Ret invoke(void* fn, const std::string& sig, std::vector<Arg>& a) {
    Ret r; r.p = nullptr; r.i = 0; r.d = 0; r.out = 0;
    double od = 0; unsigned ou = 0;
    GEOSContextHandle_t h = HC;
#define F(rt, ...) ((rt (*)(GEOSContextHandle_t, ##__VA_ARGS__))fn)
    typedef void* P; typedef double Dd; typedef int I; typedef unsigned U; typedef size_t Z;
    if (sig == "p:") r.p = F(P)(h);
    else if (sig == "p:p") r.p = F(P, P)(h, a[0].p);
    else if (sig == "p:pp") r.p = F(P, P, P)(h, a[0].p, a[1].p);
    else if (sig == "p:pd") r.p = F(P, P, Dd)(h, a[0].p, a[1].d);
    else if (sig == "p:ppd") r.p = F(P, P, P, Dd)(h, a[0].p, a[1].p, a[2].d);
    else if (sig == "p:pdi") r.p = F(P, P, Dd, I)(h, a[0].p, a[1].d, a[2].i);
    else if (sig == "p:pdu") r.p = F(P, P, Dd, U)(h, a[0].p, a[1].d, a[2].u);
    else if (sig == "p:pdiid") r.p = F(P, P, Dd, I, I, Dd)(h, a[0].p, a[1].d, a[2].i, a[3].i, a[4].d);
    else if (sig == "p:pdiiid") r.p = F(P, P, Dd, I, I, I, Dd)(h, a[0].p, a[1].d, a[2].i, a[3].i, a[4].i, a[5].d);
    else if (sig == "p:pdd") r.p = F(P, P, Dd, Dd)(h, a[0].p, a[1].d, a[2].d);
    else if (sig == "p:pdddd") r.p = F(P, P, Dd, Dd, Dd, Dd)(h, a[0].p, a[1].d, a[2].d, a[3].d, a[4].d);
    else if (sig == "p:ppdi") r.p = F(P, P, P, Dd, I)(h, a[0].p, a[1].p, a[2].d, a[3].i);
    else if (sig == "p:pud") r.p = F(P, P, U, Dd)(h, a[0].p, a[1].u, a[2].d);
    else if (sig == "p:pi") r.p = F(P, P, I)(h, a[0].p, a[1].i);
    else if (sig == "p:dd") r.p = F(P, Dd, Dd)(h, a[0].d, a[1].d);
    else if (sig == "p:dddd") r.p = F(P, Dd, Dd, Dd, Dd)(h, a[0].d, a[1].d, a[2].d, a[3].d);
    else if (sig == "p:i") r.p = F(P, I)(h, a[0].i);
    else if (sig == "p:uu") r.p = F(P, U, U)(h, a[0].u, a[1].u);
    else if (sig == "p:z") r.p = F(P, Z)(h, (size_t)a[0].u);
    else if (sig == "c:p") r.i = F(char, P)(h, a[0].p);
    else if (sig == "c:pp") r.i = F(char, P, P)(h, a[0].p, a[1].p);
    else if (sig == "c:ppp") r.i = F(char, P, P, P)(h, a[0].p, a[1].p, a[2].p);
    else if (sig == "c:ppd") r.i = F(char, P, P, Dd)(h, a[0].p, a[1].p, a[2].d);
    else if (sig == "c:pdd") r.i = F(char, P, Dd, Dd)(h, a[0].p, a[1].d, a[2].d);
    else if (sig == "i:p") r.i = F(I, P)(h, a[0].p);
    else if (sig == "i:pi") r.i = F(I, P, I)(h, a[0].p, a[1].i);
    else if (sig == "i:pd") r.i = F(I, P, Dd)(h, a[0].p, a[1].d);
    else if (sig == "i:pud") r.i = F(I, P, U, Dd)(h, a[0].p, a[1].u, a[2].d);
    else if (sig == "i:pudd") r.i = F(I, P, U, Dd, Dd)(h, a[0].p, a[1].u, a[2].d, a[3].d);
    else if (sig == "i:puud") r.i = F(I, P, U, U, Dd)(h, a[0].p, a[1].u, a[2].u, a[3].d);
    else if (sig == "i:pD") { r.i = F(I, P, double*)(h, a[0].p, &od); r.out = od; }
    else if (sig == "i:ppD") { r.i = F(I, P, P, double*)(h, a[0].p, a[1].p, &od); r.out = od; }
    else if (sig == "i:ppdD") { r.i = F(I, P, P, Dd, double*)(h, a[0].p, a[1].p, a[2].d, &od); r.out = od; }
    else if (sig == "i:puD") { r.i = F(I, P, U, double*)(h, a[0].p, a[1].u, &od); r.out = od; }
    else if (sig == "i:puuD") { r.i = F(I, P, U, U, double*)(h, a[0].p, a[1].u, a[2].u, &od); r.out = od; }
    else if (sig == "i:pU") { r.i = F(I, P, unsigned*)(h, a[0].p, &ou); r.out = ou; }
    else if (sig == "d:pp") r.d = F(double, P, P)(h, a[0].p, a[1].p);
    else if (sig == "v:p") F(void, P)(h, a[0].p);
    else if (sig == "v:pi") F(void, P, I)(h, a[0].p, a[1].i);
    else if (sig == "v:ppp") F(void, P, P, P)(h, a[0].p, a[1].p, a[2].p);
    else { fprintf(stderr, "HARNESS: unsupported signature %s\n", sig.c_str()); _exit(77); }
#undef F
    return r;
}

static void say(int fd, const char* fmt, ...) {
    char b[1200]; va_list ap; va_start(ap, fmt); int n = vsnprintf(b, sizeof b, fmt, ap); va_end(ap);
    if (n > (int)sizeof b - 1) n = sizeof b - 1;
    ssize_t w = write(fd, b, n); (void)w;
}

static int run_program(const std::string& line, int fd) {
    progress_fd = fd;
    H = GEOS_init_r();
    GEOSContext_setErrorMessageHandler_r(H, on_error, nullptr);
    GEOSContext_setNoticeMessageHandler_r(H, on_notice, nullptr);
    H2 = GEOS_init_r();                      // created before any interrupt call: GEOS_init_r() itself cancels pending requests
    GEOSContext_setErrorHandler_r(H2, on_error_old);
    GEOSContext_setNoticeHandler_r(H2, on_notice_old);
    HC = H; GEOS_interruptRegisterCallback(nullptr); GEOS_interruptCancel(); i_pending = i_cb = false; i_budget = 0;
    WW = GEOSWKBWriter_create_r(H); GEOSWKBWriter_setOutputDimension_r(H, WW, 4); GEOSWKBWriter_setIncludeSRID_r(H, WW, 1);
    signal(SIGALRM, on_alarm); signal(SIGPROF, on_alarm);
    std::string prog = line, poolspec;
    size_t hash = line.find('#');
    if (hash != std::string::npos) { prog = line.substr(0, hash); poolspec = line.substr(hash + 1); }
    std::vector<Obj> pool;
    std::vector<std::string> calls; { std::stringstream ss(prog); std::string c; while (std::getline(ss, c, ';')) if (c.find_first_not_of(' ') != std::string::npos) calls.push_back(c); }
    int nerr = 0, nnull = 0, nskip = 0; double maxms = 0; std::string slow = "-";
    int per_call_s = getenv("C12_CALL_TIMEOUT") ? atoi(getenv("C12_CALL_TIMEOUT")) : 10;
    for (size_t k = 0; k < calls.size(); k++) {
        std::stringstream ss(calls[k]); std::vector<std::string> w; std::string t; while (ss >> t) w.push_back(t);
        if (w.size() < 6) { say(fd, "H bad call syntax: %s\n", calls[k].c_str()); return 3; }
        const std::string name = w[0]; const std::string shape = (w[1] == "." ? std::string("") : w[1]);
        char res = w[2][0], cls = w[3][0]; bool cons = w[4] == "1"; long errval = atol(w[5].c_str());
        std::vector<Arg> a; std::vector<int> objh; std::vector<int> dying; int resh = -1;
        size_t j = 6; size_t si = 0;
        for (; j < w.size() && w[j] != ">"; j++, si++) {
            Arg x; x.z = 0; char sc = si < shape.size() ? shape[si] : '?';
            if (w[j][0] == 'h') { int h = atoi(w[j].c_str() + 1); objh.push_back(h); x.p = (h >= 0 && h < (int)pool.size()) ? pool[h].p : nullptr; }
            else {
                unsigned idx = (unsigned)strtoul(w[j].c_str() + 1, nullptr, 10);
                switch (sc) {
                case '0': x.d = PICK(DBL, idx); break; case '1': x.i = PICK(INT, idx); break; case '2': x.u = PICK(UNS, idx); break;
                case '3': x.u = idx % NWKT; break; case '4': x.p = (void*)PICK(PAT, idx); break; case '5': x.i = PICK(TYP, idx); break;
                case '6': x.i = PICK(SRID, idx); break; case '7': x.u = PICK(SIZ, idx); break; case '8': x.u = PICK(DIM, idx); break;
                case '9': x.i = PICK(CBK, idx); break;
                default: x.u = idx;
                }
                objh.push_back(-1);
            }
            a.push_back(x);
        }
        if (j < w.size() && w[j] == ">") { j++; if (j < w.size() && w[j] != "-") resh = atoi(w[j].c_str() + 1); j++; }
        if (j < w.size() && w[j] == "!") { for (j++; j < w.size(); j++) dying.push_back(atoi(w[j].c_str() + 1)); }
        // description for the failure report
        { std::string dsc = name + "(";
          for (size_t q = 0; q < a.size(); q++) {
              char b[80]; char sc = q < shape.size() ? shape[q] : '?';
              if (objh[q] >= 0) snprintf(b, sizeof b, "h%d", objh[q]);
              else if (sc == '0') snprintf(b, sizeof b, "%g", a[q].d); else if (sc == '1' || sc == '5' || sc == '6' || sc == '9') snprintf(b, sizeof b, "%d", a[q].i);
              else if (sc == '3') { size_t wl = strlen(WKT[a[q].u]); if (wl > 800 && WKT[a[q].u][0] == 'Q') snprintf(b, sizeof b, "'%.12s...'[LONG%zu]", WKT[a[q].u], wl); else snprintf(b, sizeof b, "'%.40s'", WKT[a[q].u]); } else if (sc == '4') { size_t pl = strlen((const char*)a[q].p); if (pl <= 40) snprintf(b, sizeof b, "\"%s\"", (const char*)a[q].p); else snprintf(b, sizeof b, "\"%.12s...\"[LONG%zu]", (const char*)a[q].p, pl); }
              else snprintf(b, sizeof b, "%u", a[q].u);
              dsc += (q ? "," : ""); dsc += b;
              if (objh[q] >= 0 && objh[q] < (int)pool.size() && pool[objh[q]].kind == 'S' && pool[objh[q]].p) {
                  unsigned sz = 0, dm = 0; GEOSCoordSeq_getSize_r(H, (const GEOSCoordSequence*)pool[objh[q]].p, &sz); GEOSCoordSeq_getDimensions_r(H, (const GEOSCoordSequence*)pool[objh[q]].p, &dm);
                  char nb[64]; snprintf(nb, sizeof nb, "{n=%u,m=%u}:Seq", sz, dm); dsc += nb;
              }
              if (objh[q] >= 0 && objh[q] < (int)pool.size() && pool[objh[q]].kind == 'G' && pool[objh[q]].p) {
                  char* ty = GEOSGeomType_r(H, (const GEOSGeometry*)pool[objh[q]].p); int e = GEOSisEmpty_r(H, (const GEOSGeometry*)pool[objh[q]].p);
                  { char nb[64]; int ng = GEOSGetNumGeometries_r(H, (const GEOSGeometry*)pool[objh[q]].p);
                    int tid = GEOSGeomTypeId_r(H, (const GEOSGeometry*)pool[objh[q]].p);
                    int extra = tid == GEOS_POLYGON || tid == GEOS_CURVEPOLYGON ? GEOSGetNumInteriorRings_r(H, (const GEOSGeometry*)pool[objh[q]].p)
                              : (tid == GEOS_LINESTRING || tid == GEOS_LINEARRING || tid == GEOS_CIRCULARSTRING) ? GEOSGeomGetNumPoints_r(H, (const GEOSGeometry*)pool[objh[q]].p) : -1;
                    snprintf(nb, sizeof nb, "{n=%d,m=%d}", ng, extra); dsc += nb; }
                  if (ty) { dsc += std::string(":") + ty + (e == 1 ? "[EMPTY]" : "") + (has_empty_part((const GEOSGeometry*)pool[objh[q]].p, 0) ? "[EMPTYPART]" : "") + coord_flags((const GEOSGeometry*)pool[objh[q]].p); GEOSFree_r(H, ty); }
              }
          }
          dsc += ")"; snprintf(cur_desc, sizeof cur_desc, "%s", dsc.c_str()); }
        cur_call = (int)k;
        say(fd, "P %d %s\n", (int)k, cur_desc);
        // an earlier call may have failed (NULL result): calls that would use such a handle are skipped, with all their effects
        { bool skip = false;
          for (size_t q = 0; q < a.size(); q++) if (objh[q] >= 0) {
              int h = objh[q];
              if (h >= (int)pool.size() || !pool[h].alive || !pool[h].p) skip = true;
          }
          if (skip) { nskip++; if (resh >= 0) { while ((int)pool.size() <= resh) pool.push_back({nullptr, '?', false, -1}); } continue; } }
        // snapshot of the live geometries this call neither owns nor mutates
        std::vector<std::pair<int, std::string>> snap;
        for (int h = 0; h < (int)pool.size(); h++) {
            if (!pool[h].alive || pool[h].kind != 'G' || !pool[h].p) continue;
            bool excl = false;
            for (size_t q = 0; q < a.size(); q++) if (objh[q] == h && (shape[q] == 'g' || shape[q] == 'X' || shape[q] == 'D')) excl = true;
            if (!excl) snap.push_back({h, wkb_hex((const GEOSGeometry*)pool[h].p)});
        }
        int srid0 = 0; if (cons && !a.empty() && objh[0] >= 0) srid0 = GEOSGetSRID_r(H, (const GEOSGeometry*)pool[objh[0]].p);
        g_errs = 0; g_msg[0] = 0;
        void* fn = dlsym(RTLD_DEFAULT, name.c_str());
        if (!fn) { say(fd, "H no such entry point %s\n", name.c_str()); return 3; }
        std::string sig = csig(name, shape, res, cls);
        Ret r; r.p = nullptr; r.i = 0; r.d = 0; r.out = 0;
        // interruption: was this call asked to be interrupted?  (Interrupt.v: asked).  The callback is registered only while the
        // call runs, so that the harness's own calls never trigger it; the request flag itself is never touched by the harness.
        const bool i_asked = i_pending || (i_cb && i_budget > 0);
        i_cb_calls = i_cb_requests = 0;
        HC = (k % 3 == 2) ? H2 : H;
        if (i_cb) GEOS_interruptRegisterCallback(i_callback);
        double t0 = now_ms(); arm(per_call_s);
        if (name == "GEOS_interruptRegisterCallback") {
            if (a[0].i < 0) { i_cb = false; i_budget = 0; } else { i_cb = true; i_budget = a[0].i; }
        } else if (name == "GEOS_interruptRequest") {
            GEOS_interruptRequest(); i_pending = true;
        } else if (name == "GEOS_interruptCancel") {
            GEOS_interruptCancel(); i_pending = false;
        } else if (sig == "wkt") {
            r.p = GEOSGeomFromWKT_r(HC, WKT[a[0].u]);
            if (r.p && (a[0].u % 3) == 1) GEOSSetSRID_r(H, (GEOSGeometry*)r.p, PICK(SRID, a[0].u));
        } else if (sig == "coll") {
            // array constructors: the arrays hold every object argument after the fixed ones, whatever its type (ownership of ALL of
            // them passes to the library, also on failure: the bookkeeping below marks them consumed and LSan decides at exit)
            GEOSGeometry* arr[8]; unsigned n = 0;
            for (size_t q = 1; q < a.size() && n < 8; q++) arr[n++] = (GEOSGeometry*)a[q].p;
            r.p = GEOSGeom_createCollection_r(HC, a[0].i, arr, n);
            if (r.p) {      // the elements of a MULTI* must be of its member type (the object is unusable otherwise: destroy it here)
                int ty = a[0].i; bool bad = false;
                for (unsigned q = 0; q < n; q++) {
                    int et = GEOSGeomTypeId_r(H, GEOSGetGeometryN_r(H, (GEOSGeometry*)r.p, (int)q));
                    if ((ty == GEOS_MULTIPOINT && et != GEOS_POINT) || (ty == GEOS_MULTILINESTRING && et != GEOS_LINESTRING && et != GEOS_LINEARRING) || (ty == GEOS_MULTIPOLYGON && et != GEOS_POLYGON)) bad = true;
                }
                if (bad) { say(fd, "V %d %s collection-with-elements-of-the-wrong-type-accepted\n", (int)k, cur_desc); GEOSGeom_destroy_r(H, (GEOSGeometry*)r.p); r.p = nullptr; g_errs = 1; }
            }
        } else if (sig == "poly" || sig == "cpoly") {
            GEOSGeometry* holes[8]; unsigned n = 0;
            for (size_t q = 1; q < a.size() && n < 8; q++) holes[n++] = (GEOSGeometry*)a[q].p;
            r.p = sig == "poly" ? GEOSGeom_createPolygon_r(HC, (GEOSGeometry*)a[0].p, holes, n)
                                : GEOSGeom_createCurvePolygon_r(HC, (GEOSGeometry*)a[0].p, holes, n);
        } else if (sig == "ccurve") {
            GEOSGeometry* arr[8]; unsigned n = 0;
            for (size_t q = 0; q < a.size() && n < 8; q++) arr[n++] = (GEOSGeometry*)a[q].p;
            r.p = GEOSGeom_createCompoundCurve_r(HC, arr, n);
        } else if (name == "GEOSSTRtree_insert_r") {
            GEOSSTRtree_insert_r(HC, (GEOSSTRtree*)a[0].p, (const GEOSGeometry*)a[1].p, a[1].p);
        } else if (sig == "query") {
            query_hits = 0; GEOSSTRtree_query_r(HC, (GEOSSTRtree*)a[0].p, (const GEOSGeometry*)a[1].p, query_cb, nullptr);
        } else if (sig == "iterate") {
            query_hits = 0; GEOSSTRtree_iterate_r(HC, (GEOSSTRtree*)a[0].p, query_cb, nullptr);
        } else {
            r = invoke(fn, sig, a);
        }
        arm(0); double ms = now_ms() - t0;
        GEOS_interruptRegisterCallback(nullptr);
        // ---- interruption oracle: a call fails with InterruptedException only if somebody asked; a delivery consumes the request
        { bool interrupted = g_errs > 0 && strstr(g_msg, "nterrupt") != nullptr;
          if (interrupted && !i_asked)
              say(fd, "V %d %s interrupted-although-nobody-asked ctx=%s msg=%s\n", (int)k, cur_desc, HC == H2 ? "second" : "first", g_msg);
          if (interrupted) { i_pending = false; i_delivered++; }
          else if (i_delivered > 0 && name.compare(0, 14, "GEOS_interrupt") != 0 && !i_asked && (cons || cls == 'p')) i_after++; }
        // a result that is out of range by the harness's own count is not used further (the entry point accepted a bad index)
        if (r.p && (name == "GEOSGetGeometryN_r" || name == "GEOSGetInteriorRingN_r") && g_errs == 0) {
            int cntN = name == "GEOSGetGeometryN_r" ? GEOSGetNumGeometries_r(H, (const GEOSGeometry*)a[0].p) : GEOSGetNumInteriorRings_r(H, (const GEOSGeometry*)a[0].p);
            if (a[1].i < 0 || a[1].i >= cntN) { say(fd, "V %d %s out-of-range-index-accepted count=%d\n", (int)k, cur_desc, cntN); r.p = nullptr; g_errs = 1; }
        }
        // health check of a geometry result while the call is still the current one: it must be writable and describable
        if (r.p && (res == 'G' || res == 'g')) {
            arm(per_call_s);
            std::string hx = wkb_hex((const GEOSGeometry*)r.p); (void)hx;
            char* ty = GEOSGeomType_r(H, (const GEOSGeometry*)r.p); if (ty) GEOSFree_r(H, ty);
            (void)has_empty_part((const GEOSGeometry*)r.p, 0); (void)coord_flags((const GEOSGeometry*)r.p);
            arm(0);
        }
        if (ms > maxms) { maxms = ms; slow = name; }
        // ---- error value <=> error handler
        char rt = sig.size() > 1 && sig[1] == ':' ? sig[0] : (res == '-' ? 'v' : 'p');
        bool called = g_errs > 0; int is_err = -1;
        if (rt == 'p') is_err = (r.p == nullptr);
        else if (rt == 'c' || rt == 'i') { if (cls == 'p') is_err = (r.i == 2); else if (cls == 's') is_err = (r.i == 0); else if (cls == 'c') is_err = (r.i == -1); }
        else if (rt == 'd') { if (cls == 'd') is_err = (r.d == -1.0); }
        if (cls == 'o' || cls == 'v') {
            // no documented class: only one direction can be checked: an error message implies the source-level error value
            if (called && rt != 'v' && rt != 'p' && errval != 999999) { long got = (rt == 'd') ? (long)r.d : r.i; if (got != errval) say(fd, "V %d %s handler-called-but-return-%ld-not-errval-%ld\n", (int)k, cur_desc, got, errval); }
            is_err = -1;
        }
        if (is_err >= 0 && (is_err == 1) != called)
            say(fd, "V %d %s %s msg=%s\n", (int)k, cur_desc, is_err ? "error-value-without-error-message" : "error-message-without-error-value", g_msg);
        if (called) nerr++;
        if (is_err == 1 && strstr(cur_desc, "[LONG")) n_longmsg++;
        if (rt == 'p' && !r.p) nnull++;
        // ---- strings are freed, values of the right class stay in range
        if (res == 'v' && rt == 'p' && r.p && name != "GEOSSTRtree_nearest_r") GEOSFree_r(H, r.p);
        if (rt == 'c' && !(r.i == 0 || r.i == 1 || r.i == 2)) say(fd, "V %d %s predicate-returned-%ld\n", (int)k, cur_desc, r.i);
        // ---- liveness bookkeeping as the model says
        for (int h : dying) if (h >= 0 && h < (int)pool.size()) pool[h].alive = false;
        for (size_t h = 0; h < pool.size(); h++) if (pool[h].alive && pool[h].owner >= 0 && !pool[pool[h].owner].alive) pool[h].alive = false;
        if (resh >= 0) {
            while ((int)pool.size() < resh) pool.push_back({nullptr, '?', false, -1});
            char kd = (res == 'g') ? 'G' : (res == 's') ? 'S' : res;
            int owner = (res == 'g' || res == 's') ? (objh.empty() ? -1 : objh[0]) : -1;
            if ((int)pool.size() == resh) pool.push_back({r.p, kd, r.p != nullptr, owner}); else pool[resh] = {r.p, kd, r.p != nullptr, owner};
            // fresh results never alias a live object
            if (r.p && (res == 'G' || res == 'P' || res == 'T' || res == 'S' || res == 'B'))
                for (int h = 0; h < resh; h++) if (pool[h].alive && pool[h].p == r.p) say(fd, "V %d %s result-aliases-live-object-h%d\n", (int)k, cur_desc, h);
            if (cons && r.p && res == 'G') { int s1 = GEOSGetSRID_r(H, (const GEOSGeometry*)r.p); if (s1 != srid0) say(fd, "V %d %s srid-%d-not-propagated-got-%d\n", (int)k, cur_desc, srid0, s1); }
        }
        // ---- const inputs are bit-identical
        for (auto& sn : snap) {
            if (!pool[sn.first].alive) continue;
            std::string after = wkb_hex((const GEOSGeometry*)pool[sn.first].p);
            if (after != sn.second) say(fd, "V %d %s const-input-h%d-changed %s -> %s\n", (int)k, cur_desc, sn.first, sn.second.substr(0, 120).c_str(), after.substr(0, 120).c_str());
        }
        if (ms > 2000) say(fd, "S %d %s took-%.0f-ms\n", (int)k, cur_desc, ms);
    }
    GEOS_interruptRegisterCallback(nullptr); GEOS_interruptCancel(); HC = H;
    cur_call = -2; snprintf(cur_desc, sizeof cur_desc, "cleanup");
    say(fd, "P -2 cleanup\n");
    // ---- clean-up: everything the harness still owns (interior pointers are not owned), dependents first
    (void)poolspec;
    const char order[] = "PTSBG";
    for (const char* o = order; *o; o++)
        for (size_t h = 0; h < pool.size(); h++) if (pool[h].kind == *o && pool[h].alive && pool[h].owner < 0 && pool[h].p) {
            void* p = pool[h].p;
            switch (*o) {
            case 'P': GEOSPreparedGeom_destroy_r(H, (const GEOSPreparedGeometry*)p); break;
            case 'T': GEOSSTRtree_destroy_r(H, (GEOSSTRtree*)p); break;
            case 'S': GEOSCoordSeq_destroy_r(H, (GEOSCoordSequence*)p); break;
            case 'B': GEOSBufferParams_destroy_r(H, (GEOSBufferParams*)p); break;
            case 'G': GEOSGeom_destroy_r(H, (GEOSGeometry*)p); break;
            }
        }
    GEOSWKBWriter_destroy_r(H, WW);
    GEOS_finish_r(H2);
    GEOS_finish_r(H);
    say(fd, "E calls=%d errs=%d nulls=%d skipped=%d maxms=%.0f slow=%s intr=%d after=%d longmsg=%d\n", (int)calls.size(), nerr, nnull, nskip, maxms, slow.c_str(), i_delivered, i_after, n_longmsg);
    return 0;
}

int main() {
    dense_literals(); long_patterns();
    std::string line;
    int total_s = getenv("C12_PROGRAM_TIMEOUT") ? atoi(getenv("C12_PROGRAM_TIMEOUT")) : 400;
    while (std::getline(std::cin, line)) {
        int pfd[2], efd[2];
        if (pipe(pfd) || pipe(efd)) { printf("FAIL harness pipe\n"); fflush(stdout); continue; }
        fflush(stdout);
        pid_t pid = fork();
        if (pid == 0) {
            close(pfd[0]); close(efd[0]); dup2(efd[1], 2); close(efd[1]);
            int rc = run_program(line, pfd[1]);
            close(pfd[1]);
            exit(rc);          // normal exit: LeakSanitizer runs here
        }
        close(pfd[1]); close(efd[1]);
        // collect the child's report (and its stderr) until it exits
        std::string rep, err; char buf[4096];
        fcntl(pfd[0], F_SETFL, O_NONBLOCK); fcntl(efd[0], F_SETFL, O_NONBLOCK);
        double t0 = now_ms(); int status = 0; bool done = false, killed = false;
        while (!done) {
            ssize_t n;
            while ((n = read(pfd[0], buf, sizeof buf)) > 0) rep.append(buf, n);
            while ((n = read(efd[0], buf, sizeof buf)) > 0) { if (err.size() < 200000) err.append(buf, n); }
            pid_t w = waitpid(pid, &status, WNOHANG);
            if (w == pid) done = true;
            else if (now_ms() - t0 > total_s * 1000.0) { kill(pid, SIGKILL); killed = true; waitpid(pid, &status, 0); done = true; }
            else usleep(2000);
        }
        { ssize_t n; while ((n = read(pfd[0], buf, sizeof buf)) > 0) rep.append(buf, n); while ((n = read(efd[0], buf, sizeof buf)) > 0) if (err.size() < 200000) err.append(buf, n); }
        close(pfd[0]); close(efd[0]);
        // parse the report
        std::string lastP = "-1 ?", fin, soft, tmo, hmsg;
        { std::stringstream ss(rep); std::string l;
          while (std::getline(ss, l)) {
              if (l.empty()) continue;
              if (l[0] == 'P') lastP = l.substr(2); else if (l[0] == 'E') fin = l.substr(2);
              else if (l[0] == 'V' || l[0] == 'S') soft += " | " + l; else if (l[0] == 'T') tmo = l.substr(2); else if (l[0] == 'H') hmsg = l.substr(2);
          } }
        auto summarize = [&](const std::string& e) {
            std::string s; size_t p = e.find("ERROR: "); if (p == std::string::npos) p = e.find("runtime error"); if (p == std::string::npos) p = e.find("SUMMARY");
            if (p != std::string::npos) s = e.substr(p, 240); else s = e.substr(0, 240);
            // first frames
            size_t q = 0; int frames = 0; std::string fr;
            while ((q = e.find(" in ", q)) != std::string::npos && frames < 6) { size_t eol = e.find('\n', q); fr += " / " + e.substr(q + 4, std::min<size_t>(90, eol - q - 4)); q = eol; frames++; }
            for (char& c : s) if (c == '\n' || c == '|') c = ' ';
            for (char& c : fr) if (c == '\n' || c == '|') c = ' ';
            return s + fr;
        };
        if (!hmsg.empty()) printf("FAIL harness :: %s\n", hmsg.c_str());
        else if (!tmo.empty() || killed) printf("FAIL timeout call=%s :: no return within the per-call limit%s\n", tmo.empty() ? lastP.c_str() : tmo.c_str(), soft.c_str());
        else if (WIFSIGNALED(status)) printf("FAIL crash call=%s :: signal %d %s%s\n", lastP.c_str(), WTERMSIG(status), summarize(err).c_str(), soft.c_str());
        else if (WEXITSTATUS(status) != 0) {
            bool leak = err.find("LeakSanitizer") != std::string::npos;
            printf("FAIL %s call=%s :: exit %d %s%s\n", leak ? "leak" : "sanitizer", lastP.c_str(), WEXITSTATUS(status), summarize(err).c_str(), soft.c_str());
        }
        else printf("OK %s%s\n", fin.c_str(), soft.c_str());
        fflush(stdout);
    }
    return 0;
}
