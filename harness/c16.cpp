// C16 correspondence harness: Delaunay / constrained Delaunay / Voronoi through the C API, and the in-circle predicates of
// TrianglePredicate called directly. One result line per input line (format of ocaml/drv_C16.ml), fflush after each.
//
//   D <k> <tolnum> <gtype> x y x y ...           sites in grid units (integers); ordinate = x * 2^k; tolerance = tolnum * 2^k
//        gtype: M = MULTIPOINT, L = LINESTRING, C = GEOMETRYCOLLECTION(POINT..., LINESTRING), Z = MULTIPOINT Z, Y = LINESTRING Z
//               (Z / Y: the Z ordinate depends on the position in the list: equal X,Y sites differ in Z)
//        -> "T x y x y x y ; ... | E x y x y ; ..."     (triangles call, then edges-only call; grid units)
//   C <k> ring ; ring ; ...  [ / ring ; ... ]*    polygon(s): first ring shell, others holes; "/" separates polygons (MULTIPOLYGON)
//        ring = x y x y ... (closed)             -> "T x y x y x y ; ..."
//   V <k> <tolnum> <flags> <env|-> x y x y ...    env = xmin,ymin,xmax,ymax (grid units); flags: 1 edges only, 2 preserve order
//        -> cells: "P h h h h ... ; P ... "  (each ordinate / 2^k as the 16 hex digits of the binary64), or "L h h h h ; ..." for edges
//   P <16hex> x8                                  q p r t as bit patterns -> "robust nonrobust normalized" (Location codes 0 I, 1 B, 2 E)
//   d <k> <tolnum> <gtype> <seq> x y ...        C++ classes: ONE DelaunayTriangulationBuilder, the requests of <seq> in order
//        (T = getTriangles, E = getEdges, e.g. ET, TE, TT, EE, ETE) -> the answers in the D formats joined by " | "
//   v <k> <tolnum> <flags&2> <env|-> <gtype> <seq> x y ...   ONE VoronoiDiagramBuilder, requests P = getDiagram, L = getDiagramEdges
//        -> the answers in the V formats joined by " | "
//   errors: "ERR <message>" (the C API returned NULL), "NONGRID" (an output ordinate that is not an input-grid integer)
#include <geos_c.h>
#include <geos/triangulate/quadedge/TrianglePredicate.h>
#include <geos/geom/Coordinate.h>
#include <geos/geom/Envelope.h>
#include <geos/geom/Geometry.h>
#include <geos/geom/GeometryCollection.h>
#include <geos/geom/MultiLineString.h>
#include <geos/triangulate/DelaunayTriangulationBuilder.h>
#include <geos/triangulate/VoronoiDiagramBuilder.h>
#include <cmath>
#include <cstdarg>
#include <cstdint>
#include <cstdio>
#include <cstring>
#include <iostream>
#include <sstream>
#include <string>
#include <vector>
using geos::geom::CoordinateXY;
using geos::triangulate::quadedge::TrianglePredicate;

static GEOSContextHandle_t h;
static std::string lastmsg;
static void on_msg(const char* fmt, ...) {
    char buf[512]; va_list ap; va_start(ap, fmt); vsnprintf(buf, sizeof buf, fmt, ap); va_end(ap);
    lastmsg = buf; for (auto& c : lastmsg) if (c == '\n' || c == '|' || c == ';') c = ' ';
}
static std::string hexd(double d) { uint64_t u; memcpy(&u, &d, 8); char b[20]; snprintf(b, sizeof b, "%016llx", (unsigned long long)u); return b; }
static double unhex(const std::string& s) { uint64_t u = strtoull(s.c_str(), nullptr, 16); double d; memcpy(&d, &u, 8); return d; }
static bool nongrid = false;
static std::string gridint(double v, int k) {
    double g = std::ldexp(v, -k);
    if (!(std::fabs(g) <= 9.0e15) || g != std::floor(g)) { nongrid = true; return "?"; }
    char b[40]; snprintf(b, sizeof b, "%lld", (long long)g); return b;
}
static GEOSCoordSequence* seq(const std::vector<double>& xy, size_t from, size_t n, int k) {
    GEOSCoordSequence* cs = GEOSCoordSeq_create_r(h, (unsigned)n, 2);
    for (size_t i = 0; i < n; i++) GEOSCoordSeq_setXY_r(h, cs, (unsigned)i, std::ldexp(xy[2 * (from + i)], k), std::ldexp(xy[2 * (from + i) + 1], k));
    return cs;
}
// sites carrying a Z ordinate that depends on the POSITION in the list, so that two sites with the same X,Y get different Z
static GEOSCoordSequence* seqz(const std::vector<double>& xy, size_t from, size_t n, int k) {
    GEOSCoordSequence* cs = GEOSCoordSeq_create_r(h, (unsigned)n, 3);
    for (size_t i = 0; i < n; i++)
        GEOSCoordSeq_setXYZ_r(h, cs, (unsigned)i, std::ldexp(xy[2 * (from + i)], k), std::ldexp(xy[2 * (from + i) + 1], k), (double)(((from + i) * 7 + 3) % 11) - 4.0);
    return cs;
}
static GEOSGeometry* sites_geom(const std::string& gtype, const std::vector<double>& xy, int k) {
    size_t n = xy.size() / 2;
    if (gtype == "Y" && n >= 2) return GEOSGeom_createLineString_r(h, seqz(xy, 0, n, k));      // LINESTRING Z
    if (gtype == "Z" || gtype == "Y") {                                                        // MULTIPOINT Z
        std::vector<GEOSGeometry*> gz;
        for (size_t i = 0; i < n; i++) gz.push_back(GEOSGeom_createPoint_r(h, seqz(xy, i, 1, k)));
        return GEOSGeom_createCollection_r(h, GEOS_MULTIPOINT, gz.data(), (unsigned)gz.size());
    }
    if (gtype == "L" && n >= 2) return GEOSGeom_createLineString_r(h, seq(xy, 0, n, k));
    if (gtype == "C" && n >= 3) {
        std::vector<GEOSGeometry*> gs;
        size_t npts = n / 2;
        for (size_t i = 0; i < npts; i++) gs.push_back(GEOSGeom_createPoint_r(h, seq(xy, i, 1, k)));
        if (n - npts >= 2) gs.push_back(GEOSGeom_createLineString_r(h, seq(xy, npts, n - npts, k)));
        else for (size_t i = npts; i < n; i++) gs.push_back(GEOSGeom_createPoint_r(h, seq(xy, i, 1, k)));
        return GEOSGeom_createCollection_r(h, GEOS_GEOMETRYCOLLECTION, gs.data(), (unsigned)gs.size());
    }
    std::vector<GEOSGeometry*> gs;
    if (gtype == "X") {     // collection with EMPTY members at the front, in the middle and at the end
        gs.push_back(GEOSGeom_createEmptyPoint_r(h));
        for (size_t i = 0; i < n; i++) { gs.push_back(GEOSGeom_createPoint_r(h, seq(xy, i, 1, k))); if (i == n / 2) gs.push_back(GEOSGeom_createEmptyLineString_r(h)); }
        gs.push_back(GEOSGeom_createEmptyCollection_r(h, GEOS_MULTIPOINT));
        return GEOSGeom_createCollection_r(h, GEOS_GEOMETRYCOLLECTION, gs.data(), (unsigned)gs.size());
    }
    for (size_t i = 0; i < n; i++) gs.push_back(GEOSGeom_createPoint_r(h, seq(xy, i, 1, k)));
    return GEOSGeom_createCollection_r(h, GEOS_MULTIPOINT, gs.data(), (unsigned)gs.size());
}
static std::string ring_pts(const GEOSGeometry* ring, int k, size_t drop_last, bool hex) {
    const GEOSCoordSequence* s = GEOSGeom_getCoordSeq_r(h, ring);
    unsigned n = 0; GEOSCoordSeq_getSize_r(h, s, &n);
    std::string out;
    for (unsigned i = 0; i + drop_last < n; i++) {
        double x, y; GEOSCoordSeq_getXY_r(h, s, i, &x, &y);
        if (!out.empty()) out += " ";
        if (hex) out += hexd(std::ldexp(x, -k)) + " " + hexd(std::ldexp(y, -k));
        else out += gridint(x, k) + " " + gridint(y, k);
    }
    return out;
}
// triangles of a collection of 4-point polygons
static std::string tris_out(const GEOSGeometry* r, int k) {
    std::string out = "T";
    int n = GEOSGetNumGeometries_r(h, r);
    for (int i = 0; i < n; i++) {
        const GEOSGeometry* t = GEOSGetGeometryN_r(h, r, i);
        if (GEOSGeomTypeId_r(h, t) != GEOS_POLYGON || GEOSGetNumInteriorRings_r(h, t) != 0) { out += " BADTYPE ;"; continue; }
        const GEOSGeometry* er = GEOSGetExteriorRing_r(h, t);
        if (GEOSGeomGetNumPoints_r(h, er) != 4) { out += " BADSIZE ;"; continue; }
        out += " " + ring_pts(er, k, 1, false) + " ;";
    }
    return out;
}
static std::string edges_out(const GEOSGeometry* r, int k) {
    std::string out = "E";
    int n = GEOSGetNumGeometries_r(h, r);
    for (int i = 0; i < n; i++) {
        const GEOSGeometry* t = GEOSGetGeometryN_r(h, r, i);
        if (GEOSGeomTypeId_r(h, t) != GEOS_LINESTRING || GEOSGeomGetNumPoints_r(h, t) != 2) { out += " BADTYPE ;"; continue; }
        out += " " + ring_pts(t, k, 0, false) + " ;";
    }
    return out;
}
static std::vector<std::string> split(const std::string& s, char c) {
    std::vector<std::string> v; std::stringstream ss(s); std::string t;
    while (std::getline(ss, t, c)) v.push_back(t); return v;
}
static std::vector<double> nums(const std::string& s) { std::vector<double> v; std::stringstream ss(s); double d; while (ss >> d) v.push_back(d); return v; }

int main(int argc, char** argv) {
    h = GEOS_init_r();
    GEOSContext_setErrorHandler_r(h, on_msg);
    GEOSContext_setNoticeHandler_r(h, on_msg);
    std::string line;
    while (std::getline(std::cin, line)) {
        std::stringstream ls(line); std::string tag; ls >> tag; nongrid = false; lastmsg.clear();
        std::string out;
        if (tag == "P") {
            std::string w; double v[8]; for (int i = 0; i < 8; i++) { ls >> w; v[i] = unhex(w); }
            CoordinateXY q(v[0], v[1]), p(v[2], v[3]), r(v[4], v[5]), t(v[6], v[7]);
            out = std::to_string((int)TrianglePredicate::isInCircleRobust(q, p, r, t)) + " " +
                  std::to_string((int)TrianglePredicate::isInCircleNonRobust(q, p, r, t)) + " " +
                  std::to_string((int)TrianglePredicate::isInCircleNormalized(q, p, r, t));
        } else if (tag == "D") {
            int k; double tolnum; std::string gtype; ls >> k >> tolnum >> gtype;
            std::vector<double> xy; double d; while (ls >> d) xy.push_back(d);
            GEOSGeometry* g = sites_geom(gtype, xy, k);
            GEOSGeometry* rt = g ? GEOSDelaunayTriangulation_r(h, g, std::ldexp(tolnum, k), 0) : nullptr;
            std::string e1 = lastmsg; lastmsg.clear();
            GEOSGeometry* re = g ? GEOSDelaunayTriangulation_r(h, g, std::ldexp(tolnum, k), 1) : nullptr;
            out = (rt ? tris_out(rt, k) : "ERR " + e1) + " | " + (re ? edges_out(re, k) : "ERR " + lastmsg);
            if (rt) GEOSGeom_destroy_r(h, rt); if (re) GEOSGeom_destroy_r(h, re); if (g) GEOSGeom_destroy_r(h, g);
        } else if (tag == "C" || tag == "G" || tag == "N") {
            // C: POLYGON / MULTIPOLYGON; G: GEOMETRYCOLLECTION of the polygons; N: GEOMETRYCOLLECTION(GEOMETRYCOLLECTION(polygons));
            // a part without ordinates is POLYGON EMPTY
            int k; ls >> k; std::string rest; std::getline(ls, rest);
            std::vector<GEOSGeometry*> polys;
            for (auto& ps : split(rest, '/')) {
                std::vector<GEOSGeometry*> rings;
                for (auto& rs : split(ps, ';')) {
                    std::vector<double> xy = nums(rs); if (xy.size() < 2) continue;
                    rings.push_back(GEOSGeom_createLinearRing_r(h, seq(xy, 0, xy.size() / 2, k)));
                }
                if (rings.empty()) { polys.push_back(GEOSGeom_createEmptyPolygon_r(h)); continue; }
                polys.push_back(GEOSGeom_createPolygon_r(h, rings[0], rings.size() > 1 ? rings.data() + 1 : nullptr, (unsigned)rings.size() - 1));
            }
            GEOSGeometry* g;
            if (tag == "C") g = polys.size() == 1 ? polys[0] : GEOSGeom_createCollection_r(h, GEOS_MULTIPOLYGON, polys.data(), (unsigned)polys.size());
            else {
                g = GEOSGeom_createCollection_r(h, GEOS_GEOMETRYCOLLECTION, polys.data(), (unsigned)polys.size());
                if (tag == "N") { GEOSGeometry* inner[2] = { GEOSGeom_createEmptyPolygon_r(h), g }; g = GEOSGeom_createCollection_r(h, GEOS_GEOMETRYCOLLECTION, inner, 2); }
            }
            GEOSGeometry* r = g ? GEOSConstrainedDelaunayTriangulation_r(h, g) : nullptr;
            out = r ? tris_out(r, k) : "ERR " + lastmsg;
            if (r) GEOSGeom_destroy_r(h, r); if (g) GEOSGeom_destroy_r(h, g);
        } else if (tag == "V") {
            int k, flags; double tolnum; std::string env, gtype; ls >> k >> tolnum >> flags >> env >> gtype;
            std::vector<double> xy; double d; while (ls >> d) xy.push_back(d);
            GEOSGeometry* g = sites_geom(gtype, xy, k);
            GEOSGeometry* ge = nullptr;
            if (env != "-") { for (auto& c : env) if (c == ',') c = ' '; std::vector<double> e = nums(env);
                ge = GEOSGeom_createRectangle_r(h, std::ldexp(e[0], k), std::ldexp(e[1], k), std::ldexp(e[2], k), std::ldexp(e[3], k)); }
            GEOSGeometry* r = g ? GEOSVoronoiDiagram_r(h, g, ge, std::ldexp(tolnum, k), flags) : nullptr;
            if (!r) out = "ERR " + lastmsg;
            else {
                int n = GEOSGetNumGeometries_r(h, r);
                out = (flags & 1) ? "L" : "P";
                for (int i = 0; i < n; i++) {
                    const GEOSGeometry* c = GEOSGetGeometryN_r(h, r, i);
                    int ty = GEOSGeomTypeId_r(h, c);
                    if ((flags & 1) && ty == GEOS_LINESTRING) out += " " + ring_pts(c, k, 0, true) + " ;";
                    else if (!(flags & 1) && ty == GEOS_POLYGON && GEOSGetNumInteriorRings_r(h, c) == 0) out += " " + ring_pts(GEOSGetExteriorRing_r(h, c), k, 0, true) + " ;";
                    else out += " BADTYPE" + std::to_string(ty) + " ;";
                }
                GEOSGeom_destroy_r(h, r);
            }
            if (g) GEOSGeom_destroy_r(h, g); if (ge) GEOSGeom_destroy_r(h, ge);
        } else if (tag == "d") {
            int k; double tolnum; std::string gtype, sq; ls >> k >> tolnum >> gtype >> sq;
            std::vector<double> xy; double d; while (ls >> d) xy.push_back(d);
            GEOSGeometry* g = sites_geom(gtype, xy, k);
            const geos::geom::Geometry* gg = reinterpret_cast<const geos::geom::Geometry*>(g);
            try {
                geos::triangulate::DelaunayTriangulationBuilder builder;
                builder.setTolerance(std::ldexp(tolnum, k));
                builder.setSites(*gg);
                for (size_t i = 0; i < sq.size(); i++) {
                    if (i) out += " | ";
                    try {
                        if (sq[i] == 'T') { auto r = builder.getTriangles(*gg->getFactory()); out += tris_out(reinterpret_cast<const GEOSGeometry*>(static_cast<const geos::geom::Geometry*>(r.get())), k); }
                        else { auto r = builder.getEdges(*gg->getFactory()); out += edges_out(reinterpret_cast<const GEOSGeometry*>(static_cast<const geos::geom::Geometry*>(r.get())), k); }
                    } catch (std::exception& e) { std::string m = e.what(); for (auto& c : m) if (c == '|' || c == ';' || c == '\n') c = ' '; out += "ERR " + m; }
                }
            } catch (std::exception& e) { out = std::string("ERR ") + e.what(); }
            if (g) GEOSGeom_destroy_r(h, g);
        } else if (tag == "v") {
            int k, flags; double tolnum; std::string env, gtype, sq; ls >> k >> tolnum >> flags >> env >> gtype >> sq;
            std::vector<double> xy; double d; while (ls >> d) xy.push_back(d);
            GEOSGeometry* g = sites_geom(gtype, xy, k);
            const geos::geom::Geometry* gg = reinterpret_cast<const geos::geom::Geometry*>(g);
            geos::geom::Envelope cenv; bool has_env = env != "-";
            if (has_env) { for (auto& c : env) if (c == ',') c = ' '; std::vector<double> e = nums(env);
                cenv = geos::geom::Envelope(std::ldexp(e[0], k), std::ldexp(e[2], k), std::ldexp(e[1], k), std::ldexp(e[3], k)); }
            try {
                geos::triangulate::VoronoiDiagramBuilder builder;
                builder.setSites(*gg); builder.setTolerance(std::ldexp(tolnum, k)); builder.setOrdered((flags & 2) != 0);
                if (has_env) builder.setClipEnvelope(&cenv);
                for (size_t i = 0; i < sq.size(); i++) {
                    if (i) out += " | ";
                    try {
                        std::unique_ptr<geos::geom::Geometry> r;
                        bool lines = sq[i] == 'L';
                        if (lines) r = builder.getDiagramEdges(*gg->getFactory()); else r = builder.getDiagram(*gg->getFactory());
                        out += lines ? "L" : "P";
                        for (std::size_t j = 0; j < r->getNumGeometries(); j++) {
                            const GEOSGeometry* c = reinterpret_cast<const GEOSGeometry*>(r->getGeometryN(j));
                            int ty = GEOSGeomTypeId_r(h, c);
                            if (lines && ty == GEOS_LINESTRING) out += " " + ring_pts(c, k, 0, true) + " ;";
                            else if (!lines && ty == GEOS_POLYGON && GEOSGetNumInteriorRings_r(h, c) == 0) out += " " + ring_pts(GEOSGetExteriorRing_r(h, c), k, 0, true) + " ;";
                            else out += " BADTYPE" + std::to_string(ty) + " ;";
                        }
                    } catch (std::exception& e) { std::string m = e.what(); for (auto& c : m) if (c == '|' || c == ';' || c == '\n') c = ' '; out += "ERR " + m; }
                }
            } catch (std::exception& e) { out = std::string("ERR ") + e.what(); }
            if (g) GEOSGeom_destroy_r(h, g);
        } else out = "?";
        if (nongrid) out = "NONGRID " + out;
        puts(out.c_str()); fflush(stdout);
    }
    GEOS_finish_r(h);
    return 0;
}
