/* C01 harness: every relate entry point of the C API for one pair of geometries per input line.
   input :  <seed>|<WKT A>|<WKT B>|<pattern1,pattern2,...>
   output:  key=value tokens:
     valid=ab                       GEOSisValid_r of A and B ('0','1','2')
     R=<9>  RT=<9>                  GEOSRelate_r(A,B), GEOSRelate_r(B,A)
     BNR=<9>,<9>,<9>,<9>            GEOSRelateBoundaryNodeRule_r with MOD2, ENDPOINT, MULTIVALENT_ENDPOINT, MONOVALENT_ENDPOINT
     PR=<9>  PRT=<9>                GEOSPreparedRelate_r(prep A, B), GEOSPreparedRelate_r(prep B, A)
     named=<11 chars>               GEOSIntersects_r Disjoint Touches Crosses Within Contains Overlaps Equals Covers CoveredBy, then 'x'
     prep=<11 chars>                the prepared forms on prep A (Equals: 'x'), last = GEOSPreparedContainsProperly_r
     pat=p:abc,...                  GEOSRelatePattern_r, GEOSRelatePatternMatch_r on R, GEOSPreparedRelatePattern_r
     empty=ab
   chars: '0' false, '1' true, '2' exception; PARSE when a WKT does not parse. */
#include <geos_c.h>
#include <stdio.h>
#include <stdlib.h>
#include <string.h>

static GEOSContextHandle_t h;
static void nomsg(const char* m, void* u) { (void)m; (void)u; }
typedef char (*pred2)(GEOSContextHandle_t, const GEOSGeometry*, const GEOSGeometry*);
typedef char (*ppred2)(GEOSContextHandle_t, const GEOSPreparedGeometry*, const GEOSGeometry*);
static pred2 plain[] = {GEOSIntersects_r, GEOSDisjoint_r, GEOSTouches_r, GEOSCrosses_r, GEOSWithin_r, GEOSContains_r, GEOSOverlaps_r, GEOSEquals_r, GEOSCovers_r, GEOSCoveredBy_r};
static ppred2 prep[] = {GEOSPreparedIntersects_r, GEOSPreparedDisjoint_r, GEOSPreparedTouches_r, GEOSPreparedCrosses_r, GEOSPreparedWithin_r, GEOSPreparedContains_r, GEOSPreparedOverlaps_r, NULL, GEOSPreparedCovers_r, GEOSPreparedCoveredBy_r};
static char c(char v) { return v == 0 ? '0' : v == 1 ? '1' : '2'; }
static const char* s9(const char* s) { return (s && strlen(s) == 9) ? s : "ERR"; }

int main(void) {
    static char line[1 << 20];
    h = GEOS_init_r();
    GEOSContext_setErrorMessageHandler_r(h, nomsg, NULL); GEOSContext_setNoticeMessageHandler_r(h, nomsg, NULL);
    while (fgets(line, sizeof line, stdin)) {
        line[strcspn(line, "\n")] = 0;
        char* p1 = strchr(line, '|'); if (!p1) { puts("PARSE"); fflush(stdout); continue; } *p1++ = 0;
        char* p2 = strchr(p1, '|'); if (!p2) { puts("PARSE"); fflush(stdout); continue; } *p2++ = 0;
        char* p3 = strchr(p2, '|'); if (p3) *p3++ = 0;
        unsigned seed = (unsigned)strtoul(line, NULL, 10);
        GEOSGeometry* A = GEOSGeomFromWKT_r(h, p1); GEOSGeometry* B = GEOSGeomFromWKT_r(h, p2);
        if (!A || !B) { puts("PARSE"); fflush(stdout); if (A) GEOSGeom_destroy_r(h, A); if (B) GEOSGeom_destroy_r(h, B); continue; }
        printf("valid=%c%c", c(GEOSisValid_r(h, A)), c(GEOSisValid_r(h, B)));
        char* R = GEOSRelate_r(h, A, B); char* RT = GEOSRelate_r(h, B, A);
        printf(" R=%s RT=%s BNR=", s9(R), s9(RT));
        static const int bnr[4] = {GEOSRELATE_BNR_MOD2, GEOSRELATE_BNR_ENDPOINT, GEOSRELATE_BNR_MULTIVALENT_ENDPOINT, GEOSRELATE_BNR_MONOVALENT_ENDPOINT};
        for (int i = 0; i < 4; i++) {
            char* r = GEOSRelateBoundaryNodeRule_r(h, A, B, bnr[i]);
            printf("%s%s", i ? "," : "", s9(r));
            if (r) GEOSFree_r(h, r);
        }
        const GEOSPreparedGeometry* PA = GEOSPrepare_r(h, A); const GEOSPreparedGeometry* PB = GEOSPrepare_r(h, B);
        /* prepared predicates in a seed-dependent order on one reused prepared geometry (caches are shared between calls) */
        char pa[12]; int order[10];
        for (int i = 0; i < 10; i++) order[i] = i;
        for (int i = 9; i > 0; i--) { seed = seed * 1103515245u + 12345u; int j = (int)((seed >> 16) % (unsigned)(i + 1)); int t = order[i]; order[i] = order[j]; order[j] = t; }
        char* PR = NULL; char* PRT = NULL;
        if (seed & 0x10000) { PR = GEOSPreparedRelate_r(h, PA, B); PRT = GEOSPreparedRelate_r(h, PB, A); }
        for (int k = 0; k < 10; k++) { int i = order[k]; pa[i] = prep[i] ? c(prep[i](h, PA, B)) : 'x'; }
        pa[10] = c(GEOSPreparedContainsProperly_r(h, PA, B)); pa[11] = 0;
        if (!PR) { PR = GEOSPreparedRelate_r(h, PA, B); PRT = GEOSPreparedRelate_r(h, PB, A); }
        printf(" PR=%s PRT=%s named=", s9(PR), s9(PRT));
        for (int i = 0; i < 10; i++) putchar(c(plain[i](h, A, B)));
        printf("x prep=%s", pa);
        if (p3 && *p3) {
            char* tok = strtok(p3, ",");
            printf(" pat=");
            while (tok) {
                if (strlen(tok) == 9)
                    printf("%s:%c%c%c,", tok, c(GEOSRelatePattern_r(h, A, B, tok)), R ? c(GEOSRelatePatternMatch_r(h, R, tok)) : '2', c(GEOSPreparedRelatePattern_r(h, PA, B, tok)));
                tok = strtok(NULL, ",");
            }
        }
        printf(" empty=%c%c\n", GEOSisEmpty_r(h, A) ? '1' : '0', GEOSisEmpty_r(h, B) ? '1' : '0');
        fflush(stdout);
        if (R) GEOSFree_r(h, R); if (RT) GEOSFree_r(h, RT); if (PR) GEOSFree_r(h, PR); if (PRT) GEOSFree_r(h, PRT);
        GEOSPreparedGeom_destroy_r(h, PA); GEOSPreparedGeom_destroy_r(h, PB); GEOSGeom_destroy_r(h, A); GEOSGeom_destroy_r(h, B);
    }
    GEOS_finish_r(h);
    return 0;
}
