// C16 quad-edge correspondence harness: replays an operation history on the real QuadEdge / QuadEdgeSubdivision objects and
// prints a canonical dump of the whole structure; ocaml/drv_C16.ml mode H prints the same dump from the extracted hand model
// (coq/theories/C16/QuadEdgeDefs.v).
//   input   H <F|E> op ; op ; ...      op = m <o> <d> | s <q>.<r> <q>.<r> | c <q>.<r> <q>.<r> | w <q>.<r> | x <q>.<r>
//   output  n=<quartets> { <q>.<r>[!]><q'>.<r'>^<q''>.<r''>@<v> }*   |  BADREF <op index>  |  EXC <what>  |  ?
// mode E: a local deque starting empty (static QuadEdge::makeEdge/connect); mode F: a fresh QuadEdgeSubdivision(Envelope(0,2,0,2), 0)
// whose constructor already ran initSubdiv (3 frame quartets).
#include <bits/stdc++.h>
#define private public
#define protected public
#include <geos/geom/Envelope.h>
#include <geos/triangulate/quadedge/Vertex.h>
#include <geos/triangulate/quadedge/QuadEdge.h>
#include <geos/triangulate/quadedge/QuadEdgeQuartet.h>
#include <geos/triangulate/quadedge/QuadEdgeSubdivision.h>
#undef private
#undef protected

using namespace geos::triangulate::quadedge;
typedef std::deque<QuadEdgeQuartet> Deque;

static bool nan_seen = false;

static bool parse_ll(const std::string& s, long long& v)
{
    if (s.empty()) return false;
    char* end = nullptr;
    errno = 0;
    v = std::strtoll(s.c_str(), &end, 10);
    return errno == 0 && end && *end == 0;
}

// "<q>.<r>" -> (q, r); syntactically bad -> false
static bool parse_ref(const std::string& s, long long& q, long long& r)
{
    size_t dot = s.find('.');
    if (dot == std::string::npos) return false;
    if (!parse_ll(s.substr(0, dot), q) || !parse_ll(s.substr(dot + 1), r)) return false;
    return q >= 0 && r >= 0;
}

static std::string index_of(const Deque& dq, const QuadEdge* p)
{
    if (p == nullptr) return "null";
    for (size_t i = 0; i < dq.size(); i++) {
        const QuadEdge* lo = &dq[i].e[0];
        if (!std::less<const QuadEdge*>()(p, lo) && std::less<const QuadEdge*>()(p, lo + 4)) {
            return std::to_string(i) + "." + std::to_string((int) p->num);
        }
    }
    return "?.?";
}

static std::string dump(const Deque& dq)
{
    std::string o = "n=" + std::to_string(dq.size());
    for (size_t i = 0; i < dq.size(); i++) {
        for (int r = 0; r < 4; r++) {
            const QuadEdge& e = dq[i].e[(size_t) r];
            double x = e.orig().getX();
            long long v = 0;
            if (std::isnan(x)) nan_seen = true; else v = (long long) x;
            o += " " + std::to_string(i) + "." + std::to_string(r) + (e.isLive() ? "" : "!") + ">" + index_of(dq, e.next)
                 + "^" + index_of(dq, &e.rot()) + "@" + std::to_string(v);
        }
    }
    return o;
}

static QuadEdgeSubdivision& dummy()
{
    static QuadEdgeSubdivision d(geos::geom::Envelope(0, 2, 0, 2), 0.0);
    return d;
}

static std::string run_line(const std::vector<std::string>& tok)
{
    if (tok.size() < 2 || tok[0] != "H" || (tok[1] != "F" && tok[1] != "E")) return "?";
    bool full = tok[1] == "F";
    // split into ops
    std::vector<std::vector<std::string>> ops;
    std::vector<std::string> cur;
    for (size_t i = 2; i < tok.size(); i++) {
        if (tok[i] == ";") { if (!cur.empty()) ops.push_back(cur); cur.clear(); }
        else cur.push_back(tok[i]);
    }
    if (!cur.empty()) ops.push_back(cur);

    std::unique_ptr<QuadEdgeSubdivision> sub;
    Deque local;
    if (full) sub.reset(new QuadEdgeSubdivision(geos::geom::Envelope(0, 2, 0, 2), 0.0));
    Deque& dq = full ? sub->quadEdges : local;

    for (size_t k = 0; k < ops.size(); k++) {
        const std::vector<std::string>& op = ops[k];
        const std::string& c = op[0];
        if (c == "m") {
            long long o, d;
            if (op.size() != 3 || !parse_ll(op[1], o) || !parse_ll(op[2], d)) return "?";
            Vertex vo((double) o, 0.0), vd((double) d, 0.0);
            if (full) sub->makeEdge(vo, vd); else QuadEdge::makeEdge(vo, vd, dq);
            continue;
        }
        size_t nargs = (c == "s" || c == "c") ? 2 : (c == "w" || c == "x") ? 1 : 0;
        if (nargs == 0 || op.size() != nargs + 1) return "?";
        QuadEdge* a[2] = {nullptr, nullptr};
        for (size_t j = 0; j < nargs; j++) {
            long long q, r;
            if (!parse_ref(op[j + 1], q, r)) return "?";
            if ((unsigned long long) q >= dq.size() || r > 3) return "BADREF " + std::to_string(k);
            a[j] = &dq[(size_t) q].e[(size_t) r];
        }
        if (c == "s") QuadEdge::splice(*a[0], *a[1]);
        else if (c == "c") { if (full) sub->connect(*a[0], *a[1]); else QuadEdge::connect(*a[0], *a[1], dq); }
        else if (c == "w") QuadEdge::swap(*a[0]);
        else { if (full) sub->remove(*a[0]); else dummy().remove(*a[0]); }
    }
    return dump(dq);
}

int main()
{
    std::string line;
    while (std::getline(std::cin, line)) {
        std::string out;
        try {
            std::istringstream is(line);
            std::vector<std::string> tok;
            std::string t;
            while (is >> t) tok.push_back(t);
            out = run_line(tok);
        } catch (const std::exception& ex) {
            out = std::string("EXC ") + ex.what();
        } catch (...) {
            out = "EXC unknown";
        }
        for (char& ch : out) if (ch == '\n' || ch == '\r') ch = ' ';
        std::fputs(out.c_str(), stdout);
        std::fputc('\n', stdout);
        std::fflush(stdout);
    }
    if (nan_seen) std::fputs("note: a NaN origin was printed as 0\n", stderr);
    return 0;
}
