// C09 harness: the real WKB/HEX writer and reader driven through the C API, same line protocol as ocaml/drv_C09.ml.
//   G <geom>     -> WF=? (not printed here) ; ORIG=<geom as built, read through accessors> ; <cfg>=<HEX>><reread | ERR> ; ...
//   R <hex text> -> <reread | ERR>
// Geometries are built with the C API constructors from raw 64-bit patterns (GEOSCoordSeq_copyFromBuffer_r), read back
// through the accessors (type ids, ring / element accessors, GEOSCoordSeq_copyToBuffer_r cross-checked with getOrdinate,
// GEOSHasZ_r / GEOSHasM_r, GEOSGetSRID_r). The sections of a compound curve and the per-sequence Z/M flags have no C
// accessor; they are read through the C++ classes (the C handle types are typedefs of them).
#include <geos/geom/Geometry.h>
#include <geos/geom/CompoundCurve.h>
#include <geos/geom/SimpleCurve.h>
#include <geos/geom/CoordinateSequence.h>
#include <geos_c.h>
#include <cstdio>
#include <cstdlib>
#include <cstring>
#include <cstdint>
#include <cctype>
#include <string>
#include <vector>
#include <sstream>
#include <iostream>

static GEOSContextHandle_t h;
static std::string last_err;
static void on_err(const char* m, void*) { last_err = m ? m : ""; }
static void on_notice(const char*, void*) {}

struct Bad { std::string m; };
static std::vector<std::string> toks; static size_t pos;
static const std::string& next() { if (pos >= toks.size()) throw Bad{"eof"}; return toks[pos++]; }

static uint64_t hex64(const std::string& s) { return strtoull(s.c_str(), nullptr, 16); }
static void dims_of(const std::string& s, int& z, int& m) {
    if (s == "XY") { z = 0; m = 0; } else if (s == "XYZ") { z = 1; m = 0; } else if (s == "XYM") { z = 0; m = 1; } else if (s == "XYZM") { z = 1; m = 1; } else throw Bad{"dims " + s};
}
static const char* dims_str(bool z, bool m) { return z ? (m ? "XYZM" : "XYZ") : (m ? "XYM" : "XY"); }

static GEOSCoordSequence* parse_seq() {
    int z, m; dims_of(next(), z, m);
    unsigned n = (unsigned) atoi(next().c_str());
    std::vector<double> buf((size_t) n * (2 + z + m) + 1);
    for (size_t i = 0; i < (size_t) n * (2 + z + m); i++) { uint64_t w = hex64(next()); memcpy(&buf[i], &w, 8); }
    // two construction paths: interleaved buffer (even n) and per-ordinate arrays (odd n and n = 0; copyFromBuffer_r with
    // size 0 hands a null pointer to memcpy, which UBSan reports in capi/geos_ts_c.cpp -- a C12 matter, avoided here)
    if (n != 0 && n % 2 == 0) return GEOSCoordSeq_copyFromBuffer_r(h, buf.data(), n, z, m);
    int st = 2 + z + m;
    std::vector<double> X(n + 1), Y(n + 1), Zv(n + 1), Mv(n + 1);
    for (unsigned i = 0; i < n; i++) {
        X[i] = buf[(size_t) i * st]; Y[i] = buf[(size_t) i * st + 1];
        if (z) Zv[i] = buf[(size_t) i * st + 2];
        if (m) Mv[i] = buf[(size_t) i * st + 2 + z];
    }
    return GEOSCoordSeq_copyFromArrays_r(h, X.data(), Y.data(), z ? Zv.data() : nullptr, m ? Mv.data() : nullptr, n);
}
struct ConstructFail {};
static GEOSGeometry* chk(GEOSGeometry* g) { if (!g) throw ConstructFail{}; return g; }

static GEOSGeometry* parse_geom() {
    std::string tag = next();
    int srid = (int) strtol(next().c_str(), nullptr, 10);
    GEOSGeometry* g = nullptr;
    auto many = [&](std::vector<GEOSGeometry*>& v) { int n = atoi(next().c_str()); for (int i = 0; i < n; i++) v.push_back(parse_geom()); };
    if (tag == "PT") g = chk(GEOSGeom_createPoint_r(h, parse_seq()));
    else if (tag == "LS") g = chk(GEOSGeom_createLineString_r(h, parse_seq()));
    else if (tag == "LR") g = chk(GEOSGeom_createLinearRing_r(h, parse_seq()));
    else if (tag == "CS") g = chk(GEOSGeom_createCircularString_r(h, parse_seq()));
    else if (tag == "PG") {
        int n = atoi(next().c_str()); if (n < 1) throw Bad{"PG needs a shell"};
        std::vector<GEOSGeometry*> rings;
        for (int i = 0; i < n; i++) rings.push_back(chk(GEOSGeom_createLinearRing_r(h, parse_seq())));
        g = chk(GEOSGeom_createPolygon_r(h, rings[0], rings.data() + 1, (unsigned) (n - 1)));
    }
    else if (tag == "CC") { std::vector<GEOSGeometry*> v; many(v); g = chk(GEOSGeom_createCompoundCurve_r(h, v.data(), (unsigned) v.size())); }
    else if (tag == "CP") {
        std::vector<GEOSGeometry*> v; many(v); if (v.empty()) throw Bad{"CP needs a shell"};
        g = chk(GEOSGeom_createCurvePolygon_r(h, v[0], v.data() + 1, (unsigned) (v.size() - 1)));
    }
    else {
        int type = tag == "MP" ? GEOS_MULTIPOINT : tag == "ML" ? GEOS_MULTILINESTRING : tag == "MG" ? GEOS_MULTIPOLYGON :
                   tag == "GC" ? GEOS_GEOMETRYCOLLECTION : tag == "MC" ? GEOS_MULTICURVE : tag == "MS" ? GEOS_MULTISURFACE : -1;
        if (type < 0) throw Bad{"tag " + tag};
        std::vector<GEOSGeometry*> v; many(v);
        g = chk(GEOSGeom_createCollection_r(h, type, v.data(), (unsigned) v.size()));
    }
    GEOSSetSRID_r(h, g, srid);
    return g;
}

static std::string out;
static void add(const std::string& s) { out += s; }
static void addw(double d) { uint64_t w; memcpy(&w, &d, 8); char b[20]; snprintf(b, sizeof b, "%016llx", (unsigned long long) w); out += b; }

static void dump_seq(const GEOSGeometry* g) {
    const GEOSCoordSequence* cs = GEOSGeom_getCoordSeq_r(h, g);
    if (!cs) { add("!NOSEQ"); return; }
    const auto* cpp = reinterpret_cast<const geos::geom::CoordinateSequence*>(cs);
    bool z = cpp->hasZ(), m = cpp->hasM();
    if ((GEOSHasZ_r(h, g) != 0) != z || (GEOSHasM_r(h, g) != 0) != m) add("!FLAGS ");
    unsigned n = 0; GEOSCoordSeq_getSize_r(h, cs, &n);
    add(dims_str(z, m)); add(" "); add(std::to_string(n));
    int st = 2 + z + m;
    std::vector<double> buf((size_t) n * st + 1);
    if (n && !GEOSCoordSeq_copyToBuffer_r(h, cs, buf.data(), z, m)) add(" !COPY");
    for (unsigned i = 0; i < n; i++) {
        for (int j = 0; j < st; j++) { add(" "); addw(buf[(size_t) i * st + j]); }
        // cross-check with the per-ordinate accessor (ordinate index: 0 X, 1 Y, 2 Z, 3 M)
        if (i == 0 || i + 1 == n) {
            double v; uint64_t a, b;
            int idx[4] = {0, 1, 2, 3}; int k = 0;
            for (int j = 0; j < 4; j++) {
                if ((j == 2 && !z) || (j == 3 && !m)) continue;
                if (!GEOSCoordSeq_getOrdinate_r(h, cs, i, idx[j], &v)) { add(" !GETORD"); break; }
                memcpy(&a, &v, 8); memcpy(&b, &buf[(size_t) i * st + k], 8); k++;
                if (a != b) add(" !ORDINATE-ACCESSORS-DISAGREE");
            }
        }
    }
}
static const char* simple_tag(int t) { return t == GEOS_LINESTRING ? "LS" : t == GEOS_LINEARRING ? "LR" : t == GEOS_CIRCULARSTRING ? "CS" : "??"; }

static void dump_geom(const GEOSGeometry* g) {
    int t = GEOSGeomTypeId_r(h, g);
    std::string srid = std::to_string(GEOSGetSRID_r(h, g));
    switch (t) {
    case GEOS_POINT: add("PT " + srid + " "); dump_seq(g); break;
    case GEOS_LINESTRING: case GEOS_LINEARRING: case GEOS_CIRCULARSTRING: add(std::string(simple_tag(t)) + " " + srid + " "); dump_seq(g); break;
    case GEOS_POLYGON: {
        int nh = GEOSGetNumInteriorRings_r(h, g);
        add("PG " + srid + " " + std::to_string(nh + 1) + " "); dump_seq(GEOSGetExteriorRing_r(h, g));
        for (int i = 0; i < nh; i++) { add(" "); dump_seq(GEOSGetInteriorRingN_r(h, g, i)); }
        break; }
    case GEOS_COMPOUNDCURVE: {
        const auto* cc = dynamic_cast<const geos::geom::CompoundCurve*>(reinterpret_cast<const geos::geom::Geometry*>(g));
        if (!cc) { add("!NOT-A-COMPOUNDCURVE"); break; }
        add("CC " + srid + " " + std::to_string(cc->getNumCurves()));
        for (size_t i = 0; i < cc->getNumCurves(); i++) {
            const geos::geom::Geometry* sec = cc->getCurveN(i);
            add(" "); dump_geom(reinterpret_cast<const GEOSGeometry*>(sec));
        }
        break; }
    case GEOS_CURVEPOLYGON: {
        int nh = GEOSGetNumInteriorRings_r(h, g);
        add("CP " + srid + " " + std::to_string(nh + 1) + " "); dump_geom(GEOSGetExteriorRing_r(h, g));
        for (int i = 0; i < nh; i++) { add(" "); dump_geom(GEOSGetInteriorRingN_r(h, g, i)); }
        break; }
    default: {
        const char* tag = t == GEOS_MULTIPOINT ? "MP" : t == GEOS_MULTILINESTRING ? "ML" : t == GEOS_MULTIPOLYGON ? "MG" :
                          t == GEOS_GEOMETRYCOLLECTION ? "GC" : t == GEOS_MULTICURVE ? "MC" : t == GEOS_MULTISURFACE ? "MS" : "??";
        int n = GEOSGetNumGeometries_r(h, g);
        add(std::string(tag) + " " + srid + " " + std::to_string(n));
        for (int i = 0; i < n; i++) { add(" "); dump_geom(GEOSGetGeometryN_r(h, g, i)); }
    } }
}
static std::string dump_str(const GEOSGeometry* g) { std::string save = out; out.clear(); if (g) dump_geom(g); else add("ERR"); std::string r = out; out = save; return r; }

static std::string to_hex(const unsigned char* b, size_t n) {
    static const char d[] = "0123456789ABCDEF"; std::string s; s.reserve(2 * n);
    for (size_t i = 0; i < n; i++) { s += d[b[i] >> 4]; s += d[b[i] & 15]; } return s;
}
static std::string mixcase(const std::string& s) { std::string r = s; for (size_t i = 0; i < r.size(); i++) if (i % 3 != 1) r[i] = (char) tolower(r[i]); return r; }

// one configuration through the writer / reader objects
static void run_cfg(const GEOSGeometry* g, const std::string& name, int bo, int fl, int dim, int srid) {
    add(" ; " + name + "=");
    GEOSWKBWriter* w = GEOSWKBWriter_create_r(h);
    GEOSWKBWriter_setByteOrder_r(h, w, bo); GEOSWKBWriter_setFlavor_r(h, w, fl);
    GEOSWKBWriter_setOutputDimension_r(h, w, dim); GEOSWKBWriter_setIncludeSRID_r(h, w, (char) srid);
    size_t n = 0, nh = 0;
    unsigned char* bytes = GEOSWKBWriter_write_r(h, w, g, &n);
    unsigned char* hx = GEOSWKBWriter_writeHEX_r(h, w, g, &nh);
    if (!bytes || !hx) { add("WRITE-FAILED>ERR"); GEOSWKBWriter_destroy_r(h, w); return; }
    std::string hexw((const char*) hx, nh);
    add(hexw);
    if (hexw != to_hex(bytes, n)) add("!HEXW-DIFFERS-FROM-BINARY");
    add(">");
    GEOSWKBReader* r = GEOSWKBReader_create_r(h);
    GEOSGeometry* g1 = GEOSWKBReader_read_r(h, r, bytes, n);
    GEOSGeometry* g2 = GEOSWKBReader_readHEX_r(h, r, (const unsigned char*) hexw.data(), hexw.size());
    std::string lo = mixcase(hexw);
    GEOSGeometry* g3 = GEOSWKBReader_readHEX_r(h, r, (const unsigned char*) lo.data(), lo.size());
    std::string d1 = dump_str(g1);
    add(d1);
    if (dump_str(g2) != d1) add(" !READHEX-DIFFERS-FROM-BINARY");
    if (dump_str(g3) != d1) add(" !READHEX-CASE-SENSITIVE");
    if (g1) {   // re-writing the re-read geometry reproduces the bytes
        size_t n2 = 0; unsigned char* b2 = GEOSWKBWriter_write_r(h, w, g1, &n2);
        if (!b2 || n2 != n || memcmp(b2, bytes, n) != 0) add(" !REWRITE-DIFFERS:" + (b2 ? to_hex(b2, n2) : std::string("null")));
        if (b2) GEOSFree_r(h, b2);
    }
    if (g1) GEOSGeom_destroy_r(h, g1); if (g2) GEOSGeom_destroy_r(h, g2); if (g3) GEOSGeom_destroy_r(h, g3);
    GEOSWKBReader_destroy_r(h, r); GEOSFree_r(h, bytes); GEOSFree_r(h, hx); GEOSWKBWriter_destroy_r(h, w);
}
// the context-level legacy functions
static void run_legacy(const GEOSGeometry* g, const std::string& name, int bo, int dim) {
    add(" ; " + name + "=");
    GEOS_setWKBByteOrder_r(h, bo); GEOS_setWKBOutputDims_r(h, dim);
    size_t n = 0, nh = 0;
    unsigned char* bytes = GEOSGeomToWKB_buf_r(h, g, &n);
    unsigned char* hx = GEOSGeomToHEX_buf_r(h, g, &nh);
    if (!bytes || !hx) { add("WRITE-FAILED>ERR"); return; }
    std::string hexw((const char*) hx, nh);
    add(hexw);
    if (hexw != to_hex(bytes, n)) add("!HEXW-DIFFERS-FROM-BINARY");
    add(">");
    GEOSGeometry* g1 = GEOSGeomFromWKB_buf_r(h, bytes, n);
    GEOSGeometry* g2 = GEOSGeomFromHEX_buf_r(h, (const unsigned char*) hexw.data(), hexw.size());
    std::string lo = mixcase(hexw);
    GEOSGeometry* g3 = GEOSGeomFromHEX_buf_r(h, (const unsigned char*) lo.data(), lo.size());
    std::string d1 = dump_str(g1);
    add(d1);
    if (dump_str(g2) != d1) add(" !READHEX-DIFFERS-FROM-BINARY");
    if (dump_str(g3) != d1) add(" !READHEX-CASE-SENSITIVE");
    if (g1) {
        size_t n2 = 0; unsigned char* b2 = GEOSGeomToWKB_buf_r(h, g1, &n2);
        if (!b2 || n2 != n || memcmp(b2, bytes, n) != 0) add(" !REWRITE-DIFFERS:" + (b2 ? to_hex(b2, n2) : std::string("null")));
        if (b2) GEOSFree_r(h, b2);
    }
    if (g1) GEOSGeom_destroy_r(h, g1); if (g2) GEOSGeom_destroy_r(h, g2); if (g3) GEOSGeom_destroy_r(h, g3);
    GEOSFree_r(h, bytes); GEOSFree_r(h, hx);
}

int main() {
    h = GEOS_init_r();
    GEOSContext_setErrorMessageHandler_r(h, on_err, nullptr);
    GEOSContext_setNoticeMessageHandler_r(h, on_notice, nullptr);
    std::string line;
    while (std::getline(std::cin, line)) {
        out.clear(); toks.clear(); pos = 0;
        { std::istringstream is(line); std::string t; while (is >> t) toks.push_back(t); }
        try {
            if (toks.empty()) add("?");
            else if (toks[0] == "G") {
                pos = 1;
                GEOSGeometry* g = nullptr;
                try { g = parse_geom(); if (pos != toks.size()) throw Bad{"trailing tokens"}; }
                catch (ConstructFail&) { g = nullptr; }
                if (!g) { add("CONSTRUCT-FAIL " + last_err); }
                else {
                    add("ORIG="); dump_geom(g);
                    static const char* D = "234";
                    for (int bo = 1; bo >= 0; bo--) for (int fl = 1; fl <= 2; fl++) for (int d = 2; d <= 4; d++) for (int s = 0; s <= 1; s++) {
                        std::string name; name += (bo ? 'L' : 'B'); name += (fl == 1 ? 'E' : 'I'); name += D[d - 2]; name += (s ? 'S' : 'N');
                        run_cfg(g, name, bo, fl, d, s);
                    }
                    for (int bo = 1; bo >= 0; bo--) for (int d = 2; d <= 4; d++) {
                        std::string name = "leg"; name += (bo ? 'L' : 'B'); name += 'E'; name += D[d - 2]; name += 'N';
                        run_legacy(g, name, bo, d);
                    }
                    GEOSGeom_destroy_r(h, g);
                }
            }
            else if (toks[0] == "R") {
                std::string s = toks.size() > 1 ? toks[1] : "";
                GEOSWKBReader* r = GEOSWKBReader_create_r(h);
                GEOSGeometry* g = GEOSWKBReader_readHEX_r(h, r, (const unsigned char*) s.data(), s.size());
                if (g) { dump_geom(g); GEOSGeom_destroy_r(h, g); } else add("ERR");
                GEOSWKBReader_destroy_r(h, r);
            }
            else add("?");
        } catch (Bad& b) { out = "BAD-LINE " + b.m; }
        // one line per input line
        for (auto& c : out) if (c == '\n' || c == '\r') c = ' ';
        printf("%s\n", out.c_str()); fflush(stdout);
    }
    GEOS_finish_r(h);
    return 0;
}
