// C03 correspondence stream for the clipping optimisation: runs the real RingClipper::clip (and
// EdgeNodingBuilder::computeDepthDelta) of the library built from /repo on the lines of stdin.
//   CLIP x0 x1 y0 y1 n  x y x y ...   -> "OK k x y x y ..."   (every ordinate printed with %.17g: exact for binary64)
//   DD isHole n x y ...               -> "OK depthDelta isCCW" (isCCW = Orientation::isCCW of the SAME ring)
// One output line per input line, flushed.
#include <cstdio>
#include <cstdlib>
#include <cstring>
#include <string>
#include <vector>
#include <sstream>
#include <iostream>
#include <memory>
#include <deque>
#include <map>
#define private public
#include <geos/operation/overlayng/RingClipper.h>
#include <geos/operation/overlayng/EdgeNodingBuilder.h>
#undef private
#include <geos/algorithm/Orientation.h>
#include <geos/geom/GeometryFactory.h>
#include <geos/geom/LinearRing.h>
#include <geos/geom/CoordinateSequence.h>
#include <geos/geom/Envelope.h>

using namespace geos::geom;
using geos::operation::overlayng::RingClipper;
using geos::operation::overlayng::EdgeNodingBuilder;

int main()
{
    std::string line;
    auto gf = GeometryFactory::create();
    while (std::getline(std::cin, line)) {
        std::istringstream in(line);
        std::string cmd; in >> cmd;
        try {
            if (cmd == "CLIP") {
                double x0, x1, y0, y1; std::size_t n;
                in >> x0 >> x1 >> y0 >> y1 >> n;
                CoordinateSequence cs;
                for (std::size_t i = 0; i < n; i++) { double x, y; in >> x >> y; cs.add(Coordinate(x, y)); }
                if (!in) { printf("BADINPUT\n"); fflush(stdout); continue; }
                Envelope env(x0, x1, y0, y1);
                RingClipper rc(&env);
                std::unique_ptr<CoordinateSequence> out = rc.clip(&cs);
                printf("OK %zu", out->size());
                for (std::size_t i = 0; i < out->size(); i++) {
                    const Coordinate& c = out->getAt(i);
                    printf(" %.17g %.17g", c.x, c.y);
                }
                printf("\n");
            }
            else if (cmd == "DD") {
                int h; std::size_t n; in >> h >> n;
                auto cs = std::make_unique<CoordinateSequence>();
                for (std::size_t i = 0; i < n; i++) { double x, y; in >> x >> y; cs->add(Coordinate(x, y)); }
                if (!in) { printf("BADINPUT\n"); fflush(stdout); continue; }
                std::unique_ptr<LinearRing> ring = gf->createLinearRing(std::move(cs));
                int dd = EdgeNodingBuilder::computeDepthDelta(ring.get(), h != 0);
                bool ccw = geos::algorithm::Orientation::isCCW(ring->getCoordinatesRO());
                printf("OK %d %d\n", dd, ccw ? 1 : 0);
            }
            else printf("?\n");
        }
        catch (const std::exception& e) { printf("EXC %s\n", e.what()); }
        fflush(stdout);
    }
    return 0;
}
