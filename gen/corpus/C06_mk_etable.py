#!/usr/bin/env python3
"""Writes coq/theories/C06/ETable.v: rational enclosures (denominator 10^15) of 1 - cos(pi/(4q)) and 1 - cos(3 pi/(8q)),
q = 1..32.  The numbers are only CANDIDATES: every row is proved in Coq by the `interval` tactic (e_table)."""
from decimal import Decimal, getcontext, ROUND_FLOOR, ROUND_CEILING
import os
getcontext().prec = 60


def pi():
    # Machin
    def atan_inv(n):
        x = Decimal(1) / n; s = x; t = x; k = 1
        while abs(t) > Decimal(10) ** -58:
            t = -t / (n * n); k += 2; s += t / k
        return s
    return 16 * atan_inv(Decimal(5)) - 4 * atan_inv(Decimal(239))


def cos(x):
    s = Decimal(1); t = Decimal(1); k = 0
    while abs(t) > Decimal(10) ** -58:
        t = -t * x * x / ((k + 1) * (k + 2)); k += 2; s += t
    return s


PI = pi()
D = 10 ** 15
rows_a, rows_b = [], []
for q in range(1, 33):
    a = 1 - cos(PI / (4 * q)); b = 1 - cos(3 * PI / (8 * q))
    rows_a.append((int((a * D).to_integral_value(ROUND_FLOOR)) - 1, int((a * D).to_integral_value(ROUND_CEILING)) + 1))
    rows_b.append((int((b * D).to_integral_value(ROUND_FLOOR)) - 1, int((b * D).to_integral_value(ROUND_CEILING)) + 1))
out = ['(* GENERATED ONCE by gen/corpus/C06_mk_etable.py (committed).  Candidate enclosures; e_table proves every row. *)',
       'From Coq Require Import ZArith List.', 'Import ListNotations.', 'Local Open Scope Z_scope.',
       'Definition e_den : Z := 1000000000000000.',
       '(* (lo, hi) numerators over e_den of  1 - cos(pi/(4q)),  row q-1 *)',
       'Definition tab_a : list (Z * Z) :=\n  [' + ';\n   '.join('(%d, %d)' % r for r in rows_a) + '].',
       '(* (lo, hi) numerators over e_den of  1 - cos(3 pi/(8q)),  row q-1 *)',
       'Definition tab_b : list (Z * Z) :=\n  [' + ';\n   '.join('(%d, %d)' % r for r in rows_b) + '].',
       'Definition row (t : list (Z * Z)) (q : Z) : Z * Z := nth (Z.to_nat (q - 1)) t (0, e_den).',
       'Definition a_lo q := fst (row tab_a q).', 'Definition a_hi q := snd (row tab_a q).',
       'Definition b_lo q := fst (row tab_b q).', 'Definition b_hi q := snd (row tab_b q).',
       '(* certified rational upper / lower enclosure of the tolerance e(q) = 0.015 + 1 - cos(pi/(4q)) of the property, as (num, den) *)',
       'Definition e_up (q : Z) : Z * Z := (15 * (e_den / 1000) + a_hi q, e_den).',
       'Definition e_lo (q : Z) : Z * Z := (15 * (e_den / 1000) + a_lo q, e_den).', '']
HERE = os.path.dirname(os.path.abspath(__file__))
open(os.path.join(HERE, '../../coq/theories/C06/ETable.v'), 'w').write('\n'.join(out))
pr = ['(* GENERATED ONCE by gen/corpus/C06_mk_etable.py (committed): one `interval` proof per table row, then e_table. *)',
      'From Coq Require Import Reals ZArith List Lra Lia.', 'From Interval Require Import Tactic.',
      'From GeosV.C06 Require Import ETable.', 'Local Open Scope R_scope.',
      'Definition row_ok (q : Z) : Prop :=',
      '  IZR (a_lo q) / IZR e_den <= 1 - cos (PI / (4 * IZR q)) <= IZR (a_hi q) / IZR e_den /\\',
      '  IZR (b_lo q) / IZR e_den <= 1 - cos (3 * PI / (8 * IZR q)) <= IZR (b_hi q) / IZR e_den.']
for q in range(1, 33):
    (al, ah), (bl, bh) = rows_a[q - 1], rows_b[q - 1]
    pr.append('Lemma row_%d : (%d / %d <= 1 - cos (PI / (4 * %d)) <= %d / %d) /\\ (%d / %d <= 1 - cos (3 * PI / (8 * %d)) <= %d / %d).'
              % (q, al, D, q, ah, D, bl, D, q, bh, D))
    pr.append('Proof. repeat split; interval with (i_prec 90). Qed.')
pr.append('Theorem e_table q : (1 <= q <= 32)%Z -> row_ok q.')
pr.append('Proof.')
pr.append('  intros Hq. assert (C : (%s)%%Z) by lia.' % ' \\/ '.join('q = %d' % q for q in range(1, 33)))
for q in range(1, 33):
    al, ah = rows_a[q - 1]; bl, bh = rows_b[q - 1]
    pr.append(('  destruct C as [-> | C]; [' if q < 32 else '  subst q; [') + 'unfold row_ok; replace (a_lo %d) with %d%%Z by reflexivity; replace (a_hi %d) with %d%%Z by reflexivity;'
              ' replace (b_lo %d) with %d%%Z by reflexivity; replace (b_hi %d) with %d%%Z by reflexivity; exact row_%d %s].' % (q, al, q, ah, q, bl, q, bh, q, '|' if q < 32 else ''))
pr.append('Qed.')
pr.append('')
open(os.path.join(HERE, '../../coq/theories/C06/ETableProofs.v'), 'w').write('\n'.join(pr))
