"""Seeded geometry generators shared by the checks. A geometry is a nested tuple:
   ('Point', (x, y) | None), ('LineString', [pts]), ('Polygon', [ring, ...]) (ring = closed list of pts, [] = empty),
   ('MultiPoint' | 'MultiLineString' | 'MultiPolygon' | 'GeometryCollection', [geoms]).
   Coordinates are Python floats (or ints for grid geometries); WKT is written with repr() (17 significant digits, exact)."""
import math


def fmt(v):
    if isinstance(v, int):
        return str(v)
    if v == int(v) and abs(v) < 1e15:
        return str(int(v))
    return repr(float(v))


def pts_txt(pts):
    return ', '.join('%s %s' % (fmt(x), fmt(y)) for x, y in pts)


def to_wkt(g):
    t, d = g
    if t == 'Point':
        return 'POINT EMPTY' if d is None else 'POINT (%s %s)' % (fmt(d[0]), fmt(d[1]))
    if t == 'LineString':
        return 'LINESTRING EMPTY' if not d else 'LINESTRING (%s)' % pts_txt(d)
    if t == 'Polygon':
        return 'POLYGON EMPTY' if not d else 'POLYGON (%s)' % ', '.join('(%s)' % pts_txt(r) for r in d)
    if t == 'MultiPoint':
        return 'MULTIPOINT EMPTY' if not d else 'MULTIPOINT (%s)' % ', '.join('EMPTY' if p[1] is None else '(%s %s)' % (fmt(p[1][0]), fmt(p[1][1])) for p in d)
    if t == 'MultiLineString':
        return 'MULTILINESTRING EMPTY' if not d else 'MULTILINESTRING (%s)' % ', '.join('EMPTY' if not l[1] else '(%s)' % pts_txt(l[1]) for l in d)
    if t == 'MultiPolygon':
        return 'MULTIPOLYGON EMPTY' if not d else 'MULTIPOLYGON (%s)' % ', '.join(
            'EMPTY' if not p[1] else '(%s)' % ', '.join('(%s)' % pts_txt(r) for r in p[1]) for p in d)
    if t == 'GeometryCollection':
        return 'GEOMETRYCOLLECTION EMPTY' if not d else 'GEOMETRYCOLLECTION (%s)' % ', '.join(to_wkt(x) for x in d)
    raise ValueError(t)


def is_empty(g):
    t, d = g
    if t == 'Point':
        return d is None
    if t in ('LineString', 'Polygon'):
        return not d
    return all(is_empty(x) for x in d)


def atoms(g):
    t, d = g
    if t in ('Point', 'LineString', 'Polygon'):
        return [g]
    out = []
    for x in d:
        out += atoms(x)
    return out


def dim_real(g):
    """RelateGeometry::getDimensionReal: -1 empty; zero-length lines count as points when there is nothing of higher dimension"""
    if is_empty(g):
        return -1
    at = [a for a in atoms(g) if not is_empty(a)]
    if any(a[0] == 'Polygon' for a in at):
        return 2
    lines = [a for a in at if a[0] == 'LineString']
    if lines:
        if all(all(p == a[1][0] for p in a[1]) for a in lines):
            return 0
        return 1
    return 0


def all_points(g):
    out = []
    for a in atoms(g):
        if a[0] == 'Point' and a[1] is not None:
            out.append(a[1])
        elif a[0] == 'LineString':
            out += a[1]
        elif a[0] == 'Polygon':
            for r in a[1]:
                out += r
    return out


def map_coords(g, f):
    t, d = g
    if t == 'Point':
        return (t, None if d is None else f(d))
    if t == 'LineString':
        return (t, [f(p) for p in d])
    if t == 'Polygon':
        return (t, [[f(p) for p in r] for r in d])
    return (t, [map_coords(x, f) for x in d])


# ---------------------------------------------------------------- primitive shapes on an integer grid
def convex_ring(rng, n, R, cx=0, cy=0):
    """strictly convex CCW ring from lattice edge vectors sorted by angle (closed by construction)"""
    vecs = set()
    while len(vecs) < n // 2 + 1:
        a, b = rng.randint(-R, R), rng.randint(0, R)
        if (a, b) != (0, 0) and not (b == 0 and a < 0):
            g = math.gcd(abs(a), abs(b))
            vecs.add((a // g * rng.randint(1, 2), b // g * rng.randint(1, 2)) if False else (a, b))
    vs = list(vecs)
    # primitive direction uniqueness
    seen = {}
    for a, b in vs:
        g = math.gcd(abs(a), abs(b))
        seen[(a // g, b // g)] = (a, b)
    vs = list(seen.values())
    if len(vs) < 2:         # all edge vectors parallel: the "ring" would be a flat out-and-back (zero area, invalid polygon) — draw again
        return convex_ring(rng, n, R, cx, cy)
    allv = vs + [(-a, -b) for a, b in vs]
    allv.sort(key=lambda v: math.atan2(v[1], v[0]))
    x, y = cx, cy
    ring = []
    for a, b in allv:
        ring.append((x, y)); x += a; y += b
    ring.append(ring[0])
    return ring


def rect_ring(x0, y0, x1, y1):
    return [(x0, y0), (x1, y0), (x1, y1), (x0, y1), (x0, y0)]


def star_ring(rng, n, R, cx=0, cy=0):
    angs = sorted(rng.sample(range(360), n))
    ring = []
    for a in angs:
        r = rng.randint(max(1, R // 3), R)
        ring.append((cx + int(round(r * math.cos(math.radians(a)))), cy + int(round(r * math.sin(math.radians(a))))))
    # drop consecutive duplicates
    out = [ring[0]]
    for p in ring[1:]:
        if p != out[-1]:
            out.append(p)
    if len(out) < 3 or out[0] == out[-1]:
        return rect_ring(cx - R, cy - R, cx + R, cy + R)
    out.append(out[0])
    return out


def gen_polygon(rng, R=20, cx=0, cy=0, holes=True):
    k = rng.random()
    if k < 0.3:
        w, hgt = rng.randint(1, R), rng.randint(1, R)
        shell = rect_ring(cx, cy, cx + w, cy + hgt)
    elif k < 0.7:
        shell = convex_ring(rng, rng.randint(3, 8), max(2, R // 3), cx, cy)
    else:
        shell = star_ring(rng, rng.randint(4, 9), R, cx, cy)
    rings = [shell]
    if holes and rng.random() < 0.3:
        xs = [p[0] for p in shell]; ys = [p[1] for p in shell]
        mx, my = (min(xs) + max(xs)) // 2, (min(ys) + max(ys)) // 2
        rings.append(rect_ring(mx, my, mx + 1, my + 1)[::-1])
    return ('Polygon', rings)


def gen_line(rng, R=20, cx=0, cy=0, n=None):
    n = n or rng.randint(2, 6)
    pts = [(cx + rng.randint(-R, R), cy + rng.randint(-R, R))]
    for _ in range(n - 1):
        if rng.random() < 0.1:
            pts.append(pts[-1])
        else:
            pts.append((pts[-1][0] + rng.randint(-R // 2 - 1, R // 2 + 1), pts[-1][1] + rng.randint(-R // 2 - 1, R // 2 + 1)))
    if rng.random() < 0.08:
        pts = [pts[0]] * len(pts)        # zero-length line
    return ('LineString', pts)


def gen_point(rng, R=20, cx=0, cy=0):
    return ('Point', (cx + rng.randint(-R, R), cy + rng.randint(-R, R)))


def gen_atom(rng, R=20, cx=0, cy=0, kind=None):
    kind = kind or rng.choice('PLA')
    if kind == 'P':
        return gen_point(rng, R, cx, cy)
    if kind == 'L':
        return gen_line(rng, R, cx, cy)
    return gen_polygon(rng, R, cx, cy)


def gen_geom(rng, R=20, depth=0):
    k = rng.random()
    if k < 0.55 or depth > 1:
        g = gen_atom(rng, R)
        if rng.random() < 0.04:
            g = (g[0], None if g[0] == 'Point' else [])
        return g
    if k < 0.65:
        return ('MultiPoint', [gen_point(rng, R) for _ in range(rng.randint(0, 4))])
    if k < 0.75:
        return ('MultiLineString', [gen_line(rng, R) for _ in range(rng.randint(0, 3))])
    if k < 0.85:
        # disjoint polygons side by side (valid multipolygon)
        n = rng.randint(0, 3)
        return ('MultiPolygon', [gen_polygon(rng, R // 2 + 1, cx=i * (3 * R), cy=0) for i in range(n)])
    # collection of elements kept apart so that polygons do not overlap each other (RelateNG's union semantics is not the point here)
    n = rng.randint(0, 3)
    return ('GeometryCollection', [gen_atom(rng, R // 2 + 1, cx=i * (3 * R), cy=rng.randint(-R, R)) for i in range(n)])


def derive(rng, A, R=20):
    """B constructed from A so that contacts are degenerate: shared vertices, boundary, contained points, translated copies"""
    pts = all_points(A)
    k = rng.random()
    if not pts:
        return gen_geom(rng, R)
    if k < 0.15:
        return ('Point', rng.choice(pts))
    if k < 0.25:
        p, q = rng.choice(pts), rng.choice(pts)
        return ('Point', ((p[0] + q[0]) / 2 if (p[0] + q[0]) % 2 else (p[0] + q[0]) // 2, (p[1] + q[1]) / 2 if (p[1] + q[1]) % 2 else (p[1] + q[1]) // 2))
    if k < 0.4:
        n = rng.randint(2, 4)
        return ('LineString', [rng.choice(pts) for _ in range(n)])
    if k < 0.5:
        dx, dy = rng.choice([(0, 0), (1, 0), (0, 1), (R, 0), (-1, -1)])
        return map_coords(A, lambda p: (p[0] + dx, p[1] + dy))
    if k < 0.6:
        polys = [a for a in atoms(A) if a[0] == 'Polygon' and a[1]]
        if polys:
            return ('LineString', list(rng.choice(polys)[1][0]))       # the shell as a line
    if k < 0.7:
        polys = [a for a in atoms(A) if a[0] == 'Polygon' and a[1]]
        if polys:
            sh = polys[0][1][0]
            xs = [p[0] for p in sh]; ys = [p[1] for p in sh]
            return ('Polygon', [rect_ring(min(xs), min(ys), max(xs), max(ys))])       # the envelope as a polygon
    if k < 0.8:
        return A
    return gen_geom(rng, R)


def to_full_precision(rng, g):
    """x -> x*s + o, correctly rounded by float arithmetic; s, o chosen so that the result needs many mantissa bits"""
    s = rng.choice([1e-3, 0.1, 1.0, 1.0, 7.3, 1e3, 1e6]) * (1 + rng.random() * rng.choice([0, 0, 1e-9, 0.3]))
    ox = rng.choice([0.0, 0.0, 1e3, 1e6, 1e9, -5e5]) * (1 + rng.random() * 1e-3)
    oy = rng.choice([0.0, 0.0, 1e3, 1e6, 1e9, -5e5]) * (1 + rng.random() * 1e-3)
    return lambda p: (p[0] * s + ox, p[1] * s + oy)


# ---------------------------------------------------------------- WKT -> tuple form (2D, the subset to_wkt writes)
def from_wkt(text):
    import re
    toks = re.findall(r'[A-Za-z]+|\(|\)|,|[-+0-9.eE]+', text)
    pos = [0]

    def peek():
        return toks[pos[0]] if pos[0] < len(toks) else None

    def take(expect=None):
        t = toks[pos[0]]; pos[0] += 1
        if expect is not None and t != expect:
            raise ValueError('expected %s got %s' % (expect, t))
        return t

    def num(t):
        v = float(t)
        return int(v) if v == int(v) and abs(v) < 1e15 and 'e' not in t.lower() and '.' not in t else v

    def coord():
        x = num(take()); y = num(take())
        while peek() not in (',', ')'):
            take()            # extra ordinates are ignored
        return (x, y)

    def seq():
        if peek().upper() == 'EMPTY':
            take(); return []
        take('('); out = [coord()]
        while peek() == ',':
            take(); out.append(coord())
        take(')'); return out

    def rings():
        if peek().upper() == 'EMPTY':
            take(); return []
        take('('); out = [seq()]
        while peek() == ',':
            take(); out.append(seq())
        take(')'); return out

    def geom():
        t = take().upper()
        while peek() and peek().upper() in ('Z', 'M', 'ZM'):
            take()
        if t == 'POINT':
            c = seq(); return ('Point', c[0] if c else None)
        if t in ('LINESTRING', 'LINEARRING'):
            return ('LineString', seq())
        if t == 'POLYGON':
            return ('Polygon', rings())
        if peek().upper() == 'EMPTY':
            take()
            return ({'MULTIPOINT': 'MultiPoint', 'MULTILINESTRING': 'MultiLineString', 'MULTIPOLYGON': 'MultiPolygon', 'GEOMETRYCOLLECTION': 'GeometryCollection'}[t], [])
        take('('); out = []
        while True:
            if t == 'MULTIPOINT':
                if peek().upper() == 'EMPTY':
                    take(); out.append(('Point', None))
                elif peek() == '(':
                    c = seq(); out.append(('Point', c[0] if c else None))
                else:
                    out.append(('Point', coord()))
            elif t == 'MULTILINESTRING':
                out.append(('LineString', seq()))
            elif t == 'MULTIPOLYGON':
                out.append(('Polygon', rings()))
            elif t == 'GEOMETRYCOLLECTION':
                out.append(geom())
            else:
                raise ValueError(t)
            if peek() == ',':
                take(); continue
            break
        take(')')
        return ({'MULTIPOINT': 'MultiPoint', 'MULTILINESTRING': 'MultiLineString', 'MULTIPOLYGON': 'MultiPolygon', 'GEOMETRYCOLLECTION': 'GeometryCollection'}[t], out)
    return geom()
