(* extraction of the C16 models: ExtrOcamlBasic only (bool, option, unit, list, prod, sumbool mapped); Z, positive, nat stay inductive *)
Require Import GeosV.Lib.KernelDefs GeosV.Lib.GenPreludeF GeosV.C16.Defs GeosV.C16.B64Defs GeosV.C16.InputDefs GeosV.C16.QuadEdgeDefs.
Require Extraction.
Require Import ExtrOcamlBasic.
Extraction "xc16.ml" delaunay_clauses check_delaunay check_degenerate check_edges check_disjoint failed
  local_violations global_violations band_blind cdt_clauses cdt_multi_clauses check_cdt check_cdt1 owner_count voronoi_clauses check_voronoi check_voronoi_edges assign_sites
  same_pts diagram_env robust_b64 nonrobust_b64 det_b64 fpt_of_bits robust_grid band_quads exact_loc dyadic_of min_exp scale_dy
  hull sort_pts incircle geos_incircle geos_band polygons_valid of_bits to_bits tri_ccw corners
  QuadEdgeDefs.empty QuadEdgeDefs.step QuadEdgeDefs.run QuadEdgeDefs.legal QuadEdgeDefs.legal_from QuadEdgeDefs.init_subdiv QuadEdgeDefs.oNext QuadEdgeDefs.orig
  QuadEdgeDefs.is_dead QuadEdgeDefs.rot QuadEdgeDefs.inv_b QuadEdgeDefs.org_consistent_b QuadEdgeDefs.orbit QuadEdgeDefs.in_orbit QuadEdgeDefs.lNext QuadEdgeDefs.oPrev.
