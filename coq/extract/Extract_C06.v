(* extraction of the C06 checker and of the executable fillet count: ExtrOcamlBasic only; Z, positive, nat, Q stay inductive *)
Require Import GeosV.C06.ETable GeosV.C06.CheckDefs.
Require Import GeosV.C06.FilletDefs.
Require Extraction.
Require Import ExtrOcamlBasic.
Extraction "xc06.ml" check_buffer check_single_sided check_offset_curve mpoly_loc e_up bin2 bout2 nsegs_q.
