(* extraction of the C08 model: ExtrOcamlBasic only; Z, positive, nat stay inductive *)
Require Import GeosV.Lib.GeomDefs GeosV.Lib.LocateDefs GeosV.C08.DistDefs.
Require Extraction.
Require Import ExtrOcamlBasic.
Extraction "xc08.ml" dist2 facet_dist2 facet_and_dist2 hausdorff2 directed_h2 frechet2 minclear2 dist2_pt_seg dist2_seg_seg sections.
