(* extraction for C02: the DE-9IM specification functions (Lib/IM.v) and the generated IntersectionMatrix units *)
Require Import GeosV.Lib.IM GeosV.Lib.GenPreludeIM.
From GeosV.Gen Require IM_matches IM_isDisjoint IM_isIntersects IM_isTouches IM_isCrosses IM_isWithin IM_isContains IM_isEquals IM_isOverlaps IM_isCovers IM_isCoveredBy.
Require Extraction.
Require Import ExtrOcamlBasic.
Extraction "xc02.ml" spec_disjoint spec_intersects spec_within spec_contains spec_covers spec_coveredBy spec_equals spec_touches spec_crosses
  spec_overlaps spec_containsProperly transpose pat_matches sym_of_code
  IM_isDisjoint.m_isDisjoint_0 IM_isIntersects.m_isIntersects_0 IM_isTouches.m_isTouches_2 IM_isCrosses.m_isCrosses_2 IM_isWithin.m_isWithin_0
  IM_isContains.m_isContains_0 IM_isEquals.m_isEquals_2 IM_isOverlaps.m_isOverlaps_2 IM_isCovers.m_isCovers_0 IM_isCoveredBy.m_isCoveredBy_0.
