(* extraction of the C15 model: ExtrOcamlBasic only (bool, option, unit, list, prod, sumbool mapped); Z, positive, nat stay inductive *)
Require Import GeosV.C15.STRDefs GeosV.C15.ITVDefs.
Require Extraction.
Require Import ExtrOcamlBasic.
Extraction "xc15.ml" run_top treeSize sliceCount sliceCapacity level_parents itv_run.
