(* extraction of the C09 model: ExtrOcamlBasic only (bool, option, unit, list, prod, sumbool mapped); N, positive, nat stay inductive *)
Require Import BinInt GeosV.Lib.Bytes GeosV.C09.WKBDefs.
Require Extraction.
Require Import ExtrOcamlBasic.
Extraction "xc09.ml" wkb_write wkb_read hex_write hex_read hex unhex expect ideal wf regular all_cfgs legacy_cfg
  type_word decode_type out_ords is_nan feq BinInt.Z.of_N.  (* Z.of_N only so that the shared glue ocaml/zutil.inc (which mentions Z) compiles *)
