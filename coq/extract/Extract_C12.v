(* extraction of the C12 pool model and program generator: ExtrOcamlBasic + ExtrOcamlString only *)
Require Import GeosV.C12.PoolDefs GeosV.C12.Ops.
Require Extraction.
Require Import ExtrOcamlBasic ExtrOcamlString.
Extraction "xc12.ml" ops program legal apply run live.
