(* extraction for C01, part 2 (protocol): the generated RelateNG predicate classes run through the evaluation protocol
   (C01/Pred.evaluate) and the decision procedure for PredSound.realizable (C01/OraclePred), applied to the events / matrix the
   core oracle produced.  ExtrOcamlBasic + ExtrOcamlString only. *)
Require Import GeosV.Lib.GeomDefs GeosV.Lib.LocateDefs GeosV.Lib.IM GeosV.Lib.GenPreludePred.
Require Import GeosV.C01.ArrangementDefs GeosV.C01.OracleDefs GeosV.C01.OraclePred GeosV.C01.Pred.
Require Extraction.
Require Import ExtrOcamlBasic ExtrOcamlString.
Extraction "xc01p.ml" realizable_b dim_real env_of named_values ofinal
  evaluate vt_contains vt_within vt_covers vt_coveredBy vt_crosses vt_overlaps vt_touches vt_equals vt_intersects vt_disjoint.
