(* extraction of the C07 models: ExtrOcamlBasic only; Z, positive, nat stay inductive *)
Require Import GeosV.C07.RunDefs.
Require Extraction.
Require Import ExtrOcamlBasic.
Extraction "xc07.ml" orient_bits filter_bits signdet_bits intersection_bits dd_bits
  run_orient run_locate_ring run_locate_spec run_locate_polygon run_seg_class run_is_ccw run_env.
