(* extraction of the C17 model and checker: ExtrOcamlBasic only; Z, positive, nat stay inductive *)
Require Import GeosV.Lib.GeomDefs GeosV.Lib.LocateDefs GeosV.Lib.ValidDefs GeosV.C17.FixDefs.
Require Extraction.
Require Import ExtrOcamlBasic.
Extraction "xc17.ml" collapse_table okind_code c_valid c_dim c_env c_equal c_vertices c_area check_keep_tree f10_key fix_check
  valid_detail rule_code dimension collapsed_vertices flat point_like dedup.
