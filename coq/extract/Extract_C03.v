(* extraction of the C03 checker (C03/OverlayDefs over Lib/GeomDefs, LocateDefs, ValidDefs): ExtrOcamlBasic only; Z, positive, nat stay inductive *)
Require Import GeosV.Lib.GeomDefs GeosV.Lib.LocateDefs GeosV.Lib.ValidDefs GeosV.C03.OverlayDefs.
Require Extraction.
Require Import ExtrOcamlBasic.
Extraction "xc03.ml" overlay_check unary_check membership_check overlay_verdict area_laws valid_geom valid_detail rule_code
  op_of_code op_code boolop mem expected far_inputs stable_inputs near_geom result_dim empty_shortcut shape_ok
  geom_area2 geom_perim1 side_witnesses low_witnesses sample_witnesses dimension is_empty loc_h.
