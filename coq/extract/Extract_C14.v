(* extraction of the C14 model: ExtrOcamlBasic only; nat, Z, positive stay inductive (Z.succ is extracted only so that the shared
   ocaml/zutil.inc, which mentions the constructors of Z and positive, compiles) *)
Require Import GeosV.C14.IntrDefs.
Require Import ZArith.
Require Extraction.
Require Import ExtrOcamlBasic.
Extraction "xc14.ml" predict_at predict_pre predict_req_cancel predict_cb_req_cancel predict_pre_nocb Z.succ.
