(* extraction of the RingClipper model (C03/ClipDefs around the generated units RC_isInsideEdge / RC_intersection) and of the
   generated computeDepthDelta: ExtrOcamlBasic only; Z, positive, Q stay inductive *)
Require Import GeosV.C03.GenPreludeClip GeosV.C03.ClipDefs GeosV.Gen.ENB_computeDepthDelta.
Require Import QArith.
Require Extraction.
Require Import ExtrOcamlBasic.
Extraction "xc03clip.ml" clip box Qred depth_delta_table c_computeDepthDelta_2 ring_parity.
