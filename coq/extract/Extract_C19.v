(* extraction of the C19 models and checkers: ExtrOcamlBasic only (bool, option, unit, list, prod, sumbool mapped); Z, positive, nat, Q stay inductive *)
Require Import GeosV.C19.LinRefDefs GeosV.C19.CheckDefs GeosV.C19.LRFoldDefs.
Require Extraction.
Require Import ExtrOcamlBasic.
Extraction "xc19.ml" get_location get_location_r len_of total normalise extract_line lines_len interpolate project project_loc
  point_of_loc d2_pt_seg qd2 q_of_z wfb clamp_index index_of_q
  merge_units_ok merge_nodes_ok merge_pts_ok merge_check
  node_disjoint_ok node_kernel_agrees node_in_on_out node_out_near_in node_cover_in node_cover_out noding_check
  polyg_valid_ok polyg_sides_ok polyg_edges_in polyg_account_ok polyg_dangles_ok polyg_cuts_ok polyg_disjoint_ok polygonize_check
  dangles_spec cuts_spec useg shared_check shared_spec units_undir all_segs all_pts.
