(* extraction of the C04 models (C04/PrecDefs, PrecRun over the generated units, C03/OverlayDefs, Lib): ExtrOcamlBasic only *)
Require Import GeosV.Lib.GeomDefs GeosV.Lib.LocateDefs GeosV.Lib.ValidDefs GeosV.C03.OverlayDefs GeosV.C04.PrecDefs GeosV.C04.PrecRun.
Require Extraction.
Require Import ExtrOcamlBasic.
Extraction "xc04.ml" mp_bits mp_bits_hand pm_bits grid_scale_bits reported_grid_bits hp_run hp_run_half hp_pt prec_check prec_check_nv prec_verdict
  near_geom mem valid_geom valid_detail rule_code op_of_code pointwise shape_of dimension is_empty.
