(* extraction of the C18 model and checkers: ExtrOcamlBasic only (bool, option, unit, list, prod, sumbool mapped); Z, positive, nat stay inductive *)
Require Import GeosV.C18.DPDefs GeosV.C18.CheckDefs.
Require Extraction.
Require Import ExtrOcamlBasic.
Extraction "xc18.ml" dp_simplify dp_ties dp_indices dist2_pt_seg rle
  is_subseq ends_eq all_near verts_subset check_line check_ring check_simpl_geom check_hull check_cov
  mpoly_loc mpoly_area2 is_node is_boundary_seg cov_segs.
