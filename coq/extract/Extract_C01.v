(* extraction for C01, part 1 (core): the DE-9IM oracle (C01/ArrangementDefs, C01/OracleDefs), the validity decision used to
   certify generated inputs (Lib/ValidDefs) and the pattern-set definitions (Lib/IM).  Nothing here depends on a unit generated
   from the C++ or on a proof file: the oracle still builds and runs when one of those breaks.
   ExtrOcamlBasic + ExtrOcamlString only; Z, positive, nat stay inductive. *)
Require Import GeosV.Lib.GeomDefs GeosV.Lib.LocateDefs GeosV.Lib.ValidDefs GeosV.Lib.IM GeosV.Lib.GenPreludePred.
Require Import GeosV.C01.ArrangementDefs GeosV.C01.OracleDefs.
Require Extraction.
Require Import ExtrOcamlBasic ExtrOcamlString.
Extraction "xc01.ml" relate_oracle oracle_run relate_spec side_ok oracle_events dim_real env_of named_values
  valid_geom in_scope eps_ok side_paths side_clear ring_segs qdet cross_n on_seg_h fragile_nodes representable lines_of witnesses nodes all_segs loc_dim_h loc_dim_fast
  spec_disjoint spec_intersects spec_within spec_contains spec_covers spec_coveredBy spec_equals spec_touches spec_crosses
  spec_overlaps spec_containsProperly transpose pat_matches sym_of_code
  map_geom translate reflect_x reflect_y swap_xy.
