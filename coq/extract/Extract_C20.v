(* extraction of the C20 models: ExtrOcamlBasic only (bool, option, unit, list, prod, sumbool mapped); Z, positive, nat, comparison stay inductive *)
Require Import GeosV.C20.Defs GeosV.C20.HilbertPrelude.
Require Import GeosV.Gen.HC_encode GeosV.Gen.HC_decode.
Require Extraction.
Require Import ExtrOcamlBasic.
Extraction "xc20.ml" hull_verdict hull_mc canon_cycle check_hull check_envelope envelope centroid locate_area locate_ring
  mbc_of support_count mbc_check min_width2_of min_rect_area_of normalize reverse orient_polygons geom_eqb cmp_geom rings_ok
  area2 length_scaled num_coords num_geoms_deep dimension is_empty unique_points boundary_mod2 isCCW coords translate
  min_repeated ccw_indeterminate c_encode_3 c_decode_2.
