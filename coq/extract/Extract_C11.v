(* extraction of the C11 reader models: ExtrOcamlBasic + ExtrOcamlString only; Z, positive, N, nat stay inductive *)
Require Import GeosV.C11.WKBDefs GeosV.C11.WKTDefs.
Require Extraction.
Require Import ExtrOcamlBasic ExtrOcamlString.
Extraction "xc11.ml" wkb_read hex_decode top_srid final_stats mkCfg wkt_read wfinal_stats is_number next_token g_risky.
