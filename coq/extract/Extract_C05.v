(* extraction of the C05 model (Lib/GeomDefs, Lib/LocateDefs, Lib/ValidDefs): ExtrOcamlBasic only; Z, positive, nat stay inductive *)
Require Import GeosV.Lib.GeomDefs GeosV.Lib.LocateDefs GeosV.Lib.ValidDefs.
Require Extraction.
Require Import ExtrOcamlBasic.
Extraction "xc05.ml" violations valid_flag valid_detail simple_geom nonsimple_pts is_ring rule_code
  loc_h loc_poly_h in_ring_h area2 seg_int map_geom translate reflect_x reflect_y swap_xy rotate_ring reverse_ring.
