(* extraction of the C10 models: ExtrOcamlBasic + ExtrOcamlString only (ascii -> char, string -> char list); Z, positive, nat stay inductive *)
Require Import GeosV.C10.NumDefs GeosV.C10.WktDefs GeosV.C10.JsonDefs.
Require Extraction.
Require Import ExtrOcamlBasic ExtrOcamlString.
Extraction "xc10.ml" print_trimmed print_trimmed_sd shortest_of print_untrimmed strtod_spec to_bits decode shortest in_interval interval
  print_tokens render parse parse_string tokenize expect wf json_encode json_decode json_roundtrip.
