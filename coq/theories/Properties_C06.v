(* C06 — property theorems only. Each is closed by `exact <lemma>` and followed by Print Assumptions.
   Assumptions: the theorems that mention real numbers depend on the stdlib's real-number axioms (ClassicalDedekindReals.sig_forall_dec,
   sig_not_dec, FunctionalExtensionality.functional_extensionality_dep; Classical_Prop.classic through Flocq / Coquelicot /
   Interval); those closed by the `interval` tactic additionally on the 63-bit integer primitives PrimInt63.* and their
   specification axioms Uint63.* (Interval computes with Bignums).  None is declared by this development. *)
From Coq Require Import Reals ZArith QArith List Bool Lia.
From Flocq Require Import Core.Raux.
From GeosV.C18 Require Import DPDefs DPProofs DPMetric.
From GeosV.C06 Require Import PreludeR FilletDefs FilletProofs ETable ETableProofs EProofs CheckDefs CheckProofs.
From GeosV.Gen Require Import C06_fillet C06_distErr.
Import ListNotations.
Local Open Scope R_scope.

(* ---- M: the fillet generator ------------------------------------------------------------------------------------------ *)
(* a chord subtending the angle theta on a circle of radius r stays at distance >= r cos(theta/2) from the centre *)
Theorem C06_sagitta : forall p r a theta t, 0 <= r -> - PI <= theta <= PI -> 0 <= t <= 1 ->
  r * cos (theta / 2) <= sqrt (rd2 (chord_pt p r a theta t) p).
Proof. exact sagitta. Qed.
Print Assumptions C06_sagitta.

(* n = (int)(total/quantum + 0.5):  n >= 1 -> one step total/n <= 1.5 quantum ;  n = 0 -> total < quantum/2 *)
Theorem C06_fillet_step_bound : forall total quantum, 0 < quantum -> 0 <= total ->
  ((1 <= nsegs total quantum)%Z -> total / IZR (nsegs total quantum) <= 3 / 2 * quantum) /\
  ((nsegs total quantum <= 0)%Z -> total < quantum / 2).
Proof. exact fillet_step_bound. Qed.
Print Assumptions C06_fillet_step_bound.

(* ... and 1.5 quantum is approached: a total angle just below 1.5 quanta is spanned by ONE chord *)
Theorem C06_fillet_step_bound_tight : forall quantum eps, 0 < quantum -> 0 < eps <= 1 ->
  let total := (3 / 2 - eps / 2) * quantum in
  nsegs total quantum = 1%Z /\ (3 / 2 - eps) * quantum < total / IZR (nsegs total quantum).
Proof. exact fillet_step_bound_tight. Qed.
Print Assumptions C06_fillet_step_bound_tight.

(* hence the inward error of a generated fillet is at most r (1 - cos(3/4 quantum)) *)
Theorem C06_fillet_inward_error : forall quantum p start total (dirf : Z) r i t,
  0 < quantum <= PI / 2 -> 0 <= total -> (dirf = 1 \/ dirf = -1)%Z -> (1 <= nsegs total quantum)%Z -> 0 <= t <= 1 ->
  let inc := total / IZR (nsegs total quantum) in
  (r * cos (3 / 4 * quantum)) * (r * cos (3 / 4 * quantum)) <=
  rd2 (chord_pt p r (fillet_angle start dirf inc i) (IZR dirf * inc) t) p.
Proof. exact fillet_inward_error. Qed.
Print Assumptions C06_fillet_inward_error.

Theorem C06_fillet_inward_error_n0 : forall quantum p a total sgn r t,
  0 < quantum <= PI / 2 -> 0 <= total -> (sgn = 1 \/ sgn = -1) -> (nsegs total quantum <= 0)%Z -> 0 <= t <= 1 ->
  (r * cos (3 / 4 * quantum)) * (r * cos (3 / 4 * quantum)) <= rd2 (chord_pt p r a (sgn * total) t) p.
Proof. exact fillet_inward_error_n0. Qed.
Print Assumptions C06_fillet_inward_error_n0.

(* ---- G: what the code says (units regenerated from /repo on every run) ------------------------------------------------ *)
(* OffsetSegmentGenerator::addDirectedFillet appends exactly the model's points *)
Theorem C06_gen_fillet_eq : forall st p s e dir r,
  g_addDirectedFillet st p s e dir r =
  set_segList st (f_segList st ++ fillet_model (f_filletAngleQuantum st) p s e (if (dir =? -1)%Z then (-1)%Z else 1%Z) r).
Proof. exact gen_fillet_eq. Qed.
Print Assumptions C06_gen_fillet_eq.

(* BufferParameters::bufferDistanceError(q) is the second summand of the property's tolerance *)
Theorem C06_gen_distErr_eq : forall q, (1 <= q)%Z -> e_prop (IZR q) = 15 / 1000 + g_bufferDistanceError q.
Proof. exact e_prop_is_code. Qed.
Print Assumptions C06_gen_distErr_eq.

(* the extracted rational count (run beside the real code) is the model's count *)
Theorem C06_nsegs_q_correct : forall total quantum : Q, (0 <= total)%Q -> (0 < quantum)%Q ->
  nsegs (Q2R total) (Q2R quantum) = nsegs_q total quantum.
Proof. exact nsegs_q_correct. Qed.
Print Assumptions C06_nsegs_q_correct.

(* ---- the tolerance e(q) = 0.015 + 1 - cos(pi/(4q)) against the generator's worst case 1 - cos(3 pi/(8q)) ------------ *)
Theorem C06_e_table : forall q, (1 <= q <= 32)%Z -> row_ok q.
Proof. exact e_table. Qed.

Theorem C06_e_up_sound : forall q, (1 <= q <= 32)%Z ->
  e_prop (IZR q) <= IZR (fst (e_up q)) / IZR (snd (e_up q)) <= e_prop (IZR q) + 4 / IZR e_den.
Proof. exact e_up_sound. Qed.

Theorem C06_fillet_within_property_bound : forall q : R, 6 <= q <= 32 -> e_fillet q <= e_prop q.
Proof. exact fillet_within_property_bound. Qed.

(* REFUTED for q = 1..5 (finding F1): the generator's worst case exceeds the tolerance of the property *)
Theorem C06_fillet_bound_refuted_small_q : forall q, (1 <= q <= 5)%Z -> e_prop (IZR q) < e_fillet (IZR q).
Proof. exact fillet_bound_refuted_small_q. Qed.

(* q = 6..32: every point of every chord of a generated fillet is at least (1 - e(q)) r from the centre *)
Theorem C06_fillet_error_within_tolerance : forall (q : Z) p start total (dirf : Z) r i t,
  (6 <= q <= 32)%Z -> 0 <= total -> (dirf = 1 \/ dirf = -1)%Z -> 0 <= t <= 1 ->
  let quantum := PI / 2 / IZR q in
  (1 <= nsegs total quantum)%Z ->
  let inc := total / IZR (nsegs total quantum) in
  ((1 - e_prop (IZR q)) * r) * ((1 - e_prop (IZR q)) * r) <=
  rd2 (chord_pt p r (fillet_angle start dirf inc i) (IZR dirf * inc) t) p.
Proof. exact fillet_error_within_tolerance. Qed.

(* ---- R: the checker ------------------------------------------------------------------------------------------------------ *)
(* dist2_pt_seg is the minimum over the segment and is attained (C18/DPMetric; DESIGN C08 dist2_pt_seg_spec) *)
Theorem C06_dist2_pt_seg_min : forall p a b t, 0 <= t <= 1 ->
  rval (dist2_pt_seg p a b) <= Rd2 (Rpt p) (on_seg (Rpt a) (Rpt b) t).
Proof. exact dist2_pt_seg_min. Qed.
Print Assumptions C06_dist2_pt_seg_min.
Theorem C06_dist2_pt_seg_attained : forall p a b, exists t, 0 <= t <= 1 /\
  Rd2 (Rpt p) (on_seg (Rpt a) (Rpt b) t) = rval (dist2_pt_seg p a b).
Proof. exact dist2_pt_seg_attained. Qed.
Print Assumptions C06_dist2_pt_seg_attained.

(* the Boolean distance tests decide the real-number statements about ALL points of the linework *)
Theorem C06_near_iff : forall B w ss, rok B -> near B w ss = true <-> Within (rval B) w ss.
Proof. exact near_iff. Qed.
Print Assumptions C06_near_iff.
Theorem C06_far_iff : forall B w ss, rok B -> far B w ss = true <-> Beyond (rval B) w ss.
Proof. exact far_iff. Qed.
Print Assumptions C06_far_iff.

(* FULL statement (not provable by a finite check): forall locations w of the plane, BufferSpec sgn rnd g d q k R w.
   PARTIAL: it holds at every witness location handed to the checker, when the checker's verdict is OK. *)
Theorem C06_buffer_check_sound_partial : forall sgn rnd g d q k R_ ws, (0 < snd k)%Z ->
  check_buffer_ok sgn rnd g d q k R_ ws = true -> forall w, In w ws -> BufferSpec sgn rnd g d q k R_ w.
Proof. exact buffer_check_sound_partial. Qed.
Print Assumptions C06_buffer_check_sound_partial.

(* a reported failure is a violation of the property text (with the exact tolerance e(q), not its enclosure) *)
Theorem C06_inside_failure_is_violation : forall g d q k R_ ws i, (1 <= q <= 32)%Z ->
  In i (fst (check_buffer 1 true g d q k R_ ws)) ->
  exists w, nth_error ws (Z.to_nat i) = Some w /\ memb R_ w = false /\
    (in_area g w = true \/ Within (((1 - e_prop (IZR q)) * IZR d) * ((1 - e_prop (IZR q)) * IZR d)) w (in_segs g)).
Proof. exact inside_failure_is_violation. Qed.
Theorem C06_outside_failure_is_violation : forall rnd g d q kn kd R_ ws i, (0 < kd)%Z ->
  In i (snd (check_buffer 1 rnd g d q (kn, kd) R_ ws)) ->
  exists w, nth_error ws (Z.to_nat i) = Some w /\ memb R_ w = true /\ in_area g w = false /\
    Beyond (((1 + 1 / 1000000) * IZR d) * ((1 + 1 / 1000000) * IZR d) * (IZR kn / IZR kd)) w (in_segs g).
Proof. exact outside_failure_is_violation. Qed.
Print Assumptions C06_outside_failure_is_violation.
Theorem C06_erosion_failure_is_violation : forall g d q k R_ ws i, (1 <= q <= 32)%Z ->
  In i (snd (check_buffer (-1) true g d q k R_ ws)) ->
  exists w, nth_error ws (Z.to_nat i) = Some w /\ memb R_ w = true /\
    (in_area g w = false \/ Within (((1 - e_prop (IZR q)) * IZR d) * ((1 - e_prop (IZR q)) * IZR d)) w (poly_segs g)).
Proof. exact erosion_failure_is_violation. Qed.

Theorem C06_single_sided_check_sound_partial : forall side lines d q k R_ ws,
  check_single_sided side lines d q k R_ ws = ([], []) ->
  forall wk, In wk ws ->
    ok_ss_right side (flat_map adj_pairs lines) (bin2 d q) (bout2 d k) R_ wk = true /\
    ok_ss_wrong side (flat_map adj_pairs lines) (bout2 d k) R_ wk = true /\
    ok_ss_out (flat_map adj_pairs lines) (bout2 d k) R_ wk = true.
Proof. exact single_sided_check_sound_partial. Qed.
Print Assumptions C06_single_sided_check_sound_partial.
Theorem C06_offset_curve_check_sound_partial : forall side rnd lines d q k c ws, (0 < snd k)%Z ->
  check_offset_curve side rnd lines d q k c ws = ([], [], []) ->
  forall wk, In wk ws ->
    on_curve c (fst wk) = true /\
    Within (rval (bout2 d k)) (fst wk) (flat_map adj_pairs lines) /\
    (rnd = true -> Beyond (rval (bin2 d q)) (fst wk) (flat_map adj_pairs lines)) /\
    ok_oc_side side (flat_map adj_pairs lines) (bout2 d k) wk = true.
Proof. exact offset_curve_check_sound_partial. Qed.
Print Assumptions C06_offset_curve_check_sound_partial.

(* the seven theorems that rest on the `interval` tactic: one Print Assumptions for all of them (each traversal of the Interval
   library costs ~6 s); the list printed is the union of their assumptions *)
Definition C06_interval_group :=
  (C06_e_table, C06_e_up_sound, C06_fillet_within_property_bound, C06_fillet_bound_refuted_small_q,
   C06_fillet_error_within_tolerance, C06_inside_failure_is_violation, C06_erosion_failure_is_violation).
Print Assumptions C06_interval_group.

(* ---- non-vacuity ---------------------------------------------------------------------------------------------------------- *)
(* the rounding rule: 1.49 quanta -> one chord, 1.51 quanta -> two *)
Example ex_nsegs : nsegs_q (149 # 100) 1 = 1%Z /\ nsegs_q (151 # 100) 1 = 2%Z /\ nsegs_q (49 # 100) 1 = 0%Z.
Proof. vm_compute. auto. Qed.
Example ex_nsegs_real : nsegs (Q2R (149 # 100)) (Q2R 1) = 1%Z.
Proof. rewrite nsegs_q_correct by (unfold Qle, Qlt; simpl; lia). reflexivity. Qed.
(* the table at the default q = 8 (e = 0.0198...: "2 %") *)
Example ex_e_up_8 : e_up 8 = (19815273327805, 1000000000000000)%Z.
Proof. vm_compute. reflexivity. Qed.
(* a verdict OK with both hypotheses true somewhere: input = the point (0,0), d = 1000 grid units, q = 8, R = an octagon-like ring;
   witness (0, 900) is within (1 - e) d and inside, witness (2000, 0) is beyond (1 + 1e-6) d and outside *)
Definition ex_g : input := mkIn [(0, 0)%Z] [] [].
Definition ex_R : list polygon := [[[(1000, 0); (707, 707); (0, 1000); (-707, 707); (-1000, 0); (-707, -707); (0, -1000); (707, -707); (1000, 0)]%Z]].
Example ex_check_ok : check_buffer 1 true ex_g 1000 8 (1, 1)%Z ex_R [(0, 900); (2000, 0); (0, 0)]%Z = ([], [])
  /\ near (bin2 1000 8) (0, 900)%Z (in_segs ex_g) = true /\ far (bout2 1000 (1, 1)%Z) (2000, 0)%Z (in_segs ex_g) = true.
Proof. vm_compute. auto. Qed.
(* ... and a verdict FAIL: the chord (1000,0)-(707,707) cuts 7.6 % deep, the location (900, 373) at distance 0.974 d is outside R *)
Example ex_check_fail : check_buffer 1 true ex_g 1000 8 (1, 1)%Z ex_R [(900, 373)]%Z = ([0%Z], []).
Proof. vm_compute. reflexivity. Qed.
(* erosion and zero distance on a square *)
Definition ex_sq : input := mkIn [] [] [[[(0, 0); (4000, 0); (4000, 4000); (0, 4000); (0, 0)]%Z]].
Example ex_check_neg : check_buffer (-1) true ex_sq 1000 8 (1, 1)%Z [[[(1000, 1000); (3000, 1000); (3000, 3000); (1000, 3000); (1000, 1000)]%Z]]
    [(2000, 2000); (500, 2000); (5000, 0)]%Z = ([], [])
  /\ check_buffer (-1) true ex_sq 1000 8 (1, 1)%Z [[[(500, 500); (3000, 1000); (3000, 3000); (1000, 3000); (500, 500)]%Z]] [(700, 720)]%Z = ([], [0%Z])
  /\ check_buffer 0 true ex_sq 0 8 (1, 1)%Z (in_polys ex_sq) [(2000, 2000); (0, 0); (5000, 0)]%Z = ([], []).
Proof. vm_compute. auto. Qed.

(* ---- the decisions that DROP a ring (negative / hole-side buffers) ----------------------------------------------------------- *)
(* Translated from /repo on every run (doubles read as reals, C06/GenPreludeErode = C08/GenPreludeR + ring / triangle / envelope
   representation): Triangle::inCentre (Gen/C06_inCentre), BufferCurveSetBuilder::isTriangleErodedCompletely (Gen/C06_triEroded),
   BufferCurveSetBuilder::isRingFullyEroded, 4-argument form (Gen/C06_ringEroded), Envelope::getWidth / getHeight; the distance is
   C08's translated Distance::pointToSegment.  Imported here (not at the top) because C08's prelude reuses the short names of
   C06/PreludeR. *)
From Coq Require Import Lra.
From GeosV.C08 Require Import RealDistDefs RealPtSeg.
From GeosV.C06 Require Import GenPreludeErode ErodeDefs ErodeTri ErodeEnv.
From GeosV.Gen Require Import C08_ptSeg C06_inCentre C06_triEroded C06_ringEroded.

(* (a) the generated Triangle::inCentre is (a A + b B + c C)/(a + b + c), a b c the lengths of the opposite sides ... *)
Theorem C06_gen_inCentre_is_incentre : forall A B C r0, m_inCentre_1 (mk_Triangle_3 A B C) r0 = incentre A B C.
Proof. exact gen_inCentre_is_incentre. Qed.
Print Assumptions C06_gen_inCentre_is_incentre.
(* ... and that point is at EQUAL distance r = 2 area / perimeter from the three side lines *)
Theorem C06_incentre_equidistant : forall A B C, 0 < distR A B -> 0 < distR B C -> 0 < distR A C ->
  line_dist (incentre A B C) A B = inradius A B C /\ line_dist (incentre A B C) B C = inradius A B C /\
  line_dist (incentre A B C) C A = inradius A B C.
Proof. exact incentre_equidistant. Qed.
Print Assumptions C06_incentre_equidistant.
Theorem C06_line_dist_is_dist : forall p a b, 0 < distR a b -> is_pt_line_dist (line_dist p a b) p a b.
Proof. exact line_dist_is_dist. Qed.
Print Assumptions C06_line_dist_is_dist.

(* (b) the generated isTriangleErodedCompletely is true iff inradius < |d| — for every triangle of positive perimeter, flat ones
   included (inradius 0: "eroded" iff d <> 0).  Three coincident corners: 0/0 = NaN and `false` in the code; not covered. *)
Theorem C06_gen_triEroded_iff : forall A B C rest d, 0 < perim A B C ->
  (g_isTriangleErodedCompletely (A :: B :: C :: rest) d = true <-> inradius A B C < Rabs d).
Proof. exact gen_triEroded_iff. Qed.
Print Assumptions C06_gen_triEroded_iff.

(* (c) the incentre maximises the distance to the boundary: every point of the closed triangle has a boundary point within r;
   also for the distances to the three side lines (smallest of the three <= r) *)
Theorem C06_tri_boundary_within_inradius : forall A B C p, 0 < distR A B -> 0 < distR B C -> 0 < distR A C -> in_tri p A B C ->
  exists q, on_tri_boundary q A B C /\ distR p q <= inradius A B C.
Proof. exact tri_boundary_within_inradius. Qed.
Print Assumptions C06_tri_boundary_within_inradius.
Theorem C06_tri_line_dist_max : forall A B C p, 0 < distR A B -> 0 < distR B C -> 0 < distR A C -> in_tri p A B C ->
  Rmin (line_dist p A B) (Rmin (line_dist p B C) (line_dist p C A)) <= inradius A B C.
Proof. exact tri_line_dist_max. Qed.
Print Assumptions C06_tri_line_dist_max.
(* SOUNDNESS of dropping a triangular ring: test true => no point of the closed triangle is at distance >= |d| from its boundary *)
Theorem C06_gen_triEroded_sound : forall A B C rest d, 0 < distR A B -> 0 < distR B C -> 0 < distR A C ->
  g_isTriangleErodedCompletely (A :: B :: C :: rest) d = true ->
  forall p, in_tri p A B C -> exists q, on_tri_boundary q A B C /\ distR p q < Rabs d.
Proof. exact gen_triEroded_sound. Qed.
Print Assumptions C06_gen_triEroded_sound.
(* ... and the test is exact: test false => |d| <= inradius, attained at the incentre, a point of the triangle *)
Theorem C06_gen_triEroded_complete : forall A B C rest d, 0 < perim A B C ->
  g_isTriangleErodedCompletely (A :: B :: C :: rest) d = false ->
  Rabs d <= inradius A B C /\ in_tri (incentre A B C) A B C.
Proof. exact gen_triEroded_complete. Qed.
Print Assumptions C06_gen_triEroded_complete.

(* the generated isRingFullyEroded, case by case *)
Theorem C06_gen_ringEroded_small : forall l e isHole d, (length l < 4)%nat -> g_isRingFullyEroded tt l e isHole d = true.
Proof. exact gen_ringEroded_small. Qed.
Print Assumptions C06_gen_ringEroded_small.
Theorem C06_gen_ringEroded_triangle : forall l e isHole d, length l = 4%nat ->
  g_isRingFullyEroded tt l e isHole d = g_isTriangleErodedCompletely l d.
Proof. exact gen_ringEroded_triangle. Qed.
Print Assumptions C06_gen_ringEroded_triangle.
Theorem C06_gen_ringEroded_large : forall l e isHole d, (length l > 4)%nat ->
  (g_isRingFullyEroded tt l e isHole d = true <-> erodable isHole d /\ 2 * Rabs d > Rmin (height e) (width e)).
Proof. exact gen_ringEroded_large. Qed.
Print Assumptions C06_gen_ringEroded_large.

(* (d) the envelope test: a location enclosed by the ring in the vertical (horizontal) direction has a ring point within half the
   envelope height (width) *)
Theorem C06_narrow_height : forall l p, v_enclosed p l -> exists q, on_ring q l /\ 2 * distR p q <= height (env_of l).
Proof. exact narrow_height. Qed.
Print Assumptions C06_narrow_height.
Theorem C06_narrow_width : forall l p, h_enclosed p l -> exists q, on_ring q l /\ 2 * distR p q <= width (env_of l).
Proof. exact narrow_width. Qed.
Print Assumptions C06_narrow_width.
(* SOUNDNESS of dropping a ring of more than 4 points: decision true (on the ring's own envelope) => the ring is erodable for this
   sign of d, and every location from which all four axis-parallel rays meet the ring has a ring point at distance < |d| *)
Theorem C06_gen_ringEroded_sound : forall l isHole d, (length l > 4)%nat -> g_isRingFullyEroded tt l (env_of l) isHole d = true ->
  erodable isHole d /\ forall p, v_enclosed p l -> h_enclosed p l -> exists q, on_ring q l /\ distR p q < Rabs d.
Proof. exact gen_ringEroded_sound. Qed.
Print Assumptions C06_gen_ringEroded_sound.
(* the even-odd rule gives "enclosed": closed ring, p not on it, odd number of crossings of the upward ray => the vertical line
   through p meets the ring above and below p *)
Theorem C06_inside_eo_v_enclosed : forall l p, closed_ring l -> inside_eo p l -> v_enclosed p l.
Proof. exact inside_eo_v_enclosed. Qed.
Print Assumptions C06_inside_eo_v_enclosed.
(* PARTIAL.  Full statement: closed_ring l -> length l > 4 -> decision true -> forall p, inside_eo p l -> exists q on the ring with
   |pq| < |d|.  Proved with the even-odd condition for BOTH axis directions; missing: direction independence of the even-odd rule,
   closed_ring l -> inside_eo p l -> inside_eo (swap p) (map swap l). *)
Theorem C06_gen_ringEroded_sound_eo_partial : forall l isHole d, closed_ring l -> (length l > 4)%nat ->
  g_isRingFullyEroded tt l (env_of l) isHole d = true ->
  forall p, inside_eo p l -> inside_eo (swap p) (map swap l) -> exists q, on_ring q l /\ distR p q < Rabs d.
Proof. exact gen_ringEroded_sound_eo_partial. Qed.
Print Assumptions C06_gen_ringEroded_sound_eo_partial.

(* ---- non-vacuity of the ring-dropping theorems ------------------------------------------------------------------------------ *)
(* the 3-4-5 triangle: inradius 1, incentre (1,1); eroded completely by d = -2, not by d = 1/2 *)
Definition exA := mk_rpt 0 0.
Definition exB := mk_rpt 4 0.
Definition exC := mk_rpt 0 3.
Example ex_tri_sides : distR exA exB = 4 /\ distR exB exC = 5 /\ distR exA exC = 3.
Proof.
  assert (S : forall x y, 0 <= y -> x = y * y -> sqrt x = y) by (intros x y Hy E; subst x; apply sqrt_square; exact Hy).
  unfold distR, d2R, exA, exB, exC; cbn [f_x f_y]. repeat split; apply S; try lra; ring.
Qed.
Example ex_tri_inradius : inradius exA exB exC = 1 /\ in_tri (mk_rpt 1 1) exA exB exC.
Proof.
  destruct ex_tri_sides as [E1 [E2 E3]]. split.
  - unfold inradius, perim, area2. rewrite E1, E2, E3. replace (crossR exA exB exC) with (-12) by (unfold crossR, exA, exB, exC; cbn [f_x f_y]; ring).
    rewrite Rabs_left by lra. lra.
  - exists (5 / 12), (3 / 12), (4 / 12). repeat split; try lra. unfold bary, exA, exB, exC; cbn [f_x f_y]. f_equal; lra.
Qed.
Example ex_tri_eroded : g_isTriangleErodedCompletely [exA; exB; exC; exA] (-2) = true /\
  g_isTriangleErodedCompletely [exA; exB; exC; exA] (1 / 2) = false.
Proof.
  destruct ex_tri_sides as [E1 [E2 E3]]. destruct ex_tri_inradius as [Er _].
  assert (Hp : 0 < perim exA exB exC) by (unfold perim; rewrite E1, E2, E3; lra). split.
  - apply gen_triEroded_iff; [exact Hp |]. rewrite Er, Rabs_left by lra. lra.
  - destruct (g_isTriangleErodedCompletely [exA; exB; exC; exA] (1 / 2)) eqn:E; [| reflexivity].
    apply gen_triEroded_iff in E; [| exact Hp]. rewrite Er, Rabs_pos_eq in E by lra. exfalso; lra.
Qed.
(* a 10 x 2 rectangle as a shell, d = -3/2: dropped by the envelope test; its centre is enclosed in both directions *)
Definition ex_rect : list rpt := [mk_rpt 0 0; mk_rpt 10 0; mk_rpt 10 2; mk_rpt 0 2; mk_rpt 0 0].
Example ex_rect_eroded : g_isRingFullyEroded tt ex_rect (env_of ex_rect) false (- (3 / 2)) = true.
Proof.
  apply gen_ringEroded_large; [cbn; lia |]. split; [right; split; [reflexivity | lra] |].
  rewrite Rabs_left by lra. apply Rle_lt_trans with (height (env_of ex_rect)); [apply Rmin_l |].
  unfold height, ex_rect. cbn [env_of f_null f_maxy f_miny fold_right f_y].
  assert (Rmax 0 (Rmax 2 (Rmax 2 (Rmax 0 0))) <= 2) by (repeat apply Rmax_lub; lra).
  assert (0 <= Rmin 0 (Rmin 2 (Rmin 2 (Rmin 0 0)))) by (repeat apply Rmin_glb; lra). lra.
Qed.
Example ex_rect_enclosed : v_enclosed (mk_rpt 5 1) ex_rect /\ h_enclosed (mk_rpt 5 1) ex_rect /\ closed_ring ex_rect.
Proof.
  assert (M : forall a b, In (a, b) (segs ex_rect) -> on_ring (lerp a b (1 / 2)) ex_rect).
  { intros a b H. exists (a, b). split; [exact H | apply RealPtSeg.on_seg_lerp; lra]. }
  split; [| split].
  - split; [exists (mk_rpt 5 2) | exists (mk_rpt 5 0)]; (split; [| cbn [f_x f_y]; lra]).
    + replace (mk_rpt 5 2) with (lerp (mk_rpt 10 2) (mk_rpt 0 2) (1 / 2)) by (unfold lerp; cbn [f_x f_y]; f_equal; lra). apply M. cbn. tauto.
    + replace (mk_rpt 5 0) with (lerp (mk_rpt 0 0) (mk_rpt 10 0) (1 / 2)) by (unfold lerp; cbn [f_x f_y]; f_equal; lra). apply M. cbn. tauto.
  - split; [exists (mk_rpt 10 1) | exists (mk_rpt 0 1)]; (split; [| cbn [f_x f_y]; lra]).
    + replace (mk_rpt 10 1) with (lerp (mk_rpt 10 0) (mk_rpt 10 2) (1 / 2)) by (unfold lerp; cbn [f_x f_y]; f_equal; lra). apply M. cbn. tauto.
    + replace (mk_rpt 0 1) with (lerp (mk_rpt 0 2) (mk_rpt 0 0) (1 / 2)) by (unfold lerp; cbn [f_x f_y]; f_equal; lra). apply M. cbn. tauto.
  - exists (mk_rpt 0 0), [mk_rpt 10 0; mk_rpt 10 2; mk_rpt 0 2]. reflexivity.
Qed.
