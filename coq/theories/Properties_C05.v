(* C05 — property theorems only. Each is closed by `exact <lemma>` and followed by Print Assumptions.
   The specification (Lib/ValidDefs.v: one function per rule, each with its violation set; Lib/LocateDefs.v: the point set of a
   geometry) is the formal reading of the property text; what is proved here is that this reading has the invariances the text
   demands and is internally consistent.  "The rules are the OGC rules" is not a theorem. *)
From Coq Require Import ZArith List Bool Permutation.
From GeosV.Lib Require Import GeomDefs LocateDefs ValidDefs Geom Locate LocateRing LocateCov Valid ValidPerm ValidFacts ValidLoc.
Import ListNotations.
Local Open Scope Z_scope.

(* ---- invariance of the verdicts and of every rule under translation, reflection, axis swap ---- *)
(* every rule's violation set is carried along by the map (so each rule, and hence the verdict, is invariant) *)
Theorem C05_rules_translate : forall d flag g,
  violations flag (map_geom (translate d) g) = map (fun rs => (fst rs, map (translate_h d) (snd rs))) (violations flag g).
Proof. exact (fun d => violations_map _ _ _ (sim_translate d)). Qed.
Print Assumptions C05_rules_translate.
Theorem C05_rules_reflect_x : forall flag g,
  violations flag (map_geom reflect_x g) = map (fun rs => (fst rs, map (lin_h reflect_x) (snd rs))) (violations flag g).
Proof. exact (violations_map _ _ _ sim_reflect_x). Qed.
Print Assumptions C05_rules_reflect_x.
Theorem C05_rules_reflect_y : forall flag g,
  violations flag (map_geom reflect_y g) = map (fun rs => (fst rs, map (lin_h reflect_y) (snd rs))) (violations flag g).
Proof. exact (violations_map _ _ _ sim_reflect_y). Qed.
Print Assumptions C05_rules_reflect_y.
Theorem C05_rules_swap_xy : forall flag g,
  violations flag (map_geom swap_xy g) = map (fun rs => (fst rs, map (lin_h swap_xy) (snd rs))) (violations flag g).
Proof. exact (violations_map _ _ _ sim_swap). Qed.
Print Assumptions C05_rules_swap_xy.

Theorem C05_valid_translate : forall d flag g, valid_flag flag (map_geom (translate d) g) = valid_flag flag g.
Proof. exact (fun d => valid_flag_map _ _ _ (sim_translate d)). Qed.
Print Assumptions C05_valid_translate.
Theorem C05_valid_reflect_x : forall flag g, valid_flag flag (map_geom reflect_x g) = valid_flag flag g.
Proof. exact (valid_flag_map _ _ _ sim_reflect_x). Qed.
Print Assumptions C05_valid_reflect_x.
Theorem C05_valid_reflect_y : forall flag g, valid_flag flag (map_geom reflect_y g) = valid_flag flag g.
Proof. exact (valid_flag_map _ _ _ sim_reflect_y). Qed.
Print Assumptions C05_valid_reflect_y.
Theorem C05_valid_swap_xy : forall flag g, valid_flag flag (map_geom swap_xy g) = valid_flag flag g.
Proof. exact (valid_flag_map _ _ _ sim_swap). Qed.
Print Assumptions C05_valid_swap_xy.

Theorem C05_simple_translate : forall d g, simple_geom (map_geom (translate d) g) = simple_geom g.
Proof. exact (fun d => simple_geom_map _ _ _ (sim_translate d)). Qed.
Print Assumptions C05_simple_translate.
Theorem C05_simple_reflect_x : forall g, simple_geom (map_geom reflect_x g) = simple_geom g.
Proof. exact (simple_geom_map _ _ _ sim_reflect_x). Qed.
Print Assumptions C05_simple_reflect_x.
Theorem C05_simple_reflect_y : forall g, simple_geom (map_geom reflect_y g) = simple_geom g.
Proof. exact (simple_geom_map _ _ _ sim_reflect_y). Qed.
Print Assumptions C05_simple_reflect_y.
Theorem C05_simple_swap_xy : forall g, simple_geom (map_geom swap_xy g) = simple_geom g.
Proof. exact (simple_geom_map _ _ _ sim_swap). Qed.
Print Assumptions C05_simple_swap_xy.
Theorem C05_isring_translate : forall d g, is_ring (map_geom (translate d) g) = is_ring g.
Proof. exact (fun d => is_ring_map _ _ _ (sim_translate d)). Qed.
Print Assumptions C05_isring_translate.
Theorem C05_isring_swap_xy : forall g, is_ring (map_geom swap_xy g) = is_ring g.
Proof. exact (is_ring_map _ _ _ sim_swap). Qed.
Print Assumptions C05_isring_swap_xy.

(* ---- reordering of holes and of elements ---- *)
Theorem C05_valid_holes_order : forall s hs hs', Permutation hs hs' -> forall flag, valid_flag flag (GPoly s hs) = valid_flag flag (GPoly s hs').
Proof. exact valid_flag_perm_holes. Qed.
Print Assumptions C05_valid_holes_order.
Theorem C05_valid_elements_order : forall flag ps ps', Permutation ps ps' -> valid_flag flag (GMPoly ps) = valid_flag flag (GMPoly ps').
Proof. exact valid_flag_perm_elements. Qed.
Print Assumptions C05_valid_elements_order.
Theorem C05_valid_collection_order : forall flag gs gs', Permutation gs gs' -> valid_flag flag (GColl gs) = valid_flag flag (GColl gs').
Proof. exact valid_flag_perm_coll. Qed.
Print Assumptions C05_valid_collection_order.
Theorem C05_valid_lines_order : forall flag ls ls', Permutation ls ls' -> valid_flag flag (GMLine ls) = valid_flag flag (GMLine ls').
Proof. exact valid_flag_perm_mline. Qed.
Print Assumptions C05_valid_lines_order.
Theorem C05_simple_holes_order : forall s hs hs', Permutation hs hs' -> simple_geom (GPoly s hs) = simple_geom (GPoly s hs').
Proof. exact simple_perm_holes. Qed.
Print Assumptions C05_simple_holes_order.
Theorem C05_simple_elements_order : forall ps ps', Permutation ps ps' -> simple_geom (GMPoly ps) = simple_geom (GMPoly ps').
Proof. exact simple_perm_elements. Qed.
Print Assumptions C05_simple_elements_order.
Theorem C05_simple_lines_order : forall ls ls', Permutation ls ls' -> simple_geom (GMLine ls) = simple_geom (GMLine ls').
Proof. exact simple_perm_mline. Qed.
Print Assumptions C05_simple_lines_order.
Theorem C05_simple_points_order : forall ps ps', Permutation ps ps' -> simple_geom (GMPoint ps) = simple_geom (GMPoint ps').
Proof. exact simple_perm_mpoint. Qed.
Print Assumptions C05_simple_points_order.
Theorem C05_simple_collection_order : forall gs gs', Permutation gs gs' -> simple_geom (GColl gs) = simple_geom (GColl gs').
Proof. exact simple_perm_coll. Qed.
Print Assumptions C05_simple_collection_order.

(* ---- the self-touching-ring flag relaxes exactly the rule it names ---- *)
(* validity under the OGC rules = validity with the flag, and rule 6 (no ring touches itself) *)
Theorem C05_flag_split : forall g, valid_flag false g = valid_flag true g && isnil (nth 4 (vsets_of false g) []).
Proof. exact flag_split. Qed.
Print Assumptions C05_flag_split.
Theorem C05_flag_monotone : forall g, valid_flag false g = true -> valid_flag true g = true.
Proof. exact valid_flag_monotone. Qed.
Print Assumptions C05_flag_monotone.
Theorem C05_flag_only_rule6 : forall g, valid_flag true g = true -> valid_flag false g = false ->
  rule_set false RRingSelfIntersection g <> [].
Proof. exact flag_only_rule6. Qed.
Print Assumptions C05_flag_only_rule6.

(* ---- consistency with simplicity ---- *)
Theorem C05_valid_polygon_rings_simple : forall s hs, s <> [] -> valid_geom (GPoly s hs) = true ->
  forall r, In r (s :: hs) -> simple_geom (GRing r) = true.
Proof. exact valid_polygon_rings_simple. Qed.
Print Assumptions C05_valid_polygon_rings_simple.

(* ---- every reported location lies on the geometry ---- *)
Theorem C05_violation_on_geometry : forall flag ru g q, In q (rule_set flag ru g) -> loc_h g q <> Exterior.
Proof. exact violation_on_geometry. Qed.
Print Assumptions C05_violation_on_geometry.

Theorem C05_nonsimple_on_geometry : forall g q, In q (nonsimple_pts g) -> loc_h g q <> Exterior.
Proof. exact nonsimple_on_geometry. Qed.
Print Assumptions C05_nonsimple_on_geometry.

(* ---- the point set of a geometry moves with the geometry (all four boundary-node rules) ---- *)
Theorem C05_loc_translate : forall d rule g p, loc_dim rule (map_geom (translate d) g) (translate d p) = loc_dim rule g p.
Proof. exact loc_dim_translate. Qed.
Print Assumptions C05_loc_translate.
Theorem C05_loc_reflect_x : forall rule g p, loc_dim rule (map_geom reflect_x g) (reflect_x p) = loc_dim rule g p.
Proof. exact loc_dim_reflect_x. Qed.
Print Assumptions C05_loc_reflect_x.
Theorem C05_loc_reflect_y : forall rule g p, loc_dim rule (map_geom reflect_y g) (reflect_y p) = loc_dim rule g p.
Proof. exact loc_dim_reflect_y. Qed.
Print Assumptions C05_loc_reflect_y.
Theorem C05_loc_swap_xy : forall rule g p, loc_dim rule (map_geom swap_xy g) (swap_xy p) = loc_dim rule g p.
Proof. exact loc_dim_swap_xy. Qed.
Print Assumptions C05_loc_swap_xy.

(* ---- point location: the primitive under the symmetries ---- *)
Theorem C05_in_ring_translate : forall d p r, in_ring (translate d p) (map (translate d) r) = in_ring p r.
Proof. exact in_ring_translate. Qed.
Print Assumptions C05_in_ring_translate.
Theorem C05_in_ring_swap_xy : forall p r, in_ring (swap_xy p) (map swap_xy r) = in_ring p r.
Proof. exact in_ring_swap. Qed.
Print Assumptions C05_in_ring_swap_xy.

(* FULL STATEMENT (not proved): for a closed ring r of g, replacing r by rotate_ring k r or by reverse_ring r changes neither
   valid_flag flag g nor simple_geom g.  MISSING: the segment pairs of the rotated / reversed ring are the same unordered pairs
   with the same cyclic adjacency, and seg_int is symmetric in its two segments and in the direction of each - an index
   argument over `pairs (index_from 0 (segs r))` that is not done.  PROVED: the part that goes through point location (rules
   2, 3, 7 and `loc`): in_ring does not depend on the start vertex or the direction of the ring.  The full statement is executed
   on the specification and on the library for every derived case of the correspondence. *)
Theorem C05_ring_rotation_partial : forall k p r, closed r = true -> in_ring p (rotate_ring k r) = in_ring p r.
Proof. exact in_ring_rotate. Qed.
Print Assumptions C05_ring_rotation_partial.
Theorem C05_ring_reversal_partial : forall p r, in_ring p (reverse_ring r) = in_ring p r.
Proof. exact in_ring_reverse. Qed.
Print Assumptions C05_ring_reversal_partial.

(* FULL STATEMENT (not proved): valid_geom (GPoly s hs) = true -> forall r in s :: hs, r <> [] -> area2 r <> 0.
   MISSING: that a simple closed polygon has non-zero signed area (a Jordan-curve type argument).  PROVED: twice the signed area
   is multiplied by the sign of the map under translation / reflection / axis swap, so "non-zero area" and the side on which
   rule 4 places the interior are well defined; the full statement is checked on every valid polygon of the correspondence. *)
Theorem C05_ring_area_partial : forall T Th sg, sim T Th sg -> forall r, area2 (map T r) = sg * area2 r.
Proof. exact area2_map. Qed.
Print Assumptions C05_ring_area_partial.

(* ---- non-vacuity ---- *)
Example ex_rotate : rotate_ring 2 [(0, 0); (4, 0); (4, 4); (0, 4); (0, 0)] = [(4, 4); (0, 4); (0, 0); (4, 0); (4, 4)]
  /\ in_ring (1, 1) [(0, 0); (4, 0); (4, 4); (0, 4); (0, 0)] = Interior /\ in_ring (4, 2) [(0, 0); (4, 0); (4, 4); (0, 4); (0, 0)] = Boundary
  /\ in_ring (5, 2) [(0, 0); (4, 0); (4, 4); (0, 4); (0, 0)] = Exterior.
Proof. vm_compute. auto. Qed.
Definition sq (x0 y0 x1 y1 : Z) : seq := [(x0, y0); (x1, y0); (x1, y1); (x0, y1); (x0, y0)].
(* a valid polygon with two holes touching the shell at the same vertex; valid in every hole order *)
Definition ex_two_holes : geom := GPoly (sq 0 0 24 24) [[(0, 0); (6, 1); (6, 2); (0, 0)]; [(0, 0); (2, 6); (1, 6); (0, 0)]].
Example ex_two_holes_valid : valid_geom ex_two_holes = true /\ simple_geom ex_two_holes = true.
Proof. vm_compute. auto. Qed.
(* a hole chain from edge to edge disconnects the interior: rule 4 at the four touch points *)
Definition ex_chain : geom := GPoly (sq 0 0 8 8) [[(0, 4); (2, 2); (4, 4); (2, 6); (0, 4)]; [(4, 4); (6, 2); (8, 4); (6, 6); (4, 4)]].
Example ex_chain_invalid : valid_geom ex_chain = false /\ valid_flag true ex_chain = false.
Proof. vm_compute. auto. Qed.
Example ex_chain_on_geometry : forall q, In q (rule_set false RDisconnectedInterior ex_chain) -> loc_h ex_chain q = Boundary.
Proof. intros q H. vm_compute in H. repeat (destruct H as [<- | H]; [vm_compute; reflexivity|]). destruct H. Qed.
Example ex_chain_rule_nonempty : rule_set false RDisconnectedInterior ex_chain <> [].
Proof. vm_compute. discriminate. Qed.
(* a bow-tie: rule 5 at the exact rational crossing point (5,5) = (1000/200, 1000/200) *)
Definition ex_bowtie : geom := GPoly [(0, 0); (10, 10); (10, 0); (0, 10); (0, 0)] [].
Example ex_bowtie_detail : valid_detail false ex_bowtie = Some (RSelfIntersection, [(1000, 1000, 200)]).
Proof. vm_compute. reflexivity. Qed.
(* an inverted shell (the ring touches itself and encloses a hole): invalid under OGC by rule 6 only, valid with the flag;
   the same ring with the inner loop on the interior side (a figure 8) is invalid under both *)
Definition ex_inverted : geom := GPoly [(0, 0); (20, 0); (20, 20); (0, 20); (0, 10); (5, 15); (10, 10); (5, 5); (0, 10); (0, 0)] [].
Example ex_inverted_flag : valid_flag false ex_inverted = false /\ valid_flag true ex_inverted = true
                           /\ rule_set false RRingSelfIntersection ex_inverted <> [].
Proof. vm_compute. repeat split; discriminate. Qed.
Definition ex_eight : geom := GPoly [(0, 0); (4, 0); (4, 4); (8, 4); (8, 8); (4, 8); (4, 4); (0, 4); (0, 0)] [].
Example ex_eight_flag : valid_flag true ex_eight = false /\ rule_set true RDisconnectedInterior ex_eight = [(4, 4, 1)].
Proof. vm_compute. auto. Qed.
(* rules 2, 3, 7, 9, 11 *)
Example ex_rules :
  valid_detail false (GPoly (sq 0 0 10 10) [sq 12 2 14 4]) = Some (RHoleOutsideShell, map hp (sq 12 2 14 4))
  /\ rule_set false RNestedHoles (GPoly (sq 0 0 20 20) [sq 2 2 12 12; sq 4 4 6 6]) = map hp (sq 4 4 6 6)
  /\ rule_set false RNestedShells (GMPoly [(sq 0 0 6 6, []); (sq 2 2 4 4, [])]) = map hp (sq 2 2 4 4)
  /\ valid_detail false (GPoly [(0, 0); (10, 0); (0, 0)] []) = Some (RTooFewPoints, [(0, 0, 1)])
  /\ valid_detail false (GRing [(0, 0); (5, 0); (5, 5); (0, 5)]) = Some (RRingNotClosed, [(0, 0, 1)])
  /\ valid_geom (GLine [(1, 1); (1, 1)]) = false
  /\ valid_geom (GMPoly [(sq 0 0 12 12, [sq 2 2 10 10]); (sq 4 4 8 8, [])]) = true.
Proof. vm_compute. repeat split; reflexivity. Qed.
(* simplicity: closure at the end points is allowed, an end point on the interior is not; lines may share end points *)
Example ex_simple :
  simple_geom (GLine (sq 0 0 4 4)) = true /\ is_ring (GLine (sq 0 0 4 4)) = true
  /\ simple_geom (GLine [(0, 0); (8, 0); (8, 4); (4, 4); (4, 0)]) = false
  /\ simple_geom (GMLine [[(0, 0); (4, 4)]; [(4, 4); (8, 0)]; [(4, 4); (4, 9)]]) = true
  /\ simple_geom (GMLine [sq 0 0 4 4; [(0, 0); (-3, -3)]]) = false
  /\ nonsimple_pts (GLine [(0, 0); (4, 4); (4, 0); (0, 4)]) = [(64, 64, 32)].
Proof. vm_compute. repeat split; reflexivity. Qed.
(* invariance, instantiated: the bow-tie's crossing point moves with the geometry *)
Example ex_bowtie_translated :
  rule_set false RSelfIntersection (map_geom (translate (7, -3)) ex_bowtie) = map (translate_h (7, -3)) (rule_set false RSelfIntersection ex_bowtie).
Proof. vm_compute. reflexivity. Qed.
