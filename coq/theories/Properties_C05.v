(* C05 — property theorems only (under construction). *)
From Coq Require Import ZArith List.
From GeosV.Lib Require Import GeomDefs LocateDefs ValidDefs.
Import ListNotations.
Local Open Scope Z_scope.
Example ex_square_valid : valid_geom (GPoly [(0,0);(10,0);(10,10);(0,10);(0,0)] []) = true.
Proof. vm_compute. reflexivity. Qed.
