(* C05 — property theorems only. Each is closed by `exact <lemma>` and followed by Print Assumptions.
   The specification (Lib/ValidDefs.v: one function per rule, each with its violation set; Lib/LocateDefs.v: the point set of a
   geometry) is the formal reading of the property text; what is proved here is that this reading has the invariances the text
   demands and is internally consistent.  "The rules are the OGC rules" is not a theorem. *)
From Coq Require Import ZArith List Bool Permutation.
From GeosV.Lib Require Import GeomDefs LocateDefs ValidDefs Geom Locate LocateRing LocateCov Valid ValidPerm ValidFacts ValidLoc.
Import ListNotations.
Local Open Scope Z_scope.

(* ---- invariance of the verdicts and of every rule under translation, reflection, axis swap ---- *)
(* every rule's violation set is carried along by the map (so each rule, and hence the verdict, is invariant) *)
Theorem C05_rules_translate : forall d flag g,
  violations flag (map_geom (translate d) g) = map (fun rs => (fst rs, map (translate_h d) (snd rs))) (violations flag g).
Proof. exact (fun d => violations_map _ _ _ (sim_translate d)). Qed.
Print Assumptions C05_rules_translate.
Theorem C05_rules_reflect_x : forall flag g,
  violations flag (map_geom reflect_x g) = map (fun rs => (fst rs, map (lin_h reflect_x) (snd rs))) (violations flag g).
Proof. exact (violations_map _ _ _ sim_reflect_x). Qed.
Print Assumptions C05_rules_reflect_x.
Theorem C05_rules_reflect_y : forall flag g,
  violations flag (map_geom reflect_y g) = map (fun rs => (fst rs, map (lin_h reflect_y) (snd rs))) (violations flag g).
Proof. exact (violations_map _ _ _ sim_reflect_y). Qed.
Print Assumptions C05_rules_reflect_y.
Theorem C05_rules_swap_xy : forall flag g,
  violations flag (map_geom swap_xy g) = map (fun rs => (fst rs, map (lin_h swap_xy) (snd rs))) (violations flag g).
Proof. exact (violations_map _ _ _ sim_swap). Qed.
Print Assumptions C05_rules_swap_xy.

Theorem C05_valid_translate : forall d flag g, valid_flag flag (map_geom (translate d) g) = valid_flag flag g.
Proof. exact (fun d => valid_flag_map _ _ _ (sim_translate d)). Qed.
Print Assumptions C05_valid_translate.
Theorem C05_valid_reflect_x : forall flag g, valid_flag flag (map_geom reflect_x g) = valid_flag flag g.
Proof. exact (valid_flag_map _ _ _ sim_reflect_x). Qed.
Print Assumptions C05_valid_reflect_x.
Theorem C05_valid_reflect_y : forall flag g, valid_flag flag (map_geom reflect_y g) = valid_flag flag g.
Proof. exact (valid_flag_map _ _ _ sim_reflect_y). Qed.
Print Assumptions C05_valid_reflect_y.
Theorem C05_valid_swap_xy : forall flag g, valid_flag flag (map_geom swap_xy g) = valid_flag flag g.
Proof. exact (valid_flag_map _ _ _ sim_swap). Qed.
Print Assumptions C05_valid_swap_xy.

Theorem C05_simple_translate : forall d g, simple_geom (map_geom (translate d) g) = simple_geom g.
Proof. exact (fun d => simple_geom_map _ _ _ (sim_translate d)). Qed.
Print Assumptions C05_simple_translate.
Theorem C05_simple_reflect_x : forall g, simple_geom (map_geom reflect_x g) = simple_geom g.
Proof. exact (simple_geom_map _ _ _ sim_reflect_x). Qed.
Print Assumptions C05_simple_reflect_x.
Theorem C05_simple_reflect_y : forall g, simple_geom (map_geom reflect_y g) = simple_geom g.
Proof. exact (simple_geom_map _ _ _ sim_reflect_y). Qed.
Print Assumptions C05_simple_reflect_y.
Theorem C05_simple_swap_xy : forall g, simple_geom (map_geom swap_xy g) = simple_geom g.
Proof. exact (simple_geom_map _ _ _ sim_swap). Qed.
Print Assumptions C05_simple_swap_xy.
Theorem C05_isring_translate : forall d g, is_ring (map_geom (translate d) g) = is_ring g.
Proof. exact (fun d => is_ring_map _ _ _ (sim_translate d)). Qed.
Print Assumptions C05_isring_translate.
Theorem C05_isring_swap_xy : forall g, is_ring (map_geom swap_xy g) = is_ring g.
Proof. exact (is_ring_map _ _ _ sim_swap). Qed.
Print Assumptions C05_isring_swap_xy.

(* ---- reordering of holes and of elements ---- *)
Theorem C05_valid_holes_order : forall s hs hs', Permutation hs hs' -> forall flag, valid_flag flag (GPoly s hs) = valid_flag flag (GPoly s hs').
Proof. exact valid_flag_perm_holes. Qed.
Print Assumptions C05_valid_holes_order.
Theorem C05_valid_elements_order : forall flag ps ps', Permutation ps ps' -> valid_flag flag (GMPoly ps) = valid_flag flag (GMPoly ps').
Proof. exact valid_flag_perm_elements. Qed.
Print Assumptions C05_valid_elements_order.
Theorem C05_valid_collection_order : forall flag gs gs', Permutation gs gs' -> valid_flag flag (GColl gs) = valid_flag flag (GColl gs').
Proof. exact valid_flag_perm_coll. Qed.
Print Assumptions C05_valid_collection_order.
Theorem C05_valid_lines_order : forall flag ls ls', Permutation ls ls' -> valid_flag flag (GMLine ls) = valid_flag flag (GMLine ls').
Proof. exact valid_flag_perm_mline. Qed.
Print Assumptions C05_valid_lines_order.
Theorem C05_simple_holes_order : forall s hs hs', Permutation hs hs' -> simple_geom (GPoly s hs) = simple_geom (GPoly s hs').
Proof. exact simple_perm_holes. Qed.
Print Assumptions C05_simple_holes_order.
Theorem C05_simple_elements_order : forall ps ps', Permutation ps ps' -> simple_geom (GMPoly ps) = simple_geom (GMPoly ps').
Proof. exact simple_perm_elements. Qed.
Print Assumptions C05_simple_elements_order.
Theorem C05_simple_lines_order : forall ls ls', Permutation ls ls' -> simple_geom (GMLine ls) = simple_geom (GMLine ls').
Proof. exact simple_perm_mline. Qed.
Print Assumptions C05_simple_lines_order.
Theorem C05_simple_points_order : forall ps ps', Permutation ps ps' -> simple_geom (GMPoint ps) = simple_geom (GMPoint ps').
Proof. exact simple_perm_mpoint. Qed.
Print Assumptions C05_simple_points_order.
Theorem C05_simple_collection_order : forall gs gs', Permutation gs gs' -> simple_geom (GColl gs) = simple_geom (GColl gs').
Proof. exact simple_perm_coll. Qed.
Print Assumptions C05_simple_collection_order.

(* ---- the self-touching-ring flag relaxes exactly the rule it names ---- *)
(* validity under the OGC rules = validity with the flag, and rule 6 (no ring touches itself) *)
Theorem C05_flag_split : forall g, valid_flag false g = valid_flag true g && isnil (nth 4 (vsets_of false g) []).
Proof. exact flag_split. Qed.
Print Assumptions C05_flag_split.
Theorem C05_flag_monotone : forall g, valid_flag false g = true -> valid_flag true g = true.
Proof. exact valid_flag_monotone. Qed.
Print Assumptions C05_flag_monotone.
Theorem C05_flag_only_rule6 : forall g, valid_flag true g = true -> valid_flag false g = false ->
  rule_set false RRingSelfIntersection g <> [].
Proof. exact flag_only_rule6. Qed.
Print Assumptions C05_flag_only_rule6.

(* ---- consistency with simplicity ---- *)
Theorem C05_valid_polygon_rings_simple : forall s hs, s <> [] -> valid_geom (GPoly s hs) = true ->
  forall r, In r (s :: hs) -> simple_geom (GRing r) = true.
Proof. exact valid_polygon_rings_simple. Qed.
Print Assumptions C05_valid_polygon_rings_simple.

(* ---- every reported location lies on the geometry ---- *)
Theorem C05_violation_on_geometry : forall flag ru g q, In q (rule_set flag ru g) -> loc_h g q <> Exterior.
Proof. exact violation_on_geometry. Qed.
Print Assumptions C05_violation_on_geometry.

Theorem C05_nonsimple_on_geometry : forall g q, In q (nonsimple_pts g) -> loc_h g q <> Exterior.
Proof. exact nonsimple_on_geometry. Qed.
Print Assumptions C05_nonsimple_on_geometry.

(* ---- the point set of a geometry moves with the geometry (all four boundary-node rules) ---- *)
Theorem C05_loc_translate : forall d rule g p, loc_dim rule (map_geom (translate d) g) (translate d p) = loc_dim rule g p.
Proof. exact loc_dim_translate. Qed.
Print Assumptions C05_loc_translate.
Theorem C05_loc_reflect_x : forall rule g p, loc_dim rule (map_geom reflect_x g) (reflect_x p) = loc_dim rule g p.
Proof. exact loc_dim_reflect_x. Qed.
Print Assumptions C05_loc_reflect_x.
Theorem C05_loc_reflect_y : forall rule g p, loc_dim rule (map_geom reflect_y g) (reflect_y p) = loc_dim rule g p.
Proof. exact loc_dim_reflect_y. Qed.
Print Assumptions C05_loc_reflect_y.
Theorem C05_loc_swap_xy : forall rule g p, loc_dim rule (map_geom swap_xy g) (swap_xy p) = loc_dim rule g p.
Proof. exact loc_dim_swap_xy. Qed.
Print Assumptions C05_loc_swap_xy.

(* ---- point location: the primitive under the symmetries ---- *)
Theorem C05_in_ring_translate : forall d p r, in_ring (translate d p) (map (translate d) r) = in_ring p r.
Proof. exact in_ring_translate. Qed.
Print Assumptions C05_in_ring_translate.
Theorem C05_in_ring_swap_xy : forall p r, in_ring (swap_xy p) (map swap_xy r) = in_ring p r.
Proof. exact in_ring_swap. Qed.
Print Assumptions C05_in_ring_swap_xy.

(* FULL STATEMENT (not proved): for a closed ring r of g, replacing r by rotate_ring k r or by reverse_ring r changes neither
   valid_flag flag g nor simple_geom g.  MISSING: the segment pairs of the rotated / reversed ring are the same unordered pairs
   with the same cyclic adjacency, and seg_int is symmetric in its two segments and in the direction of each - an index
   argument over `pairs (index_from 0 (segs r))` that is not done.  PROVED: the part that goes through point location (rules
   2, 3, 7 and `loc`): in_ring does not depend on the start vertex or the direction of the ring.  The full statement is executed
   on the specification and on the library for every derived case of the correspondence. *)
Theorem C05_ring_rotation_partial : forall k p r, closed r = true -> in_ring p (rotate_ring k r) = in_ring p r.
Proof. exact in_ring_rotate. Qed.
Print Assumptions C05_ring_rotation_partial.
Theorem C05_ring_reversal_partial : forall p r, in_ring p (reverse_ring r) = in_ring p r.
Proof. exact in_ring_reverse. Qed.
Print Assumptions C05_ring_reversal_partial.

(* FULL STATEMENT (not proved): valid_geom (GPoly s hs) = true -> forall r in s :: hs, r <> [] -> area2 r <> 0.
   MISSING: that a simple closed polygon has non-zero signed area (a Jordan-curve type argument).  PROVED: twice the signed area
   is multiplied by the sign of the map under translation / reflection / axis swap, so "non-zero area" and the side on which
   rule 4 places the interior are well defined; the full statement is checked on every valid polygon of the correspondence. *)
Theorem C05_ring_area_partial : forall T Th sg, sim T Th sg -> forall r, area2 (map T r) = sg * area2 r.
Proof. exact area2_map. Qed.
Print Assumptions C05_ring_area_partial.

(* ---- non-vacuity ---- *)
Example ex_rotate : rotate_ring 2 [(0, 0); (4, 0); (4, 4); (0, 4); (0, 0)] = [(4, 4); (0, 4); (0, 0); (4, 0); (4, 4)]
  /\ in_ring (1, 1) [(0, 0); (4, 0); (4, 4); (0, 4); (0, 0)] = Interior /\ in_ring (4, 2) [(0, 0); (4, 0); (4, 4); (0, 4); (0, 0)] = Boundary
  /\ in_ring (5, 2) [(0, 0); (4, 0); (4, 4); (0, 4); (0, 0)] = Exterior.
Proof. vm_compute. auto. Qed.
Definition sq (x0 y0 x1 y1 : Z) : seq := [(x0, y0); (x1, y0); (x1, y1); (x0, y1); (x0, y0)].
(* a valid polygon with two holes touching the shell at the same vertex; valid in every hole order *)
Definition ex_two_holes : geom := GPoly (sq 0 0 24 24) [[(0, 0); (6, 1); (6, 2); (0, 0)]; [(0, 0); (2, 6); (1, 6); (0, 0)]].
Example ex_two_holes_valid : valid_geom ex_two_holes = true /\ simple_geom ex_two_holes = true.
Proof. vm_compute. auto. Qed.
(* a hole chain from edge to edge disconnects the interior: rule 4 at the four touch points *)
Definition ex_chain : geom := GPoly (sq 0 0 8 8) [[(0, 4); (2, 2); (4, 4); (2, 6); (0, 4)]; [(4, 4); (6, 2); (8, 4); (6, 6); (4, 4)]].
Example ex_chain_invalid : valid_geom ex_chain = false /\ valid_flag true ex_chain = false.
Proof. vm_compute. auto. Qed.
Example ex_chain_on_geometry : forall q, In q (rule_set false RDisconnectedInterior ex_chain) -> loc_h ex_chain q = Boundary.
Proof. intros q H. vm_compute in H. repeat (destruct H as [<- | H]; [vm_compute; reflexivity|]). destruct H. Qed.
Example ex_chain_rule_nonempty : rule_set false RDisconnectedInterior ex_chain <> [].
Proof. vm_compute. discriminate. Qed.
(* a bow-tie: rule 5 at the exact rational crossing point (5,5) = (1000/200, 1000/200) *)
Definition ex_bowtie : geom := GPoly [(0, 0); (10, 10); (10, 0); (0, 10); (0, 0)] [].
Example ex_bowtie_detail : valid_detail false ex_bowtie = Some (RSelfIntersection, [(1000, 1000, 200)]).
Proof. vm_compute. reflexivity. Qed.
(* an inverted shell (the ring touches itself and encloses a hole): invalid under OGC by rule 6 only, valid with the flag;
   the same ring with the inner loop on the interior side (a figure 8) is invalid under both *)
Definition ex_inverted : geom := GPoly [(0, 0); (20, 0); (20, 20); (0, 20); (0, 10); (5, 15); (10, 10); (5, 5); (0, 10); (0, 0)] [].
Example ex_inverted_flag : valid_flag false ex_inverted = false /\ valid_flag true ex_inverted = true
                           /\ rule_set false RRingSelfIntersection ex_inverted <> [].
Proof. vm_compute. repeat split; discriminate. Qed.
Definition ex_eight : geom := GPoly [(0, 0); (4, 0); (4, 4); (8, 4); (8, 8); (4, 8); (4, 4); (0, 4); (0, 0)] [].
Example ex_eight_flag : valid_flag true ex_eight = false /\ rule_set true RDisconnectedInterior ex_eight = [(4, 4, 1)].
Proof. vm_compute. auto. Qed.
(* rules 2, 3, 7, 9, 11 *)
Example ex_rules :
  valid_detail false (GPoly (sq 0 0 10 10) [sq 12 2 14 4]) = Some (RHoleOutsideShell, map hp (sq 12 2 14 4))
  /\ rule_set false RNestedHoles (GPoly (sq 0 0 20 20) [sq 2 2 12 12; sq 4 4 6 6]) = map hp (sq 4 4 6 6)
  /\ rule_set false RNestedShells (GMPoly [(sq 0 0 6 6, []); (sq 2 2 4 4, [])]) = map hp (sq 2 2 4 4)
  /\ valid_detail false (GPoly [(0, 0); (10, 0); (0, 0)] []) = Some (RTooFewPoints, [(0, 0, 1)])
  /\ valid_detail false (GRing [(0, 0); (5, 0); (5, 5); (0, 5)]) = Some (RRingNotClosed, [(0, 0, 1)])
  /\ valid_geom (GLine [(1, 1); (1, 1)]) = false
  /\ valid_geom (GMPoly [(sq 0 0 12 12, [sq 2 2 10 10]); (sq 4 4 8 8, [])]) = true.
Proof. vm_compute. repeat split; reflexivity. Qed.
(* simplicity: closure at the end points is allowed, an end point on the interior is not; lines may share end points *)
Example ex_simple :
  simple_geom (GLine (sq 0 0 4 4)) = true /\ is_ring (GLine (sq 0 0 4 4)) = true
  /\ simple_geom (GLine [(0, 0); (8, 0); (8, 4); (4, 4); (4, 0)]) = false
  /\ simple_geom (GMLine [[(0, 0); (4, 4)]; [(4, 4); (8, 0)]; [(4, 4); (4, 9)]]) = true
  /\ simple_geom (GMLine [sq 0 0 4 4; [(0, 0); (-3, -3)]]) = false
  /\ nonsimple_pts (GLine [(0, 0); (4, 4); (4, 0); (0, 4)]) = [(64, 64, 32)].
Proof. vm_compute. repeat split; reflexivity. Qed.
(* invariance, instantiated: the bow-tie's crossing point moves with the geometry *)
Example ex_bowtie_translated :
  rule_set false RSelfIntersection (map_geom (translate (7, -3)) ex_bowtie) = map (translate_h (7, -3)) (rule_set false RSelfIntersection ex_bowtie).
Proof. vm_compute. reflexivity. Qed.

(* ---- the leaf decision functions of src/operation/valid, GENERATED from /repo on every run (translator/units/C05.py) ---- *)
From GeosV.Lib Require KernelDefs.
From GeosV.C05 Require PreludePIA PreludeIVO PIA IVO.
From GeosV.Gen Require V_isAdjacentInRing V_findInvalidIntersection V_checkRingClosed V_checkRingPointSize V_isValidLine V_isValidRing.

(* PolygonIntersectionAnalyzer::isAdjacentInRing = the adjacency of ValidDefs.self_events (consecutive, or first and last segment) *)
Theorem C05_gen_isAdjacentInRing : forall ss (m i j : nat), (i < j)%nat -> (j < m)%nat -> PreludePIA.m_size_0 ss = Z.of_nat (S m) ->
  V_isAdjacentInRing.g_isAdjacentInRing ss (Z.of_nat i) (Z.of_nat j) = adjacent m i j.
Proof. exact PIA.gen_isAdjacent_valid. Qed.
Print Assumptions C05_gen_isAdjacentInRing.
(* findInvalidIntersection returns the code PIA.pair_code assigns to the exact kernel classification of the two segments:
   none -> no error; proper or collinear -> SELF_INTERSECTION; a touch at a vertex -> no error for adjacent segments of one ring,
   RING_SELF_INTERSECTION for non-adjacent segments of one ring (OGC mode), else SELF_INTERSECTION iff isCrossing at the node *)
Theorem C05_gen_findInvalidIntersection : forall isCrossing addSelfTouch addDoubleTouch st ss0 i ss1 j,
  let p00 := PreludePIA.m_getCoordinate_1 ss0 i in let p01 := PreludePIA.m_getCoordinate_1 ss0 (i + 1) in
  let p10 := PreludePIA.m_getCoordinate_1 ss1 j in let p11 := PreludePIA.m_getCoordinate_1 ss1 (j + 1) in
  snd (V_findInvalidIntersection.g_findInvalidIntersection isCrossing addSelfTouch addDoubleTouch st ss0 i ss1 j)
  = PIA.pair_code isCrossing (PreludePIA.f_isInvertedRingValid st) (PreludePIA.ss_id ss0 =? PreludePIA.ss_id ss1)
      (PIA.adjacent_z (PreludePIA.m_size_0 ss0) i j) (KernelDefs.seg_class p00 p01 p10 p11) p00 p01 p10 p11 (PIA.prev_pt ss0 i) (PIA.prev_pt ss1 j).
Proof. exact PIA.gen_find_code. Qed.
Print Assumptions C05_gen_findInvalidIntersection.
(* the error codes are the enumerators of TopologyValidationError the rules are numbered by *)
Theorem C05_gen_codes : PIA.NO_ERROR = -1 /\ PIA.SELF_INTERSECTION = rule_code RSelfIntersection /\ PIA.RING_SELF_INTERSECTION = rule_code RRingSelfIntersection
  /\ V_checkRingClosed.E_errorEnum_eRingNotClosed = rule_code RRingNotClosed /\ V_checkTooFewPoints.E_errorEnum_eTooFewPoints = rule_code RTooFewPoints.
Proof. exact PIA.gen_codes. Qed.
Print Assumptions C05_gen_codes.
Theorem C05_gen_checkRingClosed : forall r, IVO.logged (V_checkRingClosed.g_checkRingClosed None r) = IVO.expect RRingNotClosed (not_closed_set r).
Proof. exact IVO.gen_checkRingClosed_rule. Qed.
Print Assumptions C05_gen_checkRingClosed.
Theorem C05_gen_checkRingPointSize : forall r, IVO.logged (V_checkRingPointSize.g_checkRingPointSize None r) = IVO.expect RTooFewPoints (too_few_set 4 r).
Proof. exact IVO.gen_checkRingPointSize_rule. Qed.
Print Assumptions C05_gen_checkRingPointSize.
Theorem C05_gen_isValidLine : forall l, l <> [] ->
  IVO.logged (fst (V_isValidLine.g_isValidLine None l)) = IVO.expect RTooFewPoints (too_few_set 2 l)
  /\ snd (V_isValidLine.g_isValidLine None l) = isnil (too_few_set 2 l).
Proof. exact IVO.gen_isValidLine_rule. Qed.
Print Assumptions C05_gen_isValidLine.
Example C05_gen_isValidLine_nv : snd (V_isValidLine.g_isValidLine None [(0, 0); (0, 0)]) = false /\ snd (V_isValidLine.g_isValidLine None [(0, 0); (1, 0)]) = true.
Proof. split; reflexivity. Qed.
Theorem C05_gen_isValidRing : forall checkRingSimple r,
  snd (V_isValidRing.g_isValidRing checkRingSimple None r)
  = isnil (not_closed_set r) && isnil (too_few_set 4 r) && negb (PreludeIVO.m_hasInvalidError_0 (checkRingSimple None r))
  /\ (not_closed_set r <> [] -> IVO.logged (fst (V_isValidRing.g_isValidRing checkRingSimple None r)) = Some (rule_code RRingNotClosed, not_closed_set r))
  /\ (not_closed_set r = [] -> too_few_set 4 r <> [] ->
      IVO.logged (fst (V_isValidRing.g_isValidRing checkRingSimple None r)) = Some (rule_code RTooFewPoints, too_few_set 4 r)).
Proof. exact IVO.gen_isValidRing_rule. Qed.
Print Assumptions C05_gen_isValidRing.
Example C05_gen_isAdjacentInRing_nv : V_isAdjacentInRing.g_isAdjacentInRing (PreludePIA.mkSS 0 [(0,0);(4,0);(4,4);(0,4);(0,0)]) 0 3 = true
  /\ V_isAdjacentInRing.g_isAdjacentInRing (PreludePIA.mkSS 0 [(0,0);(4,0);(4,4);(0,4);(0,0)]) 0 2 = false.
Proof. split; reflexivity. Qed.

(* the specification's segment/segment classification names the same case as the kernel's (= the generated LineIntersector) *)
From GeosV.C05 Require PIABridge.
Theorem C05_seg_int_is_seg_class : forall a b c d, a <> b -> c <> d -> PIABridge.same_case (KernelDefs.seg_class a b c d) (seg_int a b c d).
Proof. exact PIABridge.seg_int_same_case. Qed.
Print Assumptions C05_seg_int_is_seg_class.
(* OGC mode, two segments i < j of one ring with m non-degenerate segments: the generated findInvalidIntersection returns
   "no error" iff the specification has no event for the pair (disjoint, or adjacent segments sharing only their vertex),
   SELF_INTERSECTION iff the pair contributes to bad_pts (proper crossing / collinear overlap: rules 5 and 6),
   RING_SELF_INTERSECTION iff it contributes a touch point (non-adjacent segments meeting at a vertex: rule 6) *)
Theorem C05_gen_find_ring_pair : forall isCrossing addSelfTouch addDoubleTouch st ss (m i j : nat),
  PreludePIA.f_isInvertedRingValid st = false -> (i < j)%nat -> (j < m)%nat -> PreludePIA.m_size_0 ss = Z.of_nat (S m) ->
  let s := (PreludePIA.m_getCoordinate_1 ss (Z.of_nat i), PreludePIA.m_getCoordinate_1 ss (Z.of_nat i + 1)) in
  let t := (PreludePIA.m_getCoordinate_1 ss (Z.of_nat j), PreludePIA.m_getCoordinate_1 ss (Z.of_nat j + 1)) in
  fst s <> snd s -> fst t <> snd t ->
  let ev := seg_events (adjacent m i j) s t in
  let code := snd (PIA.gen_find isCrossing addSelfTouch addDoubleTouch st ss (Z.of_nat i) ss (Z.of_nat j)) in
  (code = PIA.NO_ERROR <-> ev = []) /\ (code = PIA.SELF_INTERSECTION <-> bad_pts ev <> []) /\ (code = PIA.RING_SELF_INTERSECTION <-> touch_pts ev <> []).
Proof. exact PIABridge.gen_find_ring_pair. Qed.
Print Assumptions C05_gen_find_ring_pair.
(* non-vacuity: first and last segment of a square (adjacent by wrap-around: no error); a bow-tie's crossing pair (5); a ring touching itself at a vertex (6) *)
Example C05_gen_find_ring_pair_nv :
  let run r i j := snd (PIA.gen_find (fun _ _ _ _ _ => false) (fun st _ _ _ _ _ _ => st) (fun _ _ _ _ => false)
                          (PreludePIA.mkPia KernelDefs.SegNone false false (0, 0)) (PreludePIA.mkSS 0 r) i (PreludePIA.mkSS 0 r) j) in
  run [(0,0);(4,0);(4,4);(0,4);(0,0)] 0 3 = -1 /\ run [(0,0);(4,0);(4,4);(0,4);(0,0)] 0 2 = -1
  /\ run [(0,0);(4,4);(4,0);(0,4);(0,0)] 0 2 = 5 /\ run [(0,0);(4,0);(4,4);(2,0);(0,4);(0,0)] 0 2 = 6 /\ run [(0,0);(4,0);(2,0);(2,4);(0,0)] 0 1 = 5.
Proof. vm_compute. repeat split; reflexivity. Qed.

(* from the pair to the ring: rule 6's violation set of a ring (no zero-length segment) is non-empty exactly when the generated
   findInvalidIntersection (OGC mode) flags one of the segment pairs the specification enumerates *)
From GeosV.C05 Require PIALift.
Theorem C05_gen_ring_self_rule : forall isCrossing addSelfTouch addDoubleTouch st id (r : list KernelDefs.pt),
  PreludePIA.f_isInvertedRingValid st = false -> (forall s, In s (segs r) -> fst s <> snd s) ->
  let ss := PreludePIA.mkSS id r in
  (ring_self_set r <> [] <->
   exists pq, In pq (pairs (index_from 0 (segs r))) /\
              snd (PIA.gen_find isCrossing addSelfTouch addDoubleTouch st ss (Z.of_nat (fst (fst pq))) ss (Z.of_nat (fst (snd pq)))) <> PIA.NO_ERROR).
Proof. exact PIALift.gen_ring_self_rule. Qed.
Print Assumptions C05_gen_ring_self_rule.
Example C05_gen_ring_self_rule_nv : ring_self_set [(0,0);(4,0);(4,4);(2,0);(0,4);(0,0)] <> [] /\ ring_self_set [(0,0);(4,0);(4,4);(0,4);(0,0)] = []
  /\ forall s, In s (segs [(0,0);(4,0);(4,4);(2,0);(0,4);(0,0)]) -> fst s <> snd s.
Proof. split; [vm_compute; discriminate|]. split; [vm_compute; reflexivity|]. cbn. intros s [<-|[<-|[<-|[<-|[<-|[]]]]]]; cbn; congruence. Qed.
