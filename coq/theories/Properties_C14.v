(* C14 — property theorems only. Each is closed by `exact <lemma>` and followed by Print Assumptions. *)
From Coq Require Import Bool List String ZArith.
From GeosV.C14 Require Import IntrDefs IntrProofs CatchDefs CatchProofs IntrGen InventoryProofs GenPreludeIntr.
From GeosV.Gen Require Import C14_Inventory Intr_request Intr_cancel Intr_check Intr_registerCallback Intr_interrupt Intr_process.
Import ListNotations.

(* whenever anything run by an operation throws the interrupt exception, the request flag is clear afterwards *)
Theorem C14_interrupt_clears : forall p st st', exec p st = Raised st' -> g_requested st' = false.
Proof. exact exec_raised_clears. Qed.
Print Assumptions C14_interrupt_clears.

(* nothing pending and a callback that never requests: every operation (any polls, any catch clauses) completes with its result,
   flag and callback unchanged, the callback was invoked once per poll; with no callback the state is untouched *)
Theorem C14_no_request_no_throw : forall (R : Type) (result : R) (p : prog) (st : gst), quiet st ->
  exists st', api_call p result st = (Completed result, st') /\ g_requested st' = false /\ g_callback st' = g_callback st /\
              invocations st' = invocations st + cb_polls st (npolls p) /\ (g_callback st = None -> st' = st).
Proof. exact no_request_no_throw. Qed.
Print Assumptions C14_no_request_no_throw.

(* for every operation with N polls none of whose enclosing catch clauses swallows, and EVERY k in 1..N: a callback requesting at
   its k-th invocation makes the call return the error value after exactly k polls with the flag clear; the same call again
   then completes with N polls and returns what a never-interrupted run returns *)
Theorem C14_interrupt_at_any_k : forall (R : Type) (result : R) (p : prog) (N k : nat),
  all_ok p = true -> npolls p = N -> 1 <= k <= N ->
  exists st1 st2,
    api_call p result (st_init false (Some (cb_at k))) = (ErrorValue, st1) /\ g_requested st1 = false /\ invocations st1 = k /\
    api_call p result (mkG (g_requested st1) (Some cb_count) []) = (Completed result, st2) /\ g_requested st2 = false /\ invocations st2 = N /\
    fst (api_call p result (st_init false None)) = Completed result.
Proof. exact interrupt_at_any_k. Qed.
Print Assumptions C14_interrupt_at_any_k.

(* a request cancelled before the next poll has no effect *)
Theorem C14_cancel_before_poll : forall (R : Type) (result : R) (p : prog) (st : gst),
  match g_callback st with None => True | Some f => never_requests f end ->
  exists st', api_call p result (cancel (request st)) = (Completed result, st') /\ g_requested st' = false.
Proof. exact cancel_before_poll. Qed.
Print Assumptions C14_cancel_before_poll.

(* a request pending when the call starts aborts it at its first poll *)
Theorem C14_request_before_call : forall (R : Type) (result : R) (p : prog) (st : gst),
  all_ok p = true -> 1 <= npolls p -> g_requested st = true ->
  match g_callback st with None => True | Some f => never_cancels f end ->
  exists st', api_call p result st = (ErrorValue, st') /\ g_requested st' = false /\ invocations st' = invocations st + cb_polls st 1.
Proof. exact request_before_call. Qed.
Print Assumptions C14_request_before_call.

(* catch clauses that do not swallow are transparent: the program behaves as the flat sequence of its polls *)
Theorem C14_nonswallowing_clauses_transparent : forall p st, all_ok p = true -> exec p st = exec (polls (npolls p)) st.
Proof. exact exec_all_ok. Qed.
Print Assumptions C14_nonswallowing_clauses_transparent.

(* catch inventory (GENERATED from the source): every clause on a call path from a C API entry point to a checkpoint is the
   boundary itself, does not match the interrupt exception, is shadowed by an earlier matching clause, or rethrows --
   except the sites listed as known findings (exempt_keys, generated from known_findings.json) *)
Theorem C14_catch_inventory_ok : inventory_ok chain exempt_keys inventory = true.
Proof. exact inventory_accepted. Qed.
Print Assumptions C14_catch_inventory_ok.

(* ... therefore an exception raised at a poll under such an entry point reaches the C API boundary *)
Theorem C14_interrupt_reaches_boundary : forall e body st,
  forallb (fun c => negb (exempt exempt_keys c)) (clauses_of e inventory) = true ->
  exec (wrap (map (to_catch chain inventory) (clauses_of e inventory)) body) st = exec body st.
Proof. exact reaches_boundary_generated. Qed.
Print Assumptions C14_interrupt_reaches_boundary.

Theorem C14_inventory_wellformed :
  hd ""%string chain = "InterruptedException"%string /\ existsb (String.eqb "runtime_error") chain = true /\ existsb (String.eqb "exception") chain = true /\
  (10 <=? List.length sites)%nat = true /\ existsb k_boundary inventory = true /\
  existsb (fun e => e_interruptible e && String.eqb (e_errval e) "nullptr") entry_points = true /\
  existsb (fun e => e_interruptible e && String.eqb (e_errval e) "2") entry_points = true.
Proof. exact inventory_wellformed. Qed.
Print Assumptions C14_inventory_wellformed.

(* REFUTATION shape (finding F12): a clause that swallows, around the polls -- the interrupt at any k in 1..N is lost, the call
   completes normally after k + n2 polls (n2 = polls of the fallback path) *)
Theorem C14_interrupt_swallowed_refuted : forall (R : Type) (result : R) (c : catch) (N n2 k : nat),
  swallows c = true -> 1 <= k <= N ->
  exists st', api_call (Seq (Try (polls N) c) (polls n2)) result (st_init false (Some (cb_at k))) = (Completed result, st') /\
              g_requested st' = false /\ invocations st' = k + n2.
Proof. exact interrupt_swallowed. Qed.
Print Assumptions C14_interrupt_swallowed_refuted.

(* a clause rejected by the inventory test IS such a clause *)
Theorem C14_rejected_clause_swallows : forall chain inv c,
  catch_ok chain inv c = false -> swallows (to_catch chain inv c) = true /\ on_path c = true /\ k_boundary c = false.
Proof. exact not_ok_swallows. Qed.
Print Assumptions C14_rejected_clause_swallows.

(* what the extracted driver prints are these theorems *)
Theorem C14_predict_at : forall N k, 1 <= k <= N -> predict_at N k false 0 = (true, false, k, false, false, N).
Proof. exact predict_at_ok. Qed.
Print Assumptions C14_predict_at.
Theorem C14_predict_at_swallowed : forall N k n2, 1 <= k <= N -> predict_at N k true n2 = (false, false, k + n2, false, false, N).
Proof. exact predict_at_swallowed. Qed.
Print Assumptions C14_predict_at_swallowed.

(* tie G: the functions generated from src/util/Interrupt.cpp are the model's *)
Theorem C14_gen_request : forall st, c_request_0 st = request st.
Proof. exact gen_request_eq. Qed.
Theorem C14_gen_cancel : forall st, c_cancel_0 st = cancel st.
Proof. exact gen_cancel_eq. Qed.
Theorem C14_gen_check : forall st, c_check_0 st = check st.
Proof. exact gen_check_eq. Qed.
Theorem C14_gen_registerCallback : forall st cb, c_registerCallback_1 st cb = registerCallback st cb.
Proof. exact gen_registerCallback_eq. Qed.
Theorem C14_gen_interrupt : forall st, c_interrupt_0 st = interrupt st.
Proof. exact gen_interrupt_eq. Qed.
Theorem C14_gen_process : forall st, c_process_0 st = process st.
Proof. exact gen_process_eq. Qed.
Print Assumptions C14_gen_process.

(* non-vacuity *)
Example ex_abort_at_3_of_5 : api_call (polls 5) tt (st_init false (Some (cb_at 3))) =
  (ErrorValue, mkG false (Some (cb_at 3)) [false; false; false]).
Proof. vm_compute. reflexivity. Qed.
Example ex_never_interrupted : fst (api_call (polls 5) tt (st_init false (Some cb_count))) = Completed tt.
Proof. vm_compute. reflexivity. Qed.
Example ex_try_rethrow_transparent : raised (exec (Try (polls 5) (mkC true true)) (st_init false (Some (cb_at 3)))) = true.
Proof. vm_compute. reflexivity. Qed.
Example ex_overlayngrobust_swallows : (* catch (const std::runtime_error&) without rethrow around 5 polls, 5 more on the fallback *)
  fst (api_call (Seq (Try (polls 5) (mkC true false)) (polls 5)) tt (st_init false (Some (cb_at 3)))) = Completed tt.
Proof. vm_compute. reflexivity. Qed.
Example ex_quiet : quiet (st_init false (Some cb_count)).
Proof. split; [reflexivity|exact cb_count_never_requests]. Qed.
Example ex_pending_no_polls_stays_pending : api_call (polls 0) tt (st_init true None) = (Completed tt, st_init true None).
Proof. vm_compute. reflexivity. Qed.
Example ex_inventory_has_inner_clause_on_path : existsb (fun c => negb (k_boundary c) && on_path c) inventory = true.
Proof. vm_compute. reflexivity. Qed.
