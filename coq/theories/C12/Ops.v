(* C12 — the modelled entry points of the C API: what each does to its object arguments and what it returns
   (read from capi/geos_c.h.in).  Their error values and return types are NOT written here: they are read from the source
   on every run (Gen/C12_api_table.v) and compared with the classes below (theorem ops_consistent in Properties_C12.v).
   Numeric parameter classes: 0 double, 1 int, 2 unsigned (index / size / count), 3 literal geometry (WKT table of the
   harness), 4 DE-9IM pattern, 5 geometry type code, 6 SRID, 7 size (small: it is a legitimate request for that
   much memory), 8 dimension count, 9 interrupt callback (table of the harness). *)
From Coq Require Import ZArith List Bool String.
From GeosV.C12 Require Import PoolDefs.
Import ListNotations.
Local Open Scope string_scope.

Definition G := AC KG.   Definition d := AN 0.   Definition i := AN 1.   Definition u := AN 2.
Definition fresh := RF KG [].
(* const geometry (and parameters) -> fresh geometry carrying the first argument's SRID *)
Definition cons (n : string) (a : list aspec) : opsig := mkOp n a fresh RCptr true.
Definition pred (n : string) (a : list aspec) : opsig := mkOp n a RV RCpred false.
Definition stat (n : string) (a : list aspec) : opsig := mkOp n a RV RCstatus false.
Definition cnt (n : string) (a : list aspec) : opsig := mkOp n a RV RCcount false.

Definition ops : list opsig := [
  (* 0: the literal constructor *)
  mkOp "GEOSGeomFromWKT_r" [AN 3] fresh RCptr false;
  (* lifetime *)
  mkOp "GEOSGeom_destroy_r" [AD KG] RNone RCvoid false;
  cons "GEOSGeom_clone_r" [G];
  (* unary constructive *)
  cons "GEOSEnvelope_r" [G]; cons "GEOSConvexHull_r" [G]; cons "GEOSMinimumRotatedRectangle_r" [G]; cons "GEOSMinimumWidth_r" [G];
  cons "GEOSMinimumClearanceLine_r" [G]; cons "GEOSBoundary_r" [G]; cons "GEOSUnaryUnion_r" [G]; cons "GEOSDisjointSubsetUnion_r" [G];
  cons "GEOSPointOnSurface_r" [G]; cons "GEOSGetCentroid_r" [G]; cons "GEOSNode_r" [G]; cons "GEOSBuildArea_r" [G];
  cons "GEOSLineMerge_r" [G]; cons "GEOSLineMergeDirected_r" [G]; cons "GEOSReverse_r" [G]; cons "GEOSGeom_extractUniquePoints_r" [G];
  cons "GEOSMakeValid_r" [G]; cons "GEOSCoverageUnion_r" [G]; cons "GEOSConstrainedDelaunayTriangulation_r" [G];
  cons "GEOSGeomGetStartPoint_r" [G]; cons "GEOSGeomGetEndPoint_r" [G];
  (* constructive with parameters *)
  cons "GEOSDensify_r" [G; d]; cons "GEOSMaximumInscribedCircle_r" [G; d]; cons "GEOSUnaryUnionPrec_r" [G; d]; cons "GEOSSimplify_r" [G; d];
  cons "GEOSTopologyPreserveSimplify_r" [G; d]; cons "GEOSRemoveRepeatedPoints_r" [G; d];
  cons "GEOSInterpolate_r" [G; d]; cons "GEOSInterpolateNormalized_r" [G; d];
  cons "GEOSBuffer_r" [G; d; i]; cons "GEOSDelaunayTriangulation_r" [G; d; i]; cons "GEOSGeom_setPrecision_r" [G; d; i];
  cons "GEOSConcaveHull_r" [G; d; u]; cons "GEOSConcaveHullByLength_r" [G; d; u];
  cons "GEOSOffsetCurve_r" [G; d; i; i; d]; cons "GEOSBufferWithStyle_r" [G; d; i; i; i; d];
  cons "GEOSLineSubstring_r" [G; d; d]; cons "GEOSClipByRect_r" [G; d; d; d; d]; cons "GEOSPolygonHullSimplify_r" [G; u; d];
  cons "GEOSGeomGetPointN_r" [G; i];
  (* binary constructive *)
  cons "GEOSIntersection_r" [G; G]; cons "GEOSDifference_r" [G; G]; cons "GEOSSymDifference_r" [G; G]; cons "GEOSUnion_r" [G; G];
  cons "GEOSSharedPaths_r" [G; G];
  cons "GEOSIntersectionPrec_r" [G; G; d]; cons "GEOSDifferencePrec_r" [G; G; d]; cons "GEOSSymDifferencePrec_r" [G; G; d];
  cons "GEOSUnionPrec_r" [G; G; d]; cons "GEOSSnap_r" [G; G; d]; cons "GEOSLargestEmptyCircle_r" [G; G; d];
  cons "GEOSVoronoiDiagram_r" [G; G; d; i];
  (* predicates *)
  pred "GEOSisEmpty_r" [G]; pred "GEOSisSimple_r" [G]; pred "GEOSisRing_r" [G]; pred "GEOSHasZ_r" [G]; pred "GEOSHasM_r" [G];
  pred "GEOSisValid_r" [G]; pred "GEOSisClosed_r" [G];
  pred "GEOSDisjoint_r" [G; G]; pred "GEOSTouches_r" [G; G]; pred "GEOSIntersects_r" [G; G]; pred "GEOSCrosses_r" [G; G];
  pred "GEOSWithin_r" [G; G]; pred "GEOSContains_r" [G; G]; pred "GEOSOverlaps_r" [G; G]; pred "GEOSEquals_r" [G; G];
  pred "GEOSEqualsIdentical_r" [G; G]; pred "GEOSCovers_r" [G; G]; pred "GEOSCoveredBy_r" [G; G];
  pred "GEOSEqualsExact_r" [G; G; d]; pred "GEOSDistanceWithin_r" [G; G; d]; pred "GEOSRelatePattern_r" [G; G; AN 4]; pred "GEOSRelatePatternMatch_r" [AN 4; AN 4];
  (* measures: int status + value through an out-parameter *)
  stat "GEOSArea_r" [G]; stat "GEOSLength_r" [G]; stat "GEOSGeomGetLength_r" [G];
  stat "GEOSGeom_getXMin_r" [G]; stat "GEOSGeom_getYMin_r" [G]; stat "GEOSGeom_getXMax_r" [G]; stat "GEOSGeom_getYMax_r" [G];
  stat "GEOSGeomGetX_r" [G]; stat "GEOSGeomGetY_r" [G]; stat "GEOSGeomGetZ_r" [G]; stat "GEOSGeomGetM_r" [G];
  stat "GEOSDistance_r" [G; G]; stat "GEOSDistanceIndexed_r" [G; G]; stat "GEOSHausdorffDistance_r" [G; G]; stat "GEOSFrechetDistance_r" [G; G];
  stat "GEOSHausdorffDistanceDensify_r" [G; G; d]; stat "GEOSFrechetDistanceDensify_r" [G; G; d];
  mkOp "GEOSMinimumClearance_r" [G] RV RCother false;
  mkOp "GEOSProject_r" [G; G] RV RCdist false;
  (* the header does not state the error value of the next three: no claim about the return value *)
  mkOp "GEOSProjectNormalized_r" [G; G] RV RCother false; mkOp "GEOSGetNumGeometries_r" [G] RV RCother false;
  mkOp "GEOSPreparedDistanceWithin_r" [AC KP; G; d] RV RCother false;
  (* counts / codes *)
  cnt "GEOSGeomTypeId_r" [G]; cnt "GEOSGetNumInteriorRings_r" [G]; cnt "GEOSGeomGetNumPoints_r" [G];
  cnt "GEOSGetNumCoordinates_r" [G]; cnt "GEOSNormalize_r" [AM KG];
  mkOp "GEOSGetSRID_r" [G] RV RCother false; mkOp "GEOSGeom_getDimensions_r" [G] RV RCother false;
  mkOp "GEOSGeom_getCoordinateDimension_r" [G] RV RCother false;
  mkOp "GEOSSetSRID_r" [AM KG; AN 6] RNone RCvoid false;
  (* strings the caller frees *)
  mkOp "GEOSisValidReason_r" [G] RV RCptr false; mkOp "GEOSGeomType_r" [G] RV RCptr false; mkOp "GEOSGeomToWKT_r" [G] RV RCptr false;
  mkOp "GEOSRelate_r" [G; G] RV RCptr false;
  (* interior const pointers *)
  mkOp "GEOSGetGeometryN_r" [G; i] (RB KG 0) RCptr false; mkOp "GEOSGetInteriorRingN_r" [G; i] (RB KG 0) RCptr false;
  mkOp "GEOSGetExteriorRing_r" [G] (RB KG 0) RCptr false; mkOp "GEOSGeom_getCoordSeq_r" [G] (RB KS 0) RCptr false;
  (* constructors *)
  mkOp "GEOSGeom_createEmptyPoint_r" [] fresh RCptr false; mkOp "GEOSGeom_createEmptyLineString_r" [] fresh RCptr false;
  mkOp "GEOSGeom_createEmptyPolygon_r" [] fresh RCptr false; mkOp "GEOSGeom_createEmptyCollection_r" [AN 5] fresh RCptr false;
  mkOp "GEOSGeom_createPointFromXY_r" [d; d] fresh RCptr false; mkOp "GEOSGeom_createRectangle_r" [d; d; d; d] fresh RCptr false;
  (* constructors that take ownership of an ARRAY of geometries — also when they fail: every element, whatever its type and
     position, is consumed.  One row per array length, so that wrong-typed elements occur first, in the middle, last and several times *)
  mkOp "GEOSGeom_createCollection_r" [AN 5; AX KG] fresh RCptr false;
  mkOp "GEOSGeom_createCollection_r" [AN 5; AX KG; AX KG] fresh RCptr false;
  mkOp "GEOSGeom_createCollection_r" [AN 5; AX KG; AX KG; AX KG] fresh RCptr false;
  mkOp "GEOSGeom_createCollection_r" [AN 5; AX KG; AX KG; AX KG; AX KG] fresh RCptr false;
  mkOp "GEOSGeom_createPolygon_r" [AX KG] fresh RCptr false;
  mkOp "GEOSGeom_createPolygon_r" [AX KG; AX KG] fresh RCptr false;
  mkOp "GEOSGeom_createPolygon_r" [AX KG; AX KG; AX KG] fresh RCptr false;
  mkOp "GEOSGeom_createPolygon_r" [AX KG; AX KG; AX KG; AX KG] fresh RCptr false;
  mkOp "GEOSGeom_createCompoundCurve_r" [AX KG] fresh RCptr false;
  mkOp "GEOSGeom_createCompoundCurve_r" [AX KG; AX KG] fresh RCptr false;
  mkOp "GEOSGeom_createCompoundCurve_r" [AX KG; AX KG; AX KG] fresh RCptr false;
  mkOp "GEOSGeom_createCompoundCurve_r" [AX KG; AX KG; AX KG; AX KG] fresh RCptr false;
  mkOp "GEOSGeom_createCurvePolygon_r" [AX KG] fresh RCptr false;
  mkOp "GEOSGeom_createCurvePolygon_r" [AX KG; AX KG] fresh RCptr false;
  mkOp "GEOSGeom_createCurvePolygon_r" [AX KG; AX KG; AX KG] fresh RCptr false;
  mkOp "GEOSGeom_createCurvePolygon_r" [AX KG; AX KG; AX KG; AX KG] fresh RCptr false;
  (* the interrupt API (global state, see C12/Interrupt.v); numeric class 9 = which callback the harness registers:
     none / one that requests once / one that never requests / one that requests twice *)
  mkOp "GEOS_interruptRegisterCallback" [AN 9] RNone RCother false;
  mkOp "GEOS_interruptRequest" [] RNone RCvoid false;
  mkOp "GEOS_interruptCancel" [] RNone RCvoid false;
  (* coordinate sequences *)
  mkOp "GEOSCoordSeq_create_r" [AN 7; AN 8] (RF KS []) RCptr false; mkOp "GEOSCoordSeq_clone_r" [AC KS] (RF KS []) RCptr false;
  mkOp "GEOSCoordSeq_destroy_r" [AD KS] RNone RCvoid false;
  stat "GEOSCoordSeq_setX_r" [AM KS; u; d]; stat "GEOSCoordSeq_setY_r" [AM KS; u; d]; stat "GEOSCoordSeq_setZ_r" [AM KS; u; d];
  stat "GEOSCoordSeq_setXY_r" [AM KS; u; d; d]; stat "GEOSCoordSeq_setOrdinate_r" [AM KS; u; u; d];
  stat "GEOSCoordSeq_getX_r" [AC KS; u]; stat "GEOSCoordSeq_getY_r" [AC KS; u]; stat "GEOSCoordSeq_getZ_r" [AC KS; u];
  stat "GEOSCoordSeq_getOrdinate_r" [AC KS; u; u]; stat "GEOSCoordSeq_getSize_r" [AC KS]; stat "GEOSCoordSeq_getDimensions_r" [AC KS];
  mkOp "GEOSGeom_createPoint_r" [AX KS] fresh RCptr false; mkOp "GEOSGeom_createLineString_r" [AX KS] fresh RCptr false;
  mkOp "GEOSGeom_createLinearRing_r" [AX KS] fresh RCptr false; mkOp "GEOSGeom_createCircularString_r" [AX KS] fresh RCptr false;
  (* prepared geometries: the base geometry must outlive the prepared one *)
  mkOp "GEOSPrepare_r" [G] (RF KP [0%nat]) RCptr false; mkOp "GEOSPreparedGeom_destroy_r" [AD KP] RNone RCvoid false;
  pred "GEOSPreparedContains_r" [AC KP; G]; pred "GEOSPreparedContainsProperly_r" [AC KP; G]; pred "GEOSPreparedCoveredBy_r" [AC KP; G];
  pred "GEOSPreparedCovers_r" [AC KP; G]; pred "GEOSPreparedCrosses_r" [AC KP; G]; pred "GEOSPreparedDisjoint_r" [AC KP; G];
  pred "GEOSPreparedIntersects_r" [AC KP; G]; pred "GEOSPreparedOverlaps_r" [AC KP; G]; pred "GEOSPreparedTouches_r" [AC KP; G];
  pred "GEOSPreparedWithin_r" [AC KP; G]; pred "GEOSPreparedContainsXY_r" [AC KP; d; d]; pred "GEOSPreparedIntersectsXY_r" [AC KP; d; d];
  stat "GEOSPreparedDistance_r" [AC KP; G];
  mkOp "GEOSPreparedNearestPoints_r" [AC KP; G] (RF KS []) RCptr false;
  (* STRtree: inserted items must outlive the tree *)
  mkOp "GEOSSTRtree_create_r" [AN 7] (RF KT []) RCptr false; mkOp "GEOSSTRtree_destroy_r" [AD KT] RNone RCvoid false;
  mkOp "GEOSSTRtree_insert_r" [AM KT; AI] RNone RCvoid false; mkOp "GEOSSTRtree_query_r" [AM KT; G] RNone RCvoid false;
  mkOp "GEOSSTRtree_iterate_r" [AM KT] RNone RCvoid false; pred "GEOSSTRtree_remove_r" [AM KT; G; G];
  mkOp "GEOSSTRtree_nearest_r" [AM KT; G] RV RCother false;
  (* buffer parameters *)
  mkOp "GEOSBufferParams_create_r" [] (RF KB []) RCptr false; mkOp "GEOSBufferParams_destroy_r" [AD KB] RNone RCvoid false;
  stat "GEOSBufferParams_setEndCapStyle_r" [AM KB; i]; stat "GEOSBufferParams_setJoinStyle_r" [AM KB; i];
  stat "GEOSBufferParams_setQuadrantSegments_r" [AM KB; i]; stat "GEOSBufferParams_setSingleSided_r" [AM KB; i];
  stat "GEOSBufferParams_setMitreLimit_r" [AM KB; d];
  mkOp "GEOSBufferWithParams_r" [G; AC KB; d] fresh RCptr true
].
