(* C12 — shape of the generated API table (Gen/C12_api_table.v is written on every run by props/C12.py from
   capi/geos_ts_c.cpp and capi/geos_c.h.in) and the checks made on it. *)
From Coq Require Import ZArith List Bool String.
From GeosV.C12 Require Import PoolDefs.
Import ListNotations.
Local Open Scope Z_scope.

Inductive rtype := Tptr | Tchar | Tint | Tdouble | Tvoid | Tother.
(* how the entry point reports failure: the error value passed to execute(), the default overload (value-initialised
   result: NULL / 0), a wrapper around another entry point (resolved by the generator), or hand-written code *)
Inductive ekind := Eerrval | Edefault | Ecustom.
Record row := mkRow { r_name : string; r_ret : rtype; r_kind : ekind; r_err : Z; r_class : rclass }.

(* success range of a return class *)
Definition in_success (c : rclass) (v : Z) : bool :=
  match c with
  | RCpred => (v =? 0) || (v =? 1)
  | RCstatus => v =? 1
  | RCcount | RCdist => 0 <=? v
  | RCptr => negb (v =? 0)
  | RCvoid | RCother => false
  end.
Definition classified (r : row) : bool :=
  match r_class r, r_kind r with
  | (RCvoid | RCother), _ => false
  | _, Ecustom => false
  | _, _ => true
  end.
Definition row_ok (r : row) : bool := negb (in_success (r_class r) (r_err r)).

Definition rclass_eqb (a b : rclass) : bool :=
  match a, b with
  | RCpred, RCpred | RCstatus, RCstatus | RCcount, RCcount | RCptr, RCptr | RCdist, RCdist | RCvoid, RCvoid | RCother, RCother => true
  | _, _ => false
  end.
Definition find_row (t : list row) (n : string) : option row := find (fun r => String.eqb (r_name r) n) t.
(* a modelled entry point is consistent with the table when the table has it with the same return class
   (RCother in the model = no claim about the return value) *)
Definition op_consistent (t : list row) (o : opsig) : bool :=
  match find_row t (op_name o) with
  | Some r => rclass_eqb (op_class o) (r_class r) || rclass_eqb (op_class o) RCother
  | None => false
  end.
