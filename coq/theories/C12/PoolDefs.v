(* C12 — the ownership / lifetime rules of the C API as an object-pool state machine, the table of modelled entry points,
   and the program generator the harness runs.  Definitions only.

   Objects are handles (indices into the pool) of a kind: geometry, prepared geometry, STRtree, coordinate sequence, buffer
   parameters.  An entry point is described by what it does to each object argument
       AC k  reads a const object            AM k  mutates an object it does not own
       AX k  takes ownership (consumes)      AD k  destroys                          AI  registers a geometry as STRtree item
       AN c  a plain numeric / string parameter of class c (any value is legal)
   and by its result
       RF k deps  a fresh object the caller owns; it must not outlive the arguments at positions deps
       RB k par   an interior const pointer into the argument at position par (dies with it, must not be freed)
       RV / RNone a plain value / nothing.
   `legal` is the documented contract (geos_c.h): live objects of the right kind, no mutation / consumption / destruction
   of an interior pointer, nothing consumed or destroyed while another live object depends on it, nothing consumed twice
   in one call.  `apply` is the effect.  The generator `gen` only ever emits calls that pass `legal` (theorem gen_legal). *)
From Coq Require Import ZArith List Bool String.
Import ListNotations.
Local Open Scope Z_scope.

Inductive kind := KG | KP | KT | KS | KB.
Definition kind_eqb (a b : kind) : bool :=
  match a, b with KG, KG | KP, KP | KT, KT | KS, KS | KB, KB => true | _, _ => false end.

Inductive aspec := AC (k : kind) | AM (k : kind) | AX (k : kind) | AD (k : kind) | AI | AN (c : nat).
Inductive rspec := RNone | RV | RF (k : kind) (deps : list nat) | RB (k : kind) (par : nat).

(* return classes of the C API and their success ranges (error values are read from the source: Gen/C12_api_table.v) *)
Inductive rclass := RCpred | RCstatus | RCcount | RCptr | RCdist | RCvoid | RCother.

Record opsig := mkOp { op_name : string; op_args : list aspec; op_res : rspec; op_class : rclass; op_constructive : bool }.

Record obj := mkObj { okind : kind; olive : bool; odeps : list nat; oown : option nat }.
Definition pool := list obj.
Record call := mkCall { cop : nat; cargs : list nat; cnums : list nat }.

(* ---- pool queries ---- *)
Definition get (p : pool) (h : nat) : option obj := nth_error p h.
Definition flag (p : pool) (h : nat) : bool := match get p h with Some o => olive o | None => false end.
(* an interior pointer is usable while its owner is: liveness follows the owner chain (owners are created first) *)
Fixpoint live_fuel (f : nat) (p : pool) (h : nat) : bool :=
  match f with
  | O => false
  | S f' => match get p h with
            | Some o => olive o && match oown o with None => true | Some q => live_fuel f' p q end
            | None => false
            end
  end.
Definition live (p : pool) (h : nat) : bool := live_fuel (S h) p h.
Definition owned (p : pool) (h : nat) : bool := match get p h with Some o => match oown o with None => true | Some _ => false end | None => false end.
Definition has_kind (p : pool) (h : nat) (k : kind) : bool := match get p h with Some o => kind_eqb (okind o) k | None => false end.
Definition mem (h : nat) (l : list nat) : bool := existsb (Nat.eqb h) l.
(* some live object must not outlive h *)
Definition has_dependent (p : pool) (h : nat) : bool := existsb (fun o => olive o && mem h (odeps o)) p.

(* object arguments of a call paired with their specs (numeric parameters are not in cargs) *)
Fixpoint pair_args (sp : list aspec) (hs : list nat) : option (list (aspec * nat)) :=
  match sp with
  | [] => match hs with [] => Some [] | _ => None end
  | AN _ :: sp' => pair_args sp' hs
  | a :: sp' => match hs with h :: hs' => option_map (cons (a, h)) (pair_args sp' hs') | [] => None end
  end.

Definition exclusive (a : aspec) : bool := match a with AM _ | AX _ | AD _ | AI => true | _ => false end.
Definition arg_ok (p : pool) (ah : aspec * nat) : bool :=
  let (a, h) := ah in
  live p h &&
  match a with
  | AC k => has_kind p h k
  | AM k => has_kind p h k && owned p h
  | AX k | AD k => has_kind p h k && owned p h && negb (has_dependent p h)
  | AI => has_kind p h KG && owned p h
  | AN _ => false
  end.
(* a handle that is mutated / consumed / destroyed appears once in the call *)
Fixpoint count_occ_h (h : nat) (l : list (aspec * nat)) : nat :=
  match l with [] => O | (_, x) :: t => (if Nat.eqb x h then 1 else 0) + count_occ_h h t end.
Definition excl_ok (l : list (aspec * nat)) : bool :=
  forallb (fun ah => negb (exclusive (fst ah)) || Nat.eqb (count_occ_h (snd ah) l) 1) l.
(* results that depend on an argument need an owned argument (the generator never builds on interior pointers) *)
Definition deps_of (r : rspec) : list nat := match r with RF _ d => d | RB _ par => [par] | _ => [] end.
Definition is_kill (a : aspec) : bool := match a with AX _ | AD _ => true | _ => false end.
Definition res_ok (p : pool) (r : rspec) (l : list (aspec * nat)) (hs : list nat) : bool :=
  forallb (fun i => match nth_error hs i with
                    | Some h => live p h &&
                                match r with
                                | RF _ _ => owned p h && negb (existsb (fun ah => is_kill (fst ah) && Nat.eqb (snd ah) h) l)
                                | _ => true
                                end
                    | None => false
                    end) (deps_of r).

Section WithOps.
Variable ops : list opsig.

Definition legal (p : pool) (c : call) : bool :=
  match nth_error ops (cop c) with
  | None => false
  | Some o =>
    match pair_args (op_args o) (cargs c) with
    | None => false
    | Some l => forallb (arg_ok p) l && excl_ok l && res_ok p (op_res o) l (cargs c)
    end
  end.

(* ---- effects ---- all at once, object by object:
   a destroyed / consumed object loses its flag; so does every interior pointer handed out by an object that is mutated;
   the tree (first argument of the insert) now depends on the inserted item *)
Definition is_mut (a : aspec) : bool := match a with AM _ => true | _ => false end.
Definition is_item (a : aspec) : bool := match a with AI => true | _ => false end.
Definition killed (l : list (aspec * nat)) (k : nat) : bool := existsb (fun ah => is_kill (fst ah) && Nat.eqb (snd ah) k) l.
Definition mutated (l : list (aspec * nat)) (q : nat) : bool := existsb (fun ah => is_mut (fst ah) && Nat.eqb (snd ah) q) l.
Definition items (l : list (aspec * nat)) : list nat := map snd (filter (fun ah => is_item (fst ah)) l).
Definition tree_of (l : list (aspec * nat)) : option nat := match l with (_, t) :: _ => Some t | [] => None end.
Definition eff_obj (l : list (aspec * nat)) (k : nat) (o : obj) : obj :=
  let dead := killed l k || match oown o with Some q => mutated l q | None => false end in
  let deps := if match tree_of l with Some t => Nat.eqb t k | None => false end then items l ++ odeps o else odeps o in
  mkObj (okind o) (olive o && negb dead) deps (oown o).
Fixpoint mapi_from (i : nat) (f : nat -> obj -> obj) (p : pool) : pool :=
  match p with [] => [] | o :: t => f i o :: mapi_from (S i) f t end.
Definition apply_args (l : list (aspec * nat)) (p : pool) : pool := mapi_from 0 (eff_obj l) p.
Definition apply_res (p : pool) (r : rspec) (hs : list nat) : pool :=
  match r with
  | RF k deps => p ++ [mkObj k true (flat_map (fun i => match nth_error hs i with Some h => [h] | None => [] end) deps) None]
  | RB k par => p ++ [mkObj k true [] (nth_error hs par)]       (* usable while the parent is: see `live` *)
  | _ => p
  end.
Definition apply (p : pool) (c : call) : pool :=
  match nth_error ops (cop c) with
  | None => p
  | Some o =>
    match pair_args (op_args o) (cargs c) with
    | None => p
    | Some l => apply_res (apply_args l p) (op_res o) (cargs c)
    end
  end.
Definition step (p : pool) (c : call) : option pool := if legal p c then Some (apply p c) else None.
Fixpoint run (p : pool) (prog : list call) : option pool :=
  match prog with [] => Some p | c :: t => match step p c with Some p' => run p' t | None => None end end.

(* ---- the generator: a linear congruential stream drives the choice of entry point, arguments and parameters ---- *)
Definition lcg (r : Z) : Z := (r * 6364136223846793005 + 1442695040888963407) mod 18446744073709551616.
Definition pick (r : Z) (n : nat) : nat := Z.to_nat ((r / 4294967296) mod Z.of_nat (Nat.max n 1)).
(* index of a numeric / literal parameter in the boundary tables of the harness (taken modulo the table length there) *)
Definition pick_num (r : Z) : nat := Z.to_nat ((r / 4294967296) mod 4099).

Definition candidate (p : pool) (a : aspec) (h : nat) : bool :=
  live p h &&
  match a with
  | AC k => has_kind p h k
  | AM k => has_kind p h k && owned p h
  | AX k | AD k => has_kind p h k && owned p h && negb (has_dependent p h)
  | AI => has_kind p h KG && owned p h
  | AN _ => false
  end.
Definition candidates (p : pool) (a : aspec) : list nat := filter (candidate p a) (seq 0 (List.length p)).

(* choose handles for the object arguments; None when some argument has no candidate *)
Fixpoint choose_args (p : pool) (r : Z) (sp : list aspec) : option (list nat * list nat * Z) :=
  match sp with
  | [] => Some ([], [], r)
  | AN cl :: sp' =>
    let r1 := lcg r in
    match choose_args p r1 sp' with
    | Some (hs, ns, r2) => Some (hs, pick_num r1 :: ns, r2)
    | None => None
    end
  | a :: sp' =>
    let r1 := lcg r in
    match candidates p a with
    | [] => None
    | cs => match choose_args p r1 sp' with
            | Some (hs, ns, r2) => Some (nth (pick r1 (List.length cs)) cs O :: hs, ns, r2)
            | None => None
            end
    end
  end.

(* entry 0 of the table is the literal constructor: no object argument, one parameter (which literal) *)
Definition lit_call (r : Z) : call := mkCall 0 [] [pick_num r].
Definition propose (p : pool) (r : Z) : call :=
  let r1 := lcg r in
  (* half of the time destroy / consume pressure is lowered by re-rolling towards constructive entry points *)
  let i := pick r1 (List.length ops) in
  match nth_error ops i with
  | None => lit_call r1
  | Some o => match choose_args p (lcg r1) (op_args o) with
              | Some (hs, ns, _) => mkCall i hs ns
              | None => lit_call r1
              end
  end.
Fixpoint gen (n : nat) (r : Z) (p : pool) : list call :=
  match n with
  | O => []
  | S n' =>
    let cand := propose p r in
    let c := if legal p cand then cand else lit_call r in
    c :: gen n' (lcg (lcg (lcg r))) (apply p c)
  end.
(* the first calls build a stock of literals so that later entry points find arguments *)
Fixpoint warmup (n : nat) (r : Z) : list call := match n with O => [] | S n' => lit_call r :: warmup n' (lcg r) end.
Definition program (seed : Z) (nlit len : nat) : list call :=
  let w := warmup nlit (lcg seed) in
  let p := fold_left apply w [] in
  w ++ gen len (lcg (lcg seed)) p.

End WithOps.
