(* C12 — proofs about the object-pool state machine (PoolDefs.v): legal calls only touch live objects of the right kind,
   destroyed / consumed objects stay dead (no double free, no use after free), results are fresh handles, whatever a live
   object must not outlive is still alive (prepared geometry -> base, STRtree -> items), and the generator is legal. *)
From Coq Require Import ZArith List Bool Lia.
From GeosV.C12 Require Import PoolDefs.
Import ListNotations.

(* ------------------------------------------------------------------ lists *)
Lemma mapi_from_nth : forall p i f k, nth_error (mapi_from i f p) k = option_map (f (i + k)) (nth_error p k).
Proof.
  induction p as [|o t IH]; intros i f [|k]; cbn; auto.
  - rewrite Nat.add_0_r. reflexivity.
  - rewrite IH. replace (S i + k) with (i + S k) by lia. reflexivity.
Qed.
Lemma mapi_from_length : forall p i f, length (mapi_from i f p) = length p.
Proof. induction p as [|o t IH]; intros i f; cbn; auto. Qed.
Lemma apply_args_nth : forall l p k, nth_error (apply_args l p) k = option_map (eff_obj l k) (nth_error p k).
Proof. intros. unfold apply_args. rewrite mapi_from_nth. reflexivity. Qed.

(* ------------------------------------------------------------------ the invariant *)
(* owners are created before the interior pointers into them; whatever a flagged object depends on is an owned, flagged object *)
Definition wfpool (p : pool) : Prop :=
  forall h o, nth_error p h = Some o ->
    (forall q, oown o = Some q -> q < h) /\
    (olive o = true -> forall dd, In dd (odeps o) -> flag p dd = true /\ owned p dd = true).

Lemma wf_nil : wfpool [].
Proof. intros [|h] o H; discriminate. Qed.

(* ------------------------------------------------------------------ facts that hold for any table of entry points *)
Section Any.
Variable ops : list opsig.

(* results are fresh handles: the pool only grows at the end, by at most one object *)
Theorem apply_length : forall p c, length p <= length (apply ops p c) <= S (length p).
Proof.
  intros p c. unfold apply. destruct (nth_error ops (cop c)) as [o|]; [|lia].
  destruct (pair_args (op_args o) (cargs c)) as [l|]; [|lia].
  pose proof (mapi_from_length p 0 (eff_obj l)) as L. fold (apply_args l p) in L.
  unfold apply_res. destruct (op_res o); rewrite ?app_length; cbn; lia.
Qed.

(* no double free / no resurrection: an object that is flagged after a call was flagged before it, with the same kind and owner *)
Theorem dead_stays_dead : forall p c h o', h < length p -> nth_error (apply ops p c) h = Some o' ->
  exists o, nth_error p h = Some o /\ okind o' = okind o /\ oown o' = oown o /\ (olive o' = true -> olive o = true).
Proof.
  intros p c h o' Hh E. unfold apply in E. destruct (nth_error ops (cop c)) as [o|]; [|eauto].
  destruct (pair_args (op_args o) (cargs c)) as [l|]; [|eauto].
  pose proof (mapi_from_length p 0 (eff_obj l)) as L. fold (apply_args l p) in L.
  assert (E' : nth_error (apply_args l p) h = Some o').
  { unfold apply_res in E. destruct (op_res o); auto; rewrite nth_error_app1 in E by lia; auto. }
  rewrite apply_args_nth in E'. destruct (nth_error p h) as [o0|]; [|discriminate]. cbn in E'. inversion E'; subst.
  exists o0. cbn. repeat split; auto. intro X. apply andb_prop in X. tauto.
Qed.

(* no use after free: every object argument of a legal call is live and of the kind the entry point expects *)
Definition spec_kind (a : aspec) : option kind :=
  match a with AC k | AM k | AX k | AD k => Some k | AI => Some KG | AN _ => None end.
Theorem legal_args_live : forall p c o l, legal ops p c = true -> nth_error ops (cop c) = Some o ->
  pair_args (op_args o) (cargs c) = Some l ->
  forall a h, In (a, h) l -> live p h = true /\ (forall k, spec_kind a = Some k -> has_kind p h k = true).
Proof.
  intros p c o l L Eo El a h Hin. unfold legal in L. rewrite Eo, El in L.
  apply andb_prop in L. destruct L as (L & _). apply andb_prop in L. destruct L as (L & _).
  rewrite forallb_forall in L. specialize (L _ Hin). unfold arg_ok in L.
  apply andb_prop in L. destruct L as (Lv & K). split; auto.
  intros k Hk. destruct a; cbn in Hk; inversion Hk; subst;
    repeat (apply andb_prop in K; destruct K as (K & ?)); auto.
Qed.

(* what is consumed or destroyed is owned by the caller, has no live dependent and occurs once in the call *)
Theorem legal_kill_ok : forall p c o l, legal ops p c = true -> nth_error ops (cop c) = Some o ->
  pair_args (op_args o) (cargs c) = Some l ->
  forall a h, In (a, h) l -> is_kill a = true -> owned p h = true /\ has_dependent p h = false /\ count_occ_h h l = 1.
Proof.
  intros p c o l L Eo El a h Hin Hk. unfold legal in L. rewrite Eo, El in L.
  apply andb_prop in L. destruct L as (L & _). apply andb_prop in L. destruct L as (L & X).
  rewrite forallb_forall in L. specialize (L _ Hin). unfold arg_ok in L.
  unfold excl_ok in X. rewrite forallb_forall in X. specialize (X _ Hin). cbn [fst snd] in X.
  destruct a; cbn in Hk; try discriminate; cbn in X; apply Nat.eqb_eq in X;
    apply andb_prop in L; destruct L as (_ & K); apply andb_prop in K; destruct K as (K & D); apply andb_prop in K; destruct K as (_ & O);
    apply negb_true_iff in D; auto.
Qed.

(* ------------------------------------------------------------------ pool_invariant *)
Lemma live_flag : forall p h, live p h = true -> flag p h = true.
Proof.
  intros p h H. unfold live in H. cbn [live_fuel] in H. unfold flag. destruct (get p h) as [o|]; [|discriminate].
  apply andb_prop in H. tauto.
Qed.
Lemma flag_range : forall p h, flag p h = true -> h < length p.
Proof. intros p h H. unfold flag, get in H. destruct (nth_error p h) eqn:E; [|discriminate]. apply nth_error_Some. congruence. Qed.
Lemma flag_app : forall p q h, h < length p -> flag (p ++ q) h = flag p h.
Proof. intros. unfold flag, get. rewrite nth_error_app1; auto. Qed.
Lemma owned_app : forall p q h, h < length p -> owned (p ++ q) h = owned p h.
Proof. intros. unfold owned, get. rewrite nth_error_app1; auto. Qed.
Lemma once_unique : forall l h a a', count_occ_h h l = 1 -> In (a, h) l -> In (a', h) l -> a = a'.
Proof.
  induction l as [|(b, x) l IH]; intros h a a' C I1 I2; [contradiction|].
  cbn [count_occ_h] in C. destruct (Nat.eqb_spec x h) as [->|N].
  - assert (Z : count_occ_h h l = 0) by lia.
    assert (NI : forall c, ~ In (c, h) l).
    { clear -Z. induction l as [|(c0, y) l IH]; intros c HI; [contradiction|]. cbn [count_occ_h] in Z.
      destruct HI as [E|HI]; [inversion E; subst; rewrite Nat.eqb_refl in Z; lia|].
      destruct (Nat.eqb y h); [lia|]. eapply IH; eauto. }
    destruct I1 as [E1|I1]; [|exfalso; eapply NI; eauto]. destruct I2 as [E2|I2]; [|exfalso; eapply NI; eauto]. congruence.
  - destruct I1 as [E1|I1]; [inversion E1; congruence|]. destruct I2 as [E2|I2]; [inversion E2; congruence|]. eapply IH; eauto.
Qed.
Lemma killed_in : forall l k, killed l k = true -> exists a, In (a, k) l /\ is_kill a = true.
Proof.
  intros l k H. unfold killed in H. apply existsb_exists in H. destruct H as ((a, x) & I & E). cbn in E.
  apply andb_prop in E. destruct E as (K & X). apply Nat.eqb_eq in X. subst. eauto.
Qed.
Lemma items_in : forall l dd, In dd (items l) -> In (AI, dd) l.
Proof.
  intros l dd H. unfold items in H. apply in_map_iff in H. destruct H as ((a, x) & E & I). cbn in E. subst.
  apply filter_In in I. destruct I as (I & T). destruct a; cbn in T; try discriminate. auto.
Qed.
Lemma dependent_witness : forall p k o dd, nth_error p k = Some o -> olive o = true -> In dd (odeps o) -> has_dependent p dd = true.
Proof.
  intros p k o dd E L I. unfold has_dependent. apply existsb_exists. exists o. split; [eapply nth_error_In; eauto|].
  rewrite L. cbn. unfold mem. apply existsb_exists. exists dd. split; auto. apply Nat.eqb_refl.
Qed.

(* pool_invariant: a legal call keeps the pool well formed: every flagged object's dependencies (the base of a prepared
   geometry, the items of a tree) are still flagged, owned objects, and owners precede their interior pointers *)
Theorem pool_invariant : forall p c, wfpool p -> legal ops p c = true -> wfpool (apply ops p c).
Proof.
  intros p c W L. unfold apply. pose proof L as L0. unfold legal in L.
  destruct (nth_error ops (cop c)) as [o|] eqn:Eo; [|discriminate].
  destruct (pair_args (op_args o) (cargs c)) as [l|] eqn:El; [|discriminate].
  apply andb_prop in L. destruct L as (L & RO). apply andb_prop in L. destruct L as (AO & XO).
  rewrite forallb_forall in AO. unfold excl_ok in XO. rewrite forallb_forall in XO.
  (* an owned, flagged object that is not killed by this call keeps its flag *)
  assert (KEEP : forall dd, flag p dd = true -> owned p dd = true -> killed l dd = false ->
                 flag (apply_args l p) dd = true /\ owned (apply_args l p) dd = true).
  { intros dd F O K. unfold flag, owned, get in *. rewrite apply_args_nth.
    destruct (nth_error p dd) as [od|]; [|discriminate]. cbn. destruct (oown od); [discriminate|]. rewrite F, K. auto. }
  assert (W1 : wfpool (apply_args l p)).
  { intros k o1 E1. rewrite apply_args_nth in E1. destruct (nth_error p k) as [o0|] eqn:E0; [|discriminate]. cbn in E1. inversion E1; subst.
    destruct (W k o0 E0) as (WO & WD). cbn. split; [exact WO|].
    intros LV dd Hdd. apply andb_prop in LV. destruct LV as (LV0 & _).
    assert (Hcase : In dd (items l) \/ In dd (odeps o0)).
    { destruct (match tree_of l with Some t => Nat.eqb t k | None => false end); [apply in_app_or in Hdd|]; tauto. }
    destruct Hcase as [Hi|Hd].
    - apply items_in in Hi. pose proof (AO _ Hi) as A. unfold arg_ok in A.
      apply andb_prop in A. destruct A as (Lv & A). apply andb_prop in A. destruct A as (_ & Ow).
      apply KEEP; auto. { apply live_flag; auto. }
      destruct (killed l dd) eqn:K; auto. apply killed_in in K. destruct K as (a & Ia & Ka).
      pose proof (XO _ Hi) as X. cbn in X. apply Nat.eqb_eq in X.
      rewrite (once_unique l dd a AI X Ia Hi) in Ka. discriminate.
    - destruct (WD LV0 dd Hd) as (F & O). apply KEEP; auto.
      destruct (killed l dd) eqn:K; auto. apply killed_in in K. destruct K as (a & Ia & Ka).
      destruct (legal_kill_ok p c o l L0 Eo El a dd Ia Ka) as (_ & ND & _).
      rewrite (dependent_witness p k o0 dd E0 LV0 Hd) in ND. discriminate. }
  pose proof (mapi_from_length p 0 (eff_obj l)) as Len. fold (apply_args l p) in Len.
  unfold apply_res. destruct (op_res o) as [| |kk deps|kk par] eqn:Er; auto.
  - (* a fresh object: its dependencies are owned, live arguments that this call does not consume *)
    intros h o' E. destruct (Nat.lt_ge_cases h (length (apply_args l p))) as [Lt|Ge].
    + rewrite nth_error_app1 in E by auto. destruct (W1 h o' E) as (A & B). split; auto.
      intros LV dd Hdd. destruct (B LV dd Hdd) as (F & O). pose proof (flag_range _ _ F). rewrite flag_app, owned_app; auto.
    + rewrite nth_error_app2 in E by auto. destruct (h - length (apply_args l p)) as [|n] eqn:En; [|destruct n; discriminate].
      cbn in E. inversion E; subst. cbn. split; [intros q X; discriminate X|]. intros _ dd Hdd.
      apply in_flat_map in Hdd. destruct Hdd as (i & Hi & Hx). destruct (nth_error (cargs c) i) as [hh|] eqn:Eh; [|contradiction].
      destruct Hx as [->|[]]. unfold res_ok in RO. rewrite forallb_forall in RO. specialize (RO i Hi). rewrite Eh in RO.
      apply andb_prop in RO. destruct RO as (Lv & RO). apply andb_prop in RO. destruct RO as (Ow & NK). apply negb_true_iff in NK.
      destruct (KEEP dd (live_flag _ _ Lv) Ow NK) as (F & O). pose proof (flag_range _ _ F). rewrite flag_app, owned_app; auto.
  - (* an interior pointer: its owner exists already *)
    intros h o' E. destruct (Nat.lt_ge_cases h (length (apply_args l p))) as [Lt|Ge].
    + rewrite nth_error_app1 in E by auto. destruct (W1 h o' E) as (A & B). split; auto.
      intros LV dd Hdd. destruct (B LV dd Hdd) as (F & O). pose proof (flag_range _ _ F). rewrite flag_app, owned_app; auto.
    + rewrite nth_error_app2 in E by auto. destruct (h - length (apply_args l p)) as [|n] eqn:En; [|destruct n; discriminate].
      cbn in E. inversion E; subst. cbn. split; [|intros _ dd []].
      intros q Eq. unfold res_ok in RO. cbn [deps_of] in RO. rewrite forallb_forall in RO. specialize (RO par (or_introl eq_refl)).
      rewrite Eq in RO. apply andb_prop in RO. destruct RO as (Lv & _). pose proof (flag_range _ _ (live_flag _ _ Lv)). lia.
Qed.

(* ------------------------------------------------------------------ the generator only emits legal calls *)
Definition lit_ok : Prop := exists o, nth_error ops 0 = Some o /\ pair_args (op_args o) [] = Some [] /\ deps_of (op_res o) = [].

Lemma lit_legal : lit_ok -> forall p r, legal ops p (lit_call r) = true.
Proof.
  intros (o & E0 & Ea & Ed) p r. unfold legal, lit_call. cbn [cop cargs]. rewrite E0, Ea. cbn.
  unfold res_ok. rewrite Ed. reflexivity.
Qed.

Lemma gen_run : lit_ok -> forall n r p, run ops p (gen ops n r p) <> None.
Proof.
  intros LO. induction n as [|n IH]; intros r p; cbn [gen run]; [discriminate|].
  set (c := if legal ops p (propose ops p r) then propose ops p r else lit_call r).
  assert (Lc : legal ops p c = true).
  { unfold c. destruct (legal ops p (propose ops p r)) eqn:E; auto. apply lit_legal; auto. }
  unfold step. rewrite Lc. apply IH.
Qed.
Lemma run_app : forall a b p, run ops p (a ++ b) = match run ops p a with Some p' => run ops p' b | None => None end.
Proof. induction a as [|c a IH]; intros b p; cbn [run app]; auto. destruct (step ops p c); auto. Qed.
Lemma warmup_run : lit_ok -> forall n r p, run ops p (warmup n r) = Some (fold_left (apply ops) (warmup n r) p).
Proof.
  intros LO. induction n as [|n IH]; intros r p; cbn [warmup run fold_left]; auto.
  unfold step. rewrite lit_legal by auto. apply IH.
Qed.

(* gen_legal: every program the harness runs is legal from the empty pool, for every seed and every length *)
Theorem gen_legal : lit_ok -> forall seed nlit len, run ops [] (program ops seed nlit len) <> None.
Proof.
  intros LO seed nlit len. unfold program. rewrite run_app. rewrite warmup_run by auto. apply gen_run; auto.
Qed.
End Any.

(* a const argument that the caller owns is left as it is: same kind, same owner, same flag *)
Theorem const_arg_unchanged : forall (ops : list opsig) p c o l k h, legal ops p c = true -> nth_error ops (cop c) = Some o ->
  pair_args (op_args o) (cargs c) = Some l -> In (AC k, h) l -> owned p h = true ->
  forall ob, nth_error p h = Some ob ->
  exists ob', nth_error (apply ops p c) h = Some ob' /\ okind ob' = okind ob /\ oown ob' = oown ob /\ olive ob' = olive ob.
Proof.
  intros ops p c o l k h L Eo El Hin Ow ob Eb.
  assert (NK : killed l h = false).
  { destruct (killed l h) eqn:K; auto. apply killed_in in K. destruct K as (a & Ia & Ka).
    destruct (legal_kill_ok ops p c o l L Eo El a h Ia Ka) as (_ & _ & C1).
    rewrite (once_unique l h a (AC k) C1 Ia Hin) in Ka. discriminate. }
  unfold apply. rewrite Eo, El.
  assert (E1 : nth_error (apply_args l p) h = Some (eff_obj l h ob)) by (rewrite apply_args_nth, Eb; reflexivity).
  assert (Hl : h < length (apply_args l p)) by (apply nth_error_Some; congruence).
  exists (eff_obj l h ob). split.
  - unfold apply_res. destruct (op_res o); auto; rewrite nth_error_app1; auto.
  - unfold owned, get in Ow. rewrite Eb in Ow. cbn. destruct (oown ob); [discriminate|]. rewrite NK. cbn. rewrite andb_true_r. auto.
Qed.
