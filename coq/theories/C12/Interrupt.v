(* C12 — the interruption protocol of the C API (capi/geos_c.h.in "Interruption", src/util/Interrupt.cpp), as documented:
     GEOS_interruptRegisterCallback(cb)  the callback is invoked _before_ checking for interruption, so it can request it
     GEOS_interruptRequest()             request interruption of operations
     GEOS_interruptCancel()              cancel a pending request
   The state is global (not per context).  An interruptible entry point polls (Interrupt::process) any number of times; a poll runs
   the callback, then, if a request is pending, consumes it and makes the call fail with "InterruptedException".
   The containment clause added to the pool model: a call that was NOT asked to be interrupted completes normally, and a
   delivered interruption consumes the request (it cannot hit a later call).  Definitions and proofs; the harness keeps this
   state beside the real library (budget = how many requests the registered callback will still make). *)
From Coq Require Import Arith Bool List Lia.
Import ListNotations.

Record istate := mkI { ipending : bool; icb : bool; ibudget : nat }.
Definition istart : istate := mkI false false 0.
Inductive iop := IRegister (budget : option nat) | IRequest | ICancel.
Definition iapply (s : istate) (o : iop) : istate :=
  match o with
  | IRegister None => mkI (ipending s) false 0
  | IRegister (Some b) => mkI (ipending s) true b
  | IRequest => mkI true (icb s) (ibudget s)
  | ICancel => mkI false (icb s) (ibudget s)
  end.
(* somebody asked for the next interruptible call to be interrupted *)
Definition asked (s : istate) : bool := ipending s || (icb s && negb (ibudget s =? 0)).
(* Interrupt::process *)
Definition poll (s : istate) : istate * bool :=
  let s1 := if icb s then match ibudget s with O => s | S b => mkI true true b end else s in
  if ipending s1 then (mkI false (icb s1) (ibudget s1), true) else (s1, false).
(* a call polls n times (n is not known) and ends at the first delivery *)
Fixpoint icall (n : nat) (s : istate) : istate * bool :=
  match n with
  | O => (s, false)
  | S k => let (s1, d) := poll s in if d then (s1, true) else icall k s1
  end.

Lemma poll_not_asked : forall s, asked s = false -> poll s = (s, false).
Proof.
  intros [p c b] H. unfold asked in H. cbn in H. apply orb_false_iff in H. destruct H as [Hp Hc]. subst p.
  unfold poll. cbn. destruct c; cbn in *.
  - destruct b; [reflexivity|discriminate].
  - reflexivity.
Qed.
Theorem not_asked_completes : forall n s, asked s = false -> icall n s = (s, false).
Proof. induction n; intros s H; cbn; [reflexivity|]. rewrite (poll_not_asked s H). apply IHn. exact H. Qed.

Lemma poll_delivery : forall s s', poll s = (s', true) -> ipending s' = false /\ icb s' = icb s /\ ibudget s' <= ibudget s /\ asked s = true.
Proof.
  intros [p c b] s'. unfold poll, asked. cbn. destruct c; cbn.
  - destruct b; cbn.
    + destruct p; intros E; inversion E; subst; cbn; auto.
    + intros E. inversion E; subst. cbn. repeat split; auto. rewrite orb_true_r. reflexivity.
  - destruct p; intros E; inversion E; subst; cbn; auto.
Qed.
Lemma poll_no_delivery : forall s s', poll s = (s', false) -> s' = s /\ asked s = false.
Proof.
  intros [p c b] s'. unfold poll, asked. cbn. destruct c; cbn.
  - destruct b; cbn.
    + destruct p; intros E; inversion E; subst; auto.
    + intros E; inversion E.
  - destruct p; intros E; inversion E; subst; auto.
Qed.
(* a delivered interruption consumes the request *)
Theorem delivery_consumes : forall n s s', icall n s = (s', true) ->
  ipending s' = false /\ icb s' = icb s /\ ibudget s' <= ibudget s /\ asked s = true.
Proof.
  induction n; intros s s' H; cbn in H; [inversion H|].
  destruct (poll s) as [s1 d] eqn:P. destruct d.
  - inversion H; subst. apply poll_delivery. exact P.
  - apply poll_no_delivery in P. destruct P as [-> A]. rewrite (not_asked_completes n s A) in H. inversion H.
Qed.
(* after the delivery of a request made from outside or by a callback that requests once, the NEXT call is not asked *)
Theorem next_call_not_asked : forall n s s', ibudget s <= 1 -> icall n s = (s', true) -> asked s' = false.
Proof.
  induction n; intros s s' B H; cbn in H; [inversion H|].
  destruct (poll s) as [s1 d] eqn:P. destruct d.
  - inversion H; subst. destruct s as [p c b]. unfold poll in P. cbn in *. unfold asked.
    destruct c; cbn in *.
    + destruct b as [|[|b]]; cbn in *; [| |lia].
      * destruct p; inversion P; subst; cbn; reflexivity.
      * inversion P; subst. cbn. reflexivity.
    + destruct p; inversion P; subst; cbn; reflexivity.
  - apply poll_no_delivery in P. destruct P as [-> A]. rewrite (not_asked_completes n s A) in H. inversion H.
Qed.
