(* C14 — executable model (definitions only, no proofs).

   M1  the Interrupt state machine of src/util/Interrupt.cpp: the two file-scope statics `requested`, `callback`
       and request / cancel / check / registerCallback / process / interrupt.
   M2  an interruptible operation: a program of checkpoint polls (GEOS_CHECK_FOR_INTERRUPTS = Interrupt::process)
       separated by pure work, possibly enclosed in try/catch clauses; the C API boundary (`execute`) turns an
       exception into the documented error value.
   The registered callback is arbitrary user code.  Through the API it can only call request / cancel / check, so its
   net effect at one invocation is a new value of the flag; it may keep private memory, which (the run being
   deterministic) is a function of what it has observed so far.  A callback is therefore modelled, in full generality,
   as a function from the HISTORY of flag values it has seen (most recent first, including the current one) to the
   flag value it leaves:  cbfun := list bool -> bool.  `g_hist` is that history; its length counts the invocations. *)
From Coq Require Import Bool List Arith.
Import ListNotations.

Definition cbfun := list bool -> bool.

Record gst := mkG { g_requested : bool; g_callback : option cbfun; g_hist : list bool }.

(* result of code that may throw: the state reached is carried in both cases *)
Inductive res := Normal (s : gst) | Raised (s : gst).

Definition set_g_requested (st : gst) (v : bool) := mkG v (g_callback st) (g_hist st).
Definition set_g_callback (st : gst) (c : option cbfun) := mkG (g_requested st) c (g_hist st).

(* ---- M1: Interrupt.cpp, function by function *)
Definition request (st : gst) : gst := set_g_requested st true.
Definition cancel (st : gst) : gst := set_g_requested st false.
Definition check (st : gst) : bool := g_requested st.
Definition registerCallback (st : gst) (cb : option cbfun) : gst * option cbfun := (set_g_callback st cb, g_callback st).

Definition run_callback (st : gst) : gst :=
  match g_callback st with
  | None => st
  | Some f => let h := g_requested st :: g_hist st in mkG (f h) (g_callback st) h
  end.

Definition interrupt (st : gst) : res := Raised (set_g_requested st false).

Definition process (st : gst) : res :=
  let st1 := run_callback st in
  if g_requested st1 then interrupt (set_g_requested st1 false) else Normal st1.

(* ---- M2: programs of polls under try/catch *)
(* a catch clause, abstractly: does its declared type match the interrupt exception, does its handler rethrow *)
Record catch := mkC { c_matches : bool; c_rethrows : bool }.
Definition swallows (c : catch) : bool := c_matches c && negb (c_rethrows c).

Inductive prog :=
| Work                          (* pure computation: does not touch the Interrupt state *)
| Poll                          (* GEOS_CHECK_FOR_INTERRUPTS() *)
| Seq (p q : prog)
| Try (body : prog) (c : catch) (* try { body } catch (T) { handler }: a swallowing handler continues after the try *).

Fixpoint exec (p : prog) (st : gst) : res :=
  match p with
  | Work => Normal st
  | Poll => process st
  | Seq p q => match exec p st with Normal st' => exec q st' | Raised st' => Raised st' end
  | Try b c => match exec b st with
               | Normal st' => Normal st'
               | Raised st' => if swallows c then Normal st' else Raised st'
               end
  end.

Fixpoint polls (n : nat) : prog := match n with O => Work | S n => Seq Poll (polls n) end.
Fixpoint npolls (p : prog) : nat :=
  match p with Work => 0 | Poll => 1 | Seq p q => npolls p + npolls q | Try b _ => npolls b end.
Fixpoint all_ok (p : prog) : bool :=
  match p with Work | Poll => true | Seq p q => all_ok p && all_ok q | Try b c => negb (swallows c) && all_ok b end.
Fixpoint strip (p : prog) : prog :=
  match p with Work => Work | Poll => Poll | Seq p q => Seq (strip p) (strip q) | Try b _ => strip b end.
Fixpoint wrap (cs : list catch) (p : prog) : prog := match cs with [] => p | c :: cs => Try (wrap cs p) c end.

(* the C API boundary: capi/geos_ts_c.cpp `execute(handle, errval, lambda)` *)
Inductive outcome (R : Type) := Completed (r : R) | ErrorValue.
Arguments Completed {R} r.
Arguments ErrorValue {R}.
Definition api_call {R : Type} (p : prog) (result : R) (st : gst) : outcome R * gst :=
  match exec p st with Normal st' => (Completed result, st') | Raised st' => (ErrorValue, st') end.
Definition state_of (r : res) : gst := match r with Normal s => s | Raised s => s end.
Definition raised (r : res) : bool := match r with Normal _ => false | Raised _ => true end.

(* ---- callbacks used by the fault enumeration (harness/c14.cpp `cb`) *)
Definition cb_count : cbfun := fun h => hd false h.                                   (* never requests: leaves the flag as found *)
Definition cb_at (k : nat) : cbfun := fun h => if Nat.eqb (length h) k then true else hd false h.   (* requests at its k-th invocation *)
Definition cb_at_cancel (k : nat) : cbfun := fun h => if Nat.eqb (length h) k then false else hd false h. (* requests and cancels at once *)
Definition never_requests (f : cbfun) : Prop := forall h, f (false :: h) = false.
Definition never_cancels (f : cbfun) : Prop := forall h, f (true :: h) = true.

Definition st_init (req : bool) (cb : option cbfun) : gst := mkG req cb [].
Definition invocations (st : gst) : nat := length (g_hist st).

(* ---- prediction for one fault-enumeration step, in the vocabulary of the harness:
   an operation whose never-interrupted run performs N polls; if `swallow`, its polls sit in a try whose catch clause swallows the
   interrupt exception and n2 more polls follow on the fallback path (OverlayNGRobust shape).
   returns (aborted, flag after, callback invocations, re-run aborted, re-run flag after, re-run invocations) *)
Definition op_prog (N : nat) (swallow : bool) (n2 : nat) : prog :=
  if swallow then Seq (Try (polls N) (mkC true false)) (polls n2) else polls N.

Definition predict_with (N : nat) (swallow : bool) (n2 : nat) (st0 : gst) : bool * bool * nat * bool * bool * nat :=
  let r1 := exec (op_prog N swallow n2) st0 in
  let st1 := state_of r1 in
  (* the re-run is the never-interrupted program (no exception: the fallback is not entered), counting callback, fresh history *)
  let r2 := exec (polls N) (mkG (g_requested st1) (Some cb_count) []) in
  let st2 := state_of r2 in
  (raised r1, g_requested st1, invocations st1, raised r2, g_requested st2, invocations st2).

Definition predict_at (N k : nat) (swallow : bool) (n2 : nat) := predict_with N swallow n2 (st_init false (Some (cb_at k))).
Definition predict_pre (N : nat) (swallow : bool) (n2 : nat) := predict_with N swallow n2 (st_init true (Some cb_count)).
Definition predict_req_cancel (N : nat) := predict_with N false 0 (cancel (request (st_init false (Some cb_count)))).
Definition predict_cb_req_cancel (N k : nat) := predict_with N false 0 (st_init false (Some (cb_at_cancel k))).
Definition predict_pre_nocb (N : nat) (swallow : bool) (n2 : nat) := predict_with N swallow n2 (st_init true None).
