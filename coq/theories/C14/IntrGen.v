(* Tie G: the definitions generated from src/util/Interrupt.cpp (Gen/Intr_*.v, regenerated on every run) are the hand model.
   The proofs compute both sides on every shape of state, so behaviour-preserving rewrites of the C++ keep them valid. *)
From GeosV.C14 Require Import IntrDefs GenPreludeIntr.
From GeosV.Gen Require Import Intr_request Intr_cancel Intr_check Intr_registerCallback Intr_interrupt Intr_process.

Ltac crush_gen :=
  intros; cbv [c_request_0 c_cancel_0 c_check_0 c_registerCallback_1 c_interrupt_0 c_process_0
               request cancel check registerCallback interrupt process run_callback call_g_callback
               bind ok throw isnonnull set_g_requested set_g_callback g_requested g_callback g_hist];
  repeat match goal with
         | |- context [if ?b then _ else _] => destruct b eqn:?
         | |- context [match ?o with Some _ => _ | None => _ end] => destruct o eqn:?
         end; try reflexivity; try congruence.

Theorem gen_request_eq : forall st, c_request_0 st = request st.
Proof. intros [r c h]; crush_gen. Qed.
Theorem gen_cancel_eq : forall st, c_cancel_0 st = cancel st.
Proof. intros [r c h]; crush_gen. Qed.
Theorem gen_check_eq : forall st, c_check_0 st = check st.
Proof. intros [r c h]; crush_gen. Qed.
Theorem gen_registerCallback_eq : forall st cb, c_registerCallback_1 st cb = registerCallback st cb.
Proof. intros [r c h] cb; crush_gen. Qed.
Theorem gen_interrupt_eq : forall st, c_interrupt_0 st = interrupt st.
Proof. intros [r c h]; crush_gen. Qed.
Theorem gen_process_eq : forall st, c_process_0 st = process st.
Proof. intros [r [f|] h]; crush_gen. Qed.
