(* C14 — lemmas about the Interrupt state machine and programs of polls (IntrDefs.v). *)
From Coq Require Import Bool List Arith Lia.
From GeosV.C14 Require Import IntrDefs.
Import ListNotations.

(* ------------------------------------------------------------------ process *)
Lemma process_unfold : forall st,
  process st = let st1 := run_callback st in
               if g_requested st1 then Raised (set_g_requested st1 false) else Normal st1.
Proof. intros st. unfold process, interrupt. destruct (run_callback st) as [r c h]; destruct r; reflexivity. Qed.

Lemma process_raised_clears : forall st st', process st = Raised st' -> g_requested st' = false.
Proof.
  intros st st' H. rewrite process_unfold in H. cbv zeta in H.
  destruct (g_requested (run_callback st)); [|discriminate]. inversion H; reflexivity.
Qed.

Lemma run_callback_callback : forall st, g_callback (run_callback st) = g_callback st.
Proof. intros [r [f|] h]; reflexivity. Qed.

(* whenever anything run from a program throws, the request flag is clear afterwards *)
Lemma exec_raised_clears : forall p st st', exec p st = Raised st' -> g_requested st' = false.
Proof.
  induction p as [| |p1 IH1 p2 IH2|b IHb c]; cbn [exec]; intros st st' H.
  - discriminate.
  - eapply process_raised_clears; eauto.
  - destruct (exec p1 st) as [s|s] eqn:E.
    + eapply IH2; eauto.
    + inversion H; subst. eapply IH1; eauto.
  - destruct (exec b st) as [s|s] eqn:E; [discriminate|].
    destruct (swallows c); [discriminate|]. inversion H; subst. eapply IHb; eauto.
Qed.

(* ------------------------------------------------------------------ quiet states: nothing pending, callback never requests *)
Definition quiet (st : gst) : Prop :=
  g_requested st = false /\ match g_callback st with None => True | Some f => never_requests f end.

Definition cb_polls (st : gst) (n : nat) : nat := match g_callback st with None => 0 | Some _ => n end.

Lemma process_quiet : forall st, quiet st ->
  exists st', process st = Normal st' /\ quiet st' /\ g_callback st' = g_callback st /\
              invocations st' = invocations st + cb_polls st 1 /\ (g_callback st = None -> st' = st).
Proof.
  intros [r c h] [Hr Hc]. cbn in Hr. subst r. rewrite process_unfold. unfold run_callback, cb_polls, invocations. cbn.
  destruct c as [f|]; cbn.
  - cbn in Hc. rewrite (Hc h). eexists; repeat split; cbn; auto; try lia. discriminate.
  - eexists; repeat split; cbn; auto.
Qed.

Lemma exec_quiet : forall p st, quiet st ->
  exists st', exec p st = Normal st' /\ quiet st' /\ g_callback st' = g_callback st /\
              invocations st' = invocations st + cb_polls st (npolls p) /\ (g_callback st = None -> st' = st).
Proof.
  induction p as [| |p1 IH1 p2 IH2|b IHb c]; cbn [exec npolls]; intros st Q.
  - exists st; repeat split; try apply Q; auto. unfold cb_polls; destruct (g_callback st); lia.
  - apply process_quiet; assumption.
  - destruct (IH1 st Q) as (s1 & E1 & Q1 & C1 & I1 & N1). rewrite E1.
    destruct (IH2 s1 Q1) as (s2 & E2 & Q2 & C2 & I2 & N2). exists s2. repeat split; try apply Q2; auto.
    + congruence.
    + rewrite I2, I1. unfold cb_polls. rewrite C1. destruct (g_callback st); lia.
    + intros Hn. rewrite N2 by congruence. auto.
  - destruct (IHb st Q) as (s1 & E1 & Q1 & C1 & I1 & N1). rewrite E1. exists s1; repeat split; try apply Q1; auto.
Qed.

(* ------------------------------------------------------------------ programs without a swallowing catch are flat sequences of polls *)
Lemma exec_polls_app : forall a b st,
  exec (polls (a + b)) st = match exec (polls a) st with Normal s => exec (polls b) s | Raised s => Raised s end.
Proof.
  induction a as [|a IH]; intros b st; cbn [polls plus exec]; [reflexivity|].
  destruct (process st) as [s|s]; [apply IH|reflexivity].
Qed.

Lemma npolls_polls : forall n, npolls (polls n) = n.
Proof. induction n; cbn; auto. Qed.

Lemma exec_strip : forall p st, all_ok p = true -> exec p st = exec (strip p) st.
Proof.
  induction p as [| |p1 IH1 p2 IH2|b IHb c]; cbn [exec strip all_ok]; intros st H; try reflexivity.
  - apply andb_prop in H as [H1 H2]. rewrite IH1 by assumption. destruct (exec (strip p1) st); [apply IH2; assumption|reflexivity].
  - apply andb_prop in H as [H1 H2]. apply negb_true_iff in H1. rewrite H1. rewrite IHb by assumption.
    destruct (exec (strip b) st); reflexivity.
Qed.

Lemma exec_flat : forall p st, exec (strip p) st = exec (polls (npolls p)) st.
Proof.
  induction p as [| |p1 IH1 p2 IH2|b IHb c]; cbn [exec strip npolls polls]; intros st; try reflexivity.
  - destruct (process st); reflexivity.
  - rewrite exec_polls_app, IH1. destruct (exec (polls (npolls p1)) st); [apply IH2|reflexivity].
  - apply IHb.
Qed.

Lemma exec_all_ok : forall p st, all_ok p = true -> exec p st = exec (polls (npolls p)) st.
Proof. intros p st H. rewrite exec_strip by assumption. apply exec_flat. Qed.

Lemma all_ok_wrap : forall cs p, forallb (fun c => negb (swallows c)) cs = true -> all_ok p = true -> all_ok (wrap cs p) = true.
Proof.
  induction cs as [|c cs IH]; cbn [wrap forallb all_ok]; intros p H Hp; [assumption|].
  apply andb_prop in H as [H1 H2]. rewrite H1. cbn. apply IH; assumption.
Qed.

Lemma strip_wrap : forall cs p, strip (wrap cs p) = strip p.
Proof. induction cs as [|c cs IH]; cbn [wrap strip]; intros p; [reflexivity|apply IH]. Qed.

Lemma exec_wrap_ok : forall cs p st, forallb (fun c => negb (swallows c)) cs = true -> exec (wrap cs p) st = exec p st.
Proof.
  induction cs as [|c cs IH]; cbn [wrap forallb exec]; intros p st H; [reflexivity|].
  apply andb_prop in H as [H1 H2]. apply negb_true_iff in H1. rewrite H1. rewrite IH by assumption.
  destruct (exec p st); reflexivity.
Qed.

(* a swallowing catch: the exception never leaves the try, the code after the try runs *)
Lemma exec_swallowed : forall b c rest st st', swallows c = true -> exec b st = Raised st' ->
  exec (Seq (Try b c) rest) st = exec rest st'.
Proof. intros b c rest st st' Hs Hb. cbn [exec]. rewrite Hb, Hs. reflexivity. Qed.

(* ------------------------------------------------------------------ the callback that requests at its k-th invocation *)
Lemma cb_at_step : forall k h, cb_at k (false :: h) = Nat.eqb (S (length h)) k.
Proof. intros k h. unfold cb_at. cbn [length hd]. destruct (Nat.eqb (S (length h)) k); reflexivity. Qed.

Lemma polls_cb_at : forall N k h, length h < k ->
  let r := exec (polls N) (mkG false (Some (cb_at k)) h) in
  g_requested (state_of r) = false /\ g_callback (state_of r) = Some (cb_at k) /\
  (if k - length h <=? N then raised r = true /\ invocations (state_of r) = k
   else raised r = false /\ invocations (state_of r) = length h + N).
Proof.
  induction N as [|N IH]; intros k h Hlt; cbn zeta.
  - cbn [polls exec state_of raised]. repeat split. destruct (k - length h <=? 0) eqn:E.
    + apply Nat.leb_le in E. lia.
    + split; [reflexivity|unfold invocations; cbn; lia].
  - cbn [polls exec]. rewrite process_unfold. unfold run_callback. cbn [g_callback g_requested g_hist]. cbv zeta.
    cbn [g_requested]. rewrite cb_at_step.
    destruct (Nat.eqb (S (length h)) k) eqn:Ek.
    + apply Nat.eqb_eq in Ek. cbn [state_of raised set_g_requested g_requested g_callback g_hist]. repeat split.
      destruct (k - length h <=? S N) eqn:E.
      * split; [reflexivity|]. unfold invocations; cbn. lia.
      * apply Nat.leb_gt in E. lia.
    + apply Nat.eqb_neq in Ek.
      assert (Hlt' : length (false :: h) < k) by (cbn; lia).
      specialize (IH k (false :: h) Hlt'). cbv zeta in IH. destruct IH as (A & B & C).
      repeat split; try assumption.
      replace (k - length h <=? S N) with (k - length (false :: h) <=? N).
      2:{ cbn [length]. destruct (k - S (length h) <=? N) eqn:E1; destruct (k - length h <=? S N) eqn:E2; auto;
          [apply Nat.leb_le in E1; apply Nat.leb_gt in E2|apply Nat.leb_gt in E1; apply Nat.leb_le in E2]; lia. }
      destruct (k - length (false :: h) <=? N); destruct C as [C1 C2]; split; auto. cbn [length] in C2. lia.
Qed.

(* once its k-th invocation is past, the same callback never requests again *)
Lemma polls_cb_at_past : forall N k h, k <= length h ->
  let r := exec (polls N) (mkG false (Some (cb_at k)) h) in
  raised r = false /\ g_requested (state_of r) = false /\ invocations (state_of r) = length h + N.
Proof.
  induction N as [|N IH]; intros k h Hle; cbn zeta.
  - cbn. repeat split. unfold invocations; cbn; lia.
  - cbn [polls exec]. rewrite process_unfold. unfold run_callback. cbn [g_callback g_requested g_hist]. cbv zeta.
    cbn [g_requested]. rewrite cb_at_step.
    destruct (Nat.eqb (S (length h)) k) eqn:Ek; [apply Nat.eqb_eq in Ek; lia|].
    assert (Hle' : k <= length (false :: h)) by (cbn; lia).
    specialize (IH k (false :: h) Hle'). cbv zeta in IH. destruct IH as (A & B & C).
    repeat split; auto. cbn [length] in C. lia.
Qed.

Lemma cb_count_never_requests : never_requests cb_count.
Proof. intros h. reflexivity. Qed.
Lemma cb_count_never_cancels : never_cancels cb_count.
Proof. intros h. reflexivity. Qed.
Lemma cb_at_cancel_never_requests : forall k, never_requests (cb_at_cancel k).
Proof. intros k h. unfold cb_at_cancel. destruct (Nat.eqb (length (false :: h)) k); reflexivity. Qed.

(* ------------------------------------------------------------------ T: interrupt_at_any_k *)
Theorem interrupt_at_any_k : forall (R : Type) (result : R) (p : prog) (N k : nat),
  all_ok p = true -> npolls p = N -> 1 <= k <= N ->
  exists st1 st2,
    (* the interrupted call: error value, exactly k polls were made, the request is cleared *)
    api_call p result (st_init false (Some (cb_at k))) = (ErrorValue, st1) /\
    g_requested st1 = false /\ invocations st1 = k /\
    (* the same operation again, from the state the interrupted call left behind, callback not requesting *)
    api_call p result (mkG (g_requested st1) (Some cb_count) []) = (Completed result, st2) /\
    g_requested st2 = false /\ invocations st2 = N /\
    (* ... which is the result of a run that was never interrupted *)
    fst (api_call p result (st_init false None)) = Completed result.
Proof.
  intros R result p N k Hok HN Hk.
  pose proof (polls_cb_at N k [] ltac:(cbn; lia)) as H. cbv zeta in H. cbn [length] in H.
  rewrite Nat.sub_0_r in H. destruct H as (A & B & C).
  assert (E : (k <=? N) = true) by (apply Nat.leb_le; lia). rewrite E in C. destruct C as [C1 C2].
  destruct (exec (polls N) (mkG false (Some (cb_at k)) [])) as [s|s] eqn:E1; cbn [raised state_of] in *; [discriminate|].
  assert (Q : quiet (mkG (g_requested s) (Some cb_count) [])).
  { split; cbn; [assumption|apply cb_count_never_requests]. }
  destruct (exec_quiet (polls N) _ Q) as (s2 & E2 & Q2 & _ & I2 & _).
  assert (Q0 : quiet (mkG false None [])) by (split; cbn; auto).
  destruct (exec_quiet (polls N) _ Q0) as (s0 & E0 & _).
  exists s, s2. unfold api_call, st_init.
  rewrite (exec_all_ok p (mkG false (Some (cb_at k)) [])), (exec_all_ok p (mkG (g_requested s) (Some cb_count) [])),
          (exec_all_ok p (mkG false None [])) by assumption.
  rewrite HN, E1, E2, E0.
  repeat split; auto.
  - apply Q2.
  - rewrite I2, npolls_polls. unfold cb_polls, invocations. cbn. lia.
Qed.

(* ------------------------------------------------------------------ T: no_request_no_throw, cancel_before_poll, pre-request *)
Theorem no_request_no_throw : forall (R : Type) (result : R) (p : prog) (st : gst),
  quiet st ->
  exists st', api_call p result st = (Completed result, st') /\ g_requested st' = false /\ g_callback st' = g_callback st /\
              invocations st' = invocations st + cb_polls st (npolls p) /\ (g_callback st = None -> st' = st).
Proof.
  intros R result p st Q. destruct (exec_quiet p st Q) as (s & E & Qs & C & I & Nn).
  exists s. unfold api_call. rewrite E. repeat split; auto. apply Qs.
Qed.

Theorem cancel_before_poll : forall (R : Type) (result : R) (p : prog) (st : gst),
  match g_callback st with None => True | Some f => never_requests f end ->
  exists st', api_call p result (cancel (request st)) = (Completed result, st') /\ g_requested st' = false.
Proof.
  intros R result p st Hc.
  assert (Q : quiet (cancel (request st))) by (split; [reflexivity|destruct st as [r c h]; exact Hc]).
  destruct (no_request_no_throw R result p _ Q) as (s & E & F & _). exists s; auto.
Qed.

Theorem request_before_call : forall (R : Type) (result : R) (p : prog) (st : gst),
  all_ok p = true -> 1 <= npolls p -> g_requested st = true ->
  match g_callback st with None => True | Some f => never_cancels f end ->
  exists st', api_call p result st = (ErrorValue, st') /\ g_requested st' = false /\
              invocations st' = invocations st + cb_polls st 1.
Proof.
  intros R result p [r c h] Hok Hn Hr Hc. cbn in Hr. subst r. unfold api_call. rewrite exec_all_ok by assumption.
  destruct (npolls p) as [|n]; [lia|]. cbn [polls exec]. rewrite process_unfold. unfold run_callback, cb_polls, invocations. cbn.
  destruct c as [f|]; cbn.
  - cbn in Hc. rewrite (Hc h). cbn. eexists; repeat split; cbn; lia.
  - eexists; repeat split; cbn; lia.
Qed.

(* ------------------------------------------------------------------ Tr: a swallowing catch on the path defeats the interrupt *)
Theorem interrupt_swallowed : forall (R : Type) (result : R) (c : catch) (N n2 k : nat),
  swallows c = true -> 1 <= k <= N ->
  exists st', api_call (Seq (Try (polls N) c) (polls n2)) result (st_init false (Some (cb_at k))) = (Completed result, st') /\
              g_requested st' = false /\ invocations st' = k + n2.
Proof.
  intros R result c N n2 k Hs Hk.
  pose proof (polls_cb_at N k [] ltac:(cbn; lia)) as H. cbv zeta in H. cbn [length] in H.
  rewrite Nat.sub_0_r in H. destruct H as (A & B & C).
  assert (E : (k <=? N) = true) by (apply Nat.leb_le; lia). rewrite E in C. destruct C as [C1 C2].
  unfold api_call, st_init.
  destruct (exec (polls N) (mkG false (Some (cb_at k)) [])) as [s|s] eqn:E1; cbn [raised state_of] in *; [discriminate|].
  rewrite (exec_swallowed _ _ _ _ _ Hs E1).
  destruct s as [r cb h]. cbn in A, B, C2. subst r cb. unfold invocations in C2. cbn in C2.
  pose proof (polls_cb_at_past n2 k h ltac:(lia)) as P. cbv zeta in P. destruct P as (P1 & P2 & P3).
  destruct (exec (polls n2) (mkG false (Some (cb_at k)) h)) as [s|s]; cbn [raised state_of] in *; [|discriminate].
  exists s. repeat split; auto. lia.
Qed.

(* ------------------------------------------------------------------ the predictions printed by ocaml/drv_C14.ml are these theorems *)
Lemma polls_count_quiet : forall N, exec (polls N) (mkG false (Some cb_count) []) = Normal (state_of (exec (polls N) (mkG false (Some cb_count) []))) /\
  g_requested (state_of (exec (polls N) (mkG false (Some cb_count) []))) = false /\
  invocations (state_of (exec (polls N) (mkG false (Some cb_count) []))) = N.
Proof.
  intros N. assert (Q : quiet (mkG false (Some cb_count) [])) by (split; cbn; [auto|apply cb_count_never_requests]).
  destruct (exec_quiet (polls N) _ Q) as (s & E & Qs & _ & I & _). rewrite E. cbn [state_of]. repeat split; [apply Qs|].
  rewrite I, npolls_polls. unfold cb_polls, invocations; cbn. lia.
Qed.

Theorem predict_at_ok : forall N k, 1 <= k <= N -> predict_at N k false 0 = (true, false, k, false, false, N).
Proof.
  intros N k Hk. unfold predict_at, predict_with, op_prog, st_init.
  pose proof (polls_cb_at N k [] ltac:(cbn; lia)) as H. cbv zeta in H. cbn [length] in H.
  rewrite Nat.sub_0_r in H. destruct H as (A & B & C).
  assert (E : (k <=? N) = true) by (apply Nat.leb_le; lia). rewrite E in C. destruct C as [C1 C2].
  rewrite C1, A, C2. destruct (polls_count_quiet N) as (E2 & F2 & I2). rewrite E2. cbn [raised state_of]. rewrite F2, I2. reflexivity.
Qed.

Theorem predict_at_beyond : forall N k, N < k -> predict_at N k false 0 = (false, false, N, false, false, N).
Proof.
  intros N k Hk. unfold predict_at, predict_with, op_prog, st_init.
  pose proof (polls_cb_at N k [] ltac:(cbn; lia)) as H. cbv zeta in H. cbn [length] in H.
  rewrite Nat.sub_0_r in H. destruct H as (A & B & C).
  assert (E : (k <=? N) = false) by (apply Nat.leb_gt; lia). rewrite E in C. destruct C as [C1 C2].
  rewrite C1, A, C2. cbn [plus]. destruct (polls_count_quiet N) as (E2 & F2 & I2). rewrite E2. cbn [raised state_of]. rewrite F2, I2. reflexivity.
Qed.

Theorem predict_at_swallowed : forall N k n2, 1 <= k <= N -> predict_at N k true n2 = (false, false, k + n2, false, false, N).
Proof.
  intros N k n2 Hk. unfold predict_at, predict_with, op_prog.
  destruct (interrupt_swallowed unit tt (mkC true false) N n2 k eq_refl Hk) as (s & E & F & I).
  unfold api_call in E. destruct (exec (Seq (Try (polls N) (mkC true false)) (polls n2)) (st_init false (Some (cb_at k)))) as [s'|s'] eqn:E1; [|discriminate].
  inversion E; subst s'. cbn [raised state_of]. rewrite F, I.
  destruct (polls_count_quiet N) as (E2 & F2 & I2). rewrite E2. cbn [raised state_of]. rewrite F2, I2. reflexivity.
Qed.
