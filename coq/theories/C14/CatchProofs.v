(* C14 — from the computed acceptance of the inventory to the behaviour of programs. *)
From Coq Require Import Bool List String ZArith.
From GeosV.C14 Require Import IntrDefs IntrProofs CatchDefs.
Import ListNotations.

Lemma catch_ok_not_swallows : forall chain inv c,
  catch_ok chain inv c = true -> k_boundary c = false -> on_path c = true -> swallows (to_catch chain inv c) = false.
Proof.
  intros chain inv c H Hb Hp. unfold catch_ok in H. rewrite Hb, Hp in H. cbn [orb negb] in H.
  unfold swallows, to_catch. cbn [c_matches c_rethrows].
  destruct (ty_matches chain (k_ty c)); destruct (shadowed chain inv c); destruct (rethrows c); cbn in *; congruence.
Qed.

Lemma clauses_of_spec : forall e inv c, In c (clauses_of e inv) -> In c inv /\ k_boundary c = false /\ on_path c = true.
Proof.
  intros e inv c H. unfold clauses_of in H. apply filter_In in H as [Hin H].
  apply andb_prop in H as [H _]. apply andb_prop in H as [H1 H2]. apply negb_true_iff in H1. auto.
Qed.

(* T interrupt_reaches_boundary: if the (non-exempt) inventory is accepted and no clause under entry point e is exempt, then whatever
   clauses enclose the body, an exception raised at a poll of the body leaves them all: the wrapped program behaves like the body. *)
Theorem reaches_boundary : forall chain keys inv e body st,
  inventory_ok chain keys inv = true ->
  forallb (fun c => negb (exempt keys c)) (clauses_of e inv) = true ->
  exec (wrap (map (to_catch chain inv) (clauses_of e inv)) body) st = exec body st.
Proof.
  intros chain keys inv e body st Hinv Hex. apply exec_wrap_ok.
  rewrite forallb_forall. intros a Ha. apply in_map_iff in Ha as (c & <- & Hc).
  apply negb_true_iff. destruct (clauses_of_spec _ _ _ Hc) as (Hin & Hb & Hp).
  apply catch_ok_not_swallows; auto.
  unfold inventory_ok in Hinv. rewrite forallb_forall in Hinv. apply Hinv.
  apply filter_In. split; [assumption|]. rewrite forallb_forall in Hex. apply Hex. assumption.
Qed.

(* and the converse shape: a clause that is on the path, matches, is first, does not rethrow -- swallows *)
Lemma not_ok_swallows : forall chain inv c,
  catch_ok chain inv c = false -> swallows (to_catch chain inv c) = true /\ on_path c = true /\ k_boundary c = false.
Proof.
  intros chain inv c H. unfold catch_ok in H.
  destruct (k_boundary c); [discriminate|]. cbn [orb] in H.
  destruct (ty_matches chain (k_ty c)) eqn:M; [|discriminate]. cbn [negb orb] in H.
  destruct (shadowed chain inv c) eqn:S; [discriminate|]. cbn [orb] in H.
  destruct (rethrows c) eqn:R; [discriminate|]. cbn [orb] in H. apply negb_false_iff in H.
  unfold swallows, to_catch. cbn. rewrite M, S, R. auto.
Qed.
