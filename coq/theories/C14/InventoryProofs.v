(* C14 — facts closed BY COMPUTATION on the generated inventory (Gen/C14_Inventory.v is rewritten from /repo's source on every run;
   when the source gains a clause that can swallow the interrupt exception, `inventory_accepted` stops being provable). *)
From Coq Require Import Bool List String ZArith.
From GeosV.C14 Require Import IntrDefs IntrProofs CatchDefs CatchProofs.
From GeosV.Gen Require Import C14_Inventory.
Import ListNotations.
Local Open Scope string_scope.

(* every catch clause on a call path from a C API entry point to a checkpoint lets the interrupt exception through
   (clauses listed as known findings excepted) *)
Lemma inventory_accepted : inventory_ok chain exempt_keys inventory = true.
Proof. vm_compute. reflexivity. Qed.

(* hence, under any entry point none of whose clauses is exempt, an exception raised at a poll reaches the boundary *)
Lemma reaches_boundary_generated : forall e body st,
  forallb (fun c => negb (exempt exempt_keys c)) (clauses_of e inventory) = true ->
  exec (wrap (map (to_catch chain inventory) (clauses_of e inventory)) body) st = exec body st.
Proof. intros e body st H. apply reaches_boundary with (keys := exempt_keys); [exact inventory_accepted|exact H]. Qed.

(* the generated data are not degenerate: the exception chain was read up to std::exception, there are checkpoints,
   the C API boundary clauses were found, and the boundary converts for entry points that can be interrupted *)
Lemma inventory_wellformed :
  hd "" chain = "InterruptedException" /\ existsb (String.eqb "runtime_error") chain = true /\ existsb (String.eqb "exception") chain = true /\
  (10 <=? List.length sites)%nat = true /\ existsb k_boundary inventory = true /\
  existsb (fun e => e_interruptible e && String.eqb (e_errval e) "nullptr") entry_points = true /\
  existsb (fun e => e_interruptible e && String.eqb (e_errval e) "2") entry_points = true.
Proof. vm_compute. repeat split; reflexivity. Qed.
