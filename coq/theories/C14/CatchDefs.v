(* C14 — the catch-clause inventory: record type of the GENERATED file Gen/C14_Inventory.v (props/C14.py, from /repo's source
   on every run) and the executable acceptance test `catch_ok`.

   A clause is harmless for the interrupt exception iff
     it is the C API boundary itself (capi: converts the exception into the error value),  or
     its declared type is not `...` and not a base of InterruptedException (chain read from the class heads),  or
     an earlier clause of the same try already matches (C++ selects the first matching handler),  or
     its handler rethrows unconditionally,  or
     it is not on a call path from a C API entry point to a checkpoint. *)
From Coq Require Import Bool List String ZArith.
From GeosV.C14 Require Import IntrDefs.
Import ListNotations.
Local Open Scope string_scope.

Inductive action := Rethrow | RethrowCond | Convert | Swallow.

Record catch_rec := mkCatch {
  k_file : string; k_line : Z; k_func : string;   (* where *)
  k_try : Z; k_index : Z;                         (* which try statement (numbered), position among its handlers *)
  k_ty : string;                                  (* declared exception type, unqualified; "..." for catch-all *)
  k_action : action;                              (* what the handler does with the exception *)
  k_boundary : bool;                              (* C API boundary: reports the message and returns the error value *)
  k_polls : bool;                                 (* the try block can reach a checkpoint *)
  k_entries : list string                         (* C API entry points from which the enclosing function is reachable *)
}.

Definition ty_matches (chain : list string) (ty : string) : bool := String.eqb ty "..." || existsb (String.eqb ty) chain.
Definition on_path (c : catch_rec) : bool := k_polls c && match k_entries c with [] => false | _ => true end.
Definition shadowed (chain : list string) (inv : list catch_rec) (c : catch_rec) : bool :=
  existsb (fun d => Z.eqb (k_try d) (k_try c) && Z.ltb (k_index d) (k_index c) && ty_matches chain (k_ty d)) inv.
Definition rethrows (c : catch_rec) : bool := match k_action c with Rethrow => true | _ => false end.

Definition catch_ok (chain : list string) (inv : list catch_rec) (c : catch_rec) : bool :=
  k_boundary c || negb (ty_matches chain (k_ty c)) || shadowed chain inv c || rethrows c || negb (on_path c).

(* the abstract clause of IntrDefs.prog: a shadowed clause never sees the interrupt exception *)
Definition to_catch (chain : list string) (inv : list catch_rec) (c : catch_rec) : catch :=
  mkC (ty_matches chain (k_ty c) && negb (shadowed chain inv c)) (rethrows c).

(* known findings are exempted by site (file, function, caught type) -- never by line number *)
Definition exempt (keys : list (string * string * string)) (c : catch_rec) : bool :=
  existsb (fun k => match k with (f, fn, ty) => String.eqb f (k_file c) && String.eqb fn (k_func c) && String.eqb ty (k_ty c) end) keys.

(* the inner clauses an exception raised under entry point `e` can meet *)
Definition clauses_of (e : string) (inv : list catch_rec) : list catch_rec :=
  filter (fun c => negb (k_boundary c) && on_path c && existsb (String.eqb e) (k_entries c)) inv.

Definition inventory_ok (chain : list string) (keys : list (string * string * string)) (inv : list catch_rec) : bool :=
  forallb (catch_ok chain inv) (filter (fun c => negb (exempt keys c)) inv).

(* entry points: name, error value handed to execute(...), can reach a checkpoint *)
Record entry_rec := mkEntry { e_name : string; e_errval : string; e_interruptible : bool }.
Record site_rec := mkSite { s_file : string; s_line : Z; s_func : string }.
