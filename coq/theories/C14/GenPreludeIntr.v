(* Meaning of the names used by the generated units Gen/Intr_*.v (translator/units/C14.py):
   file-scope statics of Interrupt.cpp as fields of the threaded state, the exception monad `ok | throw | bind`,
   a call through the registered function pointer. *)
From GeosV.C14 Require Export IntrDefs.

Definition isnonnull (o : option cbfun) : bool := match o with Some _ => true | None => false end.
Definition ok (st : gst) : res := Normal st.
Definition throw (st : gst) : res := Raised st.
Definition bind (r : res) (k : gst -> res) : res := match r with Normal s => k s | Raised s => Raised s end.
(* call through the registered function pointer: user code runs; a C callback cannot throw through the C API *)
Definition call_g_callback (st : gst) : res := Normal (run_callback st).
