(* C16/B64Defs — TrianglePredicate::isInCircleRobust as it is computed: IEEE-754 binary64, round to nearest even, on the
   proof-free carrier SpecFloat.spec_float (Lib/GenPreludeF gives add/sub/mul/abs/comparisons their meaning).
   DEFINITIONS ONLY.  Gen/TP_isInCircleRobust.v (regenerated from the C++ on every run) is proved equal to robust_b64 in
   C16/B64.v; the extracted robust_b64 is run bit-for-bit beside the real function (harness/c16.cpp, mode P). *)
From Coq Require Import ZArith List Bool Floats.SpecFloat.
From GeosV.Lib Require Import KernelDefs GenPreludeF.
From GeosV.C16 Require Import Defs.
Import ListNotations.
Local Open Scope Z_scope.

(* 9.99200719823023e-16 : bit pattern and exact value 633318696116067 / 2^99 of the nearest binary64 *)
Definition err_factor : spec_float := flit 4382565387373050648 633318696116067 633825300114114700748351602688.

Definition det_b64 (q p r t : fpt) : spec_float * spec_float :=
  let qpx := sub (f_x q) (f_x p) in let qpy := sub (f_y q) (f_y p) in
  let rpx := sub (f_x r) (f_x p) in let rpy := sub (f_y r) (f_y p) in
  let tpx := sub (f_x t) (f_x p) in let tpy := sub (f_y t) (f_y p) in
  let tqx := sub (f_x t) (f_x q) in let tqy := sub (f_y t) (f_y q) in
  let rqx := sub (f_x r) (f_x q) in let rqy := sub (f_y r) (f_y q) in
  let qpxtpy := mul qpx tpy in let qpytpx := mul qpy tpx in
  let tpxtqx := mul tpx tqx in let tpytqy := mul tpy tqy in
  let qpxrpy := mul qpx rpy in let qpyrpx := mul qpy rpx in
  let rpxrqx := mul rpx rqx in let rpyrqy := mul rpy rqy in
  let d := sub (mul (sub qpxtpy qpytpx) (add rpxrqx rpyrqy)) (mul (sub qpxrpy qpyrpx) (add tpxtqx tpytqy)) in
  let e := mul (add (mul (add (c_abs_1 qpxtpy) (c_abs_1 qpytpx)) (add (c_abs_1 rpxrqx) (c_abs_1 rpyrqy)))
                    (mul (add (c_abs_1 qpxrpy) (c_abs_1 qpyrpx)) (add (c_abs_1 tpxtqx) (c_abs_1 tpytqy)))) err_factor in
  (d, e).

(* geom::Location codes: 0 INTERIOR, 1 BOUNDARY, 2 EXTERIOR.  (det > deterror) - (det < -deterror) + 1 *)
Definition robust_b64 (q p r t : fpt) : Z :=
  let '(d, e) := det_b64 q p r t in
  Z.b2z (gtb d e) - Z.b2z (ltb d (neg e)) + 1.
(* isInCircleNonRobust(p, q, r, t): the same expression, its first two parameters are named the other way round *)
Definition nonrobust_b64 (p q r t : fpt) : Z :=
  let '(d, _) := det_b64 q p r t in
  Z.b2z (gtb d (ofZ 0)) - Z.b2z (ltb d (ofZ 0)) + 1.

Definition fpt_of_pt (a : pt) : fpt := mk_fpt (ofZ (fst a)) (ofZ (snd a)).
Definition fpt_of_bits (x y : Z) : fpt := mk_fpt (of_bits x) (of_bits y).
Definition robust_grid (q p r t : pt) : Z := robust_b64 (fpt_of_pt q) (fpt_of_pt p) (fpt_of_pt r) (fpt_of_pt t).

(* the exact answer on grid points, with the Location coding of the implementation *)
Definition exact_loc (q p r t : pt) : Z := 1 + Z.sgn (geos_incircle q p r t).

(* diagnosis of a locally non-Delaunay edge (u, w, o, d) (Defs.local_violations): o left of u->w, d right of it.
   IncrementalDelaunayTriangulator::insertSite tests the edge opposite the inserted vertex v with
   v.isInCircle(e.orig, t.dest, e.dest) = isInCircleRobust(e.orig, <corner across>, e.dest, v); the last test of a surviving
   edge was made when the later of its two opposite corners was inserted, so it was one of the two evaluations below.
   The edge is "band-blind" when at least one of them does not answer INTERIOR although the exact determinant says so. *)
Definition band_blind (uwod : pt * pt * pt * pt) : bool :=
  let '(u, w, o, d) := uwod in
  negb (robust_grid u d w o =? 0) || negb (robust_grid w o u d =? 0).

(* quadruples of a (small) site set on which the predicate is blind: d is strictly inside or strictly outside the circle of the
   non-degenerate triangle abc, yet some rotation of the counter-clockwise triangle makes isInCircleRobust answer BOUNDARY *)
Definition band_quad (a b c d : pt) : bool :=
  let t := tri_ccw (a, b, c) in
  negb (tri_det t =? 0) && negb (tri_incircle t d =? 0)
  && ((robust_grid (t_a t) (t_b t) (t_c t) d =? 1) || (robust_grid (t_b t) (t_c t) (t_a t) d =? 1)
      || (robust_grid (t_c t) (t_a t) (t_b t) d =? 1)).
Fixpoint tails {A} (l : list A) : list (A * list A) := match l with [] => [] | a :: r => (a, r) :: tails r end.
Definition triples {A} (l : list A) : list (A * A * A) :=
  flat_map (fun ar => flat_map (fun br => map (fun c => (fst ar, fst br, c)) (snd br)) (tails (snd ar))) (tails l).
Definition band_quads (sites : list pt) : list (pt * pt * pt * pt) :=
  flat_map (fun abc => let '(a, b, c) := abc in
     flat_map (fun d => if mem_pt d [a; b; c] then [] else if band_quad a b c d then [(a, b, c, d)] else []) sites) (triples sites).

(* binary64 -> dyadic rational m * 2^e (None for non-finite) *)
Definition dyadic_of (x : spec_float) : option (Z * Z) :=
  match x with
  | S754_zero _ => Some (0, 0)
  | S754_finite s m e => Some ((if s then Zneg m else Zpos m), e)
  | _ => None
  end.
Definition min_exp (l : list (Z * Z)) : Z := fold_right (fun me acc => if fst me =? 0 then acc else Z.min (snd me) acc) 0 l.
(* m * 2^e in units of 2^emin (emin <= e) *)
Definition scale_dy (emin : Z) (me : Z * Z) : Z := if fst me =? 0 then 0 else fst me * 2 ^ (snd me - emin).
