(* C16/Mesh — what the mesh checkers of C16/Defs.v establish.
   * reflection of every clause of check_delaunay / check_cdt1 / check_edges / check_disjoint into a Prop
   * manifold_area: counter-clockwise triangles + no directed edge twice + boundary edges = a given duplicate-free edge list
       =>  sum of the triangle determinants = shoelace sum of that list (interior edges cancel in pairs)
   * separating-edge test => no rational point strictly inside both triangles
   * corners in a half-plane => every point of the closed triangle in that half-plane (triangles lie in the hull)
   The remaining step of "the triangles tile the region" — every point of the region is covered — is the covering-degree
   argument; it is stated at the end (covering_statement) and NOT proved: see manifold_area_tiling_partial. *)
From Coq Require Import ZArith List Bool Lia Permutation.
From GeosV.Lib Require Import KernelDefs.
From GeosV.C16 Require Import Defs.
Import ListNotations.
Local Open Scope Z_scope.

(* ------------------------------------------------------------------ reflection *)
Lemma pt_eqb_eq : forall a b : pt, pt_eqb a b = true <-> a = b.
Proof.
  intros [ax ay] [bx by_]. unfold pt_eqb; cbn [fst snd]. rewrite andb_true_iff, !Z.eqb_eq.
  split; [ intros [-> ->]; reflexivity | intros E; inversion E; auto ].
Qed.
Lemma edge_eqb_eq : forall e f : edge, edge_eqb e f = true <-> e = f.
Proof.
  intros [a b] [c d]. unfold edge_eqb; cbn [fst snd]. rewrite andb_true_iff, !pt_eqb_eq.
  split; [ intros [-> ->]; reflexivity | intros E; inversion E; auto ].
Qed.
Lemma mem_pt_In : forall p l, mem_pt p l = true <-> In p l.
Proof.
  intros p l. unfold mem_pt. rewrite existsb_exists. split.
  - intros [x [Hx E]]. apply pt_eqb_eq in E. subst; exact Hx.
  - intros H. exists p. split; [ exact H | apply pt_eqb_eq; reflexivity ].
Qed.
Lemma mem_edge_In : forall e l, mem_edge e l = true <-> In e l.
Proof.
  intros e l. unfold mem_edge. rewrite existsb_exists. split.
  - intros [x [Hx E]]. apply edge_eqb_eq in E. subst; exact Hx.
  - intros H. exists e. split; [ exact H | apply edge_eqb_eq; reflexivity ].
Qed.
Lemma mem_edge_false : forall e l, mem_edge e l = false <-> ~ In e l.
Proof. intros e l. rewrite <- mem_edge_In. destruct (mem_edge e l); split; congruence. Qed.
Lemma mem_pt_false : forall e l, mem_pt e l = false <-> ~ In e l.
Proof. intros e l. rewrite <- mem_pt_In. destruct (mem_pt e l); split; congruence. Qed.
Lemma nodup_edges_NoDup : forall l, nodup_edges l = true -> NoDup l.
Proof.
  induction l as [ | e r IH ]; cbn [nodup_edges]; intros H; [ constructor | ].
  apply andb_true_iff in H. destruct H as [H1 H2]. apply negb_true_iff in H1. apply mem_edge_false in H1.
  constructor; auto.
Qed.
Lemma nodup_ptsb_NoDup : forall l, nodup_ptsb l = true -> NoDup l.
Proof.
  induction l as [ | e r IH ]; cbn [nodup_ptsb]; intros H; [ constructor | ].
  apply andb_true_iff in H. destruct H as [H1 H2]. apply negb_true_iff in H1. apply mem_pt_false in H1.
  constructor; auto.
Qed.

Lemma eswap_invol : forall e, eswap (eswap e) = e.
Proof. intros [a b]; reflexivity. Qed.
Lemma cross_eswap : forall e, cross (eswap e) = - cross e.
Proof. intros [[ax ay] [bx by_]]. unfold cross, eswap; cbn [fst snd]. ring. Qed.

(* ------------------------------------------------------------------ sums *)
Lemma zsum_app : forall l1 l2, zsum (l1 ++ l2) = zsum l1 + zsum l2.
Proof.
  induction l1 as [ | a r IH ]; intros l2; [ reflexivity | ].
  change (zsum ((a :: r) ++ l2)) with (a + zsum (r ++ l2)). change (zsum (a :: r)) with (a + zsum r). rewrite IH. lia.
Qed.
Lemma zsum_cons : forall a l, zsum (a :: l) = a + zsum l.
Proof. reflexivity. Qed.
Lemma zsum_perm : forall l1 l2, Permutation l1 l2 -> zsum l1 = zsum l2.
Proof. induction 1; rewrite ?zsum_cons in *; lia. Qed.
Lemma zsum_filter_split : forall {A} (f : A -> Z) (p : A -> bool) l,
  zsum (map f l) = zsum (map f (filter p l)) + zsum (map f (filter (fun x => negb (p x)) l)).
Proof.
  intros A f p. induction l as [ | a r IH ]; [ reflexivity | ].
  cbn [map filter]. destruct (p a); cbn [negb map]; rewrite !zsum_cons; lia.
Qed.

Lemma tri_det_cross : forall t, tri_det t = zsum (map cross (tri_edges t)).
Proof.
  intros [[[ax ay] [bx by_]] [cx cy]]. unfold tri_det, tri_edges, t_a, t_b, t_c, det, cross, zsum; cbn [fst snd map fold_right]. ring.
Qed.
Lemma area_sum_cross : forall ts, area_sum ts = zsum (map cross (dedges ts)).
Proof.
  unfold area_sum, dedges. induction ts as [ | t r IH ]; [ reflexivity | ].
  cbn [map flat_map]. rewrite map_app, zsum_app, zsum_cons, IH, tri_det_cross. reflexivity.
Qed.

(* shoelace of a closed ring = sum of the crosses of its cycle edges *)
Lemma combine_app_l : forall {A B} (l1 l2 : list A) (l' : list B), length l1 = length l' -> combine (l1 ++ l2) l' = combine l1 l'.
Proof.
  intros A B. induction l1 as [ | a r IH ]; intros l2 l' H.
  - destruct l'; [ destruct l2; reflexivity | discriminate ].
  - destruct l' as [ | b r' ]; [ discriminate | ]. cbn [app combine]. f_equal. apply IH. cbn in H; lia.
Qed.
Lemma area2_cycle : forall h, area2 (close_ring h) = zsum (map cross (cycle_edges h)).
Proof.
  intros [ | a r ]; [ reflexivity | ].
  unfold close_ring, cycle_edges, area2, segs. cbn [tl app].
  replace (combine (a :: r ++ [a]) (r ++ [a])) with (combine (a :: r) (r ++ [a])).
  2:{ change (a :: r ++ [a]) with ((a :: r) ++ [a]). symmetry. apply combine_app_l. rewrite app_length; cbn; lia. }
  generalize (combine (a :: r) (r ++ [a])). intros l. induction l as [ | s l IH ]; [ reflexivity | ].
  cbn [fold_right map]. rewrite zsum_cons, <- IH. unfold cross. reflexivity.
Qed.

Lemma cycle_edges_fst : forall h, map fst (cycle_edges h) = h.
Proof.
  intros [ | a r ]; [ reflexivity | ]. unfold cycle_edges. cbn [tl].
  assert (G : forall (l l' : list pt), length l = length l' -> map fst (combine l l') = l).
  { induction l as [ | x l IH ]; intros [ | y l' ] H; try discriminate; [ reflexivity | ]. cbn. f_equal. apply IH. cbn in H; lia. }
  apply G. rewrite app_length; cbn; lia.
Qed.
Lemma cycle_edges_NoDup : forall h, NoDup h -> NoDup (cycle_edges h).
Proof.
  intros h H. apply (NoDup_map_inv fst). rewrite cycle_edges_fst. exact H.
Qed.

(* ------------------------------------------------------------------ the area identity *)
Definition boundary_spec (E B : list edge) : Prop := forall e, In e B <-> (In e E /\ ~ In (eswap e) E).

Lemma boundary_ok_spec : forall E B, boundary_ok E B = true -> boundary_spec E B.
Proof.
  intros E B H. unfold boundary_ok in H. apply andb_true_iff in H. destruct H as [H1 H2].
  rewrite forallb_forall in H1, H2. intros e. split.
  - intros He. specialize (H1 e He). apply andb_true_iff in H1. destruct H1 as [Ha Hb].
    apply mem_edge_In in Ha. apply negb_true_iff in Hb. apply mem_edge_false in Hb. split; assumption.
  - intros [He Hn]. specialize (H2 e He). apply orb_true_iff in H2. destruct H2 as [Hs | Hb].
    + apply mem_edge_In in Hs. contradiction.
    + apply mem_edge_In in Hb. exact Hb.
Qed.

Lemma interior_cancel : forall E, NoDup E ->
  zsum (map cross (filter (fun e => mem_edge (eswap e) E) E)) = 0.
Proof.
  intros E HE. set (I := filter (fun e => mem_edge (eswap e) E) E).
  assert (HI : NoDup I) by (apply NoDup_filter; exact HE).
  assert (Hin : forall x, In x I <-> In x E /\ In (eswap x) E).
  { intros x. unfold I. rewrite filter_In, mem_edge_In. tauto. }
  assert (P : Permutation (map eswap I) I).
  { apply NoDup_Permutation; [ | exact HI | ].
    - apply FinFun.Injective_map_NoDup; [ | exact HI ].
      intros x y Hxy. rewrite <- (eswap_invol x), <- (eswap_invol y), Hxy. reflexivity.
    - intros x. rewrite in_map_iff. split.
      + intros [y [<- Hy]]. apply Hin in Hy. apply Hin. rewrite eswap_invol. tauto.
      + intros Hx. exists (eswap x). split; [ apply eswap_invol | ]. apply Hin in Hx. apply Hin. rewrite eswap_invol. tauto. }
  assert (S : zsum (map cross (map eswap I)) = - zsum (map cross I)).
  { clear. induction I as [ | e r IH ]; [ reflexivity | ]. cbn [map]. rewrite !zsum_cons, IH, cross_eswap. lia. }
  pose proof (zsum_perm _ _ (Permutation_map cross P)) as Q. lia.
Qed.

Theorem manifold_cross : forall E B, NoDup E -> NoDup B -> boundary_spec E B ->
  zsum (map cross E) = zsum (map cross B).
Proof.
  intros E B HE HB HS.
  rewrite (zsum_filter_split cross (fun e => mem_edge (eswap e) E) E), (interior_cancel E HE), Z.add_0_l.
  apply zsum_perm, Permutation_map, NoDup_Permutation; [ apply NoDup_filter; exact HE | exact HB | ].
  intros x. rewrite filter_In, negb_true_iff, mem_edge_false. symmetry. apply HS.
Qed.

(* counter-clockwise triangles, each directed edge at most once, boundary edges = the cycle h  =>  area sum = area of h *)
Theorem manifold_area : forall ts h, NoDup (dedges ts) -> NoDup h -> boundary_spec (dedges ts) (cycle_edges h) ->
  area_sum ts = area2 (close_ring h).
Proof.
  intros ts h HE Hh HS. rewrite area_sum_cross, area2_cycle. apply manifold_cross; auto using cycle_edges_NoDup.
Qed.

(* ------------------------------------------------------------------ convexity facts (homogeneous points) *)
(* p in the closed / open triangle t (t counter-clockwise) *)
Definition qclosed (p : qpt) (t : tri) : Prop :=
  0 < qw p /\ 0 <= qdet (t_a t) (t_b t) p /\ 0 <= qdet (t_b t) (t_c t) p /\ 0 <= qdet (t_c t) (t_a t) p.
Definition qstrict (p : qpt) (t : tri) : Prop :=
  0 < qw p /\ 0 < qdet (t_a t) (t_b t) p /\ 0 < qdet (t_b t) (t_c t) p /\ 0 < qdet (t_c t) (t_a t) p.

(* barycentric identity: an affine function of p, weighted by the triangle's determinant *)
Lemma qdet_barycentric : forall a b v1 v2 v3 p,
  qdet a b p * det v1 v2 v3 = qdet v2 v3 p * det a b v1 + qdet v3 v1 p * det a b v2 + qdet v1 v2 p * det a b v3.
Proof.
  intros [ax ay] [bx by_] [x1 y1] [x2 y2] [x3 y3] [px py pw]. unfold qdet, det; cbn [fst snd qx qy qw]. ring.
Qed.

(* all corners on the right of (or on) the line of e  =>  no point strictly inside t is strictly left of e *)
Lemma sep_edge_sound : forall e t p, 0 < tri_det t -> sep_edge e t = true -> qstrict p t -> qdet (fst e) (snd e) p <= 0.
Proof.
  intros e [[v1 v2] v3] p HD HS [Hw [H1 [H2 H3]]].
  unfold sep_edge, tri_corners, t_a, t_b, t_c in *; cbn [fst snd forallb] in *.
  rewrite !andb_true_iff, !Z.leb_le in HS. destruct HS as [S1 [S2 [S3 _]]].
  pose proof (qdet_barycentric (fst e) (snd e) v1 v2 v3 p) as B. unfold tri_det, t_a, t_b, t_c in HD; cbn [fst snd] in HD.
  nia.
Qed.

(* all corners on the left of (or on) the line a b  =>  every point of the closed triangle is *)
Lemma halfplane_convex : forall a b t p, 0 < tri_det t ->
  (forall v, In v (tri_corners t) -> 0 <= det a b v) -> qclosed p t -> 0 <= qdet a b p.
Proof.
  intros a b [[v1 v2] v3] p HD HC [Hw [H1 [H2 H3]]].
  unfold tri_det, tri_corners, t_a, t_b, t_c in *; cbn [fst snd] in *.
  pose proof (HC v1 (or_introl eq_refl)) as C1. pose proof (HC v2 (or_intror (or_introl eq_refl))) as C2.
  pose proof (HC v3 (or_intror (or_intror (or_introl eq_refl)))) as C3.
  pose proof (qdet_barycentric a b v1 v2 v3 p) as B.
  pose proof (Z.mul_nonneg_nonneg _ _ H2 C1) as P1. pose proof (Z.mul_nonneg_nonneg _ _ H3 C2) as P2.
  pose proof (Z.mul_nonneg_nonneg _ _ H1 C3) as P3.
  destruct (Z.lt_ge_cases (qdet a b p) 0) as [N | N]; [ | exact N ].
  pose proof (Z.mul_neg_pos _ _ N HD) as Q. lia.
Qed.

Definition interior_disjoint (t1 t2 : tri) : Prop := forall p, qstrict p t1 -> qstrict p t2 -> False.

Lemma tri_disjointb_sound : forall t1 t2, 0 < tri_det t1 -> 0 < tri_det t2 -> tri_disjointb t1 t2 = true -> interior_disjoint t1 t2.
Proof.
  intros t1 t2 D1 D2 H p P1 P2. unfold tri_disjointb in H. apply orb_true_iff in H. destruct H as [H | H].
  - apply existsb_exists in H. destruct H as [e [He Hs]].
    pose proof (sep_edge_sound e t2 p D2 Hs P2) as L.
    destruct P1 as [_ [A [B C]]]. unfold tri_edges in He. cbn [In] in He.
    destruct He as [<- | [<- | [<- | []]]]; cbn [fst snd] in L; lia.
  - apply existsb_exists in H. destruct H as [e [He Hs]].
    pose proof (sep_edge_sound e t1 p D1 Hs P1) as L.
    destruct P2 as [_ [A [B C]]]. unfold tri_edges in He. cbn [In] in He.
    destruct He as [<- | [<- | [<- | []]]]; cbn [fst snd] in L; lia.
Qed.

Lemma pairwiseb_sound : forall {A} (f : A -> A -> bool) l, pairwiseb f l = true -> ForallOrdPairs (fun a b => f a b = true) l.
Proof.
  intros A f. induction l as [ | a r IH ]; intros H; [ constructor | ].
  cbn [pairwiseb] in H. apply andb_true_iff in H. destruct H as [H1 H2].
  constructor; [ apply Forall_forall; rewrite forallb_forall in H1; exact H1 | apply IH; exact H2 ].
Qed.

Lemma det_swap_bc : forall a b c, det a c b = - det a b c.
Proof. intros [ax ay] [bx by_] [cx cy]. unfold det; cbn [fst snd]. ring. Qed.
Lemma tri_ccw_pos : forall t, tri_det t <> 0 -> 0 < tri_det (tri_ccw t).
Proof.
  intros [[a b] c] H. unfold tri_ccw. destruct (Z.ltb_spec (tri_det (a, b, c)) 0) as [L | L].
  - unfold tri_det, t_a, t_b, t_c in *; cbn [fst snd] in *. rewrite det_swap_bc. lia.
  - lia.
Qed.
Lemma tri_ccw_corners : forall t v, In v (tri_corners (tri_ccw t)) <-> In v (tri_corners t).
Proof.
  intros [[a b] c] v. unfold tri_ccw. destruct (tri_det (a, b, c) <? 0); [ | tauto ].
  unfold tri_corners, t_a, t_b, t_c; cbn [fst snd In]. tauto.
Qed.

(* the pairwise check: any two triangles at different positions of the list have disjoint interiors *)
Theorem check_disjoint_sound : forall tris, (forall t, In t tris -> tri_det t <> 0) -> check_disjoint tris = true ->
  ForallOrdPairs interior_disjoint (map tri_ccw tris).
Proof.
  intros tris HD H. unfold check_disjoint in H. apply pairwiseb_sound in H.
  assert (P : forall t, In t (map tri_ccw tris) -> 0 < tri_det t).
  { intros t Ht. apply in_map_iff in Ht. destruct Ht as [u [<- Hu]]. apply tri_ccw_pos, HD, Hu. }
  revert H P. generalize (map tri_ccw tris). intros l H. induction H as [ | a r Ha Hr IH ]; intros P; [ constructor | ].
  constructor.
  - rewrite Forall_forall in *. intros b Hb. apply tri_disjointb_sound; [ apply P; left; reflexivity | apply P; right; exact Hb | apply Ha; exact Hb ].
  - apply IH. intros t Ht. apply P. right. exact Ht.
Qed.

(* ------------------------------------------------------------------ Delaunay specification and checker soundness *)
Definition hull_cycle (sites h : list pt) : Prop :=
  (forall v, In v h -> In v sites)
  /\ (forall e, In e (cycle_edges h) -> forall s, In s sites -> 0 <= det (fst e) (snd e) s)
  /\ 0 < area2 (close_ring h) /\ NoDup h.

Lemma is_hull_cycleb_spec : forall sites h, is_hull_cycleb sites h = true -> hull_cycle sites h.
Proof.
  intros sites h H. unfold is_hull_cycleb in H. rewrite !andb_true_iff in H. destruct H as [[[H1 H2] H3] H4].
  rewrite forallb_forall in H1, H2. repeat split.
  - intros v Hv. apply mem_pt_In, H1, Hv.
  - intros e He s Hs. specialize (H2 e He). rewrite forallb_forall in H2. apply Z.leb_le, H2, Hs.
  - apply Z.ltb_lt, H3.
  - apply nodup_ptsb_NoDup, H4.
Qed.

Record DelaunaySpec (tol2 : Z) (sites : list pt) (ts : list tri) : Prop := {
  ds_some : ts <> [];
  ds_nondeg : forall t, In t ts -> 0 < tri_det t;                      (* counter-clockwise, non-degenerate *)
  ds_corners : forall v, In v (corners ts) -> In v sites;              (* corners are input sites *)
  ds_sites : forall s, In s sites -> In s (corners ts) \/ exists r, In r (corners ts) /\ dist2 s r < tol2;
  ds_manifold : NoDup (dedges ts);                                     (* no directed edge twice *)
  ds_boundary : exists h, hull_cycle (corners ts) h /\ boundary_spec (dedges ts) (cycle_edges h)
                          /\ area_sum ts = area2 (close_ring h);       (* boundary = hull cycle; exact area *)
  ds_circle : forall t s, In t ts -> In s (corners ts) -> tri_incircle t s <= 0 }.

Lemma forallb_snd_cons : forall (c : Z * bool) l, forallb snd (c :: l) = true -> snd c = true /\ forallb snd l = true.
Proof. intros c l H. cbn [forallb] in H. apply andb_true_iff in H. exact H. Qed.

Theorem check_delaunay_sound : forall tol2 sites tris, check_delaunay tol2 sites tris = true ->
  DelaunaySpec tol2 sites (map tri_ccw tris).
Proof.
  intros tol2 sites tris H. unfold check_delaunay, delaunay_clauses in H.
  apply forallb_snd_cons in H; destruct H as [C0 H]. apply forallb_snd_cons in H; destruct H as [C1 H].
  apply forallb_snd_cons in H; destruct H as [C2 H]. apply forallb_snd_cons in H; destruct H as [C3 H].
  apply forallb_snd_cons in H; destruct H as [C4 H]. apply forallb_snd_cons in H; destruct H as [C5 H].
  apply forallb_snd_cons in H; destruct H as [C6 H]. apply forallb_snd_cons in H; destruct H as [C7 H].
  apply forallb_snd_cons in H; destruct H as [C8 _]. cbn [snd] in *.
  apply is_hull_cycleb_spec in C5. apply boundary_ok_spec in C6.
  constructor.
  - destruct tris; [ discriminate | discriminate ].
  - intros t Ht. rewrite forallb_forall in C1. apply Z.ltb_lt, C1, Ht.
  - intros v Hv. rewrite forallb_forall in C2. apply mem_pt_In, C2, Hv.
  - intros s Hs. unfold snapped_ok in C3. rewrite forallb_forall in C3. specialize (C3 s Hs).
    apply orb_true_iff in C3. destruct C3 as [K | K].
    + left. apply mem_pt_In, K.
    + right. apply existsb_exists in K. destruct K as [r [Hr Hd]]. exists r. split; [ exact Hr | apply Z.ltb_lt, Hd ].
  - apply nodup_edges_NoDup, C4.
  - exists (hull (corners (map tri_ccw tris))). split; [ exact C5 | split; [ exact C6 | apply Z.eqb_eq, C7 ] ].
  - intros t s Ht Hs. unfold empty_circleb in C8. rewrite forallb_forall in C8. specialize (C8 t Ht).
    rewrite forallb_forall in C8. apply Z.leb_le, C8, Hs.
Qed.

(* what the specification implies without further checking *)
Theorem delaunay_area_from_manifold : forall tol2 sites ts, DelaunaySpec tol2 sites ts ->
  forall h, NoDup h -> boundary_spec (dedges ts) (cycle_edges h) -> area_sum ts = area2 (close_ring h).
Proof. intros tol2 sites ts S h Hh Hb. apply manifold_area; [ apply (ds_manifold _ _ _ S) | exact Hh | exact Hb ]. Qed.

(* every point of every triangle lies in the hull polygon (on the inner side of every hull edge) *)
Theorem delaunay_triangles_in_hull : forall tol2 sites ts, DelaunaySpec tol2 sites ts ->
  exists h, hull_cycle (corners ts) h /\
    forall t p e, In t ts -> qclosed p t -> In e (cycle_edges h) -> 0 <= qdet (fst e) (snd e) p.
Proof.
  intros tol2 sites ts S. destruct (ds_boundary _ _ _ S) as [h [Hh _]]. exists h. split; [ exact Hh | ].
  intros t p e Ht Hp He. apply (halfplane_convex (fst e) (snd e) t p); [ apply (ds_nondeg _ _ _ S), Ht | | exact Hp ].
  intros v Hv. destruct Hh as [_ [H2 _]]. apply (H2 e He). unfold corners. apply in_flat_map. exists t. split; assumption.
Qed.

(* the degenerate answer: no triangle, the kept sites K are collinear *)
Definition collinear (l : list pt) : Prop := forall a b c, In a l -> In b l -> In c l -> det a b c = 0.
Lemma collinearb_spec : forall l, collinearb l = true -> collinear l.
Proof.
  intros [ | a r ] H; [ intros ? ? ? [] | ].
  unfold collinearb in H.
  destruct (filter (fun p => negb (pt_eqb p a)) r) as [ | b f ] eqn:F.
  - (* every point equals a *)
    assert (E : forall x, In x (a :: r) -> x = a).
    { intros x [<- | Hx]; [ reflexivity | ]. destruct (pt_eqb x a) eqn:Q; [ apply pt_eqb_eq, Q | ].
      assert (In x (filter (fun p => negb (pt_eqb p a)) r)) by (apply filter_In; split; [ exact Hx | rewrite Q; reflexivity ]).
      rewrite F in H0. destruct H0. }
    intros x y z Hx Hy Hz. rewrite (E x Hx), (E y Hy), (E z Hz). destruct a as [ax ay]. unfold det; cbn [fst snd]. ring.
  - assert (Hb : In b r /\ b <> a).
    { assert (In b (filter (fun p => negb (pt_eqb p a)) r)) by (rewrite F; left; reflexivity).
      apply filter_In in H0. destruct H0 as [H0 H1]. split; [ exact H0 | ]. apply negb_true_iff in H1. intros ->.
      assert (pt_eqb a a = true) by (apply pt_eqb_eq; reflexivity). congruence. }
    rewrite forallb_forall in H.
    assert (L : forall x, In x (a :: r) -> det a b x = 0).
    { intros x [<- | Hx]; [ destruct a, b; unfold det; cbn [fst snd]; ring | apply Z.eqb_eq, H, Hx ]. }
    destruct Hb as [_ Hne].
    intros x y z Hx Hy Hz. pose proof (L x Hx) as Lx. pose proof (L y Hy) as Ly. pose proof (L z Hz) as Lz.
    destruct a as [ax ay], b as [bx by_], x as [xx xy], y as [yx yy], z as [zx zy]. unfold det in *; cbn [fst snd] in *.
    (* all three lie on the line through a with direction d = b - a <> 0 *)
    assert (Hd : bx - ax <> 0 \/ by_ - ay <> 0).
    { destruct (Z.eq_dec (bx - ax) 0) as [E1 | E1]; [ | left; exact E1 ]. destruct (Z.eq_dec (by_ - ay) 0) as [E2 | E2]; [ | right; exact E2 ].
      exfalso. apply Hne. f_equal; lia. }
    set (G := (yx - xx) * (zy - xy) - (yy - xy) * (zx - xx)).
    set (ex := (bx - ax) * (xy - ay) - (by_ - ay) * (xx - ax)) in *.
    set (ey := (bx - ax) * (yy - ay) - (by_ - ay) * (yx - ax)) in *.
    set (ez := (bx - ax) * (zy - ay) - (by_ - ay) * (zx - ax)) in *.
    destruct Hd as [Hd | Hd].
    + assert (K : (bx - ax) * G = (yx - xx) * (ez - ex) - (zx - xx) * (ey - ex)) by (subst G ex ey ez; ring).
      rewrite Lx, Ly, Lz in K. replace ((yx - xx) * (0 - 0) - (zx - xx) * (0 - 0)) with 0 in K by ring.
      apply Z.mul_eq_0 in K. destruct K as [K | K]; [ contradiction | exact K ].
    + assert (K : (by_ - ay) * G = (yy - xy) * (ez - ex) - (zy - xy) * (ey - ex)) by (subst G ex ey ez; ring).
      rewrite Lx, Ly, Lz in K. replace ((yy - xy) * (0 - 0) - (zy - xy) * (0 - 0)) with 0 in K by ring.
      apply Z.mul_eq_0 in K. destruct K as [K | K]; [ contradiction | exact K ].
Qed.

Record DegenerateSpec (tol2 : Z) (sites K : list pt) : Prop := {
  dg_some : K <> [];
  dg_sub : forall v, In v K -> In v sites;
  dg_sites : forall s, In s sites -> In s K \/ exists r, In r K /\ dist2 s r < tol2;
  dg_collinear : collinear K }.
Theorem check_degenerate_sound : forall tol2 sites K, check_degenerate tol2 sites K = true -> DegenerateSpec tol2 sites K.
Proof.
  intros tol2 sites K H. unfold check_degenerate in H. destruct K as [ | k0 K' ]; [ discriminate | ].
  rewrite !andb_true_iff in H. destruct H as [[H1 H2] H3]. constructor.
  - discriminate.
  - intros v Hv. rewrite forallb_forall in H1. apply mem_pt_In, H1, Hv.
  - intros s Hs. unfold snapped_ok in H2. rewrite forallb_forall in H2. specialize (H2 s Hs). apply orb_true_iff in H2. destruct H2 as [K1 | K1].
    + left. apply mem_pt_In, K1.
    + right. apply existsb_exists in K1. destruct K1 as [r [Hr Hd]]. exists r. split; [ exact Hr | apply Z.ltb_lt, Hd ].
  - apply collinearb_spec, H3.
Qed.

(* edge output: as undirected edges, exactly the edges of the triangles, none listed twice *)
Definition uedge_in (e : edge) (l : list edge) : Prop := In e l \/ In (eswap e) l.
Lemma uedge_mem_spec : forall e l, uedge_mem e l = true <-> uedge_in e l.
Proof. intros e l. unfold uedge_mem, uedge_in. rewrite orb_true_iff, !mem_edge_In. tauto. Qed.
Record EdgeSpec (ts : list tri) (edges : list edge) : Prop := {
  es_sound : forall e, In e edges -> uedge_in e (dedges ts);
  es_complete : forall e, In e (dedges ts) -> uedge_in e edges;
  es_once : NoDup edges /\ forall e, In e edges -> In (eswap e) edges -> fst e = snd e }.
Lemma nodup_uedges_spec : forall l, nodup_uedges l = true -> NoDup l /\ forall e, In e l -> In (eswap e) l -> fst e = snd e.
Proof.
  induction l as [ | a r IH ]; intros H; [ split; [ constructor | intros e [] ] | ].
  cbn [nodup_uedges] in H. apply andb_true_iff in H. destruct H as [H1 H2]. apply negb_true_iff in H1.
  assert (N : ~ uedge_in a r) by (intro U; apply uedge_mem_spec in U; congruence).
  destruct (IH H2) as [I1 I2]. split.
  - constructor; [ intro Ha; apply N; left; exact Ha | exact I1 ].
  - intros e [<- | He] [Hs | Hs].
    + destruct a as [p q]. unfold eswap in Hs; cbn [fst snd] in *. inversion Hs. reflexivity.
    + exfalso. apply N. right. exact Hs.
    + exfalso. apply N. right. rewrite Hs, eswap_invol. exact He.
    + apply I2; assumption.
Qed.
Theorem check_edges_sound : forall tris edges, check_edges tris edges = true -> EdgeSpec tris edges.
Proof.
  intros tris edges H. unfold check_edges in H. rewrite !andb_true_iff in H. destruct H as [[H1 H2] H3].
  rewrite forallb_forall in H2, H3. constructor.
  - intros e He. apply uedge_mem_spec, H2, He.
  - intros e He. apply uedge_mem_spec, H3, He.
  - apply nodup_uedges_spec, H1.
Qed.

(* ------------------------------------------------------------------ constrained triangulation of one polygon *)
Record CdtSpec (p : polygon) (ts : list tri) : Prop := {
  cs_nondeg : forall t, In t ts -> 0 < tri_det t;
  cs_corners : forall v, In v (corners ts) -> In v (poly_vertices p);       (* corners are polygon vertices *)
  cs_vertices : forall v, In v (poly_vertices p) -> In v (corners ts);      (* every polygon vertex is used *)
  cs_manifold : NoDup (dedges ts);
  cs_boundary : NoDup (noded_boundary p) /\ boundary_spec (dedges ts) (noded_boundary p);   (* boundary edges = polygon boundary, interior on the left *)
  cs_area : area_sum ts = poly_area2 p;                                     (* exact area *)
  cs_inside : forall t, In t ts -> loc_in (poly6 p) (centroid6 t) = Interior
                                   /\ forall e, In e (tri_edges t) -> loc_in (poly6 p) (mid6 e) <> Exterior }.

Lemma loc_eqb_eq : forall a b, loc_eqb a b = true <-> a = b.
Proof. intros [] []; cbn; split; intros; try reflexivity; try discriminate. Qed.

Theorem check_cdt1_sound : forall p tris, check_cdt1 p tris = true -> CdtSpec p (map tri_ccw tris).
Proof.
  intros p tris H. unfold check_cdt1, cdt_clauses in H.
  apply forallb_snd_cons in H; destruct H as [C1 H]. apply forallb_snd_cons in H; destruct H as [C2 H].
  apply forallb_snd_cons in H; destruct H as [C3 H]. apply forallb_snd_cons in H; destruct H as [C4 H].
  apply forallb_snd_cons in H; destruct H as [C5 H]. apply forallb_snd_cons in H; destruct H as [C6 H].
  apply forallb_snd_cons in H; destruct H as [C7 H]. apply forallb_snd_cons in H; destruct H as [C9 _]. cbn [snd] in *.
  constructor.
  - intros t Ht. rewrite forallb_forall in C1. apply Z.ltb_lt, C1, Ht.
  - intros v Hv. rewrite forallb_forall in C2. apply mem_pt_In, C2, Hv.
  - intros v Hv. rewrite forallb_forall in C3. apply mem_pt_In, C3, Hv.
  - apply nodup_edges_NoDup, C4.
  - split; [ apply nodup_edges_NoDup, C5 | apply boundary_ok_spec, C6 ].
  - apply Z.eqb_eq, C7.
  - intros t Ht. rewrite forallb_forall in C9. specialize (C9 t Ht). unfold tri_inside in C9.
    apply andb_true_iff in C9. destruct C9 as [K1 K2].
    split; [ apply loc_eqb_eq, K1 | ].
    intros e He Q. rewrite forallb_forall in K2. specialize (K2 e He). rewrite Q in K2. discriminate.
Qed.

(* several polygons: every triangle belongs to exactly one polygon (its centroid is strictly inside exactly one), and each polygon
   with its own triangles satisfies CdtSpec *)
Lemma forallb_flat_map : forall {A B} (g : B -> bool) (f : A -> list B) l,
  forallb g (flat_map f l) = forallb (fun x => forallb g (f x)) l.
Proof. intros A B g f. induction l as [ | a r IH ]; [ reflexivity | ]. cbn [flat_map forallb]. rewrite forallb_app, IH. reflexivity. Qed.
Theorem check_cdt_sound : forall ps tris, check_cdt ps tris = true ->
  (forall t, In t tris -> owner_count (map poly6 ps) t = 1)
  /\ forall p, In p ps -> CdtSpec p (map tri_ccw (owned_by p tris)).
Proof.
  intros ps tris H. unfold check_cdt, cdt_multi_clauses in H. apply forallb_snd_cons in H. destruct H as [H0 H]. cbn [snd] in H0.
  rewrite forallb_flat_map in H. rewrite forallb_forall in H0, H. split.
  - intros t Ht. apply Z.eqb_eq, H0, Ht.
  - intros p Hp. apply check_cdt1_sound. unfold check_cdt1. apply H, Hp.
Qed.

(* the area clause is also a consequence of the edge clauses: *)
Theorem cdt_area_from_manifold : forall p ts, CdtSpec p ts -> area_sum ts = zsum (map cross (noded_boundary p)).
Proof.
  intros p ts S. rewrite area_sum_cross. destruct (cs_boundary _ _ S) as [N B]. apply manifold_cross; [ apply (cs_manifold _ _ S) | exact N | exact B ].
Qed.

(* ------------------------------------------------------------------ tiling: what is proved and what is not *)
(* FULL STATEMENT (not proved): under DelaunaySpec the closed triangles cover the hull polygon —
     forall p, 0 < qw p -> (forall e, In e (cycle_edges h) -> 0 <= qdet (fst e) (snd e) p) -> exists t, In t ts /\ qclosed p t
   and under CdtSpec they cover the polygon.  It follows from the three proved facts below by additivity of area (the
   triangles lie in the region, their interiors are pairwise disjoint, and their areas add up to the area of the region), or
   directly by the covering-degree argument: the number of triangles containing a generic point is constant across interior
   edges (shared by exactly two triangles, one on each side, because both are counter-clockwise and the edge occurs once in
   each direction) and changes by one across boundary edges, which form the hull cycle; neither argument is formalised. *)
Definition covering_statement (ts : list tri) (h : list pt) : Prop :=
  forall p, 0 < qw p -> (forall e, In e (cycle_edges h) -> 0 <= qdet (fst e) (snd e) p) -> exists t, In t ts /\ qclosed p t.

Theorem manifold_area_tiling_partial : forall tol2 sites tris,
  check_delaunay tol2 sites tris = true -> check_disjoint tris = true ->
  let ts := map tri_ccw tris in
  exists h, hull_cycle (corners ts) h
    /\ area_sum ts = area2 (close_ring h)                                              (* areas add up to the hull area *)
    /\ ForallOrdPairs interior_disjoint ts                                             (* interiors pairwise disjoint *)
    /\ (forall t p e, In t ts -> qclosed p t -> In e (cycle_edges h) -> 0 <= qdet (fst e) (snd e) p).   (* triangles inside the hull *)
Proof.
  intros tol2 sites tris H1 H2 ts. pose proof (check_delaunay_sound _ _ _ H1) as S. fold ts in S.
  destruct (ds_boundary _ _ _ S) as [h [Hh [Hb Ha]]]. exists h. repeat split; try apply Hh; try exact Ha.
  - apply check_disjoint_sound; [ | exact H2 ].
    intros t Ht. assert (0 < tri_det (tri_ccw t)) by (apply (ds_nondeg _ _ _ S), in_map, Ht).
    intros E. unfold tri_ccw in H. rewrite E in H. cbn in H. lia.
  - intros t p e Ht Hp He. apply (halfplane_convex (fst e) (snd e) t p); [ apply (ds_nondeg _ _ _ S), Ht | | exact Hp ].
    intros v Hv. destruct Hh as [_ [G _]]. apply (G e He). unfold corners. apply in_flat_map. exists t. split; assumption.
Qed.
