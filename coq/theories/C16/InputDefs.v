(* C16/InputDefs — validity of the polygons handed to the constrained triangulator is DECIDED (Lib/ValidDefs, the C05 model),
   not assumed by the generators.  Definitions only. *)
From Coq Require Import ZArith List.
From GeosV.Lib Require GeomDefs ValidDefs.
Definition polygons_valid (ps : list (list (Z * Z) * list (list (Z * Z)))) : bool :=
  ValidDefs.valid_geom (GeomDefs.GMPoly ps).
