(* C16/Defs — triangulations: exact in-circle determinant, convex hull oracle, and the executable checkers (R models) for
   the outputs of GEOSDelaunayTriangulation_r, GEOSConstrainedDelaunayTriangulation_r and GEOSVoronoiDiagram_r.
   DEFINITIONS ONLY (stdlib + Lib/KernelDefs), executable, extracted by coq/extract/Extract_C16.v.

   Coordinates are grid units (integers); a constructed point is a homogeneous triple (Lib/KernelDefs.qpt).
   Conventions: a triangle is a triple of corners; `tri_ccw` turns it counter-clockwise; `incircle a b c d > 0` iff d lies
   strictly inside the circle through the counter-clockwise triangle a b c.

   The checkers do not trust the hull / noding functions they call: whatever those return is validated by the clauses
   (is_hull_cycleb, boundary_ok), so an error there can only make a check fail, never pass. *)
From Coq Require Import ZArith List Bool.
From GeosV.Lib Require Import KernelDefs.
Import ListNotations.
Local Open Scope Z_scope.

(* ------------------------------------------------------------------ in-circle *)
(* the 3x3 determinant | a-d, |a-d|^2 ; b-d, |b-d|^2 ; c-d, |c-d|^2 | *)
Definition incircle (a b c d : pt) : Z :=
  let adx := fst a - fst d in let ady := snd a - snd d in
  let bdx := fst b - fst d in let bdy := snd b - snd d in
  let cdx := fst c - fst d in let cdy := snd c - snd d in
  (adx * adx + ady * ady) * (bdx * cdy - cdx * bdy)
  + (bdx * bdx + bdy * bdy) * (cdx * ady - adx * cdy)
  + (cdx * cdx + cdy * cdy) * (adx * bdy - bdx * ady).

(* the lifted 4x4 determinant | x y x^2+y^2 1 | of the rows a b c d, expanded along the last column *)
Definition lift (p : pt) : Z := fst p * fst p + snd p * snd p.
Definition det3 (a1 a2 a3 b1 b2 b3 c1 c2 c3 : Z) : Z :=
  a1 * (b2 * c3 - b3 * c2) - a2 * (b1 * c3 - b3 * c1) + a3 * (b1 * c2 - b2 * c1).
Definition incircle4 (a b c d : pt) : Z :=
  - det3 (fst b) (snd b) (lift b) (fst c) (snd c) (lift c) (fst d) (snd d) (lift d)
  + det3 (fst a) (snd a) (lift a) (fst c) (snd c) (lift c) (fst d) (snd d) (lift d)
  - det3 (fst a) (snd a) (lift a) (fst b) (snd b) (lift b) (fst d) (snd d) (lift d)
  + det3 (fst a) (snd a) (lift a) (fst b) (snd b) (lift b) (fst c) (snd c) (lift c).

(* the expression of TrianglePredicate::isInCircleNonRobust / isInCircleRobust, read over Z (parameter order q p r t) *)
Definition geos_incircle (q p r t : pt) : Z :=
  let qpx := fst q - fst p in let qpy := snd q - snd p in
  let rpx := fst r - fst p in let rpy := snd r - snd p in
  let tpx := fst t - fst p in let tpy := snd t - snd p in
  let tqx := fst t - fst q in let tqy := snd t - snd q in
  let rqx := fst r - fst q in let rqy := snd r - snd q in
  (qpx * tpy - qpy * tpx) * (rpx * rqx + rpy * rqy) - (qpx * rpy - qpy * rpx) * (tpx * tqx + tpy * tqy).
(* the quantity its error bound is proportional to: deterror = geos_band * 9.99200719823023e-16 (up to rounding) *)
Definition geos_band (q p r t : pt) : Z :=
  let qpx := fst q - fst p in let qpy := snd q - snd p in
  let rpx := fst r - fst p in let rpy := snd r - snd p in
  let tpx := fst t - fst p in let tpy := snd t - snd p in
  let tqx := fst t - fst q in let tqy := snd t - snd q in
  let rqx := fst r - fst q in let rqy := snd r - snd q in
  (Z.abs (qpx * tpy) + Z.abs (qpy * tpx)) * (Z.abs (rpx * rqx) + Z.abs (rpy * rqy))
  + (Z.abs (qpx * rpy) + Z.abs (qpy * rpx)) * (Z.abs (tpx * tqx) + Z.abs (tpy * tqy)).

Definition dist2 (a b : pt) : Z := (fst a - fst b) * (fst a - fst b) + (snd a - snd b) * (snd a - snd b).

(* ------------------------------------------------------------------ triangles, edges *)
Definition tri := (pt * pt * pt)%type.
Definition t_a (t : tri) : pt := fst (fst t).
Definition t_b (t : tri) : pt := snd (fst t).
Definition t_c (t : tri) : pt := snd t.
Definition tri_det (t : tri) : Z := det (t_a t) (t_b t) (t_c t).
Definition tri_ccw (t : tri) : tri := if tri_det t <? 0 then (t_a t, t_c t, t_b t) else t.
Definition tri_corners (t : tri) : list pt := [t_a t; t_b t; t_c t].
Definition edge := (pt * pt)%type.
Definition tri_edges (t : tri) : list edge := [(t_a t, t_b t); (t_b t, t_c t); (t_c t, t_a t)].
Definition eswap (e : edge) : edge := (snd e, fst e).
Definition edge_eqb (e f : edge) : bool := pt_eqb (fst e) (fst f) && pt_eqb (snd e) (snd f).
Definition mem_pt (p : pt) (l : list pt) : bool := existsb (pt_eqb p) l.
Definition mem_edge (e : edge) (l : list edge) : bool := existsb (edge_eqb e) l.
Fixpoint nodup_edges (l : list edge) : bool :=
  match l with [] => true | e :: r => negb (mem_edge e r) && nodup_edges r end.
Fixpoint nodup_ptsb (l : list pt) : bool :=
  match l with [] => true | p :: r => negb (mem_pt p r) && nodup_ptsb r end.
Definition cross (e : edge) : Z := fst (fst e) * snd (snd e) - fst (snd e) * snd (fst e).
Definition zsum (l : list Z) : Z := fold_right Z.add 0 l.
Definition dedges (ts : list tri) : list edge := flat_map tri_edges ts.
Definition corners (ts : list tri) : list pt := flat_map tri_corners ts.
Definition area_sum (ts : list tri) : Z := zsum (map tri_det ts).
Definition tri_incircle (t : tri) (d : pt) : Z := incircle (t_a t) (t_b t) (t_c t) d.

(* ------------------------------------------------------------------ sorting, convex hull (monotone chain, oracle) *)
Definition pt_ltb (a b : pt) : bool := (fst a <? fst b) || ((fst a =? fst b) && (snd a <? snd b)).
Fixpoint insert_pt (p : pt) (l : list pt) : list pt :=
  match l with
  | [] => [p]
  | q :: r => if pt_ltb p q then p :: l else if pt_eqb p q then l else q :: insert_pt p r
  end.
(* lexicographically sorted, duplicates merged (DelaunayTriangulationBuilder::unique) *)
Definition sort_pts (l : list pt) : list pt := fold_right insert_pt [] l.

(* stack with the most recent point first; pop while the last two and p make a clockwise turn (collinear points stay) *)
Fixpoint push_hull (fuel : nat) (stk : list pt) (p : pt) : list pt :=
  match fuel with
  | O => p :: stk
  | S f => match stk with
           | b :: ((a :: _) as rest) => if det a b p <? 0 then push_hull f rest p else p :: stk
           | _ => p :: stk
           end
  end.
Definition chain (ps : list pt) : list pt := fold_left (fun stk p => push_hull (length stk) stk p) ps [].
(* counter-clockwise boundary cycle of the hull of a sorted duplicate-free list, every site on the boundary included *)
Definition hull_sorted (ps : list pt) : list pt :=
  let lo := rev (chain ps) in let up := rev (chain (rev ps)) in
  removelast lo ++ removelast up.
Definition hull (sites : list pt) : list pt := hull_sorted (sort_pts sites).

Definition cycle_edges (h : list pt) : list edge :=
  match h with [] => [] | a :: _ => combine h (tl h ++ [a]) end.
Definition close_ring (h : list pt) : list pt := match h with [] => [] | a :: _ => h ++ [a] end.

(* h is the counter-clockwise boundary cycle of a convex polygon with positive area whose vertices are sites and which
   contains every site: that polygon is the convex hull of the sites *)
Definition is_hull_cycleb (sites h : list pt) : bool :=
  forallb (fun v => mem_pt v sites) h
  && forallb (fun e => forallb (fun s => 0 <=? det (fst e) (snd e) s) sites) (cycle_edges h)
  && (0 <? area2 (close_ring h)) && nodup_ptsb h.

Definition collinearb (l : list pt) : bool :=
  match l with
  | a :: r => match filter (fun p => negb (pt_eqb p a)) r with
              | b :: _ => forallb (fun p => det a b p =? 0) r
              | [] => true
              end
  | [] => true
  end.

(* ------------------------------------------------------------------ triangle meshes *)
(* E = directed edges of counter-clockwise triangles, B = expected directed boundary edges:
   every expected edge is present and its reverse is not; every edge without its reverse is expected *)
Definition boundary_ok (E B : list edge) : bool :=
  forallb (fun e => mem_edge e E && negb (mem_edge (eswap e) E)) B
  && forallb (fun e => mem_edge (eswap e) E || mem_edge e B) E.

(* interior-disjointness of two counter-clockwise triangles: a separating edge (all corners of the other one on its right or on it) *)
Definition sep_edge (e : edge) (t : tri) : bool := forallb (fun v => det (fst e) (snd e) v <=? 0) (tri_corners t).
Definition tri_disjointb (t1 t2 : tri) : bool :=
  existsb (fun e => sep_edge e t2) (tri_edges t1) || existsb (fun e => sep_edge e t1) (tri_edges t2).
Fixpoint pairwiseb {A} (f : A -> A -> bool) (l : list A) : bool :=
  match l with [] => true | a :: r => forallb (f a) r && pairwiseb f r end.
Definition check_disjoint (tris : list tri) : bool := pairwiseb tri_disjointb (map tri_ccw tris).

Definition empty_circleb (ts : list tri) (sites : list pt) : bool :=
  forallb (fun t => forallb (fun s => tri_incircle t s <=? 0) sites) ts.

(* ------------------------------------------------------------------ Delaunay checker *)
(* sites: the input sites (with repetitions); tol2 = tolerance^2 (0: no snapping); tris as returned.
   K = the corners of the returned triangles = the sites kept by snapping. *)
Definition snapped_ok (tol2 : Z) (sites K : list pt) : bool :=
  forallb (fun s => mem_pt s K || existsb (fun r => dist2 s r <? tol2) K) sites.

(* the clauses, numbered: 1 non-degenerate, 2 corners are sites, 3 every site is a corner (or was snapped onto one),
   4 no directed edge twice, 5 hull cycle, 6 boundary edges = hull cycle, 7 area sum, 8 empty circumcircles *)
Definition delaunay_clauses (tol2 : Z) (sites : list pt) (tris : list tri) : list (Z * bool) :=
  let ts := map tri_ccw tris in
  let K := corners ts in
  let h := hull K in
  let E := dedges ts in
  [ (0, match tris with [] => false | _ => true end);
    (1, forallb (fun t => 0 <? tri_det t) ts);
    (2, forallb (fun v => mem_pt v sites) K);
    (3, snapped_ok tol2 sites K);
    (4, nodup_edges E);
    (5, is_hull_cycleb K h);
    (6, boundary_ok E (cycle_edges h));
    (7, area_sum ts =? area2 (close_ring h));
    (8, empty_circleb ts K) ].
Definition failed (cl : list (Z * bool)) : list Z := map fst (filter (fun c => negb (snd c)) cl).
Definition check_delaunay (tol2 : Z) (sites : list pt) (tris : list tri) : bool :=
  forallb snd (delaunay_clauses tol2 sites tris).

(* no triangles: right iff the kept sites (K, read off the edge output, or one site when there is no edge) are collinear *)
Definition check_degenerate (tol2 : Z) (sites K : list pt) : bool :=
  match K with [] => false | _ => forallb (fun v => mem_pt v sites) K && snapped_ok tol2 sites K && collinearb K end.

(* edge output = undirected edge set of the triangles, each edge once *)
Definition uedge_mem (e : edge) (l : list edge) : bool := mem_edge e l || mem_edge (eswap e) l.
Fixpoint nodup_uedges (l : list edge) : bool :=
  match l with [] => true | e :: r => negb (uedge_mem e r) && nodup_uedges r end.
Definition check_edges (tris : list tri) (edges : list edge) : bool :=
  let E := dedges tris in
  nodup_uedges edges && forallb (fun e => uedge_mem e E) edges && forallb (fun e => uedge_mem e edges) E.

(* ------------------------------------------------------------------ diagnosis of an empty-circle failure *)
(* the corner of t opposite to its directed edge e *)
Definition opposite_corner (t : tri) (e : edge) : pt :=
  if edge_eqb e (t_a t, t_b t) then t_c t else if edge_eqb e (t_b t, t_c t) then t_a t else t_b t.
(* locally non-Delaunay edges: (u, w, o, d) where (u,w) is a directed edge of a counter-clockwise triangle t with third
   corner o, d is the third corner of the triangle on the other side of that edge, and d lies strictly inside the circle of t *)
Definition local_violations (ts : list tri) : list (pt * pt * pt * pt) :=
  flat_map (fun t => flat_map (fun e =>
     flat_map (fun t' => if mem_edge (eswap e) (tri_edges t') then
                           let d := opposite_corner t' (eswap e) in
                           if 0 <? tri_incircle t d then [(fst e, snd e, opposite_corner t e, d)] else []
                         else []) ts) (tri_edges t)) ts.
Definition global_violations (ts : list tri) (sites : list pt) : list (tri * pt) :=
  flat_map (fun t => flat_map (fun s => if 0 <? tri_incircle t s then [(t, s)] else []) sites) ts.

(* ------------------------------------------------------------------ constrained triangulation of polygons *)
Definition polygon := (list pt * list (list pt))%type.     (* closed shell ring, closed hole rings *)
Definition poly_rings (p : polygon) : list (list pt) := fst p :: snd p.
Definition poly_vertices (p : polygon) : list pt := concat (poly_rings p).
Definition orient_ring (ccw : bool) (r : list pt) : list pt := if Bool.eqb (0 <? area2 r) ccw then r else rev r.
(* rings with the interior on the left: shell counter-clockwise, holes clockwise *)
Definition oriented_rings (p : polygon) : list (list pt) := orient_ring true (fst p) :: map (orient_ring false) (snd p).
(* vertices of the polygon strictly inside segment ab, ordered from a to b *)
Definition dotp (a b p : pt) : Z := (fst b - fst a) * (fst p - fst a) + (snd b - snd a) * (snd p - snd a).
Fixpoint insert_by (key : pt -> Z) (p : pt) (l : list pt) : list pt :=
  match l with [] => [p] | q :: r => if key p <? key q then p :: l else if key p =? key q then l else q :: insert_by key p r end.
Definition nodes_on (vs : list pt) (a b : pt) : list pt :=
  fold_right (insert_by (dotp a b)) []
    (filter (fun p => on_segment p a b && negb (pt_eqb p a) && negb (pt_eqb p b)) vs).
Definition noded_seg (vs : list pt) (s : edge) : list edge :=
  let chainpts := fst s :: nodes_on vs (fst s) (snd s) ++ [snd s] in combine chainpts (tl chainpts).
Definition noded_boundary (p : polygon) : list edge :=
  flat_map (fun r => flat_map (noded_seg (poly_vertices p)) (segs r)) (oriented_rings p).
Definition poly_area2 (p : polygon) : Z := zsum (map area2 (oriented_rings p)).

Definition scale6 (p : pt) : pt := (6 * fst p, 6 * snd p).
Definition centroid6 (t : tri) : pt :=
  (2 * (fst (t_a t) + fst (t_b t) + fst (t_c t)), 2 * (snd (t_a t) + snd (t_b t) + snd (t_c t))).
Definition mid6 (e : edge) : pt := (3 * (fst (fst e) + fst (snd e)), 3 * (snd (fst e) + snd (snd e))).
Definition poly6 (p : polygon) : polygon := (map scale6 (fst p), map (map scale6) (snd p)).
Definition loc_in (p6 : polygon) (x : pt) : loc := locate_polygon x (fst p6) (snd p6).
(* witnesses of "t lies in p": centroid strictly inside, edge midpoints not outside *)
Definition tri_inside (p6 : polygon) (t : tri) : bool :=
  loc_eqb (loc_in p6 (centroid6 t)) Interior
  && forallb (fun e => negb (loc_eqb (loc_in p6 (mid6 e)) Exterior)) (tri_edges t).

(* 1 non-degenerate, 2 corners are polygon vertices, 3 every polygon vertex is a corner, 4 no directed edge twice,
   5 the noded polygon boundary lists no edge twice, 6 boundary edges = noded polygon boundary (interior on the left), 7 area sum = polygon area, 9 witnesses inside *)
Definition cdt_clauses (p : polygon) (tris : list tri) : list (Z * bool) :=
  let ts := map tri_ccw tris in
  let E := dedges ts in
  let p6 := poly6 p in
  [ (1, forallb (fun t => 0 <? tri_det t) ts);
    (2, forallb (fun v => mem_pt v (poly_vertices p)) (corners ts));
    (3, forallb (fun v => mem_pt v (corners ts)) (poly_vertices p));
    (4, nodup_edges E);
    (5, nodup_edges (noded_boundary p));
    (6, boundary_ok E (noded_boundary p));
    (7, area_sum ts =? poly_area2 p);
    (9, forallb (tri_inside p6) ts) ].
Definition check_cdt1 (p : polygon) (tris : list tri) : bool := forallb snd (cdt_clauses p tris).

(* several polygons (MultiPolygon / collection): each triangle belongs to the one polygon that contains its centroid *)
Definition owner_count (ps6 : list polygon) (t : tri) : Z :=
  count_if (fun p6 => loc_eqb (loc_in p6 (centroid6 (tri_ccw t))) Interior) ps6.
Definition owned_by (p : polygon) (tris : list tri) : list tri :=
  filter (fun t => loc_eqb (loc_in (poly6 p) (centroid6 (tri_ccw t))) Interior) tris.
(* 20 = every triangle's centroid lies strictly inside exactly one polygon; then the clauses of each polygon on its triangles *)
Definition cdt_multi_clauses (ps : list polygon) (tris : list tri) : list (Z * bool) :=
  (20, forallb (fun t => owner_count (map poly6 ps) t =? 1) tris)
  :: flat_map (fun p => cdt_clauses p (owned_by p tris)) ps.
Definition check_cdt (ps : list polygon) (tris : list tri) : bool := forallb snd (cdt_multi_clauses ps tris).

(* ------------------------------------------------------------------ Voronoi cells *)
(* all ordinates in units of 1/w (w = 2^k > 0, chosen by the caller so that every binary64 ordinate is an integer);
   sites are given in the same units. A cell is its vertex cycle (closing point dropped). *)
Definition vcell := list pt.
Definition zmax_list (l : list Z) : Z := fold_right Z.max 0 l.
Definition pt_mag (p : pt) : Z := Z.max (Z.abs (fst p)) (Z.abs (snd p)).
Definition l1 (a b : pt) : Z := Z.abs (fst a - fst b) + Z.abs (snd a - snd b).
Definition perimeter1 (c : vcell) : Z := zsum (map (fun e => l1 (fst e) (snd e)) (cycle_edges c)).
(* tolerance model: every output vertex may be displaced by at most `ulps` units in the last place of the larger of its own
   magnitude `mag` of the diagram envelope (every vertex must lie in that envelope, so |v| <= mag):
   delta = ulps * 2^-52 * mag.  An inequality  lhs <= 0  between quantities that are (bi)linear in the vertices is
   accepted when  2^52 * lhs <= ulps * mag * 2 * (L1 length the displaced vertex is multiplied with). *)
Definition p52 : Z := 4503599627370496.

(* twice the area *)
Definition cell_area2 (c : vcell) : Z := area2 (close_ring c).
Definition cell_ccw (c : vcell) : vcell := if cell_area2 c <? 0 then rev c else c.
(* convex within tolerance: every vertex left of or on every edge line *)
Definition cell_convexb (ulps mag : Z) (c : vcell) : bool :=
  forallb (fun e => forallb (fun v =>
      - (ulps * mag * 2 * (l1 (fst e) (snd e) + l1 (fst e) v)) <=? p52 * det (fst e) (snd e) v) c) (cycle_edges c).
(* no consecutive repeated vertex, at least three vertices, positive area *)
Fixpoint no_repeat (l : list pt) : bool :=
  match l with a :: ((b :: _) as r) => negb (pt_eqb a b) && no_repeat r | _ => true end.
Definition cell_ringb (c : vcell) : bool :=
  (3 <=? Z.of_nat (length c))%Z && no_repeat (close_ring c) && (0 <? cell_area2 c).
(* site in the closed cell (for two or more sites it is strictly inside; a single site may sit on the envelope boundary) *)
Definition cell_containsb (c : vcell) (s : pt) : bool := forallb (fun e => 0 <=? det (fst e) (snd e) s) (cycle_edges c).
(* every vertex at least as close to s as to any other site t, within tolerance *)
Definition cell_nearestb (ulps mag : Z) (c : vcell) (s : pt) (sites : list pt) : bool :=
  forallb (fun v => forallb (fun t => p52 * (dist2 v s - dist2 v t) <=? ulps * mag * 2 * l1 s t) sites) c.
Definition in_envb (e : env) (v : pt) : bool := env_covers_pt e v.
Definition env_area2 (e : env) : Z := 2 * (exmax e - exmin e) * (eymax e - eymin e).
Definition env_mag (e : env) : Z := Z.max (Z.max (Z.abs (exmin e)) (Z.abs (exmax e))) (Z.max (Z.abs (eymin e)) (Z.abs (eymax e))).

(* the clip envelope of VoronoiDiagramBuilder: site envelope expanded by max(width, height), then made to include the caller's *)
Definition env_union (a b : env) : env :=
  mkEnv (Z.min (exmin a) (exmin b)) (Z.max (exmax a) (exmax b)) (Z.min (eymin a) (eymin b)) (Z.max (eymax a) (eymax b)).
Definition diagram_env (sites : list pt) (user : option env) : option env :=
  match env_of_pts sites with
  | None => None
  | Some e => let d := Z.max (exmax e - exmin e) (eymax e - eymin e) in
              let e' := mkEnv (exmin e - d) (exmax e + d) (eymin e - d) (eymax e + d) in
              Some (match user with Some u => env_union e' u | None => e' end)
  end.

(* cells paired with their sites (in the caller's order). ulps: accepted vertex displacement in units in the last place.
   1 one cell per site, 2 rings, 3 convex, 4 inside the envelope, 5 own site inside, 6 vertices nearest to own site,
   7 area sum = envelope area *)
Definition voronoi_clauses (ulps : Z) (denv : env) (sites : list pt) (cells : list vcell) : list (Z * bool) :=
  let mag := env_mag denv in
  let cs := map cell_ccw cells in
  [ (1, (length cells =? length sites)%nat);
    (2, forallb cell_ringb cs);
    (3, forallb (cell_convexb ulps mag) cs);
    (4, forallb (fun c => forallb (in_envb denv) c) cs);
    (5, forallb (fun cs' => cell_containsb (fst cs') (snd cs')) (combine cs sites));
    (6, forallb (fun cs' => cell_nearestb ulps mag (fst cs') (snd cs') sites) (combine cs sites));
    (7, Z.abs (p52 * (zsum (map cell_area2 cs) - env_area2 denv)) <=? ulps * mag * 2 * zsum (map perimeter1 cs)) ].
Definition check_voronoi (ulps : Z) (denv : env) (sites : list pt) (cells : list vcell) : bool :=
  forallb snd (voronoi_clauses ulps denv sites cells).

(* edges-only output (GEOS_VORONOI_ONLY_EDGES): every vertex of every returned line lies in the envelope and on a Voronoi edge:
   a site s nearest to it (checked against every site) and another site t as near as s, within the vertex tolerance.
   nearest_site only proposes s; the clauses below do not trust it. *)
Definition nearest_site (v : pt) (sites : list pt) : option pt :=
  fold_right (fun s acc => match acc with None => Some s | Some b => if dist2 v s <? dist2 v b then Some s else Some b end) None sites.
Definition on_bisectorb (ulps mag : Z) (sites : list pt) (v : pt) : bool :=
  match nearest_site v sites with
  | None => false
  | Some s => mem_pt s sites
              && forallb (fun r => p52 * (dist2 v s - dist2 v r) <=? ulps * mag * 2 * l1 s r) sites
              && existsb (fun t => negb (pt_eqb t s) && (p52 * (dist2 v t - dist2 v s) <=? ulps * mag * 2 * l1 s t)) sites
  end.
Definition check_voronoi_edges (ulps : Z) (denv : env) (sites : list pt) (lines : list (list pt)) : bool :=
  forallb (fun l => forallb (fun v => in_envb denv v && on_bisectorb ulps (env_mag denv) sites v) l) lines.

(* assignment of cells to sites when the output order is not the input order: the unique site inside the cell *)
Definition sites_in (c : vcell) (sites : list pt) : list pt := filter (cell_containsb (cell_ccw c)) sites.
Definition assign_sites (cells : list vcell) (sites : list pt) : option (list pt) :=
  fold_right (fun c acc => match acc, sites_in c sites with Some l, [s] => Some (s :: l) | _, _ => None end) (Some []) cells.
(* a permutation check for duplicate-free lists *)
Definition same_pts (a b : list pt) : bool :=
  (length a =? length b)%nat && nodup_ptsb a && forallb (fun p => mem_pt p b) a.
