(* C16 — the Guibas-Stolfi edge-algebra invariants of the quad-edge model (QuadEdgeDefs.v) hold in every state reached by a
   legal history of makeEdge / splice / connect / swap / remove from the empty structure. *)
From Coq Require Import List ZArith Bool Arith Lia.
Require Import GeosV.C16.QuadEdgeDefs.
Import ListNotations.

(* ------------------------------------------------------------------ equality on edges *)
Lemma rot4_eqb_spec x y : reflect (x = y) (rot4_eqb x y).
Proof. destruct x, y; cbn; constructor; congruence. Qed.

Lemma edge_eqb_spec x y : reflect (x = y) (edge_eqb x y).
Proof.
  destruct x as [q r], y as [q' r']; unfold edge_eqb; cbn [fst snd].
  destruct (Nat.eqb_spec q q'); destruct (rot4_eqb_spec r r'); cbn; constructor; congruence.
Qed.

(* ------------------------------------------------------------------ the rotation group of a quartet *)
Lemma rot4_id e : rot (rot (rot (rot e))) = e.
Proof. destruct e as [q []]; reflexivity. Qed.
Lemma sym_rot2 e : sym e = rot (rot e).
Proof. destruct e as [q []]; reflexivity. Qed.
Lemma invRot_rot3 e : invRot e = rot (rot (rot e)).
Proof. destruct e as [q []]; reflexivity. Qed.
Lemma invRot_rot e : invRot (rot e) = e.
Proof. destruct e as [q []]; reflexivity. Qed.
Lemma rot_invRot e : rot (invRot e) = e.
Proof. destruct e as [q []]; reflexivity. Qed.
Lemma sym_sym e : sym (sym e) = e.
Proof. destruct e as [q []]; reflexivity. Qed.
Lemma rot_inj x y : rot x = rot y -> x = y.
Proof. intro H. rewrite <- (invRot_rot x), <- (invRot_rot y), H. reflexivity. Qed.
Lemma par_rot e : par (rot e) = negb (par e).
Proof. destruct e as [q []]; reflexivity. Qed.
Lemma par_invRot e : par (invRot e) = negb (par e).
Proof. destruct e as [q []]; reflexivity. Qed.
Lemma par_sym e : par (sym e) = par e.
Proof. destruct e as [q []]; reflexivity. Qed.
Lemma fst_rot e : fst (rot e) = fst e. Proof. reflexivity. Qed.
Lemma fst_sym e : fst (sym e) = fst e. Proof. reflexivity. Qed.
Lemma fst_invRot e : fst (invRot e) = fst e. Proof. reflexivity. Qed.
Lemma sym_neq e : sym e <> e.
Proof. destruct e as [q []]; unfold sym; cbn [fst snd rsym]; intro H; inversion H. Qed.
Lemma par_neq x y : par x <> par y -> x <> y.
Proof. congruence. Qed.

(* ------------------------------------------------------------------ reading the pointer tables *)
Lemma oNext_setNext k v s e : oNext (setNext k v s) e = if edge_eqb k e then v else oNext s e.
Proof. unfold oNext, setNext; cbn [nxt lookup]. destruct (edge_eqb k e); reflexivity. Qed.
Lemma oNext_setOrig k v s e : oNext (setOrig k v s) e = oNext s e.
Proof. reflexivity. Qed.
Lemma orig_setOrig k v s e : orig (setOrig k v s) e = if edge_eqb k e then v else orig s e.
Proof. unfold orig, setOrig; cbn [org lookup]. destruct (edge_eqb k e); reflexivity. Qed.
Lemma orig_setNext k v s e : orig (setNext k v s) e = orig s e.
Proof. reflexivity. Qed.
Lemma orig_splice a b s e : orig (splice a b s) e = orig s e.
Proof. reflexivity. Qed.
Lemma nq_splice a b s : nq (splice a b s) = nq s. Proof. reflexivity. Qed.
Lemma dead_splice a b s : dead (splice a b s) = dead s. Proof. reflexivity. Qed.

(* ------------------------------------------------------------------ the invariant *)
Record Inv (s : state) : Prop := {
  inv_dual : forall e, rot (oNext s (rot (oNext s e))) = e;             (* e Onext Rot Onext Rot = e *)
  inv_par : forall e, par (oNext s e) = par e;                           (* primal rings and dual rings *)
  inv_alloc : forall e, fst e < nq s -> fst (oNext s e) < nq s;          (* no pointer leaves the deque *)
  inv_fresh : forall e, nq s <= fst e -> oNext s e = (fst e, init_next (snd e));
  inv_dead : forall e, In (fst e) (dead s) -> oNext s e = (fst e, init_next (snd e));   (* removed quartets are detached *)
  inv_dead_alloc : forall q, In q (dead s) -> q < nq s }.

Definition usableP (s : state) (e : edge) : Prop := fst e < nq s /\ ~ In (fst e) (dead s).

Lemma usable_iff s e : usable s e = true <-> usableP s e.
Proof.
  unfold usable, usableP, allocated, is_dead. rewrite andb_true_iff, negb_true_iff, Nat.ltb_lt.
  split; intros [H1 H2]; split; auto.
  - intro Hin. assert (existsb (Nat.eqb (fst e)) (dead s) = true); [|congruence].
    apply existsb_exists. exists (fst e). split; auto. apply Nat.eqb_refl.
  - destruct (existsb (Nat.eqb (fst e)) (dead s)) eqn:E; auto.
    apply existsb_exists in E. destruct E as [x [Hx Hq]]. apply Nat.eqb_eq in Hq. subst. contradiction.
Qed.

Section Derived.
  Variable s : state.
  Hypothesis I : Inv s.

  Lemma oNext_inj x y : oNext s x = oNext s y -> x = y.
  Proof. intro H. rewrite <- (inv_dual s I x), <- (inv_dual s I y), H. reflexivity. Qed.

  (* the other reading of the axiom: e Rot Onext Rot Onext = e *)
  Lemma dual2 e : oNext s (rot (oNext s (rot e))) = e.
  Proof. apply rot_inj. apply (inv_dual s I (rot e)). Qed.

  Lemma oPrev_oNext e : oPrev s (oNext s e) = e.
  Proof. unfold oPrev. apply (inv_dual s I). Qed.
  Lemma oNext_oPrev e : oNext s (oPrev s e) = e.
  Proof. unfold oPrev. apply dual2. Qed.

  Lemma par_oPrev e : par (oPrev s e) = par e.
  Proof. unfold oPrev. rewrite par_rot, (inv_par s I), par_rot. apply negb_involutive. Qed.
  Lemma par_lNext e : par (lNext s e) = par e.
  Proof. unfold lNext. rewrite par_rot, (inv_par s I), par_invRot. apply negb_involutive. Qed.

  Lemma lNext_oPrev_sym e : lNext s e = oPrev s (sym e).
  Proof. destruct e as [q []]; reflexivity. Qed.

  Lemma live_oNext e : ~ In (fst e) (dead s) -> ~ In (fst (oNext s e)) (dead s).
  Proof.
    intros Hl Hd. apply Hl.
    pose proof (inv_dual s I e) as H.
    assert (Hd' : In (fst (rot (oNext s e))) (dead s)) by exact Hd.
    rewrite (inv_dead s I _ Hd') in H. rewrite <- H. exact Hd.
  Qed.

  Lemma usable_oNext e : usableP s e -> usableP s (oNext s e).
  Proof. intros [H1 H2]. split; [apply (inv_alloc s I); auto | apply live_oNext; auto]. Qed.
  Lemma usable_rot e : usableP s e -> usableP s (rot e).
  Proof. auto. Qed.
  Lemma usable_oPrev e : usableP s e -> usableP s (oPrev s e).
  Proof. intro H. unfold oPrev. apply usable_rot, usable_oNext, usable_rot, H. Qed.
  Lemma usable_lNext e : usableP s e -> usableP s (lNext s e).
  Proof. intro H. unfold lNext. apply usable_rot, usable_oNext. exact H. Qed.
End Derived.

(* ------------------------------------------------------------------ splice = composition with a double transposition *)
Definition sig (a b al be e : edge) : edge :=
  if edge_eqb be e then al else if edge_eqb al e then be else if edge_eqb b e then a else if edge_eqb a e then b else e.

Ltac eqtests := repeat match goal with |- context [edge_eqb ?x ?y] =>
  lazymatch y with context [edge_eqb _ _] => fail | _ => destruct (edge_eqb_spec x y) end end.

Lemma splice_oNext_raw s a b e :
  let al := rot (oNext s a) in let be := rot (oNext s b) in
  al <> a -> al <> b -> be <> a -> be <> b ->
  oNext (splice a b s) e = oNext s (sig a b al be e).
Proof.
  intros al be H1 H2 H3 H4. unfold splice. fold al. fold be.
  rewrite !oNext_setNext. unfold sig. eqtests; subst; try congruence.
Qed.

Lemma sig_invol a b al be e :
  al <> a -> al <> b -> be <> a -> be <> b -> sig a b al be (sig a b al be e) = e.
Proof. intros. unfold sig. eqtests; subst; congruence. Qed.

Lemma sig_comm (f : edge -> edge) a b al be e :
  f a = al -> f b = be -> f al = a -> f be = b -> f (f e) = e ->
  al <> a -> al <> b -> be <> a -> be <> b ->
  f (sig a b al be e) = sig a b al be (f e).
Proof. intros. unfold sig. eqtests; subst; congruence. Qed.

Lemma sig_par a b al be e : par a = par b -> par al = par be -> par (sig a b al be e) = par e.
Proof. intros. unfold sig. eqtests; subst; congruence. Qed.

Lemma sig_other a b al be e : e <> a -> e <> b -> e <> al -> e <> be -> sig a b al be e = e.
Proof. intros. unfold sig. eqtests; subst; congruence. Qed.

Lemma sig_at_a a b al be : al <> a -> be <> a -> sig a b al be a = b.
Proof. intros. unfold sig. eqtests; congruence. Qed.
Lemma sig_at_b a b al be : al <> b -> be <> b -> sig a b al be b = a.
Proof. intros. unfold sig. eqtests; congruence. Qed.
Lemma sig_at_al a b al be : sig a b al be al = be.
Proof. intros. unfold sig. eqtests; congruence. Qed.
Lemma sig_at_be a b al be : sig a b al be be = al.
Proof. intros. unfold sig. eqtests; congruence. Qed.

Section Splice.
  Variables (s : state) (a b : edge).
  Hypothesis I : Inv s.
  Hypothesis Hpar : par a = par b.
  Let al := rot (oNext s a).
  Let be := rot (oNext s b).

  Lemma par_al : par al = negb (par a).
  Proof. unfold al. rewrite par_rot, (inv_par s I). reflexivity. Qed.
  Lemma par_be : par be = negb (par b).
  Proof. unfold be. rewrite par_rot, (inv_par s I). reflexivity. Qed.
  Lemma al_a : al <> a. Proof. apply par_neq. rewrite par_al. destruct (par a); discriminate. Qed.
  Lemma al_b : al <> b. Proof. apply par_neq. rewrite par_al, Hpar. destruct (par b); discriminate. Qed.
  Lemma be_a : be <> a. Proof. apply par_neq. rewrite par_be, Hpar. destruct (par b); discriminate. Qed.
  Lemma be_b : be <> b. Proof. apply par_neq. rewrite par_be. destruct (par b); discriminate. Qed.

  Lemma splice_oNext e : oNext (splice a b s) e = oNext s (sig a b al be e).
  Proof. apply splice_oNext_raw; [apply al_a | apply al_b | apply be_a | apply be_b]. Qed.

  Lemma splice_oNext_a : oNext (splice a b s) a = oNext s b.
  Proof. rewrite splice_oNext. f_equal. apply sig_at_a; [apply al_a | apply be_a]. Qed.
  Lemma splice_oNext_b : oNext (splice a b s) b = oNext s a.
  Proof. rewrite splice_oNext. f_equal. apply sig_at_b; [apply al_b | apply be_b]. Qed.
  Lemma splice_oNext_al : oNext (splice a b s) al = oNext s be.
  Proof. rewrite splice_oNext. f_equal. apply sig_at_al. Qed.
  Lemma splice_oNext_be : oNext (splice a b s) be = oNext s al.
  Proof. rewrite splice_oNext. f_equal. apply sig_at_be. Qed.
  Lemma splice_oNext_other e : e <> a -> e <> b -> e <> al -> e <> be -> oNext (splice a b s) e = oNext s e.
  Proof. intros. rewrite splice_oNext, sig_other; auto. Qed.

  Let f := fun x => rot (oNext s x).
  Lemma f_invol x : f (f x) = x. Proof. apply (inv_dual s I). Qed.

  Lemma sig_f e : f (sig a b al be e) = sig a b al be (f e).
  Proof.
    apply sig_comm; try reflexivity; try apply f_invol.
    - apply al_a. - apply al_b. - apply be_a. - apply be_b.
  Qed.

  Lemma splice_dual e : rot (oNext (splice a b s) (rot (oNext (splice a b s) e))) = e.
  Proof.
    rewrite !splice_oNext.
    change (f (sig a b al be (f (sig a b al be e))) = e).
    rewrite <- sig_f, f_invol. apply sig_invol; [apply al_a | apply al_b | apply be_a | apply be_b].
  Qed.

  Hypothesis Ua : usableP s a.
  Hypothesis Ub : usableP s b.

  Lemma usable_al : usableP s al. Proof. apply usable_rot, usable_oNext; auto. Qed.
  Lemma usable_be : usableP s be. Proof. apply usable_rot, usable_oNext; auto. Qed.

  Lemma sig_usable e : usableP s e -> usableP s (sig a b al be e).
  Proof. intro. pose proof usable_al. pose proof usable_be. unfold sig. eqtests; auto. Qed.

  Lemma sig_unusable e : ~ usableP s e -> sig a b al be e = e.
  Proof.
    intro H. pose proof usable_al. pose proof usable_be.
    apply sig_other; intro Heq; rewrite Heq in H; contradiction.
  Qed.

  Lemma splice_Inv : Inv (splice a b s).
  Proof.
    constructor.
    - apply splice_dual.
    - intro e. rewrite splice_oNext, (inv_par s I). apply sig_par; auto.
      rewrite par_al, par_be, Hpar. reflexivity.
    - intros e He. rewrite nq_splice in *. rewrite splice_oNext.
      destruct (in_dec Nat.eq_dec (fst e) (dead s)) as [Hd | Hd].
      + rewrite sig_unusable by (intros [_ Hx]; contradiction). apply (inv_alloc s I); auto.
      + apply (inv_alloc s I). apply sig_usable. split; auto.
    - intros e He. rewrite nq_splice in *. rewrite splice_oNext, sig_unusable.
      + apply (inv_fresh s I); auto.
      + intros [Hx _]. lia.
    - intros e He. rewrite dead_splice in *. rewrite splice_oNext, sig_unusable.
      + apply (inv_dead s I); auto.
      + intros [_ Hx]. contradiction.
    - intros q Hq. rewrite dead_splice in Hq. rewrite nq_splice. apply (inv_dead_alloc s I); auto.
  Qed.

  (* splice is an involution: a second splice of the same two edges restores every next pointer *)
  Lemma splice_splice e : oNext (splice a b (splice a b s)) e = oNext s e.
  Proof.
    pose proof splice_Inv as I'.
    rewrite (splice_oNext_raw (splice a b s) a b e); rewrite ?splice_oNext_a, ?splice_oNext_b.
    - fold al. fold be. rewrite splice_oNext.
      f_equal. pose proof al_a; pose proof al_b; pose proof be_a; pose proof be_b.
      unfold sig. eqtests; congruence.
    - fold be. apply be_a.
    - fold be. apply be_b.
    - fold al. apply al_a.
    - fold al. apply al_b.
  Qed.
End Splice.

Lemma usableP_splice a b s e : usableP (splice a b s) e <-> usableP s e.
Proof. unfold usableP. rewrite nq_splice, dead_splice. tauto. Qed.

(* ------------------------------------------------------------------ makeEdge *)
Lemma oNext_makeEdge o d s e : Inv s -> oNext (fst (makeEdge o d s)) e = oNext s e.
Proof.
  intro I. unfold makeEdge. cbn [fst]. unfold setDest. rewrite !oNext_setOrig, !oNext_setNext.
  change (oNext (mkState (S (nq s)) (nxt s) (org s) (dead s)) e) with (oNext s e).
  eqtests; subst; try reflexivity; rewrite (inv_fresh s I) by (cbn; lia); reflexivity.
Qed.

Lemma nq_makeEdge o d s : nq (fst (makeEdge o d s)) = S (nq s). Proof. reflexivity. Qed.
Lemma dead_makeEdge o d s : dead (fst (makeEdge o d s)) = dead s. Proof. reflexivity. Qed.
Lemma snd_makeEdge o d s : snd (makeEdge o d s) = (nq s, R0). Proof. reflexivity. Qed.

Lemma makeEdge_Inv o d s : Inv s -> Inv (fst (makeEdge o d s)).
Proof.
  intro I. constructor.
  - intro e. rewrite !oNext_makeEdge by auto. apply (inv_dual s I).
  - intro e. rewrite !oNext_makeEdge by auto. apply (inv_par s I).
  - intros e He. rewrite nq_makeEdge in *. rewrite oNext_makeEdge by auto.
    destruct (Nat.lt_ge_cases (fst e) (nq s)) as [Hl | Hg].
    + pose proof (inv_alloc s I e Hl). lia.
    + rewrite (inv_fresh s I e Hg). cbn. lia.
  - intros e He. rewrite nq_makeEdge in *. rewrite oNext_makeEdge by auto. apply (inv_fresh s I). lia.
  - intros e He. rewrite dead_makeEdge in *. rewrite oNext_makeEdge by auto. apply (inv_dead s I); auto.
  - intros q Hq. rewrite dead_makeEdge in Hq. rewrite nq_makeEdge. pose proof (inv_dead_alloc s I q Hq). lia.
Qed.

Lemma usableP_makeEdge_old o d s e : usableP s e -> usableP (fst (makeEdge o d s)) e.
Proof. unfold usableP. rewrite nq_makeEdge, dead_makeEdge. intros [H1 H2]. split; auto. Qed.
Lemma usableP_makeEdge_new o d s r : Inv s -> usableP (fst (makeEdge o d s)) (nq s, r).
Proof.
  intro I. unfold usableP. rewrite nq_makeEdge, dead_makeEdge. cbn [fst]. split; [lia|].
  intro H. pose proof (inv_dead_alloc s I _ H). lia.
Qed.

Lemma Inv_ext s s' :
  (forall e, oNext s' e = oNext s e) -> nq s' = nq s -> dead s' = dead s -> Inv s -> Inv s'.
Proof.
  intros HN Hn Hd I. constructor.
  - intro e. rewrite !HN. apply (inv_dual s I).
  - intro e. rewrite HN. apply (inv_par s I).
  - intros e. rewrite HN, Hn. apply (inv_alloc s I).
  - intros e. rewrite HN, Hn. apply (inv_fresh s I).
  - intros e. rewrite HN, Hd. apply (inv_dead s I).
  - intros q. rewrite Hn, Hd. apply (inv_dead_alloc s I).
Qed.

(* ------------------------------------------------------------------ connect *)
Lemma connect_Inv a b s :
  Inv s -> usableP s a -> usableP s b -> par a = true -> par b = true -> Inv (fst (connect a b s)).
Proof.
  intros I Ua Ub Pa Pb. unfold connect.
  destruct (makeEdge (dest s a) (orig s b) s) as [s1 q0] eqn:E.
  assert (E1 : s1 = fst (makeEdge (dest s a) (orig s b) s)) by (rewrite E; reflexivity).
  assert (E2 : q0 = (nq s, R0)) by (rewrite <- (snd_makeEdge (dest s a) (orig s b) s), E; reflexivity).
  cbn [fst].
  assert (I1 : Inv s1) by (subst s1; apply makeEdge_Inv; auto).
  assert (Uq : usableP s1 q0) by (subst; apply usableP_makeEdge_new; auto).
  assert (Ua1 : usableP s1 a) by (subst s1; apply usableP_makeEdge_old; auto).
  assert (Ub1 : usableP s1 b) by (subst s1; apply usableP_makeEdge_old; auto).
  assert (I2 : Inv (splice q0 (lNext s1 a) s1)).
  { apply splice_Inv; [exact I1 | | exact Uq | apply usable_lNext; auto].
    rewrite par_lNext by auto. rewrite Pa. subst q0. reflexivity. }
  apply splice_Inv; [exact I2 | | apply usableP_splice; exact Uq | apply usableP_splice; exact Ub1].
  rewrite par_sym, Pb. subst q0. reflexivity.
Qed.

(* ------------------------------------------------------------------ swap *)
Lemma swap_Inv e s : Inv s -> usableP s e -> Inv (swap e s).
Proof.
  intros I Ue. unfold swap.
  set (a := oPrev s e). set (b := oPrev s (sym e)).
  assert (Ua : usableP s a) by (apply usable_oPrev; auto).
  assert (Ub : usableP s b) by (apply usable_oPrev; auto).
  assert (Pa : par a = par e) by (apply par_oPrev; auto).
  assert (Pb : par b = par e) by (unfold b; rewrite par_oPrev, par_sym; auto).
  set (s1 := splice e a s).
  assert (I1 : Inv s1) by (apply splice_Inv; [exact I | symmetry; exact Pa | exact Ue | exact Ua]).
  set (s2 := splice (sym e) b s1).
  assert (I2 : Inv s2).
  { apply splice_Inv; [exact I1 | rewrite par_sym; symmetry; exact Pb | apply usableP_splice; exact Ue | apply usableP_splice; exact Ub]. }
  set (s3 := splice e (lNext s2 a) s2).
  assert (U2 : forall x, usableP s x -> usableP s2 x) by (intros x Hx; apply usableP_splice, usableP_splice, Hx).
  assert (I3 : Inv s3).
  { apply splice_Inv; [exact I2 | | apply U2; exact Ue | apply usable_lNext; auto].
    rewrite par_lNext by auto. symmetry; exact Pa. }
  set (s4 := splice (sym e) (lNext s3 b) s3).
  assert (U3 : forall x, usableP s x -> usableP s3 x) by (intros x Hx; apply usableP_splice, U2, Hx).
  assert (I4 : Inv s4).
  { apply splice_Inv; [exact I3 | | apply (U3 (sym e)); exact Ue | apply usable_lNext; auto].
    rewrite par_lNext by auto. rewrite par_sym. symmetry; exact Pb. }
  eapply Inv_ext; [ | | | exact I4]; reflexivity.
Qed.

(* ------------------------------------------------------------------ remove *)
Section Remove.
  Variables (s : state) (e : edge).
  Hypothesis I : Inv s.
  Hypothesis Ue : usableP s e.
  Hypothesis Pe : par e = true.
  Let s1 := splice e (oPrev s e) s.
  Let s2 := splice (sym e) (oPrev s1 (sym e)) s1.

  Lemma remove_P1 : par e = par (oPrev s e).
  Proof. symmetry; apply par_oPrev; auto. Qed.

  Lemma remove_I1 : Inv s1.
  Proof. apply splice_Inv; [exact I | apply remove_P1 | exact Ue | apply usable_oPrev; auto]. Qed.

  Lemma remove_P2 : par (sym e) = par (oPrev s1 (sym e)).
  Proof. symmetry; apply par_oPrev. apply remove_I1. Qed.

  Lemma remove_U2 : usableP s1 (sym e).
  Proof. apply usableP_splice. exact Ue. Qed.

  Lemma remove_I2 : Inv s2.
  Proof.
    apply splice_Inv; [apply remove_I1 | apply remove_P2 | apply remove_U2 | apply usable_oPrev; [apply remove_I1 | apply remove_U2]].
  Qed.

  Lemma remove_N1_e : oNext s1 e = e.
  Proof. unfold s1. rewrite splice_oNext_a; [apply oNext_oPrev; auto | exact I | apply remove_P1]. Qed.

  Lemma remove_N2_sym : oNext s2 (sym e) = sym e.
  Proof.
    unfold s2. rewrite splice_oNext_a; [apply oNext_oPrev; apply remove_I1 | apply remove_I1 | apply remove_P2].
  Qed.

  Lemma remove_N2_e : oNext s2 e = e.
  Proof.
    pose proof remove_I1 as I1. unfold s2. rewrite splice_oNext_other; [apply remove_N1_e | exact I1 | apply remove_P2 | | | | ].
    - intro H. apply (sym_neq e). symmetry. exact H.
    - intro H. pose proof (oNext_oPrev s1 I1 (sym e)) as H2. rewrite <- H, remove_N1_e in H2.
      apply (sym_neq e). symmetry. exact H2.
    - apply par_neq. rewrite par_rot, (inv_par s1 I1), par_sym. destruct (par e); discriminate.
    - apply par_neq. rewrite par_rot, (inv_par s1 I1), par_oPrev, par_sym by auto. destruct (par e); discriminate.
  Qed.

  Lemma remove_isolated x : fst x = fst e -> oNext s2 x = (fst x, init_next (snd x)).
  Proof.
    intro Hx. pose proof remove_I2 as I2.
    pose proof remove_N2_e as H0. pose proof remove_N2_sym as H2.
    pose proof (inv_dual s2 I2 e) as H1. rewrite H0 in H1. apply (f_equal invRot) in H1. rewrite invRot_rot in H1.
    pose proof (inv_dual s2 I2 (sym e)) as H3. rewrite H2 in H3. apply (f_equal invRot) in H3. rewrite invRot_rot in H3.
    clear I2. revert H0 H1 H2 H3. generalize (oNext s2). intros N H0 H1 H2 H3.
    pose proof Pe as Pe'. clear - Hx H0 H1 H2 H3 Pe'.
    destruct e as [q r0], x as [q' r]. cbn [fst snd] in *. subst q'.
    unfold rot, sym, invRot in *.
    destruct r0; try discriminate Pe'; destruct r; cbn in H0, H1, H2, H3 |- *; congruence.
  Qed.

  Lemma remove_Inv : Inv (remove e s).
  Proof.
    pose proof remove_I2 as I2. unfold remove. fold s1. fold s2.
    constructor; cbn [nq dead].
    - intro x. apply (inv_dual s2 I2).
    - intro x. apply (inv_par s2 I2).
    - intro x. apply (inv_alloc s2 I2).
    - intro x. apply (inv_fresh s2 I2).
    - intros x [Hx | Hx].
      + apply remove_isolated. auto.
      + apply (inv_dead s2 I2 x Hx).
    - intros q [Hq | Hq].
      + subst q. destruct Ue as [H _]. exact H.
      + apply (inv_dead_alloc s2 I2 q Hq).
  Qed.
End Remove.

(* ------------------------------------------------------------------ every legal history *)
Lemma empty_Inv : Inv empty.
Proof.
  constructor; try (intros; reflexivity).
  - intros [q []]; reflexivity.
  - intros [q []]; reflexivity.
  - cbn. intros; lia.
  - cbn. intros; contradiction.
Qed.

Lemma step_Inv s o : Inv s -> legal s o = true -> Inv (step s o).
Proof.
  intros I L. destruct o; cbn [step legal] in *.
  - apply makeEdge_Inv; auto.
  - rewrite !andb_true_iff in L. destruct L as [[Ua Ub] P].
    apply usable_iff in Ua. apply usable_iff in Ub. apply eqb_prop in P. apply splice_Inv; auto.
  - rewrite !andb_true_iff in L. destruct L as [[[Ua Ub] Pa] Pb].
    apply usable_iff in Ua. apply usable_iff in Ub. apply connect_Inv; auto.
  - rewrite !andb_true_iff in L. destruct L as [Ue _]. apply usable_iff in Ue. apply swap_Inv; auto.
  - rewrite andb_true_iff in L. destruct L as [Ue Pe]. apply usable_iff in Ue. apply remove_Inv; auto.
Qed.

Lemma run_Inv h : forall s, Inv s -> legal_from s h = true -> Inv (run s h).
Proof.
  induction h as [|o t IH]; intros s I L; cbn [run legal_from] in *; auto.
  rewrite andb_true_iff in L. destruct L as [L1 L2]. apply IH; auto. apply step_Inv; auto.
Qed.

Theorem reachable_Inv h : legal_from empty h = true -> Inv (run empty h).
Proof. apply run_Inv, empty_Inv. Qed.

(* legal histories compose: the run of h ++ [o] *)
Lemma run_app h1 h2 s : run s (h1 ++ h2) = run (run s h1) h2.
Proof. revert s; induction h1; intro s; cbn; auto. Qed.

(* ------------------------------------------------------------------ the statements, for every reachable state *)
Definition reachable (s : state) : Prop := exists h, legal_from empty h = true /\ s = run empty h.

Lemma reachable_inv s : reachable s -> Inv s.
Proof. intros [h [L E]]. subst. apply reachable_Inv; auto. Qed.

Theorem qe_rot_group : forall e, rot (rot (rot (rot e))) = e /\ sym e = rot (rot e) /\ invRot (rot e) = e /\ rot (invRot e) = e.
Proof. intro e. repeat split; [apply rot4_id | apply sym_rot2 | apply invRot_rot | apply rot_invRot]. Qed.

Theorem qe_dual_axiom s : reachable s ->
  forall e, rot (oNext s (rot (oNext s e))) = e /\ oNext s (rot (oNext s (rot e))) = e.
Proof. intros R e. pose proof (reachable_inv s R) as I. split; [apply (inv_dual s I) | apply dual2; auto]. Qed.

Theorem qe_onext_permutation s : reachable s ->
  forall e, oPrev s (oNext s e) = e /\ oNext s (oPrev s e) = e
         /\ par (oNext s e) = par e
         /\ (usable s e = true -> usable s (oNext s e) = true /\ usable s (oPrev s e) = true)
         /\ (allocated s e = true -> allocated s (oNext s e) = true).
Proof.
  intros R e. pose proof (reachable_inv s R) as I. repeat split.
  - apply oPrev_oNext; auto.
  - apply oNext_oPrev; auto.
  - apply (inv_par s I).
  - apply usable_iff, usable_oNext, usable_iff; auto.
  - apply usable_iff, usable_oPrev, usable_iff; auto.
  - unfold allocated. rewrite !Nat.ltb_lt. apply (inv_alloc s I).
Qed.

Theorem qe_removed_detached s : reachable s ->
  forall e, is_dead s e = true -> oNext s e = (fst e, init_next (snd e)) /\ allocated s e = true.
Proof.
  intros R e D. pose proof (reachable_inv s R) as I.
  unfold is_dead in D. apply existsb_exists in D. destruct D as [q [Hq E]]. apply Nat.eqb_eq in E. subst q.
  split; [apply (inv_dead s I); auto | apply Nat.ltb_lt, (inv_dead_alloc s I); auto].
Qed.

Theorem qe_splice_involution s a b : reachable s -> legal s (Splice a b) = true ->
  (forall e, oNext (splice a b (splice a b s)) e = oNext s e)
  /\ (forall e, orig (splice a b (splice a b s)) e = orig s e)
  /\ nq (splice a b (splice a b s)) = nq s /\ dead (splice a b (splice a b s)) = dead s.
Proof.
  intros R L. pose proof (reachable_inv s R) as I. cbn [legal] in L.
  rewrite !andb_true_iff in L. destruct L as [[Ua Ub] P].
  apply usable_iff in Ua. apply usable_iff in Ub. apply eqb_prop in P.
  repeat split. intro e. apply splice_splice; auto.
Qed.

(* the ring surgery of splice: a and b exchange their successors, and so do a.oNext.rot and b.oNext.rot; every other pointer stays *)
Theorem qe_splice_exchange s a b : reachable s -> legal s (Splice a b) = true ->
  let s' := splice a b s in
  oNext s' a = oNext s b /\ oNext s' b = oNext s a
  /\ oNext s' (rot (oNext s a)) = oNext s (rot (oNext s b))
  /\ oNext s' (rot (oNext s b)) = oNext s (rot (oNext s a))
  /\ (forall e, e <> a -> e <> b -> e <> rot (oNext s a) -> e <> rot (oNext s b) -> oNext s' e = oNext s e).
Proof.
  intros R L. pose proof (reachable_inv s R) as I. cbn [legal] in L.
  rewrite !andb_true_iff in L. destruct L as [[Ua Ub] P]. apply eqb_prop in P.
  cbn zeta. repeat split.
  - apply splice_oNext_a; auto.
  - apply splice_oNext_b; auto.
  - apply splice_oNext_al; auto.
  - apply splice_oNext_be; auto.
  - intros. apply splice_oNext_other; auto.
Qed.

Theorem qe_remove_isolates s e : reachable s -> legal s (Remove e) = true ->
  forall x, fst x = fst e -> oNext (remove e s) x = (fst x, init_next (snd x)).
Proof.
  intros R L x Hx. pose proof (reachable_inv s R) as I. cbn [legal] in L.
  rewrite andb_true_iff in L. destruct L as [Ue Pe]. apply usable_iff in Ue.
  apply (inv_dead _ (remove_Inv s e I Ue Pe)). unfold remove. cbn [dead]. left. auto.
Qed.

(* ------------------------------------------------------------------ connect: the new edge runs from a.dest to b.orig *)
(* Full statement (QuadEdge.h: "connecting the destination of a to the origin of b, in such a way that all three have the same
   left face after the connection is complete"):
     reachable s -> legal s (Connect a b) = true -> let (s', q) := connect a b s in
       orig s' q = dest s a /\ dest s' q = orig s b /\ lNext s' a = q /\ lNext s' q = b.
   Proved here: the two endpoint clauses, that q is the base edge of a new quartet, and that no other vertex changes; the two
   lNext clauses are checked on every connect of the correspondence stream and in the Examples (ex_triangle), not proved. *)
Lemma org_connect a b s : org (fst (connect a b s)) = ((nq s, R2), orig s b) :: ((nq s, R0), dest s a) :: org s.
Proof. reflexivity. Qed.

Theorem qe_connect_partial s a b : reachable s -> legal s (Connect a b) = true ->
  let s' := fst (connect a b s) in let q := snd (connect a b s) in
  q = (nq s, R0) /\ nq s' = S (nq s) /\ orig s' q = dest s a /\ dest s' q = orig s b
  /\ (forall e, fst e <> nq s -> orig s' e = orig s e).
Proof.
  intros R L. cbn zeta.
  assert (Eq : snd (connect a b s) = (nq s, R0)) by reflexivity.
  rewrite Eq. split; [reflexivity|]. split; [reflexivity|].
  unfold dest at 2. unfold orig at 1 2 3. rewrite !org_connect. cbn [lookup sym fst snd rsym].
  unfold edge_eqb. cbn [fst snd rot4_eqb]. rewrite !Nat.eqb_refl. cbn [andb].
  split; [reflexivity|]. split; [reflexivity|].
  intros e He. unfold orig. rewrite org_connect. cbn [lookup]. unfold edge_eqb. cbn [fst snd].
  destruct (Nat.eqb_spec (nq s) (fst e)) as [E | E]; [congruence | reflexivity].
Qed.

(* ------------------------------------------------------------------ splice merges / splits rings *)
(* Full statement: for primal (or dual) a, b of a reachable state,
     (exists k, Nat.iter k (oNext (splice a b s)) a = b) <-> ~ (exists k, Nat.iter k (oNext s) a = b).
   Proved: qe_splice_exchange (the pointer exchange that causes it) and qe_splice_involution; the orbit statement itself is
   exercised by the Examples below (both directions) and by the correspondence stream (same-ring / different-ring splices). *)

(* ------------------------------------------------------------------ non-vacuity: a triangle built as the C++ builds its frame *)
Definition tri_history : list op :=
  [ MakeEdge 10 11; MakeEdge 11 12; Splice (0, R2) (1, R0); Connect (1, R0) (0, R0) ].
Definition tri_state := run empty tri_history.

Example ex_triangle :
  legal_from empty tri_history = true /\ inv_b tri_state = true /\ org_consistent_b tri_state = true
  /\ orbit tri_state (0, R0) = [(0, R0); (2, R2)]            (* ring of vertex 10 *)
  /\ orbit tri_state (1, R0) = [(1, R0); (0, R2)]            (* ring of vertex 11 *)
  /\ orbit tri_state (2, R0) = [(2, R0); (1, R2)]            (* ring of vertex 12 *)
  /\ orbit tri_state (0, R1) = [(0, R1); (2, R1); (1, R1)]   (* one face *)
  /\ orbit tri_state (0, R3) = [(0, R3); (1, R3); (2, R3)]   (* the other face *)
  /\ lNext tri_state (1, R0) = (2, R0) /\ lNext tri_state (2, R0) = (0, R0) /\ lNext tri_state (0, R0) = (1, R0)
  /\ orig tri_state (2, R0) = 12%Z /\ dest tri_state (2, R0) = 10%Z.
Proof. vm_compute. repeat split. Qed.

Example ex_frame : legal_from empty (init_subdiv 1 (-20) 22) = true /\ inv_b (run empty (init_subdiv 1 (-20) 22)) = true.
Proof. vm_compute. split; reflexivity. Qed.

(* splice of two different rings merges them; the same splice again splits the ring *)
Example ex_splice_merge_split :
  let s := run empty [MakeEdge 1 2; MakeEdge 1 3] in
  let s' := splice (0, R0) (1, R0) s in
  legal s (Splice (0, R0) (1, R0)) = true
  /\ in_orbit 8 s (0, R0) (1, R0) = false /\ in_orbit 8 s' (0, R0) (1, R0) = true
  /\ legal s' (Splice (0, R0) (1, R0)) = true
  /\ in_orbit 8 (splice (0, R0) (1, R0) s') (0, R0) (1, R0) = false.
Proof. vm_compute. repeat split. Qed.

(* two triangles sharing edge 2, swap of the shared edge, removal of an edge: legal, invariants hold, the removed quartet is dead *)
Definition quad_history : list op :=
  tri_history ++ [ MakeEdge 12 13; Splice (1, R2) (3, R0); Connect (3, R0) (2, R2); Swap (2, R0); Remove (4, R0) ].
Example ex_swap_remove :
  legal_from empty quad_history = true /\ inv_b (run empty quad_history) = true
  /\ org_consistent_b (run empty quad_history) = true
  /\ orig (run empty quad_history) (2, R0) = 13%Z /\ dest (run empty quad_history) (2, R0) = 11%Z
  /\ is_dead (run empty quad_history) (4, R2) = true.
Proof. vm_compute. repeat split. Qed.

(* a history that is not legal: splice of a primal with a dual edge breaks the algebra (inv_b false) *)
Example ex_illegal_splice :
  legal_from empty [MakeEdge 1 2; Splice (0, R0) (0, R1)] = false
  /\ inv_b (run empty [MakeEdge 1 2; Splice (0, R0) (0, R1)]) = false.
Proof. vm_compute. split; reflexivity. Qed.

Example ex_reachable_tri : reachable tri_state.
Proof. exists tri_history. split; [vm_compute; reflexivity | reflexivity]. Qed.
