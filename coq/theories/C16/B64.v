(* C16/B64 — what is proved about TrianglePredicate::isInCircleRobust as it is computed in binary64.

   Tie: Gen/TP_isInCircleRobust.v (generated from the C++ on every run) = B64Defs.robust_b64 (gen_isInCircleRobust_eq);
        robust_b64 is executed on SpecFloat.spec_float; its operations are linked to Flocq's IEEE-754 formalisation
        (SFmul/SFadd/SFsub/SFabs/SFopp/SFltb on B2SF images = Bmult/Bplus/Bminus/Babs/Bopp/Bltb, round to nearest even).

   Proved for all grid points with |ordinate| <= 2^25 (coordinates converted exactly by ofZ):
     robust_grid_sound        INTERIOR (0) => exact in-circle determinant > 0;  EXTERIOR (2) => < 0
     robust_grid_cocircular   exact determinant = 0 => BOUNDARY (1)
     robust_grid_complete     2^53 |determinant| > 12 * geos_band  =>  the answer is the exact one (the error band is at most
                              12 * 2^-53 * (sum of absolute products), the implementation's deterror being ~9 * 2^-53 times it)
   (every difference, product and two-term sum of the expression is an integer of magnitude <= 2^53 and therefore exact; the two
    106-bit products and their difference are rounded, and rounding is monotone, so a decided sign is the true sign.)
   Refuted (witness inside the bound): the converse — robust_grid_incomplete_refuted: a site strictly inside the circumcircle
   (determinant 837290705828400 > 0) on which the predicate answers BOUNDARY; and delaunay_by_robust_predicate_refuted: a
   triangulation of four grid sites that satisfies every tiling clause, in which NO edge test of the flipping loop answers
   INTERIOR, and which nevertheless has a site strictly inside a circumcircle. *)
From Coq Require Import ZArith Reals Lia Lra Bool List Floats.SpecFloat.
From Flocq Require Import Core.Core IEEE754.BinarySingleNaN.
From Flocq Require Import Relative.
From GeosV.Lib Require Import KernelDefs GenPreludeF.
From GeosV.C16 Require Import Defs B64Defs InCircle.
From GeosV.Gen Require TP_isInCircleRobust TP_isInCircleNonRobust.
Import ListNotations.
Local Open Scope Z_scope.

(* ------------------------------------------------------------------ generated definitions = hand model (tie G) *)
Lemma gen_isInCircleRobust_eq : forall q p r t, Gen.TP_isInCircleRobust.g_isInCircleRobust q p r t = robust_b64 q p r t.
Proof. intros q p r t. reflexivity. Qed.
Lemma gen_isInCircleNonRobust_eq : forall p q r t, Gen.TP_isInCircleNonRobust.g_isInCircleNonRobust p q r t = nonrobust_b64 p q r t.
Proof. intros p q r t. reflexivity. Qed.

(* ------------------------------------------------------------------ SpecFloat operations = Flocq operations *)

Notation bprec := 53%Z.
Notation bemax := 1024%Z.
Notation bf := (binary_float bprec bemax).
#[local] Instance Hprec : FLX.Prec_gt_0 bprec := eq_refl _.
#[local] Instance Hmax : Prec_lt_emax bprec bemax := eq_refl _.

Lemma round_nearest_even_equiv s m l : round_nearest_even m l = choice_mode mode_NE s m l.
Proof.
case l; [reflexivity|intro c].
case c; [ | reflexivity..].
now simpl; unfold Round.cond_incr; case Z.even.
Qed.

Lemma binary_round_aux_equiv sx mx ex lx :
  SpecFloat.binary_round_aux bprec bemax sx mx ex lx = BinarySingleNaN.binary_round_aux bprec bemax mode_NE sx mx ex lx.
Proof.
unfold SpecFloat.binary_round_aux, BinarySingleNaN.binary_round_aux.
set (mrse' := shr_fexp _ _ _).
case mrse'; intros mrs' e'; simpl.
now rewrite (round_nearest_even_equiv sx).
Qed.

Lemma binary_round_equiv s m e :
  SpecFloat.binary_round bprec bemax s m e = BinarySingleNaN.binary_round bprec bemax mode_NE s m e.
Proof.
unfold SpecFloat.binary_round, BinarySingleNaN.binary_round, shl_align_fexp.
set (mez := shl_align _ _ _); case mez as [mz ez].
apply binary_round_aux_equiv.
Qed.

Lemma binary_normalize_equiv m e szero :
  SpecFloat.binary_normalize bprec bemax m e szero
  = B2SF (BinarySingleNaN.binary_normalize bprec bemax Hprec Hmax mode_NE m e szero).
Proof.
case m as [ | p | p].
- now simpl.
- simpl; rewrite B2SF_SF2B; apply binary_round_equiv.
- simpl; rewrite B2SF_SF2B; apply binary_round_equiv.
Qed.

Lemma SFmul_B2SF (x y : bf) : SFmul bprec bemax (B2SF x) (B2SF y) = B2SF (Bmult mode_NE x y).
Proof.
  destruct x as [sx|sx| |sx mx ex Bx], y as [sy|sy| |sy my ey By]; try reflexivity.
  simpl. rewrite B2SF_SF2B. apply binary_round_aux_equiv.
Qed.
Lemma SFadd_B2SF (x y : bf) : SFadd bprec bemax (B2SF x) (B2SF y) = B2SF (Bplus mode_NE x y).
Proof.
  destruct x as [sx|sx| |sx mx ex Bx], y as [sy|sy| |sy my ey By]; try reflexivity; try (simpl; now case Bool.eqb).
  apply binary_normalize_equiv.
Qed.
Lemma SFsub_B2SF (x y : bf) : SFsub bprec bemax (B2SF x) (B2SF y) = B2SF (Bminus mode_NE x y).
Proof.
  destruct x as [sx|sx| |sx mx ex Bx], y as [sy|sy| |sy my ey By]; try reflexivity; try (simpl; now case Bool.eqb).
  simpl. unfold Zminus. rewrite <- cond_Zopp_negb. apply binary_normalize_equiv.
Qed.
Lemma SFabs_B2SF (x : bf) : SFabs (B2SF x) = B2SF (Babs x).
Proof. destruct x; reflexivity. Qed.
Lemma SFopp_B2SF (x : bf) : SFopp (B2SF x) = B2SF (Bopp x).
Proof. destruct x; reflexivity. Qed.

(* ------------------------------------------------------------------ real-number semantics of the operations *)
Local Open Scope R_scope.

Notation fexp := (FLT_exp (-1074) 53).
Notation rnd := (round radix2 fexp ZnearestE).
#[local] Instance fexp_valid : Valid_exp fexp := FLT_exp_valid (-1074) 53.
Definition finr (x : spec_float) (r : R) : Prop := exists b : bf, x = B2SF b /\ is_finite b = true /\ B2R b = r.

Lemma fmt_bpow : forall k, (0 <= k)%Z -> generic_format radix2 fexp (bpow radix2 k).
Proof. intros k Hk. apply generic_format_bpow. unfold FLT_exp. lia. Qed.

Lemma big_lt : forall k, (0 <= k < 1024)%Z -> forall x, Rabs x <= bpow radix2 k -> Rabs (rnd x) < bpow radix2 1024.
Proof.
  intros k Hk x Hx. apply Rle_lt_trans with (bpow radix2 k).
  - apply abs_round_le_generic; [ apply fexp_valid | apply valid_rnd_N | apply fmt_bpow; lia | exact Hx ].
  - apply bpow_lt. lia.
Qed.

Lemma fmt_int : forall z, (Z.abs z <= 2 ^ 53)%Z -> generic_format radix2 fexp (IZR z).
Proof.
  intros z Hz. destruct (Z.eq_dec (Z.abs z) (2 ^ 53)) as [E | E].
  - assert (IZR z = bpow radix2 53 \/ IZR z = - bpow radix2 53) as [-> | ->].
    { change (bpow radix2 53) with (IZR (2 ^ 53)). destruct (Z.abs_spec z) as [[_ A] | [_ A]]; [ left | right ].
      - f_equal. lia. - rewrite <- opp_IZR. f_equal. lia. }
    + apply fmt_bpow; lia.
    + apply generic_format_opp, fmt_bpow; lia.
  - apply generic_format_FLT. apply (FLT_spec radix2 (-1074) 53 (IZR z) (Float radix2 z 0)).
    + unfold F2R; simpl. ring.
    + simpl. lia.
    + simpl. lia.
Qed.
Lemma rnd_int : forall z, (Z.abs z <= 2 ^ 53)%Z -> rnd (IZR z) = IZR z.
Proof. intros z Hz. apply round_generic; [ apply valid_rnd_N | apply fmt_int, Hz ]. Qed.

Lemma rnd_le : forall x y, x <= y -> rnd x <= rnd y.
Proof. intros x y H. apply round_le; [ apply fexp_valid | apply valid_rnd_N | exact H ]. Qed.
Lemma rnd_0 : rnd 0 = 0.
Proof. apply round_0. apply valid_rnd_N. Qed.
Lemma rnd_nonneg : forall x, 0 <= x -> 0 <= rnd x.
Proof. intros x H. rewrite <- rnd_0. apply rnd_le, H. Qed.
Lemma rnd_neg_inv : forall x, rnd x < 0 -> x < 0.
Proof. intros x H. destruct (Rlt_le_dec x 0) as [L | L]; [ exact L | ]. pose proof (rnd_nonneg x L). lra. Qed.

Lemma finr_mul : forall x y rx ry, finr x rx -> finr y ry -> Rabs (rnd (rx * ry)) < bpow radix2 1024 ->
  finr (SFmul 53 1024 x y) (rnd (rx * ry)).
Proof.
  intros x y rx ry [bx [-> [Fx <-]]] [by_ [-> [Fy <-]]] Hov.
  rewrite SFmul_B2SF. pose proof (Bmult_correct 53 1024 Hprec Hmax mode_NE bx by_) as C.
  rewrite Rlt_bool_true in C by exact Hov. destruct C as [C1 [C2 _]].
  exists (Bmult mode_NE bx by_). split; [ reflexivity | split; [ rewrite C2, Fx, Fy; reflexivity | exact C1 ] ].
Qed.
Lemma finr_add : forall x y rx ry, finr x rx -> finr y ry -> Rabs (rnd (rx + ry)) < bpow radix2 1024 ->
  finr (SFadd 53 1024 x y) (rnd (rx + ry)).
Proof.
  intros x y rx ry [bx [-> [Fx <-]]] [by_ [-> [Fy <-]]] Hov.
  rewrite SFadd_B2SF. pose proof (Bplus_correct 53 1024 Hprec Hmax mode_NE bx by_ Fx Fy) as C.
  rewrite Rlt_bool_true in C by exact Hov. destruct C as [C1 [C2 _]].
  exists (Bplus mode_NE bx by_). split; [ reflexivity | split; [ exact C2 | exact C1 ] ].
Qed.
Lemma finr_sub : forall x y rx ry, finr x rx -> finr y ry -> Rabs (rnd (rx - ry)) < bpow radix2 1024 ->
  finr (SFsub 53 1024 x y) (rnd (rx - ry)).
Proof.
  intros x y rx ry [bx [-> [Fx <-]]] [by_ [-> [Fy <-]]] Hov.
  rewrite SFsub_B2SF. pose proof (Bminus_correct 53 1024 Hprec Hmax mode_NE bx by_ Fx Fy) as C.
  rewrite Rlt_bool_true in C by exact Hov. destruct C as [C1 [C2 _]].
  exists (Bminus mode_NE bx by_). split; [ reflexivity | split; [ exact C2 | exact C1 ] ].
Qed.
Lemma finr_abs : forall x rx, finr x rx -> finr (SFabs x) (Rabs rx).
Proof.
  intros x rx [bx [-> [Fx <-]]]. rewrite SFabs_B2SF. exists (Babs bx).
  split; [ reflexivity | split; [ rewrite is_finite_Babs; exact Fx | apply B2R_Babs ] ].
Qed.
Lemma finr_opp : forall x rx, finr x rx -> finr (SFopp x) (- rx).
Proof.
  intros x rx [bx [-> [Fx <-]]]. rewrite SFopp_B2SF. exists (Bopp bx).
  split; [ reflexivity | split; [ rewrite is_finite_Bopp; exact Fx | apply B2R_Bopp ] ].
Qed.
Lemma finr_ltb : forall x y rx ry, finr x rx -> finr y ry -> SFltb x y = Rlt_bool rx ry.
Proof.
  intros x y rx ry [bx [-> [Fx <-]]] [by_ [-> [Fy <-]]]. apply (Bltb_correct 53 1024 bx by_ Fx Fy).
Qed.
Lemma finr_ofZ : forall z, (Z.abs z <= 2 ^ 53)%Z -> finr (SpecFloat.binary_normalize 53 1024 z 0 false) (IZR z).
Proof.
  intros z Hz. rewrite binary_normalize_equiv.
  pose proof (binary_normalize_correct 53 1024 Hprec Hmax mode_NE z 0 false) as C. cbv zeta in C.
  assert (E : F2R (Float radix2 z 0) = IZR z) by (unfold F2R; simpl; ring).
  rewrite E in C. change (round radix2 (SpecFloat.fexp 53 1024) (round_mode mode_NE)) with rnd in C.
  rewrite (rnd_int z Hz) in C.
  rewrite Rlt_bool_true in C.
  - destruct C as [C1 [C2 _]]. eexists. split; [ reflexivity | split; [ exact C2 | exact C1 ] ].
  - apply Rle_lt_trans with (bpow radix2 53); [ | apply bpow_lt; lia ].
    change (bpow radix2 53) with (IZR (2 ^ 53)). rewrite <- abs_IZR. apply IZR_le, Hz.
Qed.

Local Open Scope Z_scope.
(* ------------------------------------------------------------------ exact integer steps, rounded steps *)

Definition finz (x : spec_float) (z : Z) : Prop := finr x (IZR z).

Lemma abs_IZR_le : forall z k, (0 <= k)%Z -> Z.abs z <= 2 ^ k -> (Rabs (IZR z) <= bpow radix2 k)%R.
Proof. intros z k Hk H. rewrite <- abs_IZR, <- (IZR_Zpower radix2 k Hk). apply IZR_le. exact H. Qed.

Lemma exz_sub : forall x y a b, finz x a -> finz y b -> Z.abs (a - b) <= 2 ^ 53 -> finz (sub x y) (a - b).
Proof.
  intros x y a b Hx Hy Hb. unfold finz, sub, GenPreludeF.prec, GenPreludeF.emax in *.
  rewrite <- (rnd_int (a - b) Hb), minus_IZR. apply finr_sub; [ exact Hx | exact Hy | ].
  rewrite <- minus_IZR. apply (big_lt 53); [ lia | apply abs_IZR_le; [ lia | exact Hb ] ].
Qed.
Lemma exz_add : forall x y a b, finz x a -> finz y b -> Z.abs (a + b) <= 2 ^ 53 -> finz (add x y) (a + b).
Proof.
  intros x y a b Hx Hy Hb. unfold finz, add, GenPreludeF.prec, GenPreludeF.emax in *.
  rewrite <- (rnd_int (a + b) Hb), plus_IZR. apply finr_add; [ exact Hx | exact Hy | ].
  rewrite <- plus_IZR. apply (big_lt 53); [ lia | apply abs_IZR_le; [ lia | exact Hb ] ].
Qed.
Lemma exz_mul : forall x y a b, finz x a -> finz y b -> Z.abs (a * b) <= 2 ^ 53 -> finz (mul x y) (a * b).
Proof.
  intros x y a b Hx Hy Hb. unfold finz, mul, GenPreludeF.prec, GenPreludeF.emax in *.
  rewrite <- (rnd_int (a * b) Hb), mult_IZR. apply finr_mul; [ exact Hx | exact Hy | ].
  rewrite <- mult_IZR. apply (big_lt 53); [ lia | apply abs_IZR_le; [ lia | exact Hb ] ].
Qed.
Lemma exz_abs : forall x a, finz x a -> finz (c_abs_1 x) (Z.abs a).
Proof. intros x a Hx. unfold finz, c_abs_1 in *. rewrite abs_IZR. apply finr_abs, Hx. Qed.
Lemma exz_ofZ : forall z, Z.abs z <= 2 ^ 53 -> finz (ofZ z) z.
Proof. intros z Hz. unfold finz, ofZ, GenPreludeF.prec, GenPreludeF.emax. apply finr_ofZ, Hz. Qed.

Lemma abs_mul_le : forall a b m n, Z.abs a <= m -> Z.abs b <= n -> Z.abs (a * b) <= m * n.
Proof. intros a b m n Ha Hb. rewrite Z.abs_mul. apply Z.mul_le_mono_nonneg; lia. Qed.

(* rounded operations *)
Lemma rnd_abs_le : forall k x, (0 <= k)%Z -> (Rabs x <= bpow radix2 k)%R -> (Rabs (rnd x) <= bpow radix2 k)%R.
Proof. intros k x Hk H. apply abs_round_le_generic; [ apply fexp_valid | apply valid_rnd_N | apply fmt_bpow, Hk | exact H ]. Qed.

Lemma rmul : forall x y rx ry kx ky, finr x rx -> finr y ry -> (0 <= kx)%Z -> (0 <= ky)%Z -> (kx + ky < 1024)%Z ->
  (Rabs rx <= bpow radix2 kx)%R -> (Rabs ry <= bpow radix2 ky)%R ->
  finr (mul x y) (rnd (rx * ry)) /\ (Rabs (rnd (rx * ry)) <= bpow radix2 (kx + ky))%R.
Proof.
  intros x y rx ry kx ky Hx Hy H1 H2 H3 Bx By_.
  assert (B : (Rabs (rx * ry) <= bpow radix2 (kx + ky))%R).
  { rewrite Rabs_mult, bpow_plus. apply Rmult_le_compat; try apply Rabs_pos; assumption. }
  split; [ | apply rnd_abs_le; [ lia | exact B ] ].
  unfold mul, GenPreludeF.prec, GenPreludeF.emax. apply finr_mul; [ exact Hx | exact Hy | ].
  apply (big_lt (kx + ky)); [ lia | exact B ].
Qed.
Lemma radd : forall x y rx ry k, finr x rx -> finr y ry -> (0 <= k)%Z -> (k + 1 < 1024)%Z ->
  (Rabs rx <= bpow radix2 k)%R -> (Rabs ry <= bpow radix2 k)%R ->
  finr (add x y) (rnd (rx + ry)) /\ (Rabs (rnd (rx + ry)) <= bpow radix2 (k + 1))%R.
Proof.
  intros x y rx ry k Hx Hy H1 H3 Bx By_.
  assert (B : (Rabs (rx + ry) <= bpow radix2 (k + 1))%R).
  { rewrite bpow_plus. change (bpow radix2 1) with 2%R. pose proof (Rabs_triang rx ry). lra. }
  split; [ | apply rnd_abs_le; [ lia | exact B ] ].
  unfold add, GenPreludeF.prec, GenPreludeF.emax. apply finr_add; [ exact Hx | exact Hy | ].
  apply (big_lt (k + 1)); [ lia | exact B ].
Qed.
Lemma rsub : forall x y rx ry k, finr x rx -> finr y ry -> (0 <= k)%Z -> (k + 1 < 1024)%Z ->
  (Rabs rx <= bpow radix2 k)%R -> (Rabs ry <= bpow radix2 k)%R ->
  finr (sub x y) (rnd (rx - ry)) /\ (Rabs (rnd (rx - ry)) <= bpow radix2 (k + 1))%R.
Proof.
  intros x y rx ry k Hx Hy H1 H3 Bx By_.
  assert (B : (Rabs (rx - ry) <= bpow radix2 (k + 1))%R).
  { rewrite bpow_plus. change (bpow radix2 1) with 2%R. pose proof (Rabs_triang rx (- ry)). rewrite Rabs_Ropp in H. unfold Rminus. lra. }
  split; [ | apply rnd_abs_le; [ lia | exact B ] ].
  unfold sub, GenPreludeF.prec, GenPreludeF.emax. apply finr_sub; [ exact Hx | exact Hy | ].
  apply (big_lt (k + 1)); [ lia | exact B ].
Qed.

(* the error factor is a positive binary64 below 1 *)
Lemma err_factor_fin : exists c, finr err_factor c /\ (0 < c /\ c <= 1 /\ c <= 5066549568928536 * bpow radix2 (-102))%R.
Proof.
  assert (E : err_factor = S754_finite false 5066549568928536 (-102)) by (vm_compute; reflexivity).
  pose (b := B754_finite false 5066549568928536 (-102) (eq_refl : bounded 53 1024 5066549568928536 (-102) = true) : bf).
  exists (B2R b). split.
  - exists b. split; [ rewrite E; reflexivity | split; reflexivity ].
  - unfold b, B2R, F2R; simpl. lra.
Qed.

(* ------------------------------------------------------------------ the computation on the 2^25 grid *)

Definition bounded25 (a : pt) : Prop := Z.abs (fst a) <= 2 ^ 25 /\ Z.abs (snd a) <= 2 ^ 25.

(* an exactly represented integer together with a bound 2^k on its magnitude *)
Definition finzb (x : spec_float) (z k : Z) : Prop := finz x z /\ Z.abs z <= 2 ^ k /\ 0 <= k.

Lemma pow2_le : forall j k, 0 <= j -> (j <=? k) = true -> 2 ^ j <= 2 ^ k.
Proof. intros j k Hj H. apply Z.leb_le in H. apply Z.pow_le_mono_r; lia. Qed.
Lemma zb_ofZ : forall z, Z.abs z <= 2 ^ 25 -> finzb (ofZ z) z 25.
Proof.
  intros z H. split; [ | split; [ exact H | discriminate ] ].
  apply exz_ofZ. apply Z.le_trans with (1 := H). apply pow2_le; [ discriminate | reflexivity ].
Qed.
Lemma zb_sub : forall x y a b k, finzb x a k -> finzb y b k -> (k + 1 <=? 53) = true -> finzb (sub x y) (a - b) (k + 1).
Proof.
  intros x y a b k [Fx [Bx Hk]] [Fy [By_ _]] H.
  assert (B : Z.abs (a - b) <= 2 ^ (k + 1)).
  { rewrite Z.pow_add_r, Z.pow_1_r by lia. clear - Bx By_. lia. }
  split; [ | split; [ exact B | lia ] ].
  apply exz_sub; [ exact Fx | exact Fy | ]. apply Z.le_trans with (1 := B). apply pow2_le; [ lia | exact H ].
Qed.
Lemma zb_add : forall x y a b k, finzb x a k -> finzb y b k -> (k + 1 <=? 53) = true -> finzb (add x y) (a + b) (k + 1).
Proof.
  intros x y a b k [Fx [Bx Hk]] [Fy [By_ _]] H.
  assert (B : Z.abs (a + b) <= 2 ^ (k + 1)).
  { rewrite Z.pow_add_r, Z.pow_1_r by lia. clear - Bx By_. lia. }
  split; [ | split; [ exact B | lia ] ].
  apply exz_add; [ exact Fx | exact Fy | ]. apply Z.le_trans with (1 := B). apply pow2_le; [ lia | exact H ].
Qed.
Lemma zb_mul : forall x y a b j k, finzb x a j -> finzb y b k -> (j + k <=? 53) = true -> finzb (mul x y) (a * b) (j + k).
Proof.
  intros x y a b j k [Fx [Bx Hj]] [Fy [By_ Hk]] H.
  assert (B : Z.abs (a * b) <= 2 ^ (j + k)).
  { rewrite Z.pow_add_r by lia. apply abs_mul_le; assumption. }
  split; [ | split; [ exact B | lia ] ].
  apply exz_mul; [ exact Fx | exact Fy | ]. apply Z.le_trans with (1 := B). apply pow2_le; [ lia | exact H ].
Qed.
Lemma zb_abs : forall x a k, finzb x a k -> finzb (c_abs_1 x) (Z.abs a) k.
Proof. intros x a k [Fx [Bx Hk]]. split; [ apply exz_abs, Fx | split; [ rewrite Z.abs_involutive; exact Bx | exact Hk ] ]. Qed.
Lemma zb_R : forall x z k, finzb x z k -> finr x (IZR z) /\ (Rabs (IZR z) <= bpow radix2 k)%R.
Proof. intros x z k [F [B Hk]]. split; [ exact F | apply abs_IZR_le; assumption ]. Qed.

Lemma abs_sub_tri : forall a b, Z.abs (a - b) <= Z.abs a + Z.abs b.
Proof. intros a b. lia. Qed.
Lemma det_b64_values : forall q p r t, bounded25 q -> bounded25 p -> bounded25 r -> bounded25 t ->
  exists A B C D S1 S2 S3 S4 c,
    geos_incircle q p r t = A * B - C * D /\ geos_band q p r t = S1 * S2 + S3 * S4
    /\ (Z.abs A <= S1 /\ Z.abs B <= S2 /\ Z.abs C <= S3 /\ Z.abs D <= S4)
    /\ (0 < c <= 5066549568928536 * bpow radix2 (-102))%R
    /\ finr (fst (det_b64 (fpt_of_pt q) (fpt_of_pt p) (fpt_of_pt r) (fpt_of_pt t))) (rnd (rnd (IZR A * IZR B) - rnd (IZR C * IZR D)))
    /\ finr (snd (det_b64 (fpt_of_pt q) (fpt_of_pt p) (fpt_of_pt r) (fpt_of_pt t)))
            (rnd (rnd (rnd (IZR S1 * IZR S2) + rnd (IZR S3 * IZR S4)) * c)).
Proof.
  intros [qx qy] [px py] [rx ry] [tx ty] [Hq1 Hq2] [Hp1 Hp2] [Hr1 Hr2] [Ht1 Ht2]. cbn [fst snd] in *.
  unfold det_b64, fpt_of_pt; cbn [f_x f_y fst snd]. cbv zeta.
  pose proof (zb_ofZ qx Hq1) as Fqx. pose proof (zb_ofZ qy Hq2) as Fqy. pose proof (zb_ofZ px Hp1) as Fpx. pose proof (zb_ofZ py Hp2) as Fpy.
  pose proof (zb_ofZ rx Hr1) as Frx. pose proof (zb_ofZ ry Hr2) as Fry. pose proof (zb_ofZ tx Ht1) as Ftx. pose proof (zb_ofZ ty Ht2) as Fty.
  clear Hq1 Hq2 Hp1 Hp2 Hr1 Hr2 Ht1 Ht2.
  pose proof (zb_sub _ _ _ _ _ Fqx Fpx eq_refl) as Fqpx. pose proof (zb_sub _ _ _ _ _ Fqy Fpy eq_refl) as Fqpy.
  pose proof (zb_sub _ _ _ _ _ Frx Fpx eq_refl) as Frpx. pose proof (zb_sub _ _ _ _ _ Fry Fpy eq_refl) as Frpy.
  pose proof (zb_sub _ _ _ _ _ Ftx Fpx eq_refl) as Ftpx. pose proof (zb_sub _ _ _ _ _ Fty Fpy eq_refl) as Ftpy.
  pose proof (zb_sub _ _ _ _ _ Ftx Fqx eq_refl) as Ftqx. pose proof (zb_sub _ _ _ _ _ Fty Fqy eq_refl) as Ftqy.
  pose proof (zb_sub _ _ _ _ _ Frx Fqx eq_refl) as Frqx. pose proof (zb_sub _ _ _ _ _ Fry Fqy eq_refl) as Frqy.
  pose proof (zb_mul _ _ _ _ _ _ Fqpx Ftpy eq_refl) as F1. pose proof (zb_mul _ _ _ _ _ _ Fqpy Ftpx eq_refl) as F2.
  pose proof (zb_mul _ _ _ _ _ _ Ftpx Ftqx eq_refl) as F3. pose proof (zb_mul _ _ _ _ _ _ Ftpy Ftqy eq_refl) as F4.
  pose proof (zb_mul _ _ _ _ _ _ Fqpx Frpy eq_refl) as F5. pose proof (zb_mul _ _ _ _ _ _ Fqpy Frpx eq_refl) as F6.
  pose proof (zb_mul _ _ _ _ _ _ Frpx Frqx eq_refl) as F7. pose proof (zb_mul _ _ _ _ _ _ Frpy Frqy eq_refl) as F8.
  clear Fqx Fqy Fpx Fpy Frx Fry Ftx Fty Fqpx Fqpy Frpx Frpy Ftpx Ftpy Ftqx Ftqy Frqx Frqy.
  set (m1 := (qx - px) * (ty - py)) in *. set (m2 := (qy - py) * (tx - px)) in *.
  set (m3 := (tx - px) * (tx - qx)) in *. set (m4 := (ty - py) * (ty - qy)) in *.
  set (m5 := (qx - px) * (ry - py)) in *. set (m6 := (qy - py) * (rx - px)) in *.
  set (m7 := (rx - px) * (rx - qx)) in *. set (m8 := (ry - py) * (ry - qy)) in *.
  change (25 + 1 + (25 + 1)) with 52 in *.
  destruct (zb_R _ _ _ (zb_sub _ _ _ _ _ F1 F2 eq_refl)) as [FA BA]. destruct (zb_R _ _ _ (zb_add _ _ _ _ _ F7 F8 eq_refl)) as [FB BB].
  destruct (zb_R _ _ _ (zb_sub _ _ _ _ _ F5 F6 eq_refl)) as [FC BC]. destruct (zb_R _ _ _ (zb_add _ _ _ _ _ F3 F4 eq_refl)) as [FD BD].
  destruct (zb_R _ _ _ (zb_add _ _ _ _ _ (zb_abs _ _ _ F1) (zb_abs _ _ _ F2) eq_refl)) as [FS1 BS1].
  destruct (zb_R _ _ _ (zb_add _ _ _ _ _ (zb_abs _ _ _ F7) (zb_abs _ _ _ F8) eq_refl)) as [FS2 BS2].
  destruct (zb_R _ _ _ (zb_add _ _ _ _ _ (zb_abs _ _ _ F5) (zb_abs _ _ _ F6) eq_refl)) as [FS3 BS3].
  destruct (zb_R _ _ _ (zb_add _ _ _ _ _ (zb_abs _ _ _ F3) (zb_abs _ _ _ F4) eq_refl)) as [FS4 BS4].
  clear F1 F2 F3 F4 F5 F6 F7 F8.
  change (52 + 1) with 53 in *.
  set (A := m1 - m2) in *. set (B := m7 + m8) in *. set (C := m5 - m6) in *. set (D := m3 + m4) in *.
  set (S1 := Z.abs m1 + Z.abs m2) in *. set (S2 := Z.abs m7 + Z.abs m8) in *.
  set (S3 := Z.abs m5 + Z.abs m6) in *. set (S4 := Z.abs m3 + Z.abs m4) in *.
  destruct (rmul _ _ _ _ 53 53 FA FB ltac:(discriminate) ltac:(discriminate) ltac:(reflexivity) BA BB) as [FP1 BP1].
  destruct (rmul _ _ _ _ 53 53 FC FD ltac:(discriminate) ltac:(discriminate) ltac:(reflexivity) BC BD) as [FP2 BP2].
  destruct (rsub _ _ _ _ (53 + 53) FP1 FP2 ltac:(discriminate) ltac:(reflexivity) BP1 BP2) as [Fd Bd].
  destruct (rmul _ _ _ _ 53 53 FS1 FS2 ltac:(discriminate) ltac:(discriminate) ltac:(reflexivity) BS1 BS2) as [FE1 BE1].
  destruct (rmul _ _ _ _ 53 53 FS3 FS4 ltac:(discriminate) ltac:(discriminate) ltac:(reflexivity) BS3 BS4) as [FE2 BE2].
  destruct (radd _ _ _ _ (53 + 53) FE1 FE2 ltac:(discriminate) ltac:(reflexivity) BE1 BE2) as [FE BE].
  destruct err_factor_fin as [c [Fc [Hc0 [Hc1 Hc2]]]].
  assert (Bc : (Rabs c <= bpow radix2 0)%R) by (simpl; rewrite Rabs_pos_eq; lra).
  destruct (rmul _ _ _ _ (53 + 53 + 1) 0 FE Fc ltac:(discriminate) ltac:(discriminate) ltac:(reflexivity) BE Bc) as [Fe _].
  exists A, B, C, D, S1, S2, S3, S4, c.
  split; [ reflexivity | split; [ reflexivity | ] ].
  split; [ subst A B C D S1 S2 S3 S4; repeat split; first [ apply Z.abs_triangle | apply abs_sub_tri ] | ].
  split; [ split; [ exact Hc0 | exact Hc2 ] | split; [ exact Fd | exact Fe ] ].
Qed.

(* a decided sign is the true sign: monotonicity of rounding on the exactly known operands *)
Lemma det_b64_spec : forall q p r t, bounded25 q -> bounded25 p -> bounded25 r -> bounded25 t ->
  exists dr er, finr (fst (det_b64 (fpt_of_pt q) (fpt_of_pt p) (fpt_of_pt r) (fpt_of_pt t))) dr
             /\ finr (snd (det_b64 (fpt_of_pt q) (fpt_of_pt p) (fpt_of_pt r) (fpt_of_pt t))) er
             /\ (0 <= er)%R
             /\ ((dr < 0)%R -> geos_incircle q p r t < 0) /\ ((0 < dr)%R -> 0 < geos_incircle q p r t).
Proof.
  intros q p r t Hq Hp Hr Ht.
  destruct (det_b64_values q p r t Hq Hp Hr Ht) as (A & B & C & D & S1 & S2 & S3 & S4 & c & EG & ET & (HA & HB & HC & HD) & Hc & Fd & Fe).
  eexists. eexists. split; [ exact Fd | split; [ exact Fe | ] ].
  assert (NN : forall z, 0 <= z -> (0 <= IZR z)%R) by (intros; apply IZR_le; assumption).
  split.
  { apply rnd_nonneg. apply Rmult_le_pos; [ | lra ]. apply rnd_nonneg.
    apply Rplus_le_le_0_compat; apply rnd_nonneg; apply Rmult_le_pos; apply NN; lia. }
  rewrite EG. split.
  - intros Hd. apply rnd_neg_inv in Hd.
    assert (L : (IZR A * IZR B < IZR C * IZR D)%R).
    { destruct (Rlt_le_dec (IZR A * IZR B) (IZR C * IZR D)) as [L | L]; [ exact L | ]. apply rnd_le in L. lra. }
    rewrite <- !mult_IZR in L. apply lt_IZR in L. apply Z.lt_sub_0. exact L.
  - intros Hd.
    assert (Hd' : (0 < rnd (IZR A * IZR B) - rnd (IZR C * IZR D))%R).
    { destruct (Rlt_le_dec 0 (rnd (IZR A * IZR B) - rnd (IZR C * IZR D))) as [L | L]; [ exact L | ].
      apply rnd_le in L. rewrite rnd_0 in L. lra. }
    assert (L : (IZR C * IZR D < IZR A * IZR B)%R).
    { destruct (Rlt_le_dec (IZR C * IZR D) (IZR A * IZR B)) as [L | L]; [ exact L | ]. apply rnd_le in L. lra. }
    rewrite <- !mult_IZR in L. apply lt_IZR in L. apply Z.lt_0_sub. exact L.
Qed.

(* ------------------------------------------------------------------ relative error: outside the band the answer is decided *)
Local Open Scope R_scope.

Definition u : R := bpow radix2 (-53).
Lemma u_val : u = / 9007199254740992.
Proof. unfold u. simpl. reflexivity. Qed.
Lemma tiny_le_1 : bpow radix2 (-1022) <= 1.
Proof. change 1 with (bpow radix2 0). apply bpow_le. lia. Qed.

Lemma rel_err : forall x, (x = 0 \/ bpow radix2 (-1022) <= Rabs x) -> Rabs (rnd x - x) <= u * Rabs x.
Proof.
  intros x [-> | H].
  - rewrite rnd_0, Rminus_0_r, Rabs_R0. lra.
  - pose proof (relative_error_N_FLT radix2 (-1074) 53 (eq_refl : Prec_gt_0 53) (fun x => negb (Z.even x)) x) as R.
    change (-1074 + 53 - 1)%Z with (-1022)%Z in R. specialize (R H).
    assert (E : / 2 * bpow radix2 (- (53) + 1) = u) by (rewrite u_val; simpl; lra).
    rewrite E in R. exact R.
Qed.
Lemma int_cases : forall z : Z, IZR z = 0 \/ bpow radix2 (-1022) <= Rabs (IZR z).
Proof.
  intros z. destruct (Z.eq_dec z 0) as [-> | N]; [ left; reflexivity | right ].
  apply Rle_trans with (1 := tiny_le_1). rewrite <- abs_IZR. apply (IZR_le 1). lia.
Qed.
Lemma rnd_up : forall x, 0 <= x -> (x = 0 \/ bpow radix2 (-1022) <= x) -> rnd x <= x * (1 + u).
Proof.
  intros x Hx C. assert (C' : x = 0 \/ bpow radix2 (-1022) <= Rabs x) by (rewrite Rabs_pos_eq; assumption).
  pose proof (rel_err x C') as R. rewrite (Rabs_pos_eq x Hx) in R. apply Rabs_le_inv in R. lra.
Qed.
Lemma rnd_down : forall x, 0 <= x -> (x = 0 \/ bpow radix2 (-1022) <= x) -> x * (1 - u) <= rnd x.
Proof.
  intros x Hx C. assert (C' : x = 0 \/ bpow radix2 (-1022) <= Rabs x) by (rewrite Rabs_pos_eq; assumption).
  pose proof (rel_err x C') as R. rewrite (Rabs_pos_eq x Hx) in R. apply Rabs_le_inv in R. lra.
Qed.
Lemma rnd_opp : forall x, rnd (- x) = - rnd x.
Proof. intros x. apply round_NE_opp. Qed.

(* the real-number core: X, Y integers, T >= |X| + |Y|, T >= 1 integer *)
Lemma decide_pos : forall (X Y T : Z) (c : R), (Z.abs X + Z.abs Y <= T)%Z -> (1 <= T)%Z ->
  0 < c <= 5066549568928536 * bpow radix2 (-102) ->
  forall e1 e2 : R, 0 <= e1 -> 0 <= e2 -> e1 + e2 = IZR T ->
  (e1 = 0 \/ bpow radix2 (-1022) <= e1) -> (e2 = 0 \/ bpow radix2 (-1022) <= e2) ->
  (12 * T < 2 ^ 53 * (X - Y))%Z ->
  rnd (rnd (rnd e1 + rnd e2) * c) < rnd (rnd (IZR X) - rnd (IZR Y)).
Proof.
  intros X Y T c HT HT1 [Hc0 Hc1] e1 e2 He1 He2 Hsum C1 C2 H.
  assert (TT : 1 <= IZR T) by (apply (IZR_le 1); exact HT1).
  pose proof tiny_le_1 as Tiny.
  (* lower bound on the rounded difference *)
  pose proof (rel_err (IZR X) (int_cases X)) as RX. pose proof (rel_err (IZR Y) (int_cases Y)) as RY.
  apply Rabs_le_inv in RX. apply Rabs_le_inv in RY.
  assert (HXY : Rabs (IZR X) + Rabs (IZR Y) <= IZR T) by (rewrite <- !abs_IZR, <- plus_IZR; apply IZR_le; exact HT).
  assert (HG : 12 * u * IZR T < IZR X - IZR Y).
  { apply IZR_lt in H. rewrite !mult_IZR, minus_IZR in H. change (IZR (2 ^ 53)) with 9007199254740992 in H. rewrite u_val. lra. }
  set (L := 11 * u * IZR T).
  assert (L0 : 0 <= L) by (unfold L; rewrite u_val; lra).
  assert (Ltiny : bpow radix2 (-1022) <= L).
  { apply Rle_trans with (bpow radix2 (-53)); [ apply bpow_le; lia | ]. fold u. unfold L. rewrite u_val. lra. }
  pose proof (rnd_down L L0 (or_intror Ltiny)) as D1.
  assert (HL : L <= rnd (IZR X) - rnd (IZR Y)) by (unfold L; rewrite u_val in *; lra).
  pose proof (rnd_le _ _ HL) as D2.
  (* upper bound on the error term *)
  pose proof (rnd_up e1 He1 C1) as U1. pose proof (rnd_up e2 He2 C2) as U2.
  pose proof (rnd_nonneg e1 He1) as N1. pose proof (rnd_nonneg e2 He2) as N2.
  assert (S1 : rnd e1 + rnd e2 <= IZR T * (1 + u)) by (rewrite u_val in *; lra).
  assert (Mt : bpow radix2 (-1022) <= IZR T * (1 + u)) by (rewrite u_val; lra).
  assert (Mt0 : 0 <= IZR T * (1 + u)) by (rewrite u_val; lra).
  pose proof (rnd_le _ _ S1) as U3. pose proof (rnd_up (IZR T * (1 + u)) Mt0 (or_intror Mt)) as U4.
  assert (E0 : 0 <= rnd (rnd e1 + rnd e2)) by (apply rnd_nonneg; lra).
  assert (E1 : rnd (rnd e1 + rnd e2) <= IZR T * (1 + u) * (1 + u)) by lra.
  assert (Bp : 0 < bpow radix2 (-102)) by apply bpow_gt_0.
  set (K := 5066549568928536 * bpow radix2 (-102)) in *.
  assert (K0 : 0 < K) by (unfold K; lra).
  set (M := IZR T * (1 + u) * (1 + u) * K).
  assert (TU : 1 <= IZR T * (1 + u) * (1 + u)) by (rewrite u_val; lra).
  assert (S3 : rnd (rnd e1 + rnd e2) * c <= M).
  { unfold M. apply Rle_trans with (rnd (rnd e1 + rnd e2) * K).
    - apply Rmult_le_compat_l; [ exact E0 | lra ].
    - apply Rmult_le_compat_r; [ lra | exact E1 ]. }
  assert (M0 : 0 <= M) by (unfold M; apply Rmult_le_pos; lra).
  assert (Mc : bpow radix2 (-1022) <= M).
  { apply Rle_trans with (bpow radix2 (-102)); [ apply bpow_le; lia | ].
    unfold M. apply Rle_trans with (1 * K); [ unfold K; lra | apply Rmult_le_compat_r; lra ]. }
  pose proof (rnd_le _ _ S3) as U5. pose proof (rnd_up M M0 (or_intror Mc)) as U6.
  assert (NUM : M * (1 + u) < L * (1 - u)).
  { unfold M, L, K. change (bpow radix2 (-102)) with (/ 5070602400912917605986812821504). rewrite u_val. lra. }
  lra.
Qed.

Local Open Scope Z_scope.

Lemma robust_b64_pair : forall q p r t, robust_b64 q p r t =
  Z.b2z (gtb (fst (det_b64 q p r t)) (snd (det_b64 q p r t))) - Z.b2z (ltb (fst (det_b64 q p r t)) (neg (snd (det_b64 q p r t)))) + 1.
Proof. intros q p r t. unfold robust_b64. destruct (det_b64 q p r t) as [d e]. reflexivity. Qed.

Theorem robust_grid_complete : forall q p r t, bounded25 q -> bounded25 p -> bounded25 r -> bounded25 t ->
  12 * geos_band q p r t < 2 ^ 53 * Z.abs (geos_incircle q p r t) ->
  robust_grid q p r t = 1 + Z.sgn (geos_incircle q p r t).
Proof.
  intros q p r t Hq Hp Hr Ht H.
  destruct (det_b64_values q p r t Hq Hp Hr Ht) as (A & B & C & D & S1 & S2 & S3 & S4 & c & EG & ET & (HA & HB & HC & HD) & Hc & Fd & Fe).
  rewrite <- !mult_IZR in Fd, Fe.
  unfold robust_grid. rewrite robust_b64_pair.
  set (d := fst (det_b64 (fpt_of_pt q) (fpt_of_pt p) (fpt_of_pt r) (fpt_of_pt t))) in *.
  set (e := snd (det_b64 (fpt_of_pt q) (fpt_of_pt p) (fpt_of_pt r) (fpt_of_pt t))) in *.
  unfold gtb, ltb, neg. rewrite (finr_ltb _ _ _ _ Fe Fd), (finr_ltb _ _ _ _ Fd (finr_opp _ _ Fe)).
  rewrite EG, ET in *. clear EG ET.
  assert (N1 : 0 <= S1) by lia. assert (N2 : 0 <= S2) by lia. assert (N3 : 0 <= S3) by lia. assert (N4 : 0 <= S4) by lia.
  assert (X1 : Z.abs (A * B) <= S1 * S2) by (rewrite Z.abs_mul; apply Z.mul_le_mono_nonneg; lia).
  assert (Y1 : Z.abs (C * D) <= S3 * S4) by (rewrite Z.abs_mul; apply Z.mul_le_mono_nonneg; lia).
  assert (P12 : 0 <= S1 * S2) by (apply Z.mul_nonneg_nonneg; assumption).
  assert (P34 : 0 <= S3 * S4) by (apply Z.mul_nonneg_nonneg; assumption).
  set (X := A * B) in *. set (Y := C * D) in *. set (T1 := S1 * S2) in *. set (T2 := S3 * S4) in *.
  assert (T1R : (0 <= IZR T1)%R) by (apply IZR_le; exact P12). assert (T2R : (0 <= IZR T2)%R) by (apply IZR_le; exact P34).
  assert (C1 : (IZR T1 = 0 \/ bpow radix2 (-1022) <= IZR T1)%R) by (destruct (int_cases T1) as [Z0 | Z0]; [ left; exact Z0 | right; rewrite Rabs_pos_eq in Z0; assumption ]).
  assert (C2 : (IZR T2 = 0 \/ bpow radix2 (-1022) <= IZR T2)%R) by (destruct (int_cases T2) as [Z0 | Z0]; [ left; exact Z0 | right; rewrite Rabs_pos_eq in Z0; assumption ]).
  fold X Y T1 T2.
  assert (Er : (0 <= rnd (rnd (rnd (IZR T1) + rnd (IZR T2)) * c))%R).
  { apply rnd_nonneg. apply Rmult_le_pos; [ | lra ]. apply rnd_nonneg.
    apply Rplus_le_le_0_compat; apply rnd_nonneg; assumption. }
  assert (TT : 1 <= T1 + T2) by lia.
  destruct (Z.abs_spec (X - Y)) as [[G0 EA] | [G0 EA]]; rewrite EA in H.
  - (* determinant positive *)
    pose proof (decide_pos X Y (T1 + T2) c ltac:(lia) TT Hc (IZR T1) (IZR T2) T1R T2R ltac:(rewrite plus_IZR; reflexivity) C1 C2 H) as K.
    assert (0 < X - Y) by lia.
    rewrite Rlt_bool_true by exact K. rewrite Rlt_bool_false by lra. rewrite (Z.sgn_pos _ H0). reflexivity.
  - (* determinant negative *)
    assert (H' : 12 * (T1 + T2) < 2 ^ 53 * (Y - X)) by lia.
    pose proof (decide_pos Y X (T1 + T2) c ltac:(lia) TT Hc (IZR T1) (IZR T2) T1R T2R ltac:(rewrite plus_IZR; reflexivity) C1 C2 H') as K.
    replace (rnd (IZR Y) - rnd (IZR X))%R with (- (rnd (IZR X) - rnd (IZR Y)))%R in K by ring. rewrite rnd_opp in K.
    rewrite Rlt_bool_false by lra. rewrite Rlt_bool_true by lra. rewrite (Z.sgn_neg _ G0). reflexivity.
Qed.

(* ------------------------------------------------------------------ the theorems *)
Theorem robust_grid_sound : forall q p r t, bounded25 q -> bounded25 p -> bounded25 r -> bounded25 t ->
  (robust_grid q p r t = 0 -> 0 < incircle q p r t) /\ (robust_grid q p r t = 2 -> incircle q p r t < 0).
Proof.
  intros q p r t Hq Hp Hr Ht.
  destruct (det_b64_spec q p r t Hq Hp Hr Ht) as [dr [er [Fd [Fe [He [Hneg Hpos]]]]]].
  unfold robust_grid. rewrite robust_b64_pair.
  set (d := fst (det_b64 (fpt_of_pt q) (fpt_of_pt p) (fpt_of_pt r) (fpt_of_pt t))) in *.
  set (e := snd (det_b64 (fpt_of_pt q) (fpt_of_pt p) (fpt_of_pt r) (fpt_of_pt t))) in *.
  unfold gtb, ltb, neg. rewrite (finr_ltb _ _ _ _ Fe Fd), (finr_ltb _ _ _ _ Fd (finr_opp _ _ Fe)).
  rewrite geos_incircle_eq in Hneg, Hpos.
  destruct (Rlt_bool_spec er dr) as [G | G]; destruct (Rlt_bool_spec dr (- er)) as [L | L]; cbn [Z.b2z]; split; intros E; try discriminate E.
  - assert (H : (0 < dr)%R) by lra. specialize (Hpos H). lia.
  - assert (H : (dr < 0)%R) by lra. specialize (Hneg H). lia.
Qed.

Lemma robust_b64_range : forall q p r t, robust_b64 q p r t = 0 \/ robust_b64 q p r t = 1 \/ robust_b64 q p r t = 2.
Proof. intros q p r t. rewrite robust_b64_pair. destruct (gtb _ _), (ltb _ _); cbn [Z.b2z]; lia. Qed.

Theorem robust_grid_cocircular : forall q p r t, bounded25 q -> bounded25 p -> bounded25 r -> bounded25 t ->
  incircle q p r t = 0 -> robust_grid q p r t = 1.
Proof.
  intros q p r t Hq Hp Hr Ht E. destruct (robust_grid_sound q p r t Hq Hp Hr Ht) as [S0 S2].
  destruct (robust_b64_range (fpt_of_pt q) (fpt_of_pt p) (fpt_of_pt r) (fpt_of_pt t)) as [R | [R | R]]; fold (robust_grid q p r t) in R.
  - specialize (S0 R). lia.
  - exact R.
  - specialize (S2 R). lia.
Qed.

(* the converse fails inside the bound: the predicate answers BOUNDARY for a site strictly inside the circumcircle *)
Definition wq : pt := (-30904472, 10025550).
Definition wp : pt := (-30904472, -10025550).
Definition wr : pt := (-10025550, -30904472).
Definition wt : pt := (21805571, 24085579).
Theorem robust_grid_incomplete_refuted :
  bounded25 wq /\ bounded25 wp /\ bounded25 wr /\ bounded25 wt /\ 0 < det wq wp wr /\
  incircle wq wp wr wt = 837290705828400 /\ robust_grid wq wp wr wt = 1.
Proof. unfold bounded25. vm_compute. repeat split; congruence. Qed.

(* consequence for any triangulator that flips edges on the answer of this predicate: a triangulation of four grid sites that
   satisfies every tiling clause of the checker (clauses 0-7), in which no edge test can answer INTERIOR (every locally
   non-Delaunay edge is band-blind), and whose circumcircles are not empty *)
Definition w_sites : list pt := [(-17128914, 15231592); (17128914, -15231592); (15231592, 17128914); (17131447, -15228743)].
Definition w_tris : list tri :=
  [((-17128914, 15231592), (17128914, -15231592), (15231592, 17128914));
   ((15231592, 17128914), (17128914, -15231592), (17131447, -15228743))].
Theorem delaunay_by_robust_predicate_refuted :
  Forall bounded25 w_sites
  /\ failed (delaunay_clauses 0 w_sites w_tris) = [8]
  /\ local_violations (map tri_ccw w_tris) <> []
  /\ forallb band_blind (local_violations (map tri_ccw w_tris)) = true
  /\ exists t s, In t (map tri_ccw w_tris) /\ In s w_sites /\ 0 < tri_incircle t s.
Proof.
  split; [ repeat constructor; vm_compute; congruence | ].
  split; [ vm_compute; reflexivity | ].
  split; [ vm_compute; discriminate | ].
  split; [ vm_compute; reflexivity | ].
  exists ((-17128914, 15231592), (17128914, -15231592), (15231592, 17128914)), (17131447, -15228743).
  split; [ vm_compute; tauto | split; [ vm_compute; tauto | vm_compute; reflexivity ] ].
Qed.
