(* C16/InCircle — laws of the exact in-circle determinant (ring identities and sign arguments over Z). *)
From Coq Require Import ZArith List Bool Lia.
From GeosV.Lib Require Import KernelDefs.
From GeosV.C16 Require Import Defs.
Import ListNotations.
Local Open Scope Z_scope.

Local Ltac unf := unfold incircle, incircle4, det3, lift, geos_incircle, det, dist2; cbn [fst snd].

(* the 3x3 determinant after translating by d is the lifted 4x4 determinant *)
Lemma incircle_lifted : forall a b c d, incircle a b c d = incircle4 a b c d.
Proof. intros [ax ay] [bx by_] [cx cy] [dx dy]. unf. ring. Qed.

(* swapping two arguments changes the sign; a cyclic rotation of the triangle does not *)
Lemma incircle_swap_ab : forall a b c d, incircle b a c d = - incircle a b c d.
Proof. intros [ax ay] [bx by_] [cx cy] [dx dy]. unf. ring. Qed.
Lemma incircle_swap_bc : forall a b c d, incircle a c b d = - incircle a b c d.
Proof. intros [ax ay] [bx by_] [cx cy] [dx dy]. unf. ring. Qed.
Lemma incircle_swap_ac : forall a b c d, incircle c b a d = - incircle a b c d.
Proof. intros [ax ay] [bx by_] [cx cy] [dx dy]. unf. ring. Qed.
Lemma incircle_swap_cd : forall a b c d, incircle a b d c = - incircle a b c d.
Proof. intros [ax ay] [bx by_] [cx cy] [dx dy]. unf. ring. Qed.
Lemma incircle_swap_ad : forall a b c d, incircle d b c a = - incircle a b c d.
Proof. intros [ax ay] [bx by_] [cx cy] [dx dy]. unf. ring. Qed.
Lemma incircle_swap_bd : forall a b c d, incircle a d c b = - incircle a b c d.
Proof. intros [ax ay] [bx by_] [cx cy] [dx dy]. unf. ring. Qed.
Lemma incircle_rotate : forall a b c d, incircle b c a d = incircle a b c d.
Proof. intros [ax ay] [bx by_] [cx cy] [dx dy]. unf. ring. Qed.

(* invariance under translation, and under the symmetries of the grid up to the sign of their determinant *)
Definition shift (v p : pt) : pt := (fst p + fst v, snd p + snd v).
Lemma incircle_translate : forall v a b c d, incircle (shift v a) (shift v b) (shift v c) (shift v d) = incircle a b c d.
Proof. intros [vx vy] [ax ay] [bx by_] [cx cy] [dx dy]. unfold shift. unf. ring. Qed.
Lemma incircle_swap_xy : forall a b c d,
  incircle (snd a, fst a) (snd b, fst b) (snd c, fst c) (snd d, fst d) = - incircle a b c d.
Proof. intros [ax ay] [bx by_] [cx cy] [dx dy]. unf. ring. Qed.
Lemma incircle_scale : forall k a b c d,
  incircle (k * fst a, k * snd a) (k * fst b, k * snd b) (k * fst c, k * snd c) (k * fst d, k * snd d) = k * k * k * k * incircle a b c d.
Proof. intros k [ax ay] [bx by_] [cx cy] [dx dy]. unf. ring. Qed.

(* a repeated point: the determinant vanishes *)
Lemma incircle_same : forall a b c, incircle a b c a = 0 /\ incircle a b c b = 0 /\ incircle a b c c = 0.
Proof. intros [ax ay] [bx by_] [cx cy]. unf. repeat split; ring. Qed.

(* cocircular => 0 : four points at the same squared distance r2 from a centre (with rational coordinates cx/w, cy/w) *)
Definition qdist2 (cx cy w : Z) (p : pt) : Z := (w * fst p - cx) * (w * fst p - cx) + (w * snd p - cy) * (w * snd p - cy).
Lemma incircle_cocircular : forall cx cy w r2 a b c d, w <> 0 ->
  qdist2 cx cy w a = r2 -> qdist2 cx cy w b = r2 -> qdist2 cx cy w c = r2 -> qdist2 cx cy w d = r2 ->
  incircle a b c d = 0.
Proof.
  intros cx cy w r2 [ax ay] [bx by_] [ccx ccy] [dx dy] Hw Ha Hb Hc Hd.
  unfold qdist2 in *; cbn [fst snd] in *.
  (* w^2 * incircle is a linear combination of the four equations *)
  assert (E : w * w * incircle (ax, ay) (bx, by_) (ccx, ccy) (dx, dy) = 0).
  { unf.
    set (A := (w * ax - cx) * (w * ax - cx) + (w * ay - cy) * (w * ay - cy)) in *.
    set (B := (w * bx - cx) * (w * bx - cx) + (w * by_ - cy) * (w * by_ - cy)) in *.
    set (C := (w * ccx - cx) * (w * ccx - cx) + (w * ccy - cy) * (w * ccy - cy)) in *.
    set (D := (w * dx - cx) * (w * dx - cx) + (w * dy - cy) * (w * dy - cy)) in *.
    transitivity ((A - D) * ((bx - dx) * (ccy - dy) - (ccx - dx) * (by_ - dy))
                + (B - D) * ((ccx - dx) * (ay - dy) - (ax - dx) * (ccy - dy))
                + (C - D) * ((ax - dx) * (by_ - dy) - (bx - dx) * (ay - dy))).
    - subst A B C D. ring.
    - rewrite Ha, Hb, Hc, Hd. ring. }
  apply Z.mul_eq_0 in E. destruct E as [E | E]; [ | exact E ].
  apply Z.mul_eq_0 in E. destruct E; contradiction.
Qed.

(* the expression evaluated by TrianglePredicate::isInCircleRobust / isInCircleNonRobust (parameters q p r t) is the negated
   determinant: a NEGATIVE value means t strictly inside the circle of the counter-clockwise triangle q p r (Location INTERIOR) *)
Lemma geos_incircle_eq : forall q p r t, geos_incircle q p r t = - incircle q p r t.
Proof. intros [qx qy] [px py] [rx ry] [tx ty]. unf. ring. Qed.

(* sign meaning: for a counter-clockwise triangle, incircle > 0 iff |d - centre|^2 < R^2.  With D = det a b c > 0 and the
   circumcentre u = a + (ux, uy) / (2 D):  4 D^2 (R^2 - |d - u|^2) = 4 D * incircle a b c d, where
   ux = |b-a|^2 (cy-ay) - |c-a|^2 (by-ay),  uy = |c-a|^2 (bx-ax) - |b-a|^2 (cx-ax). *)
Definition cc_x (a b c : pt) : Z := dist2 b a * (snd c - snd a) - dist2 c a * (snd b - snd a).
Definition cc_y (a b c : pt) : Z := dist2 c a * (fst b - fst a) - dist2 b a * (fst c - fst a).
(* squared distance of p from the circumcentre, scaled by (2D)^2 *)
Definition cc_dist2 (a b c p : pt) : Z :=
  let D := det a b c in
  (2 * D * (fst p - fst a) - cc_x a b c) * (2 * D * (fst p - fst a) - cc_x a b c)
  + (2 * D * (snd p - snd a) - cc_y a b c) * (2 * D * (snd p - snd a) - cc_y a b c).
Lemma cc_equidistant : forall a b c, cc_dist2 a b c a = cc_dist2 a b c b /\ cc_dist2 a b c a = cc_dist2 a b c c.
Proof. intros [ax ay] [bx by_] [cx cy]. unfold cc_dist2, cc_x, cc_y, det, dist2; cbn [fst snd]. split; ring. Qed.
Lemma incircle_is_power : forall a b c d,
  cc_dist2 a b c a - cc_dist2 a b c d = 4 * det a b c * incircle a b c d.
Proof. intros [ax ay] [bx by_] [cx cy] [dx dy]. unfold cc_dist2, cc_x, cc_y, det, dist2, incircle; cbn [fst snd]. ring. Qed.
(* hence: for a counter-clockwise triangle the sign of incircle says on which side of the circumcircle d lies *)
Lemma incircle_pos_iff_inside : forall a b c d, 0 < det a b c ->
  (0 < incircle a b c d <-> cc_dist2 a b c d < cc_dist2 a b c a).
Proof. intros a b c d HD. pose proof (incircle_is_power a b c d) as E. split; intro H; nia. Qed.
Lemma incircle_zero_iff_on : forall a b c d, 0 < det a b c ->
  (incircle a b c d = 0 <-> cc_dist2 a b c d = cc_dist2 a b c a).
Proof. intros a b c d HD. pose proof (incircle_is_power a b c d) as E. split; intro H; nia. Qed.
