(* C16 — hand model (M) of the quad-edge structure of
     /repo/include/geos/triangulate/quadedge/QuadEdge.h, QuadEdgeQuartet.h, /repo/src/triangulate/quadedge/QuadEdge.cpp and
     QuadEdgeSubdivision::{initSubdiv, makeEdge, connect, remove} (src/triangulate/quadedge/QuadEdgeSubdivision.cpp).
   Executable definitions only (extracted with ExtrOcamlBasic; run beside the real QuadEdge objects by harness/c16_quadedge.cpp).

   An edge is (quartet id = position in the std::deque<QuadEdgeQuartet>, num = position 0..3 in the quartet).
   The state holds, for every edge, its `next` pointer and its `vertex`, as association lists in which the newest binding
   shadows older ones (setNext / setOrig prepend), the number of quartets created, and the quartets marked !isAlive.
   An edge that has no binding reads as the value the QuadEdgeQuartet constructor gives it (e0->e0, e1->e3, e2->e2, e3->e1;
   Vertex() = (0,0)); makeEdge nevertheless writes the four bindings, as the constructor does. *)
From Coq Require Import List ZArith Bool Arith.
Import ListNotations.

Inductive rot4 := R0 | R1 | R2 | R3.
Definition edge := (nat * rot4)%type.

Definition rot4_eqb (x y : rot4) : bool :=
  match x, y with R0, R0 | R1, R1 | R2, R2 | R3, R3 => true | _, _ => false end.
Definition edge_eqb (x y : edge) : bool := Nat.eqb (fst x) (fst y) && rot4_eqb (snd x) (snd y).

(* rot():    (num < 3) ? *(this + 1) : *(this - 3)
   invRot(): (num > 0) ? *(this - 1) : *(this + 3)
   sym():    (num < 2) ? *(this + 2) : *(this - 2) *)
Definition rsucc (r : rot4) := match r with R0 => R1 | R1 => R2 | R2 => R3 | R3 => R0 end.
Definition rpred (r : rot4) := match r with R0 => R3 | R1 => R0 | R2 => R1 | R3 => R2 end.
Definition rsym (r : rot4) := match r with R0 => R2 | R1 => R3 | R2 => R0 | R3 => R1 end.
Definition rot (e : edge) : edge := (fst e, rsucc (snd e)).
Definition invRot (e : edge) : edge := (fst e, rpred (snd e)).
Definition sym (e : edge) : edge := (fst e, rsym (snd e)).

(* QuadEdgeQuartet(): e[0].next = &e[0]; e[1].next = &e[3]; e[2].next = &e[2]; e[3].next = &e[1] *)
Definition init_next (r : rot4) := match r with R0 => R0 | R1 => R3 | R2 => R2 | R3 => R1 end.

(* primal (num 0, 2) / dual (num 1, 3) *)
Definition par (e : edge) : bool := match snd e with R0 | R2 => true | _ => false end.

Record state := mkState {
  nq : nat;                       (* quadEdges.size() *)
  nxt : list (edge * edge);       (* QuadEdge::next *)
  org : list (edge * Z);          (* QuadEdge::vertex, a vertex named by an integer *)
  dead : list nat }.              (* quartets with isAlive == false *)

Definition empty : state := mkState 0 [] [] [].

Fixpoint lookup {A : Type} (l : list (edge * A)) (e : edge) : option A :=
  match l with
  | [] => None
  | (k, v) :: t => if edge_eqb k e then Some v else lookup t e
  end.

Definition oNext (s : state) (e : edge) : edge :=
  match lookup (nxt s) e with Some x => x | None => (fst e, init_next (snd e)) end.
Definition orig (s : state) (e : edge) : Z :=
  match lookup (org s) e with Some x => x | None => 0%Z end.
Definition dest (s : state) (e : edge) : Z := orig s (sym e).
Definition is_dead (s : state) (e : edge) : bool := existsb (Nat.eqb (fst e)) (dead s).
Definition allocated (s : state) (e : edge) : bool := Nat.ltb (fst e) (nq s).

Definition setNext (e v : edge) (s : state) : state := mkState (nq s) ((e, v) :: nxt s) (org s) (dead s).
Definition setOrig (e : edge) (v : Z) (s : state) : state := mkState (nq s) (nxt s) ((e, v) :: org s) (dead s).
Definition setDest (e : edge) (v : Z) (s : state) : state := setOrig (sym e) v s.

(* the derived navigation operators, written as in QuadEdge.h *)
Definition oPrev (s : state) (e : edge) := rot (oNext s (rot e)).
Definition dNext (s : state) (e : edge) := sym (oNext s (sym e)).
Definition dPrev (s : state) (e : edge) := invRot (oNext s (invRot e)).
Definition lNext (s : state) (e : edge) := rot (oNext s (invRot e)).
Definition lPrev (s : state) (e : edge) := sym (oNext s e).
Definition rNext (s : state) (e : edge) := invRot (oNext s (rot e)).
Definition rPrev (s : state) (e : edge) := oNext s (sym e).

(* QuadEdgeQuartet::makeEdge: emplace_back(); base().setOrig(o); base().setDest(d); return base() *)
Definition makeEdge (o d : Z) (s : state) : state * edge :=
  let q := nq s in
  let s0 := mkState (S q) (nxt s) (org s) (dead s) in
  let s1 := setNext (q, R0) (q, R0) s0 in
  let s2 := setNext (q, R1) (q, R3) s1 in
  let s3 := setNext (q, R2) (q, R2) s2 in
  let s4 := setNext (q, R3) (q, R1) s3 in
  let s5 := setOrig (q, R0) o s4 in
  let s6 := setDest (q, R0) d s5 in
  (s6, (q, R0)).

(* QuadEdge::splice *)
Definition splice (a b : edge) (s : state) : state :=
  let alpha := rot (oNext s a) in
  let beta := rot (oNext s b) in
  let t1 := oNext s b in
  let t2 := oNext s a in
  let t3 := oNext s beta in
  let t4 := oNext s alpha in
  let s1 := setNext a t1 s in
  let s2 := setNext b t2 s1 in
  let s3 := setNext alpha t3 s2 in
  setNext beta t4 s3.

(* QuadEdge::connect (= QuadEdgeSubdivision::connect) *)
Definition connect (a b : edge) (s : state) : state * edge :=
  let '(s1, q0) := makeEdge (dest s a) (orig s b) s in
  let s2 := splice q0 (lNext s1 a) s1 in
  let s3 := splice (sym q0) b s2 in
  (s3, q0).

(* QuadEdge::swap *)
Definition swap (e : edge) (s : state) : state :=
  let a := oPrev s e in
  let b := oPrev s (sym e) in
  let s1 := splice e a s in
  let s2 := splice (sym e) b s1 in
  let s3 := splice e (lNext s2 a) s2 in
  let s4 := splice (sym e) (lNext s3 b) s3 in
  let s5 := setOrig e (dest s4 a) s4 in
  setDest e (dest s5 b) s5.

(* QuadEdgeSubdivision::remove: splice(e, e.oPrev()); splice(e.sym(), e.sym().oPrev()); e.remove() *)
Definition remove (e : edge) (s : state) : state :=
  let s1 := splice e (oPrev s e) s in
  let s2 := splice (sym e) (oPrev s1 (sym e)) s1 in
  mkState (nq s2) (nxt s2) (org s2) (fst e :: dead s2).

(* ---------------------------------------------------------------- operation histories *)
Inductive op :=
| MakeEdge (o d : Z)
| Splice (a b : edge)
| Connect (a b : edge)
| Swap (e : edge)
| Remove (e : edge).

Definition step (s : state) (o : op) : state :=
  match o with
  | MakeEdge u v => fst (makeEdge u v s)
  | Splice a b => splice a b s
  | Connect a b => fst (connect a b s)
  | Swap e => swap e s
  | Remove e => remove e s
  end.

Definition usable (s : state) (e : edge) : bool := allocated s e && negb (is_dead s e).

(* what the C++ requires of its callers: the edges exist and are alive; splice joins two primal or two dual edges
   (Guibas-Stolfi: "a and b in the same class"); connect, swap, remove act on primal edges
   (remove of a dual edge leaves e.oNext = e on the dual, which is not the detached configuration of a quartet) *)
Definition legal (s : state) (o : op) : bool :=
  match o with
  | MakeEdge _ _ => true
  | Splice a b => usable s a && usable s b && Bool.eqb (par a) (par b)
  | Connect a b => usable s a && usable s b && par a && par b
  | Swap e => usable s e && par e
  | Remove e => usable s e && par e
  end.

Fixpoint run (s : state) (h : list op) : state :=
  match h with [] => s | o :: t => run (step s o) t end.

Fixpoint legal_from (s : state) (h : list op) : bool :=
  match h with [] => true | o :: t => legal s o && legal_from (step s o) t end.

(* QuadEdgeSubdivision::initSubdiv, with frame vertices v0 v1 v2 *)
Definition init_subdiv (v0 v1 v2 : Z) : list op :=
  [ MakeEdge v0 v1; MakeEdge v1 v2; Splice (0, R2) (1, R0);
    MakeEdge v2 v0; Splice (1, R2) (2, R0); Splice (2, R2) (0, R0) ].

(* bounded walk along oNext: is b reached from a within `fuel` steps (a itself counts) *)
Fixpoint in_orbit (fuel : nat) (s : state) (a b : edge) : bool :=
  edge_eqb a b || match fuel with O => false | S k => in_orbit k s (oNext s a) b end.

(* the list e, oNext e, oNext^2 e, ... until e comes back (or fuel ends) *)
Fixpoint orbit_from (fuel : nat) (s : state) (start cur : edge) : list edge :=
  match fuel with
  | O => []
  | S k => cur :: (if edge_eqb (oNext s cur) start then [] else orbit_from k s start (oNext s cur))
  end.
Definition orbit (s : state) (e : edge) : list edge := orbit_from (4 * nq s) s e e.

(* executable form of the invariants (used by the driver on every reached state and by the Examples) *)
Definition all_edges (s : state) : list edge :=
  flat_map (fun q => [(q, R0); (q, R1); (q, R2); (q, R3)]) (seq 0 (nq s)).

Definition inv_b (s : state) : bool :=
  forallb (fun e =>
    edge_eqb (rot (oNext s (rot (oNext s e)))) e
    && Bool.eqb (par (oNext s e)) (par e)
    && allocated s (oNext s e)
    && Bool.eqb (is_dead s (oNext s e)) (is_dead s e)
    && (negb (is_dead s e) || edge_eqb (oNext s e) (fst e, init_next (snd e)))) (all_edges s).

(* origins constant on the oNext ring of every primal live edge *)
Definition org_consistent_b (s : state) : bool :=
  forallb (fun e => negb (par e) || is_dead s e || Z.eqb (orig s (oNext s e)) (orig s e)) (all_edges s).
