(* C16/Voronoi — the Voronoi checker of C16/Defs.v.
   * voronoi_vertex_suffices: the "nearer to s than to t" test is affine in the point, so a bound that holds at the vertices
     of a cell holds at every convex combination of them (= at every point of a convex cell): checking the vertices decides
     the clause "the cell contains only locations at least as close to its site as to any other".
   * cells of two different sites have no interior point in common as soon as both satisfy the vertex test exactly.
   * reflection of every clause of check_voronoi. *)
From Coq Require Import ZArith List Bool Lia.
From GeosV.Lib Require Import KernelDefs.
From GeosV.C16 Require Import Defs Mesh.
Import ListNotations.
Local Open Scope Z_scope.

(* ------------------------------------------------------------------ affine bisector test *)
(* dist2 v s - dist2 v t = 2 (t - s).v + |s|^2 - |t|^2 *)
Definition bis (s t v : pt) : Z := dist2 v s - dist2 v t.
Lemma bis_affine : forall s t v,
  bis s t v = 2 * (fst t - fst s) * fst v + 2 * (snd t - snd s) * snd v + (lift s - lift t).
Proof. intros [sx sy] [tx ty] [vx vy]. unfold bis, dist2, lift; cbn [fst snd]. ring. Qed.

(* weighted sums of a vertex list *)
Fixpoint wsx (ws : list Z) (vs : list pt) : Z := match ws, vs with w :: ws', v :: vs' => w * fst v + wsx ws' vs' | _, _ => 0 end.
Fixpoint wsy (ws : list Z) (vs : list pt) : Z := match ws, vs with w :: ws', v :: vs' => w * snd v + wsy ws' vs' | _, _ => 0 end.
Fixpoint wsw (ws : list Z) (vs : list pt) : Z := match ws, vs with w :: ws', v :: vs' => w + wsw ws' vs' | _, _ => 0 end.
(* the same test at the homogeneous point (X, Y, W): W^2 * (dist^2 to s - dist^2 to t) *)
Definition qbis (s t : pt) (X Y W : Z) : Z :=
  ((X - W * fst s) * (X - W * fst s) + (Y - W * snd s) * (Y - W * snd s))
  - ((X - W * fst t) * (X - W * fst t) + (Y - W * snd t) * (Y - W * snd t)).

Lemma qbis_affine : forall s t X Y W,
  qbis s t X Y W = W * (2 * (fst t - fst s) * X + 2 * (snd t - snd s) * Y + W * (lift s - lift t)).
Proof. intros [sx sy] [tx ty] X Y W. unfold qbis, lift; cbn [fst snd]. ring. Qed.

Lemma wsum_bound : forall s t tau ws vs,
  Forall (fun w => 0 <= w) ws -> (forall v, In v vs -> bis s t v <= tau) ->
  2 * (fst t - fst s) * wsx ws vs + 2 * (snd t - snd s) * wsy ws vs + wsw ws vs * (lift s - lift t) <= wsw ws vs * tau.
Proof.
  intros s t tau. induction ws as [ | w ws IH ]; intros vs Hw Hv; [ cbn; lia | ].
  destruct vs as [ | v vs ]; [ cbn; lia | ]. cbn [wsx wsy wsw].
  inversion Hw as [ | ? ? Hw0 Hws ]; subst.
  specialize (IH vs Hws (fun x Hx => Hv x (or_intror Hx))).
  pose proof (Hv v (or_introl eq_refl)) as Hv0. rewrite bis_affine in Hv0.
  assert (w * (2 * (fst t - fst s) * fst v + 2 * (snd t - snd s) * snd v + (lift s - lift t)) <= w * tau) by (apply Z.mul_le_mono_nonneg_l; assumption).
  nia.
Qed.

(* every convex combination (X/W, Y/W), W = sum of the non-negative weights > 0, of vertices that satisfy
   dist2 v s - dist2 v t <= tau satisfies it too (scaled by W^2).  tau = 0 is the exact Voronoi clause. *)
Theorem voronoi_vertex_suffices : forall s t tau ws vs,
  Forall (fun w => 0 <= w) ws -> 0 < wsw ws vs ->
  (forall v, In v vs -> dist2 v s - dist2 v t <= tau) ->
  qbis s t (wsx ws vs) (wsy ws vs) (wsw ws vs) <= wsw ws vs * wsw ws vs * tau.
Proof.
  intros s t tau ws vs Hw HW Hv. rewrite qbis_affine.
  pose proof (wsum_bound s t tau ws vs Hw Hv) as B.
  set (W := wsw ws vs) in *.
  replace (W * W * tau) with (W * (W * tau)) by ring.
  apply Z.mul_le_mono_nonneg_l; [ lia | ]. lia.
Qed.

(* consequence for two cells: a point that is a convex combination of the vertices of the cell of s (all nearer to s) and also of
   the cell of t (all nearer to t) is equidistant from s and t — the common part of two exact cells lies on the bisector line *)
Theorem voronoi_cells_meet_on_bisector : forall s t ws vs ws' vs',
  Forall (fun w => 0 <= w) ws -> Forall (fun w => 0 <= w) ws' -> 0 < wsw ws vs -> 0 < wsw ws' vs' ->
  (forall v, In v vs -> dist2 v s - dist2 v t <= 0) -> (forall v, In v vs' -> dist2 v t - dist2 v s <= 0) ->
  (* the same point: X/W = X'/W', Y/W = Y'/W' *)
  wsx ws vs * wsw ws' vs' = wsx ws' vs' * wsw ws vs -> wsy ws vs * wsw ws' vs' = wsy ws' vs' * wsw ws vs ->
  qbis s t (wsx ws vs) (wsy ws vs) (wsw ws vs) = 0.
Proof.
  intros s t ws vs ws' vs' Hw Hw' HW HW' Hv Hv' EX EY.
  pose proof (voronoi_vertex_suffices s t 0 ws vs Hw HW Hv) as A.
  pose proof (voronoi_vertex_suffices t s 0 ws' vs' Hw' HW' Hv') as B.
  rewrite qbis_affine in *. rewrite Z.mul_0_r in A, B.
  set (W := wsw ws vs) in *. set (W' := wsw ws' vs') in *.
  set (X := wsx ws vs) in *. set (Y := wsy ws vs) in *. set (X' := wsx ws' vs') in *. set (Y' := wsy ws' vs') in *.
  set (a := fst t - fst s) in *. set (b := snd t - snd s) in *. set (c := lift s - lift t) in *.
  (* A : W * L <= 0 with L = 2aX + 2bY + Wc ; B : W' * L' <= 0 with L' = -(2aX' + 2bY' + W'c) ; and W' * (2aX+2bY+Wc) = W * (2aX'+2bY'+W'c) *)
  assert (A' : 2 * a * X + 2 * b * Y + W * c <= 0) by nia.
  assert (B0 : 2 * (fst s - fst t) * X' + 2 * (snd s - snd t) * Y' + W' * (lift t - lift s) <= 0) by nia.
  assert (B' : 0 <= 2 * a * X' + 2 * b * Y' + W' * c) by (subst a b c; lia).
  assert (E : W' * (2 * a * X + 2 * b * Y + W * c) = W * (2 * a * X' + 2 * b * Y' + W' * c)).
  { replace (W' * (2 * a * X + 2 * b * Y + W * c)) with (2 * a * (X * W') + 2 * b * (Y * W') + W' * W * c) by ring.
    rewrite EX, EY. ring. }
  assert (Z0 : 2 * a * X + 2 * b * Y + W * c = 0) by nia.
  rewrite Z0. ring.
Qed.

(* ------------------------------------------------------------------ specification of the checked clauses *)
Record CellSpec (ulps mag : Z) (c : vcell) : Prop := {
  cl_size : (3 <= length c)%nat;
  cl_area : 0 < cell_area2 c;
  (* convex (within the stated vertex displacement): every vertex on the inner side of every edge line *)
  cl_convex : forall e v, In e (cycle_edges c) -> In v c ->
     - (ulps * mag * 2 * (l1 (fst e) (snd e) + l1 (fst e) v)) <= p52 * det (fst e) (snd e) v }.

Record VoronoiSpec (ulps : Z) (denv : env) (sites : list pt) (cells : list vcell) : Prop := {
  vs_count : length cells = length sites;
  vs_cells : forall c, In c cells -> CellSpec ulps (env_mag denv) c;
  vs_env : forall c v, In c cells -> In v c -> env_covers_pt denv v = true;
  vs_site : forall c s, In (c, s) (combine cells sites) -> forall e, In e (cycle_edges c) -> 0 <= det (fst e) (snd e) s;
  vs_nearest : forall c s, In (c, s) (combine cells sites) -> forall v t, In v c -> In t sites ->
     p52 * (dist2 v s - dist2 v t) <= ulps * env_mag denv * 2 * l1 s t;
  vs_area : Z.abs (p52 * (zsum (map cell_area2 cells) - env_area2 denv)) <= ulps * env_mag denv * 2 * zsum (map perimeter1 cells) }.

Theorem check_voronoi_sound : forall ulps denv sites cells, check_voronoi ulps denv sites cells = true ->
  VoronoiSpec ulps denv sites (map cell_ccw cells).
Proof.
  intros ulps denv sites cells H. unfold check_voronoi, voronoi_clauses in H.
  apply forallb_snd_cons in H; destruct H as [C1 H]. apply forallb_snd_cons in H; destruct H as [C2 H].
  apply forallb_snd_cons in H; destruct H as [C3 H]. apply forallb_snd_cons in H; destruct H as [C4 H].
  apply forallb_snd_cons in H; destruct H as [C5 H]. apply forallb_snd_cons in H; destruct H as [C6 H].
  apply forallb_snd_cons in H; destruct H as [C7 _]. cbn [snd] in *.
  constructor.
  - rewrite map_length. apply Nat.eqb_eq, C1.
  - intros c Hc. rewrite forallb_forall in C2, C3. specialize (C2 c Hc). specialize (C3 c Hc).
    unfold cell_ringb in C2. rewrite !andb_true_iff in C2. destruct C2 as [[S1 _] S3].
    constructor.
    + apply Z.leb_le in S1. lia.
    + apply Z.ltb_lt, S3.
    + intros e v He Hv. unfold cell_convexb in C3. rewrite forallb_forall in C3. specialize (C3 e He).
      rewrite forallb_forall in C3. apply Z.leb_le, C3, Hv.
  - intros c v Hc Hv. rewrite forallb_forall in C4. specialize (C4 c Hc). rewrite forallb_forall in C4. apply C4, Hv.
  - intros c s Hcs e He. rewrite forallb_forall in C5. specialize (C5 (c, s) Hcs). cbn [fst snd] in C5.
    unfold cell_containsb in C5. rewrite forallb_forall in C5. apply Z.leb_le, C5, He.
  - intros c s Hcs v t Hv Ht. rewrite forallb_forall in C6. specialize (C6 (c, s) Hcs). cbn [fst snd] in C6.
    unfold cell_nearestb in C6. rewrite forallb_forall in C6. specialize (C6 v Hv). rewrite forallb_forall in C6.
    apply Z.leb_le, C6, Ht.
  - apply Z.leb_le, C7.
Qed.

(* the vertex clause of the specification extends to every point of the cell (convex combinations of its vertices) *)
Theorem voronoi_cell_nearest_everywhere : forall ulps denv sites cells, VoronoiSpec ulps denv sites cells ->
  forall c s t ws, In (c, s) (combine cells sites) -> In t sites -> Forall (fun w => 0 <= w) ws -> 0 < wsw ws c ->
  forall tau, (forall v, In v c -> dist2 v s - dist2 v t <= tau) ->
  qbis s t (wsx ws c) (wsy ws c) (wsw ws c) <= wsw ws c * wsw ws c * tau.
Proof. intros. apply voronoi_vertex_suffices; assumption. Qed.

(* ------------------------------------------------------------------ edges-only output *)
Definition on_voronoi_edge (ulps mag : Z) (sites : list pt) (v : pt) : Prop :=
  exists s t, In s sites /\ In t sites /\ t <> s
    /\ (forall r, In r sites -> p52 * (dist2 v s - dist2 v r) <= ulps * mag * 2 * l1 s r)
    /\ p52 * (dist2 v t - dist2 v s) <= ulps * mag * 2 * l1 s t.
Theorem check_voronoi_edges_sound : forall ulps denv sites lines, check_voronoi_edges ulps denv sites lines = true ->
  forall l v, In l lines -> In v l -> env_covers_pt denv v = true /\ on_voronoi_edge ulps (env_mag denv) sites v.
Proof.
  intros ulps denv sites lines H l v Hl Hv. unfold check_voronoi_edges in H. rewrite forallb_forall in H. specialize (H l Hl).
  rewrite forallb_forall in H. specialize (H v Hv). apply andb_true_iff in H. destruct H as [He Hb]. split; [ exact He | ].
  unfold on_bisectorb in Hb. destruct (nearest_site v sites) as [s | ]; [ | discriminate ].
  rewrite !andb_true_iff in Hb. destruct Hb as [[Hs Hall] Hex]. apply mem_pt_In in Hs.
  apply existsb_exists in Hex. destruct Hex as [t [Ht Hc]]. apply andb_true_iff in Hc. destruct Hc as [Hne Hd].
  exists s, t. repeat split.
  - exact Hs.
  - exact Ht.
  - intros E. subst t. apply negb_true_iff in Hne. assert (pt_eqb s s = true) by (apply pt_eqb_eq; reflexivity). congruence.
  - intros r Hr. rewrite forallb_forall in Hall. apply Z.leb_le, Hall, Hr.
  - apply Z.leb_le, Hd.
Qed.
