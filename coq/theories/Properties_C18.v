(* C18 — property theorems only. Each is closed by `exact <lemma>` and followed by Print Assumptions. *)
From Coq Require Import ZArith Reals List Bool.
From GeosV.C18 Require Import DPDefs DPProofs DPMetric DPTheorems CheckDefs CheckProofs.
From GeosV.C18 Require Import GenPreludeDP DPGen.
From GeosV.Gen Require Import DP_simplifySection.
Import ListNotations.

(* ---- the distance of the model: dist2_pt_seg p a b (an exact rational) is the minimum squared distance from p to the points
   a + t (b - a), 0 <= t <= 1, and the minimum is attained *)
Theorem C18_dist2_pt_seg_min : forall p a b t, (0 <= t <= 1)%R ->
  (rval (dist2_pt_seg p a b) <= Rd2 (Rpt p) (on_seg (Rpt a) (Rpt b) t))%R.
Proof. exact dist2_pt_seg_min. Qed.
Print Assumptions C18_dist2_pt_seg_min.

Theorem C18_dist2_pt_seg_attained : forall p a b, exists t, (0 <= t <= 1)%R /\
  Rd2 (Rpt p) (on_seg (Rpt a) (Rpt b) t) = rval (dist2_pt_seg p a b).
Proof. exact dist2_pt_seg_attained. Qed.
Print Assumptions C18_dist2_pt_seg_attained.

(* ---- the search loop `if (distance > maxDistance)` delivers an interior index of maximal distance (DESIGN: argmax_far) *)
Theorem C18_find_max_is_max : forall pts i j, (S i < j)%nat ->
  (i < snd (find_max pts i j) < j)%nat /\
  fst (find_max pts i j) = dist2_pt_seg (P pts (snd (find_max pts i j))) (P pts i) (P pts j) /\
  forall k, (i < k < j)%nat -> rle (dist2_pt_seg (P pts k) (P pts i) (P pts j)) (fst (find_max pts i j)) = true.
Proof. exact find_max_spec. Qed.
Print Assumptions C18_find_max_is_max.

(* ---- dp_subsequence: the output is a subsequence of the input and keeps both end points (open lines / preserved end point) *)
Theorem C18_dp_subsequence : forall T2 pts,
  subseq (dp_simplify T2 pts true) pts /\
  (pts <> [] -> hd (0, 0)%Z (dp_simplify T2 pts true) = hd (0, 0)%Z pts /\ last (dp_simplify T2 pts true) (0, 0)%Z = last pts (0, 0)%Z).
Proof. exact dp_subsequence. Qed.
Print Assumptions C18_dp_subsequence.

(* (preserveEndpoint = false changes nothing unless the input is a closed ring of at least 4 points) *)
Theorem C18_dp_open_line_any_flag : forall T2 pts b, is_ring pts = false -> dp_simplify T2 pts b = dp_simplify T2 pts true.
Proof. exact dp_subsequence_open. Qed.
Print Assumptions C18_dp_open_line_any_flag.

(* ... and in both variants (also after the closed-ring origin step) every output vertex is an input vertex *)
Theorem C18_dp_vertices_subset : forall T2 pts preserve v, In v (dp_simplify T2 pts preserve) -> In v pts.
Proof. exact dp_simplify_vertices_subset. Qed.
Print Assumptions C18_dp_vertices_subset.

(* ---- dp_within_tol, index form: every input index is kept or lies strictly between two ADJACENT kept indices a < b with
   dist^2(pts k, segment (pts a, pts b)) <= tol^2 (exact rational comparison) *)
Theorem C18_dp_within_tol : forall T2 pts, rok T2 -> forall k, (k < length pts)%nat ->
  In k (dp_indices T2 pts) \/ covered T2 pts (dp_indices T2 pts) k.
Proof. exact dp_line_within. Qed.
Print Assumptions C18_dp_within_tol.

(* ... geometric form: every input vertex is within the tolerance of some point of the simplified line *)
Theorem C18_dp_within_tol_R : forall T2 pts, rok T2 -> (0 <= fst T2)%Z -> (2 <= length pts)%nat ->
  forall v, In v pts -> near_line (rval T2) v (dp_points T2 pts).
Proof. exact dp_within_tol_R. Qed.
Print Assumptions C18_dp_within_tol_R.

(* ---- dp_ring_2tol: closed rings (origin possibly removed): every input vertex within TWICE the tolerance (4 * tol^2 squared) *)
Theorem C18_dp_ring_2tol : forall T2 pts, rok T2 -> (0 <= fst T2)%Z -> is_ring pts = true ->
  forall v, In v pts -> near_line (4 * rval T2) v (dp_simplify T2 pts false).
Proof. exact dp_ring_2tol_R. Qed.
Print Assumptions C18_dp_ring_2tol.

(* ---- zero tolerance: identity under the hypothesis the proof forces (no interior vertex at distance 0 from a chord spanning it,
   and for rings the origin not on the segment joining its neighbours) ... *)
Theorem C18_dp_zero_tol_identity : forall pts preserve, no_vertex_on_chord pts ->
  (0 < fst (dist2_pt_seg (P pts 0) (P pts (length pts - 2)) (P pts 1)))%Z ->
  dp_simplify T0 pts preserve = pts.
Proof. exact dp_zero_tol_identity. Qed.
Print Assumptions C18_dp_zero_tol_identity.

(* ... without it "zero tolerance returns the input unchanged" is FALSE: (0 0, 1 0, 2 0) |-> (0 0, 2 0)   (finding F6) *)
Theorem C18_dp_zero_tol_refuted : ~ (forall pts, dp_simplify T0 pts true = pts).
Proof. exact dp_zero_tol_refuted. Qed.
Print Assumptions C18_dp_zero_tol_refuted.

(* ... and whatever is dropped at zero tolerance lies exactly ON the chord between its neighbours in the output (the key of F6) *)
Theorem C18_dp_zero_tol_dropped_on_chord : forall pts k, (k < length pts)%nat ->
  In k (dp_indices T0 pts) \/
  exists a b, adjacent a b (dp_indices T0 pts) /\ (a < k < b)%nat /\ fst (dist2_pt_seg (P pts k) (P pts a) (P pts b)) = 0%Z.
Proof. exact dp_zero_tol_dropped_on_chord. Qed.
Print Assumptions C18_dp_zero_tol_dropped_on_chord.

(* ---- certified checkers for the relational clauses (run, extracted, on the implementation's outputs) *)
Theorem C18_check_line_sound : forall T2 inp out, rok T2 -> check_line T2 inp out = true -> Spec_line (rval T2) inp out.
Proof. exact check_line_sound. Qed.
Print Assumptions C18_check_line_sound.

Theorem C18_check_ring_sound : forall T2 inp out, rok T2 -> check_ring T2 inp out = true -> Spec_ring (rval T2) inp out.
Proof. exact check_ring_sound. Qed.
Print Assumptions C18_check_ring_sound.

Theorem C18_check_simpl_geom_sound : forall T2 T2r gin gout, rok T2 -> rok T2r ->
  check_simpl_geom T2 T2r gin gout = true -> Spec_geom (rval T2) (rval T2r) gin gout.
Proof. exact check_simpl_geom_sound. Qed.
Print Assumptions C18_check_simpl_geom_sound.

Theorem C18_Spec_geom_counts : forall T Tr gin gout, Spec_geom T Tr gin gout ->
  length gin = length gout /\
  Forall2 (fun ci co => match ci, co with CPoly a, CPoly b => length a = length b | CLine _, CLine _ => True | _, _ => False end) gin gout.
Proof. exact Spec_geom_counts. Qed.
Print Assumptions C18_Spec_geom_counts.

(* polygon hull — PARTIAL: containment is established at every vertex and every edge midpoint (exact even-odd location) and by
   the area order; the points of the edges in between are not covered by the checker *)
Theorem C18_check_hull_sound_partial : forall outer min mout, check_hull outer min mout = true -> Spec_hull_partial outer min mout.
Proof. exact check_hull_sound_partial. Qed.
Print Assumptions C18_check_hull_sound_partial.

Theorem C18_check_cov_sound : forall preserve T2 cin cout, check_cov preserve T2 cin cout = true -> Spec_cov preserve T2 cin cout.
Proof. exact check_cov_sound. Qed.
Print Assumptions C18_check_cov_sound.

Theorem C18_Spec_cov_counts : forall preserve T2 cin cout, Spec_cov preserve T2 cin cout ->
  length cin = length cout /\ Forall2 (fun ei eo => length ei = length eo) cin cout.
Proof. exact Spec_cov_counts. Qed.
Print Assumptions C18_Spec_cov_counts.

(* ------------------------------------------------------------------ non-vacuity *)
Local Open Scope Z_scope.
Definition ex_line : list pt := [(0, 0); (5, 1); (10, 0); (15, 3); (20, 0); (25, -7); (30, 0)].
Example ex_dp_runs : dp_simplify (tol2 2 1) ex_line true = [(0, 0); (15, 3); (25, -7); (30, 0)].
Proof. vm_compute. reflexivity. Qed.
Example ex_dp_drops_within : covered (tol2 2 1) ex_line (dp_indices (tol2 2 1) ex_line) 1.
Proof. exists 0%nat, 3%nat. split; [exists [], [5; 6]%nat; reflexivity|]. split; [split; auto with arith | vm_compute; reflexivity]. Qed.
Definition ex_ring : list pt := [(9, 0); (10, 5); (12, 0); (10, -5); (9, 0)].
Example ex_ring_is_ring : is_ring ex_ring = true. Proof. reflexivity. Qed.
Example ex_ring_origin_removed : dp_simplify (tol2 3 2) ex_ring false = [(10, 5); (12, 0); (10, -5); (10, 5)].
Proof. vm_compute. reflexivity. Qed.
Example ex_ring_origin_kept_when_preserved : dp_simplify (tol2 3 2) ex_ring true = ex_ring.
Proof. vm_compute. reflexivity. Qed.
Example ex_find_max_first_of_equals : snd (find_max [(0, 0); (3, 2); (6, -2); (10, 0)] 0 3) = 1%nat.
Proof. vm_compute. reflexivity. Qed.
(* the hypothesis of the zero-tolerance identity is satisfiable ... *)
Example ex_no_vertex_on_chord : no_vertex_on_chord [(0, 0); (1, 1); (2, 0)].
Proof.
  intros i k j Hikj Hj. cbn [length] in Hj.
  assert (i = 0 /\ k = 1 /\ j = 2)%nat as (-> & -> & ->) by (destruct Hikj; split; [|split]; Lia.lia).
  vm_compute. reflexivity.
Qed.
Example ex_zero_tol_identity : dp_simplify T0 [(0, 0); (1, 1); (2, 0)] true = [(0, 0); (1, 1); (2, 0)].
Proof. vm_compute. reflexivity. Qed.
(* ... and the witness of the refutation *)
Example ex_zero_tol_drops_collinear : dp_simplify T0 [(0, 0); (1, 0); (2, 0)] true = [(0, 0); (2, 0)].
Proof. vm_compute. reflexivity. Qed.
Example ex_dist2 : dist2_pt_seg (5, 1) (0, 0) (15, 3) = (0, 234) /\ dist2_pt_seg (3, 4) (0, 0) (10, 0) = (1600, 100) /\ dist2_pt_seg (-3, 4) (0, 0) (10, 0) = (25, 1).
Proof. vm_compute. repeat split; reflexivity. Qed.
(* the checkers accept a correct result and reject wrong ones *)
Example ex_check_line_accepts : check_line (tol2 2 1) ex_line [(0, 0); (15, 3); (25, -7); (30, 0)] = true.
Proof. vm_compute. reflexivity. Qed.
Example ex_check_line_rejects_far : check_line (tol2 2 1) ex_line [(0, 0); (25, -7); (30, 0)] = false.
Proof. vm_compute. reflexivity. Qed.
Example ex_check_line_rejects_lost_end : check_line (tol2 100 1) ex_line [(0, 0); (25, -7)] = false.
Proof. vm_compute. reflexivity. Qed.
Example ex_check_ring_accepts : check_ring (tol2 3 1) ex_ring [(10, 5); (12, 0); (10, -5); (10, 5)] = true.
Proof. vm_compute. reflexivity. Qed.
Definition ex_sq : polygon := [[(0, 0); (10, 0); (10, 10); (6, 10); (5, 1); (4, 10); (0, 10); (0, 0)]].
Example ex_hull_outer_accepts : check_hull true [ex_sq] [[[(0, 0); (10, 0); (10, 10); (0, 10); (0, 0)]]] = true.
Proof. vm_compute. reflexivity. Qed.
Example ex_hull_inner_rejects_outer_result : check_hull false [ex_sq] [[[(0, 0); (10, 0); (10, 10); (0, 10); (0, 0)]]] = false.
Proof. vm_compute. reflexivity. Qed.
Example ex_hull_inner_accepts : check_hull false [ex_sq] [[[(0, 0); (5, 1); (0, 10); (0, 0)]]] = true.
Proof. vm_compute. reflexivity. Qed.
Example ex_loc : mpoly_loc [ex_sq] (5, 5) = 0 /\ mpoly_loc [ex_sq] (5, 1) = 1 /\ mpoly_loc [ex_sq] (2, 5) = 2.
Proof. vm_compute. repeat split; reflexivity. Qed.
Definition ex_cov_in : list (list polygon) :=
  [[[[(0, 0); (10, 0); (10, 4); (11, 5); (10, 6); (10, 10); (0, 10); (0, 0)]]];
   [[[(10, 0); (20, 0); (20, 10); (10, 10); (10, 6); (11, 5); (10, 4); (10, 0)]]]].
Definition ex_cov_out : list (list polygon) :=
  [[[[(0, 0); (10, 0); (10, 10); (0, 10); (0, 0)]]]; [[[(10, 0); (20, 0); (20, 10); (10, 10); (10, 0)]]]].
Example ex_cov_accepts : check_cov true (tol2 2 1) ex_cov_in ex_cov_out = true.
Proof. vm_compute. reflexivity. Qed.
Example ex_cov_nodes : is_node (cov_segs ex_cov_in) (10, 0) = true /\ is_node (cov_segs ex_cov_in) (11, 5) = false.
Proof. vm_compute. split; reflexivity. Qed.
Example ex_cov_rejects_lost_node : check_cov false (tol2 100 1) ex_cov_in
  [[[[(0, 0); (10, 10); (0, 10); (0, 0)]]]; [[[(10, 0); (20, 0); (20, 10); (10, 10); (10, 0)]]]] = false.
Proof. vm_compute. reflexivity. Qed.

(* ================================================================================================================
   Tie G: theorems about g_simplifySection_fuel, the definition REGENERATED from
   DouglasPeuckerLineSimplifier::simplifySection (src/simplify/DouglasPeuckerLineSimplifier.cpp) on every run
   (Gen/DP_simplifySection.v; meaning of the abstract names: C18/GenPreludeDP.v).
   gen_usePt / gen_indices / gen_points: usePt = vector<bool>(n, true); simplifySection(0, n - 1); collect pts[i] with usePt[i]. *)

(* ---- for every state, section i < j and fuel >= j - i the generated function leaves pts and distanceTolerance alone and
   clears exactly the marks of the interior indices that the hand model's `kept` does not keep *)
Theorem C18_gen_section_marks : forall fuel st i j, (i < j)%nat -> (j - i <= fuel)%nat ->
  let st' := g_simplifySection_fuel fuel st (Z.of_nat i) (Z.of_nat j) in
  f_pts st' = f_pts st /\ f_distanceTolerance st' = f_distanceTolerance st /\
  length (f_usePt st') = length (f_usePt st) /\
  forall k, nth k (f_usePt st') false = true <->
            (nth k (f_usePt st) false = true /\ ((i < k < j)%nat -> In k (kept (f_distanceTolerance st) (f_pts st) fuel i j))).
Proof. exact gen_section_spec. Qed.
Print Assumptions C18_gen_section_marks.

(* ---- termination: the recursion depth never exceeds j - i (with that much fuel the out-of-fuel branch is not reached:
   any larger fuel gives the same state) *)
Theorem C18_gen_fuel_bound : forall fuel st i j, (i < j)%nat -> (j - i <= fuel)%nat ->
  g_simplifySection_fuel fuel st (Z.of_nat i) (Z.of_nat j) = g_simplifySection_fuel (j - i) st (Z.of_nat i) (Z.of_nat j).
Proof. exact gen_fuel_bound. Qed.
Print Assumptions C18_gen_fuel_bound.

(* ... the bound needs i < j: on a section with i = j (a one-point sequence) and a tolerance below the sentinel -1.0 every
   unfolding calls the same section again (reachable only through the internal class with a negative tolerance;
   DouglasPeuckerSimplifier / the C API reject negative tolerances) *)
Theorem C18_gen_degenerate_section_no_progress : forall f st i, rle (-1, 1)%Z (f_distanceTolerance st) = false ->
  g_simplifySection_fuel (S f) st (Z.of_nat i) (Z.of_nat i) =
  g_simplifySection_fuel f (g_simplifySection_fuel f st (Z.of_nat i) (Z.of_nat i)) (Z.of_nat i) (Z.of_nat i).
Proof. exact gen_degenerate_section_no_progress. Qed.
Print Assumptions C18_gen_degenerate_section_no_progress.

(* ---- the marks after simplifySection(0, n - 1), and the vertices collected from them, are the hand model's *)
Theorem C18_gen_usePt_marks : forall T2 pts, (2 <= length pts)%nat ->
  length (gen_usePt T2 pts) = length pts /\
  forall k, (k < length pts)%nat -> (nth k (gen_usePt T2 pts) false = true <-> In k (dp_indices T2 pts)).
Proof. exact gen_usePt_marks. Qed.
Print Assumptions C18_gen_usePt_marks.

Theorem C18_gen_indices_eq : forall T2 pts, (2 <= length pts)%nat -> gen_indices T2 pts = dp_indices T2 pts.
Proof. exact gen_indices_eq. Qed.
Print Assumptions C18_gen_indices_eq.

Theorem C18_gen_usePt_any_fuel : forall T2 pts fuel, (2 <= length pts)%nat -> (length pts - 1 <= fuel)%nat ->
  f_usePt (g_simplifySection_fuel fuel (gen_state0 T2 pts) 0 (Z.of_nat (length pts - 1))) = gen_usePt T2 pts.
Proof. exact gen_usePt_any_fuel. Qed.
Print Assumptions C18_gen_usePt_any_fuel.

(* ---- the property facts, stated about the generated definition *)
Theorem C18_gen_subsequence : forall T2 pts, (2 <= length pts)%nat ->
  subseq (gen_points T2 pts) pts /\
  hd (0, 0)%Z (gen_points T2 pts) = hd (0, 0)%Z pts /\ last (gen_points T2 pts) (0, 0)%Z = last pts (0, 0)%Z.
Proof. exact gen_subsequence. Qed.
Print Assumptions C18_gen_subsequence.

Theorem C18_gen_within_tol : forall T2 pts, rok T2 -> (2 <= length pts)%nat -> forall k, (k < length pts)%nat ->
  In k (gen_indices T2 pts) \/ covered T2 pts (gen_indices T2 pts) k.
Proof. exact gen_within_tol. Qed.
Print Assumptions C18_gen_within_tol.

Theorem C18_gen_within_tol_R : forall T2 pts, rok T2 -> (0 <= fst T2)%Z -> (2 <= length pts)%nat ->
  forall v, In v pts -> near_line (rval T2) v (gen_points T2 pts).
Proof. exact gen_within_tol_R. Qed.
Print Assumptions C18_gen_within_tol_R.

(* tolerance 0: what the generated code drops lies at squared distance exactly 0 from the chord of its neighbours in the
   output, and such vertices ARE dropped (the shape of finding F6; this is what the code does) *)
Theorem C18_gen_zero_tol_dropped_on_chord : forall pts, (2 <= length pts)%nat -> forall k, (k < length pts)%nat ->
  In k (gen_indices T0 pts) \/
  exists a b, adjacent a b (gen_indices T0 pts) /\ (a < k < b)%nat /\ fst (dist2_pt_seg (P pts k) (P pts a) (P pts b)) = 0%Z.
Proof. exact gen_zero_tol_dropped_on_chord. Qed.
Print Assumptions C18_gen_zero_tol_dropped_on_chord.

Theorem C18_gen_zero_tol_refuted : ~ (forall pts, gen_points T0 pts = pts).
Proof. exact gen_zero_tol_refuted. Qed.
Print Assumptions C18_gen_zero_tol_refuted.

(* ---- simplify(): the generated section followed by the hand-modelled closed-ring origin step (DPDefs.ring_step) *)
Theorem C18_gen_simplify_eq : forall T2 pts b, (2 <= length pts)%nat -> gen_simplify T2 pts b = dp_simplify T2 pts b.
Proof. exact gen_simplify_eq. Qed.
Print Assumptions C18_gen_simplify_eq.

Theorem C18_gen_ring_2tol : forall T2 pts, rok T2 -> (0 <= fst T2)%Z -> is_ring pts = true ->
  forall v, In v pts -> near_line (4 * rval T2) v (gen_simplify T2 pts false).
Proof. exact gen_ring_2tol. Qed.
Print Assumptions C18_gen_ring_2tol.

(* ---- non-vacuity: runs of the generated definition *)
Example ex_gen_runs : gen_points (tol2 2 1) ex_line = [(0, 0); (15, 3); (25, -7); (30, 0)].
Proof. vm_compute. reflexivity. Qed.
Example ex_gen_marks : gen_usePt (tol2 2 1) ex_line = [true; false; false; true; false; true; true].
Proof. vm_compute. reflexivity. Qed.
Example ex_gen_section_partial :    (* a section in the middle of a line, marks outside it untouched *)
  f_usePt (g_simplifySection_fuel 3 (mkDP ex_line [true; false; true; true; true; true; true] (tol2 2 1)) 3 6) =
  [true; false; true; true; false; true; true].
Proof. vm_compute. reflexivity. Qed.
Example ex_gen_fuel_bound : g_simplifySection_fuel 40 (gen_state0 (tol2 2 1) ex_line) 0 6 = g_simplifySection_fuel 6 (gen_state0 (tol2 2 1) ex_line) 0 6.
Proof. vm_compute. reflexivity. Qed.
Example ex_gen_out_of_fuel_differs : f_usePt (g_simplifySection_fuel 1 (gen_state0 (tol2 2 1) ex_line) 0 6) <> gen_usePt (tol2 2 1) ex_line.
Proof. vm_compute. discriminate. Qed.
Example ex_gen_degenerate_hyp : rle (-1, 1)%Z (f_distanceTolerance (gen_state0 (-4, 1)%Z [(0, 0)%Z])) = false.
Proof. vm_compute. reflexivity. Qed.
Example ex_gen_within : covered (tol2 2 1) ex_line (gen_indices (tol2 2 1) ex_line) 1.
Proof. exists 0%nat, 3%nat. split; [exists [], [5; 6]%nat; reflexivity|]. split; [split; auto with arith | vm_compute; reflexivity]. Qed.
Example ex_gen_zero_tol_drops_collinear : gen_points T0 [(0, 0); (1, 0); (2, 0)] = [(0, 0); (2, 0)].
Proof. vm_compute. reflexivity. Qed.
Example ex_gen_zero_tol_keeps : gen_points T0 [(0, 0); (1, 1); (2, 0)] = [(0, 0); (1, 1); (2, 0)].
Proof. vm_compute. reflexivity. Qed.
Example ex_gen_ring_origin_removed : gen_simplify (tol2 3 2) ex_ring false = [(10, 5); (12, 0); (10, -5); (10, 5)].
Proof. vm_compute. reflexivity. Qed.
Example ex_gen_first_of_equal_maxima : gen_points (tol2 1 1) [(0, 0); (3, 2); (6, -2); (10, 0)] = [(0, 0); (3, 2); (6, -2); (10, 0)]
  /\ gen_points (tol2 2 1) [(0, 0); (3, 2); (6, -2); (10, 0)] = [(0, 0); (10, 0)].
Proof. vm_compute. split; reflexivity. Qed.
