(* C12 — property theorems only.  The table of entry points (Gen/C12_api_table.v) is regenerated from capi/geos_ts_c.cpp and
   capi/geos_c.h.in on every run; the theorems about it are finite sweeps (forallb ... = true by vm_compute, lifted with
   forallb_forall), so a changed error value, return type, documented return class or a vanished entry point breaks them. *)
From Coq Require Import ZArith List Bool String.
From GeosV.C12 Require Import PoolDefs PoolProofs Ops ApiDefs Interrupt.
From GeosV.Gen Require Import C12_api_table.
Import ListNotations.
Local Open Scope Z_scope.

(* errval_distinguishable: for every entry point whose return class the documentation fixes (predicate 0/1, status 1, count >= 0,
   pointer non-NULL, distance >= 0) and which reports failure through execute(), the error value lies outside the success range *)
Lemma errval_sweep : forallb (fun r => negb (classified r) || row_ok r) api_table = true.
Proof. vm_compute. reflexivity. Qed.
Theorem C12_errval_distinguishable : forall r, In r api_table -> classified r = true -> in_success (r_class r) (r_err r) = false.
Proof.
  intros r Hin Hc. pose proof errval_sweep as S. rewrite forallb_forall in S. specialize (S r Hin).
  rewrite Hc in S. cbn in S. unfold row_ok in S. apply negb_true_iff in S. exact S.
Qed.
Print Assumptions C12_errval_distinguishable.

(* ops_consistent: every modelled entry point exists in the source with the return class the model and the harness assume *)
Lemma ops_sweep : forallb (op_consistent api_table) ops = true.
Proof. vm_compute. reflexivity. Qed.
Theorem C12_ops_consistent : forall o, In o ops -> op_consistent api_table o = true.
Proof. intros o H. pose proof ops_sweep as S. rewrite forallb_forall in S. exact (S o H). Qed.
Print Assumptions C12_ops_consistent.

(* legal_never_stuck: a legal call always has an effect, and all its object arguments are live objects of the expected kind *)
Theorem C12_legal_never_stuck : forall p c, legal ops p c = true -> step ops p c = Some (apply ops p c).
Proof. intros p c H. unfold step. rewrite H. reflexivity. Qed.
Theorem C12_legal_args_live : forall p c o l, legal ops p c = true -> nth_error ops (cop c) = Some o ->
  pair_args (op_args o) (cargs c) = Some l ->
  forall a h, In (a, h) l -> live p h = true /\ (forall k, spec_kind a = Some k -> has_kind p h k = true).
Proof. exact (legal_args_live ops). Qed.
Print Assumptions C12_legal_args_live.

(* what a call consumes or destroys is owned by the caller, has no live dependent and is passed once *)
Theorem C12_kill_ok : forall p c o l, legal ops p c = true -> nth_error ops (cop c) = Some o ->
  pair_args (op_args o) (cargs c) = Some l ->
  forall a h, In (a, h) l -> is_kill a = true -> owned p h = true /\ has_dependent p h = false /\ count_occ_h h l = 1%nat.
Proof. exact (legal_kill_ok ops). Qed.
Print Assumptions C12_kill_ok.

(* no double free, no resurrection: flags are only ever cleared; kinds and owners never change *)
Theorem C12_dead_stays_dead : forall p c h o', (h < List.length p)%nat -> nth_error (apply ops p c) h = Some o' ->
  exists o, nth_error p h = Some o /\ okind o' = okind o /\ oown o' = oown o /\ (olive o' = true -> olive o = true).
Proof. exact (dead_stays_dead ops). Qed.
Print Assumptions C12_dead_stays_dead.

(* results are fresh handles: the pool grows by at most one object, at the end *)
Theorem C12_results_fresh : forall p c, (List.length p <= List.length (apply ops p c) <= S (List.length p))%nat.
Proof. exact (apply_length ops). Qed.
Print Assumptions C12_results_fresh.

(* pool_invariant: the base of a prepared geometry and the items of a tree are flagged, owned objects as long as the dependent is *)
Theorem C12_pool_invariant : forall p c, wfpool p -> legal ops p c = true -> wfpool (apply ops p c).
Proof. exact (pool_invariant ops). Qed.
Print Assumptions C12_pool_invariant.

(* const arguments owned by the caller are left alone by the model *)
Theorem C12_const_arg_unchanged : forall p c o l k h, legal ops p c = true -> nth_error ops (cop c) = Some o ->
  pair_args (op_args o) (cargs c) = Some l -> In (AC k, h) l -> owned p h = true ->
  forall ob, nth_error p h = Some ob ->
  exists ob', nth_error (apply ops p c) h = Some ob' /\ okind ob' = okind ob /\ oown ob' = oown ob /\ olive ob' = olive ob.
Proof. exact (const_arg_unchanged ops). Qed.
Print Assumptions C12_const_arg_unchanged.

(* srid_rule: the entry points marked constructive take a const geometry first and return a fresh geometry: the harness compares
   the SRID of exactly these results with the SRID of the first argument *)
Lemma srid_sweep : forallb (fun o => negb (op_constructive o) ||
    match op_args o, op_res o with AC KG :: _, RF KG [] => true | _, _ => false end) ops = true.
Proof. vm_compute. reflexivity. Qed.
Theorem C12_srid_rule : forall o, In o ops -> op_constructive o = true ->
  exists rest, op_args o = AC KG :: rest /\ op_res o = RF KG [].
Proof.
  intros o H C. pose proof srid_sweep as S. rewrite forallb_forall in S. specialize (S o H). rewrite C in S. cbn in S.
  destruct (op_args o) as [|[[]| | | | |] rest]; try discriminate. destruct (op_res o) as [| |[] [|]|]; try discriminate. eauto.
Qed.
Print Assumptions C12_srid_rule.

(* gen_legal: every program the harness generator emits, for every seed and every length, is legal from the empty pool *)
Lemma ops_lit_ok : lit_ok ops.
Proof. eexists. split; [reflexivity|]. split; reflexivity. Qed.
Theorem C12_gen_legal : forall seed nlit len, run ops [] (program ops seed nlit len) <> None.
Proof. exact (gen_legal ops ops_lit_ok). Qed.
Print Assumptions C12_gen_legal.

(* ---- interruption (C12/Interrupt.v): a call nobody asked to interrupt completes normally; a delivered interruption consumes the
   request, so after a request made from outside, or by a callback that requests once, the next call is not asked either ---- *)
Theorem C12_not_asked_completes : forall n s, asked s = false -> icall n s = (s, false).
Proof. exact not_asked_completes. Qed.
Print Assumptions C12_not_asked_completes.
Theorem C12_delivery_consumes : forall n s s', icall n s = (s', true) ->
  ipending s' = false /\ icb s' = icb s /\ (ibudget s' <= ibudget s)%nat /\ asked s = true.
Proof. exact delivery_consumes. Qed.
Print Assumptions C12_delivery_consumes.
Theorem C12_next_call_not_asked : forall n s s', (ibudget s <= 1)%nat -> icall n s = (s', true) -> asked s' = false.
Proof. exact next_call_not_asked. Qed.
Print Assumptions C12_next_call_not_asked.
(* register a callback that requests once; the first polling call is interrupted, the second one completes *)
Example ex_interrupt_once :
  let s1 := iapply istart (IRegister (Some 1%nat)) in
  asked s1 = true /\ snd (icall 3 s1) = true /\ icall 3 (fst (icall 3 s1)) = (fst (icall 3 s1), false) /\
  asked (iapply (iapply istart IRequest) ICancel) = false.
Proof. repeat split; vm_compute; reflexivity. Qed.

(* ---- non-vacuity ---- *)
Example ex_program : option_map (@List.length obj) (run ops [] (program ops 20260930 8 40)) = Some 32%nat.
Proof. vm_compute. reflexivity. Qed.
(* destroying twice, using after destruction and destroying the base of a live prepared geometry are illegal *)
Definition find_op (n : string) : nat :=
  (fix go (l : list opsig) (i : nat) := match l with [] => i | o :: t => if String.eqb (op_name o) n then i else go t (S i) end) ops O.
Definition c_lit := mkCall 0 [] [0%nat].
Definition c_destroy (h : nat) := mkCall (find_op "GEOSGeom_destroy_r") [h] [].
Definition c_prepare (h : nat) := mkCall (find_op "GEOSPrepare_r") [h] [].
Definition c_area (h : nat) := mkCall (find_op "GEOSArea_r") [h] [].
Example ex_double_free : run ops [] [c_lit; c_destroy 0; c_destroy 0] = None.
Proof. vm_compute. reflexivity. Qed.
Example ex_use_after_free : run ops [] [c_lit; c_destroy 0; c_area 0] = None.
Proof. vm_compute. reflexivity. Qed.
Example ex_base_outlives : run ops [] [c_lit; c_prepare 0; c_destroy 0] = None /\
  run ops [] [c_lit; c_prepare 0; mkCall (find_op "GEOSPreparedGeom_destroy_r") [1%nat] []; c_destroy 0] <> None.
Proof. split; vm_compute; [reflexivity|discriminate]. Qed.
Example ex_interior_pointer : (* an interior pointer cannot be destroyed and dies with its owner *)
  run ops [] [c_lit; mkCall (find_op "GEOSGetGeometryN_r") [0%nat] [0%nat]; c_destroy 1] = None /\
  run ops [] [c_lit; mkCall (find_op "GEOSGetGeometryN_r") [0%nat] [0%nat]; c_destroy 0; c_area 1] = None /\
  run ops [] [c_lit; mkCall (find_op "GEOSGetGeometryN_r") [0%nat] [0%nat]; c_area 1; c_destroy 0] <> None.
Proof. repeat split; vm_compute; try reflexivity; discriminate. Qed.
