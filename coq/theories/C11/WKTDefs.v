(* C11 — executable model of geos::io::StringTokenizer (src/io/StringTokenizer.cpp) and geos::io::WKTReader
   (src/io/WKTReader.cpp): tokenizer and recursive-descent reader over `list ascii`, full input language (all tags,
   Z / M / ZM suffixes and words, EMPTY, nesting, curved types, both MULTIPOINT forms), with the constructor checks of
   WKBDefs.v and the same resource accounting.  Definitions only.

   Abstractions, stated once:
   - whether a token is a number is decided by `is_number`, the grammar of the subject sequences that glibc strtod
     consumes completely in the "C" locale (CLocalizer); the *value* strtod returns is a parameter `numval`
     (token -> binary64 bit pattern) — the model needs values only to compare first/last XY of a sequence and to see NaN;
   - peekNextToken is nextToken without the state change (the two scan the same characters);
   - toupper is the "C" locale one; precision model floating; fixStructure off. *)
From Coq Require Import ZArith NArith List Bool Ascii String.
From GeosV.C11 Require Import WKBDefs.
Import ListNotations.
Local Open Scope Z_scope.

(* ---- characters ---- *)
Definition code (c : ascii) : N := N_of_ascii c.
Definition in_range (c : ascii) (lo hi : N) : bool := (N.leb lo (code c)) && (N.leb (code c) hi).
Definition c_tab : ascii := Eval compute in ascii_of_N 9.
Definition c_nl : ascii := Eval compute in ascii_of_N 10.
Definition c_vt : ascii := Eval compute in ascii_of_N 11.
Definition c_ff : ascii := Eval compute in ascii_of_N 12.
Definition c_cr : ascii := Eval compute in ascii_of_N 13.
Definition is_ws (c : ascii) : bool := Ascii.eqb c " " || Ascii.eqb c c_nl || Ascii.eqb c c_cr || Ascii.eqb c c_tab.
Definition is_delim (c : ascii) : bool := is_ws c || Ascii.eqb c "(" || Ascii.eqb c ")" || Ascii.eqb c ",".
Definition is_cspace (c : ascii) : bool := is_ws c || Ascii.eqb c c_vt || Ascii.eqb c c_ff.     (* isspace, "C" locale *)
Definition is_digit (c : ascii) : bool := in_range c 48 57.
Definition is_hexdigit (c : ascii) : bool := is_digit c || in_range c 65 70 || in_range c 97 102.
Definition upper (c : ascii) : ascii := if in_range c 97 122 then ascii_of_N (code c - 32) else c.
Definition lower (c : ascii) : ascii := if in_range c 65 90 then ascii_of_N (code c + 32) else c.
Fixpoint chars_eqb (a b : list ascii) : bool :=
  match a, b with
  | [], [] => true
  | x :: a', y :: b' => Ascii.eqb x y && chars_eqb a' b'
  | _, _ => false
  end.
Definition is_str (w : list ascii) (s : string) : bool := chars_eqb w (list_ascii_of_string s).
Definition is_nil {A} (l : list A) : bool := match l with [] => true | _ => false end.

(* ---- which tokens strtod consumes completely ---- *)
Fixpoint span (p : ascii -> bool) (l : list ascii) : list ascii * list ascii :=
  match l with
  | c :: t => if p c then let (a, r) := span p t in (c :: a, r) else ([], l)
  | [] => ([], [])
  end.
Fixpoint drop_while (p : ascii -> bool) (l : list ascii) : list ascii :=
  match l with c :: t => if p c then drop_while p t else l | [] => [] end.
(* optional exponent part, then the end of the token *)
Definition exp_tail (e1 e2 : ascii) (l : list ascii) : bool :=
  match l with
  | [] => true
  | c :: t =>
    if Ascii.eqb c e1 || Ascii.eqb c e2 then
      let t := match t with sg :: t' => if Ascii.eqb sg "+" || Ascii.eqb sg "-" then t' else t | [] => t end in
      let (ds, r) := span is_digit t in negb (is_nil ds) && is_nil r
    else false
  end.
Definition float_body (dig : ascii -> bool) (e1 e2 : ascii) (l : list ascii) : bool :=
  let (i, r) := span dig l in
  match r with
  | c :: r' =>
    if Ascii.eqb c "." then let (f, r'') := span dig r' in negb (is_nil i && is_nil f) && exp_tail e1 e2 r''
    else negb (is_nil i) && exp_tail e1 e2 r
  | [] => negb (is_nil i)
  end.
Definition is_number (w : list ascii) : bool :=
  let w := drop_while is_cspace w in
  let w := match w with sg :: t => if Ascii.eqb sg "+" || Ascii.eqb sg "-" then t else w | [] => w end in
  let lw := map lower w in
  if is_str lw "inf" || is_str lw "infinity" || is_str lw "nan" then true else
  match w with
  | z :: x :: t => if Ascii.eqb z "0" && (Ascii.eqb x "x" || Ascii.eqb x "X") then float_body is_hexdigit "p" "P" t
                   else float_body is_digit "e" "E" w
  | _ => float_body is_digit "e" "E" w
  end.

(* ---- StringTokenizer ---- *)
Inductive token := TEof | TLp | TRp | TComma | TNum (w : list ascii) | TWord (w : list ascii).
Fixpoint skip_ws (l : list ascii) (k : Z) : list ascii * Z :=
  match l with c :: t => if is_ws c then skip_ws t (k + 1) else (l, k) | [] => ([], k) end.
Fixpoint take_tok (l : list ascii) (k : Z) : list ascii * list ascii * Z :=
  match l with
  | c :: t => if is_delim c then ([], l, k) else let '(a, r, k') := take_tok t (k + 1) in (c :: a, r, k')
  | [] => ([], [], k)
  end.
(* token, remaining input, characters consumed *)
Definition next_token (l : list ascii) : token * list ascii * Z :=
  let (l1, k) := skip_ws l 0 in
  match l1 with
  | [] => (TEof, [], k)
  | c :: t =>
    if Ascii.eqb c "(" then (TLp, t, k + 1)
    else if Ascii.eqb c ")" then (TRp, t, k + 1)
    else if Ascii.eqb c "," then (TComma, t, k + 1)
    else let '(w, r, k') := take_tok l1 k in ((if is_number w then TNum w else TWord w), r, k')
  end.

(* ---- reader state and accounting ---- *)
Record wstats := mkWS { wpos : Z; wtoks : Z; wcoords : Z; welems : Z; wnodes : Z; wdmax : Z; wquad : Z }.
Definition wstats0 := mkWS 0 0 0 0 0 0 0.
Record ws := mkW { wrest : list ascii; wst : wstats }.
Definition winit (input : list ascii) : ws := mkW input wstats0.
Inductive wres (A : Type) := WOk (a : A) (s : ws) | WErr (e : error) (t : wstats) | WFuel.
Arguments WOk {A}. Arguments WErr {A}. Arguments WFuel {A}.
Definition wupd (f : wstats -> wstats) (s : ws) : ws := mkW (wrest s) (f (wst s)).
Definition w_tok (k : Z) (t : wstats) := mkWS (wpos t + k) (wtoks t + 1) (wcoords t) (welems t) (wnodes t) (wdmax t) (wquad t).
Definition w_coord (t : wstats) := mkWS (wpos t) (wtoks t) (wcoords t + 1) (welems t) (wnodes t) (wdmax t) (wquad t).
Definition w_elem (t : wstats) := mkWS (wpos t) (wtoks t) (wcoords t) (welems t + 1) (wnodes t) (wdmax t) (wquad t).
Definition w_node (q : Z) (t : wstats) := mkWS (wpos t) (wtoks t) (wcoords t) (welems t) (wnodes t + 1) (wdmax t) (wquad t + q).
Definition w_enter (d : Z) (t : wstats) := mkWS (wpos t) (wtoks t) (wcoords t) (welems t) (wnodes t) (Z.max (wdmax t) d) (wquad t).

Definition next (s : ws) : token * ws :=
  let '(t, r, k) := next_token (wrest s) in (t, mkW r (w_tok k (wst s))).
Definition peek (s : ws) : token := let '(t, _, _) := next_token (wrest s) in t.
Definition is_num_tok (t : token) : bool := match t with TNum _ => true | _ => false end.
Definition is_lp (t : token) : bool := match t with TLp => true | _ => false end.

Notation "'do' x <- e ; f" := (match e with WOk x s => f s | WErr e' t' => WErr e' t' | WFuel => WFuel end)
  (at level 200, x pattern, e at level 100, f at level 200, only parsing).

(* getNextNumber *)
Definition next_number (s : ws) : wres (list ascii) :=
  let (t, s') := next s in match t with TNum w => WOk w s' | _ => WErr EParse (wst s') end.
(* getNextWord: words are upper-cased *)
Definition next_word (s : ws) : wres token :=
  let (t, s') := next s in
  match t with
  | TEof | TNum _ => WErr EParse (wst s')
  | TWord w => WOk (TWord (map upper w)) s'
  | t => WOk t s'
  end.
Definition word_is (t : token) (str : string) : bool := match t with TWord w => is_str w str | _ => false end.
(* getNextCloserOrComma: true = "," *)
Definition closer_or_comma (s : ws) : wres bool :=
  do t <- next_word s ; fun s' => match t with TComma => WOk true s' | TRp => WOk false s' | _ => WErr EParse (wst s') end.

(* OrdinateSet *)
Record flags := mkFl { fz : bool; fm : bool; fchg : bool }.
Definition fl_xy : flags := mkFl false false true.
Definition same_dims (a b : flags) : bool := Bool.eqb (fz a) (fz b) && Bool.eqb (fm a) (fm b).

(* getNextEmptyOrOpener: true = EMPTY, false = "(" *)
Definition empty_or_opener (fl : flags) (s : ws) : wres (bool * flags) :=
  let chg := fchg fl in
  do t <- next_word s ; fun s1 =>
  let finish (fl' : flags) (modified : bool) (t : token) (s' : ws) : wres (bool * flags) :=
    let fl' := if modified then mkFl (fz fl') (fm fl') false else fl' in
    if word_is t "EMPTY" then WOk (true, fl') s' else if is_lp t then WOk (false, fl') s' else WErr EParse (wst s') in
  if word_is t "ZM" then
    if negb chg then WErr EParse (wst s1) else
    do t2 <- next_word s1 ; fun s2 => finish (mkFl true true (fchg fl)) true t2 s2
  else
    let after_z (fl' : flags) (modified : bool) (t : token) (s' : ws) : wres (bool * flags) :=
      if word_is t "M" then
        if negb chg || modified then WErr EParse (wst s') else
        do t3 <- next_word s' ; fun s3 => finish (mkFl (fz fl') true (fchg fl')) true t3 s3
      else finish fl' modified t s' in
    if word_is t "Z" then
      if negb chg then WErr EParse (wst s1) else
      do t2 <- next_word s1 ; fun s2 => after_z (mkFl true (fm fl) (fchg fl)) true t2 s2
    else after_z fl false t s1.

Section WithNumval.
Variable numval : list ascii -> Z.        (* the binary64 (bit pattern) strtod returns for a token accepted by is_number *)

(* one coordinate: x y, zok = a Z ordinate that is not NaN, mok likewise *)
Record coord := mkCoord { qx : Z; qy : Z; zok : bool; mok : bool }.
(* getPreciseCoordinate *)
Definition read_coord (fl : flags) (s : ws) : wres (coord * flags) :=
  do xt <- next_number s ; fun s1 =>
  do yt <- next_number s1 ; fun s2 =>
  let fl1 := if fchg fl && is_num_tok (peek s2) then mkFl true (fm fl) (fchg fl) else fl in
  let k (zk : bool) (s3 : ws) : wres (coord * flags) :=
    let fl2 := if fchg fl1 && fz fl1 && is_num_tok (peek s3) then mkFl (fz fl1) true (fchg fl1) else fl1 in
    let fin (mk : bool) (s4 : ws) : wres (coord * flags) :=
      WOk (mkCoord (numval xt) (numval yt) zk mk, mkFl (fz fl2) (fm fl2) false) (wupd w_coord s4) in
    if fm fl2 then do mt <- next_number s3 ; fun s4 => fin (negb (d_isnan (numval mt))) s4 else fin false s3 in
  if fz fl1 then do zt <- next_number s2 ; fun s3 => k (negb (d_isnan (numval zt))) s3 else k false s2.

Definition seq_push (q : cseq) (c : coord) : cseq :=
  mkSeq (cn q + 1) (cfx q) (cfy q) (qx c) (qy c) (cz q) (cm q) (ctame q && tame_bits (qx c) && tame_bits (qy c)).
Definition seq_one (c : coord) (fl : flags) : cseq :=
  mkSeq 1 (qx c) (qy c) (qx c) (qy c) (fz fl) (fm fl) (tame_bits (qx c) && tame_bits (qy c)).

(* the `while (nextToken == ",")` loop of getCoordinates *)
Fixpoint coords_tail (fuel : nat) (fl : flags) (q : cseq) (s : ws) : wres (cseq * flags) :=
  do comma <- closer_or_comma s ; fun s1 =>
  if comma then
    match fuel with
    | O => WFuel
    | S f => do cf <- read_coord fl s1 ; fun s2 => coords_tail f (snd cf) (seq_push q (fst cf)) s2
    end
  else WOk (q, fl) s1.
(* getCoordinates *)
Definition get_coordinates (fuel : nat) (fl : flags) (s : ws) : wres (cseq * flags) :=
  do ef <- empty_or_opener fl s ; fun s1 =>
  let fl1 := snd ef in
  if fst ef then WOk (seq_empty (fz fl1) (fm fl1), fl1) s1 else
  do cf <- read_coord fl1 s1 ; fun s2 => coords_tail fuel (snd cf) (seq_one (fst cf) (snd cf)) s2.

(* a point made by GeometryFactory::createMultiPoint(const CoordinateSequence&) in the "MULTIPOINT (0 0, 1 1)" form.  The
   sequence is created BEFORE the first coordinate is read, with the M flag `sm` declared so far; with the padded layout
   (GEOS_COORDSEQ_PADZ) it stores Z in any case and M only if sm; each point is then built from a Coordinate (sm = false:
   hasZ is decided lazily by !isnan(z)) or a CoordinateXYZM (flags = !isnan(z), !isnan(m)). *)
Definition mp_point (sm : bool) (c : coord) : geom :=
  GPoint (mkSeq 1 (qx c) (qy c) (qx c) (qy c) (zok c) (sm && mok c) true).
(* one coordinate of that form: the coordinate, then the element and the point it becomes *)
Definition read_point_coord (fl : flags) (s : ws) : wres (coord * flags) :=
  do cf <- read_coord fl s ; fun s2 => WOk cf (wupd (w_node 1) (wupd w_elem s2)).
Fixpoint mp_tail (fuel : nat) (sm : bool) (fl : flags) (s : ws) : wres (list geom * flags) :=
  do comma <- closer_or_comma s ; fun s1 =>
  if comma then
    match fuel with
    | O => WFuel
    | S f => do cf <- read_point_coord fl s1 ; fun s2 =>
             do lf <- mp_tail f sm (snd cf) s2 ; fun s3 => WOk (mp_point sm (fst cf) :: fst lf, snd lf) s3
    end
  else WOk ([], fl) s1.

(* leaf texts; kind: 1 point, 2 linestring, 13 linearring, 8 circularstring *)
Definition leaf_text (fx : bool) (fuel : nat) (k : Z) (fl : flags) (s : ws) : wres (geom * flags) :=
  do qf <- get_coordinates fuel fl s ; fun s1 =>
  let q := fst qf in
  let r (ok : bool) (g : geom) : wres (geom * flags) :=
    if ok then WOk (g, snd qf) (wupd (w_node 1) s1) else WErr ECtor (wst s1) in
  if k =? 1 then r (negb (1 <? cn q)) (GPoint q)
  else if k =? 2 then r (line_ok q) (GLine q)
  else if k =? 13 then r (ring_ok (fixed_ring fx q)) (GLine (fixed_ring fx q))
  else r (circ_ok q) (GCirc q).

(* ---- type words ---- *)
Fixpoint strip_prefix (p w : list ascii) : option (list ascii) :=
  match p, w with
  | [], _ => Some w
  | a :: p', b :: w' => if Ascii.eqb a b then strip_prefix p' w' else None
  | _ :: _, [] => None
  end.
Definition suffix_flags (r : list ascii) : option (bool * bool) :=
  if is_nil r then Some (false, false) else if is_str r "Z" then Some (true, false)
  else if is_str r "M" then Some (false, true) else if is_str r "ZM" then Some (true, true) else None.
Definition type_names : list (string * Z) :=
  [("POINT", 1); ("LINESTRING", 2); ("LINEARRING", 13); ("CIRCULARSTRING", 8); ("COMPOUNDCURVE", 9); ("POLYGON", 3);
   ("CURVEPOLYGON", 10); ("MULTIPOINT", 4); ("MULTILINESTRING", 5); ("MULTICURVE", 11); ("MULTIPOLYGON", 6);
   ("MULTISURFACE", 12); ("GEOMETRYCOLLECTION", 7)]%string.
Fixpoint find_type (names : list (string * Z)) (w : list ascii) : option (Z * bool * bool) :=
  match names with
  | [] => None
  | (nm, k) :: t =>
    match strip_prefix (list_ascii_of_string nm) w with
    | Some r => match suffix_flags r with Some (z, m) => Some (k, z, m) | None => find_type t w end
    | None => find_type t w
    end
  end.
Definition parse_type (w : list ascii) : option (Z * bool * bool) := find_type type_names w.

(* element kinds of the list loops *)
Inductive ekind := ERing | EPoint | ELine | EPoly | EGeom | ECurve | ESimple | ESurface.
Definition is_curve (g : geom) : bool := match g with GLine _ | GCirc _ => true | GNest k _ => k =? 9 | _ => false end.
Definition is_simple (g : geom) : bool := match g with GLine _ | GCirc _ => true | _ => false end.
Definition is_surface (g : geom) : bool := match g with GPoly _ => true | GNest k _ => k =? 10 | _ => false end.
Definition elem_kind (k : Z) : ekind :=
  if k =? 5 then ELine else if k =? 6 then EPoly else if k =? 7 then EGeom else if k =? 9 then ESimple
  else if k =? 12 then ESurface else ECurve.     (* 10, 11 *)
Definition ring_of (g : geom) : cseq := match g with GLine q | GCirc q | GPoint q => q | _ => seq_empty false false end.
Definition empty_geom (k : Z) (z m : bool) : geom := if k =? 3 then GPoly [seq_empty z m] else GLine (seq_empty z m).

Variable c : cfg.

(* ---- readGeometryTaggedText and the loops it reaches ---- *)
Fixpoint read_tagged (fuel : nat) (fl_in : flags) (ety : option Z) (d : Z) (s : ws) {struct fuel} : wres (geom * Z) :=
  match fuel with
  | O => WFuel
  | S f =>
    let s := wupd (w_enter d) s in
    if too_deep c d then WErr ETooDeep (wst s) else
    do t <- next_word s ; fun s1 =>
    match t with
    | TWord w =>
      if is_str w "EMPTY" then
        match ety with
        | Some k => WOk (empty_geom k (fz fl_in) (fm fl_in), 1) (wupd (w_node 1) s1)
        | None => WErr EParse (wst s1)
        end
      else
      match parse_type w with
      | None => WErr EParse (wst s1)
      | Some (k, z, m) =>
        do r <- read_body f k (mkFl z m (negb (z || m))) d s1 ; fun s2 =>
        let '(g, csz, nf) := r in
        if negb (fchg fl_in) && negb (same_dims nf fl_in) then WErr EParse (wst s2) else WOk (g, csz) s2
      end
    | _ => WErr EParse (wst s1)
    end
  end
with read_body (fuel : nat) (k : Z) (fl : flags) (d : Z) (s : ws) {struct fuel} : wres (geom * Z * flags) :=
  match fuel with
  | O => WFuel
  | S f =>
    if (k =? 1) || (k =? 2) || (k =? 13) || (k =? 8) then
      do gf <- leaf_text (fix_rings c) f k fl s ; fun s1 => WOk (fst gf, 1, snd gf) s1
    else if k =? 3 then
      do gf <- read_poly f fl d s ; fun s1 => WOk (fst gf, 1, snd gf) s1
    else
      do ef <- empty_or_opener fl s ; fun s1 =>
      let fl1 := snd ef in
      if fst ef then
        (* CURVEPOLYGON EMPTY is built around an empty LinearRing carrying the flags *)
        WOk (GNest k (if k =? 10 then [GLine (seq_empty (fz fl1) (fm fl1))] else []), 1, fl1) (wupd (w_node 1) s1) else
      if k =? 4 then
        let t := peek s1 in
        if is_num_tok t then
          do cf <- read_point_coord fl1 s1 ; fun s2 =>
          do lf <- mp_tail f (fm fl1) (snd cf) s2 ; fun s3 =>
          let l := mp_point (fm fl1) (fst cf) :: fst lf in
          let csz := 1 + Z.of_nat (List.length l) in
          WOk (GNest 4 l, csz, snd lf) (wupd (w_node csz) s3)
        else
          match t with
          | TLp | TWord _ =>
            do r <- read_list f EPoint fl1 d s1 ; fun s2 =>
            let '(l, zs, fl2) := r in WOk (GNest 4 l, 1 + zs, fl2) (wupd (w_node (1 + zs)) s2)
          | _ => WErr EParse (wst s1)
          end
      else
        do r <- read_list f (elem_kind k) fl1 d s1 ; fun s2 =>
        let '(l, zs, fl2) := r in
        match ctor_check c k l with
        | Some e => WErr e (wst s2)
        | None => let csz := if is_coll k then 1 + zs else 1 in WOk (GNest k l, csz, fl2) (wupd (w_node csz) s2)
        end
  end
with read_poly (fuel : nat) (fl : flags) (d : Z) (s : ws) {struct fuel} : wres (geom * flags) :=
  match fuel with
  | O => WFuel
  | S f =>
    do ef <- empty_or_opener fl s ; fun s1 =>
    let fl1 := snd ef in
    if fst ef then WOk (GPoly [seq_empty (fz fl1) (fm fl1)], fl1) (wupd (w_node 1) s1) else
    do r <- read_list f ERing fl1 d s1 ; fun s2 =>
    let '(l, _, fl2) := r in
    let rings := map ring_of l in
    match poly_check rings with
    | Some e => WErr e (wst s2)
    | None => WOk (GPoly rings, fl2) (wupd (w_node 1) s2)
    end
  end
with read_list (fuel : nat) (ek : ekind) (fl : flags) (d : Z) (s : ws) {struct fuel} : wres (list geom * Z * flags) :=
  match fuel with
  | O => WFuel
  | S f =>
    do r <- read_elem f ek fl d s ; fun s1 =>
    let '(g, z, fl1) := r in
    do comma <- closer_or_comma s1 ; fun s2 =>
    let s2 := wupd w_elem s2 in          (* the element is counted once the token after it has been read *)
    if comma then
      do r2 <- read_list f ek fl1 d s2 ; fun s3 => let '(l, zs, fl2) := r2 in WOk (g :: l, z + zs, fl2) s3
    else WOk ([g], z, fl1) s2
  end
with read_elem (fuel : nat) (ek : ekind) (fl : flags) (d : Z) (s : ws) {struct fuel} : wres (geom * Z * flags) :=
  match fuel with
  | O => WFuel
  | S f =>
    let leaf (k : Z) := do gf <- leaf_text (fix_rings c) f k fl s ; fun s1 => WOk (fst gf, 1, snd gf) s1 in
    let poly := do gf <- read_poly f fl d s ; fun s1 => WOk (fst gf, 1, snd gf) s1 in
    let tagged (ety : option Z) (ok : geom -> bool) :=
      do gz <- read_tagged f fl ety (d + 1) s ; fun s1 =>
      if ok (fst gz) then WOk (fst gz, snd gz, fl) s1 else WErr EParse (wst s1) in
    match ek with
    | ERing => leaf 13
    | EPoint => leaf 1
    | ELine => leaf 2
    | EPoly => poly
    | EGeom => tagged None (fun _ => true)
    | ECurve => if is_lp (peek s) then leaf 2 else tagged (Some 2) is_curve
    | ESimple => if is_lp (peek s) then leaf 2 else tagged (Some 2) is_simple
    | ESurface => if is_lp (peek s) then poly else tagged (Some 3) is_surface
    end
  end.

(* WKTReader::read: fuel = 4 |input| + 8 is enough (theorem wkt_fuel_sufficient) *)
Definition wkt_fuel (input : list ascii) : nat := 4 * List.length input + 8.
Definition wkt_read (input : list ascii) : wres (geom * Z) :=
  do gz <- read_tagged (wkt_fuel input) fl_xy None 1 (winit input) ; fun s1 =>
  match peek s1 with TEof => WOk gz s1 | _ => WErr EParse (wst s1) end.

End WithNumval.

Definition wfinal_stats {A} (r : wres A) : option wstats :=
  match r with WOk _ s => Some (wst s) | WErr _ t => Some t | WFuel => None end.
