(* C11 — proofs about the WKB reader model (WKBDefs.v): stream invariant, every read inside the input, fuel sufficiency,
   and the relative accounting of coordinates / slots / nodes / depth / setSRID work that gives the bounds of Properties_C11.v *)
From Coq Require Import ZArith List Bool Lia.
From GeosV.C11 Require Import WKBDefs.
Import ListNotations.
Local Open Scope Z_scope.

Ltac proj := cbn [pos coords slots nodes dmax quad rest rem big stt adv upd set_big add_coords add_slots add_node add_quad enter
                   cn cfx cfy clx cly cz cm ctame fst snd] in *.

(* ------------------------------------------------------------------ bytes and words *)
Definition is_byte (b : Z) : Prop := 0 <= b < 256.
Definition bytes_ok (l : list Z) : Prop := Forall is_byte l.

Lemma le_word_nonneg : forall l, bytes_ok l -> 0 <= le_word l.
Proof. induction 1; cbn [le_word]; unfold is_byte in *; lia. Qed.
Lemma word_nonneg : forall b l, bytes_ok l -> 0 <= word b l.
Proof.
  intros b l H. unfold word. destruct b; apply le_word_nonneg; auto.
  unfold bytes_ok in *. apply Forall_rev. exact H.
Qed.

Lemma skipz_bytes : forall l n, bytes_ok l -> bytes_ok (skipz l n).
Proof.
  induction l as [|x l IH]; intros n H; cbn [skipz]; auto.
  destruct (n <=? 0); auto. inversion H; subst. apply IH; auto.
Qed.
Lemma skipz_length : forall l n, 0 <= n <= Z.of_nat (length l) -> Z.of_nat (length (skipz l n)) = Z.of_nat (length l) - n.
Proof.
  induction l as [|x l IH]; intros n H; cbn [skipz length] in *.
  - lia.
  - destruct (Z.leb_spec n 0).
    + cbn [length]. lia.
    + rewrite IH; lia.
Qed.
Lemma skipz_nonempty : forall l n, 0 <= n < Z.of_nat (length l) -> exists x t, skipz l n = x :: t /\ Z.of_nat (length t) = Z.of_nat (length l) - n - 1 /\ (bytes_ok l -> bytes_ok t).
Proof.
  induction l as [|x l IH]; intros n H; cbn [skipz length] in *.
  - lia.
  - destruct (Z.leb_spec n 0).
    + exists x, l. split; auto. split. lia. intro B. inversion B; auto.
    + destruct (IH (n - 1)) as (y & t & E & L & B). lia.
      exists y, t. split; auto. split. lia. intro B'. inversion B'; auto.
Qed.
Lemma peek_f64_some : forall b l, 8 <= Z.of_nat (length l) -> exists v, peek_f64 b l = Some v.
Proof.
  intros b l H. do 8 (destruct l as [|? l]; [cbn [length] in H; lia|]). eexists. reflexivity.
Qed.

(* ------------------------------------------------------------------ the stream invariant *)
Definition wf (total : Z) (s : rd) : Prop :=
  rem s = Z.of_nat (length (rest s)) /\ pos (stt s) + rem s = total /\ 0 <= pos (stt s) /\ bytes_ok (rest s).

Lemma wf_init : forall input, bytes_ok input -> wf (Z.of_nat (length input)) (init input).
Proof. intros. unfold wf, init; cbn. auto with zarith. Qed.
Lemma wf_upd : forall total f s, (forall t, pos (f t) = pos t) -> wf total s -> wf total (upd f s).
Proof. unfold wf, upd; cbn; intros total f s Hf (A & B & C & D). rewrite Hf. auto. Qed.
Lemma wf_set_big : forall total b s, wf total s -> wf total (set_big b s).
Proof. unfold wf, set_big; cbn; auto. Qed.

(* stats of sequence-level steps: only pos and coords move *)
Definition flat (t t' : stats) (c : Z) : Prop :=
  pos t <= pos t' /\ 0 <= coords t' - coords t /\ 16 * (coords t' - coords t) <= c /\
  slots t' = slots t /\ nodes t' = nodes t /\ dmax t' = dmax t /\ quad t' = quad t.
(* ... and of readPolygon: slots as well *)
Definition pflat (t t' : stats) (c : Z) : Prop :=
  pos t <= pos t' /\ 0 <= coords t' - coords t /\ 16 * (coords t' - coords t) <= c /\
  0 <= slots t' - slots t /\ 4 * (slots t' - slots t) <= c /\
  nodes t' = nodes t /\ dmax t' = dmax t /\ quad t' = quad t.
Lemma flat_refl : forall t c, 0 <= c -> flat t t c.
Proof. unfold flat; intros; lia. Qed.
Lemma flat_trans : forall t t1 t2 c1 c2, flat t t1 c1 -> flat t1 t2 c2 -> flat t t2 (c1 + c2).
Proof. unfold flat; intros; lia. Qed.
Lemma flat_weaken : forall t t' c c', flat t t' c -> c <= c' -> flat t t' c'.
Proof. unfold flat; intros; lia. Qed.
Lemma flat_pflat : forall t t' c, flat t t' c -> 0 <= c -> pflat t t' c.
Proof. unfold flat, pflat; intros; lia. Qed.

(* errors of the sequence-level functions are ordinary exceptions: never an out-of-bounds read, never undefined behaviour *)
Definition err_ok (e : error) : bool := match e with EOob | EUB => false | _ => true end.
(* errors of readGeometry: EUB only without the compound-curve guard *)
Definition gerr (c : cfg) (e : error) : Prop := e <> EOob /\ (cc_guard c = true -> e <> EUB).
Lemma err_ok_gerr : forall c e, err_ok e = true -> gerr c e.
Proof. intros c [] H; try discriminate; split; try discriminate; intros; discriminate. Qed.

(* a step specification: Ok consumes exactly what pos says and at least kmin; Err stays inside the input and is not EOob *)
Definition step_okR {A} (R : stats -> stats -> Z -> Prop) (total : Z) (s : rd) (kmin : Z) (r : res A) : Prop :=
  match r with
  | Ok _ s' => wf total s' /\ kmin <= pos (stt s') - pos (stt s) /\ R (stt s) (stt s') (pos (stt s') - pos (stt s))
  | Err e t => err_ok e = true /\ R (stt s) t (rem s) /\ pos t <= total
  | Fuel => False
  end.
Notation step_ok := (step_okR flat).
Notation step_okp := (step_okR pflat).

Lemma read_byte_ok : forall total s, wf total s -> step_ok total s 1 (read_byte s) /\
  (forall b s', read_byte s = Ok b s' -> pos (stt s') = pos (stt s) + 1 /\ is_byte b).
Proof.
  intros total s (A & B & C & D). unfold read_byte.
  destruct (Z.ltb_spec (rem s) 1) as [L|L].
  - split; [|discriminate]. unfold step_okR. split; [reflexivity|]. split; [apply flat_refl; lia|lia].
  - destruct (rest s) as [|b l] eqn:E; cbn [length] in A; [lia|].
    inversion D; subst.
    split.
    + unfold step_okR, wf, flat; proj. repeat split; auto; try lia.
    + intros b0 s' H. inversion H; subst. proj. auto.
Qed.
Lemma read_u32_ok : forall total s, wf total s -> step_ok total s 4 (read_u32 s) /\
  (forall v s', read_u32 s = Ok v s' -> pos (stt s') = pos (stt s) + 4 /\ 0 <= v /\ rem s' = rem s - 4).
Proof.
  intros total s (A & B & C & D). unfold read_u32.
  destruct (Z.ltb_spec (rem s) 4) as [L|L].
  - split; [|discriminate]. unfold step_okR. split; [reflexivity|]. split; [apply flat_refl; lia|lia].
  - destruct (rest s) as [|b0 [|b1 [|b2 [|b3 l]]]] eqn:E; cbn [length] in A; try lia.
    assert (D' := D). inversion D as [|? ? P0 D0]; subst. inversion D0 as [|? ? P1 D1]; subst.
    inversion D1 as [|? ? P2 D2]; subst. inversion D2 as [|? ? P3 D3]; subst.
    split.
    + unfold step_okR, wf, flat; proj. repeat split; auto; try lia.
    + intros v s' H. inversion H; subst. proj. split; [lia|]. split; [|lia].
      apply word_nonneg. unfold is_byte in *. repeat constructor; lia.
Qed.

(* ------------------------------------------------------------------ readCoordinateSequence *)
Lemma dim_bounds : forall hz hm, 2 <= dim_of hz hm <= 4.
Proof. intros [] []; cbn; lia. Qed.

Lemma read_seq_ok : forall total scan n hz hm s, wf total s -> 0 <= n ->
  step_ok total s (16 * n) (read_seq scan n hz hm s) /\
  (forall q s', read_seq scan n hz hm s = Ok q s' -> cn q = n /\ coords (stt s') = coords (stt s) + n /\ slots (stt s') = slots (stt s)).
Proof.
  intros total scan n hz hm s W Hn. assert (W' := W). destruct W as (A & B & C & D).
  unfold read_seq, min_mem. change (mm_mult 1) with 16.
  destruct (Z.ltb_spec (rem s) (n * 16)) as [L|L]; cbn [negb].
  { split; [|discriminate]. unfold step_okR. split; [reflexivity|]. split; [apply flat_refl; lia|lia]. }
  destruct (Z.eqb_spec n 0) as [N0|N0].
  { subst n. split.
    - unfold step_okR. split; [apply wf_upd; auto|]. unfold flat; proj. repeat split; auto; lia.
    - intros q s' H. inversion H; subst. unfold seq_empty; proj. repeat split; lia. }
  pose proof (dim_bounds hz hm) as DB. set (dm := dim_of hz hm) in *.
  cbn [rem upd rest big stt].
  destruct (Z.ltb_spec (rem s) (n * (8 * dm))) as [L2|L2].
  { split; [|discriminate]. unfold step_okR. split; [reflexivity|]. split; [|proj; lia].
    unfold flat; proj. repeat split; auto; lia. }
  assert (Hlen : 8 * dm <= Z.of_nat (length (rest s))) by nia.
  destruct (peek_f64_some (big s) (rest s)) as (fx & Efx); [lia|]. rewrite Efx.
  destruct (peek_f64_some (big s) (skipz (rest s) 8)) as (fy & Efy); [rewrite skipz_length; lia|]. rewrite Efy.
  set (l1 := skipz (rest s) ((n - 1) * (8 * dm))).
  assert (L1 : Z.of_nat (length l1) = Z.of_nat (length (rest s)) - (n - 1) * (8 * dm)).
  { unfold l1. apply skipz_length. nia. }
  destruct (peek_f64_some (big s) l1) as (lx & Elx); [nia|]. rewrite Elx.
  destruct (peek_f64_some (big s) (skipz l1 8)) as (ly & Ely); [rewrite skipz_length; nia|]. rewrite Ely.
  destruct (skipz_nonempty l1 (8 * dm - 1)) as (x & l2 & E2 & L2' & B2); [nia|]. rewrite E2.
  split.
  - unfold step_okR, wf; proj. split.
    + repeat split; try nia. apply B2. unfold l1. apply skipz_bytes; auto.
    + split; [nia|]. unfold flat; proj. repeat split; auto; try nia.
  - intros q s' H. inversion H; subst. proj. repeat split; lia.
Qed.

(* ------------------------------------------------------------------ sequencing of steps *)
Lemma wf_rem : forall total s, wf total s -> rem s = total - pos (stt s) /\ 0 <= rem s.
Proof. intros total s (A & B & C & D). lia. Qed.

Lemma step_seq : forall {A B} total s k1 k2 (r : res A) (f : A -> rd -> res B),
  wf total s -> step_ok total s k1 r ->
  (forall a s1, r = Ok a s1 -> wf total s1 -> step_ok total s1 k2 (f a s1)) ->
  step_ok total s (k1 + k2) (match r with Ok a s1 => f a s1 | Err e t => Err e t | Fuel => Fuel end).
Proof.
  intros A B total s k1 k2 r f W H1 H2. destruct r as [a s1|e t|]; cbn in H1; auto.
  destruct H1 as (W1 & K1 & F1). specialize (H2 a s1 eq_refl W1).
  destruct (wf_rem _ _ W) as (R0 & _). destruct (wf_rem _ _ W1) as (R1 & _).
  destruct (f a s1) as [b s2|e t|]; cbn in *; auto.
  - destruct H2 as (W2 & K2 & F2). split; auto. split; [lia|].
    eapply flat_weaken; [eapply flat_trans; eauto|lia].
  - destruct H2 as (NE & F2 & P2). split; auto. split; auto.
    eapply flat_weaken; [eapply flat_trans; eauto|lia].
Qed.

Lemma step_weaken : forall {A} total s k k' (r : res A), step_ok total s k r -> k' <= k -> step_ok total s k' r.
Proof. intros A total s k k' r H L. destruct r; cbn in *; auto. destruct H as (W & K & F). split; auto. split; [lia|auto]. Qed.

Lemma step_err : forall {A} total s k e, wf total s -> err_ok e = true -> @step_okR A flat total s k (Err e (stt s)).
Proof. intros A total s k e W NE. destruct (wf_rem _ _ W). cbn. split; auto. split; [apply flat_refl; lia|]. destruct W as (?&?&?&?). lia. Qed.

(* ------------------------------------------------------------------ leaves *)
Lemma read_counted_seq_ok : forall total tid hz hm s, wf total s -> step_ok total s 4 (read_counted_seq tid hz hm s).
Proof.
  intros total tid hz hm s W. unfold read_counted_seq.
  destruct (read_u32_ok total s W) as (S1 & V1).
  replace 4 with (4 + 0) by lia. apply step_seq; auto.
  intros n s1 E W1. destruct (V1 _ _ E) as (_ & Hn & _).
  destruct (negb (min_mem tid n s1)).
  - apply step_err; auto.
  - eapply step_weaken. apply (read_seq_ok total (tid =? 8) n hz hm s1 W1 Hn). lia.
Qed.

Lemma step_map : forall {A B} total s k (r : res A) (f : A -> rd -> res B),
  wf total s -> step_ok total s k r ->
  (forall a s1, r = Ok a s1 -> f a s1 = Err ECtor (stt s1) \/ exists b, f a s1 = Ok b s1) ->
  step_ok total s k (match r with Ok a s1 => f a s1 | Err e t => Err e t | Fuel => Fuel end).
Proof.
  intros A B total s k r f W H Hf. destruct r as [a s1|e t|]; cbn in H; auto.
  destruct H as (W1 & K1 & F1). destruct (wf_rem _ _ W1) as (R1 & R1'). destruct (wf_rem _ _ W) as (R0 & R0').
  destruct (Hf a s1 eq_refl) as [E|(b & E)]; rewrite E; cbn.
  - split; [reflexivity|]. split.
    + eapply flat_weaken; eauto. lia.
    + lia.
  - auto.
Qed.

Lemma read_point_ok : forall total hz hm s, wf total s -> step_ok total s 16 (read_point hz hm s).
Proof.
  intros total hz hm s W. unfold read_point.
  destruct (read_seq_ok total false 1 hz hm s W) as (S1 & _); [lia|].
  destruct (read_seq false 1 hz hm s) as [q s'|e t|]; auto.
  destruct (d_isnan (cfx q) && d_isnan (cfy q)); exact S1.
Qed.
Lemma read_line_ok : forall total hz hm s, wf total s -> step_ok total s 4 (read_line hz hm s).
Proof.
  intros total hz hm s W. unfold read_line. apply step_map; auto. apply read_counted_seq_ok; auto.
  intros q s1 _. destruct (line_ok q); eauto.
Qed.
Lemma read_circ_ok : forall total hz hm s, wf total s -> step_ok total s 4 (read_circ hz hm s).
Proof.
  intros total hz hm s W. unfold read_circ. apply step_map; auto. apply read_counted_seq_ok; auto.
  intros q s1 _. destruct (circ_ok q); eauto.
Qed.
Lemma read_ring_ok : forall total fx hz hm s, wf total s -> step_ok total s 4 (read_ring fx hz hm s).
Proof.
  intros total fx hz hm s W. unfold read_ring. apply step_map; auto. apply read_counted_seq_ok; auto.
  intros q s1 _. destruct (ring_ok _); eauto.
Qed.

(* Fuel only when the fuel does not exceed the remaining length *)
Definition step_or_fuel {A} (R : stats -> stats -> Z -> Prop) (total : Z) (s : rd) (k : Z) (fuel : nat) (r : res A) : Prop :=
  match r with Fuel => (fuel <= length (rest s))%nat | _ => step_okR R total s k r end.

(* the holes of a polygon: n rings, at least 4 bytes each *)
Lemma read_rings_ok : forall fuel total n fx hz hm s, wf total s ->
  step_or_fuel flat total s (4 * Z.max 0 n) fuel (read_rings fuel n fx hz hm s).
Proof.
  induction fuel as [|f IH]; intros total n fx hz hm s W.
  - cbn [read_rings]. destruct (Z.leb_spec n 0) as [N|N]; cbn; [|lia].
    replace (Z.max 0 n) with 0 by lia. split; auto. split; [lia|]. apply flat_refl. lia.
  - cbn [read_rings]. destruct (Z.leb_spec n 0) as [N|N].
    + replace (Z.max 0 n) with 0 by lia. cbn. split; auto. split; [lia|]. apply flat_refl. lia.
    + pose proof (read_ring_ok total fx hz hm s W) as R.
      destruct (read_ring fx hz hm s) as [q s1|e t|] eqn:E; [| |contradiction].
      2:{ cbn in *. exact R. }
      assert (R' := R). destruct R' as (W1 & K & _).
      specialize (IH total (n - 1) fx hz hm s1 W1).
      destruct (read_rings f (n - 1) fx hz hm s1) as [l s2|e t|] eqn:E2.
      * unfold step_or_fuel in *. replace (4 * Z.max 0 n) with (4 + 4 * Z.max 0 (n - 1)) by lia.
        pose proof (step_seq total s 4 (4 * Z.max 0 (n - 1)) (Ok q s1) (fun q s1 => match read_rings f (n - 1) fx hz hm s1 with Ok l s2 => Ok (q :: l) s2 | Err e t => Err e t | Fuel => Fuel end) W R) as X.
        cbn beta iota in X. rewrite E2 in X. apply X. intros a s1' Ea W1'. inversion Ea; subst. rewrite E2. exact IH.
      * unfold step_or_fuel in *.
        pose proof (step_seq total s 4 (4 * Z.max 0 (n - 1)) (Ok q s1) (fun q s1 => match read_rings f (n - 1) fx hz hm s1 with Ok l s2 => Ok (q :: l) s2 | Err e t => Err e t | Fuel => Fuel end) W R) as X.
        cbn beta iota in X. rewrite E2 in X. eapply step_weaken. apply X. intros a s1' Ea W1'. inversion Ea; subst. rewrite E2. exact IH. lia.
      * cbn in *. destruct W as (A & B & _). destruct W1 as (A1 & B1 & _). lia.
Qed.

Lemma step_ok_p : forall {A} total s k (r : res A), wf total s -> step_ok total s k r -> step_okp total s k r.
Proof.
  intros A total s k r W H. destruct (wf_rem _ _ W). destruct r as [a s'|e t|]; cbn in *; auto.
  - destruct H as (W' & K & F). split; [auto|]. split; [auto|]. apply flat_pflat; auto. unfold flat in F. lia.
  - destruct H as (NE & F & P). split; [auto|]. split; [|auto]. apply flat_pflat; auto.
Qed.

Lemma poly_check_err : forall l e, poly_check l = Some e -> err_ok e = true.
Proof. intros [|sh holes] e; cbn; [discriminate|]. destruct (_ && _); intro H; inversion H; reflexivity. Qed.

Lemma read_polygon_ok : forall fuel total fx hz hm s, wf total s ->
  step_or_fuel pflat total s 4 fuel (read_polygon fuel fx hz hm s).
Proof.
  intros fuel total fx hz hm s W. unfold read_polygon.
  destruct (read_u32_ok total s W) as (S1 & V1).
  destruct (wf_rem _ _ W) as (R0 & R0').
  destruct (read_u32 s) as [n s1|e t|] eqn:E1; [|apply (@step_ok_p geom total s 4 (Err e t)); auto|contradiction].
  destruct S1 as (W1 & K1 & F1). destruct (V1 _ _ eq_refl) as (P1 & Hn & Rm1).
  destruct (wf_rem _ _ W1) as (R1 & R1').
  unfold min_mem. change (mm_mult 3) with 4.
  destruct (Z.ltb_spec (rem s1) (n * 4)) as [L|L]; cbn [negb].
  { cbn. split; [reflexivity|]. split; [|lia]. apply flat_pflat; [|lia]. eapply flat_weaken; eauto. lia. }
  destruct (Z.eqb_spec n 0) as [N0|N0].
  { cbn. split; auto. split; [lia|]. apply flat_pflat; [auto|lia]. }
  pose proof (read_ring_ok total fx hz hm s1 W1) as S2.
  destruct (read_ring fx hz hm s1) as [sh s2|e t|]; [| |contradiction].
  2:{ destruct S2 as (NE & F2 & P2). cbn. split; auto. split; [|auto].
      apply flat_pflat; [|lia]. eapply flat_weaken; [eapply flat_trans; eauto|lia]. }
  destruct S2 as (W2 & K2 & F2). destruct (wf_rem _ _ W2) as (R2 & R2').
  set (s3 := if 1 <? n then upd (add_slots (n - 1)) s2 else s2).
  assert (W3 : wf total s3). { unfold s3. destruct (1 <? n); auto. }
  assert (E3 : rest s3 = rest s2 /\ rem s3 = rem s2 /\ big s3 = big s2 /\ pos (stt s3) = pos (stt s2) /\ coords (stt s3) = coords (stt s2)
               /\ slots (stt s3) = slots (stt s2) + (n - 1) /\ nodes (stt s3) = nodes (stt s2) /\ dmax (stt s3) = dmax (stt s2) /\ quad (stt s3) = quad (stt s2)).
  { unfold s3. destruct (Z.ltb_spec 1 n); proj; repeat split; auto; lia. }
  destruct E3 as (Er & Erm & Eb & Ep & Ec & Es & En & Ed & Eq).
  pose proof (read_rings_ok fuel total (n - 1) fx hz hm s3 W3) as S4.
  destruct (read_rings fuel (n - 1) fx hz hm s3) as [holes s4|e t|].
  3:{ cbn in *. rewrite Er in S4. destruct W as (A & _). destruct W2 as (A2 & _). lia. }
  2:{ destruct S4 as (NE & F4 & P4). cbn. split; auto. split; [|auto].
      unfold flat, pflat in *. lia. }
  destruct S4 as (W4 & K4 & F4).
  destruct (poly_check (sh :: holes)) eqn:PC.
  - destruct (wf_rem _ _ W4). cbn. split; [eapply poly_check_err; eauto|]. split; [|lia]. unfold flat, pflat in *. lia.
  - cbn. split; auto. split; [lia|]. unfold flat, pflat in *. lia.
Qed.

(* ------------------------------------------------------------------ header *)
Lemma step_ret : forall {A} (R : stats -> stats -> Z -> Prop) total s (a : A), (forall t, R t t 0) -> wf total s -> step_okR R total s 0 (Ok a s).
Proof. intros. cbn. split; auto. split; [lia|]. replace (pos (stt s) - pos (stt s)) with 0 by lia. auto. Qed.
Lemma step_ext : forall {A} (R : stats -> stats -> Z -> Prop) total s s' k (r : res A), stt s = stt s' -> rem s = rem s' -> step_okR R total s k r -> step_okR R total s' k r.
Proof. intros A R total s s' k r E1 E2 H. destruct r; cbn in *; rewrite <- ?E1, <- ?E2; auto. Qed.

Lemma read_header_ok : forall total s, wf total s -> step_ok total s 5 (read_header s).
Proof.
  intros total s W. unfold read_header.
  destruct (read_byte_ok total s W) as (S1 & _).
  replace 5 with (1 + 4) by lia. apply step_seq; auto.
  intros bo s1 E1 W1.
  set (s1' := if bo =? 1 then set_big false s1 else if bo =? 0 then set_big true s1 else s1).
  assert (X : stt s1 = stt s1' /\ rem s1 = rem s1' /\ wf total s1').
  { unfold s1'. destruct (bo =? 1); [|destruct (bo =? 0)]; (split; [reflexivity|split; [reflexivity|]]); auto using wf_set_big. }
  destruct X as (X1 & X2 & W1').
  apply (step_ext _ _ s1' s1); auto.
  destruct (read_u32_ok total s1' W1') as (S2 & _).
  replace 4 with (4 + 0) by lia. apply step_seq; auto.
  intros ty s2 E2 W2.
  destruct (negb (Z.land ty 536870912 =? 0)).
  - destruct (read_u32_ok total s2 W2) as (S3 & _).
    apply step_weaken with (k := 4 + 0); [|lia]. apply step_seq; auto.
    intros v s3 E3 W3. apply step_ret; auto. intro t. apply flat_refl. lia.
  - apply step_ret; auto. intro t. apply flat_refl. lia.
Qed.

Lemma read_byte_coords : forall s v s', read_byte s = Ok v s' -> coords (stt s') = coords (stt s).
Proof. intros s v s'. unfold read_byte. destruct (rem s <? 1); [discriminate|]. destruct (rest s); [discriminate|]. intro H; inversion H; reflexivity. Qed.
Lemma read_u32_coords : forall s v s', read_u32 s = Ok v s' -> coords (stt s') = coords (stt s).
Proof.
  intros s v s'. unfold read_u32. destruct (rem s <? 4); [discriminate|].
  destruct (rest s) as [|? [|? [|? [|? ?]]]]; try discriminate. intro H; inversion H; reflexivity.
Qed.
Lemma read_header_coords : forall s h s', read_header s = Ok h s' -> coords (stt s') = coords (stt s).
Proof.
  intros s h s'. unfold read_header.
  destruct (read_byte s) as [bo s1|?|] eqn:E1; try discriminate.
  apply read_byte_coords in E1.
  set (s1' := if bo =? 1 then set_big false s1 else if bo =? 0 then set_big true s1 else s1).
  assert (X : stt s1' = stt s1) by (unfold s1'; destruct (bo =? 1); [|destruct (bo =? 0)]; reflexivity).
  destruct (read_u32 s1') as [ty s2|?|] eqn:E2; try discriminate.
  apply read_u32_coords in E2. rewrite X in E2.
  destruct (negb _).
  - destruct (read_u32 s2) as [v s3|?|] eqn:E3; try discriminate. apply read_u32_coords in E3.
    intro H; inversion H; subst. congruence.
  - intro H; inversion H; subst. congruence.
Qed.

(* ------------------------------------------------------------------ relative accounting of readGeometry frames *)
(* t -> t' while the frames being counted sit at depth dd (and below); c = bytes consumed (Ok) or bytes that remained (Err) *)
Definition acct (t t' : stats) (c dd : Z) : Prop :=
  pos t <= pos t' /\
  0 <= coords t' - coords t /\ 16 * (coords t' - coords t) <= c /\
  0 <= slots t' - slots t /\ 4 * (slots t' - slots t) <= c * (dmax t' - dd + 1) /\
  0 <= nodes t' - nodes t /\ 5 * (nodes t' - nodes t) <= c /\
  0 <= quad t' - quad t /\ quad t' - quad t <= 2 * (nodes t' - nodes t) * (dmax t' - dd + 1) /\
  dmax t <= dmax t' /\ (dmax t' <= Z.max (dmax t) dd \/ 9 * (dmax t' - dd) <= c).

Definition geom_post (c : cfg) (total : Z) (fuel : nat) (d : Z) (s : rd) (r : res (geom * Z)) : Prop :=
  match r with
  | Ok (g, z) s' => wf total s' /\ 5 <= pos (stt s') - pos (stt s) /\ acct (stt s) (stt s') (pos (stt s') - pos (stt s)) d
                    /\ 1 <= z <= nodes (stt s') - nodes (stt s) /\ d <= dmax (stt s')
  | Err e t => gerr c e /\ acct (stt s) t (rem s) d /\ pos t <= total /\ d <= dmax t
  | Fuel => (fuel <= length (rest s))%nat
  end.
Definition children_post (c : cfg) (total : Z) (fuel : nat) (d n : Z) (s : rd) (r : res (list geom * Z)) : Prop :=
  match r with
  | Ok (l, zs) s' => wf total s' /\ 5 * Z.max 0 n <= pos (stt s') - pos (stt s) /\ acct (stt s) (stt s') (pos (stt s') - pos (stt s)) (d + 1)
                     /\ 0 <= zs <= nodes (stt s') - nodes (stt s)
  | Err e t => gerr c e /\ acct (stt s) t (rem s) (d + 1) /\ pos t <= total
  | Fuel => (fuel <= S (length (rest s)))%nat
  end.

Lemma ctor_check_err : forall c k l e, ctor_check c k l = Some e -> gerr c e.
Proof.
  intros c k l e. unfold ctor_check. destruct (k =? 9).
  - unfold compound_check. destruct l as [|g t]; [discriminate|].
    destruct (curve_seq g) as [q|]; [|intro H; inversion H; apply err_ok_gerr; reflexivity].
    revert q. induction t as [|g' t IH]; intros q; cbn [compound_scan]; [discriminate|].
    destruct (curve_seq g') as [q'|]; [|intro H; inversion H; apply err_ok_gerr; reflexivity].
    destruct (_ || _).
    { destruct (cc_guard c) eqn:G; intro H; inversion H; [apply err_ok_gerr; reflexivity|].
      split; [discriminate|]. intro; congruence. }
    destruct (_ && _); [apply IH|intro H; inversion H; apply err_ok_gerr; reflexivity].
  - destruct (k =? 10); [|discriminate]. unfold surface_check. destruct l; [discriminate|].
    destruct (_ && _); intro H; inversion H; apply err_ok_gerr; reflexivity.
Qed.

Lemma mm_mult_container : forall k, is_container k = true -> 4 <= mm_mult (mm_tid k).
Proof.
  intros k H. unfold is_container, is_coll in H. unfold mm_tid.
  repeat match goal with |- context [?a =? ?b] => destruct (Z.eqb_spec a b); [subst; cbn; lia|] end.
  cbn in H. repeat match goal with H : context [?a =? ?b] |- _ => destruct (Z.eqb_spec a b); [lia|] end. discriminate.
Qed.

(* the leaf kinds and the polygon: header, node, a flat step, two setSRID visits *)
Lemma leaf_case : forall c total fuel d s se s1 (r : res geom) c0,
  wf total s -> stt se = enter d (stt s) -> rem se = rem s -> wf total s1 ->
  c0 = pos (stt s1) - pos (stt se) -> 5 <= c0 -> flat (stt se) (stt s1) c0 ->
  step_or_fuel pflat total (upd add_node s1) 4 fuel r ->
  (fuel <= length (rest s1) -> S fuel <= length (rest s))%nat ->
  geom_post c total (S fuel) d s
    (match r with Ok g s' => Ok (g, 1) (upd (add_quad 2) s') | Err e t => Err e t | Fuel => Fuel end).
Proof.
  intros c total fuel d s se s1 r c0 W Ee Er W1 Ec0 H5 F0 Hr Hfuel.
  destruct (wf_rem _ _ W) as (R0 & R0'). destruct (wf_rem _ _ W1) as (R1 & R1').
  unfold flat in F0. rewrite Ee in *. proj.
  destruct r as [g s2|e t|]; cbn in Hr.
  - destruct Hr as (W2 & K2 & F2). unfold pflat in F2. proj. cbn. proj.
    split. { apply wf_upd; auto. }
    split; [lia|]. split; [|split; lia].
    unfold acct; proj. repeat split; try lia; try nia.
  - destruct Hr as (NE & F2 & P2). unfold pflat in F2. proj. cbn.
    split; [apply err_ok_gerr; auto|]. split; [|split; lia].
    unfold acct; proj. repeat split; try lia; try nia.
  - cbn. proj. auto.
Qed.

Lemma acct_trans : forall t t1 t2 c1 c2 dd, acct t t1 c1 dd -> acct t1 t2 c2 dd -> 0 <= c1 -> 0 <= c2 -> dd - 1 <= dmax t ->
  acct t t2 (c1 + c2) dd.
Proof.
  unfold acct. intros t t1 t2 c1 c2 dd (A1 & A2 & A3 & A4 & A5 & A6 & A7 & A8 & A9 & A10 & A11)
    (B1 & B2 & B3 & B4 & B5 & B6 & B7 & B8 & B9 & B10 & B11) C1 C2 D.
  repeat split; try lia.
  - assert (c1 * (dmax t1 - dd + 1) <= c1 * (dmax t2 - dd + 1)) by (apply Z.mul_le_mono_nonneg_l; lia). nia.
  - assert (2 * (nodes t1 - nodes t) * (dmax t1 - dd + 1) <= 2 * (nodes t1 - nodes t) * (dmax t2 - dd + 1)) by (apply Z.mul_le_mono_nonneg_l; lia). nia.
Qed.
Lemma acct_weaken : forall t t' c c' dd, acct t t' c dd -> c <= c' -> dd - 1 <= dmax t' -> acct t t' c' dd.
Proof.
  unfold acct. intros t t' c c' dd (A1 & A2 & A3 & A4 & A5 & A6 & A7 & A8 & A9 & A10 & A11) L D.
  repeat split; try lia. assert (c * (dmax t' - dd + 1) <= c' * (dmax t' - dd + 1)) by (apply Z.mul_le_mono_nonneg_r; lia). lia.
Qed.
Lemma acct_refl : forall t c dd, 0 <= c -> dd - 1 <= dmax t -> acct t t c dd.
Proof. unfold acct. intros. repeat split; try lia; try nia. Qed.

(* a container frame at depth d: header + count + node (t0 -> t2, c02 bytes), children at depth d+1 (t2 -> t3, then after
   the vector of k slots t4 -> t5), q setSRID visits at the end *)
Lemma container_ok : forall t0 t2 t3 t5 d c02 c1 c2 k q,
  pos t2 = pos t0 + c02 -> 9 <= c02 -> coords t2 = coords t0 -> slots t2 = slots t0 -> nodes t2 = nodes t0 + 1 ->
  dmax t2 = Z.max (dmax t0) d -> quad t2 = quad t0 ->
  acct t2 t3 c1 (d + 1) -> 0 <= c1 -> 0 <= k -> 4 * k <= c2 ->
  acct (add_slots k t3) t5 c2 (d + 1) -> 0 <= c2 ->
  0 <= q <= 2 * (1 + (nodes t3 - nodes t2) + (nodes t5 - nodes t3)) ->
  acct t0 (add_quad q t5) (c02 + c1 + c2) d.
Proof.
  unfold acct. intros t0 t2 t3 t5 d c02 c1 c2 k q P2 C02 Co2 S2 N2 D2 Q2
    (A1 & A2 & A3 & A4 & A5 & A6 & A7 & A8 & A9 & A10 & A11) C1 K0 K4
    (B1 & B2 & B3 & B4 & B5 & B6 & B7 & B8 & B9 & B10 & B11) C2 Hq.
  proj.
  assert (H0 : 0 <= dmax t3 - d) by lia.
  assert (H1 : dmax t3 - d <= dmax t5 - d) by lia.
  assert (M1 : c1 * (dmax t3 - (d + 1) + 1) <= c1 * (dmax t5 - d)) by (apply Z.mul_le_mono_nonneg_l; lia).
  assert (M2 : 2 * (nodes t3 - nodes t2) * (dmax t3 - (d + 1) + 1) <= 2 * (nodes t3 - nodes t2) * (dmax t5 - d)) by (apply Z.mul_le_mono_nonneg_l; lia).
  replace (dmax t5 - (d + 1) + 1) with (dmax t5 - d) in * by lia.
  repeat split; try lia; nia.
Qed.

(* the same frame when a child (or the check after the loop) fails: R2 bytes remained after the count *)
Lemma container_err : forall t0 t2 t3 t d c02 c1 k R2,
  pos t2 = pos t0 + c02 -> 9 <= c02 -> coords t2 = coords t0 -> slots t2 = slots t0 -> nodes t2 = nodes t0 + 1 ->
  dmax t2 = Z.max (dmax t0) d -> quad t2 = quad t0 ->
  acct t2 t3 c1 (d + 1) -> 0 <= c1 -> c1 <= R2 -> 0 <= k -> 4 * k <= R2 ->
  acct (add_slots k t3) t (R2 - c1) (d + 1) ->
  acct t0 t (c02 + R2) d.
Proof.
  unfold acct. intros t0 t2 t3 t d c02 c1 k R2 P2 C02 Co2 S2 N2 D2 Q2
    (A1 & A2 & A3 & A4 & A5 & A6 & A7 & A8 & A9 & A10 & A11) C1 C1R K0 K4
    (B1 & B2 & B3 & B4 & B5 & B6 & B7 & B8 & B9 & B10 & B11).
  proj.
  assert (H0 : 0 <= dmax t3 - d) by lia.
  assert (M1 : c1 * (dmax t3 - (d + 1) + 1) <= c1 * (dmax t - d)) by (apply Z.mul_le_mono_nonneg_l; lia).
  assert (M2 : 2 * (nodes t3 - nodes t2) * (dmax t3 - (d + 1) + 1) <= 2 * (nodes t3 - nodes t2) * (dmax t - d)) by (apply Z.mul_le_mono_nonneg_l; lia).
  replace (dmax t - (d + 1) + 1) with (dmax t - d) in * by lia.
  repeat split; try lia; nia.
Qed.

Lemma main_spec : forall c fuel total,
  (forall d s, wf total s -> geom_post c total fuel d s (read_geom c fuel d s)) /\
  (forall d k n s, wf total s -> d <= dmax (stt s) -> children_post c total fuel d n s (read_children c fuel d k n s)).
Proof.
  intros c fuel. induction fuel as [|f IH]; intros total.
  { split.
    - intros d s W. cbn. lia.
    - intros d k n s W Hd. cbn [read_children]. destruct (Z.leb_spec n 0); cbn; [|lia].
      replace (Z.max 0 n) with 0 by lia. split; auto. split; [lia|]. split; [|lia].
      unfold acct. repeat split; try lia. }
  destruct (IH total) as (IHg & IHc). split.
  - (* readGeometry *)
    intros d s W. cbn [read_geom].
    destruct (wf_rem _ _ W) as (R0 & R0').
    set (se := upd (enter d) s).
    assert (We : wf total se) by (apply wf_upd; auto).
    assert (Ee : stt se = enter d (stt s)) by reflexivity.
    assert (Ere : rem se = rem s) by reflexivity.
    destruct (too_deep c d).
    { cbn. split; [apply err_ok_gerr; reflexivity|]. split; [|proj; split; lia].
      unfold acct; proj. repeat split; try lia; try nia. }
    pose proof (read_header_ok total se We) as SH.
    destruct (read_header se) as [h s1|e t|] eqn:EH; [| |contradiction].
    2:{ destruct SH as (NE & F & P). unfold flat in F. rewrite Ee in F. proj. cbn. split; [apply err_ok_gerr; auto|]. split; [|split; lia].
        unfold acct. repeat split; try lia; try nia. }
    destruct SH as (W1 & K1 & F1).
    assert (W1n : wf total (upd add_node s1)) by (apply wf_upd; auto).
    assert (Hfu : forall s2, (length (rest s2) <= length (rest s1) -> f <= length (rest s2) -> S f <= length (rest s))%nat).
    { intros s2 L1 L2. destruct W as (A & B & _). destruct W1 as (A1 & B1 & _).
      change (pos (stt se)) with (pos (stt s)) in K1. lia. }
    assert (LEAF : forall r, step_ok total (upd add_node s1) 4 r ->
              geom_post c total (S f) d s (match r with Ok g s' => Ok (g, 1) (upd (add_quad 2) s') | Err e t => Err e t | Fuel => Fuel end)).
    { intros r X. apply (leaf_case c total f d s se s1 r (pos (stt s1) - pos (stt se))); auto.
      - apply step_ok_p in X; auto. destruct r; cbn in *; auto. contradiction.
      - intro L. apply (Hfu s1); auto. }
    destruct (h_type h =? 1).
    { apply LEAF. eapply step_weaken; [apply read_point_ok; auto|lia]. }
    destruct (h_type h =? 2).
    { apply LEAF. apply read_line_ok; auto. }
    destruct (h_type h =? 8).
    { apply LEAF. apply read_circ_ok; auto. }
    destruct (h_type h =? 3).
    { apply (leaf_case c total f d s se s1 _ (pos (stt s1) - pos (stt se))); auto.
      - apply read_polygon_ok; auto.
      - intro L. apply (Hfu s1); auto. }
    (* containers *)
    change (pos (stt se)) with (pos (stt s)) in *.
    assert (F1' : coords (stt s1) = coords (stt s) /\ slots (stt s1) = slots (stt s) /\ nodes (stt s1) = nodes (stt s) /\
                  dmax (stt s1) = Z.max (dmax (stt s)) d /\ quad (stt s1) = quad (stt s) /\ pos (stt s) <= pos (stt s1)).
    { apply read_header_coords in EH. change (coords (stt se)) with (coords (stt s)) in EH. unfold flat in F1. rewrite Ee in F1. proj. lia. }
    destruct F1' as (Fc & Fs & Fn & Fd & Fq & Fp).
    destruct (wf_rem _ _ W1) as (R1 & R1').
    destruct (is_container (h_type h)) eqn:IC.
    2:{ unfold geom_post. proj. split; [apply err_ok_gerr; reflexivity|]. split; [|lia].
        unfold acct; proj. repeat split; try lia; try nia. }
    destruct (read_u32_ok total _ W1n) as (S2 & V2).
    destruct (read_u32 (upd add_node s1)) as [n s2|e t|] eqn:E2; [| |contradiction].
    2:{ destruct S2 as (NE & F2 & P2). unfold flat in F2. proj. unfold geom_post. split; [apply err_ok_gerr; auto|]. split; [|lia].
        unfold acct; proj. repeat split; try lia; try nia. }
    destruct S2 as (W2 & K2 & F2). destruct (V2 _ _ eq_refl) as (P2 & Hn & Rm2). proj.
    unfold flat in F2. proj. destruct (wf_rem _ _ W2) as (R2 & R2').
    pose proof (mm_mult_container _ IC) as MM.
    unfold min_mem. destruct (Z.ltb_spec (rem s2) (n * mm_mult (mm_tid (h_type h)))) as [L|L]; cbn [negb].
    { unfold geom_post. split; [apply err_ok_gerr; reflexivity|]. split; [|lia].
      unfold acct; proj. repeat split; try lia; try nia. }
    assert (N4 : 4 * n <= rem s2) by nia.
    (* the header frame: t0 = stt s, t2 = stt s2 *)
    assert (T2 : pos (stt s2) = pos (stt s) + (pos (stt s2) - pos (stt s)) /\ 9 <= pos (stt s2) - pos (stt s) /\
                 coords (stt s2) = coords (stt s) /\ slots (stt s2) = slots (stt s) /\ nodes (stt s2) = nodes (stt s) + 1 /\
                 dmax (stt s2) = Z.max (dmax (stt s)) d /\ quad (stt s2) = quad (stt s)) by lia.
    destruct T2 as (T2a & T2b & T2c & T2d & T2e & T2f & T2g).
    destruct ((h_type h =? 10) && (n =? 0)).
    { unfold geom_post. proj. split; [apply wf_upd; auto|]. split; [lia|]. split; [|lia].
      unfold acct; proj. repeat split; try lia; try nia. }
    set (pre := if (h_type h =? 10) && (1 <=? n) then 1 else 0).
    assert (Hpre : 0 <= pre <= 1 /\ pre <= n).
    { unfold pre. destruct (h_type h =? 10); cbn [andb]; [|lia]. destruct (Z.leb_spec 1 n); lia. }
    pose proof (IHc d (h_type h) pre s2 W2 ltac:(lia)) as C1.
    destruct (read_children c f d (h_type h) pre s2) as [[l1 z1] s3|e t|].
    3:{ unfold children_post, geom_post in *. destruct W as (A & B & _). destruct W2 as (A2 & B2 & _). lia. }
    2:{ unfold children_post, geom_post in *. destruct C1 as (NE & A1 & P1). split; auto. split; [|unfold acct in A1; lia].
        replace (rem s) with ((pos (stt s2) - pos (stt s)) + rem s2) by lia.
        apply (container_err (stt s) (stt s2) (stt s2) t d _ 0 0 (rem s2)); auto; try lia.
        - apply acct_refl; lia.
        - replace (rem s2 - 0) with (rem s2) by lia.
          replace (add_slots 0 (stt s2)) with (stt s2); auto. destruct (stt s2); unfold add_slots; proj; f_equal; lia. }
    unfold children_post in C1. destruct C1 as (W3 & K3 & A3 & Z3).
    destruct (wf_rem _ _ W3) as (R3 & R3').
    set (s4 := upd (add_slots (n - pre)) s3).
    assert (W4 : wf total s4) by (apply wf_upd; auto).
    assert (D3 : dmax (stt s2) <= dmax (stt s3)) by (unfold acct in A3; lia).
    pose proof (IHc d (h_type h) (n - pre) s4 W4) as C2. specialize (C2 ltac:(unfold s4; proj; lia)).
    destruct (read_children c f d (h_type h) (n - pre) s4) as [[l2 z2] s5|e t|].
    3:{ unfold children_post, geom_post in *. change (rest s4) with (rest s3) in C2.
        destruct W as (A & B & _). destruct W3 as (A3' & B3' & _). lia. }
    2:{ unfold children_post, geom_post in *. destruct C2 as (NE & A4 & P4). change (rem s4) with (rem s3) in A4. change (stt s4) with (add_slots (n - pre) (stt s3)) in A4.
        split; auto. split; [|unfold acct in A4; proj; lia].
        replace (rem s) with ((pos (stt s2) - pos (stt s)) + rem s2) by lia.
        apply (container_err (stt s) (stt s2) (stt s3) t d _ (pos (stt s3) - pos (stt s2)) (n - pre) (rem s2)); auto; try lia.
        replace (rem s2 - (pos (stt s3) - pos (stt s2))) with (rem s3) by lia. exact A4. }
    unfold children_post in C2. destruct C2 as (W5 & K5 & A5 & Z5).
    change (stt s4) with (add_slots (n - pre) (stt s3)) in *. proj.
    destruct (wf_rem _ _ W5) as (R5 & R5').
    assert (CC : forall q, 0 <= q <= 2 * (1 + (nodes (stt s3) - nodes (stt s2)) + (nodes (stt s5) - nodes (stt s3))) ->
                 acct (stt s) (add_quad q (stt s5)) (pos (stt s5) - pos (stt s)) d).
    { intros q Hq.
      replace (pos (stt s5) - pos (stt s)) with ((pos (stt s2) - pos (stt s)) + (pos (stt s3) - pos (stt s2)) + (pos (stt s5) - pos (stt s3))) by lia.
      apply (container_ok (stt s) (stt s2) (stt s3) (stt s5) d _ _ _ (n - pre) q); auto; try lia. }
    destruct (ctor_check c (h_type h) (l1 ++ l2)) eqn:CK.
    { unfold geom_post. split; [eapply ctor_check_err; eauto|]. split; [|unfold acct in A5; proj; lia].
      specialize (CC 0 ltac:(unfold acct in A3, A5; proj; lia)).
      replace (add_quad 0 (stt s5)) with (stt s5) in CC by (destruct (stt s5); unfold add_quad; proj; f_equal; lia).
      eapply acct_weaken; eauto; unfold acct in A5; proj; lia. }
    unfold geom_post. set (csz := if is_coll (h_type h) then 1 + z1 + z2 else 1).
    assert (Hc : 1 <= csz <= 1 + z1 + z2) by (unfold csz; destruct (is_coll _); lia).
    split; [apply wf_upd; auto|]. proj.
    split; [lia|]. split; [apply CC; unfold acct in A3, A5; proj; lia|].
    unfold acct in A3, A5; proj. lia.
  - (* the child loop *)
    intros d k n s W Hd. cbn [read_children].
    destruct (wf_rem _ _ W) as (R0 & R0').
    destruct (Z.leb_spec n 0) as [N|N].
    { unfold children_post. replace (Z.max 0 n) with 0 by lia. split; auto. split; [lia|]. split; [|lia].
      replace (pos (stt s) - pos (stt s)) with 0 by lia. apply acct_refl; lia. }
    pose proof (IHg (d + 1) s W) as G.
    destruct (read_geom c f (d + 1) s) as [[g z] s1|e t|].
    3:{ unfold geom_post, children_post in *. lia. }
    2:{ unfold geom_post, children_post in *. destruct G as (NE & A & P & _). auto. }
    unfold geom_post in G. destruct G as (W1 & K1 & A1 & Z1 & D1).
    destruct (wf_rem _ _ W1) as (R1 & R1').
    assert (Dm : dmax (stt s) <= dmax (stt s1)) by (unfold acct in A1; lia).
    destruct (negb (fits k g)).
    { unfold children_post. split; [apply err_ok_gerr; reflexivity|]. split; [|lia]. eapply acct_weaken; eauto; lia. }
    pose proof (IHc d k (n - 1) s1 W1) as C. specialize (C ltac:(lia)).
    destruct (read_children c f d k (n - 1) s1) as [[l zs] s2|e t|].
    + unfold children_post in *. destruct C as (W2 & K2 & A2 & Z2).
      split; auto. split; [lia|]. split; [|unfold acct in *; lia].
      replace (pos (stt s2) - pos (stt s)) with ((pos (stt s1) - pos (stt s)) + (pos (stt s2) - pos (stt s1))) by lia.
      apply acct_trans with (t1 := stt s1); auto; try lia.
    + unfold children_post in *. destruct C as (NE & A2 & P2). split; auto. split; auto.
      replace (rem s) with ((pos (stt s1) - pos (stt s)) + rem s1) by lia.
      apply acct_trans with (t1 := stt s1); auto; lia.
    + unfold children_post in *. destruct W as (A & B & _). destruct W1 as (A1' & B1' & _). lia.
Qed.
(* ------------------------------------------------------------------ the nesting limit of the candidate fix bounds the depth *)
Lemma final_ok : forall {A} (a : A) s t, final_stats (Ok a s) = Some t -> t = stt s.
Proof. intros A a s t H. inversion H. reflexivity. Qed.

Lemma dlim_spec : forall c m, max_depth c = Some m -> 0 <= m -> forall fuel total,
  (forall d s t, wf total s -> d <= m + 1 -> dmax (stt s) <= m + 1 ->
     final_stats (read_geom c fuel d s) = Some t -> dmax t <= m + 1) /\
  (forall d k n s t, wf total s -> d <= m -> dmax (stt s) <= m + 1 ->
     final_stats (read_children c fuel d k n s) = Some t -> dmax t <= m + 1).
Proof.
  intros c m Hm M0 fuel. induction fuel as [|f IH]; intros total.
  { split.
    - intros d s t W D1 D2 H. cbn in H. discriminate.
    - intros d k n s t W D1 D2 H. cbn [read_children] in H. destruct (n <=? 0); cbn in H; [|discriminate]. inversion H; subst. auto. }
  destruct (IH total) as (IHg & IHc). split.
  - intros d s t W D1 D2. cbn [read_geom].
    set (se := upd (enter d) s).
    assert (We : wf total se) by (apply wf_upd; auto).
    assert (De : dmax (stt se) <= m + 1) by (unfold se; proj; lia).
    unfold too_deep. rewrite Hm.
    destruct (Z.ltb_spec m d) as [TD|TD].
    { cbn. intro H; inversion H; subst. auto. }
    pose proof (read_header_ok total se We) as SH.
    destruct (read_header se) as [h s1|e t1|]; [| |contradiction].
    2:{ destruct SH as (_ & F & _). unfold flat in F. cbn. intro H; inversion H; subst. lia. }
    destruct SH as (W1 & _ & F1). assert (D1' : dmax (stt s1) <= m + 1) by (unfold flat in F1; lia).
    assert (W1n : wf total (upd add_node s1)) by (apply wf_upd; auto).
    assert (LEAF : forall (r : res geom) k, step_okp total (upd add_node s1) k r ->
              final_stats (match r with Ok g s' => Ok (g, 1) (upd (add_quad 2) s') | Err e t => Err e t | Fuel => Fuel end) = Some t -> dmax t <= m + 1).
    { intros r k X. destruct r as [g s2|e t2|]; cbn in X; [| |contradiction].
      - destruct X as (_ & _ & F). unfold pflat in F. proj. cbn. intro H; inversion H; subst. proj. lia.
      - destruct X as (_ & F & _). unfold pflat in F. proj. cbn. intro H; inversion H; subst. lia. }
    destruct (h_type h =? 1). { apply (LEAF _ 16). apply step_ok_p; auto. apply read_point_ok; auto. }
    destruct (h_type h =? 2). { apply (LEAF _ 4). apply step_ok_p; auto. apply read_line_ok; auto. }
    destruct (h_type h =? 8). { apply (LEAF _ 4). apply step_ok_p; auto. apply read_circ_ok; auto. }
    destruct (h_type h =? 3).
    { pose proof (read_polygon_ok f total (fix_rings c) (h_z h) (h_m h) _ W1n) as X.
      destruct (read_polygon f (fix_rings c) (h_z h) (h_m h) (upd add_node s1)) as [g s2|e t2|] eqn:EP; [| |cbn; discriminate].
      - apply (LEAF (Ok g s2) 4). exact X.
      - apply (LEAF (Err e t2) 4). exact X. }
    destruct (is_container (h_type h)); [|cbn; intro H; inversion H; subst; proj; lia].
    destruct (read_u32_ok total _ W1n) as (S2 & _).
    destruct (read_u32 (upd add_node s1)) as [n s2|e t2|]; [| |contradiction].
    2:{ destruct S2 as (_ & F & _). unfold flat in F. proj. cbn. intro H; inversion H; subst. lia. }
    destruct S2 as (W2 & _ & F2). unfold flat in F2. proj.
    destruct (negb (min_mem (mm_tid (h_type h)) n s2)). { cbn. intro H; inversion H; subst. lia. }
    destruct ((h_type h =? 10) && (n =? 0)). { cbn. intro H; inversion H; subst. proj. lia. }
    set (pre := if (h_type h =? 10) && (1 <=? n) then 1 else 0).
    pose proof (IHc d (h_type h) pre s2) as C1.
    assert (Dge : d <= dmax (stt s2)). { unfold flat in F1. change (dmax (stt se)) with (Z.max (dmax (stt s)) d) in F1. lia. }
    destruct (read_children c f d (h_type h) pre s2) as [[l1 z1] s3|e t3|] eqn:E1; [| |cbn; discriminate].
    2:{ intro H. apply (C1 t); auto; try lia. }
    assert (D3 : dmax (stt s3) <= m + 1). { apply (C1 (stt s3)); auto; try lia. }
    pose proof (proj2 (main_spec c f total) d (h_type h) pre s2 W2 Dge) as P1. rewrite E1 in P1. destruct P1 as (W3 & _).
    set (s4 := upd (add_slots (n - pre)) s3).
    assert (W4 : wf total s4) by (apply wf_upd; auto).
    pose proof (IHc d (h_type h) (n - pre) s4) as C2.
    destruct (read_children c f d (h_type h) (n - pre) s4) as [[l2 z2] s5|e t5|] eqn:E2; [| |cbn; discriminate].
    2:{ intro H. apply (C2 t); auto; try lia. }
    assert (D5 : dmax (stt s5) <= m + 1). { apply (C2 (stt s5)); auto; try lia. }
    destruct (ctor_check c (h_type h) (l1 ++ l2)); cbn; intro H; inversion H; subst; proj; lia.
  - intros d k n s t W D1 D2. cbn [read_children].
    destruct (n <=? 0). { cbn. intro H; inversion H; subst. auto. }
    pose proof (IHg (d + 1) s) as G.
    pose proof (proj1 (main_spec c f total) (d + 1) s W) as P.
    destruct (read_geom c f (d + 1) s) as [[g z] s1|e t1|] eqn:E1; [| |cbn; discriminate].
    2:{ intro H. apply (G t); auto; lia. }
    assert (D1' : dmax (stt s1) <= m + 1). { apply (G (stt s1)); auto; lia. }
    destruct P as (W1 & _).
    destruct (negb (fits k g)). { cbn. intro H; inversion H; subst. auto. }
    pose proof (IHc d k (n - 1) s1) as C.
    destruct (read_children c f d k (n - 1) s1) as [[l zs] s2|e t2|] eqn:E2; [| |cbn; discriminate].
    + cbn. intro H; inversion H; subst. apply (C (stt s2)); auto.
    + intro H. apply (C t); auto.
Qed.

(* ------------------------------------------------------------------ top level *)
Section Top.
Variable c : cfg.
Variable input : list Z.
Hypothesis BI : bytes_ok input.
Let L := Z.of_nat (length input).

Lemma top_post : geom_post c L (S (length input)) 1 (init input) (wkb_read c input).
Proof. unfold wkb_read. apply main_spec. apply wf_init. exact BI. Qed.

(* read_total / fuel_sufficient: the reader is a total function, the fuel |input|+1 is never exhausted *)
Theorem fuel_sufficient : wkb_read c input <> Fuel.
Proof.
  pose proof top_post as P. intro E. rewrite E in P. unfold geom_post, init in P. cbn [rest] in P. lia.
Qed.

(* read_in_bounds: no read outside the input, and the position never passes the end *)
Theorem read_in_bounds : (forall t, wkb_read c input <> Err EOob t) /\
  (forall t, final_stats (wkb_read c input) = Some t -> 0 <= pos t <= L).
Proof.
  pose proof top_post as P. split.
  - intros t E. rewrite E in P. destruct P as ((NE & _) & _). congruence.
  - intros t H. destruct (wkb_read c input) as [[g z] s|e t'|]; cbn in H; inversion H; subst.
    + destruct P as ((A & B & C & D) & _). fold L in B. lia.
    + destruct P as (_ & A & P & _). unfold acct, init in A. cbn in A. lia.
Qed.

(* the accounting at the end of any run *)
Theorem accounting : forall t, final_stats (wkb_read c input) = Some t ->
  16 * coords t <= L /\ 4 * slots t <= L * dmax t /\ 5 * nodes t <= L /\ quad t <= 2 * nodes t * dmax t /\
  1 <= dmax t /\ 9 * (dmax t - 1) <= L /\ 0 <= coords t /\ 0 <= slots t /\ 0 <= nodes t /\ 0 <= quad t.
Proof.
  intros t H. pose proof top_post as P.
  assert (X : exists cc, 0 <= cc <= L /\ acct stats0 t cc 1 /\ 1 <= dmax t).
  { destruct (wkb_read c input) as [[g z] s|e t'|]; cbn in H; inversion H; subst.
    - destruct P as (W & K & A & _ & D). exists (pos (stt s) - 0). destruct W as (W1 & W2 & W3 & _). fold L in W2.
      change (pos (stt (init input))) with 0 in *. change (stt (init input)) with stats0 in A.
      split; [lia|]. split; auto.
    - destruct P as (_ & A & _ & D). exists L. split; [unfold L; lia|]. split; auto. }
  destruct X as (cc & Hc & A & D). unfold acct in A. cbn [pos coords slots nodes dmax quad stats0] in A.
  destruct A as (A1 & A2 & A3 & A4 & A5 & A6 & A7 & A8 & A9 & A10 & A11).
  replace (dmax t - 1 + 1) with (dmax t) in * by lia.
  assert (cc * dmax t <= L * dmax t) by (apply Z.mul_le_mono_nonneg_r; lia).
  repeat split; try lia.
Qed.

(* with the nesting limit m of the candidate fix the depth is bounded by m + 1, hence slots and quad are linear in |input| *)
Theorem depth_limited : forall m t, max_depth c = Some m -> 0 <= m -> final_stats (wkb_read c input) = Some t ->
  dmax t <= m + 1 /\ 4 * slots t <= L * (m + 1) /\ 5 * quad t <= 2 * L * (m + 1).
Proof.
  intros m t Hm M0 H.
  assert (D : dmax t <= m + 1).
  { apply (proj1 (dlim_spec c m Hm M0 (S (length input)) L) 1 (init input) t); auto; try lia.
    apply wf_init; auto. cbn. lia. }
  destruct (accounting t H) as (A1 & A2 & A3 & A4 & A5 & A6 & A7 & A8 & A9 & A10).
  split; auto. split.
  - assert (L * dmax t <= L * (m + 1)) by (apply Z.mul_le_mono_nonneg_l; unfold L; lia). lia.
  - assert (2 * nodes t * dmax t <= 2 * nodes t * (m + 1)) by (apply Z.mul_le_mono_nonneg_l; lia). nia.
Qed.

(* ctor_guards: with the compound-curve guard no input reaches undefined behaviour *)
Theorem ctor_guards : cc_guard c = true -> forall t, wkb_read c input <> Err EUB t.
Proof.
  intros G t E. pose proof top_post as P. rewrite E in P. destruct P as ((_ & NU) & _). apply (NU G). reflexivity.
Qed.
End Top.

(* a decidable form of bytes_ok for concrete witnesses *)
Definition bytes_okb (l : list Z) : bool := forallb (fun b => (0 <=? b) && (b <? 256)) l.
Lemma bytes_okb_ok : forall l, bytes_okb l = true -> bytes_ok l.
Proof.
  unfold bytes_okb, bytes_ok. intros l H. apply Forall_forall. intros x Hx.
  rewrite forallb_forall in H. specialize (H x Hx). unfold is_byte. lia.
Qed.
