(* C11 — proofs about the WKB reader model (WKBDefs.v): stream invariant, every read inside the input, fuel sufficiency,
   and the relative accounting of coordinates / slots / nodes / depth / setSRID work that gives the bounds of Properties_C11.v *)
From Coq Require Import ZArith List Bool Lia.
From GeosV.C11 Require Import WKBDefs.
Import ListNotations.
Local Open Scope Z_scope.

Ltac proj := cbn [pos coords slots nodes dmax quad rest rem big stt adv upd set_big add_coords add_slots add_node add_quad enter
                   cn cfx cfy clx cly cz cm ctame fst snd] in *.

(* ------------------------------------------------------------------ bytes and words *)
Definition is_byte (b : Z) : Prop := 0 <= b < 256.
Definition bytes_ok (l : list Z) : Prop := Forall is_byte l.

Lemma le_word_nonneg : forall l, bytes_ok l -> 0 <= le_word l.
Proof. induction 1; cbn [le_word]; unfold is_byte in *; lia. Qed.
Lemma word_nonneg : forall b l, bytes_ok l -> 0 <= word b l.
Proof.
  intros b l H. unfold word. destruct b; apply le_word_nonneg; auto.
  unfold bytes_ok in *. apply Forall_rev. exact H.
Qed.

Lemma skipz_bytes : forall l n, bytes_ok l -> bytes_ok (skipz l n).
Proof.
  induction l as [|x l IH]; intros n H; cbn [skipz]; auto.
  destruct (n <=? 0); auto. inversion H; subst. apply IH; auto.
Qed.
Lemma skipz_length : forall l n, 0 <= n <= Z.of_nat (length l) -> Z.of_nat (length (skipz l n)) = Z.of_nat (length l) - n.
Proof.
  induction l as [|x l IH]; intros n H; cbn [skipz length] in *.
  - lia.
  - destruct (Z.leb_spec n 0).
    + cbn [length]. lia.
    + rewrite IH; lia.
Qed.
Lemma skipz_nonempty : forall l n, 0 <= n < Z.of_nat (length l) -> exists x t, skipz l n = x :: t /\ Z.of_nat (length t) = Z.of_nat (length l) - n - 1 /\ (bytes_ok l -> bytes_ok t).
Proof.
  induction l as [|x l IH]; intros n H; cbn [skipz length] in *.
  - lia.
  - destruct (Z.leb_spec n 0).
    + exists x, l. split; auto. split. lia. intro B. inversion B; auto.
    + destruct (IH (n - 1)) as (y & t & E & L & B). lia.
      exists y, t. split; auto. split. lia. intro B'. inversion B'; auto.
Qed.
Lemma peek_f64_some : forall b l, 8 <= Z.of_nat (length l) -> exists v, peek_f64 b l = Some v.
Proof.
  intros b l H. do 8 (destruct l as [|? l]; [cbn [length] in H; lia|]). eexists. reflexivity.
Qed.

(* ------------------------------------------------------------------ the stream invariant *)
Definition wf (total : Z) (s : rd) : Prop :=
  rem s = Z.of_nat (length (rest s)) /\ pos (stt s) + rem s = total /\ 0 <= pos (stt s) /\ bytes_ok (rest s).

Lemma wf_init : forall input, bytes_ok input -> wf (Z.of_nat (length input)) (init input).
Proof. intros. unfold wf, init; cbn. auto with zarith. Qed.
Lemma wf_upd : forall total f s, (forall t, pos (f t) = pos t) -> wf total s -> wf total (upd f s).
Proof. unfold wf, upd; cbn; intros total f s Hf (A & B & C & D). rewrite Hf. auto. Qed.
Lemma wf_set_big : forall total b s, wf total s -> wf total (set_big b s).
Proof. unfold wf, set_big; cbn; auto. Qed.

(* stats of leaf-level steps: only pos, coords and slots move *)
Definition flat (t t' : stats) (c : Z) : Prop :=
  pos t <= pos t' /\ 0 <= coords t' - coords t /\ 16 * (coords t' - coords t) <= c /\
  0 <= slots t' - slots t /\ 4 * (slots t' - slots t) <= c /\
  nodes t' = nodes t /\ dmax t' = dmax t /\ quad t' = quad t.
Lemma flat_refl : forall t c, 0 <= c -> flat t t c.
Proof. unfold flat; intros; lia. Qed.
Lemma flat_trans : forall t t1 t2 c1 c2, flat t t1 c1 -> flat t1 t2 c2 -> flat t t2 (c1 + c2).
Proof. unfold flat; intros; lia. Qed.
Lemma flat_weaken : forall t t' c c', flat t t' c -> c <= c' -> flat t t' c'.
Proof. unfold flat; intros; lia. Qed.

(* a step specification: Ok consumes exactly what pos says and at least kmin; Err stays inside the input and is not EOob *)
Definition step_ok {A} (total : Z) (s : rd) (kmin : Z) (r : res A) : Prop :=
  match r with
  | Ok _ s' => wf total s' /\ big s' = big s /\ kmin <= pos (stt s') - pos (stt s) /\ flat (stt s) (stt s') (pos (stt s') - pos (stt s))
  | Err e t => e <> EOob /\ flat (stt s) t (rem s) /\ pos t <= total
  | Fuel => False
  end.

Lemma read_byte_ok : forall total s, wf total s -> step_ok total s 1 (read_byte s) /\
  (forall b s', read_byte s = Ok b s' -> pos (stt s') = pos (stt s) + 1 /\ is_byte b).
Proof.
  intros total s (A & B & C & D). unfold read_byte.
  destruct (Z.ltb_spec (rem s) 1) as [L|L].
  - split; [|discriminate]. unfold step_ok. split; [discriminate|]. split; [apply flat_refl; lia|lia].
  - destruct (rest s) as [|b l] eqn:E; cbn [length] in A; [lia|].
    inversion D; subst.
    split.
    + unfold step_ok, wf, flat; proj. repeat split; auto; try lia.
    + intros b0 s' H. inversion H; subst. proj. auto.
Qed.
Lemma read_u32_ok : forall total s, wf total s -> step_ok total s 4 (read_u32 s) /\
  (forall v s', read_u32 s = Ok v s' -> pos (stt s') = pos (stt s) + 4 /\ 0 <= v /\ rem s' = rem s - 4).
Proof.
  intros total s (A & B & C & D). unfold read_u32.
  destruct (Z.ltb_spec (rem s) 4) as [L|L].
  - split; [|discriminate]. unfold step_ok. split; [discriminate|]. split; [apply flat_refl; lia|lia].
  - destruct (rest s) as [|b0 [|b1 [|b2 [|b3 l]]]] eqn:E; cbn [length] in A; try lia.
    assert (D' := D). inversion D as [|? ? P0 D0]; subst. inversion D0 as [|? ? P1 D1]; subst.
    inversion D1 as [|? ? P2 D2]; subst. inversion D2 as [|? ? P3 D3]; subst.
    split.
    + unfold step_ok, wf, flat; proj. repeat split; auto; try lia.
    + intros v s' H. inversion H; subst. proj. split; [lia|]. split; [|lia].
      apply word_nonneg. unfold is_byte in *. repeat constructor; lia.
Qed.

(* ------------------------------------------------------------------ readCoordinateSequence *)
Lemma dim_bounds : forall hz hm, 2 <= dim_of hz hm <= 4.
Proof. intros [] []; cbn; lia. Qed.

Lemma read_seq_ok : forall total scan n hz hm s, wf total s -> 0 <= n ->
  step_ok total s (16 * n) (read_seq scan n hz hm s) /\
  (forall q s', read_seq scan n hz hm s = Ok q s' -> cn q = n /\ coords (stt s') = coords (stt s) + n /\ slots (stt s') = slots (stt s)).
Proof.
  intros total scan n hz hm s W Hn. assert (W' := W). destruct W as (A & B & C & D).
  unfold read_seq, min_mem. change (mm_mult 1) with 16.
  destruct (Z.ltb_spec (rem s) (n * 16)) as [L|L]; cbn [negb].
  { split; [|discriminate]. unfold step_ok. split; [discriminate|]. split; [apply flat_refl; lia|lia]. }
  destruct (Z.eqb_spec n 0) as [N0|N0].
  { subst n. split.
    - unfold step_ok. split; [apply wf_upd; auto|]. unfold flat; proj. repeat split; auto; lia.
    - intros q s' H. inversion H; subst. unfold seq_empty; proj. repeat split; lia. }
  pose proof (dim_bounds hz hm) as DB. set (dm := dim_of hz hm) in *.
  cbn [rem upd rest big stt].
  destruct (Z.ltb_spec (rem s) (n * (8 * dm))) as [L2|L2].
  { split; [|discriminate]. unfold step_ok. split; [discriminate|]. split; [|proj; lia].
    unfold flat; proj. repeat split; auto; lia. }
  assert (Hlen : 8 * dm <= Z.of_nat (length (rest s))) by nia.
  destruct (peek_f64_some (big s) (rest s)) as (fx & Efx); [lia|]. rewrite Efx.
  destruct (peek_f64_some (big s) (skipz (rest s) 8)) as (fy & Efy); [rewrite skipz_length; lia|]. rewrite Efy.
  set (l1 := skipz (rest s) ((n - 1) * (8 * dm))).
  assert (L1 : Z.of_nat (length l1) = Z.of_nat (length (rest s)) - (n - 1) * (8 * dm)).
  { unfold l1. apply skipz_length. nia. }
  destruct (peek_f64_some (big s) l1) as (lx & Elx); [nia|]. rewrite Elx.
  destruct (peek_f64_some (big s) (skipz l1 8)) as (ly & Ely); [rewrite skipz_length; nia|]. rewrite Ely.
  destruct (skipz_nonempty l1 (8 * dm - 1)) as (x & l2 & E2 & L2' & B2); [nia|]. rewrite E2.
  split.
  - unfold step_ok, wf; proj. split.
    + repeat split; try nia. apply B2. unfold l1. apply skipz_bytes; auto.
    + split; auto. split; [nia|]. unfold flat; proj. repeat split; auto; try nia.
  - intros q s' H. inversion H; subst. proj. repeat split; lia.
Qed.

(* ------------------------------------------------------------------ sequencing of steps *)
Lemma wf_rem : forall total s, wf total s -> rem s = total - pos (stt s) /\ 0 <= rem s.
Proof. intros total s (A & B & C & D). lia. Qed.

Lemma step_seq : forall {A B} total s k1 k2 (r : res A) (f : A -> rd -> res B),
  wf total s -> step_ok total s k1 r ->
  (forall a s1, r = Ok a s1 -> wf total s1 -> step_ok total s1 k2 (f a s1)) ->
  step_ok total s (k1 + k2) (match r with Ok a s1 => f a s1 | Err e t => Err e t | Fuel => Fuel end).
Proof.
  intros A B total s k1 k2 r f W H1 H2. destruct r as [a s1|e t|]; cbn in H1; auto.
  destruct H1 as (W1 & B1 & K1 & F1). specialize (H2 a s1 eq_refl W1).
  destruct (wf_rem _ _ W) as (R0 & _). destruct (wf_rem _ _ W1) as (R1 & _).
  destruct (f a s1) as [b s2|e t|]; cbn in *; auto.
  - destruct H2 as (W2 & B2 & K2 & F2). split; auto. split; [congruence|]. split; [lia|].
    eapply flat_weaken; [eapply flat_trans; eauto|lia].
  - destruct H2 as (NE & F2 & P2). split; auto. split; auto.
    eapply flat_weaken; [eapply flat_trans; eauto|lia].
Qed.

Lemma step_weaken : forall {A} total s k k' (r : res A), step_ok total s k r -> k' <= k -> step_ok total s k' r.
Proof. intros A total s k k' r H L. destruct r; cbn in *; auto. destruct H as (W & B & K & F). repeat split; auto; lia. Qed.

Lemma step_err : forall {A} total s k e, wf total s -> e <> EOob -> @step_ok A total s k (Err e (stt s)).
Proof. intros A total s k e W NE. destruct (wf_rem _ _ W). cbn. split; auto. split; [apply flat_refl; lia|]. destruct W as (?&?&?&?). lia. Qed.

(* ------------------------------------------------------------------ leaves *)
Lemma read_counted_seq_ok : forall total tid hz hm s, wf total s -> step_ok total s 4 (read_counted_seq tid hz hm s).
Proof.
  intros total tid hz hm s W. unfold read_counted_seq.
  destruct (read_u32_ok total s W) as (S1 & V1).
  replace 4 with (4 + 0) by lia. apply step_seq; auto.
  intros n s1 E W1. destruct (V1 _ _ E) as (_ & Hn & _).
  destruct (negb (min_mem tid n s1)).
  - apply step_err; auto. discriminate.
  - eapply step_weaken. apply (read_seq_ok total (tid =? 8) n hz hm s1 W1 Hn). lia.
Qed.

Lemma step_map : forall {A B} total s k (r : res A) (f : A -> rd -> res B),
  step_ok total s k r ->
  (forall a s1, r = Ok a s1 -> f a s1 = Err ECtor (stt s1) \/ exists b, f a s1 = Ok b s1) ->
  step_ok total s k (match r with Ok a s1 => f a s1 | Err e t => Err e t | Fuel => Fuel end).
Proof.
  intros A B total s k r f H Hf. destruct r as [a s1|e t|]; cbn in H; auto.
  destruct H as (W1 & B1 & K1 & F1). destruct (wf_rem _ _ W1) as (R1 & R1').
  destruct (Hf a s1 eq_refl) as [E|(b & E)]; rewrite E; cbn.
  - split; [discriminate|]. split.
    + eapply flat_weaken; eauto. destruct W1 as (?&?&?&?). unfold flat in F1. lia.
    + destruct W1 as (?&?&?&?). lia.
  - auto.
Qed.
