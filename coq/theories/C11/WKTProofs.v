(* C11 — proofs about the WKT reader model (WKTDefs.v): the tokenizer consumes a prefix of the input, every token but the
   end-of-input one consumes at least one character, the reader is total on fuel 4|input|+8, and the relative accounting of
   tokens / coordinates / elements / nodes / depth / setSRID work. *)
From Coq Require Import ZArith NArith List Bool Ascii String Lia.
From GeosV.C11 Require Import WKBDefs WKBProofs WKTDefs.
Import ListNotations.
Local Open Scope Z_scope.

Ltac wproj := cbn [wpos wtoks wcoords welems wnodes wdmax wquad wrest wst wupd w_tok w_coord w_elem w_node w_enter fst snd] in *.

(* ------------------------------------------------------------------ tokenizer *)
Lemma skip_ws_len : forall l k l1 k1, skip_ws l k = (l1, k1) ->
  Z.of_nat (List.length l1) + (k1 - k) = Z.of_nat (List.length l) /\ k <= k1.
Proof.
  induction l as [|c t IH]; intros k l1 k1 H; cbn [skip_ws] in H.
  - inversion H; subst. cbn. lia.
  - destruct (is_ws c).
    + apply IH in H. cbn [List.length]. lia.
    + inversion H; subst. lia.
Qed.
Lemma skip_ws_head : forall l k c l1 k1, skip_ws l k = (c :: l1, k1) -> is_ws c = false.
Proof.
  induction l as [|x t IH]; intros k c l1 k1 H; cbn [skip_ws] in H; [discriminate|].
  destruct (is_ws x) eqn:E; [eapply IH; eauto|]. inversion H; subst. auto.
Qed.
Lemma take_tok_len : forall l k w r k1, take_tok l k = (w, r, k1) ->
  Z.of_nat (List.length r) + (k1 - k) = Z.of_nat (List.length l) /\ k <= k1 /\
  (forall c t, l = c :: t -> is_delim c = false -> k + 1 <= k1).
Proof.
  induction l as [|c t IH]; intros k w r k1 H; cbn [take_tok] in H.
  - inversion H; subst. cbn. split; [lia|]. split; [lia|]. intros; discriminate.
  - destruct (is_delim c) eqn:D.
    + inversion H; subst. split; [lia|]. split; [lia|]. intros c0 t0 E. inversion E; subst. congruence.
    + destruct (take_tok t (k + 1)) as [[a r'] k'] eqn:E. inversion H; subst.
      destruct (IH _ _ _ _ E) as (A & B & _). cbn [List.length]. split; [lia|]. split; [lia|]. intros; lia.
Qed.
Lemma next_token_len : forall l t r k, next_token l = (t, r, k) ->
  Z.of_nat (List.length r) + k = Z.of_nat (List.length l) /\ 0 <= k /\ (t <> TEof -> 1 <= k).
Proof.
  intros l t r k. unfold next_token. destruct (skip_ws l 0) as [l1 k0] eqn:S.
  pose proof S as S'. apply skip_ws_len in S. destruct l1 as [|c l1'].
  - intro H; inversion H; subst. cbn [List.length] in *. split; [lia|]. split; [lia|]. intro X; congruence.
  - cbn [List.length] in S. apply skip_ws_head in S'.
    destruct (Ascii.eqb c "(") eqn:E1. { intro H; inversion H; subst. repeat split; lia. }
    destruct (Ascii.eqb c ")") eqn:E2. { intro H; inversion H; subst. repeat split; lia. }
    destruct (Ascii.eqb c ",") eqn:E3. { intro H; inversion H; subst. repeat split; lia. }
    destruct (take_tok (c :: l1') k0) as [[w r'] k'] eqn:T. intro H; inversion H; subst.
    destruct (take_tok_len _ _ _ _ _ T) as (A & B & C). cbn [List.length] in A.
    split; [lia|]. split; [lia|]. intros _.
    assert (D : is_delim c = false) by (unfold is_delim; rewrite S', E1, E2, E3; reflexivity).
    specialize (C c l1' eq_refl D). lia.
Qed.

(* ------------------------------------------------------------------ state invariant and token-level steps *)
Definition wwf (total : Z) (s : ws) : Prop :=
  wpos (wst s) + Z.of_nat (List.length (wrest s)) = total /\ 0 <= wpos (wst s).

(* steps that only read tokens and coordinates *)
Definition wflat (t t' : wstats) : Prop :=
  wpos t <= wpos t' /\ 0 <= wcoords t' - wcoords t /\ 2 * (wcoords t' - wcoords t) <= wtoks t' - wtoks t /\
  welems t' = welems t /\ wnodes t' = wnodes t /\ wquad t' = wquad t /\ wdmax t' = wdmax t.
(* ... or also make elements and leaf nodes (one setSRID visit each) *)
Definition wflatn (t t' : wstats) : Prop :=
  wpos t <= wpos t' /\ 0 <= wcoords t' - wcoords t /\ 2 * (wcoords t' - wcoords t) <= wtoks t' - wtoks t /\
  0 <= welems t' - welems t /\ welems t' - welems t <= wtoks t' - wtoks t /\
  0 <= wnodes t' - wnodes t /\ wnodes t' - wnodes t <= wtoks t' - wtoks t /\
  wquad t' - wquad t = wnodes t' - wnodes t /\ wdmax t' = wdmax t.
Lemma wflat_refl : forall t, wflat t t.
Proof. unfold wflat; intros; lia. Qed.
Lemma wflat_trans : forall t t1 t2, wflat t t1 -> wflat t1 t2 -> wflat t t2.
Proof. unfold wflat; intros; lia. Qed.
Lemma wflatn_refl : forall t, wflatn t t.
Proof. unfold wflatn; intros; lia. Qed.
Lemma wflatn_trans : forall t t1 t2, wflatn t t1 -> wflatn t1 t2 -> wflatn t t2.
Proof. unfold wflatn; intros; lia. Qed.
Lemma wflat_wflatn : forall t t', wflat t t' -> wflatn t t'.
Proof. unfold wflat, wflatn; intros; lia. Qed.

Definition wstepR {A} (R : wstats -> wstats -> Prop) (total : Z) (s : ws) (kmin : Z) (r : wres A) : Prop :=
  match r with
  | WOk _ s' => wwf total s' /\ kmin <= wtoks (wst s') - wtoks (wst s) /\
                wtoks (wst s') - wtoks (wst s) <= wpos (wst s') - wpos (wst s) /\ R (wst s) (wst s')
  | WErr e t => err_ok e = true /\ wtoks t - wtoks (wst s) <= wpos t - wpos (wst s) + 1 /\ wpos t <= total /\ R (wst s) t
  | WFuel => False
  end.
Notation wstep := (wstepR wflat).
Notation wstepn := (wstepR wflatn).

Section StepAlgebra.
Variable R : wstats -> wstats -> Prop.
Hypothesis Rrefl : forall t, R t t.
Hypothesis Rtrans : forall t t1 t2, R t t1 -> R t1 t2 -> R t t2.
Lemma wstep_seq : forall {A B} total s k1 k2 (r : wres A) (f : A -> ws -> wres B),
  wstepR R total s k1 r ->
  (forall a s1, r = WOk a s1 -> wwf total s1 -> wstepR R total s1 k2 (f a s1)) ->
  wstepR R total s (k1 + k2) (match r with WOk a s1 => f a s1 | WErr e t => WErr e t | WFuel => WFuel end).
Proof.
  intros A B total s k1 k2 r f H1 H2. destruct r as [a s1|e t|]; cbn in H1; auto.
  destruct H1 as (W1 & K1 & P1 & F1). specialize (H2 a s1 eq_refl W1).
  destruct (f a s1) as [b s2|e t|]; cbn in *; auto.
  - destruct H2 as (W2 & K2 & P2 & F2). split; auto. split; [lia|]. split; [lia|]. eapply Rtrans; eauto.
  - destruct H2 as (NE & P2 & T2 & F2). split; auto. split; [lia|]. split; auto. eapply Rtrans; eauto.
Qed.
Lemma wstep_weaken : forall {A} total s k k' (r : wres A), wstepR R total s k r -> k' <= k -> wstepR R total s k' r.
Proof. intros A total s k k' r H L. destruct r; cbn in *; auto. destruct H as (W & K & P & F). split; auto. split; [lia|]. auto. Qed.
Lemma wstep_ret : forall {A} total s (a : A), wwf total s -> wstepR R total s 0 (WOk a s).
Proof. intros. cbn. split; auto. split; [lia|]. split; [lia|]. apply Rrefl. Qed.
Lemma wstep_err : forall {A} total s e, wwf total s -> err_ok e = true -> @wstepR A R total s 0 (WErr e (wst s)).
Proof. intros A total s e (W1 & W2) NE. cbn. split; auto. split; [lia|]. split; [lia|]. apply Rrefl. Qed.
Lemma wstep_map : forall {A B} total s k (r : wres A) (f : A -> ws -> wres B),
  wstepR R total s k r ->
  (forall a s1, r = WOk a s1 -> wwf total s1 -> wstepR R total s1 0 (f a s1)) ->
  wstepR R total s k (match r with WOk a s1 => f a s1 | WErr e t => WErr e t | WFuel => WFuel end).
Proof. intros. replace k with (k + 0) by lia. apply wstep_seq; auto. Qed.
End StepAlgebra.
Definition sseq {A B} := @wstep_seq wflat wflat_trans A B.
Definition sweaken {A} := @wstep_weaken wflat A.
Definition sret {A} := @wstep_ret wflat wflat_refl A.
Definition serr {A} := @wstep_err wflat wflat_refl A.
Definition smap {A B} := @wstep_map wflat wflat_trans A B.
Definition nseq {A B} := @wstep_seq wflatn wflatn_trans A B.
Definition nweaken {A} := @wstep_weaken wflatn A.
Definition nret {A} := @wstep_ret wflatn wflatn_refl A.
Definition nerr {A} := @wstep_err wflatn wflatn_refl A.
Definition nmap {A B} := @wstep_map wflatn wflatn_trans A B.
Lemma wstep_n : forall {A} total s k (r : wres A), wstep total s k r -> wstepn total s k r.
Proof.
  intros A total s k r H. destruct r; cbn in *; auto.
  - destruct H as (W & K & P & F). split; [auto|]. split; [auto|]. split; [auto|]. apply wflat_wflatn; auto.
  - destruct H as (NE & P & T & F). split; [auto|]. split; [auto|]. split; [auto|]. apply wflat_wflatn; auto.
Qed.

Lemma next_spec : forall total s t s', wwf total s -> next s = (t, s') ->
  wwf total s' /\ exists k, wst s' = w_tok k (wst s) /\ 0 <= k /\ (t <> TEof -> 1 <= k) /\
  Z.of_nat (List.length (wrest s')) + k = Z.of_nat (List.length (wrest s)).
Proof.
  intros total s t s' (W1 & W2). unfold next. destruct (next_token (wrest s)) as [[t0 r] k] eqn:E.
  intro H; inversion H; subst. apply next_token_len in E. destruct E as (A & B & C).
  split.
  - unfold wwf; wproj. lia.
  - exists k. wproj. auto.
Qed.

Lemma next_number_ok : forall total s, wwf total s -> wstep total s 1 (next_number s).
Proof.
  intros total s W. unfold next_number. destruct (next s) as [t s'] eqn:E.
  destruct (next_spec _ _ _ _ W E) as (W' & k & Es & K0 & K1 & L). destruct W as (W1 & W2). destruct W' as (W1' & W2').
  destruct t; cbn; rewrite Es; wproj; unfold wflat; wproj;
    try (split; [reflexivity|]; split; [lia|]; split; [lia|]; lia).
  assert (1 <= k) by (apply K1; discriminate). split; [unfold wwf; rewrite Es; wproj; lia|]. split; [lia|]. split; lia.
Qed.
Lemma next_word_ok : forall total s, wwf total s -> wstep total s 1 (next_word s).
Proof.
  intros total s W. unfold next_word. destruct (next s) as [t s'] eqn:E.
  destruct (next_spec _ _ _ _ W E) as (W' & k & Es & K0 & K1 & L). destruct W as (W1 & W2). destruct W' as (W1' & W2').
  destruct t; cbn; rewrite Es; wproj; unfold wflat; wproj;
    try (split; [reflexivity|]; split; [lia|]; split; [lia|]; lia);
    (assert (1 <= k) by (apply K1; discriminate); split; [unfold wwf; rewrite Es; wproj; lia|]; split; [lia|]; split; lia).
Qed.
Lemma closer_or_comma_ok : forall total s, wwf total s -> wstep total s 1 (closer_or_comma s).
Proof.
  intros total s W. unfold closer_or_comma. apply smap. apply next_word_ok; auto.
  intros t s1 _ W1. destruct t; try (apply serr; auto); apply sret; auto.
Qed.

Ltac wauto :=
  repeat match goal with
  | |- wstep _ _ _ (WOk _ _) => apply sret; auto
  | |- wstep _ _ _ (WErr _ (wst _)) => apply serr; auto
  | |- wstep _ _ _ (if ?c then _ else _) => destruct c
  | |- wstep _ ?s 0 ?r =>
      lazymatch r with
      | context [next_word s] =>
        apply smap; [eapply sweaken; [apply next_word_ok; auto|lia] | let t := fresh "t" in let s1 := fresh "s" in let W := fresh "W" in intros t s1 _ W; cbv beta]
      | context [next_number s] =>
        apply smap; [eapply sweaken; [apply next_number_ok; auto|lia] | let t := fresh "t" in let s1 := fresh "s" in let W := fresh "W" in intros t s1 _ W; cbv beta]
      end
  end.

Lemma empty_or_opener_ok : forall total fl s, wwf total s -> wstep total s 1 (empty_or_opener fl s).
Proof.
  intros total fl s W. unfold empty_or_opener. cbv zeta.
  apply smap; [apply next_word_ok; auto|]. intros t s1 _ W1. cbv beta.
  wauto.
Qed.

(* one token taken by hand: the new state, its stats and the consumption facts *)
Ltac take_tok_from W E :=
  let W' := fresh "W" in let k := fresh "k" in let Es := fresh "Es" in let K0 := fresh "K0" in let K1 := fresh "K1" in let Ln := fresh "Ln" in
  destruct (next_spec _ _ _ _ W E) as (W' & k & Es & K0 & K1 & Ln).
Ltac wsolve :=
  unfold wstep, wflat, wwf in *; wproj;
  repeat match goal with H : wst ?s = _ |- _ => rewrite H in *; clear H end; wproj;
  repeat match goal with H : ?t <> TEof -> 1 <= ?k |- _ => first [ assert (1 <= k) by (apply H; discriminate); clear H | clear H ] end;
  repeat split; try reflexivity; try lia.

Lemma read_coord_ok : forall numval total fl s, wwf total s -> wstep total s 2 (read_coord numval fl s).
Proof.
  intros numval total fl s W. unfold read_coord, next_number.
  destruct (next s) as [t1 s1] eqn:E1. take_tok_from W E1.
  destruct t1; try solve [wsolve].
  destruct (next s1) as [t2 s2] eqn:E2. take_tok_from W0 E2.
  destruct t2; try solve [wsolve].
  cbv zeta.
  set (fl1 := if fchg fl && is_num_tok (peek s2) then _ else fl).
  destruct (fz fl1).
  - destruct (next s2) as [t3 s3] eqn:E3. take_tok_from W1 E3.
    destruct t3; try solve [wsolve].
    match goal with |- context [if fm ?f then _ else _] => destruct (fm f) end.
    + destruct (next s3) as [t4 s4] eqn:E4. take_tok_from W2 E4.
      destruct t4; try solve [wsolve].
    + wsolve.
  - match goal with |- context [if fm ?f then _ else _] => destruct (fm f) end.
    + destruct (next s2) as [t4 s4] eqn:E4. take_tok_from W1 E4.
      destruct t4; try solve [wsolve].
    + wsolve.
Qed.

Lemma wstep_shrinks : forall {A} total s k (a : A) s', wwf total s -> wstep total s k (WOk a s') -> 1 <= k ->
  (List.length (wrest s') < List.length (wrest s))%nat.
Proof. intros A total s k a s' (W1 & W2) ((W1' & W2') & K & P & F) K1. lia. Qed.
Lemma wstep_noninc : forall {A} total s k (a : A) s', wwf total s -> wstep total s k (WOk a s') ->
  (List.length (wrest s') <= List.length (wrest s))%nat.
Proof. intros A total s k a s' (W1 & W2) ((W1' & W2') & K & P & F). unfold wflat in F. lia. Qed.

Section Loops.
Variable numval : list ascii -> Z.

Lemma coords_tail_ok : forall fuel total fl q s, wwf total s -> (List.length (wrest s) <= fuel)%nat ->
  wstep total s 1 (coords_tail numval fuel fl q s).
Proof.
  induction fuel as [|f IH]; intros total fl q s W Hf.
  - cbn [coords_tail]. pose proof (closer_or_comma_ok total s W) as C.
    destruct (closer_or_comma s) as [comma s1|e t|] eqn:E; auto.
    apply (wstep_shrinks total s 1 comma s1 W) in C as L; [|lia]. lia.
  - cbn [coords_tail]. pose proof (closer_or_comma_ok total s W) as C.
    apply smap; auto. intros comma s1 E W1. cbv beta. rewrite E in C.
    apply (wstep_shrinks total s 1 comma s1 W) in C as L; [|lia].
    destruct comma; [|apply sret; auto].
    pose proof (read_coord_ok numval total fl s1 W1) as R.
    apply sweaken with (k := 2 + 0); [|lia]. apply sseq; auto.
    intros cf s2 E2 W2. rewrite E2 in R. apply (wstep_noninc total s1 2 cf s2 W1) in R as L2.
    eapply sweaken; [apply IH; auto; lia|lia].
Qed.

Lemma get_coordinates_ok : forall fuel total fl s, wwf total s -> (List.length (wrest s) <= fuel)%nat ->
  wstep total s 1 (get_coordinates numval fuel fl s).
Proof.
  intros fuel total fl s W Hf. unfold get_coordinates.
  pose proof (empty_or_opener_ok total fl s W) as C.
  apply smap; auto. intros ef s1 E W1. cbv beta. rewrite E in C.
  apply (wstep_noninc total s 1 ef s1 W) in C as L.
  destruct (fst ef); [apply sret; auto|].
  pose proof (read_coord_ok numval total (snd ef) s1 W1) as R.
  apply sweaken with (k := 2 + 0); [|lia]. apply sseq; auto.
  intros cf s2 E2 W2. rewrite E2 in R. apply (wstep_noninc total s1 2 cf s2 W1) in R as L2.
  eapply sweaken; [apply coords_tail_ok; auto; lia|lia].
Qed.
End Loops.

Section Loops2.
Variable numval : list ascii -> Z.

(* a token step that consumed at least one token may be followed by the bookkeeping of one element / leaf node *)
Lemma wstep_bump : forall {A B} total s k (r : wres A) (f : A -> ws -> wres B), wstep total s k r -> 1 <= k ->
  (forall a s1, (exists b, f a s1 = WOk b (wupd (w_node 1) (wupd w_elem s1))) \/ (exists b, f a s1 = WOk b (wupd (w_node 1) s1)) \/
                (exists e, err_ok e = true /\ f a s1 = WErr e (wst s1))) ->
  wstepn total s k (match r with WOk a s1 => f a s1 | WErr e t => WErr e t | WFuel => WFuel end).
Proof.
  intros A B total s k r f H K Hf. destruct r as [a s1|e t|]; cbn in H; auto.
  - destruct H as ((W1 & W2) & K1 & P1 & F1). unfold wflat in F1.
    destruct (Hf a s1) as [(b & E)|[(b & E)|(e & NE & E)]]; rewrite E; cbn; unfold wwf, wflatn; wproj; repeat split; auto; lia.
  - destruct H as (NE & P & T & F). cbn. split; [auto|]. split; [auto|]. split; [auto|]. apply wflat_wflatn; auto.
Qed.

Lemma read_point_coord_ok : forall total fl s, wwf total s -> wstepn total s 2 (read_point_coord numval fl s).
Proof.
  intros. unfold read_point_coord. apply wstep_bump; [apply read_coord_ok; auto|lia|].
  intros a s1. left. eauto.
Qed.

Lemma mp_tail_ok : forall fuel total sm fl s, wwf total s -> (List.length (wrest s) <= fuel)%nat ->
  wstepn total s 1 (mp_tail numval fuel sm fl s).
Proof.
  induction fuel as [|f IH]; intros total sm fl s W Hf.
  - cbn [mp_tail]. pose proof (closer_or_comma_ok total s W) as C.
    destruct (closer_or_comma s) as [comma s1|e t|] eqn:E; [| |contradiction].
    + apply (wstep_shrinks total s 1 comma s1 W) in C as L; [|lia]. lia.
    + apply wstep_n in C. exact C.
  - cbn [mp_tail]. pose proof (closer_or_comma_ok total s W) as C.
    apply nmap; [apply wstep_n; auto|]. intros comma s1 E W1. cbv beta. rewrite E in C.
    apply (wstep_shrinks total s 1 comma s1 W) in C as L; [|lia].
    destruct comma; [|apply nret; auto].
    pose proof (read_point_coord_ok total fl s1 W1) as R.
    apply nweaken with (k := 2 + 0); [|lia]. apply nseq; auto.
    intros cf s2 E2 W2. rewrite E2 in R.
    assert (L2 : (List.length (wrest s2) <= List.length (wrest s1))%nat).
    { destruct W1 as (A1 & _). destruct R as ((A2 & _) & _ & _ & F). unfold wflatn in F. lia. }
    apply nmap. { eapply nweaken; [apply IH; auto; lia|lia]. }
    intros lf s3 _ W3. apply nret; auto.
Qed.

Lemma leaf_text_ok : forall fx fuel total k fl s, wwf total s -> (List.length (wrest s) <= fuel)%nat ->
  wstepn total s 1 (leaf_text numval fx fuel k fl s).
Proof.
  intros fx fuel total k fl s W Hf. unfold leaf_text. cbv zeta.
  apply wstep_bump; [apply get_coordinates_ok; auto|lia|].
  intros qf s1.
  repeat match goal with |- context [if ?c then _ else _] => destruct c end;
    first [ right; left; eexists; reflexivity | right; right; exists ECtor; split; reflexivity ].
Qed.
End Loops2.

(* ------------------------------------------------------------------ relative accounting of the recursive part *)
(* dq: depth used for the setSRID factor; dm: depth used for the depth clause (both are the depth of the frames counted) *)
Definition wacct (t t' : wstats) (dq dm : Z) : Prop :=
  wpos t <= wpos t' /\ 0 <= wcoords t' - wcoords t /\ 2 * (wcoords t' - wcoords t) <= wtoks t' - wtoks t /\
  0 <= welems t' - welems t /\ welems t' - welems t <= wtoks t' - wtoks t /\
  0 <= wnodes t' - wnodes t /\ wnodes t' - wnodes t <= wtoks t' - wtoks t /\
  0 <= wquad t' - wquad t /\ wquad t' - wquad t <= (wnodes t' - wnodes t) * (wdmax t' - dq + 2) /\
  wdmax t <= wdmax t' /\ wdmax t' <= Z.max (wdmax t) (dm + (wtoks t' - wtoks t)).

Lemma wflatn_wacct : forall t t' dq dm, wflatn t t' -> dq - 1 <= wdmax t -> wacct t t' dq dm.
Proof. unfold wflatn, wacct. intros t t' dq dm H D. repeat split; try lia. nia. Qed.
Lemma wacct_trans : forall t t1 t2 dq dm, wacct t t1 dq dm -> wacct t1 t2 dq dm -> dq - 2 <= wdmax t -> wacct t t2 dq dm.
Proof.
  unfold wacct. intros t t1 t2 dq dm (A1 & A2 & A3 & A4 & A5 & A6 & A7 & A8 & A9 & A10 & A11)
    (B1 & B2 & B3 & B4 & B5 & B6 & B7 & B8 & B9 & B10 & B11) D.
  repeat split; try lia.
  assert ((wnodes t1 - wnodes t) * (wdmax t1 - dq + 2) <= (wnodes t1 - wnodes t) * (wdmax t2 - dq + 2)) by (apply Z.mul_le_mono_nonneg_l; lia).
  nia.
Qed.
Lemma wacct_trans' : forall t t1 t2 dq dm, wacct t t1 dq dm -> wacct t1 t2 dq dm -> wacct t t2 dq dm.
Proof.
  unfold wacct. intros t t1 t2 dq dm (A1 & A2 & A3 & A4 & A5 & A6 & A7 & A8 & A9 & A10 & A11)
    (B1 & B2 & B3 & B4 & B5 & B6 & B7 & B8 & B9 & B10 & B11).
  repeat split; try lia.
  assert ((wnodes t1 - wnodes t) * (wdmax t1 - dq + 2) <= (wnodes t1 - wnodes t) * (wdmax t2 - dq + 2)) by (apply Z.mul_le_mono_nonneg_l; lia).
  nia.
Qed.
Lemma wacct_weaken : forall t t' dq dm dq' dm', wacct t t' dq dm -> dq' <= dq -> dm <= dm' -> wacct t t' dq' dm'.
Proof.
  unfold wacct. intros t t' dq dm dq' dm' (A1 & A2 & A3 & A4 & A5 & A6 & A7 & A8 & A9 & A10 & A11) Q M.
  repeat split; try lia.
  assert ((wnodes t' - wnodes t) * (wdmax t' - dq + 2) <= (wnodes t' - wnodes t) * (wdmax t' - dq' + 2)) by (apply Z.mul_le_mono_nonneg_l; lia).
  lia.
Qed.

Definition wpost {A} (c : cfg) (total : Z) (s : ws) (dq dm kmin : Z) (zf : A -> Z) (r : wres A) : Prop :=
  match r with
  | WOk a s' => wwf total s' /\ kmin <= wtoks (wst s') - wtoks (wst s) /\
                wtoks (wst s') - wtoks (wst s) <= wpos (wst s') - wpos (wst s) /\ wacct (wst s) (wst s') dq dm /\
                1 <= zf a <= wnodes (wst s') - wnodes (wst s)
  | WErr e t => gerr c e /\ wtoks t - wtoks (wst s) <= wpos t - wpos (wst s) + 1 /\ wpos t <= total /\ wacct (wst s) t dq dm
  | WFuel => False
  end.

(* a flat step followed by nothing: as a post-condition at any depth the state already reached *)
Lemma wstepn_wpost_err : forall {A B} c total s dq dm k (zf : B -> Z) e t,
  @wstepR A wflatn total s k (WErr e t) -> dq - 1 <= wdmax (wst s) -> @wpost B c total s dq dm k zf (WErr e t).
Proof.
  intros A B c total s dq dm k zf e t (NE & P & T & F) D. cbn. split; [apply err_ok_gerr; auto|]. split; auto. split; auto.
  apply wflatn_wacct; auto.
Qed.

Section NodeCounts.
Variable numval : list ascii -> Z.

Lemma wstep_bump_nodes : forall {A B} total s k (r : wres A) (f : A -> ws -> wres B), wstep total s k r ->
  (forall a s1, (exists b, f a s1 = WOk b (wupd (w_node 1) (wupd w_elem s1))) \/ (exists b, f a s1 = WOk b (wupd (w_node 1) s1)) \/
                (exists e, err_ok e = true /\ f a s1 = WErr e (wst s1))) ->
  forall b s', (match r with WOk a s1 => f a s1 | WErr e t => WErr e t | WFuel => WFuel end) = WOk b s' ->
  wnodes (wst s') = wnodes (wst s) + 1.
Proof.
  intros A B total s k r f H Hf b s' E. destruct r as [a s1|e t|]; try discriminate.
  destruct H as (_ & _ & _ & F). unfold wflat in F.
  destruct (Hf a s1) as [(b0 & E0)|[(b0 & E0)|(e & _ & E0)]]; rewrite E0 in E; inversion E; subst; wproj; lia.
Qed.

Lemma leaf_text_nodes : forall fx fuel total k fl s b s', wwf total s -> (List.length (wrest s) <= fuel)%nat ->
  leaf_text numval fx fuel k fl s = WOk b s' -> wnodes (wst s') = wnodes (wst s) + 1.
Proof.
  intros fx fuel total k fl s b s' W Hf. unfold leaf_text. cbv zeta.
  apply (wstep_bump_nodes total s 1); [apply get_coordinates_ok; auto|].
  intros qf s1.
  repeat match goal with |- context [if ?c then _ else _] => destruct c end;
    first [ right; left; eexists; reflexivity | right; right; exists ECtor; split; reflexivity ].
Qed.
Lemma read_point_coord_nodes : forall total fl s b s', wwf total s ->
  read_point_coord numval fl s = WOk b s' -> wnodes (wst s') = wnodes (wst s) + 1.
Proof.
  intros total fl s b s' W. unfold read_point_coord.
  apply (wstep_bump_nodes total s 2); [apply read_coord_ok; auto|]. intros a s1. left. eauto.
Qed.
Lemma closer_nodes : forall total s b s', wwf total s -> closer_or_comma s = WOk b s' -> wnodes (wst s') = wnodes (wst s).
Proof.
  intros total s b s' W E. pose proof (closer_or_comma_ok total s W) as C. rewrite E in C.
  destruct C as (_ & _ & _ & F). unfold wflat in F. lia.
Qed.
Lemma mp_tail_nodes : forall fuel total sm fl s lf s', wwf total s ->
  mp_tail numval fuel sm fl s = WOk lf s' -> wnodes (wst s') = wnodes (wst s) + Z.of_nat (List.length (fst lf)).
Proof.
  induction fuel as [|f IH]; intros total sm fl s lf s' W; cbn [mp_tail].
  - destruct (closer_or_comma s) as [comma s1|e t|] eqn:E; try discriminate.
    destruct comma; [discriminate|]. intro H; inversion H; subst. cbn. erewrite closer_nodes; eauto. lia.
  - pose proof (closer_or_comma_ok total s W) as C.
    destruct (closer_or_comma s) as [comma s1|e t|] eqn:E; try discriminate.
    destruct C as (W1 & _). pose proof (closer_nodes total s comma s1 W E) as N1.
    destruct comma; [|intro H; inversion H; subst; cbn; lia].
    pose proof (read_point_coord_ok numval total fl s1 W1) as R.
    destruct (read_point_coord numval fl s1) as [cf s2|e t|] eqn:E2; try discriminate.
    destruct R as (W2 & _). pose proof (read_point_coord_nodes total fl s1 cf s2 W1 E2) as N2.
    destruct (mp_tail numval f sm (snd cf) s2) as [lf' s3|e t|] eqn:E3; try discriminate.
    apply IH with (total := total) in E3; auto.
    intro H; inversion H; subst. cbn [fst List.length]. lia.
Qed.
End NodeCounts.

(* ------------------------------------------------------------------ the recursive descent *)
Definition zf2 (x : geom * Z) : Z := snd x.
Definition zf3 (x : geom * Z * flags) : Z := snd (fst x).
Definition zfl (x : list geom * Z * flags) : Z := snd (fst x).
Definition zf1 (x : geom * flags) : Z := 1.

Section Descent.
Variable numval : list ascii -> Z.
Variable c : cfg.

Lemma leaf_post : forall total fuel k fl s dq dm, wwf total s -> (List.length (wrest s) <= fuel)%nat -> dq - 1 <= wdmax (wst s) ->
  wpost c total s dq dm 1 zf3
    (match leaf_text numval (fix_rings c) fuel k fl s with WOk gf s1 => WOk (fst gf, 1, snd gf) s1 | WErr e t => WErr e t | WFuel => WFuel end).
Proof.
  intros total fuel k fl s dq dm W Hf D.
  pose proof (leaf_text_ok numval (fix_rings c) fuel total k fl s W Hf) as L.
  destruct (leaf_text numval (fix_rings c) fuel k fl s) as [gf s1|e t|] eqn:E; [| |contradiction].
  - pose proof (leaf_text_nodes numval (fix_rings c) fuel total k fl s gf s1 W Hf E) as N.
    destruct L as (W1 & K & P & F). cbn. unfold zf3; cbn [fst snd].
    split; auto. split; auto. split; auto. split; [apply wflatn_wacct; auto|lia].
  - eapply wstepn_wpost_err; eauto.
Qed.

Lemma wacct_enter : forall t t' d, wflatn (w_enter d t) t' -> wacct t t' d d.
Proof.
  unfold wflatn, wacct. intros t t' d H. wproj. repeat split; try lia. nia.
Qed.

Definition fuelT (s : ws) (fuel : nat) : Prop := (3 * List.length (wrest s) + 4 <= fuel)%nat.
Definition fuelB (s : ws) (fuel : nat) : Prop := (3 * List.length (wrest s) + 5 <= fuel)%nat.
Definition fuelL (s : ws) (fuel : nat) : Prop := (3 * List.length (wrest s) + 6 <= fuel)%nat.

Definition specT (fuel : nat) (total : Z) : Prop := forall fl ety d s, wwf total s -> fuelT s fuel ->
  wpost c total s d d 1 zf2 (read_tagged numval c fuel fl ety d s).
Definition specB (fuel : nat) (total : Z) : Prop := forall k fl d s, wwf total s -> d <= wdmax (wst s) -> fuelB s fuel ->
  wpost c total s d d 1 zf3 (read_body numval c fuel k fl d s).
Definition specP (fuel : nat) (total : Z) : Prop := forall fl d s, wwf total s -> d <= wdmax (wst s) -> fuelT s fuel ->
  wpost c total s (d + 1) d 1 zf1 (read_poly numval c fuel fl d s).
Definition specL (fuel : nat) (total : Z) : Prop := forall ek fl d s, wwf total s -> d <= wdmax (wst s) -> fuelL s fuel ->
  wpost c total s (d + 1) (d + 1) 2 zfl (read_list numval c fuel ek fl d s).
Definition specE (fuel : nat) (total : Z) : Prop := forall ek fl d s, wwf total s -> d <= wdmax (wst s) -> fuelB s fuel ->
  wpost c total s (d + 1) (d + 1) 1 zf3 (read_elem numval c fuel ek fl d s).

Lemma wpost_map : forall {A B} total s dq dm k (zf : A -> Z) (zf' : B -> Z) (r : wres A) (f : A -> ws -> wres B),
  wpost c total s dq dm k zf r ->
  (forall a s1, (exists b, f a s1 = WOk b s1 /\ zf' b = zf a) \/ (exists e, gerr c e /\ f a s1 = WErr e (wst s1))) ->
  wpost c total s dq dm k zf' (match r with WOk a s1 => f a s1 | WErr e t => WErr e t | WFuel => WFuel end).
Proof.
  intros A B total s dq dm k zf zf' r f H Hf. destruct r as [a s1|e t|]; cbn in H; auto.
  destruct H as (W1 & K & P & A1 & Z1).
  destruct (Hf a s1) as [(b & E & Ez)|(e & NE & E)]; rewrite E; cbn.
  - rewrite Ez. auto.
  - split; auto. split; [lia|]. split; auto. destruct W1 as (X & Y). lia.
Qed.
Lemma wpost_weaken : forall {A} total s dq dm dq' dm' k k' (zf : A -> Z) (r : wres A),
  wpost c total s dq dm k zf r -> dq' <= dq -> dm <= dm' -> k' <= k -> wpost c total s dq' dm' k' zf r.
Proof.
  intros A total s dq dm dq' dm' k k' zf r H Q M K. destruct r as [a s1|e t|]; cbn in *; auto.
  - destruct H as (W1 & K1 & P & A1 & Z1). split; auto. split; [lia|]. split; auto. split; auto. eapply wacct_weaken; eauto.
  - destruct H as (NE & P & T & A1). split; auto. split; auto. split; auto. eapply wacct_weaken; eauto.
Qed.

Lemma stepE : forall f total, specT f total -> specP f total -> specE (S f) total.
Proof.
  intros f total HT HP ek fl d s W D Hf. unfold fuelB in Hf. cbn [read_elem]. cbv zeta.
  assert (LF : forall k, wpost c total s (d + 1) (d + 1) 1 zf3
            (match leaf_text numval (fix_rings c) f k fl s with WOk gf s1 => WOk (fst gf, 1, snd gf) s1 | WErr e t => WErr e t | WFuel => WFuel end)).
  { intro k. apply leaf_post; auto; lia. }
  assert (PO : wpost c total s (d + 1) (d + 1) 1 zf3
            (match read_poly numval c f fl d s with WOk gf s1 => WOk (fst gf, 1, snd gf) s1 | WErr e t => WErr e t | WFuel => WFuel end)).
  { apply wpost_map with (zf := zf1).
    - eapply wpost_weaken; [apply HP; auto; unfold fuelT; lia|lia|lia|lia].
    - intros a s1. left. eexists. split; [reflexivity|]. reflexivity. }
  assert (TG : forall ety (ok : geom -> bool), wpost c total s (d + 1) (d + 1) 1 zf3
            (match read_tagged numval c f fl ety (d + 1) s with
             | WOk gz s1 => if ok (fst gz) then WOk (fst gz, snd gz, fl) s1 else WErr EParse (wst s1)
             | WErr e t => WErr e t | WFuel => WFuel end)).
  { intros ety ok. apply wpost_map with (zf := zf2).
    - apply HT; auto. unfold fuelT; lia.
    - intros a s1. destruct (ok (fst a)).
      + left. eexists. split; [reflexivity|]. reflexivity.
      + right. exists EParse. split; [apply err_ok_gerr; reflexivity|reflexivity]. }
  destruct ek; auto.
  - apply (TG None (fun _ => true)).
  - destruct (is_lp (peek s)); auto.
  - destruct (is_lp (peek s)); auto.
  - destruct (is_lp (peek s)); auto.
Qed.

Lemma read_list_eq : forall f ek fl d s, read_list numval c (S f) ek fl d s =
  match read_elem numval c f ek fl d s with
  | WOk r s1 => let '(g, z, fl1) := r in
    match closer_or_comma s1 with
    | WOk comma s2 => let s2 := wupd w_elem s2 in
      if comma then
        match read_list numval c f ek fl1 d s2 with
        | WOk r2 s3 => let '(l, zs, fl2) := r2 in WOk (g :: l, z + zs, fl2) s3
        | WErr e t => WErr e t | WFuel => WFuel
        end
      else WOk ([g], z, fl1) s2
    | WErr e t => WErr e t | WFuel => WFuel
    end
  | WErr e t => WErr e t | WFuel => WFuel
  end.
Proof. reflexivity. Qed.

Lemma stepL : forall f total, specE f total -> specL f total -> specL (S f) total.
Proof.
  intros f total HE HL ek fl d s W D Hf. unfold fuelL in Hf. rewrite read_list_eq.
  pose proof (HE ek fl d s W D ltac:(unfold fuelB; lia)) as E.
  destruct (read_elem numval c f ek fl d s) as [[[g z] fl1] s1|e t|]; [| |contradiction].
  2:{ cbn in *. exact E. }
  cbn in E. destruct E as (W1 & K1 & P1 & A1 & Z1). unfold zf3 in Z1; cbn [fst snd] in Z1.
  assert (D1 : wdmax (wst s) <= wdmax (wst s1)) by (unfold wacct in A1; lia).
  pose proof (closer_or_comma_ok total s1 W1) as C.
  destruct (closer_or_comma s1) as [comma s2|e t|]; [| |contradiction].
  2:{ destruct C as (NE & P2 & T2 & F2). cbn. split; [apply err_ok_gerr; auto|]. split; [lia|]. split; auto.
      eapply wacct_trans; [exact A1| |lia]. apply wflatn_wacct; [apply wflat_wflatn; auto|lia]. }
  destruct C as (W2 & K2 & P2 & F2).
  set (s2e := wupd w_elem s2).
  assert (W2e : wwf total s2e) by (destruct W2; split; auto).
  assert (A2 : wacct (wst s) (wst s2e) (d + 1) (d + 1)).
  { eapply wacct_trans; [exact A1| |lia]. apply wflatn_wacct; [|lia]. unfold wflat in F2. unfold wflatn, s2e; wproj. lia. }
  assert (L2 : (List.length (wrest s2e) + 2 <= List.length (wrest s))%nat).
  { destruct W as (X & _). destruct W1 as (X1 & _). destruct W2 as (X2 & _). change (wrest s2e) with (wrest s2). lia. }
  cbv zeta. fold s2e.
  destruct comma.
  - pose proof (HL ek fl1 d s2e W2e ltac:(unfold s2e; wproj; unfold wflat in F2; lia) ltac:(unfold fuelL; lia)) as R.
    destruct (read_list numval c f ek fl1 d s2e) as [[[l zs] fl2] s3|e t|]; [| |contradiction].
    + cbn in R. destruct R as (W3 & K3 & P3 & A3 & Z3). unfold zfl in *; cbn [fst snd] in *.
      change (wtoks (wst s2e)) with (wtoks (wst s2)) in *. change (wpos (wst s2e)) with (wpos (wst s2)) in *.
      change (wnodes (wst s2e)) with (wnodes (wst s2)) in *.
      assert (N2 : wnodes (wst s2) = wnodes (wst s1)) by (unfold wflat in F2; lia).
      cbn. unfold zfl; cbn [fst snd]. split; auto. split; [lia|]. split; [lia|].
      split; [eapply wacct_trans; eauto; lia|lia].
    + cbn in R. destruct R as (NE & P3 & T3 & A3).
      change (wtoks (wst s2e)) with (wtoks (wst s2)) in *. change (wpos (wst s2e)) with (wpos (wst s2)) in *.
      cbn. split; auto. split; [lia|]. split; auto. eapply wacct_trans; eauto; lia.
  - cbn. unfold zfl; cbn [fst snd]. split; auto.
    change (wtoks (wst s2e)) with (wtoks (wst s2)). change (wpos (wst s2e)) with (wpos (wst s2)). change (wnodes (wst s2e)) with (wnodes (wst s2)).
    assert (N2 : wnodes (wst s2) = wnodes (wst s1)) by (unfold wflat in F2; lia).
    split; [lia|]. split; [lia|]. split; [exact A2|lia].
Qed.

(* a container node: opener (t -> t1, at least one token), elements one level down (t1 -> t2), csz setSRID visits *)
Lemma container_w : forall t t1 t2 d csz,
  wflat t t1 -> 1 <= wtoks t1 - wtoks t -> wacct t1 t2 (d + 1) (d + 1) -> d <= wdmax t ->
  1 <= csz <= 1 + (wnodes t2 - wnodes t1) -> wacct t (w_node csz t2) d d.
Proof.
  unfold wflat, wacct. intros t t1 t2 d csz F K (A1 & A2 & A3 & A4 & A5 & A6 & A7 & A8 & A9 & A10 & A11) D Hc. wproj.
  replace (wdmax t2 - (d + 1) + 2) with (wdmax t2 - d + 1) in * by lia.
  repeat split; try lia; try nia.
Qed.

Lemma read_poly_eq : forall f fl d s, read_poly numval c (S f) fl d s =
  match empty_or_opener fl s with
  | WOk ef s1 => let fl1 := snd ef in
    if fst ef then WOk (GPoly [seq_empty (fz fl1) (fm fl1)], fl1) (wupd (w_node 1) s1) else
    match read_list numval c f ERing fl1 d s1 with
    | WOk r s2 => let '(l, _, fl2) := r in let rings := map ring_of l in
      match poly_check rings with Some e => WErr e (wst s2) | None => WOk (GPoly rings, fl2) (wupd (w_node 1) s2) end
    | WErr e t => WErr e t | WFuel => WFuel
    end
  | WErr e t => WErr e t | WFuel => WFuel
  end.
Proof. reflexivity. Qed.

Lemma stepP : forall f total, specL f total -> specP (S f) total.
Proof.
  intros f total HL fl d s W D Hf. unfold fuelT in Hf. rewrite read_poly_eq.
  pose proof (empty_or_opener_ok total fl s W) as O.
  destruct (empty_or_opener fl s) as [ef s1|e t|]; [| |contradiction].
  2:{ apply (wstepn_wpost_err (A := bool * flags)) with (k := 1). apply wstep_n; exact O. lia. }
  destruct O as (W1 & K1 & P1 & F1). cbv zeta.
  assert (E1 : wdmax (wst s1) = wdmax (wst s) /\ wnodes (wst s1) = wnodes (wst s)) by (unfold wflat in F1; lia).
  assert (L1 : (List.length (wrest s1) + 1 <= List.length (wrest s))%nat).
  { destruct W as (X & _). destruct W1 as (X1 & _). lia. }
  destruct (fst ef).
  { cbn. unfold zf1. wproj. split; [destruct W1; split; auto|]. split; [lia|]. split; [lia|].
    split; [|lia]. apply wflatn_wacct; [|lia]. unfold wflat in F1. unfold wflatn; wproj. lia. }
  pose proof (HL ERing (snd ef) d s1 W1 ltac:(lia) ltac:(unfold fuelL; lia)) as R.
  destruct (read_list numval c f ERing (snd ef) d s1) as [[[l zs] fl2] s2|e t|]; [| |contradiction].
  2:{ cbn in R. destruct R as (NE & P2 & T2 & A2). cbn. split; auto. split; [lia|]. split; auto.
      eapply wacct_weaken with (dq := d + 1) (dm := d); [|lia|lia].
      assert (X := container_w (wst s) (wst s1) t d 1 F1 K1 A2 D).
      (* without the final node: compose directly *)
      clear X. unfold wflat in F1. unfold wacct in *. wproj. repeat split; try lia; try nia. }
  cbn in R. destruct R as (W2 & K2 & P2 & A2 & Z2). unfold zfl in Z2; cbn [fst snd] in Z2.
  destruct (poly_check (map ring_of l)) eqn:PC.
  { cbn. split; [apply err_ok_gerr; eapply poly_check_err; eauto|]. split; [lia|]. split; [destruct W2; lia|].
    unfold wflat in F1. unfold wacct in *. wproj. repeat split; try lia; try nia. }
  cbn. unfold zf1. wproj. split; [destruct W2; split; auto|]. split; [lia|]. split; [lia|]. split; [|unfold wacct in A2; lia].
  unfold wflat in F1. unfold wacct in *. wproj.
  replace (wdmax (wst s2) - (d + 1) + 2) with (wdmax (wst s2) - d + 1) in * by lia.
  repeat split; try lia; try nia.
Qed.

Lemma read_body_eq : forall f k fl d s, read_body numval c (S f) k fl d s =
  if (k =? 1) || (k =? 2) || (k =? 13) || (k =? 8) then
    match leaf_text numval (fix_rings c) f k fl s with WOk gf s1 => WOk (fst gf, 1, snd gf) s1 | WErr e t => WErr e t | WFuel => WFuel end
  else if k =? 3 then
    match read_poly numval c f fl d s with WOk gf s1 => WOk (fst gf, 1, snd gf) s1 | WErr e t => WErr e t | WFuel => WFuel end
  else
    match empty_or_opener fl s with
    | WOk ef s1 =>
      let fl1 := snd ef in
      if fst ef then
        WOk (GNest k (if k =? 10 then [GLine (seq_empty (fz fl1) (fm fl1))] else []), 1, fl1) (wupd (w_node 1) s1) else
      if k =? 4 then
        let t := peek s1 in
        if is_num_tok t then
          match read_point_coord numval fl1 s1 with
          | WOk cf s2 =>
            match mp_tail numval f (fm fl1) (snd cf) s2 with
            | WOk lf s3 =>
              let l := mp_point (fm fl1) (fst cf) :: fst lf in
              let csz := 1 + Z.of_nat (List.length l) in
              WOk (GNest 4 l, csz, snd lf) (wupd (w_node csz) s3)
            | WErr e t => WErr e t | WFuel => WFuel
            end
          | WErr e t => WErr e t | WFuel => WFuel
          end
        else
          match t with
          | TLp | TWord _ =>
            match read_list numval c f EPoint fl1 d s1 with
            | WOk r s2 => let '(l, zs, fl2) := r in WOk (GNest 4 l, 1 + zs, fl2) (wupd (w_node (1 + zs)) s2)
            | WErr e t => WErr e t | WFuel => WFuel
            end
          | _ => WErr EParse (wst s1)
          end
      else
        match read_list numval c f (elem_kind k) fl1 d s1 with
        | WOk r s2 =>
          let '(l, zs, fl2) := r in
          match ctor_check c k l with
          | Some e => WErr e (wst s2)
          | None => let csz := if is_coll k then 1 + zs else 1 in WOk (GNest k l, csz, fl2) (wupd (w_node csz) s2)
          end
        | WErr e t => WErr e t | WFuel => WFuel
        end
    | WErr e t => WErr e t | WFuel => WFuel
    end.
Proof. reflexivity. Qed.

(* elements one level down followed by the container node *)
Lemma list_then_node : forall total f ek fl1 d s s1 (mk : list geom -> Z -> option error * Z),
  specL f total -> wwf total s -> wwf total s1 -> wflat (wst s) (wst s1) -> 1 <= wtoks (wst s1) - wtoks (wst s) ->
  wtoks (wst s1) - wtoks (wst s) <= wpos (wst s1) - wpos (wst s) -> d <= wdmax (wst s) -> fuelL s1 f ->
  (forall l zs, 1 <= zs -> match fst (mk l zs) with Some e => gerr c e | None => 1 <= snd (mk l zs) <= 1 + zs end) ->
  forall (g : list geom -> geom),
  wpost c total s d d 1 zf3
    (match read_list numval c f ek fl1 d s1 with
     | WOk r s2 => let '(l, zs, fl2) := r in
       match fst (mk l zs) with
       | Some e => WErr e (wst s2)
       | None => WOk (g l, snd (mk l zs), fl2) (wupd (w_node (snd (mk l zs))) s2)
       end
     | WErr e t => WErr e t | WFuel => WFuel
     end).
Proof.
  intros total f ek fl1 d s s1 mk HL W W1 F1 K1 P1 D Hf Hmk g.
  assert (E1 : wdmax (wst s1) = wdmax (wst s) /\ wnodes (wst s1) = wnodes (wst s)) by (unfold wflat in F1; lia).
  pose proof (HL ek fl1 d s1 W1 ltac:(lia) Hf) as R.
  destruct (read_list numval c f ek fl1 d s1) as [[[l zs] fl2] s2|e t|]; [| |contradiction].
  2:{ cbn in R. destruct R as (NE & P2 & T2 & A2). cbn. split; auto. split; [lia|]. split; auto.
      unfold wflat in F1. unfold wacct in *. wproj.
      replace (wdmax t - (d + 1) + 2) with (wdmax t - d + 1) in * by lia. repeat split; try lia; try nia. }
  cbn in R. destruct R as (W2 & K2 & P2 & A2 & Z2). unfold zfl in Z2; cbn [fst snd] in Z2.
  specialize (Hmk l zs ltac:(lia)). destruct (fst (mk l zs)) as [e|].
  { cbn. split; auto. split; [lia|]. split; [destruct W2; lia|].
    unfold wflat in F1. unfold wacct in *. wproj.
    replace (wdmax (wst s2) - (d + 1) + 2) with (wdmax (wst s2) - d + 1) in * by lia. repeat split; try lia; try nia. }
  cbn. unfold zf3; cbn [fst snd]. wproj. split; [destruct W2; split; auto|]. split; [lia|]. split; [lia|].
  split; [|unfold wacct in A2; lia].
  apply (container_w (wst s) (wst s1) (wst s2) d); auto. lia.
Qed.

Lemma stepB : forall f total, specP f total -> specL f total -> specB (S f) total.
Proof.
  intros f total HP HL k fl d s W D Hf. unfold fuelB in Hf. rewrite read_body_eq.
  destruct ((k =? 1) || (k =? 2) || (k =? 13) || (k =? 8)).
  { apply leaf_post; auto; lia. }
  destruct (k =? 3).
  { apply wpost_map with (zf := zf1).
    - eapply wpost_weaken; [apply HP; auto; unfold fuelT; lia|lia|lia|lia].
    - intros a s1. left. eexists. split; reflexivity. }
  pose proof (empty_or_opener_ok total fl s W) as O.
  destruct (empty_or_opener fl s) as [ef s1|e t|]; [| |contradiction].
  2:{ apply (wstepn_wpost_err (A := bool * flags)) with (k := 1). apply wstep_n; exact O. lia. }
  destruct O as (W1 & K1 & P1 & F1). cbv zeta.
  assert (E1 : wdmax (wst s1) = wdmax (wst s) /\ wnodes (wst s1) = wnodes (wst s)) by (unfold wflat in F1; lia).
  assert (L1 : (List.length (wrest s1) + 1 <= List.length (wrest s))%nat).
  { destruct W as (X & _). destruct W1 as (X1 & _). lia. }
  destruct (fst ef).
  { cbn. unfold zf3; cbn [fst snd]. wproj. split; [destruct W1; split; auto|]. split; [lia|]. split; [lia|].
    split; [|lia]. apply wflatn_wacct; [|lia]. unfold wflat in F1. unfold wflatn; wproj. lia. }
  destruct (k =? 4).
  - destruct (is_num_tok (peek s1)).
    + (* MULTIPOINT (x y, x y ...) *)
      pose proof (read_point_coord_ok numval total (snd ef) s1 W1) as R.
      destruct (read_point_coord numval (snd ef) s1) as [cf s2|e t|] eqn:E2; [| |contradiction].
      2:{ destruct R as (NE & P2 & T2 & F2). cbn. split; [apply err_ok_gerr; auto|]. split; [lia|]. split; auto.
          apply wflatn_wacct; [|lia]. unfold wflat in F1. unfold wflatn in *. lia. }
      pose proof (read_point_coord_nodes numval total (snd ef) s1 cf s2 W1 E2) as N2.
      destruct R as (W2 & K2 & P2 & F2).
      assert (L2 : (List.length (wrest s2) <= f)%nat).
      { destruct W1 as (X1 & _). destruct W2 as (X2 & _). unfold wflatn in F2. lia. }
      pose proof (mp_tail_ok numval f total (fm (snd ef)) (snd cf) s2 W2 L2) as M.
      destruct (mp_tail numval f (fm (snd ef)) (snd cf) s2) as [lf s3|e t|] eqn:E3; [| |contradiction].
      2:{ destruct M as (NE & P3 & T3 & F3). cbn. split; [apply err_ok_gerr; auto|]. split; [lia|]. split; auto.
          apply wflatn_wacct; [|lia]. unfold wflat in F1. unfold wflatn in *. lia. }
      pose proof (mp_tail_nodes numval f total (fm (snd ef)) (snd cf) s2 lf s3 W2 E3) as N3.
      destruct M as (W3 & K3 & P3 & F3).
      cbn [List.length]. rewrite Nat2Z.inj_succ.
      set (m := Z.of_nat (List.length (fst lf))) in *.
      unfold wpost, zf3; cbn [fst snd]; wproj. split; [destruct W3; split; auto|]. split; [lia|]. split; [lia|].
      split; [|lia].
      apply (container_w (wst s) (wst s1) (wst s3) d); auto; [|lia].
      apply wflatn_wacct; [|lia]. unfold wflatn in *. lia.
    + destruct (peek s1); try (cbn; split; [apply err_ok_gerr; reflexivity|]; split; [lia|]; split; [destruct W1; lia|];
        apply wflatn_wacct; [apply wflat_wflatn; auto|lia]).
      * apply (list_then_node total f EPoint (snd ef) d s s1 (fun l zs => (None, 1 + zs))); auto.
        unfold fuelL; lia. intros; cbn [fst snd]; lia.
      * apply (list_then_node total f EPoint (snd ef) d s s1 (fun l zs => (None, 1 + zs))); auto.
        unfold fuelL; lia. intros; cbn [fst snd]; lia.
  - apply (list_then_node total f (elem_kind k) (snd ef) d s s1 (fun l zs => (ctor_check c k l, if is_coll k then 1 + zs else 1))); auto.
    unfold fuelL; lia.
    intros l zs Hz. cbn [fst snd]. destruct (ctor_check c k l) eqn:CK; [eapply ctor_check_err; eauto|]. destruct (is_coll k); lia.
Qed.

Lemma read_tagged_eq : forall f fl_in ety d s, read_tagged numval c (S f) fl_in ety d s =
  let s := wupd (w_enter d) s in
  if too_deep c d then WErr ETooDeep (wst s) else
  match next_word s with
  | WOk t s1 =>
    match t with
    | TWord w =>
      if is_str w "EMPTY" then
        match ety with
        | Some k => WOk (empty_geom k (fz fl_in) (fm fl_in), 1) (wupd (w_node 1) s1)
        | None => WErr EParse (wst s1)
        end
      else
      match parse_type w with
      | None => WErr EParse (wst s1)
      | Some (k, z, m) =>
        match read_body numval c f k (mkFl z m (negb (z || m))) d s1 with
        | WOk r s2 => let '(g, csz, nf) := r in
          if negb (fchg fl_in) && negb (same_dims nf fl_in) then WErr EParse (wst s2) else WOk (g, csz) s2
        | WErr e t => WErr e t | WFuel => WFuel
        end
      end
    | _ => WErr EParse (wst s1)
    end
  | WErr e t => WErr e t | WFuel => WFuel
  end.
Proof. reflexivity. Qed.

Lemma stepT : forall f total, specB f total -> specT (S f) total.
Proof.
  intros f total HB fl_in ety d s W Hf. unfold fuelT in Hf. rewrite read_tagged_eq. cbv zeta.
  set (se := wupd (w_enter d) s).
  assert (We : wwf total se) by (destruct W; split; auto).
  destruct (too_deep c d).
  { cbn. split; [apply err_ok_gerr; reflexivity|]. split; [lia|]. split; [destruct W; lia|].
    apply wacct_enter. apply wflatn_refl. }
  pose proof (next_word_ok total se We) as N.
  assert (PARSE : forall s1, wwf total s1 -> wflat (wst se) (wst s1) -> 1 <= wtoks (wst s1) - wtoks (wst se) ->
            wtoks (wst s1) - wtoks (wst se) <= wpos (wst s1) - wpos (wst se) ->
            wpost (A := geom * Z) c total s d d 1 zf2 (WErr EParse (wst s1))).
  { intros s1 W1 F1 K1 P1. cbn. change (wtoks (wst se)) with (wtoks (wst s)) in *. change (wpos (wst se)) with (wpos (wst s)) in *.
    split; [apply err_ok_gerr; reflexivity|]. split; [lia|]. split; [destruct W1; lia|].
    apply wacct_enter. apply wflat_wflatn. exact F1. }
  destruct (next_word se) as [t s1|e t|]; [| |contradiction].
  2:{ destruct N as (NE & P & T & F). cbn. change (wtoks (wst se)) with (wtoks (wst s)) in *. change (wpos (wst se)) with (wpos (wst s)) in *.
      split; [apply err_ok_gerr; auto|]. split; auto. split; auto. apply wacct_enter. apply wflat_wflatn. exact F. }
  destruct N as (W1 & K1 & P1 & F1).
  destruct t; try (apply PARSE; auto).
  destruct (is_str w "EMPTY").
  { destruct ety; [|apply PARSE; auto].
    cbn. unfold zf2; cbn [snd]. wproj. change (wtoks (wst se)) with (wtoks (wst s)) in *. change (wpos (wst se)) with (wpos (wst s)) in *.
    split; [destruct W1; split; auto|]. split; [lia|]. split; [lia|]. split; [|unfold wflat in F1; change (wnodes (wst se)) with (wnodes (wst s)) in F1; lia].
    apply wacct_enter. unfold wflat in F1. unfold se in F1. unfold wflatn; wproj. lia. }
  destruct (parse_type w) as [[[k z] m]|]; [|apply PARSE; auto].
  assert (A1 : wacct (wst s) (wst s1) d d) by (apply wacct_enter; apply wflat_wflatn; exact F1).
  assert (D1 : d <= wdmax (wst s1)).
  { unfold wflat in F1. change (wdmax (wst se)) with (Z.max (wdmax (wst s)) d) in F1. lia. }
  assert (L1 : (List.length (wrest s1) + 1 <= List.length (wrest s))%nat).
  { destruct W as (X & _). destruct W1 as (X1 & _). change (wtoks (wst se)) with (wtoks (wst s)) in *. change (wpos (wst se)) with (wpos (wst s)) in *. lia. }
  change (wtoks (wst se)) with (wtoks (wst s)) in *. change (wpos (wst se)) with (wpos (wst s)) in *.
  pose proof (HB k (mkFl z m (negb (z || m))) d s1 W1 D1 ltac:(unfold fuelB; lia)) as R.
  destruct (read_body numval c f k (mkFl z m (negb (z || m))) d s1) as [[[g csz] nf] s2|e t|]; [| |contradiction].
  2:{ cbn in R. destruct R as (NE & P2 & T2 & A2). cbn. split; auto. split; [lia|]. split; auto. eapply wacct_trans'; eauto. }
  cbn in R. destruct R as (W2 & K2 & P2 & A2 & Z2). unfold zf3 in Z2; cbn [fst snd] in Z2.
  assert (N1 : wnodes (wst s1) = wnodes (wst s)) by (unfold wflat in F1; change (wnodes (wst se)) with (wnodes (wst s)) in F1; lia).
  destruct (negb (fchg fl_in) && negb (same_dims nf fl_in)).
  - cbn. split; [apply err_ok_gerr; reflexivity|]. split; [lia|]. split; [destruct W2; lia|]. eapply wacct_trans'; eauto.
  - cbn. unfold zf2; cbn [snd]. split; auto. split; [lia|]. split; [lia|]. split; [eapply wacct_trans'; eauto|lia].
Qed.

(* all five, by induction on the fuel *)
Lemma descent_spec : forall fuel total, specT fuel total /\ specB fuel total /\ specP fuel total /\ specL fuel total /\ specE fuel total.
Proof.
  induction fuel as [|f IH]; intros total.
  - repeat split; intro; intros; unfold fuelT, fuelB, fuelL in *; lia.
  - destruct (IH total) as (HT & HB & HP & HL & HE).
    split; [apply stepT; auto|]. split; [apply stepB; auto|]. split; [apply stepP; auto|]. split; [apply stepL; auto|apply stepE; auto].
Qed.
End Descent.

(* ------------------------------------------------------------------ the nesting limit bounds the depth *)
Section DepthLimit.
Variable numval : list ascii -> Z.
Variable c : cfg.
Variable m : Z.
Hypothesis Hm : max_depth c = Some m.
Hypothesis M0 : 0 <= m.

Definition dle {A} (r : wres A) : Prop := forall t, wfinal_stats r = Some t -> wdmax t <= m + 1.
Lemma dle_ok : forall {A} (a : A) s, wdmax (wst s) <= m + 1 -> dle (WOk a s).
Proof. intros A a s H t E. inversion E; subst. auto. Qed.
Lemma dle_err : forall {A} e t, wdmax t <= m + 1 -> @dle A (WErr e t).
Proof. intros A e t H t' E. inversion E; subst. auto. Qed.
Lemma dle_fuel : forall {A}, @dle A WFuel.
Proof. intros A t E. discriminate. Qed.
(* flat steps keep the depth *)
Lemma dle_stepn : forall {A} total s k (r : wres A), wstepR wflatn total s k r -> wdmax (wst s) <= m + 1 -> dle r.
Proof.
  intros A total s k r H D. destruct r as [a s1|e t|]; cbn in H.
  - destruct H as (_ & _ & _ & F). apply dle_ok. unfold wflatn in F. lia.
  - destruct H as (_ & _ & _ & F). apply dle_err. unfold wflatn in F. lia.
  - contradiction.
Qed.
Lemma dle_map : forall {A B} (r : wres A) (f : A -> ws -> wres B), dle r ->
  (forall a s1, r = WOk a s1 -> wdmax (wst s1) <= m + 1 -> dle (f a s1)) ->
  dle (match r with WOk a s1 => f a s1 | WErr e t => WErr e t | WFuel => WFuel end).
Proof.
  intros A B r f H Hf. destruct r as [a s1|e t|].
  - apply Hf; [reflexivity|]. apply (H (wst s1)). reflexivity.
  - intros t' E. apply (H t'). exact E.
  - apply dle_fuel.
Qed.

Definition dspecT (fuel : nat) (total : Z) : Prop := forall fl ety d s, wwf total s -> fuelT s fuel -> d <= m + 1 -> wdmax (wst s) <= m + 1 ->
  dle (read_tagged numval c fuel fl ety d s).
Definition dspecB (fuel : nat) (total : Z) : Prop := forall k fl d s, wwf total s -> d <= wdmax (wst s) -> fuelB s fuel -> d <= m -> wdmax (wst s) <= m + 1 ->
  dle (read_body numval c fuel k fl d s).
Definition dspecP (fuel : nat) (total : Z) : Prop := forall fl d s, wwf total s -> d <= wdmax (wst s) -> fuelT s fuel -> d <= m -> wdmax (wst s) <= m + 1 ->
  dle (read_poly numval c fuel fl d s).
Definition dspecL (fuel : nat) (total : Z) : Prop := forall ek fl d s, wwf total s -> d <= wdmax (wst s) -> fuelL s fuel -> d <= m -> wdmax (wst s) <= m + 1 ->
  dle (read_list numval c fuel ek fl d s).
Definition dspecE (fuel : nat) (total : Z) : Prop := forall ek fl d s, wwf total s -> d <= wdmax (wst s) -> fuelB s fuel -> d <= m -> wdmax (wst s) <= m + 1 ->
  dle (read_elem numval c fuel ek fl d s).

Lemma dleaf : forall total f k fl s, wwf total s -> (List.length (wrest s) <= f)%nat -> wdmax (wst s) <= m + 1 ->
  dle (match leaf_text numval (fix_rings c) f k fl s with WOk gf s1 => WOk (fst gf, 1, snd gf) s1 | WErr e t => WErr e t | WFuel => WFuel end).
Proof.
  intros total f k fl s W L D. apply dle_map.
  - eapply dle_stepn; [apply leaf_text_ok; eauto|auto].
  - intros a s1 _ D1. apply dle_ok; auto.
Qed.

Lemma dstepE : forall f total, dspecT f total -> dspecP f total -> dspecE (S f) total.
Proof.
  intros f total HT HP ek fl d s W D Hf Dm Ds. unfold fuelB in Hf. cbn [read_elem]. cbv zeta.
  assert (LF : forall k, dle (match leaf_text numval (fix_rings c) f k fl s with WOk gf s1 => WOk (fst gf, 1, snd gf) s1 | WErr e t => WErr e t | WFuel => WFuel end)).
  { intro k. eapply dleaf; eauto. lia. }
  assert (PO : dle (match read_poly numval c f fl d s with WOk gf s1 => WOk (fst gf, 1, snd gf) s1 | WErr e t => WErr e t | WFuel => WFuel end)).
  { apply dle_map. apply HP; auto. unfold fuelT; lia. intros a s1 _ D1. apply dle_ok; auto. }
  assert (TG : forall ety (ok : geom -> bool), dle (match read_tagged numval c f fl ety (d + 1) s with
             | WOk gz s1 => if ok (fst gz) then WOk (fst gz, snd gz, fl) s1 else WErr EParse (wst s1)
             | WErr e t => WErr e t | WFuel => WFuel end)).
  { intros ety ok. apply dle_map. apply HT; auto. unfold fuelT; lia. lia.
    intros a s1 _ D1. destruct (ok (fst a)); [apply dle_ok|apply dle_err]; auto. }
  destruct ek; auto.
  - apply (TG None (fun _ => true)).
  - destruct (is_lp (peek s)); auto.
  - destruct (is_lp (peek s)); auto.
  - destruct (is_lp (peek s)); auto.
Qed.

Lemma dstepL : forall f total, dspecE f total -> dspecL f total -> dspecL (S f) total.
Proof.
  intros f total HE HL ek fl d s W D Hf Dm Ds. unfold fuelL in Hf. rewrite read_list_eq.
  pose proof (proj2 (proj2 (proj2 (proj2 (descent_spec numval c f total)))) ek fl d s W D ltac:(unfold fuelB; lia)) as E.
  apply dle_map. { apply HE; auto. unfold fuelB; lia. }
  intros [[g z] fl1] s1 Eq D1. rewrite Eq in E. cbn in E. destruct E as (W1 & K1 & P1 & A1 & Z1).
  pose proof (closer_or_comma_ok total s1 W1) as C.
  apply dle_map. { eapply dle_stepn; [apply wstep_n; exact C|auto]. }
  intros comma s2 Eq2 D2. rewrite Eq2 in C. destruct C as (W2 & K2 & P2 & F2). cbv zeta.
  assert (W2e : wwf total (wupd w_elem s2)) by (destruct W2; split; auto).
  destruct comma; [|apply dle_ok; auto].
  apply dle_map.
  - apply HL; auto.
    + wproj. unfold wacct in A1. unfold wflat in F2. lia.
    + unfold fuelL. change (wrest (wupd w_elem s2)) with (wrest s2). destruct W as (X & _). destruct W1 as (X1 & _). destruct W2 as (X2 & _). lia.
  - intros [[l zs] fl2] s3 _ D3. apply dle_ok; auto.
Qed.

Lemma dstepP : forall f total, dspecL f total -> dspecP (S f) total.
Proof.
  intros f total HL fl d s W D Hf Dm Ds. unfold fuelT in Hf. rewrite read_poly_eq.
  pose proof (empty_or_opener_ok total fl s W) as O.
  apply dle_map. { eapply dle_stepn; [apply wstep_n; exact O|auto]. }
  intros ef s1 Eq D1. rewrite Eq in O. destruct O as (W1 & K1 & P1 & F1). cbv zeta.
  destruct (fst ef); [apply dle_ok; auto|].
  apply dle_map.
  - apply HL; auto.
    + unfold wflat in F1. lia.
    + unfold fuelL. destruct W as (X & _). destruct W1 as (X1 & _). lia.
  - intros [[l zs] fl2] s2 _ D2. destruct (poly_check _); [apply dle_err|apply dle_ok]; auto.
Qed.

Lemma dstepB : forall f total, dspecP f total -> dspecL f total -> dspecB (S f) total.
Proof.
  intros f total HP HL k fl d s W D Hf Dm Ds. unfold fuelB in Hf. rewrite read_body_eq.
  destruct (_ || _). { eapply dleaf; eauto. lia. }
  destruct (k =? 3). { apply dle_map. apply HP; auto. unfold fuelT; lia. intros a s1 _ D1. apply dle_ok; auto. }
  pose proof (empty_or_opener_ok total fl s W) as O.
  apply dle_map. { eapply dle_stepn; [apply wstep_n; exact O|auto]. }
  intros ef s1 Eq D1. rewrite Eq in O. destruct O as (W1 & K1 & P1 & F1). cbv zeta.
  assert (L1 : (List.length (wrest s1) + 1 <= List.length (wrest s))%nat).
  { destruct W as (X & _). destruct W1 as (X1 & _). lia. }
  assert (Dd : d <= wdmax (wst s1)) by (unfold wflat in F1; lia).
  destruct (fst ef); [apply dle_ok; auto|].
  assert (LST : forall ek (h : list geom * Z * flags -> ws -> wres (geom * Z * flags)),
            (forall r s2, wdmax (wst s2) <= m + 1 -> dle (h r s2)) ->
            dle (match read_list numval c f ek (snd ef) d s1 with WOk r s2 => h r s2 | WErr e t => WErr e t | WFuel => WFuel end)).
  { intros ek h Hh. apply dle_map. apply HL; auto. unfold fuelL; lia. intros r s2 _ D2. apply Hh; auto. }
  destruct (k =? 4).
  - destruct (is_num_tok (peek s1)).
    + pose proof (read_point_coord_ok numval total (snd ef) s1 W1) as R.
      apply dle_map. { eapply dle_stepn; eauto. }
      intros cf s2 Eq2 D2. rewrite Eq2 in R. destruct R as (W2 & K2 & P2 & F2).
      apply dle_map.
      * eapply dle_stepn; [apply (mp_tail_ok numval f total); [exact W2|]|auto].
        destruct W1 as (X1 & _). destruct W2 as (X2 & _). unfold wflatn in F2. lia.
      * intros lf s3 _ D3. apply dle_ok; auto.
    + destruct (peek s1); try (apply dle_err; auto).
      * apply LST. intros [[l zs] fl2] s2 D2. apply dle_ok; auto.
      * apply LST. intros [[l zs] fl2] s2 D2. apply dle_ok; auto.
  - apply LST. intros [[l zs] fl2] s2 D2. destruct (ctor_check c k l); [apply dle_err|apply dle_ok]; auto.
Qed.

Lemma dstepT : forall f total, dspecB f total -> dspecT (S f) total.
Proof.
  intros f total HB fl_in ety d s W Hf Dm Ds. unfold fuelT in Hf. rewrite read_tagged_eq. cbv zeta.
  set (se := wupd (w_enter d) s).
  assert (We : wwf total se) by (destruct W; split; auto).
  assert (De : wdmax (wst se) <= m + 1) by (unfold se; wproj; lia).
  unfold too_deep. rewrite Hm. destruct (Z.ltb_spec m d) as [TD|TD]. { apply dle_err; auto. }
  pose proof (next_word_ok total se We) as N.
  apply dle_map. { eapply dle_stepn; [apply wstep_n; exact N|auto]. }
  intros t s1 Eq D1. rewrite Eq in N. destruct N as (W1 & K1 & P1 & F1).
  destruct t; try (apply dle_err; auto).
  destruct (is_str w "EMPTY"). { destruct ety; [apply dle_ok|apply dle_err]; auto. }
  destruct (parse_type w) as [[[k z] mm]|]; [|apply dle_err; auto].
  apply dle_map.
  - apply HB; auto.
    + unfold wflat in F1. change (wdmax (wst se)) with (Z.max (wdmax (wst s)) d) in F1. lia.
    + unfold fuelB. destruct W as (X & _). destruct W1 as (X1 & _). change (wtoks (wst se)) with (wtoks (wst s)) in *. change (wpos (wst se)) with (wpos (wst s)) in *. lia.
  - intros [[g csz] nf] s2 _ D2. destruct (_ && _); [apply dle_err|apply dle_ok]; auto.
Qed.

Lemma depth_spec : forall fuel total, dspecT fuel total /\ dspecB fuel total /\ dspecP fuel total /\ dspecL fuel total /\ dspecE fuel total.
Proof.
  induction fuel as [|f IH]; intros total.
  - repeat split; intro; intros; unfold fuelT, fuelB, fuelL in *; lia.
  - destruct (IH total) as (HT & HB & HP & HL & HE).
    split; [apply dstepT; auto|]. split; [apply dstepB; auto|]. split; [apply dstepP; auto|]. split; [apply dstepL; auto|apply dstepE; auto].
Qed.
End DepthLimit.

(* ------------------------------------------------------------------ top level *)
Section WktTop.
Variable numval : list ascii -> Z.
Variable c : cfg.
Variable input : list ascii.
Let L := Z.of_nat (List.length input).

Lemma wwf_init : wwf L (winit input).
Proof. unfold wwf, winit; cbn. unfold L. lia. Qed.
Lemma wfuel_init : fuelT (winit input) (wkt_fuel input).
Proof. unfold fuelT, wkt_fuel, winit; cbn. lia. Qed.

Lemma wtop_post : wpost c L (winit input) 1 1 1 zf2 (read_tagged numval c (wkt_fuel input) fl_xy None 1 (winit input)).
Proof. apply (proj1 (descent_spec numval c (wkt_fuel input) L)). apply wwf_init. apply wfuel_init. Qed.

Lemma wkt_read_eq : wkt_read numval c input =
  match read_tagged numval c (wkt_fuel input) fl_xy None 1 (winit input) with
  | WOk gz s1 => match peek s1 with TEof => WOk gz s1 | _ => WErr EParse (wst s1) end
  | WErr e t => WErr e t | WFuel => WFuel
  end.
Proof. reflexivity. Qed.

(* read_total / fuel_sufficient *)
Theorem wkt_fuel_sufficient : wkt_read numval c input <> WFuel.
Proof.
  rewrite wkt_read_eq. pose proof wtop_post as P.
  destruct (read_tagged numval c (wkt_fuel input) fl_xy None 1 (winit input)) as [gz s1|e t|]; [|discriminate|contradiction].
  destruct (peek s1); discriminate.
Qed.

(* every final state is reached through the same accounting: consumed characters, tokens, ... *)
Lemma wkt_final : forall t, wfinal_stats (wkt_read numval c input) = Some t ->
  0 <= wpos t <= L /\ wtoks t <= wpos t + 1 /\ wacct wstats0 t 1 1.
Proof.
  intros t H. rewrite wkt_read_eq in H. pose proof wtop_post as P.
  destruct (read_tagged numval c (wkt_fuel input) fl_xy None 1 (winit input)) as [gz s1|e t1|]; [| |contradiction].
  - destruct P as ((W1 & W2) & K & P1 & A & Z). change (wst (winit input)) with wstats0 in *. cbn [wpos wtoks wstats0] in *.
    assert (t = wst s1) by (destruct (peek s1); cbn in H; inversion H; reflexivity). subst t.
    split; [lia|]. split; [lia|exact A].
  - destruct P as (NE & P1 & T & A). cbn in H. inversion H; subst. change (wst (winit input)) with wstats0 in *. cbn [wpos wtoks wstats0] in *.
    split; [unfold wacct in A; cbn [wpos wstats0] in A; lia|]. split; [lia|exact A].
Qed.

(* read_in_bounds: the position never passes the end of the input *)
Theorem wkt_in_bounds : forall t, wfinal_stats (wkt_read numval c input) = Some t -> 0 <= wpos t <= L.
Proof. intros t H. apply (wkt_final t H). Qed.

Theorem wkt_accounting : forall t, wfinal_stats (wkt_read numval c input) = Some t ->
  wtoks t <= L + 1 /\ 2 * wcoords t <= wtoks t /\ welems t <= wtoks t /\ wnodes t <= wtoks t /\
  wquad t <= wnodes t * (wdmax t + 1) /\ wdmax t <= wtoks t + 1 /\
  0 <= wcoords t /\ 0 <= welems t /\ 0 <= wnodes t /\ 0 <= wquad t /\ 0 <= wdmax t.
Proof.
  intros t H. destruct (wkt_final t H) as (B & T & A). unfold wacct in A. cbn [wpos wtoks wcoords welems wnodes wdmax wquad wstats0] in A.
  replace (wdmax t - 1 + 2) with (wdmax t + 1) in A by lia. repeat split; lia.
Qed.

Theorem wkt_ctor_guards : cc_guard c = true -> forall t, wkt_read numval c input <> WErr EUB t.
Proof.
  intros G t. rewrite wkt_read_eq. pose proof wtop_post as P.
  destruct (read_tagged numval c (wkt_fuel input) fl_xy None 1 (winit input)) as [gz s1|e t1|]; [| |contradiction].
  - destruct (peek s1); discriminate.
  - destruct P as ((_ & NU) & _). intro E. inversion E; subst. apply (NU G). reflexivity.
Qed.

Theorem wkt_depth_limited : forall m t, max_depth c = Some m -> 0 <= m -> wfinal_stats (wkt_read numval c input) = Some t -> wdmax t <= m + 1.
Proof.
  intros m t Hm M0 H. rewrite wkt_read_eq in H.
  pose proof (proj1 (depth_spec numval c m Hm (wkt_fuel input) L) fl_xy None 1 (winit input) wwf_init wfuel_init ltac:(lia) ltac:(cbn; lia)) as D.
  destruct (read_tagged numval c (wkt_fuel input) fl_xy None 1 (winit input)) as [gz s1|e t1|]; [| |discriminate].
  - assert (t = wst s1) by (destruct (peek s1); cbn in H; inversion H; reflexivity). subst t. apply (D (wst s1)). reflexivity.
  - apply (D t). exact H.
Qed.
End WktTop.
