(* C11 — tie G: the translated WKBReader::minMemSize (Gen/C11_minMemSize.v, regenerated from the clang AST of /repo on every run)
   is the check the model performs before every allocation.  A change of a multiplier, of the case table or of the comparison
   in the C++ breaks this proof. *)
From Coq Require Import ZArith Bool Lia.
From GeosV.C11 Require Import WKBDefs GenPreludeWKB.
From GeosV.Gen Require Import C11_minMemSize.
Local Open Scope Z_scope.

Theorem gen_minMemSize_eq : forall r tid n,
  gen_minMemSize (Some r) tid n = if r <? n * mm_mult tid then None else Some r.
Proof.
  intros r tid n. unfold gen_minMemSize, mm_mult, m_size_0, f_dis, throw.
  unfold E_GeometryTypeId_GEOS_LINESTRING, E_GeometryTypeId_GEOS_LINEARRING, E_GeometryTypeId_GEOS_CIRCULARSTRING,
    E_GeometryTypeId_GEOS_COMPOUNDCURVE, E_GeometryTypeId_GEOS_POINT, E_GeometryTypeId_GEOS_POLYGON, E_GeometryTypeId_GEOS_CURVEPOLYGON,
    E_GeometryTypeId_GEOS_MULTIPOINT, E_GeometryTypeId_GEOS_MULTILINESTRING, E_GeometryTypeId_GEOS_MULTICURVE,
    E_GeometryTypeId_GEOS_MULTIPOLYGON, E_GeometryTypeId_GEOS_MULTISURFACE, E_GeometryTypeId_GEOS_GEOMETRYCOLLECTION.
  cbv zeta.
  destruct (Z.eqb_spec tid 1); [subst; cbn; reflexivity|].
  destruct (Z.eqb_spec tid 2); [subst; cbn; reflexivity|].
  destruct (Z.eqb_spec tid 8); [subst; cbn; reflexivity|].
  destruct (Z.eqb_spec tid 9); [subst; cbn; reflexivity|].
  destruct (Z.eqb_spec tid 0); [subst; cbn; reflexivity|].
  destruct (Z.eqb_spec tid 3); [subst; cbn; reflexivity|].
  destruct (Z.eqb_spec tid 10); [subst; cbn; reflexivity|].
  destruct (Z.eqb_spec tid 4); [subst; cbn; reflexivity|].
  destruct (Z.eqb_spec tid 5); [subst; cbn; reflexivity|].
  destruct (Z.eqb_spec tid 11); [subst; cbn; reflexivity|].
  destruct (Z.eqb_spec tid 6); [subst; cbn; reflexivity|].
  destruct (Z.eqb_spec tid 12); [subst; cbn; reflexivity|].
  destruct (Z.eqb_spec tid 7); [subst; cbn; reflexivity|].
  cbn. replace (n * 0) with 0 by lia. reflexivity.
Qed.

(* the model's check, in the same vocabulary *)
Theorem min_mem_is_gen : forall tid n s, min_mem tid n s = match gen_minMemSize (Some (rem s)) tid n with Some _ => true | None => false end.
Proof. intros. rewrite gen_minMemSize_eq. unfold min_mem. destruct (rem s <? n * mm_mult tid); reflexivity. Qed.
