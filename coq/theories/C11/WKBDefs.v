(* C11 — executable model of geos::io::WKBReader (src/io/WKBReader.cpp, include/geos/io/ByteOrderDataInStream.h) together
   with the constructor-time validation it reaches (LineString / LinearRing / CircularString / CompoundCurve / Polygon /
   CurvePolygon ::validateConstruction, SurfaceImpl, GeometryCollection ctor).  Definitions only.

   The model reconstructs *structure* (types, counts, Z/M flags, SRID, first and last XY of each sequence — what the
   constructors look at) and accounts for *resources*:
     pos     bytes consumed                      coords  coordinates allocated by readCoordinateSequence
     slots   vector slots allocated by `std::vector<...> v(n)`        nodes   geometry headers read
     dmax    deepest readGeometry frame          quad    nodes visited by GeometryCollection::setSRID (ctor + readGeometry)
   What is abstracted, stated once:
   - the stream is the list of remaining bytes plus the counter `rem` (= end - buf); every bounds check of the C++ is made
     on `rem`, every read on the list; a read past the end of the list is the distinguished outcome EOob, which
     theorem read_in_bounds shows unreachable;
   - the coordinate loop of readCoordinateSequence is collapsed: after the minMemSize check and the allocation it needs
     n*dim*8 bytes; the ordinates between the first and the last coordinate are skipped;
   - ordinates are their 64 bit patterns; `==` on doubles is IEEE equality on the patterns; the precision model is
     floating (makePrecise is the identity), the host is little endian, fixStructure is off (C API defaults);
   - a constructor that indexes an empty sequence (CompoundCurve::validateConstruction on an empty section, finding F14)
     is the outcome EUB.
   Two switches describe the candidate fixes of /verif/proposed_fixes: max_depth (nesting limit, F2) and cc_guard (F14). *)
From Coq Require Import ZArith List Bool.
Import ListNotations.
Local Open Scope Z_scope.

(* fix_rings = the reader option setFixStructure (GEOSWKBReader_setFixStructure_r / GEOSWKTReader_setFixStructure_r; default off) *)
Record cfg := mkCfg { max_depth : option Z; cc_guard : bool; fix_rings : bool }.
Definition cfg_unchanged : cfg := mkCfg None false false.

Inductive error :=
| EEof            (* ByteOrderDataInStream: "Unexpected EOF parsing WKB" *)
| ETooSmall       (* minMemSize: "Input buffer is smaller than requested object size" *)
| EUnknownType    (* "Unknown WKB type" *)
| EChildType      (* readChild<T>: "Expected T but got ..." *)
| ECtor           (* IllegalArgumentException thrown by a geometry constructor *)
| ETooDeep        (* nesting limit of the candidate fix *)
| EUB             (* undefined behaviour: back()/front() on an empty sequence *)
| EOob            (* a read outside the input: never produced (theorem read_in_bounds) *)
| EParse.         (* ParseException of the WKT reader (WKTDefs.v) *)

Record stats := mkStats { pos : Z; coords : Z; slots : Z; nodes : Z; dmax : Z; quad : Z }.
Definition stats0 : stats := mkStats 0 0 0 0 0 0.

Record rd := mkRd { rest : list Z; rem : Z; big : bool; stt : stats }.

Definition init (input : list Z) : rd := mkRd input (Z.of_nat (length input)) false stats0.

(* consuming k bytes, the remaining list being l *)
Definition adv (k : Z) (l : list Z) (s : rd) : rd :=
  let t := stt s in
  mkRd l (rem s - k) (big s) (mkStats (pos t + k) (coords t) (slots t) (nodes t) (dmax t) (quad t)).
Definition upd (f : stats -> stats) (s : rd) : rd := mkRd (rest s) (rem s) (big s) (f (stt s)).
Definition add_coords (n : Z) (t : stats) := mkStats (pos t) (coords t + n) (slots t) (nodes t) (dmax t) (quad t).
Definition add_slots (n : Z) (t : stats) := mkStats (pos t) (coords t) (slots t + n) (nodes t) (dmax t) (quad t).
Definition add_node (t : stats) := mkStats (pos t) (coords t) (slots t) (nodes t + 1) (dmax t) (quad t).
Definition add_quad (n : Z) (t : stats) := mkStats (pos t) (coords t) (slots t) (nodes t) (dmax t) (quad t + n).
Definition enter (d : Z) (t : stats) := mkStats (pos t) (coords t) (slots t) (nodes t) (Z.max (dmax t) d) (quad t).
Definition set_big (b : bool) (s : rd) : rd := mkRd (rest s) (rem s) b (stt s).

Inductive res (A : Type) :=
| Ok (a : A) (s : rd)
| Err (e : error) (t : stats)
| Fuel.
Arguments Ok {A}. Arguments Err {A}. Arguments Fuel {A}.

(* ---- words ---- *)
Fixpoint le_word (l : list Z) : Z := match l with [] => 0 | b :: t => b + 256 * le_word t end.
Definition word (bigend : bool) (l : list Z) : Z := if bigend then le_word (rev l) else le_word l.

Fixpoint skipz (l : list Z) (n : Z) : list Z :=
  match l with [] => [] | _ :: t => if n <=? 0 then l else skipz t (n - 1) end.

(* ---- primitive reads (ByteOrderDataInStream) ---- *)
Definition read_byte (s : rd) : res Z :=
  if rem s <? 1 then Err EEof (stt s) else
  match rest s with b :: l => Ok b (adv 1 l s) | _ => Err EOob (stt s) end.
Definition read_u32 (s : rd) : res Z :=
  if rem s <? 4 then Err EEof (stt s) else
  match rest s with a :: b :: c :: d :: l => Ok (word (big s) [a; b; c; d]) (adv 4 l s) | _ => Err EOob (stt s) end.
Definition to_i32 (v : Z) : Z := if 2147483648 <=? v then v - 4294967296 else v.
(* an 8-byte word at the head of a list (no state change); None = fewer than 8 bytes *)
Definition peek_f64 (bigend : bool) (l : list Z) : option Z :=
  match l with a :: b :: c :: d :: e :: f :: g :: h :: _ => Some (word bigend [a; b; c; d; e; f; g; h]) | _ => None end.

(* ---- doubles as bit patterns ---- *)
Definition d_isnan (b : Z) : bool := 9218868437227405312 <? b mod 9223372036854775808.   (* 0x7FF0.. < b mod 2^63 *)
Definition d_iszero (b : Z) : bool := b mod 9223372036854775808 =? 0.
Definition d_eq (a b : Z) : bool := negb (d_isnan a) && negb (d_isnan b) && ((a =? b) || (d_iszero a && d_iszero b)).

(* ---- the geometry tree, as far as the constructors and the structure comparison need it ---- *)
(* ctame: every X and Y of the sequence is an integer of magnitude < 128.  It matters for circular strings only: their
   constructor computes the envelope of every arc in floating point (CircularArcs::expandEnvelope) and
   Orientation::index / Quadrant::quadrant throw when the centre comes out non-finite or coincident; on tame arcs all
   intermediate values are exact integers below 2^53 and nothing throws.  For the other arcs the model does not decide
   between "accepted" and "IllegalArgumentException from the constructor" (g_risky below). *)
Record cseq := mkSeq { cn : Z; cfx : Z; cfy : Z; clx : Z; cly : Z; cz : bool; cm : bool; ctame : bool }.
Definition seq_empty (hz hm : bool) : cseq := mkSeq 0 0 0 0 0 hz hm true.
Definition tame_bits (b : Z) : bool :=
  let a := b mod 9223372036854775808 in
  if a =? 0 then true else
  let e := a / 4503599627370496 in
  let m := a mod 4503599627370496 in
  (1023 <=? e) && (e <=? 1029) && (m mod (2 ^ (52 - (e - 1023))) =? 0).
Inductive geom :=
| GPoint (s : cseq)                    (* cn = 0 or 1 *)
| GLine (s : cseq)
| GCirc (s : cseq)
| GPoly (rings : list cseq)            (* shell :: holes; the shell is always present (possibly empty) *)
| GNest (k : Z) (l : list geom).       (* k = WKB type code: 9 CompoundCurve, 10 CurvePolygon, 4 5 6 7 11 12 collections *)

Definition closed2 (s : cseq) : bool := d_eq (cfx s) (clx s) && d_eq (cfy s) (cly s).
(* LineString::validateConstruction *)
Definition line_ok (s : cseq) : bool := negb (cn s =? 1).
(* LinearRing::validateConstruction (after LineString's) *)
(* CoordinateSequence::closeRing (called by the readers under fix-structure when !isRing()): a non-empty sequence whose first and
   last XY differ gets its first point appended; an EMPTY sequence is left alone (the guard the ring readers rely on) *)
Definition close_ring (s : cseq) : cseq :=
  if (cn s =? 0) || closed2 s then s else mkSeq (cn s + 1) (cfx s) (cfy s) (cfx s) (cfy s) (cz s) (cm s) (ctame s).
Definition fixed_ring (fx : bool) (s : cseq) : cseq := if fx then close_ring s else s.
Definition ring_ok (s : cseq) : bool := (cn s =? 0) || (line_ok s && closed2 s && (3 <=? cn s)).
(* CircularString::validateConstruction *)
Definition circ_ok (s : cseq) : bool := negb (cn s =? 2).

Fixpoint g_risky (g : geom) : bool :=
  match g with
  | GCirc s => (3 <=? cn s) && negb (ctame s)
  | GNest _ l => (fix any (l : list geom) : bool := match l with [] => false | x :: t => g_risky x || any t end) l
  | _ => false
  end.
Fixpoint g_empty (g : geom) : bool :=
  match g with
  | GPoint s | GLine s | GCirc s => cn s =? 0
  | GPoly rings => match rings with [] => true | sh :: _ => cn sh =? 0 end
  | GNest k l => (fix all (l : list geom) : bool := match l with [] => true | x :: t => g_empty x && all t end) l
  end.

(* the sequence of a SimpleCurve *)
Definition curve_seq (g : geom) : option cseq := match g with GLine s | GCirc s => Some s | _ => None end.

(* CompoundCurve::validateConstruction: for i >= 1 compare back() of section i-1 with front() of section i *)
Fixpoint compound_scan (guard : bool) (prev : cseq) (l : list geom) : option error :=
  match l with
  | [] => None
  | g :: t =>
    match curve_seq g with
    | None => Some EChildType
    | Some s =>
      if (cn prev =? 0) || (cn s =? 0) then Some (if guard then ECtor else EUB)
      else if d_eq (clx prev) (cfx s) && d_eq (cly prev) (cfy s) then compound_scan guard s t
      else Some ECtor
    end
  end.
Definition compound_check (guard : bool) (l : list geom) : option error :=
  match l with
  | [] => None
  | g :: t => match curve_seq g with None => Some EChildType | Some s => compound_scan guard s t end
  end.
(* SurfaceImpl ctor: "shell is empty but holes are not" *)
Definition surface_check (l : list geom) : option error :=
  match l with
  | [] => None
  | sh :: holes => if g_empty sh && existsb (fun h => negb (g_empty h)) holes then Some ECtor else None
  end.
Definition poly_check (rings : list cseq) : option error :=
  match rings with
  | [] => None
  | sh :: holes => if (cn sh =? 0) && existsb (fun h => negb (cn h =? 0)) holes then Some ECtor else None
  end.
Definition ctor_check (c : cfg) (k : Z) (l : list geom) : option error :=
  if k =? 9 then compound_check (cc_guard c) l else if k =? 10 then surface_check l else None.

(* readChild<T>: which results a container of WKB type k accepts *)
Definition fits (k : Z) (g : geom) : bool :=
  match g with
  | GPoint _ => (k =? 4) || (k =? 7)
  | GLine _ => (k =? 5) || (k =? 7) || (k =? 9) || (k =? 10) || (k =? 11)
  | GCirc _ => (k =? 7) || (k =? 9) || (k =? 10) || (k =? 11)
  | GPoly _ => (k =? 6) || (k =? 7) || (k =? 12)
  | GNest j _ => (k =? 7) || ((j =? 9) && ((k =? 10) || (k =? 11))) || ((j =? 10) && (k =? 12))
  end.
(* collections derive from GeometryCollection: ctor and setSRID walk the whole collection subtree *)
Definition is_coll (k : Z) : bool := (k =? 4) || (k =? 5) || (k =? 6) || (k =? 7) || (k =? 11) || (k =? 12).

(* ---- WKBReader::minMemSize ---- GeometryTypeId values are those of include/geos/geom/Geometry.h; tied to the code by
   the translated unit Gen/C11_minMemSize.v (theorem gen_minMemSize_eq) *)
Definition mm_mult (tid : Z) : Z :=
  if (tid =? 1) || (tid =? 2) || (tid =? 8) || (tid =? 9) || (tid =? 0) then 16
  else if (tid =? 3) || (tid =? 10) then 4
  else if tid =? 4 then 21
  else if (tid =? 5) || (tid =? 11) then 9
  else if (tid =? 6) || (tid =? 12) then 9
  else if tid =? 7 then 9
  else 0.
Definition min_mem (tid n : Z) (s : rd) : bool := negb (rem s <? n * mm_mult tid).
(* the GeometryTypeId each reader passes for a container of WKB type k (readCurvePolygon passes GEOS_POLYGON) *)
Definition mm_tid (k : Z) : Z :=
  if k =? 9 then 9 else if k =? 10 then 3 else if k =? 4 then 4 else if k =? 5 then 5 else if k =? 6 then 6
  else if k =? 7 then 7 else if k =? 11 then 11 else 12.

(* ---- readCoordinateSequence(n) with flags hz hm ---- *)
Definition dim_of (hz hm : bool) : Z := 2 + (if hz then 1 else 0) + (if hm then 1 else 0).
Fixpoint all_tame (k : nat) (bigend : bool) (stride : Z) (l : list Z) : bool :=
  match k with
  | O => true
  | S k' => match peek_f64 bigend l, peek_f64 bigend (skipz l 8) with
            | Some x, Some y => tame_bits x && tame_bits y && all_tame k' bigend stride (skipz l stride)
            | _, _ => false
            end
  end.
(* scan: look at every XY (circular strings only) *)
Definition read_seq (scan : bool) (n : Z) (hz hm : bool) (s : rd) : res cseq :=
  if negb (min_mem 1 n s) then Err ETooSmall (stt s) else
  let s := upd (add_coords n) s in
  if n =? 0 then Ok (seq_empty hz hm) s else
  let stride := 8 * dim_of hz hm in
  let need := n * stride in
  if rem s <? need then Err EEof (stt s) else
  let l1 := skipz (rest s) ((n - 1) * stride) in
  match peek_f64 (big s) (rest s), peek_f64 (big s) (skipz (rest s) 8),
        peek_f64 (big s) l1, peek_f64 (big s) (skipz l1 8) with
  | Some fx, Some fy, Some lx, Some ly =>
    match skipz l1 (stride - 1) with                  (* the last byte of the last coordinate must exist *)
    | _ :: l2 => Ok (mkSeq n fx fy lx ly hz hm (if scan then all_tame (Z.to_nat n) (big s) stride (rest s) else true)) (adv need l2 s)
    | [] => Err EOob (stt s)
    end
  | _, _, _, _ => Err EOob (stt s)
  end.

(* readPoint *)
Definition read_point (hz hm : bool) (s : rd) : res geom :=
  match read_seq false 1 hz hm s with
  | Ok q s' => if d_isnan (cfx q) && d_isnan (cfy q) then Ok (GPoint (seq_empty hz hm)) s' else Ok (GPoint q) s'
  | Err e t => Err e t
  | Fuel => Fuel
  end.
(* readLineString / readCircularString / readLinearRing: count, minMemSize, sequence, constructor *)
Definition read_counted_seq (tid : Z) (hz hm : bool) (s : rd) : res cseq :=
  match read_u32 s with
  | Ok n s1 => if negb (min_mem tid n s1) then Err ETooSmall (stt s1) else read_seq (tid =? 8) n hz hm s1
  | Err e t => Err e t
  | Fuel => Fuel
  end.
Definition read_line (hz hm : bool) (s : rd) : res geom :=
  match read_counted_seq 1 hz hm s with
  | Ok q s' => if line_ok q then Ok (GLine q) s' else Err ECtor (stt s')
  | Err e t => Err e t | Fuel => Fuel
  end.
Definition read_circ (hz hm : bool) (s : rd) : res geom :=
  match read_counted_seq 8 hz hm s with
  | Ok q s' => if circ_ok q then Ok (GCirc q) s' else Err ECtor (stt s')
  | Err e t => Err e t | Fuel => Fuel
  end.
Definition read_ring (fx hz hm : bool) (s : rd) : res cseq :=
  match read_counted_seq 2 hz hm s with
  | Ok q s' => if ring_ok (fixed_ring fx q) then Ok (fixed_ring fx q) s' else Err ECtor (stt s')
  | Err e t => Err e t | Fuel => Fuel
  end.
Fixpoint read_rings (fuel : nat) (n : Z) (fx hz hm : bool) (s : rd) : res (list cseq) :=
  if n <=? 0 then Ok [] s else
  match fuel with
  | O => Fuel
  | S f =>
    match read_ring fx hz hm s with
    | Ok q s1 => match read_rings f (n - 1) fx hz hm s1 with
                 | Ok l s2 => Ok (q :: l) s2
                 | Err e t => Err e t | Fuel => Fuel
                 end
    | Err e t => Err e t | Fuel => Fuel
    end
  end.
(* readPolygon *)
Definition read_polygon (fuel : nat) (fx hz hm : bool) (s : rd) : res geom :=
  match read_u32 s with
  | Ok n s1 =>
    if negb (min_mem 3 n s1) then Err ETooSmall (stt s1) else
    if n =? 0 then Ok (GPoly [seq_empty hz hm]) s1 else
    match read_ring fx hz hm s1 with
    | Ok sh s2 =>
      let s3 := if 1 <? n then upd (add_slots (n - 1)) s2 else s2 in
      match read_rings fuel (n - 1) fx hz hm s3 with
      | Ok holes s4 => match poly_check (sh :: holes) with
                       | Some e => Err e (stt s4)
                       | None => Ok (GPoly (sh :: holes)) s4
                       end
      | Err e t => Err e t | Fuel => Fuel
      end
    | Err e t => Err e t | Fuel => Fuel
    end
  | Err e t => Err e t | Fuel => Fuel
  end.

(* ---- readGeometry: header ---- *)
Record header := mkHdr { h_type : Z; h_z : bool; h_m : bool; h_srid : Z }.
Definition read_header (s : rd) : res header :=
  match read_byte s with
  | Ok bo s1 =>
    let s1 := if bo =? 1 then set_big false s1 else if bo =? 0 then set_big true s1 else s1 in
    match read_u32 s1 with
    | Ok ty s2 =>
      let low := Z.land ty 65535 in
      let gt := low mod 1000 in
      let iso := low / 1000 in
      let hz := negb (Z.land ty 2147483648 =? 0) || (iso =? 1) || (iso =? 3) in
      let hm := negb (Z.land ty 1073741824 =? 0) || (iso =? 2) || (iso =? 3) in
      if negb (Z.land ty 536870912 =? 0) then
        match read_u32 s2 with
        | Ok v s3 => Ok (mkHdr gt hz hm (to_i32 v)) s3
        | Err e t => Err e t | Fuel => Fuel
        end
      else Ok (mkHdr gt hz hm 0) s2
    | Err e t => Err e t | Fuel => Fuel
    end
  | Err e t => Err e t | Fuel => Fuel
  end.

Definition is_container (k : Z) : bool := (k =? 9) || (k =? 10) || is_coll k.
Definition too_deep (c : cfg) (d : Z) : bool := match max_depth c with Some m => m <? d | None => false end.

(* ---- readGeometry / the child loops ----
   read_geom returns the geometry and csz = the number of nodes GeometryCollection::setSRID visits on it. *)
Fixpoint read_geom (c : cfg) (fuel : nat) (d : Z) (s : rd) {struct fuel} : res (geom * Z) :=
  match fuel with
  | O => Fuel
  | S f =>
    let s := upd (enter d) s in
    if too_deep c d then Err ETooDeep (stt s) else
    match read_header s with
    | Ok h s1 =>
      let s1 := upd add_node s1 in
      let k := h_type h in
      let fin (r : res geom) : res (geom * Z) :=
        match r with
        | Ok g s' => Ok (g, 1) (upd (add_quad 2) s')
        | Err e t => Err e t | Fuel => Fuel
        end in
      if k =? 1 then fin (read_point (h_z h) (h_m h) s1)
      else if k =? 2 then fin (read_line (h_z h) (h_m h) s1)
      else if k =? 8 then fin (read_circ (h_z h) (h_m h) s1)
      else if k =? 3 then fin (read_polygon f (fix_rings c) (h_z h) (h_m h) s1)
      else if is_container k then
        match read_u32 s1 with
        | Ok n s2 =>
          if negb (min_mem (mm_tid k) n s2) then Err ETooSmall (stt s2) else
          (* CURVEPOLYGON with no ring: createCurvePolygon(hasZ, hasM) builds it around an empty LinearRing *)
          if (k =? 10) && (n =? 0) then Ok (GNest 10 [GLine (seq_empty (h_z h) (h_m h))], 1) (upd (add_quad 2) s2) else
          (* readCurvePolygon reads the shell before it allocates the vector of holes *)
          let pre := if (k =? 10) && (1 <=? n) then 1 else 0 in
          match read_children c f d k pre s2 with
          | Ok (l1, z1) s3 =>
            let s4 := upd (add_slots (n - pre)) s3 in
            match read_children c f d k (n - pre) s4 with
            | Ok (l2, z2) s5 =>
              match ctor_check c k (l1 ++ l2) with
              | Some e => Err e (stt s5)
              | None =>
                let csz := if is_coll k then 1 + z1 + z2 else 1 in
                Ok (GNest k (l1 ++ l2), csz) (upd (add_quad (2 * csz)) s5)
              end
            | Err e t => Err e t | Fuel => Fuel
            end
          | Err e t => Err e t | Fuel => Fuel
          end
        | Err e t => Err e t | Fuel => Fuel
        end
      else Err EUnknownType (stt s1)
    | Err e t => Err e t | Fuel => Fuel
    end
  end
with read_children (c : cfg) (fuel : nat) (d : Z) (k : Z) (n : Z) (s : rd) {struct fuel} : res (list geom * Z) :=
  if n <=? 0 then Ok ([], 0) s else
  match fuel with
  | O => Fuel
  | S f =>
    match read_geom c f (d + 1) s with
    | Ok (g, z) s1 =>
      if negb (fits k g) then Err EChildType (stt s1) else
      match read_children c f d k (n - 1) s1 with
      | Ok (l, zs) s2 => Ok (g :: l, z + zs) s2
      | Err e t => Err e t | Fuel => Fuel
      end
    | Err e t => Err e t | Fuel => Fuel
    end
  end.

(* WKBReader::read(buf, size): fuel = |input| + 1 is enough (theorem fuel_sufficient) *)
Definition wkb_read (c : cfg) (input : list Z) : res (geom * Z) :=
  read_geom c (S (length input)) 1 (init input).

(* the SRID of the result: readGeometry's setSRID of the outermost header wins *)
Definition top_srid (input : list Z) : Z :=
  match read_header (init input) with Ok h _ => h_srid h | _ => 0 end.

Definition final_stats {A} (r : res A) : option stats :=
  match r with Ok _ s => Some (stt s) | Err _ t => Some t | Fuel => None end.

(* ---- HEX front end (WKBReader::readHEX) ---- *)
Definition hex_val (ch : Z) : option Z :=
  if (48 <=? ch) && (ch <=? 57) then Some (ch - 48)
  else if (65 <=? ch) && (ch <=? 70) then Some (ch - 55)
  else if (97 <=? ch) && (ch <=? 102) then Some (ch - 87)
  else None.
Fixpoint hex_decode (l : list Z) : option (list Z) :=
  match l with
  | [] => Some []
  | [_] => None                                   (* "Premature end of HEX string" *)
  | hi :: lo :: t =>
    match hex_val hi, hex_val lo, hex_decode t with
    | Some a, Some b, Some r => Some (16 * a + b :: r)
    | _, _, _ => None                             (* "Invalid HEX char" *)
    end
  end.
