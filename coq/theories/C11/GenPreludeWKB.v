(* meanings of the names the translator emits for WKBReader::minMemSize (unit C11_minMemSize):
   the reader object is abstracted to the number of bytes left in its stream (`dis.size()`), None once it has thrown *)
From Coq Require Import ZArith.
Definition f_dis (st : option Z) : option Z := st.
Definition m_size_0 (d : option Z) : Z := match d with Some r => r | None => 0%Z end.
Definition throw : option Z := None.
