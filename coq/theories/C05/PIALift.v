(* C05/PIALift — from the segment pair to the ring: ValidDefs.ring_self_set r (rule 6: ring self-intersection) is non-empty
   exactly when the generated findInvalidIntersection flags one of the pairs the specification enumerates. *)
From Coq Require Import ZArith List Bool Lia.
From GeosV.Lib Require Import KernelDefs.
From GeosV.Lib Require GeomDefs LocateDefs ValidDefs.
From GeosV.C05 Require Import PreludePIA PIA PIABridge.
Import ListNotations.
Local Open Scope Z_scope.

Lemma flat_map_nonnil {A B} (f : A -> list B) l : flat_map f l <> [] <-> exists x, In x l /\ f x <> [].
Proof.
  induction l as [|a t IH]; cbn [flat_map In]; [split; [congruence|intros (x & [] & _)]|].
  split.
  - intros H. destruct (f a) eqn:E.
    + cbn [app] in H. apply IH in H. destruct H as (x & Hx & Hf). exists x. split; [right; exact Hx|exact Hf].
    + exists a. split; [left; reflexivity|congruence].
  - intros (x & [<-|Hx] & Hf).
    + destruct (f a); [congruence|discriminate].
    + intros H. apply app_eq_nil in H. destruct H as [_ H]. revert H. apply IH. exists x. split; assumption.
Qed.

Lemma in_index_from {A} (l : list A) k n a : In (n, a) (ValidDefs.index_from k l) -> (k <= n < k + length l)%nat /\ nth_error l (n - k) = Some a.
Proof.
  revert k. induction l as [|b t IH]; intros k; cbn [ValidDefs.index_from In length]; [intros []|].
  intros [E|H].
  - inversion E. subst. rewrite Nat.sub_diag. split; [lia|reflexivity].
  - apply IH in H. destruct H as [R N]. split; [lia|]. replace (n - k)%nat with (S (n - S k)) by lia. exact N.
Qed.

Lemma in_pairs_index {A} (l : list A) k x y : In (x, y) (ValidDefs.pairs (ValidDefs.index_from k l)) ->
  (k <= fst x < fst y)%nat /\ (fst y < k + length l)%nat /\ nth_error l (fst x - k) = Some (snd x) /\ nth_error l (fst y - k) = Some (snd y).
Proof.
  revert k. induction l as [|b t IH]; intros k; cbn [ValidDefs.index_from ValidDefs.pairs In length]; [intros []|].
  rewrite in_app_iff, in_map_iff. intros [(y' & E & H)|H].
  - inversion E. subst. destruct y as [n a]. apply in_index_from in H. destruct H as [R N]. cbn [fst snd].
    rewrite Nat.sub_diag. split; [lia|]. split; [lia|]. split; [reflexivity|]. replace (n - k)%nat with (S (n - S k)) by lia. exact N.
  - apply IH in H. destruct H as (R1 & R2 & N1 & N2). split; [lia|]. split; [lia|]. split.
    + replace (fst x - k)%nat with (S (fst x - S k)) by lia. exact N1.
    + replace (fst y - k)%nat with (S (fst y - S k)) by lia. exact N2.
Qed.

Lemma nth_error_segs (r : list pt) i s : nth_error (GeomDefs.segs r) i = Some s -> nth i r (0, 0) = fst s /\ nth (S i) r (0, 0) = snd s.
Proof.
  unfold GeomDefs.segs. revert i. induction r as [|a t IH]; intros i; [destruct i; discriminate|].
  cbn [tl]. destruct t as [|b t']; [destruct i; discriminate|]. destruct i as [|i]; cbn [combine nth_error nth].
  - intros E. inversion E. split; reflexivity.
  - intros E. apply (IH i) in E. exact E.
Qed.

Lemma segs_length (r : list pt) : r <> [] -> length r = S (length (GeomDefs.segs r)).
Proof.
  induction r as [|a t IH]; [congruence|]. intros _. destruct t as [|b t']; [reflexivity|].
  change (GeomDefs.segs (a :: b :: t')) with ((a, b) :: GeomDefs.segs (b :: t')). cbn [length]. f_equal. apply IH. discriminate.
Qed.

Lemma events_split evs : ValidDefs.bad_pts evs ++ map LocateDefs.hp (ValidDefs.touch_pts evs) = [] <-> evs = [].
Proof.
  split; [|intros ->; reflexivity]. destruct evs as [|[q|p] t]; [reflexivity| |]; cbn; intros H; [discriminate|].
  apply app_eq_nil in H. destruct H as [_ H]. discriminate.
Qed.

Section Lift.
  Variable isCrossing : pt -> pt -> pt -> pt -> pt -> bool.
  Variable addSelfTouch : piast -> segstr -> pt -> pt -> pt -> pt -> pt -> piast.
  Variable addDoubleTouch : piast -> segstr -> segstr -> pt -> bool.

  Theorem gen_ring_self_rule st id (r : list pt) :
    f_isInvertedRingValid st = false -> (forall s, In s (GeomDefs.segs r) -> fst s <> snd s) ->
    let ss := mkSS id r in
    (ValidDefs.ring_self_set r <> [] <->
     exists pq, In pq (ValidDefs.pairs (ValidDefs.index_from 0 (GeomDefs.segs r))) /\
                snd (gen_find isCrossing addSelfTouch addDoubleTouch st ss (Z.of_nat (fst (fst pq))) ss (Z.of_nat (fst (snd pq)))) <> NO_ERROR).
  Proof.
    intros Hinv Hnd ss. unfold ValidDefs.ring_self_set. rewrite events_split. unfold ValidDefs.self_events. rewrite flat_map_nonnil.
    assert (Hlen : forall l : list (pt * pt), length (ValidDefs.index_from 0 l) = length l).
    { intros l. generalize 0%nat. induction l; intros k; cbn; [reflexivity|]. rewrite IHl. reflexivity. }
    rewrite Hlen.
    assert (K : forall pq, In pq (ValidDefs.pairs (ValidDefs.index_from 0 (GeomDefs.segs r))) ->
      (snd (gen_find isCrossing addSelfTouch addDoubleTouch st ss (Z.of_nat (fst (fst pq))) ss (Z.of_nat (fst (snd pq)))) = NO_ERROR <->
       ValidDefs.seg_events (ValidDefs.adjacent (length (GeomDefs.segs r)) (fst (fst pq)) (fst (snd pq))) (snd (fst pq)) (snd (snd pq)) = [])).
    { intros [x y] Hin. apply in_pairs_index in Hin. destruct Hin as (R1 & R2 & N1 & N2). rewrite Nat.sub_0_r in N1, N2. cbn [fst snd].
      pose proof (nth_error_In _ _ N1) as I1. pose proof (nth_error_In _ _ N2) as I2.
      apply nth_error_segs in N1, N2. destruct N1 as [A1 A2], N2 as [B1 B2].
      assert (Hsz : m_size_0 ss = Z.of_nat (S (length (GeomDefs.segs r)))).
      { unfold m_size_0, ss. cbn [ss_pts]. f_equal. apply segs_length. intros ->. cbn in R2. lia. }
      pose proof (gen_find_ring_pair isCrossing addSelfTouch addDoubleTouch st ss (length (GeomDefs.segs r)) (fst x) (fst y) Hinv ltac:(lia) ltac:(lia) Hsz) as P.
      cbv zeta in P. unfold m_getCoordinate_1 in P. replace (Z.of_nat (fst x) + 1) with (Z.of_nat (S (fst x))) in P by lia.
      replace (Z.of_nat (fst y) + 1) with (Z.of_nat (S (fst y))) in P by lia. rewrite !Nat2Z.id in P. cbn [fst snd] in P. change (ss_pts ss) with r in P.
      rewrite A1, A2, B1, B2 in P. rewrite <- !surjective_pairing in P. apply P; [apply Hnd; exact I1|apply Hnd; exact I2]. }
    split.
    - intros (pq & Hin & Hev). exists pq. split; [exact Hin|]. intros E. apply (K pq Hin) in E. apply Hev. exact E.
    - intros (pq & Hin & Hc). exists pq. split; [exact Hin|]. intros E. apply Hc. apply (K pq Hin). exact E.
  Qed.
End Lift.
