(* C05/PreludeIVO — meaning of the names in the generated IsValidOp units (V_checkRingClosed, V_checkTooFewPoints,
   V_checkRingPointSize).  Definitions only.
   * a LineString / LinearRing is its coordinate list (grid points, Lib.GeomDefs.seq);
   * the IsValidOp object is its `validErr`: None, or the logged (code, location) — logInvalid overwrites;
   * LineString::isClosed (non-empty and first = last in 2D), isEmpty, getNumPoints, getCoordinateN / getAt are the list
     readings below;
   * IsValidOp::isNonRepeatedSizeAtLeast is NOT generated (its loop carries a nullable pointer and returns from inside):
     it is read as "the number of points after removing repeated consecutive points is >= minSize" (hand reading, tied
     by the too-few-points stream of the correspondence only). *)
From Coq Require Import ZArith List Bool.
From GeosV.Lib Require Import GeomDefs.
Import ListNotations.
Local Open Scope Z_scope.

Definition zneb (a b : Z) := negb (Z.eqb a b).
Definition ivost := option (Z * pt).
Definition m_logInvalid_2 (st : ivost) (code : Z) (p : pt) : ivost := Some (code, p).
Definition m_isEmpty_0 (l : seq) : bool := match l with [] => true | _ => false end.
Definition m_isClosed_0 (l : seq) : bool := match l with [] => false | a :: _ => pt_eqb a (last l a) end.
Definition m_getNumPoints_0 (l : seq) : Z := Z.of_nat (length l).
Definition m_getCoordinateN_1 (l : seq) (i : Z) : pt := nth (Z.to_nat i) l (0, 0).
Definition m_getCoordinatesRO_0 (l : seq) : seq := l.
Definition m_getAt_1 (l : seq) (i : Z) : pt := nth (Z.to_nat i) l (0, 0).
Definition mk_Coordinate_0 (_ : unit) : pt := (0, 0).      (* Coordinate(): (0, 0) — only reached for a sequence without points *)
Definition m_isNonRepeatedSizeAtLeast_2 (st : ivost) (l : seq) (minSize : Z) : bool := minSize <=? Z.of_nat (length (dedup l)).
(* grid coordinates are finite: checkCoordinatesValid logs nothing (non-finite ordinates are outside the integer model) *)
Definition m_checkCoordinatesValid_1 (st : ivost) (l : seq) : ivost := st.
Definition m_hasInvalidError_0 (st : ivost) : bool := match st with Some _ => true | None => false end.
Notation seq := GeosV.Lib.GeomDefs.seq (only parsing).
