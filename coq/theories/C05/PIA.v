(* C05/PIA — the generated PolygonIntersectionAnalyzer::findInvalidIntersection / isAdjacentInRing / prevCoordinateInRing
   decide, per segment pair, what the exact kernel classification (Lib.KernelDefs.seg_class, sound and complete for the
   common points of two closed segments: Lib.KernelSeg.seg_class_spec) and the ring adjacency of Lib.ValidDefs say. *)
From Coq Require Import ZArith List Bool Lia.
From GeosV.Lib Require Import KernelDefs.
From GeosV.C07 Require GenTie PreludeLI.
From GeosV.C05 Require Import PreludePIA.
From GeosV.Gen Require V_isAdjacentInRing V_prevCoordinateInRing V_findInvalidIntersection V_checkRingClosed V_checkTooFewPoints.
Import ListNotations.
Local Open Scope Z_scope.

Definition NO_ERROR := V_findInvalidIntersection.E_errorEnum_oNoInvalidIntersection.
Definition SELF_INTERSECTION := V_findInvalidIntersection.E_errorEnum_eSelfIntersection.
Definition RING_SELF_INTERSECTION := V_findInvalidIntersection.E_errorEnum_eRingSelfIntersection.

(* segments i, j of a ring with n points (n - 1 segments, indices 0 .. n-2) are adjacent: consecutive, or first and last *)
Definition adjacent_z (n i j : Z) : bool := (Z.abs (i - j) <=? 1) || (Z.abs (i - j) >=? n - 2).

Lemma gen_isAdjacent_eq ss i j : V_isAdjacentInRing.g_isAdjacentInRing ss i j = adjacent_z (m_size_0 ss) i j.
Proof.
  unfold V_isAdjacentInRing.g_isAdjacentInRing, adjacent_z.
  assert (E : (if i >? j then i - j else j - i) = Z.abs (i - j)).
  { rewrite Z.gtb_ltb. destruct (j <? i) eqn:L; [apply Z.ltb_lt in L|apply Z.ltb_ge in L]; lia. }
  cbv zeta. rewrite E. destruct (Z.abs (i - j) <=? 1); [reflexivity|]. destruct (Z.abs (i - j) >=? m_size_0 ss - 2); reflexivity.
Qed.

(* ValidDefs.adjacent m i j (i < j, m segments) on naturals is the same predicate *)
Lemma adjacent_z_nat (m i j : nat) : (i < j)%nat -> (j < m)%nat ->
  adjacent_z (Z.of_nat (S m)) (Z.of_nat i) (Z.of_nat j) = (Nat.eqb j (S i) || (Nat.eqb i 0 && Nat.eqb (S j) m))%bool.
Proof.
  intros Hij Hjm. unfold adjacent_z.
  destruct (Nat.eqb j (S i)) eqn:E1; [apply Nat.eqb_eq in E1|apply Nat.eqb_neq in E1].
  - replace (Z.abs (Z.of_nat i - Z.of_nat j) <=? 1) with true by (symmetry; apply Z.leb_le; lia). reflexivity.
  - replace (Z.abs (Z.of_nat i - Z.of_nat j) <=? 1) with false by (symmetry; apply Z.leb_gt; lia). cbn [orb].
    destruct (Nat.eqb i 0) eqn:E2; [apply Nat.eqb_eq in E2|apply Nat.eqb_neq in E2]; cbn [andb].
    + destruct (Nat.eqb (S j) m) eqn:E3; [apply Nat.eqb_eq in E3|apply Nat.eqb_neq in E3].
      * rewrite Z.geb_leb. apply Z.leb_le. lia.
      * rewrite Z.geb_leb. apply Z.leb_gt. lia.
    + rewrite Z.geb_leb. apply Z.leb_gt. lia.
Qed.

Definition prev_pt (ss : segstr) (i : Z) : pt :=
  if i =? 0 then m_getCoordinate_1 ss (m_size_0 ss - 2) else m_getCoordinate_1 ss (i - 1).
Lemma gen_prev_eq ss i : V_prevCoordinateInRing.g_prevCoordinateInRing ss i = prev_pt ss i.
Proof. unfold V_prevCoordinateInRing.g_prevCoordinateInRing, prev_pt. cbv zeta. destruct (i =? 0); reflexivity. Qed.

Section PIA.
  Variable isCrossing : pt -> pt -> pt -> pt -> pt -> bool.
  Variable addSelfTouch : piast -> segstr -> pt -> pt -> pt -> pt -> pt -> piast.
  Variable addDoubleTouch : piast -> segstr -> segstr -> pt -> bool.
  Definition gen_find := V_findInvalidIntersection.g_findInvalidIntersection isCrossing addSelfTouch addDoubleTouch.

  (* the decision, as a function of the kernel classification `cls` of the two segments *)
  Definition pair_code (inverted same adj : bool) (cls : seg_res) (p00 p01 p10 p11 prev0 prev1 : pt) : Z :=
    match cls with
    | SegNone => NO_ERROR
    | SegPoint true _ => SELF_INTERSECTION
    | SegCollinear _ _ => SELF_INTERSECTION
    | SegPoint false x =>
        let ip := PreludeLI.unq x in
        if same && adj then NO_ERROR
        else if same && negb inverted then RING_SELF_INTERSECTION
        else if pt_eqb ip p01 || pt_eqb ip p11 then NO_ERROR
        else if isCrossing ip (if pt_eqb ip p00 then prev0 else p00) p01 (if pt_eqb ip p10 then prev1 else p10) p11
             then SELF_INTERSECTION else NO_ERROR
    end.

  Theorem gen_find_code st ss0 i ss1 j :
    let p00 := m_getCoordinate_1 ss0 i in let p01 := m_getCoordinate_1 ss0 (i + 1) in
    let p10 := m_getCoordinate_1 ss1 j in let p11 := m_getCoordinate_1 ss1 (j + 1) in
    snd (gen_find st ss0 i ss1 j)
    = pair_code (f_isInvertedRingValid st) (ss_id ss0 =? ss_id ss1) (adjacent_z (m_size_0 ss0) i j)
                (seg_class p00 p01 p10 p11) p00 p01 p10 p11 (prev_pt ss0 i) (prev_pt ss1 j).
  Proof.
    cbv zeta. unfold gen_find, V_findInvalidIntersection.g_findInvalidIntersection, m_computeIntersection_4.
    rewrite GenTie.LI_side.gen_intersect_eq, !gen_prev_eq, gen_isAdjacent_eq.
    unfold pair_code, m_equals2D_1.
    destruct (seg_class _ _ _ _) as [|[|] x|a b];
      cbn [set_li f_li f_isInvertedRingValid m_hasIntersection_0 m_isProper_0 m_getIntersectionNum_0 m_getIntersection_1 negb orb Z.geb Z.compare snd Z.eqb];
      try reflexivity.
    destruct (ss_id ss0 =? ss_id ss1), (adjacent_z (m_size_0 ss0) i j), (f_isInvertedRingValid st); cbn [andb negb snd]; try reflexivity;
      (destruct (pt_eqb (PreludeLI.unq x) _ || pt_eqb (PreludeLI.unq x) _); cbn [snd]; [reflexivity|]);
      destruct (pt_eqb (PreludeLI.unq x) (m_getCoordinate_1 ss0 i)), (pt_eqb (PreludeLI.unq x) (m_getCoordinate_1 ss1 j));
      destruct (isCrossing _ _ _ _ _); cbn [snd andb negb]; try reflexivity;
      destruct (addDoubleTouch _ _ _ _); reflexivity.
  Qed.

End PIA.

Lemma gen_isAdjacent_valid ss (m i j : nat) : (i < j)%nat -> (j < m)%nat -> m_size_0 ss = Z.of_nat (S m) ->
  V_isAdjacentInRing.g_isAdjacentInRing ss (Z.of_nat i) (Z.of_nat j) = (Nat.eqb j (S i) || (Nat.eqb i 0 && Nat.eqb (S j) m))%bool.
Proof. intros Hij Hjm Hs. rewrite gen_isAdjacent_eq, Hs. apply adjacent_z_nat; assumption. Qed.

Lemma gen_codes : NO_ERROR = -1 /\ SELF_INTERSECTION = 5 /\ RING_SELF_INTERSECTION = 6
  /\ V_checkRingClosed.E_errorEnum_eRingNotClosed = 11 /\ V_checkTooFewPoints.E_errorEnum_eTooFewPoints = 9.
Proof. repeat split; reflexivity. Qed.
