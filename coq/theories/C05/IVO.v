(* C05/IVO — the generated IsValidOp structure checks (checkRingClosed, checkTooFewPoints, checkRingPointSize and the
   check sequences isValid(LineString) / isValid(LinearRing)) log an error exactly when the rule of the same name in
   Lib.ValidDefs reports a violation, with that rule's code and at that rule's location. *)
From Coq Require Import ZArith List Bool Lia.
From GeosV.Lib Require Import GeomDefs LocateDefs ValidDefs.
From GeosV.C05 Require Import PreludeIVO.
From GeosV.Gen Require V_checkRingClosed V_checkTooFewPoints V_checkRingPointSize V_isValidLine V_isValidRing.
Import ListNotations.
Local Open Scope Z_scope.

(* what an IsValidOp object reports: the rule code and the violation set (one location) *)
Definition logged (st : ivost) : option (Z * list hpt) := option_map (fun cp => (fst cp, [hp (snd cp)])) st.
Definition expect (r : rule) (set : list hpt) : option (Z * list hpt) :=
  match set with [] => None | _ => Some (rule_code r, set) end.

Theorem gen_checkRingClosed_rule (r : GeomDefs.seq) :
  logged (V_checkRingClosed.g_checkRingClosed None r) = expect RRingNotClosed (not_closed_set r).
Proof.
  unfold V_checkRingClosed.g_checkRingClosed, not_closed_set, m_isEmpty_0, m_isClosed_0, closed, m_getNumPoints_0, m_getCoordinateN_1, m_logInvalid_2.
  destruct r as [|a t]; [reflexivity|]. destruct (pt_eqb a (last (a :: t) a)); cbn [negb]; [reflexivity|].
  replace (Z.of_nat (length (a :: t)) >=? 1) with true by (symmetry; rewrite Z.geb_leb; apply Z.leb_le; cbn [length]; lia).
  reflexivity.
Qed.

Lemma too_few_gen st (l : GeomDefs.seq) (k : nat) : l <> [] ->
  logged (V_checkTooFewPoints.m_checkTooFewPoints_2 st l (Z.of_nat k)) = match too_few_set k l with [] => logged st | s => Some (rule_code RTooFewPoints, s) end.
Proof.
  intros Hl. unfold V_checkTooFewPoints.m_checkTooFewPoints_2, too_few_set, m_isNonRepeatedSizeAtLeast_2, m_getNumPoints_0, m_getAt_1, m_getCoordinatesRO_0, m_logInvalid_2.
  destruct l as [|a t]; [congruence|].
  assert (E : (Z.of_nat k <=? Z.of_nat (length (dedup (a :: t)))) = Nat.leb k (length (dedup (a :: t)))).
  { destruct (Nat.leb k (length (dedup (a :: t)))) eqn:L; [apply Nat.leb_le in L; apply Z.leb_le|apply Nat.leb_gt in L; apply Z.leb_gt]; lia. }
  rewrite E. destruct (Nat.leb k (length (dedup (a :: t)))); cbn [negb]; [reflexivity|].
  replace (Z.of_nat (length (a :: t)) >=? 1) with true by (symmetry; rewrite Z.geb_leb; apply Z.leb_le; cbn [length]; lia).
  reflexivity.
Qed.

(* "closed rings with at least four points": the generated minimum ring size is the rule's 4 *)
Theorem gen_checkRingPointSize_rule (r : GeomDefs.seq) :
  logged (V_checkRingPointSize.g_checkRingPointSize None r) = expect RTooFewPoints (too_few_set 4 r).
Proof.
  unfold V_checkRingPointSize.g_checkRingPointSize, m_isEmpty_0. destruct r as [|a t]; [reflexivity|].
  change V_checkRingPointSize.g_MIN_SIZE_RING with (Z.of_nat 4). rewrite too_few_gen by discriminate.
  unfold expect. destruct (too_few_set 4 (a :: t)); reflexivity.
Qed.

(* "lines with at least two distinct points": isValid(LineString) on a non-empty line (empty geometries return before) *)
Theorem gen_isValidLine_rule (l : GeomDefs.seq) : l <> [] ->
  logged (fst (V_isValidLine.g_isValidLine None l)) = expect RTooFewPoints (too_few_set 2 l)
  /\ snd (V_isValidLine.g_isValidLine None l) = isnil (too_few_set 2 l).
Proof.
  intros Hl. unfold V_isValidLine.g_isValidLine, m_checkCoordinatesValid_1, m_getCoordinatesRO_0. cbn [m_hasInvalidError_0].
  change V_isValidLine.g_MIN_SIZE_LINESTRING with (Z.of_nat 2).
  pose proof (too_few_gen None l 2 Hl) as T. cbv zeta.
  destruct (V_checkTooFewPoints.m_checkTooFewPoints_2 None l (Z.of_nat 2)) as [[c p]|]; cbn [m_hasInvalidError_0 fst snd];
    rewrite T; unfold expect; destruct (too_few_set 2 l); try discriminate; split; reflexivity.
Qed.

(* isValid(LinearRing): closed, then size, then simplicity (checkRingSimple is outside the units: section variable) *)
Section Ring.
  Variable checkRingSimple : ivost -> GeomDefs.seq -> ivost.
  Definition gen_isValidRing := V_isValidRing.g_isValidRing checkRingSimple.
  Theorem gen_isValidRing_rule (r : GeomDefs.seq) :
    snd (gen_isValidRing None r) = isnil (not_closed_set r) && isnil (too_few_set 4 r) && negb (m_hasInvalidError_0 (checkRingSimple None r))
    /\ (not_closed_set r <> [] -> logged (fst (gen_isValidRing None r)) = Some (rule_code RRingNotClosed, not_closed_set r))
    /\ (not_closed_set r = [] -> too_few_set 4 r <> [] -> logged (fst (gen_isValidRing None r)) = Some (rule_code RTooFewPoints, too_few_set 4 r)).
  Proof.
    unfold gen_isValidRing, V_isValidRing.g_isValidRing, m_checkCoordinatesValid_1, m_getCoordinatesRO_0. cbn [m_hasInvalidError_0]. cbv zeta.
    pose proof (gen_checkRingClosed_rule r) as C. pose proof (gen_checkRingPointSize_rule r) as S.
    destruct (V_checkRingClosed.g_checkRingClosed None r) as [[c p]|]; cbn [m_hasInvalidError_0 fst snd logged option_map] in *.
    - unfold expect in C. destruct (not_closed_set r); [discriminate|]. cbn [isnil andb]. repeat split; try congruence; try (intros _; rewrite C; reflexivity).
    - unfold expect in C. destruct (not_closed_set r); [|discriminate]. cbn [isnil andb].
      destruct (V_checkRingPointSize.g_checkRingPointSize None r) as [[c p]|]; cbn [m_hasInvalidError_0 fst snd logged option_map] in *.
      + unfold expect in S. destruct (too_few_set 4 r); [discriminate|]. cbn [isnil andb]. repeat split; try congruence; try (intros _ _; rewrite S; reflexivity).
      + unfold expect in S. destruct (too_few_set 4 r); [|discriminate]. cbn [isnil andb].
        destruct (checkRingSimple None r); cbn [m_hasInvalidError_0 negb snd]; repeat split; congruence.
  Qed.
End Ring.
