(* C05/PreludePIA — meaning of the names in the generated PolygonIntersectionAnalyzer units (V_isAdjacentInRing,
   V_prevCoordinateInRing, V_findInvalidIntersection).  Definitions only.
   * a SegmentString is its identity (a number: `ss0 == ss1` compares identities) together with its coordinate list
     (grid points, Lib.KernelDefs.pt); `getCoordinate(i)` = i-th point, `size()` = number of points;
   * the member `li` (algorithm::LineIntersector) is read as the result of the GENERATED LineIntersector::computeIntersect
     (Gen.K_intersectZ, C07.PreludeLI.li_result : KernelDefs.seg_res).  C07.GenTie.gen_intersect_eq proves it equal to
     KernelDefs.seg_class.  The coordinates of a NON-proper intersection point are grid points (unq is exact there:
     C05.PIA.nonproper_grid); findInvalidIntersection reads getIntersection(0) only in that case;
   * PolygonNodeTopology::isCrossing, PolygonRing::addSelfTouch / addTouch (reached through addSelfTouch /
     addDoubleTouch) are section variables of the generated unit: outside these units. *)
From Coq Require Import ZArith List Bool.
From GeosV.Lib Require Import KernelDefs.
From GeosV.C07 Require PreludeLI.
From GeosV.Gen Require K_intersectZ.
Import ListNotations.
Local Open Scope Z_scope.

Definition zneb (a b : Z) := negb (Z.eqb a b).

Record segstr := mkSS { ss_id : Z; ss_pts : list pt }.
Coercion ss_id : segstr >-> Z.
Definition m_size_0 (s : segstr) : Z := Z.of_nat (length (ss_pts s)).
Definition m_getCoordinate_1 (s : segstr) (i : Z) : pt := nth (Z.to_nat i) (ss_pts s) (0, 0).

(* LineIntersector after computeIntersection *)
Definition m_computeIntersection_4 (li : seg_res) (a b c d : pt) : seg_res :=
  PreludeLI.li_result (K_intersectZ.g_intersectZ PreludeLI.li_init (q_of_pt a) (q_of_pt b) (q_of_pt c) (q_of_pt d)).
Definition m_hasIntersection_0 (li : seg_res) : bool := match li with SegNone => false | _ => true end.
Definition m_isProper_0 (li : seg_res) : bool := match li with SegPoint pr _ => pr | _ => false end.
Definition m_getIntersectionNum_0 (li : seg_res) : Z := match li with SegNone => 0 | SegPoint _ _ => 1 | SegCollinear _ _ => 2 end.
Definition m_getIntersection_1 (li : seg_res) (i : Z) : pt :=
  match li with SegNone => (0, 0) | SegPoint _ x => PreludeLI.unq x | SegCollinear a b => if i =? 0 then a else b end.
Definition m_equals2D_1 (a b : pt) : bool := pt_eqb a b.

(* PolygonIntersectionAnalyzer object *)
Record piast := mkPia { f_li : seg_res; f_isInvertedRingValid : bool; f_m_hasDoubleTouch : bool; f_doubleTouchLocation : pt }.
Definition set_li (st : piast) (v : seg_res) := mkPia v (f_isInvertedRingValid st) (f_m_hasDoubleTouch st) (f_doubleTouchLocation st).
Definition set_m_hasDoubleTouch (st : piast) (v : bool) := mkPia (f_li st) (f_isInvertedRingValid st) v (f_doubleTouchLocation st).
Definition set_doubleTouchLocation (st : piast) (v : pt) := mkPia (f_li st) (f_isInvertedRingValid st) (f_m_hasDoubleTouch st) v.
Definition dflt : Z := 0.       (* value of a declared, not yet assigned std::size_t (always assigned before use) *)
Notation pt := GeosV.Lib.KernelDefs.pt (only parsing).      (* for the section variable types of the generated units *)
