(* C05/PIABridge — the specification's segment/segment classification (Lib.ValidDefs.seg_int) and the kernel's
   (Lib.KernelDefs.seg_class = the generated LineIntersector::computeIntersect) name the same case for two non-degenerate
   segments; hence the generated findInvalidIntersection flags a pair of segments of one ring exactly when the
   specification's per-pair events (ValidDefs.seg_events, the summands of self_events / ring_self_set) are non-empty. *)
From Coq Require Import ZArith List Bool Lia.
From GeosV.Lib Require Import KernelDefs Kernel KernelSeg.
From GeosV.Lib Require GeomDefs LocateDefs ValidDefs Geom ValidPerm ValidFacts.
From GeosV.C07 Require PreludeLI.
From GeosV.C05 Require Import PreludePIA PIA.
Import ListNotations.
Local Open Scope Z_scope.

Definition EP (p1 p2 q1 q2 e : pt) : Prop := e = p1 \/ e = p2 \/ e = q1 \/ e = q2.

Lemma collinear_shape p1 p2 q1 q2 :
  match collinear_class p1 p2 q1 q2 with
  | SegNone => True
  | SegPoint pr x => pr = false /\ exists e, x = q_of_pt e /\ EP p1 p2 q1 q2 e
  | SegCollinear u v => EP p1 p2 q1 q2 u /\ EP p1 p2 q1 q2 v
  end.
Proof.
  unfold collinear_class, EP.
  destruct (env_pt p1 p2 q1), (env_pt p1 p2 q2), (env_pt q1 q2 p1), (env_pt q1 q2 p2); cbn [andb negb]; try exact I; try tauto;
    try (destruct (pt_eqb _ _)); cbn [andb]; try tauto; try (split; [reflexivity|eexists; split; [reflexivity|tauto]]).
Qed.

Definition opp_both (p1 p2 q1 q2 : pt) : bool :=
  ValidDefs.opposite (det p1 p2 q1) (det p1 p2 q2) && ValidDefs.opposite (det q1 q2 p1) (det q1 q2 p2).

Lemma opp_both_proper p1 p2 q1 q2 : opp_both p1 p2 q1 q2 = true -> exists x, seg_class p1 p2 q1 q2 = SegPoint true x.
Proof.
  unfold opp_both, ValidDefs.opposite. intros H.
  assert (HE : det p1 p2 q1 * det p1 p2 q2 < 0 /\ det q1 q2 p1 * det q1 q2 p2 < 0).
  { apply andb_true_iff in H. destruct H as [A B]. apply orb_true_iff in A, B. rewrite !andb_true_iff, !Z.ltb_lt in A, B. nia. }
  destruct HE as [HE HD].
  assert (Hne : det q1 q2 p1 <> det q1 q2 p2) by nia.
  pose proof (cross_common p1 p2 q1 q2 ltac:(lia) ltac:(lia) Hne) as [CP CQ].
  unfold seg_class.
  destruct (env_seg p1 p2 q1 q2) eqn:He; cbn [negb]; [|exfalso; eapply env_disjoint_sound; eauto].
  unfold orient.
  destruct (det p1 p2 q1) eqn:E1, (det p1 p2 q2) eqn:E2; try lia; destruct (det q1 q2 p1) eqn:E3, (det q1 q2 p2) eqn:E4; try lia;
    cbn; eexists; reflexivity.
Qed.

Lemma seg_shape p1 p2 q1 q2 :
  match seg_class p1 p2 q1 q2 with
  | SegNone => True
  | SegPoint true x => opp_both p1 p2 q1 q2 = true
  | SegPoint false x => exists e, x = q_of_pt e /\ EP p1 p2 q1 q2 e
  | SegCollinear u v => EP p1 p2 q1 q2 u /\ EP p1 p2 q1 q2 v
  end.
Proof.
  unfold seg_class. destruct (negb (env_seg p1 p2 q1 q2)); [exact I|].
  destruct (_ || _) eqn:S1; [exact I|]. destruct ((orient q1 q2 p1 >? 0) && _ || _) eqn:S2; [exact I|].
  destruct (_ && _ && _ && _) eqn:C.
  { pose proof (collinear_shape p1 p2 q1 q2) as S. destruct (collinear_class p1 p2 q1 q2) as [|pr x|u v]; auto.
    destruct S as (-> & S). exact S. }
  destruct ((orient p1 p2 q1 =? 0) || _ || _ || _) eqn:Z.
  - unfold EP. destruct (pt_eqb p1 q1); [eexists; split; [reflexivity|tauto]|].
    destruct (pt_eqb p1 q2); [eexists; split; [reflexivity|tauto]|]. destruct (pt_eqb p2 q1); [eexists; split; [reflexivity|tauto]|].
    destruct (pt_eqb p2 q2); [eexists; split; [reflexivity|tauto]|].
    destruct (orient p1 p2 q1 =? 0); [eexists; split; [reflexivity|tauto]|]. destruct (orient p1 p2 q2 =? 0); [eexists; split; [reflexivity|tauto]|].
    destruct (orient q1 q2 p1 =? 0); [eexists; split; [reflexivity|tauto]|]. destruct (orient q1 q2 p2 =? 0); [eexists; split; [reflexivity|tauto]|].
    cbn in Z. discriminate.
  - unfold opp_both, ValidDefs.opposite. revert S1 S2 Z. unfold orient.
    destruct (det p1 p2 q1), (det p1 p2 q2), (det q1 q2 p1), (det q1 q2 p2); cbn; intros; try discriminate; reflexivity.
Qed.

(* the specification's primitives are the kernel's *)
Lemma orient_det a b c : LocateDefs.orient a b c = det a b c.
Proof. reflexivity. Qed.
Lemma on_seg_iff p a b : LocateDefs.on_seg p a b = true <-> pt_on p a b.
Proof.
  rewrite <- on_segment_iff. unfold LocateDefs.on_seg, on_segment, LocateDefs.between. rewrite orient_det.
  rewrite !andb_true_iff, env_pt_spec, !Z.leb_le. tauto.
Qed.
Lemma in_cand a b c d p : In p (ValidFacts.cand a b c d) <-> EP a b c d p /\ common (q_of_pt p) a b c d.
Proof.
  unfold ValidFacts.cand, EP, common. rewrite in_app_iff, !filter_In. cbn [In]. rewrite !on_seg_iff. fold (pt_on p a b) (pt_on p c d).
  split.
  - intros [[[<-|[<-|[]]] H]|[[<-|[<-|[]]] H]]; (split; [tauto|]); split; auto using pt_on_endpoint_l, pt_on_endpoint_r.
  - intros [[->|[->|[->| ->]]] [H1 H2]]; tauto.
Qed.

Lemma nodup_single e l : In e l -> (forall p, In p l -> p = e) -> ValidDefs.nodup_pts l = [e].
Proof.
  induction l as [|a t IH]; [intros []|]. intros _ All. assert (a = e) by (apply All; left; reflexivity). subst a.
  cbn [ValidDefs.nodup_pts]. destruct (ValidDefs.mem_pt e t) eqn:M.
  - apply IH; [apply ValidPerm.mem_pt_in; exact M|]. intros p Hp. apply All. right. exact Hp.
  - destruct t as [|b t']; [reflexivity|]. exfalso. assert (b = e) by (apply All; right; left; reflexivity). subst b.
    unfold ValidDefs.mem_pt in M. cbn [existsb] in M. rewrite Geom.pt_eqb_refl in M. discriminate.
Qed.

Lemma q_of_pt_qeq a b : qeq (q_of_pt a) (q_of_pt b) -> a = b.
Proof. destruct a, b. unfold qeq, q_of_pt. cbn. intros [A B]. f_equal; lia. Qed.

Inductive same_case : seg_res -> ValidDefs.sres -> Prop :=
| SC_none : same_case SegNone ValidDefs.SNone
| SC_proper x q : same_case (SegPoint true x) (ValidDefs.SProper q)
| SC_touch e : same_case (SegPoint false (q_of_pt e)) (ValidDefs.STouch e)
| SC_overlap u v p q : same_case (SegCollinear u v) (ValidDefs.SOverlap p q).

Theorem seg_int_same_case a b c d : a <> b -> c <> d -> same_case (seg_class a b c d) (ValidDefs.seg_int a b c d).
Proof.
  intros Hab Hcd. pose proof (seg_class_spec a b c d) as SP. pose proof (seg_shape a b c d) as SH.
  unfold ValidDefs.seg_int. cbv zeta. change LocateDefs.orient with det. fold (opp_both a b c d). fold (ValidFacts.cand a b c d).
  destruct (seg_class a b c d) as [|[|] x|u v] eqn:E.
  - destruct (opp_both a b c d) eqn:O; [destruct (opp_both_proper _ _ _ _ O) as (x & Ex); congruence|].
    destruct (ValidFacts.cand a b c d) as [|p l] eqn:Ec; [constructor|]. exfalso.
    assert (I : In p (ValidFacts.cand a b c d)) by (rewrite Ec; left; reflexivity). apply in_cand in I. exact (SP _ (proj2 I)).
  - rewrite SH. constructor.
  - destruct (opp_both a b c d) eqn:O; [destruct (opp_both_proper _ _ _ _ O) as (x' & Ex); congruence|].
    destruct SH as (e & -> & He). destruct SP as (_ & SP & _).
    rewrite (nodup_single e); [constructor| |].
    + apply in_cand. split; [exact He|]. apply SP. split; [cbn; lia|apply qeq_refl].
    + intros p Hp. apply in_cand in Hp. destruct Hp as [_ Hp]. apply SP in Hp. apply q_of_pt_qeq. exact (proj2 Hp).
  - destruct (opp_both a b c d) eqn:O; [destruct (opp_both_proper _ _ _ _ O) as (x' & Ex); congruence|].
    destruct SH as [Hu Hv]. destruct SP as [SP NE]. specialize (NE Hab Hcd).
    assert (Iu : In u (ValidDefs.nodup_pts (ValidFacts.cand a b c d))).
    { apply ValidFacts.in_nodup_pts, in_cand. split; [exact Hu|]. apply SP. apply pt_on_endpoint_l. }
    assert (Iv : In v (ValidDefs.nodup_pts (ValidFacts.cand a b c d))).
    { apply ValidFacts.in_nodup_pts, in_cand. split; [exact Hv|]. apply SP. apply pt_on_endpoint_r. }
    destruct (ValidDefs.nodup_pts (ValidFacts.cand a b c d)) as [|p [|q l]]; [destruct Iu| |constructor].
    exfalso. destruct Iu as [<-|[]], Iv as [<-|[]]. congruence.
Qed.

(* ---- the generated decision against the specification's per-pair events, OGC mode (isInvertedRingValid = false) ---- *)
Section Pair.
  Variable isCrossing : pt -> pt -> pt -> pt -> pt -> bool.
  Variable addSelfTouch : piast -> segstr -> pt -> pt -> pt -> pt -> pt -> piast.
  Variable addDoubleTouch : piast -> segstr -> segstr -> pt -> bool.

  (* segments i < j of one ring ss with m segments, none of zero length *)
  Theorem gen_find_ring_pair st ss (m i j : nat) :
    f_isInvertedRingValid st = false -> (i < j)%nat -> (j < m)%nat -> m_size_0 ss = Z.of_nat (S m) ->
    let s := (m_getCoordinate_1 ss (Z.of_nat i), m_getCoordinate_1 ss (Z.of_nat i + 1)) in
    let t := (m_getCoordinate_1 ss (Z.of_nat j), m_getCoordinate_1 ss (Z.of_nat j + 1)) in
    fst s <> snd s -> fst t <> snd t ->
    let ev := ValidDefs.seg_events (ValidDefs.adjacent m i j) s t in
    let code := snd (gen_find isCrossing addSelfTouch addDoubleTouch st ss (Z.of_nat i) ss (Z.of_nat j)) in
    (code = NO_ERROR <-> ev = []) /\
    (code = SELF_INTERSECTION <-> ValidDefs.bad_pts ev <> []) /\
    (code = RING_SELF_INTERSECTION <-> ValidDefs.touch_pts ev <> []).
  Proof.
    intros Hinv Hij Hjm Hs s t Hs0 Ht0 ev code. subst code ev.
    rewrite gen_find_code. cbv zeta. rewrite Hinv, Z.eqb_refl, Hs, adjacent_z_nat by assumption.
    fold (ValidDefs.adjacent m i j). unfold ValidDefs.seg_events. subst s t. cbn [fst snd] in *.
    pose proof (seg_int_same_case _ _ _ _ Hs0 Ht0) as SC. unfold pair_code.
    destruct SC; cbn [andb negb ValidDefs.bad_pts ValidDefs.touch_pts flat_map app].
    - repeat split; intros; try reflexivity; try discriminate; congruence.
    - repeat split; intros; try reflexivity; try discriminate; congruence.
    - destruct (ValidDefs.adjacent m i j); cbn [ValidDefs.bad_pts ValidDefs.touch_pts flat_map app];
        repeat split; intros; try reflexivity; try discriminate; congruence.
    - repeat split; intros; try reflexivity; try discriminate; congruence.
  Qed.
End Pair.
