(* C15 — property theorems only. Each is closed by `exact <lemma>` and followed by Print Assumptions. *)
From Coq Require Import ZArith List Permutation Lia.
From GeosV.C15 Require Import STRDefs STRProofs STRHistory STRSize GenPreludeSTR STRGen GenPreludeITV ITVDefs ITVProofs.
From GeosV.Gen Require Import STR_sliceCount STR_sliceCapacity STR_treeSize ITV_intersects ITV_branchBounds ITV_compare.
Import ListNotations.
Local Open Scope Z_scope.

(* build() terminates for node capacity >= 2 and yields a well-formed tree holding exactly the inserted items *)
Theorem C15_build_terminates : forall cap leaves, (2 <= cap)%nat -> leaves <> [] -> leaves_ok leaves ->
  exists t, build cap leaves = Some t /\ WF t /\ Permutation (live t) (flat_map live leaves).
Proof. exact build_terminates. Qed.
Print Assumptions C15_build_terminates.

(* ... and for capacity 1 every level is as long as the one below (F7: the loop `while (number > 1)` never ends) *)
Theorem C15_capacity1_level_never_shrinks : forall n, level_parents 1 n = n.
Proof. exact level_parents_cap1. Qed.
Print Assumptions C15_capacity1_level_never_shrinks.

(* a bounding-box query returns exactly the live items whose envelope intersects the query envelope, each once *)
Theorem C15_query_exact : forall cap leaves q, (2 <= cap)%nat -> leaves_ok leaves ->
  Permutation (query q (build cap leaves)) (spec_query q (flat_map live leaves)).
Proof. exact query_exact. Qed.
Print Assumptions C15_query_exact.

(* removal: replaces exactly one live leaf carrying the item, reached through intersecting bounds; fails only if none *)
Theorem C15_remove_spec : forall q it t, WF t ->
  match remove_node q it t with
  | Some t' => WF t' /\ bounds t' = bounds t /\ exists e', inter e' q = true /\ Permutation (live t) ((e', it) :: live t')
  | None => forall e', In (e', it) (live t) -> inter e' q = false
  end.
Proof. exact remove_node_spec. Qed.
Print Assumptions C15_remove_spec.

(* nearest neighbour: for a non-negative metric never below the envelope distance the answer is a live item at minimum distance *)
Theorem C15_nearest_min : forall idist qenv, (forall it, 0 <= idist it) -> forall t, WF t -> admissible idist qenv t ->
  is_min idist (live t) (nearest idist qenv (Some t)).
Proof. exact nearest_min. Qed.
Print Assumptions C15_nearest_min.

(* after ANY legal history (no insert after build) every output is what the abstract multiset of live pairs prescribes *)
Theorem C15_history_refines : forall coords cap ops, (2 <= cap)%nat ->
  legal_run coords (init cap) ops -> trace_ok coords [] ops (run coords (init cap) ops).
Proof. exact history_refines. Qed.
Print Assumptions C15_history_refines.

(* the reserve computed by treeSize() equals the number of nodes build() creates *)
Theorem C15_treeSize_exact : forall cap leaves t, (2 <= cap)%nat -> leaves_ok leaves -> build cap leaves = Some t ->
  treeSize cap (length leaves) = Some (nnodes t).
Proof. exact treeSize_exact. Qed.
Print Assumptions C15_treeSize_exact.

(* tie G: the packing arithmetic REGENERATED from TemplateSTRtree.h on every run (sliceCount, sliceCapacity, treeSize with its
   while / for loops) is the model's, so the two theorems above speak about what the header says now *)
Theorem C15_packing_arithmetic_generated : forall cap, (0 < cap)%nat ->
  (forall n, m_sliceCount_1 (tr cap) (Z.of_nat n) = Z.of_nat (sliceCount cap n)) /\
  (forall n s, (0 < s)%nat -> c_sliceCapacity_2 (Z.of_nat n) (Z.of_nat s) = Z.of_nat (sliceCapacity n s)) /\
  (forall n k, treeSize cap n = Some k -> m_treeSize_1 (tr cap) (Z.of_nat n) = Z.of_nat k).
Proof. intros cap Hc. split; [intros n; apply gen_sliceCount; exact Hc|]. split; [intros n s; apply gen_sliceCapacity|].
  intros n k. apply gen_treeSize; exact Hc. Qed.
Print Assumptions C15_packing_arithmetic_generated.

(* ... in particular the generated treeSize(numItems) is the number of nodes build() creates *)
Theorem C15_generated_treeSize_is_node_count : forall cap leaves t, (2 <= cap)%nat -> leaves_ok leaves -> build cap leaves = Some t ->
  m_treeSize_1 (tr cap) (Z.of_nat (length leaves)) = Z.of_nat (nnodes t).
Proof. intros cap leaves t Hc Hl Hb. apply gen_treeSize; [lia|]. apply treeSize_exact; assumption. Qed.
Print Assumptions C15_generated_treeSize_is_node_count.

(* non-vacuity: a concrete history that is legal, with a removal, queries hitting 1..all-but-1 live items, and a nearest query *)
Definition ex_ops : list op :=
  [Insert (mkEnv 0 2 0 2) 1; Insert (mkEnv 5 6 5 6) 2; Insert (mkEnv 1 3 1 3) 3; Insert (mkEnv 9 9 0 0) 4;
   Insert (mkEnv 4 4 4 4) 5; Query (mkEnv 2 5 2 5); Remove (mkEnv 1 3 1 3) 3; Query (mkEnv 2 5 2 5); Iterate;
   Nearest (mkEnv 4 4 3 3) 4 3; Remove (mkEnv 1 3 1 3) 3].
Example ex_legal : legal_run (coords_of ex_ops) (init 2) ex_ops.
Proof. vm_compute. tauto. Qed.
Example ex_run : run_top 2 ex_ops =
  [ONone; ONone; ONone; ONone; ONone; OItems [1; 3; 5; 2]; OBool true; OItems [1; 5; 2]; OItems [1; 5; 4; 2];
   ONear (Some (1, 5)); OBool false].
Proof. vm_compute. reflexivity. Qed.

(* ---- the 1-D packed interval R-tree (SortedPackedIntervalRTree), one of the property's "other indexes" ----
   tie G: the pruning test, the bounds a branch node takes from its two children and the sort key are REGENERATED from
   IntervalRTreeNode.h / IntervalRTreeBranchNode.h on every run; the model adds buildLevel / buildTree / the recursive query. *)

(* the generated pruning test is the closed-interval intersection test; the generated branch bounds are the hull of the children *)
Theorem C15_interval_units_generated :
  (forall lo hi qlo qhi, g_itv_intersects (mkItv lo hi) qlo qhi = ((lo <=? qhi) && (qlo <=? hi))%bool) /\
  (forall a b, g_itv_branchBounds a b = (Z.min (f_min a) (f_min b), Z.max (f_max a) (f_max b))).
Proof. exact (conj gen_intersects_spec gen_branchBounds_spec). Qed.
Print Assumptions C15_interval_units_generated.

(* buildTree terminates on every non-empty input (the fuel = number of leaves is never exhausted), the tree is well formed
   (every branch's bounds contain both children's) and holds exactly the leaves, in order *)
Theorem C15_interval_build_terminates : forall sorted, sorted <> [] ->
  exists t, build_sorted sorted = Some t /\ WFI t /\ ileaves t = sorted.
Proof. exact itv_build_terminates. Qed.
Print Assumptions C15_interval_build_terminates.

(* for EVERY order std::sort may leave the leaves in, the query visits exactly the items whose interval meets the query
   interval, each once: never a miss, never a non-matching item *)
Theorem C15_interval_query_exact : forall leaves sorted qlo qhi, leaves <> [] -> Permutation leaves sorted ->
  exists t, build_sorted sorted = Some t /\ Permutation (iquery_root qlo qhi (Some t)) (itv_spec qlo qhi leaves).
Proof. exact interval_query_exact. Qed.
Print Assumptions C15_interval_query_exact.

(* the executable model run beside the real class (sorted by the GENERATED comparator) meets the specification *)
Theorem C15_interval_model_exact : forall leaves qlo qhi, Permutation (itv_run leaves qlo qhi) (itv_spec qlo qhi leaves).
Proof. exact itv_run_exact. Qed.
Print Assumptions C15_interval_model_exact.

Example ex_interval : itv_run [(0, 10, 1); (6, 7, 2); (20, 30, 3); (8, 8, 4); (-5, -1, 5)] 8 9 = [4; 1] /\
  itv_spec 8 9 [(0, 10, 1); (6, 7, 2); (20, 30, 3); (8, 8, 4); (-5, -1, 5)] = [1; 4].
Proof. split; vm_compute; reflexivity. Qed.

