(* C09/GenPreludeWW — representation boundary of the generated WKBWriter units WW_writeGeometryType / WW_writeSRID:
   the writer object is the record of the members these functions read (flavor, outputOrdinates, includeSRID) plus the
   list of words handed to writeInt and a flag set by `throw`; integral conversions as in C09/GenPreludeBO (int_model). *)
From Coq Require Import ZArith List Bool.
From GeosV.C09 Require Export GenPreludeBO.
Import ListNotations.
Local Open Scope Z_scope.

Record ords := mkOrds { o_z : bool; o_m : bool }.
Definition m_hasZ_0 (o : ords) : bool := o_z o.
Definition m_hasM_0 (o : ords) : bool := o_m o.

Record wst := mkW { f_flavor : Z; f_outputOrdinates : ords; f_includeSRID : bool; w_out : list Z; w_thrown : bool }.
(* writeInt(v): the word goes to the stream (through ByteOrderValues::putInt, units BO_putInt: its bytes are those of v mod 2^32) *)
Definition m_writeInt_1 (st : wst) (v : Z) : wst :=
  mkW (f_flavor st) (f_outputOrdinates st) (f_includeSRID st) (w_out st ++ [v]) (w_thrown st).
Definition throw : wst := mkW 0 (mkOrds false false) false [] true.
Definition zneb (a b : Z) : bool := negb (Z.eqb a b).
