(* C09/WWProofs — the type word and the SRID word the GENERATED WKBWriter::writeGeometryType / writeSRID emit are the
   model's (WKBDefs.type_word, the SRID clause of w_header), for both flavours, every Z/M/SRID combination and every
   geometry type code below 1000; the flavour enumerators are read from the source. *)
From Coq Require Import ZArith List Bool Lia.
From GeosV.C09 Require Import GenPreludeWW WKBDefs.
From GeosV.Gen Require Import WW_writeGeometryType WW_writeSRID.
Import ListNotations.
Local Open Scope Z_scope.

Notation E_ext := WW_writeGeometryType.E_wkbFlavour_wkbExtended (only parsing).
Notation E_iso := WW_writeGeometryType.E_wkbFlavour_wkbIso (only parsing).
Definition flavZ (fl : flavour) : Z := match fl with Ext => E_ext | Iso => E_iso end.
Definition wst0 (fl : flavour) (oz om inc : bool) (out0 : list Z) : wst := mkW (flavZ fl) (mkOrds oz om) inc out0 false.

(* the functions look at SRID only through `SRID != 0` *)
Lemma gwt_srid : forall st code srid,
  g_writeGeometryType st code srid = g_writeGeometryType st code (if srid =? 0 then 0 else 1).
Proof.
  intros st code srid. unfold g_writeGeometryType.
  assert (E : zneb srid 0 = zneb (if srid =? 0 then 0 else 1) 0).
  { unfold zneb. destruct (Z.eqb_spec srid 0) as [->|H]; [reflexivity|]. destruct (Z.eqb_spec srid 0); [contradiction|reflexivity]. }
  rewrite E. reflexivity.
Qed.

(* the state only gains one word at the end of the stream *)
Definition last_word (fl : flavour) (oz om inc nz : bool) (code : Z) : option Z :=
  let st' := g_writeGeometryType (wst0 fl oz om inc []) code (if nz then 1 else 0) in
  match w_out st', w_thrown st' with [w], false => Some w | _, _ => None end.

Definition tw_ok (fl : flavour) (oz om inc nz : bool) (code : Z) : bool :=
  match last_word fl oz om inc nz code with
  | Some w => (w mod 2 ^ 32 =? Z.of_N (type_word fl (inc && nz) (Z.to_N code) oz om))
  | None => false
  end.

Definition bools := [false; true].
Fixpoint zlist (n : nat) (z : Z) : list Z := match n with O => [] | S k => z :: zlist k (z + 1) end.
Lemma zlist_in : forall n z c, z <= c < z + Z.of_nat n -> In c (zlist n z).
Proof.
  induction n as [|n IH]; intros z c H; [lia|]. cbn [zlist].
  destruct (Z.eq_dec c z) as [->|Hne]; [left; reflexivity|right]. apply IH. lia.
Qed.
Definition codes : list Z := zlist (Z.to_nat 1000) 0.
Lemma codes_in : forall c, 0 <= c < 1000 -> In c codes.
Proof. intros c H. unfold codes. apply zlist_in. rewrite Z2Nat.id; lia. Qed.
Global Opaque codes.

Definition sweep : bool :=
  forallb (fun code => forallb (fun fl => forallb (fun oz => forallb (fun om => forallb (fun inc => forallb (fun nz =>
    tw_ok fl oz om inc nz code) bools) bools) bools) bools) [Ext; Iso]) codes.

Lemma sweep_true : sweep = true.
Proof. vm_compute. reflexivity. Qed.

Lemma in_bools : forall b, In b bools.
Proof. intros [|]; cbn; auto. Qed.

Lemma tw_ok_all : forall fl oz om inc nz code, 0 <= code < 1000 -> tw_ok fl oz om inc nz code = true.
Proof.
  intros fl oz om inc nz code Hc. pose proof sweep_true as S. unfold sweep in S.
  rewrite forallb_forall in S. specialize (S code (codes_in code Hc)).
  rewrite forallb_forall in S. specialize (S fl).
  assert (Hf : In fl [Ext; Iso]) by (destruct fl; cbn; auto). specialize (S Hf).
  rewrite forallb_forall in S. specialize (S oz (in_bools oz)).
  rewrite forallb_forall in S. specialize (S om (in_bools om)).
  rewrite forallb_forall in S. specialize (S inc (in_bools inc)).
  rewrite forallb_forall in S. exact (S nz (in_bools nz)).
Qed.

(* words already in the stream are untouched: the generated function appends *)
Lemma flav_tests :
  Z.eqb E_ext (cast_i32 E_ext) = true /\ Z.eqb E_iso (cast_i32 E_ext) = false /\ Z.eqb E_iso (cast_i32 E_iso) = true.
Proof. repeat split; vm_compute; reflexivity. Qed.

Lemma gwt_prefix : forall fl oz om inc out0 code srid,
  let st' := g_writeGeometryType (wst0 fl oz om inc out0) code srid in
  let st0 := g_writeGeometryType (wst0 fl oz om inc []) code srid in
  w_out st' = out0 ++ w_out st0 /\ w_thrown st' = w_thrown st0.
Proof.
  intros fl oz om inc out0 code srid. cbv zeta. destruct flav_tests as (H1 & H2 & H3).
  unfold g_writeGeometryType, wst0, m_hasZ_0, m_hasM_0.
  cbn [f_flavor f_outputOrdinates f_includeSRID o_z o_m].
  destruct fl; cbn [flavZ]; rewrite ?H1, ?H2, ?H3;
  repeat match goal with |- context [if ?b then _ else _] => destruct b end;
  unfold m_writeInt_1; cbn [w_out w_thrown f_flavor f_outputOrdinates f_includeSRID];
  split; reflexivity.
Qed.

Theorem gen_type_word : forall fl oz om inc srid code out0, 0 <= code < 1000 ->
  let st' := g_writeGeometryType (wst0 fl oz om inc out0) code srid in
  w_thrown st' = false /\
  exists w, w_out st' = out0 ++ [w] /\
            w mod 2 ^ 32 = Z.of_N (type_word fl (inc && negb (srid =? 0)) (Z.to_N code) oz om).
Proof.
  intros fl oz om inc srid code out0 Hc. cbv zeta.
  destruct (gwt_prefix fl oz om inc out0 code srid) as [Ho Ht]. rewrite Ho, Ht. clear Ho Ht.
  rewrite gwt_srid.
  pose proof (tw_ok_all fl oz om inc (negb (srid =? 0)) code Hc) as T. unfold tw_ok, last_word in T.
  replace (if negb (srid =? 0) then 1 else 0) with (if srid =? 0 then 0 else 1) in T by (destruct (srid =? 0); reflexivity).
  destruct (w_out (g_writeGeometryType (wst0 fl oz om inc []) code (if srid =? 0 then 0 else 1))) as [|w [|w2 r]] eqn:E; try discriminate.
  destruct (w_thrown (g_writeGeometryType (wst0 fl oz om inc []) code (if srid =? 0 then 0 else 1))) eqn:E2; try discriminate.
  split; [reflexivity|]. exists w. split; [reflexivity|]. apply Z.eqb_eq. exact T.
Qed.

(* an unknown flavour value throws and writes nothing *)
Theorem gen_type_word_unknown_flavour : forall f oz om inc out0 code srid,
  f <> E_ext -> f <> E_iso ->
  w_thrown (g_writeGeometryType (mkW f (mkOrds oz om) inc out0 false) code srid) = true.
Proof.
  intros f oz om inc out0 code srid H1 H2. unfold g_writeGeometryType. cbn [f_flavor].
  replace (cast_i32 E_ext) with E_ext by (vm_compute; reflexivity).
  replace (cast_i32 E_iso) with E_iso by (vm_compute; reflexivity).
  destruct (Z.eqb_spec f E_ext); [contradiction|].
  destruct (Z.eqb_spec f E_iso); [contradiction|]. reflexivity.
Qed.

(* the SRID word is emitted exactly when includeSRID, SRID != 0 and the flavour is extended — the clause of w_header *)
Theorem gen_write_srid : forall fl oz om inc srid out0,
  w_out (g_writeSRID (wst0 fl oz om inc out0) srid) =
  out0 ++ (if (inc && negb (srid =? 0)) && is_ext fl then [srid] else []).
Proof.
  intros fl oz om inc srid out0. unfold g_writeSRID, wst0, zneb, m_writeInt_1. cbn [f_includeSRID f_flavor w_out].
  destruct flav_tests as (H1 & H2 & H3).
  assert (E1 : Z.eqb E_ext (cast_i32 WW_writeSRID.E_wkbFlavour_wkbExtended) = true) by (vm_compute; reflexivity).
  assert (E2 : Z.eqb E_iso (cast_i32 WW_writeSRID.E_wkbFlavour_wkbExtended) = false) by (vm_compute; reflexivity).
  destruct fl; cbn [flavZ is_ext]; rewrite ?E1, ?E2; destruct inc, (srid =? 0); cbn [andb negb app]; rewrite ?app_nil_r; reflexivity.
Qed.

Example ex_type_word :
  last_word Ext true false true true 1 = Some (-2147483648 + 536870912 + 1) /\
  last_word Iso true true true true 3 = Some 3003.
Proof. split; vm_compute; reflexivity. Qed.
