(* C09/GenPreludeBO — meaning of the translator's abstract names for the units of src/io/ByteOrderValues.cpp
   (translator/units/C09.py, unit options int_model + returns_param).  Definitions only.
   * `unsigned char* buf` : a buffer is a function from the index to the byte stored there; `buf[i]` reads it (idx),
     `buf[i] = e` is a functional update (upd); a put function returns the buffer it leaves behind.
   * integral conversions `(T)x` (explicit or implicit) and the result of `<<` (also of +, -, times) are wrapped into the range of
     their C++ type, two's complement: cast_u8 x = x mod 2^8, cast_i32 x = the representative of x mod 2^32 in
     [-2^31, 2^31), ...  `&`, `|`, `>>` are Z.land / Z.lor / Z.shiftr (two's complement on Z, arithmetic shift), which
     stay inside the range of their operands' type.
   * the byte-order constants are not defined here: the generated files carry E_EndianType_ENDIAN_BIG as probed from
     include/geos/io/ByteOrderValues.h by clang. *)
From Coq Require Import ZArith.
Local Open Scope Z_scope.

Definition buffer := Z -> Z.
Definition idx (b : buffer) (i : Z) : Z := b i.
Definition upd (b : buffer) (i e : Z) : buffer := fun j => if Z.eqb j i then e else b j.

Definition wrap_u (bits x : Z) : Z := x mod 2 ^ bits.
Definition wrap_s (bits x : Z) : Z := (x + 2 ^ (bits - 1)) mod 2 ^ bits - 2 ^ (bits - 1).
Definition cast_u8 := wrap_u 8.
Definition cast_i8 := wrap_s 8.
Definition cast_u16 := wrap_u 16.
Definition cast_i16 := wrap_s 16.
Definition cast_u32 := wrap_u 32.
Definition cast_i32 := wrap_s 32.
Definition cast_u64 := wrap_u 64.
Definition cast_i64 := wrap_s 64.
