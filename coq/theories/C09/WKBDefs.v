(* C09 — executable model of WKBWriter.cpp / WKBReader.cpp (definitions only; proofs are in WKBProofs.v).
   Ordinates are raw 64-bit words (N < 2^64), bytes are N < 256, SRIDs are 32-bit words (the int's two's complement pattern).
   What is modelled:
     writer: write() dispatch, per-geometry output ordinate selection (getOutputOrdinates: drop M first, then Z),
             type word of both flavours, SRID word, includeSRID switched off for collection elements and compound
             curve sections (but not for the rings of a curve polygon), empty point = NaN ordinates, empty polygon = 0 rings;
     reader: byte-order byte (persistent stream state), type word decoding of both flavours, SRID flag, minMemSize checks
             against the remaining bytes, the coordinate reader, POINT EMPTY convention, the constructor checks that make the
             real reader throw (line string with 1 point, circular string with 2 points, unclosed / too short rings,
             non-contiguous compound curve or one with an empty section among >= 2, empty shell with non-empty holes, readChild<T> class checks), setSRID
             propagating through collections, the nesting limit of 200.
   Not modelled: fixStructure (off by default), non-floating precision models (makePrecise is the identity for the default
   factory), the machine byte order other than little endian. *)
From Coq Require Import Arith NArith List Bool.
From GeosV.Lib Require Import Bytes.
Import ListNotations.
Local Open Scope N_scope.

(* ---------------------------------------------------------------- configuration *)
Inductive border := LE | BE.                    (* ByteOrderValues::ENDIAN_LITTLE = 1 / ENDIAN_BIG = 0 ; wkbNDR = 1 / wkbXDR = 0 *)
Inductive flavour := Ext | Iso.                 (* WKBConstants::wkbExtended = 1 / wkbIso = 2 *)
Inductive odim := D2 | D3 | D4.                 (* defaultOutputDimension; the constructor / setter reject anything else *)
Record cfg := mkCfg { c_bo : border; c_fl : flavour; c_dim : odim; c_srid : bool }.
Definition dimN (d: odim) : N := match d with D2 => 2 | D3 => 3 | D4 => 4 end.
Definition is_ext (f: flavour) : bool := match f with Ext => true | Iso => false end.

(* ---------------------------------------------------------------- geometry tree *)
Definition NAN64 : N := 9221120237041090560.    (* 0x7FF8000000000000 = DoubleNotANumber *)
Record coord := mkCoord { cx : N; cy : N; cz : N; cm : N }.     (* an ordinate the sequence does not carry is NAN64 *)
Record cseq := mkSeq { hz : bool; hm : bool; pts : list coord }.
Inductive skind := SLine | SRing | SCirc.       (* LineString, LinearRing, CircularString *)
Inductive ckind := CMPoint | CMLine | CMPoly | CGC | CMCurve | CMSurf.
Inductive geom :=
| GPoint (srid: N) (s: cseq)                                    (* 0 or 1 coordinate *)
| GSimple (k: skind) (srid: N) (s: cseq)
| GPoly (srid: N) (shell: cseq) (holes: list cseq)              (* rings are LinearRings; an empty polygon has an empty shell *)
| GCompound (srid: N) (secs: list (skind * N * cseq))           (* sections: simple curves with their own SRID *)
| GCurvePoly (srid: N) (shell: geom) (holes: list geom)         (* rings: simple or compound curves *)
| GColl (k: ckind) (srid: N) (kids: list geom).

Definition empty_seq (z m: bool) : cseq := mkSeq z m [].
Definition seq_empty (s: cseq) : bool := match pts s with [] => true | _ => false end.
Definition sec_seq (x: skind * N * cseq) : cseq := snd x.

Fixpoint g_hasz (g: geom) : bool :=
  match g with
  | GPoint _ s | GSimple _ _ s => hz s
  | GPoly _ sh hs => hz sh || existsb hz hs                                 (* Surface::hasZ *)
  | GCompound _ secs => existsb (fun x => hz (sec_seq x)) secs              (* CompoundCurve::hasZ *)
  | GCurvePoly _ sh hs => g_hasz sh || existsb g_hasz hs
  | GColl _ _ ks => existsb g_hasz ks                                       (* GeometryCollection::setFlags *)
  end.
Fixpoint g_hasm (g: geom) : bool :=
  match g with
  | GPoint _ s | GSimple _ _ s => hm s
  | GPoly _ sh hs => hm sh || existsb hm hs
  | GCompound _ secs => existsb (fun x => hm (sec_seq x)) secs
  | GCurvePoly _ sh hs => g_hasm sh || existsb g_hasm hs
  | GColl _ _ ks => existsb g_hasm ks
  end.
(* isEmpty of a curve (the shell of a curve polygon) *)
Definition g_empty (g: geom) : bool :=
  match g with
  | GPoint _ s | GSimple _ _ s => seq_empty s
  | GPoly _ sh _ => seq_empty sh
  | GCompound _ secs => forallb (fun x => seq_empty (sec_seq x)) secs
  | GCurvePoly _ sh _ => match sh with GSimple _ _ s => seq_empty s | GCompound _ secs => forallb (fun x => seq_empty (sec_seq x)) secs | _ => false end
  | GColl _ _ ks => match ks with [] => true | _ => false end              (* not used by the codec *)
  end.
Definition g_srid (g: geom) : N :=
  match g with GPoint s _ | GSimple _ s _ | GPoly s _ _ | GCompound s _ | GCurvePoly s _ _ | GColl _ s _ => s end.
(* Geometry::setSRID, overridden by GeometryCollection to reach every element *)
Fixpoint set_srid (s: N) (g: geom) : geom :=
  match g with
  | GPoint _ q => GPoint s q
  | GSimple k _ q => GSimple k s q
  | GPoly _ sh hs => GPoly s sh hs
  | GCompound _ secs => GCompound s secs
  | GCurvePoly _ sh hs => GCurvePoly s sh hs
  | GColl k _ ks => GColl k s (map (set_srid s) ks)
  end.

(* ---------------------------------------------------------------- IEEE predicates on bit patterns *)
Definition EXPMASK : N := 9218868437227405312.  (* 0x7FF0000000000000 *)
Definition MANMASK : N := 4503599627370495.     (* 0x000FFFFFFFFFFFFF *)
Definition SIGNBIT : N := 9223372036854775808.  (* 0x8000000000000000 *)
Definition is_nan (w: N) : bool := (N.land w EXPMASK =? EXPMASK) && negb (N.land w MANMASK =? 0).
Definition is_zero (w: N) : bool := (w =? 0) || (w =? SIGNBIT).
(* operator== on doubles: NaN equals nothing, -0 equals +0, otherwise the patterns coincide *)
Definition feq (a b: N) : bool := negb (is_nan a) && negb (is_nan b) && ((a =? b) || (is_zero a && is_zero b)).
Definition feq2 (p q: coord) : bool := feq (cx p) (cx q) && feq (cy p) (cy q).      (* CoordinateXY::equals2D *)

(* ---------------------------------------------------------------- constructor checks (what makes the factory throw) *)
Definition dummy : coord := mkCoord 0 0 NAN64 NAN64.
Definition first_pt (s: cseq) : coord := hd dummy (pts s).
Definition last_pt (s: cseq) : coord := last (pts s) dummy.
Definition closed (s: cseq) : bool := negb (seq_empty s) && feq2 (first_pt s) (last_pt s).     (* SimpleCurve::isClosed *)
(* LinearRing::validateConstruction: empty, or closed with at least MINIMUM_VALID_SIZE = 3 points *)
Definition v_ring (s: cseq) : bool := seq_empty s || (closed s && (3 <=? length (pts s))%nat).
Definition v_simple (k: skind) (s: cseq) : bool :=
  match k with
  | SLine => negb (length (pts s) =? 1)%nat          (* LineString: "point array must contain 0 or >1 elements" *)
  | SRing => v_ring s
  | SCirc => negb (length (pts s) =? 2)%nat          (* CircularString: "point array must contain 0 or >2 elements" *)
  end.
(* CompoundCurve::validateConstruction: end of section i-1 == start of section i *)
Fixpoint contiguous (l: list cseq) : bool :=
  match l with
  | a :: (b :: _) as t => feq2 (last_pt a) (first_pt b) && contiguous t
  | _ => true
  end.
Definition is_simple (g: geom) : bool := match g with GSimple _ _ _ => true | _ => false end.          (* dynamic_cast<SimpleCurve*> *)
Definition is_curve (g: geom) : bool := match g with GSimple _ _ _ | GCompound _ _ => true | _ => false end.
Definition kid_ok (k: ckind) (g: geom) : bool :=
  match k, g with
  | CMPoint, GPoint _ _ => true
  | CMLine, GSimple SLine _ _ | CMLine, GSimple SRing _ _ => true          (* LinearRing is a LineString *)
  | CMPoly, GPoly _ _ _ => true
  | CGC, _ => true
  | CMCurve, GSimple _ _ _ | CMCurve, GCompound _ _ => true
  | CMSurf, GPoly _ _ _ | CMSurf, GCurvePoly _ _ _ => true
  | _, _ => false
  end.

(* ---------------------------------------------------------------- type word *)
Definition skind_code (k: skind) : N := match k with SLine | SRing => 2 | SCirc => 8 end.      (* getWkbType *)
Definition ckind_code (k: ckind) : N :=
  match k with CMPoint => 4 | CMLine => 5 | CMPoly => 6 | CGC => 7 | CMCurve => 11 | CMSurf => 12 end.
Definition FLAG_Z : N := 2147483648.   (* 0x80000000 *)
Definition FLAG_M : N := 1073741824.   (* 0x40000000 *)
Definition FLAG_S : N := 536870912.    (* 0x20000000 *)
(* WKBWriter::writeGeometryType; sflag = includeSRID && SRID != 0 *)
Definition type_word (fl: flavour) (sflag: bool) (code: N) (oz om: bool) : N :=
  match fl with
  | Ext => let t := if oz then N.lor code FLAG_Z else code in
           let t := if om then N.lor t FLAG_M else t in
           if sflag then N.lor t FLAG_S else t
  | Iso => (code + (if oz then 1000 else 0)) + (if om then 2000 else 0)
  end.
(* the decoding block of WKBReader::readGeometry: (geometryType, hasZ, hasM, hasSRID) *)
Definition decode_type (tw: N) : N * bool * bool * bool :=
  let lo := N.land tw 65535 in
  let gt := lo mod 1000 in
  let range := lo / 1000 in
  let isoZ := (range =? 1) || (range =? 3) in
  let isoM := (range =? 2) || (range =? 3) in
  let sZ := negb (N.land tw FLAG_Z =? 0) in
  let sM := negb (N.land tw FLAG_M =? 0) in
  (gt, sZ || isoZ, sM || isoM, negb (N.land tw FLAG_S =? 0)).

(* WKBWriter::getOutputOrdinates: while (size > dim) drop M, else drop Z *)
Definition ord_step (d: N) (zm: bool * bool) : bool * bool :=
  let '(z, m) := zm in
  if d <? 2 + (if z then 1 else 0) + (if m then 1 else 0) then (if m then (z, false) else if z then (false, m) else (z, m)) else (z, m).
Definition out_ords (d: odim) (zm: bool * bool) : bool * bool := ord_step (dimN d) (ord_step (dimN d) zm).

(* ---------------------------------------------------------------- writer *)
Definition bo_byte (b: border) : byte := match b with LE => 1 | BE => 0 end.
Definition enc (b: border) (k: nat) (v: N) : list byte := match b with LE => le_bytes k v | BE => be_bytes k v end.
Definition enc32 b v := enc b 4 v.
Definition enc64 b v := enc b 8 v.

Definition ord_z (s: cseq) (p: coord) : N := if hz s then cz p else NAN64.     (* getAt into an all-NaN CoordinateXYZM *)
Definition ord_m (s: cseq) (p: coord) : N := if hm s then cm p else NAN64.
Definition w_coord (b: border) (oz om: bool) (s: cseq) (p: coord) : list byte :=
  enc64 b (cx p) ++ enc64 b (cy p) ++ (if oz then enc64 b (ord_z s p) else []) ++ (if om then enc64 b (ord_m s p) else []).
Definition w_seq (b: border) (oz om: bool) (sized: bool) (s: cseq) : list byte :=
  (if sized then enc32 b (N.of_nat (length (pts s))) else []) ++ flat_map (w_coord b oz om s) (pts s).
Definition nan_seq : cseq := mkSeq true true [mkCoord NAN64 NAN64 NAN64 NAN64].

(* byte order, type word, SRID word *)
Definition w_header (c: cfg) (inc: bool) (code: N) (oz om: bool) (srid: N) : list byte :=
  let sflag := inc && negb (srid =? 0) in
  [bo_byte (c_bo c)] ++ enc32 (c_bo c) (type_word (c_fl c) sflag code oz om)
  ++ (if sflag && is_ext (c_fl c) then enc32 (c_bo c) srid else []).
(* writeSimpleCurve with the output ordinates in force *)
Definition w_simple (c: cfg) (inc: bool) (oz om: bool) (k: skind) (srid: N) (s: cseq) : list byte :=
  w_header c inc (skind_code k) oz om srid ++ w_seq (c_bo c) oz om true s.

Fixpoint wr (c: cfg) (inc: bool) (g: geom) : list byte :=
  let '(oz, om) := out_ords (c_dim c) (g_hasz g, g_hasm g) in
  match g with
  | GPoint srid s =>
      w_header c inc 1 oz om srid ++
      (if seq_empty s then w_seq (c_bo c) oz om false nan_seq else w_seq (c_bo c) oz om false s)
  | GSimple k srid s => w_simple c inc oz om k srid s
  | GPoly srid sh hs =>
      w_header c inc 3 oz om srid ++
      (if seq_empty sh then enc32 (c_bo c) 0
       else enc32 (c_bo c) (N.of_nat (S (length hs))) ++ w_seq (c_bo c) oz om true sh ++ flat_map (w_seq (c_bo c) oz om true) hs)
  | GCompound srid secs =>
      w_header c inc 9 oz om srid ++ enc32 (c_bo c) (N.of_nat (length secs))
      ++ flat_map (fun x => w_simple c false oz om (fst (fst x)) (snd (fst x)) (snd x)) secs
  | GCurvePoly srid sh hs =>
      w_header c inc 10 oz om srid ++
      (if g_empty sh then enc32 (c_bo c) 0
       else enc32 (c_bo c) (N.of_nat (S (length hs))) ++ wr c inc sh ++ flat_map (wr c inc) hs)
  | GColl k srid ks =>
      w_header c inc (ckind_code k) oz om srid ++ enc32 (c_bo c) (N.of_nat (length ks)) ++ flat_map (wr c false) ks
  end.

Definition wkb_write (c: cfg) (g: geom) : list byte := wr c (c_srid c) g.
Definition hex_write (c: cfg) (g: geom) : list N := hex (wkb_write c g).

(* ---------------------------------------------------------------- reader *)
Inductive err :=
| EEof          (* "Unexpected EOF parsing WKB" *)
| EMinMem       (* "Input buffer is smaller than requested object size" *)
| EType         (* "Unknown WKB type" *)
| EChild        (* readChild<T>: "Expected ... but got ..." *)
| ECtor         (* a geometry constructor threw IllegalArgumentException *)
| EHex          (* invalid / odd HEX text *)
| EFuel.        (* "Geometry nesting is too deep": more than MAX_NESTING_DEPTH = 200 nested readGeometry calls *)
Inductive res (A: Type) := Ok (a: A) | Err (e: err).
Arguments Ok {A} a.
Arguments Err {A} e.
Definition bind {A B} (r: res A) (f: A -> res B) : res B := match r with Ok a => f a | Err e => Err e end.

Definition dec (b: border) (l: list byte) : N := match b with LE => le_value l | BE => be_value l end.
Definition rd_word (k: nat) (b: border) (l: list byte) : res (N * list byte) :=
  match take k l with Some (a, r) => Ok (dec b a, r) | None => Err EEof end.
Definition rd_u32 := rd_word 4.
Definition rd_u64 := rd_word 8.
(* minMemSize: count * minimal element size must not exceed the bytes that remain *)
Definition minmem (n sz: N) (l: list byte) : bool := n * sz <=? N.of_nat (length l).

Definition rd_coord (b: border) (z m: bool) (l: list byte) : res (coord * list byte) :=
  bind (rd_u64 b l) (fun '(x, l1) =>
  bind (rd_u64 b l1) (fun '(y, l2) =>
  bind (if z then rd_u64 b l2 else Ok (NAN64, l2)) (fun '(vz, l3) =>
  bind (if m then rd_u64 b l3 else Ok (NAN64, l3)) (fun '(vm, l4) =>
  Ok (mkCoord x y vz vm, l4))))).
Fixpoint rd_coords (b: border) (z m: bool) (n: nat) (l: list byte) : res (list coord * list byte) :=
  match n with
  | O => Ok ([], l)
  | S n' => bind (rd_coord b z m l) (fun '(p, l1) => bind (rd_coords b z m n' l1) (fun '(ps, l2) => Ok (p :: ps, l2)))
  end.
(* readCoordinateSequence(size) *)
Definition rd_cseq (b: border) (z m: bool) (n: N) (l: list byte) : res (cseq * list byte) :=
  if minmem n 16 l then bind (rd_coords b z m (N.to_nat n) l) (fun '(ps, l1) => Ok (mkSeq z m ps, l1)) else Err EMinMem.
(* readLineString / readCircularString / readLinearRing up to the constructor check *)
Definition rd_sized (b: border) (z m: bool) (l: list byte) : res (cseq * list byte) :=
  bind (rd_u32 b l) (fun '(n, l1) => if minmem n 16 l1 then rd_cseq b z m n l1 else Err EMinMem).
Definition rd_ring (b: border) (z m: bool) (l: list byte) : res (cseq * list byte) :=
  bind (rd_sized b z m l) (fun '(s, l1) => if v_ring s then Ok (s, l1) else Err ECtor).
Fixpoint rd_rings (b: border) (z m: bool) (n: nat) (l: list byte) : res (list cseq * list byte) :=
  match n with
  | O => Ok ([], l)
  | S n' => bind (rd_ring b z m l) (fun '(s, l1) => bind (rd_rings b z m n' l1) (fun '(ss, l2) => Ok (s :: ss, l2)))
  end.

Definition to_sec (g: geom) : skind * N * cseq := match g with GSimple k sr s => (k, sr, s) | _ => (SLine, 0, empty_seq false false) end.

Section Rec.
  (* the recursive call readGeometry(): byte order in force, bytes -> geometry, byte order afterwards, rest *)
  Variable rec : border -> list byte -> res (geom * border * list byte).
  (* n times readChild<T>() *)
  Fixpoint rd_many (ok: geom -> bool) (n: nat) (b: border) (l: list byte) : res (list geom * border * list byte) :=
    match n with
    | O => Ok ([], b, l)
    | S n' => bind (rec b l) (fun '(g, b1, l1) =>
              if ok g then bind (rd_many ok n' b1 l1) (fun '(gs, b2, l2) => Ok (g :: gs, b2, l2)) else Err EChild)
    end.

  Definition coll_minsz (k: ckind) : N := match k with CMPoint => 21 | _ => 9 end.
  Definition code_ckind (code: N) : option ckind :=
    if code =? 4 then Some CMPoint else if code =? 5 then Some CMLine else if code =? 6 then Some CMPoly
    else if code =? 7 then Some CGC else if code =? 11 then Some CMCurve else if code =? 12 then Some CMSurf else None.

  (* the body readers; the result carries SRID 0, readGeometry sets it afterwards *)
  Definition rd_body (code: N) (z m: bool) (b: border) (l: list byte) : res (geom * border * list byte) :=
    if code =? 1 then                                                           (* readPoint *)
      bind (rd_cseq b z m 1 l) (fun '(s, l1) =>
      let p := first_pt s in
      Ok (GPoint 0 (if is_nan (cx p) && is_nan (cy p) then empty_seq z m else s), b, l1))
    else if code =? 2 then                                                      (* readLineString *)
      bind (rd_sized b z m l) (fun '(s, l1) => if v_simple SLine s then Ok (GSimple SLine 0 s, b, l1) else Err ECtor)
    else if code =? 8 then                                                      (* readCircularString *)
      bind (rd_sized b z m l) (fun '(s, l1) => if v_simple SCirc s then Ok (GSimple SCirc 0 s, b, l1) else Err ECtor)
    else if code =? 3 then                                                      (* readPolygon *)
      bind (rd_u32 b l) (fun '(n, l1) =>
      if minmem n 4 l1 then
        if n =? 0 then Ok (GPoly 0 (empty_seq z m) [], b, l1)
        else bind (rd_ring b z m l1) (fun '(sh, l2) =>
             bind (rd_rings b z m (N.to_nat (n - 1)) l2) (fun '(hs, l3) =>
             if seq_empty sh && existsb (fun h => negb (seq_empty h)) hs then Err ECtor     (* "shell is empty but holes are not" *)
             else Ok (GPoly 0 sh hs, b, l3)))
      else Err EMinMem)
    else if code =? 9 then                                                      (* readCompoundCurve *)
      bind (rd_u32 b l) (fun '(n, l1) =>
      if minmem n 16 l1 then
        bind (rd_many is_simple (N.to_nat n) b l1) (fun '(gs, b1, l2) =>
        let secs := map to_sec gs in
        if (2 <=? length secs)%nat && existsb (fun x => seq_empty (sec_seq x)) secs then Err ECtor   (* "Sections of CompoundCurve must not be empty" *)
        else if contiguous (map sec_seq secs) then Ok (GCompound 0 secs, b1, l2) else Err ECtor)
      else Err EMinMem)
    else if code =? 10 then                                                     (* readCurvePolygon *)
      bind (rd_u32 b l) (fun '(n, l1) =>
      if minmem n 4 l1 then
        if n =? 0 then Ok (GCurvePoly 0 (GSimple SRing 0 (empty_seq z m)) [], b, l1)
        else bind (rd_many is_curve 1 b l1) (fun '(shl, b1, l2) =>
             bind (rd_many is_curve (N.to_nat (n - 1)) b1 l2) (fun '(hs, b2, l3) =>
             let sh := hd (GSimple SRing 0 (empty_seq z m)) shl in
             if g_empty sh && existsb (fun h => negb (g_empty h)) hs then Err ECtor
             else Ok (GCurvePoly 0 sh hs, b2, l3)))
      else Err EMinMem)
    else match code_ckind code with
    | Some k =>                                                                 (* readMulti* / readGeometryCollection *)
      bind (rd_u32 b l) (fun '(n, l1) =>
      if minmem n (coll_minsz k) l1 then
        bind (rd_many (kid_ok k) (N.to_nat n) b l1) (fun '(gs, b1, l2) => Ok (GColl k 0 gs, b1, l2))
      else Err EMinMem)
    | None => Err EType
    end.

  (* WKBReader::readGeometry *)
  Definition rd_geom (b0: border) (l: list byte) : res (geom * border * list byte) :=
    match l with
    | [] => Err EEof
    | ob :: l1 =>
      let b := if ob =? 1 then LE else if ob =? 0 then BE else b0 in
      bind (rd_u32 b l1) (fun '(tw, l2) =>
      let '(code, z, m, hs) := decode_type tw in
      bind (if hs then rd_u32 b l2 else Ok (0, l2)) (fun '(srid, l3) =>
      bind (rd_body code z m b l3) (fun '(g, b1, l4) => Ok (set_srid srid g, b1, l4))))
    end.
End Rec.

Fixpoint rd (fuel: nat) (b: border) (l: list byte) : res (geom * border * list byte) :=
  match fuel with
  | O => Err EFuel
  | S f => rd_geom (rd f) b l
  end.

(* WKBReader::read(buf, size): machine byte order (little endian) until a byte-order byte says otherwise; trailing bytes ignored;
   readGeometry refuses to nest deeper than MAX_NESTING_DEPTH = 200 (the fuel is exactly that limit). *)
Definition MAX_DEPTH : nat := 200.
Definition wkb_read (l: list byte) : res (geom * list byte) :=
  match rd MAX_DEPTH LE l with Ok (g, _, r) => Ok (g, r) | Err e => Err e end.
Definition hex_read (s: list N) : res (geom * list byte) :=
  match unhex s with Some l => wkb_read l | None => Err EHex end.

(* ---------------------------------------------------------------- what a write / read cycle is expected to return *)
Definition conv_pt (oz om: bool) (s: cseq) (p: coord) : coord :=
  mkCoord (cx p) (cy p) (if oz then ord_z s p else NAN64) (if om then ord_m s p else NAN64).
Definition conv (oz om: bool) (s: cseq) : cseq := mkSeq oz om (map (conv_pt oz om s) (pts s)).
Definition line_of (k: skind) : skind := match k with SRing => SLine | k => k end.
(* the SRID word is present iff includeSRID is in force, the flavour is extended, and the SRID is not 0 *)
Definition keep_srid (c: cfg) (inc: bool) (srid: N) : N := if inc && is_ext (c_fl c) then srid else 0.

Fixpoint expect_at (c: cfg) (inc: bool) (g: geom) : geom :=
  let '(oz, om) := out_ords (c_dim c) (g_hasz g, g_hasm g) in
  match g with
  | GPoint srid s =>
      let s' := conv oz om s in
      let p := first_pt s' in
      GPoint (keep_srid c inc srid) (if seq_empty s || (is_nan (cx p) && is_nan (cy p)) then empty_seq oz om else s')
  | GSimple k srid s => GSimple (line_of k) (keep_srid c inc srid) (conv oz om s)
  | GPoly srid sh hs =>
      if seq_empty sh then GPoly (keep_srid c inc srid) (empty_seq oz om) []
      else GPoly (keep_srid c inc srid) (conv oz om sh) (map (conv oz om) hs)
  | GCompound srid secs =>
      GCompound (keep_srid c inc srid) (map (fun x => (line_of (fst (fst x)), 0, conv oz om (snd x))) secs)
  | GCurvePoly srid sh hs =>
      if g_empty sh then GCurvePoly (keep_srid c inc srid) (GSimple SRing 0 (empty_seq oz om)) []
      else GCurvePoly (keep_srid c inc srid) (expect_at c inc sh) (map (expect_at c inc) hs)
  | GColl k srid ks => set_srid (keep_srid c inc srid) (GColl k 0 (map (expect_at c false) ks))
  end.
Definition expect (c: cfg) (g: geom) : geom := expect_at c (c_srid c) g.

(* ---------------------------------------------------------------- well-formedness: what the real constructors demand, as a boolean *)
Definition W64 : N := 18446744073709551616.
Definition W32 : N := 4294967296.
Definition cnt_ok (n: nat) : bool := N.of_nat n <? 2147483648.      (* counts are written through static_cast<int> *)
Definition wf_coord (z m: bool) (p: coord) : bool :=
  (cx p <? W64) && (cy p <? W64) && (if z then cz p <? W64 else cz p =? NAN64) && (if m then cm p <? W64 else cm p =? NAN64).
Definition wf_seq (s: cseq) : bool := forallb (wf_coord (hz s) (hm s)) (pts s) && cnt_ok (length (pts s)).
Definition wf_sec (x: skind * N * cseq) : bool :=
  wf_seq (snd x) && v_simple (fst (fst x)) (snd x) && negb (seq_empty (snd x)) && (snd (fst x) <? W32).
Fixpoint wf (g: geom) : bool :=
  match g with
  | GPoint srid s => (srid <? W32) && wf_seq s && (length (pts s) <=? 1)%nat
  | GSimple k srid s => (srid <? W32) && wf_seq s && v_simple k s
  | GPoly srid sh hs =>
      (srid <? W32) && wf_seq sh && v_ring sh && forallb (fun h => wf_seq h && v_ring h) hs && cnt_ok (S (length hs))
      && (negb (seq_empty sh) || forallb seq_empty hs)
  | GCompound srid secs =>
      (srid <? W32) && forallb wf_sec secs && contiguous (map sec_seq secs) && cnt_ok (length secs)
  | GCurvePoly srid sh hs =>
      (srid <? W32) && wf sh && is_curve sh && forallb (fun h => wf h && is_curve h) hs && cnt_ok (S (length hs))
      && (negb (g_empty sh) || forallb g_empty hs)
  | GColl k srid ks => (srid <? W32) && forallb (fun g => wf g && kid_ok k g) ks && cnt_ok (length ks)
  end.

Fixpoint depth (g: geom) : nat :=
  match g with
  | GPoint _ _ | GSimple _ _ _ | GPoly _ _ _ => 1
  | GCompound _ _ => 2
  | GCurvePoly _ sh hs => S (fold_right (fun g d => Nat.max (depth g) d) (depth sh) hs)
  | GColl _ _ ks => S (fold_right (fun g d => Nat.max (depth g) d) O ks)
  end.

(* ---------------------------------------------------------------- the geometries on which the cycle is what the property text promises *)
(* one dimensionality per polygon / compound curve (their rings / sections carry no type word of their own), sub-curve SRIDs 0,
   empty surfaces in their canonical form (no holes; an empty curve polygon has an empty LinearRing as shell) *)
Definition same_dims (z m: bool) (s: cseq) : bool := Bool.eqb (hz s) z && Bool.eqb (hm s) m.
Definition is_nil {A} (l: list A) : bool := match l with [] => true | _ => false end.
Fixpoint dims_regular (g: geom) : bool :=
  match g with
  | GPoint _ _ | GSimple _ _ _ => true
  | GPoly _ sh hs => forallb (same_dims (hz sh) (hm sh)) hs && (negb (seq_empty sh) || is_nil hs)
  | GCompound _ secs =>
      match secs with [] => true | x :: _ => forallb (fun y => same_dims (hz (snd x)) (hm (snd x)) (snd y) && (snd (fst y) =? 0)) secs end
  | GCurvePoly _ sh hs =>
      if g_empty sh then match sh with GSimple SRing sr _ => (sr =? 0) && is_nil hs | _ => false end
      else (g_srid sh =? 0) && dims_regular sh && forallb (fun h => (g_srid h =? 0) && dims_regular h) hs
  | GColl _ _ ks => forallb dims_regular ks
  end.
(* the SRID of a collection is the SRID of every element (GeometryCollection's constructor and setSRID enforce it) *)
Fixpoint srid_regular (top: N) (g: geom) : bool :=
  (g_srid g =? top) && match g with GColl _ _ ks => forallb (srid_regular top) ks | _ => true end.
Definition regular (g: geom) : bool := dims_regular g && srid_regular (g_srid g) g.

(* the input with the excess ordinates dropped: every sequence keeps out_ords of its own dimensionality *)
Definition drop_seq (d: odim) (s: cseq) : cseq := let '(oz, om) := out_ords d (hz s, hm s) in conv oz om s.
Fixpoint drop_dims (d: odim) (g: geom) : geom :=
  match g with
  | GPoint srid s => GPoint srid (drop_seq d s)
  | GSimple k srid s => GSimple k srid (drop_seq d s)
  | GPoly srid sh hs => GPoly srid (drop_seq d sh) (map (drop_seq d) hs)
  | GCompound srid secs => GCompound srid (map (fun x => (fst x, drop_seq d (snd x))) secs)
  | GCurvePoly srid sh hs => GCurvePoly srid (drop_dims d sh) (map (drop_dims d) hs)
  | GColl k srid ks => GColl k srid (map (drop_dims d) ks)
  end.
Fixpoint clear_srid (g: geom) : geom :=
  match g with
  | GPoint _ s => GPoint 0 s
  | GSimple k _ s => GSimple k 0 s
  | GPoly _ sh hs => GPoly 0 sh hs
  | GCompound _ secs => GCompound 0 (map (fun x => (fst (fst x), 0, snd x)) secs)
  | GCurvePoly _ sh hs => GCurvePoly 0 (clear_srid sh) (map clear_srid hs)
  | GColl k _ ks => GColl k 0 (map clear_srid ks)
  end.

(* the documented exceptions: a linear ring that is a geometry of its own reads back as a line string, a point whose X and Y are NaN is the empty point *)
Definition nan_point_fix (s: cseq) : cseq :=
  if is_nan (cx (first_pt s)) && is_nan (cy (first_pt s)) then empty_seq (hz s) (hm s) else s.
Fixpoint ideal_shape (g: geom) : geom :=
  match g with
  | GPoint srid s => GPoint srid (nan_point_fix s)
  | GSimple k srid s => GSimple (line_of k) srid s
  | GPoly _ _ _ => g
  | GCompound srid secs => GCompound srid (map (fun x => (line_of (fst (fst x)), snd (fst x), snd x)) secs)
  | GCurvePoly srid sh hs => if g_empty sh then g else GCurvePoly srid (ideal_shape sh) (map ideal_shape hs)
  | GColl k srid ks => GColl k srid (map ideal_shape ks)
  end.
(* what the property text promises for configuration c: SRID kept iff extended flavour with SRID, excess ordinates dropped, the two exceptions *)
Definition ideal (c: cfg) (g: geom) : geom :=
  ideal_shape (drop_dims (c_dim c) (if c_srid c && is_ext (c_fl c) then g else clear_srid g)).

(* stored points with NaN X and Y whose written ordinates are all the canonical quiet NaN (the only such points whose bytes a
   re-write reproduces: the re-read geometry is POINT EMPTY, which is written with canonical NaNs) *)
Fixpoint nan_canon (g: geom) : bool :=
  match g with
  | GPoint _ s =>
      match pts s with
      | [p] => if is_nan (cx p) && is_nan (cy p)
               then (cx p =? NAN64) && (cy p =? NAN64) && (ord_z s p =? NAN64) && (ord_m s p =? NAN64) else true
      | _ => true
      end
  | GCurvePoly _ sh hs => nan_canon sh && forallb nan_canon hs
  | GColl _ _ ks => forallb nan_canon ks
  | _ => true
  end.

(* ---------------------------------------------------------------- entry points for the extracted driver *)
Definition all_cfgs : list cfg :=
  flat_map (fun b => flat_map (fun f => flat_map (fun d => map (fun s => mkCfg b f d s) [false; true]) [D2; D3; D4]) [Ext; Iso]) [LE; BE].
(* the context-level legacy functions: WKBWriter(handle->WKBOutputDims, handle->WKBByteOrder), includeSRID = false, extended flavour *)
Definition legacy_cfg (b: border) (d: odim) : cfg := mkCfg b Ext d false.
