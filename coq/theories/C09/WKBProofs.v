(* C09 — proofs about the WKB codec model: reading what was written returns `expect`, for every configuration. *)
From Coq Require Import Arith NArith List Bool Lia.
From GeosV.Lib Require Import Bytes.
From GeosV.C09 Require Import WKBDefs.
Import ListNotations.
Local Open Scope N_scope.

(* ---------------------------------------------------------------- constants *)
Lemma pow4 : 256 ^ N.of_nat 4 = W32. Proof. reflexivity. Qed.
Lemma pow8 : 256 ^ N.of_nat 8 = W64. Proof. reflexivity. Qed.
Lemma NAN64_lt : NAN64 < W64. Proof. reflexivity. Qed.
Lemma NAN64_nan : is_nan NAN64 = true. Proof. reflexivity. Qed.
Lemma zero_lt_W32 : 0 < W32. Proof. reflexivity. Qed.
Lemma wf_nan_seq : wf_seq nan_seq = true. Proof. reflexivity. Qed.
Global Opaque W32 W64 NAN64.

(* ---------------------------------------------------------------- induction principle for the nested tree *)
Section GeomInd.
  Variable P : geom -> Prop.
  Hypothesis HPt : forall srid s, P (GPoint srid s).
  Hypothesis HSi : forall k srid s, P (GSimple k srid s).
  Hypothesis HPg : forall srid sh hs, P (GPoly srid sh hs).
  Hypothesis HCc : forall srid secs, P (GCompound srid secs).
  Hypothesis HCp : forall srid sh hs, P sh -> Forall P hs -> P (GCurvePoly srid sh hs).
  Hypothesis HCo : forall k srid ks, Forall P ks -> P (GColl k srid ks).
  Fixpoint geom_ind' (g: geom) : P g :=
    match g with
    | GPoint srid s => HPt srid s
    | GSimple k srid s => HSi k srid s
    | GPoly srid sh hs => HPg srid sh hs
    | GCompound srid secs => HCc srid secs
    | GCurvePoly srid sh hs =>
        HCp srid sh hs (geom_ind' sh)
            ((fix F (l: list geom) : Forall P l := match l with [] => Forall_nil P | x :: r => Forall_cons x (geom_ind' x) (F r) end) hs)
    | GColl k srid ks =>
        HCo k srid ks ((fix F (l: list geom) : Forall P l := match l with [] => Forall_nil P | x :: r => Forall_cons x (geom_ind' x) (F r) end) ks)
    end.
End GeomInd.

(* ---------------------------------------------------------------- words *)
Lemma enc_len b k v : length (enc b k v) = k.
Proof. destruct b; [apply le_bytes_len | apply be_bytes_len]. Qed.
Lemma dec_enc b k v : v < 256 ^ N.of_nat k -> dec b (enc b k v) = v.
Proof. destruct b; [apply le_value_bytes | apply be_value_bytes]. Qed.
Lemma take_app_len k a rest : length a = k -> take k (a ++ rest) = Some (a, rest).
Proof. intros <-. apply take_app. Qed.
Lemma rd_word_enc k b v rest : v < 256 ^ N.of_nat k -> rd_word k b (enc b k v ++ rest) = Ok (v, rest).
Proof. intros H. unfold rd_word. rewrite take_app_len by apply enc_len. now rewrite dec_enc. Qed.
Lemma rd_u32_enc b v rest : v < W32 -> rd_u32 b (enc32 b v ++ rest) = Ok (v, rest).
Proof. intros H. apply rd_word_enc. now rewrite pow4. Qed.
Lemma rd_u64_enc b v rest : v < W64 -> rd_u64 b (enc64 b v ++ rest) = Ok (v, rest).
Proof. intros H. apply rd_word_enc. now rewrite pow8. Qed.
Lemma enc32_len b v : length (enc32 b v) = 4%nat. Proof. apply enc_len. Qed.
Lemma enc64_len b v : length (enc64 b v) = 8%nat. Proof. apply enc_len. Qed.

(* ---------------------------------------------------------------- type word: finite sweep *)
Definition codes : list N := [1; 2; 3; 4; 5; 6; 7; 8; 9; 10; 11; 12].
Lemma type_word_ok fl sf code oz om : In code codes ->
  decode_type (type_word fl sf code oz om) = (code, oz, om, sf && is_ext fl) /\ type_word fl sf code oz om < W32.
Proof.
  intros H. unfold codes in H. cbn [In] in H.
  destruct fl, sf, oz, om;
    repeat (destruct H as [<-|H]; [split; vm_compute; reflexivity|]); contradiction.
Qed.
Lemma skind_code_in k : In (skind_code k) codes.
Proof. destruct k; cbn; tauto. Qed.
Lemma ckind_code_in k : In (ckind_code k) codes.
Proof. destruct k; cbn; tauto. Qed.

(* ---------------------------------------------------------------- coordinates *)
Lemma wf_coord_bounds s p : wf_coord (hz s) (hm s) p = true ->
  cx p < W64 /\ cy p < W64 /\ ord_z s p < W64 /\ ord_m s p < W64.
Proof.
  unfold wf_coord, ord_z, ord_m. intros H.
  apply andb_true_iff in H. destruct H as [H Hm]. apply andb_true_iff in H. destruct H as [H Hz].
  apply andb_true_iff in H. destruct H as [Hx Hy]. apply N.ltb_lt in Hx, Hy.
  repeat split; try assumption.
  - destruct (hz s); [now apply N.ltb_lt | apply NAN64_lt].
  - destruct (hm s); [now apply N.ltb_lt | apply NAN64_lt].
Qed.

Lemma rd_coord_w b oz om s p rest : wf_coord (hz s) (hm s) p = true ->
  rd_coord b oz om (w_coord b oz om s p ++ rest) = Ok (conv_pt oz om s p, rest).
Proof.
  intros H. apply wf_coord_bounds in H. destruct H as (Hx & Hy & Hz & Hm).
  unfold rd_coord, w_coord. rewrite <- !app_assoc.
  rewrite rd_u64_enc by exact Hx. cbn [bind]. rewrite rd_u64_enc by exact Hy. cbn [bind].
  unfold conv_pt.
  destruct oz, om; cbn [app]; rewrite <- ?app_assoc;
    rewrite ?rd_u64_enc by assumption; cbn [bind app]; rewrite ?rd_u64_enc by assumption; reflexivity.
Qed.

Lemma w_coord_len b oz om s p : (16 <= length (w_coord b oz om s p))%nat.
Proof. unfold w_coord. rewrite !app_length, !enc64_len. lia. Qed.
Lemma w_coords_len b oz om s ps : (16 * length ps <= length (flat_map (w_coord b oz om s) ps))%nat.
Proof.
  induction ps as [|p r IH]; cbn [flat_map length]; [lia|].
  rewrite app_length. pose proof (w_coord_len b oz om s p). lia.
Qed.

Lemma rd_coords_w b oz om s ps rest : forallb (wf_coord (hz s) (hm s)) ps = true ->
  rd_coords b oz om (length ps) (flat_map (w_coord b oz om s) ps ++ rest) = Ok (map (conv_pt oz om s) ps, rest).
Proof.
  induction ps as [|p r IH]; intros H; cbn [length rd_coords flat_map map app]; [reflexivity|].
  cbn [forallb] in H. apply andb_true_iff in H. destruct H as [Hp Hr].
  rewrite <- app_assoc. rewrite rd_coord_w by exact Hp. cbn [bind]. rewrite IH by exact Hr. reflexivity.
Qed.

Lemma minmem_ok n sz l : (n * sz <= length l)%nat -> minmem (N.of_nat n) (N.of_nat sz) l = true.
Proof. intros H. unfold minmem. apply N.leb_le. lia. Qed.

Lemma wf_seq_parts s : wf_seq s = true ->
  forallb (wf_coord (hz s) (hm s)) (pts s) = true /\ N.of_nat (length (pts s)) < W32.
Proof.
  unfold wf_seq, cnt_ok. intros H. apply andb_true_iff in H. destruct H as [H1 H2]. split; [exact H1|].
  apply N.ltb_lt in H2. eapply N.lt_trans; [exact H2|]. reflexivity.
Qed.

Lemma rd_cseq_w b oz om s rest : wf_seq s = true ->
  rd_cseq b oz om (N.of_nat (length (pts s))) (flat_map (w_coord b oz om s) (pts s) ++ rest) = Ok (conv oz om s, rest).
Proof.
  intros H. apply wf_seq_parts in H. destruct H as [Hc _].
  unfold rd_cseq. change 16 with (N.of_nat 16).
  rewrite minmem_ok by (rewrite app_length; pose proof (w_coords_len b oz om s (pts s)); lia).
  rewrite Nat2N.id. rewrite rd_coords_w by exact Hc. reflexivity.
Qed.

Lemma rd_sized_w b oz om s rest : wf_seq s = true ->
  rd_sized b oz om (w_seq b oz om true s ++ rest) = Ok (conv oz om s, rest).
Proof.
  intros H. pose proof (wf_seq_parts s H) as [_ Hn].
  unfold rd_sized, w_seq. rewrite <- app_assoc. rewrite rd_u32_enc by exact Hn. cbn [bind].
  change 16 with (N.of_nat 16).
  rewrite minmem_ok by (rewrite app_length; pose proof (w_coords_len b oz om s (pts s)); lia).
  apply rd_cseq_w. exact H.
Qed.
Lemma w_seq_len b oz om s : (4 + 16 * length (pts s) <= length (w_seq b oz om true s))%nat.
Proof. unfold w_seq. rewrite app_length, enc32_len. pose proof (w_coords_len b oz om s (pts s)). lia. Qed.

(* ---------------------------------------------------------------- the constructor checks only look at X, Y and the count *)
Lemma conv_len oz om s : length (pts (conv oz om s)) = length (pts s).
Proof. unfold conv. cbn [pts]. apply map_length. Qed.
Lemma conv_empty oz om s : seq_empty (conv oz om s) = seq_empty s.
Proof. unfold seq_empty, conv. cbn [pts]. destruct (pts s); reflexivity. Qed.
Lemma first_conv oz om s : cx (first_pt (conv oz om s)) = cx (first_pt s) /\ cy (first_pt (conv oz om s)) = cy (first_pt s).
Proof. unfold first_pt, conv. cbn [pts]. destruct (pts s); cbn [map hd]; split; reflexivity. Qed.
Lemma last_map_xy (f: coord -> coord) (l: list coord) :
  (forall p, cx (f p) = cx p /\ cy (f p) = cy p) ->
  cx (last (map f l) dummy) = cx (last l dummy) /\ cy (last (map f l) dummy) = cy (last l dummy).
Proof.
  intros Hf. induction l as [|a r IH]; [split; reflexivity|].
  destruct r as [|a' r']; [cbn [map last]; apply Hf|]. exact IH.
Qed.
Lemma last_conv oz om s : cx (last_pt (conv oz om s)) = cx (last_pt s) /\ cy (last_pt (conv oz om s)) = cy (last_pt s).
Proof. unfold last_pt, conv. cbn [pts]. apply last_map_xy. intros p. split; reflexivity. Qed.
Lemma feq2_xy p q p' q' : cx p = cx p' -> cy p = cy p' -> cx q = cx q' -> cy q = cy q' -> feq2 p q = feq2 p' q'.
Proof. unfold feq2. intros -> -> -> ->. reflexivity. Qed.
Lemma closed_conv oz om s : closed (conv oz om s) = closed s.
Proof.
  unfold closed. rewrite conv_empty. f_equal.
  destruct (first_conv oz om s), (last_conv oz om s). now apply feq2_xy.
Qed.
Lemma v_ring_conv oz om s : v_ring (conv oz om s) = v_ring s.
Proof. unfold v_ring. now rewrite conv_empty, closed_conv, conv_len. Qed.
Lemma v_simple_conv oz om k s : v_simple k (conv oz om s) = v_simple k s.
Proof. destruct k; cbn [v_simple]; rewrite ?conv_len, ?v_ring_conv; reflexivity. Qed.
(* a valid ring is also a valid line string: that is how a ring written with the LineString code is accepted again *)
Lemma v_ring_line s : v_ring s = true -> v_simple SLine s = true.
Proof.
  unfold v_ring, v_simple, seq_empty. intros H. destruct (pts s) as [|a [|b r]]; cbn [length] in *; try reflexivity.
  cbn in H. rewrite andb_false_r in H. discriminate.
Qed.
Lemma v_simple_line_of k s : v_simple k s = true -> v_simple (line_of k) s = true.
Proof. destruct k; cbn [line_of]; auto. apply v_ring_line. Qed.
Lemma contiguous_conv oz om (l: list cseq) : contiguous (map (conv oz om) l) = contiguous l.
Proof.
  induction l as [|a r IH]; [reflexivity|].
  destruct r as [|b r']; [reflexivity|].
  change (contiguous (map (conv oz om) (a :: b :: r'))) with
    (feq2 (last_pt (conv oz om a)) (first_pt (conv oz om b)) && contiguous (map (conv oz om) (b :: r'))).
  rewrite IH. change (contiguous (a :: b :: r')) with (feq2 (last_pt a) (first_pt b) && contiguous (b :: r')).
  f_equal. destruct (last_conv oz om a), (first_conv oz om b). now apply feq2_xy.
Qed.

(* ---------------------------------------------------------------- header *)
Lemma keep_srid_read c inc srid :
  (if (inc && negb (srid =? 0)) && is_ext (c_fl c) then srid else 0) = keep_srid c inc srid.
Proof.
  unfold keep_srid. destruct inc, (is_ext (c_fl c)), (srid =? 0) eqn:E; cbn [andb negb]; try reflexivity.
  apply N.eqb_eq in E. auto.
Qed.

Lemma rd_geom_header rec c inc code oz om srid body b0 : In code codes -> srid < W32 ->
  rd_geom rec b0 (w_header c inc code oz om srid ++ body) =
  bind (rd_body rec code oz om (c_bo c) body) (fun '(g, b1, l4) => Ok (set_srid (keep_srid c inc srid) g, b1, l4)).
Proof.
  intros Hc Hs. unfold w_header. cbn [app]. unfold rd_geom.
  replace (if bo_byte (c_bo c) =? 1 then LE else if bo_byte (c_bo c) =? 0 then BE else b0) with (c_bo c)
    by (destruct (c_bo c); reflexivity).
  rewrite <- keep_srid_read.
  set (sf := inc && negb (srid =? 0)).
  destruct (type_word_ok (c_fl c) sf code oz om Hc) as [Hd Hlt].
  rewrite <- app_assoc. rewrite rd_u32_enc by exact Hlt. cbn [bind]. rewrite Hd.
  destruct (sf && is_ext (c_fl c)).
  - rewrite rd_u32_enc by exact Hs. cbn [bind]. reflexivity.
  - cbn [app bind]. reflexivity.
Qed.
Lemma header_len c inc code oz om srid : (5 <= length (w_header c inc code oz om srid))%nat.
Proof. unfold w_header. rewrite !app_length, enc32_len. cbn [length]. lia. Qed.

(* ---------------------------------------------------------------- point, simple curves, polygon *)
Lemma rd_point rec c inc oz om srid s b0 rest : srid < W32 -> wf_seq s = true -> (length (pts s) <= 1)%nat ->
  rd_geom rec b0 (w_header c inc 1 oz om srid
                  ++ (if seq_empty s then w_seq (c_bo c) oz om false nan_seq else w_seq (c_bo c) oz om false s) ++ rest)
  = Ok (GPoint (keep_srid c inc srid)
          (if seq_empty s || (is_nan (cx (first_pt (conv oz om s))) && is_nan (cy (first_pt (conv oz om s))))
           then empty_seq oz om else conv oz om s), c_bo c, rest).
Proof.
  intros Hs Hw Hl. rewrite rd_geom_header by (cbn; tauto || exact Hs).
  unfold rd_body. cbn [N.eqb Pos.eqb].
  destruct s as [z0 m0 ps]. cbn [pts] in Hl. unfold seq_empty. cbn [pts].
  destruct ps as [|q [|q' r]]; [| |cbn [length] in Hl; lia].
  - change (w_seq (c_bo c) oz om false nan_seq) with (flat_map (w_coord (c_bo c) oz om nan_seq) (pts nan_seq)).
    change (rd_cseq (c_bo c) oz om 1) with (rd_cseq (c_bo c) oz om (N.of_nat (length (pts nan_seq)))).
    rewrite rd_cseq_w by exact wf_nan_seq. cbn [bind orb].
    replace (is_nan (cx (first_pt (conv oz om nan_seq)))) with true by (symmetry; exact NAN64_nan).
    replace (is_nan (cy (first_pt (conv oz om nan_seq)))) with true by (symmetry; exact NAN64_nan).
    reflexivity.
  - set (s := {| hz := z0; hm := m0; pts := [q] |}) in *.
    change (w_seq (c_bo c) oz om false s) with (flat_map (w_coord (c_bo c) oz om s) (pts s)).
    change (rd_cseq (c_bo c) oz om 1) with (rd_cseq (c_bo c) oz om (N.of_nat (length (pts s)))).
    rewrite rd_cseq_w by exact Hw. cbn [bind orb].
    destruct (is_nan (cx (first_pt (conv oz om s))) && is_nan (cy (first_pt (conv oz om s)))); reflexivity.
Qed.

Lemma rd_simple rec c inc oz om k srid s b0 rest : srid < W32 -> wf_seq s = true -> v_simple k s = true ->
  rd_geom rec b0 (w_simple c inc oz om k srid s ++ rest)
  = Ok (GSimple (line_of k) (keep_srid c inc srid) (conv oz om s), c_bo c, rest).
Proof.
  intros Hs Hw Hv. unfold w_simple. rewrite <- app_assoc.
  rewrite rd_geom_header by (exact Hs || apply skind_code_in).
  apply v_simple_line_of in Hv.
  destruct k; cbn [skind_code line_of] in *; unfold rd_body; cbn [N.eqb Pos.eqb];
    rewrite rd_sized_w by exact Hw; cbn [bind]; rewrite v_simple_conv, Hv; reflexivity.
Qed.
Lemma w_simple_len c inc oz om k srid s : (9 + 16 * length (pts s) <= length (w_simple c inc oz om k srid s))%nat.
Proof.
  unfold w_simple. rewrite app_length. pose proof (header_len c inc (skind_code k) oz om srid).
  pose proof (w_seq_len (c_bo c) oz om s). lia.
Qed.

Lemma rd_rings_w b oz om hs rest : forallb (fun h => wf_seq h && v_ring h) hs = true ->
  rd_rings b oz om (length hs) (flat_map (w_seq b oz om true) hs ++ rest) = Ok (map (conv oz om) hs, rest).
Proof.
  induction hs as [|h r IH]; intros H; cbn [length rd_rings flat_map map app]; [reflexivity|].
  cbn [forallb] in H. apply andb_true_iff in H. destruct H as [Hh Hr]. apply andb_true_iff in Hh. destruct Hh as [Hw Hv].
  rewrite <- app_assoc. unfold rd_ring. rewrite rd_sized_w by exact Hw. cbn [bind].
  rewrite v_ring_conv, Hv. cbn [bind]. rewrite IH by exact Hr. reflexivity.
Qed.
Lemma rings_len b oz om hs : (4 * length hs <= length (flat_map (w_seq b oz om true) hs))%nat.
Proof.
  induction hs as [|h r IH]; cbn [flat_map length]; [lia|].
  rewrite app_length. pose proof (w_seq_len b oz om h). lia.
Qed.
Lemma of_nat_S_neq0 n : (N.of_nat (S n) =? 0) = false.
Proof. apply N.eqb_neq. lia. Qed.
Lemma to_nat_pred n : N.to_nat (N.of_nat (S n) - 1) = n.
Proof. lia. Qed.
Lemma cnt_lt n : cnt_ok n = true -> N.of_nat n < W32.
Proof. unfold cnt_ok. intros H. apply N.ltb_lt in H. eapply N.lt_trans; [exact H|]. reflexivity. Qed.

Lemma rd_poly rec c inc oz om srid sh hs b0 rest : srid < W32 -> wf_seq sh = true -> v_ring sh = true ->
  forallb (fun h => wf_seq h && v_ring h) hs = true -> cnt_ok (S (length hs)) = true ->
  rd_geom rec b0 (w_header c inc 3 oz om srid
     ++ (if seq_empty sh then enc32 (c_bo c) 0
         else enc32 (c_bo c) (N.of_nat (S (length hs))) ++ w_seq (c_bo c) oz om true sh ++ flat_map (w_seq (c_bo c) oz om true) hs) ++ rest)
  = Ok (if seq_empty sh then GPoly (keep_srid c inc srid) (empty_seq oz om) []
        else GPoly (keep_srid c inc srid) (conv oz om sh) (map (conv oz om) hs), c_bo c, rest).
Proof.
  intros Hs Hw Hv Hh Hc. rewrite rd_geom_header by (cbn; tauto || exact Hs).
  unfold rd_body. cbn [N.eqb Pos.eqb].
  destruct (seq_empty sh) eqn:E.
  - rewrite rd_u32_enc by exact zero_lt_W32. cbn [bind].
    replace (minmem 0 4 rest) with true by (symmetry; unfold minmem; apply N.leb_le; lia).
    cbn [N.eqb]. reflexivity.
  - rewrite <- !app_assoc. rewrite rd_u32_enc by (apply cnt_lt; exact Hc). cbn [bind].
    change 4 with (N.of_nat 4).
    rewrite minmem_ok by (rewrite !app_length; pose proof (w_seq_len (c_bo c) oz om sh);
                          pose proof (rings_len (c_bo c) oz om hs); lia).
    rewrite of_nat_S_neq0. unfold rd_ring. rewrite rd_sized_w by exact Hw. cbn [bind].
    rewrite v_ring_conv, Hv. cbn [bind]. rewrite to_nat_pred. rewrite rd_rings_w by exact Hh. cbn [bind].
    rewrite conv_empty, E. cbn [andb]. reflexivity.
Qed.

(* ---------------------------------------------------------------- n children *)
Lemma rd_many_w {A: Type} rec ok (W: A -> list byte) (E: A -> geom) b (xs: list A) rest :
  (forall x, In x xs -> forall b0 r, rec b0 (W x ++ r) = Ok (E x, b, r)) ->
  (forall x, In x xs -> ok (E x) = true) ->
  rd_many rec ok (length xs) b (flat_map W xs ++ rest) = Ok (map E xs, b, rest).
Proof.
  induction xs as [|x r IH]; intros Hr Ho; cbn [length rd_many flat_map map app]; [reflexivity|].
  rewrite <- app_assoc. rewrite Hr by (left; reflexivity). cbn [bind].
  rewrite Ho by (left; reflexivity).
  rewrite IH; [reflexivity| |]; intros; [apply Hr | apply Ho]; right; assumption.
Qed.
Lemma flat_len_ge {A: Type} (W: A -> list byte) (k: nat) (xs: list A) :
  (forall x, In x xs -> k <= length (W x))%nat -> (length xs * k <= length (flat_map W xs))%nat.
Proof.
  induction xs as [|x r IH]; intros H; cbn [flat_map length]; [lia|].
  rewrite app_length. pose proof (H x (or_introl eq_refl)). assert (length r * k <= length (flat_map W r))%nat by (apply IH; intros; apply H; now right). lia.
Qed.

(* ---------------------------------------------------------------- compound curve *)
Definition sec_w (c: cfg) (oz om: bool) (x: skind * N * cseq) : list byte := w_simple c false oz om (fst (fst x)) (snd (fst x)) (snd x).
Definition sec_e (oz om: bool) (x: skind * N * cseq) : skind * N * cseq := (line_of (fst (fst x)), 0, conv oz om (snd x)).
Lemma wf_sec_parts x : wf_sec x = true ->
  wf_seq (snd x) = true /\ v_simple (fst (fst x)) (snd x) = true /\ seq_empty (snd x) = false /\ snd (fst x) < W32.
Proof.
  unfold wf_sec. intros H. apply andb_true_iff in H. destruct H as [H H4]. apply andb_true_iff in H. destruct H as [H H3].
  apply andb_true_iff in H. destruct H as [H1 H2]. apply N.ltb_lt in H4. apply negb_true_iff in H3. auto.
Qed.
Lemma nonempty_len s : seq_empty s = false -> (1 <= length (pts s))%nat.
Proof. unfold seq_empty. destruct (pts s); [discriminate|]. cbn [length]. lia. Qed.
Lemma no_empty_sec oz om secs : forallb wf_sec secs = true ->
  existsb (fun x => seq_empty (sec_seq x)) (map (sec_e oz om) secs) = false.
Proof.
  induction secs as [|x r IH]; intros H; cbn [map existsb]; [reflexivity|].
  cbn [forallb] in H. apply andb_true_iff in H. destruct H as [Hx Hr].
  apply wf_sec_parts in Hx. destruct Hx as (_ & _ & He & _).
  unfold sec_seq at 1, sec_e at 1. cbn [snd]. rewrite conv_empty, He, IH by exact Hr. reflexivity.
Qed.

Lemma rd_compound rec0 c inc oz om srid secs b0 rest : srid < W32 -> forallb wf_sec secs = true ->
  contiguous (map sec_seq secs) = true -> cnt_ok (length secs) = true ->
  rd_geom (rd_geom rec0) b0 (w_header c inc 9 oz om srid ++ enc32 (c_bo c) (N.of_nat (length secs)) ++ flat_map (sec_w c oz om) secs ++ rest)
  = Ok (GCompound (keep_srid c inc srid) (map (sec_e oz om) secs), c_bo c, rest).
Proof.
  intros Hs Hw Hc Hn. rewrite rd_geom_header by (cbn; tauto || exact Hs).
  unfold rd_body. cbn [N.eqb Pos.eqb].
  rewrite rd_u32_enc by (apply cnt_lt; exact Hn). cbn [bind].
  assert (Hall : forall x, In x secs -> wf_sec x = true) by (apply forallb_forall; exact Hw).
  change 16 with (N.of_nat 16).
  rewrite minmem_ok.
  2:{ rewrite app_length. assert (length secs * 16 <= length (flat_map (sec_w c oz om) secs))%nat; [|lia].
      apply flat_len_ge. intros x Hx. unfold sec_w.
      pose proof (w_simple_len c false oz om (fst (fst x)) (snd (fst x)) (snd x)).
      apply Hall in Hx. apply wf_sec_parts in Hx. destruct Hx as (_ & _ & He & _). apply nonempty_len in He. lia. }
  rewrite Nat2N.id.
  rewrite (rd_many_w (rd_geom rec0) is_simple (sec_w c oz om)
             (fun x => GSimple (line_of (fst (fst x))) 0 (conv oz om (snd x))) (c_bo c) secs rest).
  - cbn [bind]. rewrite map_map.
    change (map (fun x => to_sec (GSimple (line_of (fst (fst x))) 0 (conv oz om (snd x)))) secs) with (map (sec_e oz om) secs).
    rewrite no_empty_sec by exact Hw. rewrite andb_false_r.
    rewrite map_map. change (map (fun x => sec_seq (sec_e oz om x)) secs) with (map (fun x => conv oz om (sec_seq x)) secs).
    rewrite <- (map_map sec_seq (conv oz om)). rewrite contiguous_conv, Hc. reflexivity.
  - intros x Hx b1 r. apply Hall in Hx. apply wf_sec_parts in Hx. destruct Hx as (H1 & H2 & _ & H4).
    unfold sec_w. rewrite rd_simple by assumption. reflexivity.
  - reflexivity.
Qed.

(* ---------------------------------------------------------------- shape facts about expect_at *)
Lemma is_curve_expect c inc g : is_curve (expect_at c inc g) = is_curve g.
Proof.
  destruct g; cbn [expect_at]; destruct (out_ords _ _) as [oz om]; try reflexivity.
  - destruct (seq_empty shell); reflexivity.
  - destruct (g_empty g); reflexivity.
Qed.
Lemma kid_ok_expect c inc k g : kid_ok k (expect_at c inc g) = kid_ok k g.
Proof.
  destruct g; cbn [expect_at]; destruct (out_ords _ _) as [oz om].
  - destruct k; reflexivity.
  - destruct k, k0; reflexivity.
  - destruct (seq_empty shell), k; reflexivity.
  - destruct k; reflexivity.
  - destruct (g_empty g), k; reflexivity.
  - destruct k, k0; reflexivity.
Qed.
Lemma forallb_map_empty oz om (secs: list (skind * N * cseq)) :
  forallb (fun x => seq_empty (sec_seq x)) (map (sec_e oz om) secs) = forallb (fun x => seq_empty (sec_seq x)) secs.
Proof.
  induction secs as [|x r IH]; [reflexivity|]. cbn [map forallb]. rewrite IH. f_equal.
  unfold sec_seq, sec_e. cbn [snd]. apply conv_empty.
Qed.
Lemma g_empty_expect c inc g : is_curve g = true -> g_empty (expect_at c inc g) = g_empty g.
Proof.
  destruct g; cbn [is_curve]; try discriminate; intros _; cbn [expect_at]; destruct (out_ords _ _) as [oz om]; cbn [g_empty].
  - apply conv_empty.
  - apply (forallb_map_empty oz om).
Qed.

(* ---------------------------------------------------------------- sizes: what minMemSize relies on *)
Lemma wr_len9 c inc g : (9 <= length (wr c inc g))%nat.
Proof.
  destruct g; cbn [wr]; destruct (out_ords _ _) as [oz om].
  - rewrite app_length. pose proof (header_len c inc 1 oz om srid).
    assert (16 <= length (if seq_empty s then w_seq (c_bo c) oz om false nan_seq else w_seq (c_bo c) oz om false s))%nat; [|lia].
    unfold seq_empty. destruct s as [z0 m0 [|p r]]; cbn [pts].
    + unfold w_seq, nan_seq. cbn [pts flat_map app]. rewrite app_length. pose proof (w_coord_len (c_bo c) oz om {| hz := true; hm := true; pts := [{| cx := NAN64; cy := NAN64; cz := NAN64; cm := NAN64 |}] |} {| cx := NAN64; cy := NAN64; cz := NAN64; cm := NAN64 |}). lia.
    + unfold w_seq. cbn [pts flat_map app]. rewrite app_length. pose proof (w_coord_len (c_bo c) oz om {| hz := z0; hm := m0; pts := p :: r |} p). lia.
  - pose proof (w_simple_len c inc oz om k srid s). lia.
  - rewrite app_length. pose proof (header_len c inc 3 oz om srid).
    destruct (seq_empty shell); rewrite ?app_length, enc32_len; lia.
  - rewrite !app_length, enc32_len. pose proof (header_len c inc 9 oz om srid). lia.
  - rewrite app_length. pose proof (header_len c inc 10 oz om srid).
    destruct (g_empty g); rewrite ?app_length, enc32_len; lia.
  - rewrite !app_length, enc32_len. pose proof (header_len c inc (ckind_code k) oz om srid). lia.
Qed.
Lemma wr_len_pt c inc srid s : (21 <= length (wr c inc (GPoint srid s)))%nat.
Proof.
  cbn [wr]; destruct (out_ords _ _) as [oz om].
  rewrite app_length. pose proof (header_len c inc 1 oz om srid).
  assert (16 <= length (if seq_empty s then w_seq (c_bo c) oz om false nan_seq else w_seq (c_bo c) oz om false s))%nat; [|lia].
  unfold seq_empty. destruct s as [z0 m0 [|p r]]; cbn [pts].
  + unfold w_seq, nan_seq. cbn [pts flat_map app]. rewrite app_length. pose proof (w_coord_len (c_bo c) oz om {| hz := true; hm := true; pts := [{| cx := NAN64; cy := NAN64; cz := NAN64; cm := NAN64 |}] |} {| cx := NAN64; cy := NAN64; cz := NAN64; cm := NAN64 |}). lia.
  + unfold w_seq. cbn [pts flat_map app]. rewrite app_length. pose proof (w_coord_len (c_bo c) oz om {| hz := z0; hm := m0; pts := p :: r |} p). lia.
Qed.
Lemma kid_len c inc k g : kid_ok k g = true -> (N.to_nat (coll_minsz k) <= length (wr c inc g))%nat.
Proof.
  intros H. destruct k.
  - destruct g; try discriminate. pose proof (wr_len_pt c inc srid s). change (N.to_nat (coll_minsz CMPoint)) with 21%nat. lia.
  - pose proof (wr_len9 c inc g). change (N.to_nat (coll_minsz CMLine)) with 9%nat. lia.
  - pose proof (wr_len9 c inc g). change (N.to_nat (coll_minsz CMPoly)) with 9%nat. lia.
  - pose proof (wr_len9 c inc g). change (N.to_nat (coll_minsz CGC)) with 9%nat. lia.
  - pose proof (wr_len9 c inc g). change (N.to_nat (coll_minsz CMCurve)) with 9%nat. lia.
  - pose proof (wr_len9 c inc g). change (N.to_nat (coll_minsz CMSurf)) with 9%nat. lia.
Qed.

Lemma depth_fold_le d0 (hs: list geom) g : In g hs -> (depth g <= fold_right (fun g d => Nat.max (depth g) d) d0 hs)%nat.
Proof. induction hs as [|h r IH]; intros H; [contradiction|]. cbn [fold_right]. destruct H as [->|H]; [lia|]. apply IH in H. lia. Qed.
Lemma depth_fold_base d0 (hs: list geom) : (d0 <= fold_right (fun g d => Nat.max (depth g) d) d0 hs)%nat.
Proof. induction hs as [|h r IH]; cbn [fold_right]; lia. Qed.

(* ---------------------------------------------------------------- the cycle, for every nesting depth *)
Ltac split_wf H :=
  repeat match type of H with (_ && _ = true) => let H' := fresh "Hw" in apply andb_true_iff in H; destruct H as [H H'] end.

Theorem rd_wr c : forall f g inc b0 rest, wf g = true -> (depth g <= f)%nat ->
  rd f b0 (wr c inc g ++ rest) = Ok (expect_at c inc g, c_bo c, rest).
Proof.
  induction f as [|f IH]; intros g inc b0 rest Hwf Hd.
  - destruct g; cbn [depth] in Hd; lia.
  - cbn [rd]. destruct g; cbn [wr expect_at]; destruct (out_ords _ _) as [oz om]; cbn [wf] in Hwf.
    + (* point *)
      split_wf Hwf. apply N.ltb_lt in Hwf. apply Nat.leb_le in Hw. rewrite <- app_assoc.
      rewrite rd_point by assumption. reflexivity.
    + (* simple curve *)
      split_wf Hwf. apply N.ltb_lt in Hwf. apply rd_simple; assumption.
    + (* polygon *)
      split_wf Hwf. apply N.ltb_lt in Hwf. rewrite <- app_assoc. rewrite rd_poly by assumption.
      destruct (seq_empty shell); reflexivity.
    + (* compound curve *)
      split_wf Hwf. apply N.ltb_lt in Hwf. cbn [depth] in Hd. destruct f as [|f']; [lia|]. cbn [rd].
      rewrite <- !app_assoc. apply rd_compound; assumption.
    + (* curve polygon *)
      split_wf Hwf. apply N.ltb_lt in Hwf. rename g into sh. cbn [depth] in Hd. apply le_S_n in Hd.
      rewrite <- app_assoc. rewrite rd_geom_header by (cbn; tauto || exact Hwf).
      unfold rd_body. cbn [N.eqb Pos.eqb].
      destruct (g_empty sh) eqn:E.
      * rewrite rd_u32_enc by exact zero_lt_W32. cbn [bind].
        replace (minmem 0 4 rest) with true by (symmetry; unfold minmem; apply N.leb_le; lia).
        cbn [N.eqb]. reflexivity.
      * assert (Hall : forall h, In h holes -> wf h = true /\ is_curve h = true).
        { intros h Hh. rewrite forallb_forall in Hw1. apply Hw1 in Hh. now apply andb_true_iff in Hh. }
        rewrite <- !app_assoc. rewrite rd_u32_enc by (apply cnt_lt; assumption). cbn [bind].
        change 4 with (N.of_nat 4).
        rewrite minmem_ok.
        2:{ rewrite !app_length. pose proof (wr_len9 c inc sh).
            assert (length holes * 9 <= length (flat_map (wr c inc) holes))%nat by (apply flat_len_ge; intros; apply wr_len9). lia. }
        rewrite of_nat_S_neq0. cbn [rd_many].
        rewrite IH; [|assumption|pose proof (depth_fold_base (depth sh) holes); lia]. cbn [bind].
        rewrite is_curve_expect, Hw2. rewrite to_nat_pred. cbn [bind].
        rewrite (rd_many_w (rd f) is_curve (wr c inc) (expect_at c inc) (c_bo c) holes rest).
        -- cbn [bind hd]. rewrite g_empty_expect by assumption. rewrite E. cbn [andb]. reflexivity.
        -- intros h Hh b1 r. apply IH; [apply Hall; exact Hh|]. pose proof (depth_fold_le (depth sh) holes h Hh). lia.
        -- intros h Hh. rewrite is_curve_expect. apply Hall; exact Hh.
    + (* collections *)
      split_wf Hwf. apply N.ltb_lt in Hwf. cbn [depth] in Hd. apply le_S_n in Hd.
      assert (Hall : forall g, In g kids -> wf g = true /\ kid_ok k g = true).
      { intros g Hg. rewrite forallb_forall in Hw0. apply Hw0 in Hg. now apply andb_true_iff in Hg. }
      rewrite <- !app_assoc. rewrite rd_geom_header by (apply ckind_code_in || exact Hwf).
      assert (Hbody : rd_body (rd f) (ckind_code k) oz om (c_bo c)
                        (enc32 (c_bo c) (N.of_nat (length kids)) ++ flat_map (wr c false) kids ++ rest)
                      = Ok (GColl k 0 (map (expect_at c false) kids), c_bo c, rest)).
      { unfold rd_body.
        replace (ckind_code k =? 1) with false by (destruct k; reflexivity).
        replace (ckind_code k =? 2) with false by (destruct k; reflexivity).
        replace (ckind_code k =? 8) with false by (destruct k; reflexivity).
        replace (ckind_code k =? 3) with false by (destruct k; reflexivity).
        replace (ckind_code k =? 9) with false by (destruct k; reflexivity).
        replace (ckind_code k =? 10) with false by (destruct k; reflexivity).
        replace (code_ckind (ckind_code k)) with (Some k) by (destruct k; reflexivity).
        rewrite rd_u32_enc by (apply cnt_lt; assumption). cbn [bind].
        replace (coll_minsz k) with (N.of_nat (N.to_nat (coll_minsz k))) by (destruct k; reflexivity).
        rewrite minmem_ok.
        2:{ rewrite app_length.
            assert (length kids * N.to_nat (coll_minsz k) <= length (flat_map (wr c false) kids))%nat; [|lia].
            apply flat_len_ge. intros g Hg. apply kid_len. apply Hall; exact Hg. }
        rewrite Nat2N.id.
        rewrite (rd_many_w (rd f) (kid_ok k) (wr c false) (expect_at c false) (c_bo c) kids rest).
        - reflexivity.
        - intros g Hg b1 r. apply IH; [apply Hall; exact Hg|]. pose proof (depth_fold_le 0%nat kids g Hg). lia.
        - intros g Hg. rewrite kid_ok_expect. apply Hall; exact Hg. }
      rewrite Hbody. reflexivity.
Qed.

Lemma curve_depth g : is_curve g = true -> (depth g <= 2)%nat.
Proof. destruct g; cbn [is_curve depth]; try discriminate; lia. Qed.
Lemma fold_max_le (f: geom -> nat) (b: nat) (hs: list geom) d0 :
  (d0 <= b)%nat -> (forall h, In h hs -> depth h <= b)%nat -> (fold_right (fun g d => Nat.max (depth g) d) d0 hs <= b)%nat.
Proof.
  intros H0 H. induction hs as [|h r IH]; cbn [fold_right]; [exact H0|].
  pose proof (H h (or_introl eq_refl)). assert (fold_right (fun g d => Nat.max (depth g) d) d0 r <= b)%nat by (apply IH; intros; apply H; now right). lia.
Qed.
Lemma fold_max_sum c (ks: list geom) :
  Forall (fun g => wf g = true -> forall inc, depth g <= length (wr c inc g))%nat ks ->
  (forall g, In g ks -> wf g = true) ->
  (fold_right (fun g d => Nat.max (depth g) d) 0 ks <= length (flat_map (wr c false) ks))%nat.
Proof.
  induction 1 as [|g r Hg _ IH]; intros Hw; cbn [fold_right flat_map]; [lia|].
  rewrite app_length. pose proof (Hg (Hw g (or_introl eq_refl)) false).
  assert (fold_right (fun g d => Nat.max (depth g) d) 0 r <= length (flat_map (wr c false) r))%nat by (apply IH; intros; apply Hw; now right). lia.
Qed.
Lemma depth_le_len c g : wf g = true -> forall inc, (depth g <= length (wr c inc g))%nat.
Proof.
  induction g using geom_ind'; intros Hwf inc.
  - pose proof (wr_len9 c inc (GPoint srid s)). cbn [depth]. lia.
  - pose proof (wr_len9 c inc (GSimple k srid s)). cbn [depth]. lia.
  - pose proof (wr_len9 c inc (GPoly srid sh hs)). cbn [depth]. lia.
  - pose proof (wr_len9 c inc (GCompound srid secs)). cbn [depth]. lia.
  - pose proof (wr_len9 c inc (GCurvePoly srid g hs)). cbn [wf] in Hwf. split_wf Hwf.
    assert (fold_right (fun g d => Nat.max (depth g) d) (depth g) hs <= 2)%nat.
    { apply (fold_max_le depth); [now apply curve_depth|]. intros h Hh. apply curve_depth.
      rewrite forallb_forall in Hw1. apply Hw1 in Hh. now apply andb_true_iff in Hh. }
    cbn [depth]. lia.
  - cbn [wf] in Hwf. split_wf Hwf.
    assert (Hall : forall g, In g ks -> wf g = true).
    { intros g Hg. rewrite forallb_forall in Hw0. apply Hw0 in Hg. now apply andb_true_iff in Hg. }
    pose proof (fold_max_sum c ks H Hall).
    cbn [depth wr]. destruct (out_ords _ _) as [oz om]. rewrite !app_length, enc32_len.
    pose proof (header_len c inc (ckind_code k) oz om srid). lia.
Qed.

(* ---------------------------------------------------------------- top level *)
Theorem wkb_roundtrip c g rest : wf g = true -> (depth g <= MAX_DEPTH)%nat ->
  wkb_read (wkb_write c g ++ rest) = Ok (expect c g, rest).
Proof.
  intros H Hd. unfold wkb_read, wkb_write, expect.
  rewrite rd_wr; [reflexivity|exact H|exact Hd].
Qed.

(* ---------------------------------------------------------------- byte orders, HEX *)
Definition with_bo (b: border) (c: cfg) : cfg := mkCfg b (c_fl c) (c_dim c) (c_srid c).
Lemma expect_at_bo b c inc g : expect_at (with_bo b c) inc g = expect_at c inc g.
Proof.
  revert inc. induction g using geom_ind'; intros inc; cbn [expect_at]; try reflexivity.
  - change (c_dim (with_bo b c)) with (c_dim c). destruct (out_ords _ _) as [oz om].
    destruct (g_empty g); [reflexivity|]. rewrite IHg. f_equal.
    apply map_ext_in. intros h Hh. rewrite Forall_forall in H. apply H. exact Hh.
  - change (c_dim (with_bo b c)) with (c_dim c). destruct (out_ords _ _) as [oz om].
    f_equal. f_equal. apply map_ext_in. intros h Hh. rewrite Forall_forall in H. apply H. exact Hh.
Qed.
Theorem byte_order_irrelevant c g : wf g = true -> (depth g <= MAX_DEPTH)%nat ->
  wkb_read (wkb_write (with_bo LE c) g) = wkb_read (wkb_write (with_bo BE c) g).
Proof.
  intros H Hd. rewrite <- (app_nil_r (wkb_write (with_bo LE c) g)), <- (app_nil_r (wkb_write (with_bo BE c) g)).
  rewrite !wkb_roundtrip by assumption. unfold expect. cbn [c_srid with_bo]. now rewrite !expect_at_bo.
Qed.

Lemma enc_lt b k v : Forall (fun x => x < 256) (enc b k v).
Proof. destruct b; [apply le_bytes_lt | apply be_bytes_lt]. Qed.
Lemma Forall_flat_map {A B: Type} (P: B -> Prop) (f: A -> list B) (l: list A) :
  (forall x, In x l -> Forall P (f x)) -> Forall P (flat_map f l).
Proof. induction l as [|x r IH]; intros H; cbn [flat_map]; [constructor|]. apply Forall_app. split; [apply H; now left | apply IH; intros; apply H; now right]. Qed.
Lemma w_seq_bytes b oz om sized s : Forall (fun x => x < 256) (w_seq b oz om sized s).
Proof.
  unfold w_seq. apply Forall_app. split; [destruct sized; [apply enc_lt|constructor]|].
  apply Forall_flat_map. intros p _. unfold w_coord.
  apply Forall_app. split; [apply enc_lt|]. apply Forall_app. split; [apply enc_lt|]. apply Forall_app. split.
  - destruct oz; [apply enc_lt|constructor].
  - destruct om; [apply enc_lt|constructor].
Qed.
Lemma header_bytes c inc code oz om srid : Forall (fun x => x < 256) (w_header c inc code oz om srid).
Proof.
  unfold w_header. apply Forall_app. split; [|apply Forall_app; split; [apply enc_lt|]].
  - constructor; [destruct (c_bo c); reflexivity|constructor].
  - destruct (_ && _); [apply enc_lt|constructor].
Qed.
Lemma wr_bytes c g : forall inc, Forall (fun x => x < 256) (wr c inc g).
Proof.
  induction g using geom_ind'; intros inc; cbn [wr]; destruct (out_ords _ _) as [oz om].
  - apply Forall_app. split; [apply header_bytes|]. destruct (seq_empty s); apply w_seq_bytes.
  - unfold w_simple. apply Forall_app. split; [apply header_bytes|apply w_seq_bytes].
  - apply Forall_app. split; [apply header_bytes|]. destruct (seq_empty sh); [apply enc_lt|].
    apply Forall_app. split; [apply enc_lt|]. apply Forall_app. split; [apply w_seq_bytes|].
    apply Forall_flat_map. intros; apply w_seq_bytes.
  - apply Forall_app. split; [apply header_bytes|]. apply Forall_app. split; [apply enc_lt|].
    apply Forall_flat_map. intros x _.
    unfold w_simple. apply Forall_app. split; [apply header_bytes|apply w_seq_bytes].
  - apply Forall_app. split; [apply header_bytes|]. destruct (g_empty g); [apply enc_lt|].
    apply Forall_app. split; [apply enc_lt|]. apply Forall_app. split; [apply IHg|].
    apply Forall_flat_map. intros h Hh. rewrite Forall_forall in H. now apply H.
  - apply Forall_app. split; [apply header_bytes|]. apply Forall_app. split; [apply enc_lt|].
    apply Forall_flat_map. intros h Hh. rewrite Forall_forall in H. now apply H.
Qed.

(* HEX text of a geometry reads back like the bytes, whatever the case of the letters *)
Theorem hex_roundtrip c g : wf g = true -> (depth g <= MAX_DEPTH)%nat -> hex_read (hex_write c g) = Ok (expect c g, []).
Proof.
  intros H Hd. unfold hex_read, hex_write. rewrite unhex_hex by apply wr_bytes.
  rewrite <- (app_nil_r (wkb_write c g)). now apply wkb_roundtrip.
Qed.
Theorem hex_case_insensitive c g s : map upper s = hex_write c g -> wf g = true -> (depth g <= MAX_DEPTH)%nat ->
  hex_read s = Ok (expect c g, []).
Proof.
  intros Hs H Hd. unfold hex_read. rewrite (unhex_case_insensitive s (hex_write c g)).
  - pose proof (hex_roundtrip c g H Hd) as H'. unfold hex_read in H'. exact H'.
  - rewrite Hs. unfold hex_write.
    destruct (hex_unhex (hex (wkb_write c g)) (wkb_write c g)) as [E _]; [apply unhex_hex, wr_bytes|]. exact E.
Qed.
Theorem hex_binary_same_value c g : unhex (hex_write c g) = Some (wkb_write c g).
Proof. unfold hex_write. apply unhex_hex, wr_bytes. Qed.

(* ---------------------------------------------------------------- the ordinate dropping rule: M first, then Z *)
Lemma out_ords_spec d z m :
  out_ords d (z, m) = match d with D4 => (z, m) | D3 => (z, m && negb z) | D2 => (false, false) end.
Proof. destruct d, z, m; reflexivity. Qed.
Lemma out_ords_idem d zm : out_ords d (out_ords d zm) = out_ords d zm.
Proof. destruct zm as [z m]. destruct d, z, m; reflexivity. Qed.
