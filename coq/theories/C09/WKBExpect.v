(* C09 — what `expect` is: (A) re-writing the re-read tree reproduces the bytes; (E) on regular trees `expect` is what the
   property text promises (`ideal`); witnesses for the classes on which it is not. *)
From Coq Require Import Arith NArith List Bool Lia.
From GeosV.Lib Require Import Bytes.
From GeosV.C09 Require Import WKBDefs WKBProofs.
Import ListNotations.
Local Open Scope N_scope.

(* ---------------------------------------------------------------- small list facts *)
Lemma existsb_map_ext {A: Type} (f: A -> bool) (h: A -> A) (l: list A) :
  Forall (fun k => f (h k) = f k) l -> existsb f (map h l) = existsb f l.
Proof. induction 1 as [|x r Hx _ IH]; [reflexivity|]. cbn [map existsb]. now rewrite Hx, IH. Qed.
Lemma flat_map_map_ext {A B: Type} (W: A -> list B) (h: A -> A) (l: list A) :
  Forall (fun k => W (h k) = W k) l -> flat_map W (map h l) = flat_map W l.
Proof. induction 1 as [|x r Hx _ IH]; [reflexivity|]. cbn [map flat_map]. now rewrite Hx, IH. Qed.
Lemma map_id_in {A: Type} (f: A -> A) (l: list A) : (forall x, In x l -> f x = x) -> map f l = l.
Proof. intros H. transitivity (map (fun x => x) l); [now apply map_ext_in | apply map_id]. Qed.
Lemma forallb_Forall {A: Type} (f: A -> bool) (l: list A) : forallb f l = true -> Forall (fun x => f x = true) l.
Proof. intros H. apply Forall_forall. now apply forallb_forall. Qed.

(* ---------------------------------------------------------------- header and sequences after conversion *)
Lemma header_keep c inc code oz om srid :
  w_header c inc code oz om (keep_srid c inc srid) = w_header c inc code oz om srid.
Proof.
  unfold w_header, keep_srid. destruct inc, (c_fl c); cbn [andb is_ext type_word]; try reflexivity.
  rewrite !andb_false_r. reflexivity.
Qed.
Lemma header_inc_false c code oz om s1 s2 : w_header c false code oz om s1 = w_header c false code oz om s2.
Proof. reflexivity. Qed.
Lemma w_coord_conv b oz om s p : w_coord b oz om (conv oz om s) (conv_pt oz om s p) = w_coord b oz om s p.
Proof. unfold w_coord, conv_pt, ord_z, ord_m, conv. cbn [cx cy cz cm hz hm]. destruct oz, om; reflexivity. Qed.
Lemma w_coords_conv b oz om s l :
  flat_map (w_coord b oz om (conv oz om s)) (map (conv_pt oz om s) l) = flat_map (w_coord b oz om s) l.
Proof. induction l as [|p r IH]; [reflexivity|]. cbn [map flat_map]. now rewrite w_coord_conv, IH. Qed.
Lemma w_seq_conv b oz om sized s : w_seq b oz om sized (conv oz om s) = w_seq b oz om sized s.
Proof. unfold w_seq. rewrite conv_len. f_equal. unfold conv at 2. cbn [pts]. apply w_coords_conv. Qed.
Lemma skind_code_line_of k : skind_code (line_of k) = skind_code k.
Proof. destruct k; reflexivity. Qed.

(* ---------------------------------------------------------------- Z/M flags of the re-read tree *)
Definition flags_rel (d: odim) (a a': bool * bool) : Prop :=
  match d with
  | D2 => a' = (false, false)
  | D4 => a' = a
  | D3 => fst a' = fst a /\ (fst a = false -> snd a' = snd a)
  end.
Lemma flags_rel_out d a : flags_rel d a (out_ords d a).
Proof. destruct a as [z m]. destruct d, z, m; cbn; auto. Qed.
Lemma flags_rel_or d a b a' b' : flags_rel d a a' -> flags_rel d b b' ->
  flags_rel d (fst a || fst b, snd a || snd b) (fst a' || fst b', snd a' || snd b').
Proof.
  destruct a as [z m], b as [z2 m2], a' as [z' m'], b' as [z2' m2']. destruct d; cbn [flags_rel fst snd].
  - intros H1 H2. inversion H1; inversion H2; subst. reflexivity.
  - intros [H1 H1'] [H2 H2']. subst. split; [reflexivity|]. intros H. apply orb_false_iff in H. destruct H as [-> ->].
    rewrite H1', H2' by reflexivity. reflexivity.
  - intros H1 H2. inversion H1; inversion H2; subst. reflexivity.
Qed.
Lemma flags_rel_out_eq d a a' : flags_rel d a a' -> out_ords d a' = out_ords d a.
Proof.
  destruct a as [z m], a' as [z' m']. destruct d; cbn [flags_rel fst snd].
  - intros H; inversion H; subst. destruct z, m; reflexivity.
  - intros [-> H]. destruct z; [destruct m, m'; reflexivity|]. rewrite H by reflexivity. reflexivity.
  - intros H; inversion H; subst. reflexivity.
Qed.
Lemma flags_rel_list d (f: geom -> geom) ks :
  Forall (fun k => flags_rel d (g_hasz k, g_hasm k) (g_hasz (f k), g_hasm (f k))) ks ->
  flags_rel d (existsb g_hasz ks, existsb g_hasm ks) (existsb g_hasz (map f ks), existsb g_hasm (map f ks)).
Proof.
  induction 1 as [|k r Hk _ IH]; cbn [map existsb].
  - destruct d; cbn; auto.
  - exact (flags_rel_or d _ _ _ _ Hk IH).
Qed.

Lemma hasz_set_srid s g : g_hasz (set_srid s g) = g_hasz g.
Proof. induction g using geom_ind'; cbn [set_srid g_hasz]; try reflexivity. now apply existsb_map_ext. Qed.
Lemma hasm_set_srid s g : g_hasm (set_srid s g) = g_hasm g.
Proof. induction g using geom_ind'; cbn [set_srid g_hasm]; try reflexivity. now apply existsb_map_ext. Qed.

Lemma orb_existsb_conv_z oz om hs : oz || existsb hz (map (conv oz om) hs) = oz.
Proof. destruct oz; [reflexivity|]. cbn [orb]. induction hs as [|h r IH]; [reflexivity|]. cbn [map existsb conv hz orb]. exact IH. Qed.
Lemma orb_existsb_conv_m oz om hs : om || existsb hm (map (conv oz om) hs) = om.
Proof. destruct om; [reflexivity|]. cbn [orb]. induction hs as [|h r IH]; [reflexivity|]. cbn [map existsb conv hm orb]. exact IH. Qed.
Lemma existsb_sec_z oz om x (secs: list (skind * N * cseq)) :
  existsb (fun y => hz (sec_seq y)) (map (sec_e oz om) (x :: secs)) = oz.
Proof.
  cbn [map existsb]. unfold sec_seq at 1, sec_e at 1. cbn [snd conv hz]. destruct oz; [reflexivity|]. cbn [orb].
  induction secs as [|y r IH]; [reflexivity|]. cbn [map existsb]. unfold sec_seq at 1, sec_e at 1. cbn [snd conv hz orb]. exact IH.
Qed.
Lemma existsb_sec_m oz om x (secs: list (skind * N * cseq)) :
  existsb (fun y => hm (sec_seq y)) (map (sec_e oz om) (x :: secs)) = om.
Proof.
  cbn [map existsb]. unfold sec_seq at 1, sec_e at 1. cbn [snd conv hm]. destruct om; [reflexivity|]. cbn [orb].
  induction secs as [|y r IH]; [reflexivity|]. cbn [map existsb]. unfold sec_seq at 1, sec_e at 1. cbn [snd conv hm orb]. exact IH.
Qed.

Lemma flags_expect c g : forall inc,
  flags_rel (c_dim c) (g_hasz g, g_hasm g) (g_hasz (expect_at c inc g), g_hasm (expect_at c inc g)).
Proof.
  induction g using geom_ind'; intros inc; cbn [expect_at].
  - destruct (out_ords _ _) as [oz om] eqn:EO.
    destruct (seq_empty s || _); cbn [g_hasz g_hasm empty_seq conv hz hm]; rewrite <- EO; apply flags_rel_out.
  - destruct (out_ords _ _) as [oz om] eqn:EO. cbn [g_hasz g_hasm conv hz hm]. rewrite <- EO. apply flags_rel_out.
  - destruct (out_ords _ _) as [oz om] eqn:EO. destruct (seq_empty sh).
    + cbn [g_hasz g_hasm empty_seq hz hm existsb]. rewrite !orb_false_r. rewrite <- EO. apply flags_rel_out.
    + cbn [g_hasz g_hasm]. change (hz (conv oz om sh)) with oz. change (hm (conv oz om sh)) with om.
      rewrite orb_existsb_conv_z, orb_existsb_conv_m. rewrite <- EO. apply flags_rel_out.
  - destruct (out_ords _ _) as [oz om] eqn:EO. cbn [g_hasz g_hasm].
    change (map (fun x => (line_of (fst (fst x)), 0, conv oz om (snd x))) secs) with (map (sec_e oz om) secs).
    destruct secs as [|x r].
    + cbn [map existsb]. destruct (c_dim c); cbn; auto.
    + rewrite existsb_sec_z, existsb_sec_m. rewrite <- EO. apply flags_rel_out.
  - destruct (out_ords _ _) as [oz om] eqn:EO. destruct (g_empty g).
    + cbn [g_hasz g_hasm empty_seq hz hm existsb]. rewrite !orb_false_r. rewrite <- EO. apply flags_rel_out.
    + cbn [g_hasz g_hasm].
      apply (flags_rel_or (c_dim c) (g_hasz g, g_hasm g) (existsb g_hasz hs, existsb g_hasm hs)
               (g_hasz (expect_at c inc g), g_hasm (expect_at c inc g))
               (existsb g_hasz (map (expect_at c inc) hs), existsb g_hasm (map (expect_at c inc) hs))).
      * apply IHg.
      * apply flags_rel_list. eapply Forall_impl; [|exact H]. intros k Hk. apply Hk.
  - destruct (out_ords _ _) as [oz om] eqn:EO. rewrite hasz_set_srid, hasm_set_srid. cbn [g_hasz g_hasm].
    apply flags_rel_list. eapply Forall_impl; [|exact H]. intros k0 Hk. apply Hk.
Qed.
Lemma flags_out c g inc :
  out_ords (c_dim c) (g_hasz (expect_at c inc g), g_hasm (expect_at c inc g)) = out_ords (c_dim c) (g_hasz g, g_hasm g).
Proof. apply flags_rel_out_eq. apply flags_expect. Qed.

(* SRIDs are invisible to a write with includeSRID off *)
Lemma wr_set_srid c s g : wr c false (set_srid s g) = wr c false g.
Proof.
  induction g using geom_ind'; cbn [set_srid]; try reflexivity.
  cbn [wr g_hasz g_hasm]. rewrite !(existsb_map_ext g_hasz), !(existsb_map_ext g_hasm)
    by (apply Forall_forall; intros; (apply hasz_set_srid || apply hasm_set_srid)).
  destruct (out_ords _ _) as [oz om]. rewrite map_length. rewrite (flat_map_map_ext (wr c false) (set_srid s) ks H). reflexivity.
Qed.

(* ---------------------------------------------------------------- (A) re-writing the re-read tree *)
Lemma wf_kids_all {A: Type} (P: A -> bool) (k: list A) : forallb P k = true -> forall g, In g k -> P g = true.
Proof. intros H. now apply forallb_forall. Qed.

Theorem wr_expect c g : forall inc, wf g = true -> nan_canon g = true -> wr c inc (expect_at c inc g) = wr c inc g.
Proof.
  induction g using geom_ind'; intros inc Hwf Hn;
    match goal with |- wr _ _ (expect_at _ _ ?g0) = _ =>
      pose proof (flags_out c g0 inc) as HF; revert HF; cbn [expect_at wr];
      destruct (out_ords (c_dim c) (g_hasz g0, g_hasm g0)) as [oz om] eqn:EO end; cbn [wf] in Hwf.
  - (* point *)
    split_wf Hwf. apply Nat.leb_le in Hw.
    destruct s as [z0 m0 ps]. cbn [pts] in Hw. unfold seq_empty. cbn [pts].
    destruct ps as [|p [|q r]]; [| |cbn [length] in Hw; lia].
    + cbn [orb]. intros HF. cbn [wr g_hasz g_hasm]. cbn [g_hasz g_hasm] in HF. rewrite HF. rewrite header_keep. reflexivity.
    + cbn [orb]. cbn [nan_canon pts] in Hn.
      change (first_pt (conv oz om {| hz := z0; hm := m0; pts := [p] |})) with (conv_pt oz om {| hz := z0; hm := m0; pts := [p] |} p).
      cbn [conv_pt cx cy]. destruct (is_nan (cx p) && is_nan (cy p)).
      * intros HF. cbn [wr g_hasz g_hasm]. cbn [g_hasz g_hasm] in HF. rewrite HF. rewrite header_keep. f_equal.
        split_wf Hn. apply N.eqb_eq in Hn, Hw3, Hw2, Hw1.
        unfold seq_empty, w_seq, nan_seq. cbn [pts flat_map empty_seq]. f_equal. unfold w_coord. cbn [cx cy]. unfold ord_z at 1, ord_m at 1. cbn [hz hm cz cm].
        rewrite Hn, Hw3, Hw2, Hw1. reflexivity.
      * intros HF. cbn [wr g_hasz g_hasm]. cbn [g_hasz g_hasm] in HF. rewrite HF. rewrite header_keep. f_equal.
        rewrite conv_empty. unfold seq_empty. cbn [pts]. apply w_seq_conv.
  - (* simple curve *)
    intros HF. cbn [wr g_hasz g_hasm]. cbn [g_hasz g_hasm] in HF. rewrite HF. unfold w_simple. rewrite skind_code_line_of, header_keep, w_seq_conv. reflexivity.
  - (* polygon *)
    destruct (seq_empty sh) eqn:E.
    + intros HF. cbn [wr g_hasz g_hasm]. cbn [g_hasz g_hasm] in HF. rewrite HF. rewrite header_keep. reflexivity.
    + intros HF. cbn [wr g_hasz g_hasm]. cbn [g_hasz g_hasm] in HF. rewrite HF. rewrite header_keep, conv_empty, E, map_length, w_seq_conv.
      do 3 f_equal. rewrite flat_map_map_ext; [reflexivity|]. apply Forall_forall. intros; apply w_seq_conv.
  - (* compound curve *)
    intros HF. cbn [wr g_hasz g_hasm]. cbn [g_hasz g_hasm] in HF. rewrite HF. rewrite header_keep, map_length. do 2 f_equal.
    clear Hwf Hn EO HF. induction secs as [|x r IH]; [reflexivity|]. cbn [map flat_map fst snd]. f_equal; [|exact IH].
    unfold w_simple. rewrite skind_code_line_of, w_seq_conv. reflexivity.
  - (* curve polygon *)
    split_wf Hwf. cbn [nan_canon] in Hn. apply andb_true_iff in Hn. destruct Hn as [Hn1 Hn2].
    destruct (g_empty g) eqn:E.
    + intros HF. cbn [wr g_hasz g_hasm]. cbn [g_hasz g_hasm] in HF. rewrite HF. rewrite header_keep. reflexivity.
    + intros HF. cbn [wr g_hasz g_hasm]. cbn [g_hasz g_hasm] in HF. rewrite HF. rewrite header_keep, g_empty_expect, E, map_length by assumption.
      rewrite IHg by assumption. do 3 f_equal.
      apply flat_map_map_ext. apply Forall_forall. intros h Hh. rewrite Forall_forall in H.
      apply H; [exact Hh| |].
      * pose proof (wf_kids_all _ _ Hw1 h Hh) as Hq. now apply andb_true_iff in Hq.
      * exact (wf_kids_all _ _ Hn2 h Hh).
  - (* collections *)
    split_wf Hwf. cbn [nan_canon] in Hn.
    cbn [set_srid]. intros HF. cbn [wr g_hasz g_hasm]. cbn [g_hasz g_hasm] in HF. rewrite HF. rewrite header_keep, !map_length. do 2 f_equal.
    rewrite flat_map_map_ext by (apply Forall_forall; intros; apply wr_set_srid).
    apply flat_map_map_ext. apply Forall_forall. intros h Hh. rewrite Forall_forall in H.
    apply H; [exact Hh| |].
    + pose proof (wf_kids_all _ _ Hw0 h Hh) as Hq. now apply andb_true_iff in Hq.
    + exact (wf_kids_all _ _ Hn h Hh).
Qed.

Theorem wkb_rewrite_fixpoint c g : wf g = true -> nan_canon g = true -> wkb_write c (expect c g) = wkb_write c g.
Proof. intros. unfold wkb_write, expect. now apply wr_expect. Qed.

(* without the restriction the clause fails: POINT (NaN NaN 5) re-reads as POINT EMPTY Z, which is written with a NaN Z *)
Definition nan_point_witness : geom := GPoint 0 (mkSeq true false [mkCoord NAN64 NAN64 4617315517961601024 NAN64]).
Theorem wkb_rewrite_fixpoint_refuted :
  wf nan_point_witness = true /\
  wkb_write (mkCfg LE Ext D4 false) (expect (mkCfg LE Ext D4 false) nan_point_witness) <> wkb_write (mkCfg LE Ext D4 false) nan_point_witness.
Proof. split; [vm_compute; reflexivity|]. vm_compute. intros H. discriminate H. Qed.

(* ---------------------------------------------------------------- (E) on regular trees the cycle is what the property text promises *)
Definition X (d: odim) (g: geom) : geom := ideal_shape (drop_dims d g).

Lemma conv_of_empty oz om s : seq_empty s = true -> conv oz om s = empty_seq oz om.
Proof. unfold seq_empty, conv, empty_seq. destruct (pts s); [reflexivity|discriminate]. Qed.
Lemma drop_seq_conv d s oz om : out_ords d (hz s, hm s) = (oz, om) -> drop_seq d s = conv oz om s.
Proof. intros H. unfold drop_seq. now rewrite H. Qed.
Lemma same_dims_eq z m s : same_dims z m s = true -> hz s = z /\ hm s = m.
Proof. unfold same_dims. intros H. apply andb_true_iff in H. destruct H as [H1 H2]. split; now apply eqb_prop. Qed.
Lemma drop_seq_same d z m s oz om : same_dims z m s = true -> out_ords d (z, m) = (oz, om) -> drop_seq d s = conv oz om s.
Proof. intros H E. apply same_dims_eq in H. destruct H as [<- <-]. now apply drop_seq_conv. Qed.
Lemma orb_existsb_same_z z m hs : forallb (same_dims z m) hs = true -> z || existsb hz hs = z.
Proof.
  induction hs as [|h r IH]; intros H; cbn [existsb]; [apply orb_false_r|].
  cbn [forallb] in H. apply andb_true_iff in H. destruct H as [Hh Hr]. apply same_dims_eq in Hh. destruct Hh as [-> _].
  rewrite orb_assoc, orb_diag. now apply IH.
Qed.
Lemma orb_existsb_same_m z m hs : forallb (same_dims z m) hs = true -> m || existsb hm hs = m.
Proof.
  induction hs as [|h r IH]; intros H; cbn [existsb]; [apply orb_false_r|].
  cbn [forallb] in H. apply andb_true_iff in H. destruct H as [Hh Hr]. apply same_dims_eq in Hh. destruct Hh as [_ ->].
  rewrite orb_assoc, orb_diag. now apply IH.
Qed.

Lemma set_srid_idem a b g : set_srid a (set_srid b g) = set_srid a g.
Proof.
  induction g using geom_ind'; cbn [set_srid]; try reflexivity.
  f_equal. rewrite map_map. apply map_ext_in. intros x Hx. rewrite Forall_forall in H. now apply H.
Qed.
Lemma g_srid_X d g : g_srid (X d g) = g_srid g.
Proof. unfold X. destruct g; cbn [drop_dims ideal_shape g_srid]; try reflexivity. destruct (g_empty _); reflexivity. Qed.
Lemma is_curve_X d g : is_curve (X d g) = is_curve g.
Proof. unfold X. destruct g; cbn [drop_dims ideal_shape is_curve]; try reflexivity. destruct (g_empty _); reflexivity. Qed.
Lemma set_srid_curve_id g : is_curve g = true -> set_srid (g_srid g) g = g.
Proof. destruct g; cbn [is_curve]; try discriminate; reflexivity. Qed.
Lemma drop_seq_empty d s : seq_empty (drop_seq d s) = seq_empty s.
Proof. unfold drop_seq. destruct (out_ords _ _). apply conv_empty. Qed.
Lemma g_empty_drop d g : is_curve g = true -> g_empty (drop_dims d g) = g_empty g.
Proof.
  destruct g; cbn [is_curve]; try discriminate; intros _; cbn [drop_dims g_empty].
  - apply drop_seq_empty.
  - induction secs as [|x r IH]; [reflexivity|]. cbn [map forallb]. rewrite IH. f_equal. unfold sec_seq. cbn [snd]. apply drop_seq_empty.
Qed.
Lemma existsb_sec_same_z (x: skind * N * cseq) secs :
  forallb (fun y => same_dims (hz (snd x)) (hm (snd x)) (snd y) && (snd (fst y) =? 0)) secs = true ->
  hz (snd x) || existsb (fun y => hz (sec_seq y)) secs = hz (snd x).
Proof.
  induction secs as [|y r IH]; intros H; cbn [existsb]; [apply orb_false_r|].
  cbn [forallb] in H. apply andb_true_iff in H. destruct H as [Hy Hr]. apply andb_true_iff in Hy. destruct Hy as [Hy _].
  apply same_dims_eq in Hy. destruct Hy as [Hy _]. unfold sec_seq at 1. rewrite Hy. rewrite orb_assoc, orb_diag. now apply IH.
Qed.
Lemma existsb_sec_same_m (x: skind * N * cseq) secs :
  forallb (fun y => same_dims (hz (snd x)) (hm (snd x)) (snd y) && (snd (fst y) =? 0)) secs = true ->
  hm (snd x) || existsb (fun y => hm (sec_seq y)) secs = hm (snd x).
Proof.
  induction secs as [|y r IH]; intros H; cbn [existsb]; [apply orb_false_r|].
  cbn [forallb] in H. apply andb_true_iff in H. destruct H as [Hy Hr]. apply andb_true_iff in Hy. destruct Hy as [Hy _].
  apply same_dims_eq in Hy. destruct Hy as [_ Hy]. unfold sec_seq at 1. rewrite Hy. rewrite orb_assoc, orb_diag. now apply IH.
Qed.
Lemma keep0 c inc : keep_srid c inc 0 = 0.
Proof. unfold keep_srid. destruct (inc && _); reflexivity. Qed.
Lemma keep_false c s : keep_srid c false s = 0.
Proof. reflexivity. Qed.

Lemma set0_X d g : is_curve g = true -> g_srid g = 0 -> set_srid 0 (ideal_shape (drop_dims d g)) = ideal_shape (drop_dims d g).
Proof.
  intros Hc H0. fold (X d g). rewrite <- (g_srid_X d g) in H0. rewrite <- H0. apply set_srid_curve_id. now rewrite is_curve_X.
Qed.

Lemma expect_shape c g : forall inc, wf g = true -> dims_regular g = true ->
  expect_at c inc g = set_srid (keep_srid c inc (g_srid g)) (X (c_dim c) g).
Proof.
  unfold X.
  induction g using geom_ind'; intros inc Hwf Hr; cbn [expect_at drop_dims ideal_shape set_srid g_srid]; cbn [dims_regular] in Hr; cbn [wf] in Hwf.
  - (* point *)
    cbn [g_hasz g_hasm]. destruct (out_ords _ _) as [oz om] eqn:EO. rewrite (drop_seq_conv _ _ _ _ EO). f_equal.
    unfold nan_point_fix. change (hz (conv oz om s)) with oz. change (hm (conv oz om s)) with om.
    destruct (seq_empty s) eqn:E; cbn [orb].
    + rewrite (conv_of_empty _ _ _ E). change (is_nan (cx (first_pt (empty_seq oz om)))) with false. reflexivity.
    + reflexivity.
  - cbn [g_hasz g_hasm]. destruct (out_ords _ _) as [oz om] eqn:EO. rewrite (drop_seq_conv _ _ _ _ EO). reflexivity.
  - (* polygon *)
    apply andb_true_iff in Hr. destruct Hr as [Hd He].
    cbn [g_hasz g_hasm]. rewrite (orb_existsb_same_z _ _ _ Hd), (orb_existsb_same_m _ _ _ Hd).
    destruct (out_ords _ _) as [oz om] eqn:EO. rewrite (drop_seq_conv _ _ _ _ EO).
    destruct (seq_empty sh) eqn:E.
    + cbn [negb orb] in He. destruct hs; [|discriminate]. cbn [map]. now rewrite (conv_of_empty _ _ _ E).
    + f_equal. apply map_ext_in. intros h Hh. symmetry. eapply drop_seq_same; [|exact EO].
      exact (wf_kids_all _ _ Hd h Hh).
  - (* compound curve *)
    destruct secs as [|x r]; [cbn [g_hasz g_hasm existsb map]; destruct (out_ords _ _); reflexivity|].
    cbn [g_hasz g_hasm]. cbn [forallb] in Hr.
    assert (Hall := Hr). apply andb_true_iff in Hr. destruct Hr as [_ Hr].
    cbn [existsb]. unfold sec_seq at 1 3. rewrite (existsb_sec_same_z x r Hr), (existsb_sec_same_m x r Hr).
    destruct (out_ords _ _) as [oz om] eqn:EO. f_equal. rewrite map_map. apply map_ext_in. intros y Hy.
    change (forallb (fun y => same_dims (hz (snd x)) (hm (snd x)) (snd y) && (snd (fst y) =? 0)) (x :: r) = true) in Hall.
    pose proof (wf_kids_all _ _ Hall y Hy) as Hq. apply andb_true_iff in Hq. destruct Hq as [Hq1 Hq2]. apply N.eqb_eq in Hq2.
    cbn [fst snd]. rewrite Hq2. rewrite (drop_seq_same _ _ _ _ _ _ Hq1 EO). reflexivity.
  - (* curve polygon *)
    split_wf Hwf.
    destruct (out_ords _ _) as [oz om] eqn:EO.
    rewrite (g_empty_drop _ _ Hw2).
    destruct (g_empty g) eqn:E.
    + destruct g; try discriminate. destruct k; try discriminate. apply andb_true_iff in Hr. destruct Hr as [Hr1 Hr2].
      destruct hs; [|discriminate]. apply N.eqb_eq in Hr1. subst srid0.
      cbn [drop_dims map set_srid]. cbn [g_hasz g_hasm existsb] in EO. rewrite !orb_false_r in EO.
      rewrite (drop_seq_conv _ _ _ _ EO). cbn [g_empty] in E. now rewrite (conv_of_empty _ _ _ E).
    + cbn [set_srid]. split_wf Hr. apply N.eqb_eq in Hr.
      rewrite IHg by assumption. rewrite Hr, keep0, set0_X by assumption. f_equal.
      rewrite map_map. apply map_ext_in. intros h Hh. rewrite Forall_forall in H.
      pose proof (wf_kids_all _ _ Hw1 h Hh) as Hq. apply andb_true_iff in Hq. destruct Hq as [Hq1 Hq2].
      pose proof (wf_kids_all _ _ Hw4 h Hh) as Hp. apply andb_true_iff in Hp. destruct Hp as [Hp1 Hp2]. apply N.eqb_eq in Hp1.
      rewrite (H h Hh inc Hq1 Hp2). rewrite Hp1, keep0. apply set0_X; assumption.
  - (* collections *)
    split_wf Hwf. destruct (out_ords _ _) as [oz om] eqn:EO. cbn [set_srid]. f_equal.
    rewrite !map_map. apply map_ext_in. intros h Hh. rewrite Forall_forall in H.
    pose proof (wf_kids_all _ _ Hw0 h Hh) as Hq. apply andb_true_iff in Hq. destruct Hq as [Hq1 Hq2].
    rewrite (H h Hh false Hq1 (wf_kids_all _ _ Hr h Hh)). rewrite keep_false. apply set_srid_idem.
Qed.

Lemma X_set_srid d s g : X d (set_srid s g) = set_srid s (X d g).
Proof.
  unfold X. induction g using geom_ind'; cbn [set_srid drop_dims ideal_shape]; try reflexivity.
  - destruct (g_empty _); reflexivity.
  - f_equal. rewrite !map_map. apply map_ext_in. intros x Hx. rewrite Forall_forall in H. now apply H.
Qed.
Lemma srid_regular_X d t g : srid_regular t (X d g) = srid_regular t g.
Proof.
  unfold X. induction g using geom_ind'; cbn [drop_dims ideal_shape srid_regular g_srid]; try reflexivity.
  - destruct (g_empty _); reflexivity.
  - f_equal. rewrite !map_map. induction H as [|x r Hx _ IH]; [reflexivity|]. cbn [map forallb]. now rewrite Hx, IH.
Qed.
Lemma set_srid_regular_id t g : srid_regular t g = true -> set_srid t g = g.
Proof.
  induction g using geom_ind'; cbn [srid_regular g_srid set_srid]; intros Hs; apply andb_true_iff in Hs; destruct Hs as [Hs Hk];
    apply N.eqb_eq in Hs; subst; try reflexivity.
  f_equal. apply map_id_in. intros x Hx. rewrite Forall_forall in H. apply H; [exact Hx|].
  exact (wf_kids_all _ _ Hk x Hx).
Qed.
Lemma clear_is_set0 g : wf g = true -> dims_regular g = true -> clear_srid g = set_srid 0 g.
Proof.
  induction g using geom_ind'; intros Hwf Hr; cbn [clear_srid set_srid]; cbn [dims_regular] in Hr; cbn [wf] in Hwf; try reflexivity.
  - f_equal. destruct secs as [|x r]; [reflexivity|]. apply map_id_in. intros y Hy.
    pose proof (wf_kids_all _ _ Hr y Hy) as Hq. apply andb_true_iff in Hq. destruct Hq as [_ Hq]. apply N.eqb_eq in Hq.
    destruct y as [[k sr] s]. cbn [fst snd] in *. now subst.
  - split_wf Hwf. destruct (g_empty g) eqn:E.
    + destruct g; try discriminate. destruct k; try discriminate. apply andb_true_iff in Hr. destruct Hr as [Hr1 Hr2].
      destruct hs; [|discriminate]. apply N.eqb_eq in Hr1. subst. reflexivity.
    + split_wf Hr. apply N.eqb_eq in Hr. f_equal.
      * rewrite IHg by assumption. rewrite <- Hr. now apply set_srid_curve_id.
      * apply map_id_in. intros h Hh. rewrite Forall_forall in H.
        pose proof (wf_kids_all _ _ Hw1 h Hh) as Hq. apply andb_true_iff in Hq. destruct Hq as [Hq1 Hq2].
        pose proof (wf_kids_all _ _ Hw4 h Hh) as Hp. apply andb_true_iff in Hp. destruct Hp as [Hp1 Hp2]. apply N.eqb_eq in Hp1.
        rewrite (H h Hh Hq1 Hp2). rewrite <- Hp1. now apply set_srid_curve_id.
  - split_wf Hwf. f_equal. apply map_ext_in. intros h Hh. rewrite Forall_forall in H.
    pose proof (wf_kids_all _ _ Hw0 h Hh) as Hq. apply andb_true_iff in Hq. destruct Hq as [Hq1 _].
    apply H; [exact Hh|exact Hq1|exact (wf_kids_all _ _ Hr h Hh)].
Qed.

Theorem expect_regular c g : wf g = true -> regular g = true -> expect c g = ideal c g.
Proof.
  intros Hwf Hr. unfold regular in Hr. apply andb_true_iff in Hr. destruct Hr as [Hd Hs].
  unfold expect, ideal. rewrite (expect_shape c g (c_srid c) Hwf Hd). fold (X (c_dim c) g). unfold keep_srid.
  destruct (c_srid c && is_ext (c_fl c)).
  - fold (X (c_dim c) g). apply set_srid_regular_id. now rewrite srid_regular_X.
  - rewrite (clear_is_set0 g Hwf Hd). fold (X (c_dim c) (set_srid 0 g)). now rewrite X_set_srid.
Qed.

(* consequences in the words of the property text *)
Lemma out_ords_D4 zm : out_ords D4 zm = zm.
Proof. destruct zm as [[|] [|]]; reflexivity. Qed.
Lemma conv_id s : forallb (wf_coord (hz s) (hm s)) (pts s) = true -> conv (hz s) (hm s) s = s.
Proof.
  destruct s as [z m ps]. cbn [hz hm pts]. unfold conv. cbn [hz hm pts]. intros H. f_equal.
  apply map_id_in. intros p Hp. pose proof (wf_kids_all _ _ H p Hp) as Hq.
  unfold wf_coord in Hq. apply andb_true_iff in Hq. destruct Hq as [Hq Hm]. apply andb_true_iff in Hq. destruct Hq as [_ Hz].
  unfold conv_pt, ord_z, ord_m. cbn [hz hm]. destruct p as [x y vz vm]. cbn [cx cy cz cm] in *.
  destruct z, m; try apply N.eqb_eq in Hz; try apply N.eqb_eq in Hm; subst; reflexivity.
Qed.
Lemma drop_seq_D4 s : wf_seq s = true -> drop_seq D4 s = s.
Proof. intros H. unfold drop_seq. rewrite out_ords_D4. apply conv_id. unfold wf_seq in H. now apply andb_true_iff in H. Qed.
Lemma drop_dims_D4 g : wf g = true -> drop_dims D4 g = g.
Proof.
  induction g using geom_ind'; intros Hwf; cbn [wf] in Hwf; cbn [drop_dims]; split_wf Hwf.
  - now rewrite drop_seq_D4.
  - now rewrite drop_seq_D4.
  - rewrite drop_seq_D4 by assumption. f_equal. apply map_id_in. intros h Hh.
    pose proof (wf_kids_all _ _ Hw1 h Hh) as Hq. apply andb_true_iff in Hq. apply drop_seq_D4. tauto.
  - f_equal. apply map_id_in. intros x Hx.
    pose proof (wf_kids_all _ _ Hw1 x Hx) as Hq. apply wf_sec_parts in Hq. destruct Hq as [Hq _].
    destruct x as [ks s]. cbn [fst snd] in *. now rewrite drop_seq_D4.
  - rewrite IHg by assumption. f_equal. apply map_id_in. intros h Hh. rewrite Forall_forall in H.
    pose proof (wf_kids_all _ _ Hw1 h Hh) as Hq. apply andb_true_iff in Hq. apply H; tauto.
  - f_equal. apply map_id_in. intros h Hh. rewrite Forall_forall in H.
    pose proof (wf_kids_all _ _ Hw0 h Hh) as Hq. apply andb_true_iff in Hq. apply H; tauto.
Qed.
(* four output dimensions, extended flavour with SRID: the cycle is the identity up to the two documented exceptions *)
Theorem wkb_identity c g rest : wf g = true -> (depth g <= MAX_DEPTH)%nat -> regular g = true ->
  c_dim c = D4 -> c_fl c = Ext -> c_srid c = true ->
  wkb_read (wkb_write c g ++ rest) = Ok (ideal_shape g, rest).
Proof.
  intros Hwf Hdp Hr Hd Hf Hs. rewrite wkb_roundtrip by assumption. rewrite expect_regular by assumption.
  unfold ideal. rewrite Hd, Hf, Hs. cbn [andb is_ext]. now rewrite drop_dims_D4.
Qed.
(* lower output dimension / no SRID: the input with exactly the excess ordinates dropped and the SRID cleared *)
Theorem wkb_drop c g rest : wf g = true -> (depth g <= MAX_DEPTH)%nat -> regular g = true ->
  wkb_read (wkb_write c g ++ rest)
  = Ok (ideal_shape (drop_dims (c_dim c) (if c_srid c && is_ext (c_fl c) then g else clear_srid g)), rest).
Proof. intros Hwf Hdp Hr. rewrite wkb_roundtrip by assumption. now rewrite expect_regular. Qed.

(* ---------------------------------------------------------------- witnesses: where the literal property text fails (known_findings.json classes) *)
Definition w1 : N := 4607182418800017408.   (* 1.0 *)
Definition ring_xyz : cseq := mkSeq true false [mkCoord 0 0 w1 NAN64; mkCoord w1 0 w1 NAN64; mkCoord 0 w1 w1 NAN64; mkCoord 0 0 w1 NAN64].
Definition ring_xy : cseq := mkSeq false false [mkCoord 0 0 NAN64 NAN64; mkCoord w1 0 NAN64 NAN64; mkCoord 0 w1 NAN64 NAN64; mkCoord 0 0 NAN64 NAN64].
Definition cfg4 : cfg := mkCfg LE Ext D4 true.
(* mixed-dims: an XY hole in an XYZ polygon comes back as XYZ with NaN Z *)
Theorem identity_refuted_mixed_dims :
  let g := GPoly 0 ring_xyz [ring_xy] in wf g = true /\ expect cfg4 g <> ideal_shape g /\ regular g = false.
Proof. cbv zeta. split; [vm_compute; reflexivity|]. split; [vm_compute; intros H; discriminate H | vm_compute; reflexivity]. Qed.
(* empty-surface: an empty polygon with an empty hole loses the hole; an empty CircularString shell becomes a LinearRing *)
Theorem identity_refuted_empty_surface :
  let g := GPoly 0 (empty_seq false false) [empty_seq false false] in
  let g2 := GCurvePoly 0 (GSimple SCirc 0 (empty_seq false false)) [] in
  wf g = true /\ expect cfg4 g <> ideal_shape g /\ wf g2 = true /\ expect cfg4 g2 <> ideal_shape g2.
Proof. cbv zeta. repeat split; try (vm_compute; reflexivity); vm_compute; intros H; discriminate H. Qed.
(* sub-srid: the SRID of a compound curve section is never written *)
Theorem identity_refuted_sub_srid :
  let g := GCompound 7 [(SLine, 7, mkSeq false false [mkCoord 0 0 NAN64 NAN64; mkCoord w1 w1 NAN64 NAN64])] in
  wf g = true /\ expect cfg4 g <> ideal_shape g.
Proof. cbv zeta. split; [vm_compute; reflexivity|]. vm_compute; intros H; discriminate H. Qed.
(* own-output-rejected: the bytes written for a compound curve with one empty section are refused by the reader (not well-formed in the model) *)
Theorem own_output_rejected_witness :
  let g := GCompound 0 [(SLine, 0, empty_seq false false)] in
  wf g = false /\ wkb_read (wkb_write cfg4 g) = Err EMinMem.
Proof. cbv zeta. split; vm_compute; reflexivity. Qed.

(* nesting limit: the writer has none, the reader refuses more than MAX_DEPTH levels (a deliberate limit: commit "readers limit the nesting depth") *)
Fixpoint nest (n: nat) : geom := match n with O => GPoint 0 (empty_seq false false) | S k => GColl CGC 0 [nest k] end.
Theorem nesting_limit_witness :
  wf (nest 200) = true /\ depth (nest 200) = 201%nat /\ wkb_read (wkb_write cfg4 (nest 200)) = Err EFuel /\
  wkb_read (wkb_write cfg4 (nest 199)) = Ok (nest 199, []).
Proof. repeat split; vm_compute; reflexivity. Qed.
