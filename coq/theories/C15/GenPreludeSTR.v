(* C15/GenPreludeSTR — meaning of the abstract names in the generated packing-arithmetic units (Gen/STR_sliceCount,
   STR_sliceCapacity, STR_treeSize) of TemplateSTRtree.h.  Representation boundary (hand written, part of the trusted
   translator): the tree object is its node capacity; a `double` in these three functions is an integer, a quotient of two
   integers or the square root of an integer, and std::ceil / the conversion back to size_t are EXACT on it.  (For the
   sizes the harness compares, n <= 3500, binary64 is exact on all of these; beyond 2^53 items the reading is an
   idealisation, stated in DESIGN.md C15.)  Definitions only. *)
From Coq Require Import ZArith List Bool.
Local Open Scope Z_scope.

Record strtree := mkTree { f_nodeCapacity : Z }.

Inductive dbl := Dz (z : Z) | Dq (a b : Z) | Dsqrt (z : Z).
Definition dzero : dbl := Dz 0.
Definition ofZ (z : Z) : dbl := Dz z.
Definition div (a b : dbl) : dbl := match a, b with Dz x, Dz y => Dq x y | _, _ => Dz 0 end.
Definition zceil_div (a b : Z) : Z := (a + b - 1) / b.                                   (* ceil(a/b) for b > 0 *)
Definition zceil_sqrt (m : Z) : Z := let s := Z.sqrt m in if s * s =? m then s else s + 1.
Definition c_ceil_1 (d : dbl) : dbl :=
  match d with Dz z => Dz z | Dq a b => Dz (zceil_div a b) | Dsqrt m => Dz (zceil_sqrt m) end.
Definition c_sqrt_1 (d : dbl) : dbl := match d with Dz z => Dsqrt z | _ => Dz 0 end.
Definition toZ (d : dbl) : Z := match d with Dz z => z | _ => 0 end.
Definition c_min_2 (a b : Z) : Z := Z.min a b.

Definition zrange (lo hi : Z) : list Z := map (fun k => lo + Z.of_nat k) (seq 0 (Z.to_nat (hi - lo))).
Fixpoint while_loop {A} (fuel : nat) (c : A -> bool) (b : A -> A) (x : A) : option A :=
  match fuel with
  | O => if c x then None else Some x
  | S f => if c x then while_loop f c b (b x) else Some x
  end.
