(* C15 — the reserve computed by treeSize() is exactly the number of nodes build() creates, so the node vector never
   reallocates while child pointers into it are being handed out (the arithmetic fact behind the assert in build()). *)
From Coq Require Import ZArith List Bool Lia Permutation Arith.
From GeosV.C15 Require Import STRDefs STRProofs.
Import ListNotations.

Definition kids (t : tree) : list tree := match t with Node _ ch => ch | Leaf _ _ _ => [] end.
Definition total (l : list tree) : nat := fold_right (fun c a => nnodes c + a) 0 l.

Lemma total_app a b : total (a ++ b) = total a + total b.
Proof. induction a as [|x a IH]; simpl; [reflexivity|]. rewrite IH. lia. Qed.
Lemma total_perm a b : Permutation a b -> total a = total b.
Proof. induction 1; simpl; lia. Qed.
Lemma nnodes_mkNode ch : nnodes (mkNode ch) = S (total ch).
Proof. unfold mkNode. apply nnodes_node. Qed.

Lemma total_map_mkNode ll : total (map mkNode ll) = length ll + total (concat ll).
Proof. induction ll as [|c r IH]; [reflexivity|]. cbn [map total fold_right concat length]. fold (total (map mkNode r)).
  rewrite nnodes_mkNode, IH, total_app. lia. Qed.

Lemma slice_parents_total cap sl : 0 < cap -> total (slice_parents cap sl) = length (slice_parents cap sl) + total sl.
Proof. intros Hc. unfold slice_parents. rewrite total_map_mkNode, map_length, chunks_concat by lia.
  f_equal. apply total_perm. symmetry. apply SortY.Permuted_sort. Qed.

Lemma build_level_total cap l : 0 < cap -> l <> [] -> total (build_level cap l) = length (build_level cap l) + total l.
Proof. intros Hc Hne. unfold build_level.
  rewrite (total_perm _ _ (SortX.Permuted_sort l)).
  rewrite <- (level_slices_cover cap l Hc Hne) at 3.
  generalize (slices_loop (sliceCapacity (length l) (sliceCount cap (length l))) (sliceCount cap (length l)) (SortX.sort l)).
  intros ll. induction ll as [|c r IH]; [reflexivity|]. cbn [flat_map concat]. rewrite !total_app, app_length, IH, slice_parents_total by lia. lia. Qed.

Theorem treeSize_fuel_exact cap : 2 <= cap -> forall fuel l t, build_fuel fuel cap l = Some t ->
  treeSize_fuel fuel cap (length l) (total l) = Some (nnodes t).
Proof. intros Hc. induction fuel as [|f IH]; intros l t Hb.
  - destruct l as [|a [|b r]]; try discriminate. injection Hb as <-. simpl. f_equal. lia.
  - destruct l as [|a [|b r]]; try discriminate.
    + injection Hb as <-. simpl. f_equal. lia.
    + cbn [build_fuel] in Hb. set (l := a :: b :: r) in *.
      assert (Hlen : 2 <= length l) by (unfold l; simpl; lia).
      cbn [treeSize_fuel]. destruct (Nat.leb_spec (length l) 1); [lia|].
      specialize (IH _ _ Hb). rewrite build_level_length, build_level_total in IH by (try lia; discriminate).
      rewrite build_level_length in IH by lia. rewrite Nat.add_comm. exact IH. Qed.

(* nodes.size() after build() == treeSize(numItems) *)
Theorem treeSize_exact cap leaves t : 2 <= cap -> leaves_ok leaves -> build cap leaves = Some t ->
  treeSize cap (length leaves) = Some (nnodes t).
Proof. intros Hc Hl Hb. unfold treeSize.
  assert (Ht : total leaves = length leaves).
  { clear Hb. induction Hl as [|c r Hc1 _ IHl]; [reflexivity|]. destruct c; [|discriminate]. unfold total in *. cbn [fold_right length nnodes]. lia. }
  rewrite <- Ht at 3. apply treeSize_fuel_exact; assumption. Qed.
