(* C15/ITVProofs — the packed interval R-tree never misses a matching item and reports no other, for every input and
   every sort order; the build loop terminates.  The leaf decisions are the GENERATED units, so a change of the pruning
   comparison or of the bounds a branch takes from its children breaks these proofs. *)
From Coq Require Import ZArith List Bool Lia Permutation Arith.
From GeosV.C15 Require Import GenPreludeITV ITVDefs.
From GeosV.Gen Require Import ITV_intersects ITV_branchBounds ITV_compare.
Import ListNotations.
Local Open Scope Z_scope.

(* --- the generated leaf decisions, characterised --- *)
Lemma gen_intersects_spec : forall lo hi qlo qhi,
  g_itv_intersects (mkItv lo hi) qlo qhi = ((lo <=? qhi) && (qlo <=? hi)).
Proof.
  intros lo hi qlo qhi. unfold g_itv_intersects, gtb, ltb. cbn [f_min f_max].
  destruct (Z.gtb_spec lo qhi) as [H1|H1]; destruct (Z.ltb_spec hi qlo) as [H2|H2];
    destruct (Z.leb_spec lo qhi) as [H3|H3]; destruct (Z.leb_spec qlo hi) as [H4|H4]; cbn; try reflexivity; lia.
Qed.

Lemma gen_branchBounds_spec : forall a b,
  g_itv_branchBounds a b = (Z.min (f_min a) (f_min b), Z.max (f_max a) (f_max b)).
Proof. intros a b. reflexivity. Qed.

(* --- well-formed trees: the bounds of every branch contain the bounds of both children --- *)
Definition contains (outer inner : itvnode) : Prop := f_min outer <= f_min inner /\ f_max inner <= f_max outer.

Fixpoint WFI (t : itree) : Prop :=
  match t with
  | ILeaf _ _ _ => True
  | IBranch lo hi t1 t2 =>
      contains (mkItv lo hi) (ibounds t1) /\ contains (mkItv lo hi) (ibounds t2) /\ WFI t1 /\ WFI t2
  end.

Lemma mk_branch_WFI : forall a b, WFI a -> WFI b -> WFI (mk_branch a b).
Proof.
  intros a b Ha Hb. unfold mk_branch. rewrite gen_branchBounds_spec. cbn [WFI]. unfold contains. cbn [f_min f_max].
  repeat split; try assumption; lia.
Qed.

Lemma mk_branch_leaves : forall a b, ileaves (mk_branch a b) = ileaves a ++ ileaves b.
Proof. intros a b. unfold mk_branch. rewrite gen_branchBounds_spec. reflexivity. Qed.

(* every leaf below a well-formed node lies inside the node's bounds *)
Lemma WFI_leaf_inside : forall t, WFI t -> forall lo hi it, In (lo, hi, it) (ileaves t) ->
  f_min (ibounds t) <= lo /\ hi <= f_max (ibounds t).
Proof.
  induction t as [l h i|l h t1 IH1 t2 IH2]; intros Hwf lo hi it Hin.
  - cbn in Hin. destruct Hin as [E|[]]. inversion E; subst. cbn. lia.
  - cbn [WFI] in Hwf. destruct Hwf as (C1 & C2 & W1 & W2). cbn [ileaves] in Hin. apply in_app_or in Hin.
    unfold contains in C1, C2. cbn [ibounds f_min f_max] in *.
    destruct Hin as [Hin|Hin]; [specialize (IH1 W1 _ _ _ Hin)|specialize (IH2 W2 _ _ _ Hin)]; lia.
Qed.

Lemma filter_none : forall (A : Type) (f : A -> bool) l, (forall x, In x l -> f x = false) -> filter f l = [].
Proof. intros A f l; induction l as [|x r IH]; intros H; cbn; [reflexivity|].
  rewrite (H x (or_introl eq_refl)). apply IH. intros y Hy. apply H. right. exact Hy. Qed.

(* the query of a well-formed tree is the linear scan of its leaves, in leaf order: nothing missed, nothing extra, each once *)
Lemma iquery_exact : forall qlo qhi t, WFI t -> iquery qlo qhi t = itv_spec qlo qhi (ileaves t).
Proof.
  intros qlo qhi. induction t as [l h i|l h t1 IH1 t2 IH2]; intros Hwf.
  - cbn [iquery ileaves]. rewrite gen_intersects_spec. unfold itv_spec. cbn [filter itv_meets].
    destruct ((l <=? qhi) && (qlo <=? h)); reflexivity.
  - cbn [iquery ileaves]. rewrite gen_intersects_spec. pose proof Hwf as Hwf0. cbn [WFI] in Hwf. destruct Hwf as (C1 & C2 & W1 & W2).
    destruct ((l <=? qhi) && (qlo <=? h)) eqn:E.
    + rewrite (IH1 W1), (IH2 W2). unfold itv_spec. rewrite filter_app, map_app. reflexivity.
    + unfold itv_spec. rewrite filter_none; [reflexivity|].
      intros [[lo hi] it] Hin. unfold itv_meets.
      assert (Hin' : In (lo, hi, it) (ileaves (IBranch l h t1 t2))) by exact Hin.
      pose proof (WFI_leaf_inside (IBranch l h t1 t2) Hwf0 lo hi it Hin') as Hb. cbn [ibounds f_min f_max] in Hb.
      apply andb_false_iff in E. apply andb_false_iff.
      destruct E as [E|E]; [left|right]; apply Z.leb_gt in E; apply Z.leb_gt; lia.
Qed.

(* --- buildLevel / buildTree --- *)
Lemma build_level_props : forall n src, (length src <= n)%nat -> Forall WFI src ->
  Forall WFI (build_level src) /\ flat_map ileaves (build_level src) = flat_map ileaves src /\
  (length (build_level src) = Nat.div2 (S (length src)))%nat.
Proof.
  induction n as [|n IH]; intros src Hn Hw.
  - destruct src; [|cbn in Hn; lia]. cbn. repeat split; constructor.
  - destruct src as [|a [|b r]].
    + cbn. repeat split; constructor.
    + cbn. repeat split; try assumption.
    + inversion Hw as [|? ? Wa Hw']; subst. inversion Hw' as [|? ? Wb Wr]; subst.
      assert (Hr : (length r <= n)%nat) by (cbn in Hn; lia).
      destruct (IH r Hr Wr) as (F & L & Len). cbn [build_level]. repeat split.
      * constructor; [apply mk_branch_WFI; assumption|exact F].
      * cbn [flat_map]. rewrite mk_branch_leaves, L, <- app_assoc. reflexivity.
      * cbn [length]. rewrite Len. reflexivity.
Qed.

Lemma div2_lt : forall n, (2 <= n)%nat -> (Nat.div2 (S n) < n)%nat.
Proof. intros n H. rewrite Nat.div2_div. apply Nat.div_lt_upper_bound; lia. Qed.

(* fuel >= number of nodes on the level suffices: each level is at most half (rounded up) of the one below *)
Lemma build_iter_props : forall fuel src, src <> [] -> (length src <= fuel)%nat -> Forall WFI src ->
  exists t, build_iter fuel src = Some t /\ WFI t /\ ileaves t = flat_map ileaves src.
Proof.
  induction fuel as [|f IH]; intros src Hne Hlen Hw.
  - destruct src; [congruence|cbn in Hlen; lia].
  - cbn [build_iter]. destruct (build_level_props (length src) src (le_n _) Hw) as (F & L & Len).
    destruct (build_level src) as [|t [|u r]] eqn:E.
    + destruct src as [|a [|b r]]; cbn in Len; try congruence; lia.
    + exists t. inversion F; subst. repeat split; try assumption. rewrite <- L. cbn. symmetry. apply app_nil_r.
    + assert (Hl2 : (2 <= length src)%nat).
      { destruct src as [|a [|b r']]; cbn in E; try discriminate; cbn; lia. }
      pose proof (div2_lt (length src) Hl2) as Hlt.
      destruct (IH (t :: u :: r)) as (t' & B & W & Lv); [discriminate|rewrite Len; lia|exact F|].
      exists t'. repeat split; try assumption. rewrite Lv. exact L.
Qed.

Lemma leaf_of_leaves : forall l, flat_map ileaves (map leaf_of l) = l.
Proof. induction l as [|[[lo hi] it] r IH]; cbn; [reflexivity|]. f_equal. exact IH. Qed.

Lemma leaf_of_WFI : forall l, Forall WFI (map leaf_of l).
Proof. induction l as [|[[lo hi] it] r IH]; cbn; constructor; [exact I|exact IH]. Qed.

Theorem itv_build_terminates : forall sorted, sorted <> [] ->
  exists t, build_sorted sorted = Some t /\ WFI t /\ ileaves t = sorted.
Proof.
  intros sorted Hne. unfold build_sorted.
  destruct (build_iter_props (length sorted) (map leaf_of sorted)) as (t & B & W & L).
  - destruct sorted; [congruence|discriminate].
  - rewrite map_length. apply le_n.
  - apply leaf_of_WFI.
  - exists t. rewrite leaf_of_leaves in L. auto.
Qed.

Lemma itv_spec_perm : forall qlo qhi l l', Permutation l l' -> Permutation (itv_spec qlo qhi l) (itv_spec qlo qhi l').
Proof.
  intros qlo qhi l l' H. unfold itv_spec. apply Permutation_map.
  induction H as [|x l l' H IH|x y l|l l' l'' H1 IH1 H2 IH2]; cbn.
  - constructor.
  - destruct (itv_meets qlo qhi x); [constructor|]; exact IH.
  - destruct (itv_meets qlo qhi x), (itv_meets qlo qhi y); try apply Permutation_refl. apply perm_swap.
  - eapply Permutation_trans; eassumption.
Qed.

(* the property clause for this index: whatever order std::sort produces (ANY permutation of the inserted leaves),
   the query visits exactly the items whose interval meets the query interval, each once *)
Theorem interval_query_exact : forall leaves sorted qlo qhi, leaves <> [] -> Permutation leaves sorted ->
  exists t, build_sorted sorted = Some t /\ Permutation (iquery_root qlo qhi (Some t)) (itv_spec qlo qhi leaves).
Proof.
  intros leaves sorted qlo qhi Hne Hp.
  assert (Hs : sorted <> []). { intro E; subst. apply Permutation_sym, Permutation_nil in Hp. congruence. }
  destruct (itv_build_terminates sorted Hs) as (t & B & W & L). exists t. split; [exact B|].
  cbn [iquery_root]. rewrite (iquery_exact qlo qhi t W), L. apply itv_spec_perm, Permutation_sym, Hp.
Qed.

Lemma ins_by_perm : forall x l, Permutation (x :: l) (ins_by x l).
Proof. intros x l; induction l as [|y r IH]; cbn [ins_by]; [apply Permutation_refl|].
  destruct (g_itv_compare _ _); [apply Permutation_refl|]. eapply Permutation_trans; [apply perm_swap|]. constructor. exact IH. Qed.

Lemma sort_leaves_perm : forall l, Permutation l (sort_leaves l).
Proof. induction l as [|x r IH]; cbn; [constructor|]. eapply Permutation_trans; [|apply ins_by_perm]. constructor. exact IH. Qed.

(* the executable model (sorted with the GENERATED comparator) meets the specification *)
Theorem itv_run_exact : forall leaves qlo qhi, Permutation (itv_run leaves qlo qhi) (itv_spec qlo qhi leaves).
Proof.
  intros leaves qlo qhi. destruct leaves as [|x r] eqn:E; [cbn; constructor|]. rewrite <- E.
  assert (Hne : leaves <> []) by (subst; discriminate).
  destruct (interval_query_exact leaves (sort_leaves leaves) qlo qhi Hne (sort_leaves_perm leaves)) as (t & B & P).
  unfold itv_run. rewrite E at 1. rewrite B. exact P.
Qed.

Example ex_itv : itv_run [(0, 10, 1); (6, 7, 2); (20, 30, 3); (8, 8, 4); (-5, -1, 5)] 8 9 = [4; 1].
Proof. vm_compute. reflexivity. Qed.
