(* C15 — executable model of geos::index::strtree::TemplateSTRtreeImpl (include/geos/index/strtree/TemplateSTRtree.h,
   TemplateSTRNode.h, TemplateSTRtreeDistance.h).  Definitions only (no proofs), so the model still runs when a proof breaks.

   Abstractions, stated once:
   - the flat node vector with child pointer ranges is a finitely branching tree; a branch node's children are the
     contiguous run the code passes to createBranchNode;
   - coordinates are integers (the harness uses integer-valued doubles, on which min/max/+/< are exact);
   - std::sort is *some* permutation sorted w.r.t. the key; the model uses a stable merge sort, and every theorem about
     query / iterate / remove / nearest results is stated up to Permutation or as a set/minimum property, so the choice is immaterial;
   - ceil(double(n)/double(c)) and ceil(sqrt(.)) are the exact integer ceilings (valid for n*c < 2^53; compared with the
     real functions by the correspondence harness up to n = 10^7). *)
From Coq Require Import ZArith List Bool Lia Mergesort Orders.
Import ListNotations.
Local Open Scope Z_scope.

Record env := mkEnv { x0 : Z; x1 : Z; y0 : Z; y1 : Z }.
(* Envelope::isNull — the harness passes a null envelope as x1 < x0 *)
Definition is_null (e : env) : bool := x1 e <? x0 e.
(* Envelope::intersects(const Envelope&) for non-null envelopes *)
Definition inter (a b : env) : bool :=
  (x0 b <=? x1 a) && (x0 a <=? x1 b) && (y0 b <=? y1 a) && (y0 a <=? y1 b).
(* Envelope::expandToInclude *)
Definition hull (a b : env) : env :=
  mkEnv (Z.min (x0 a) (x0 b)) (Z.max (x1 a) (x1 b)) (Z.min (y0 a) (y0 b)) (Z.max (y1 a) (y1 b)).
Definition covers (a b : env) : Prop := x0 a <= x0 b /\ x1 b <= x1 a /\ y0 a <= y0 b /\ y1 b <= y1 a.
Definition wfenv (e : env) : Prop := x0 e <= x1 e /\ y0 e <= y1 e.
(* EnvelopeTraits::getX / getY : minx+maxx (twice the centre) *)
Definition keyX (e : env) : Z := x0 e + x1 e.
Definition keyY (e : env) : Z := y0 e + y1 e.
(* Envelope::distance squared (0 when intersecting) *)
Definition gap (lo1 hi1 lo2 hi2 : Z) : Z := Z.max 0 (Z.max (lo2 - hi1) (lo1 - hi2)).
Definition edist2 (a b : env) : Z :=
  let dx := gap (x0 a) (x1 a) (x0 b) (x1 b) in let dy := gap (y0 a) (y1 a) (y0 b) (y1 b) in dx * dx + dy * dy.
Definition area (e : env) : Z := (x1 e - x0 e) * (y1 e - y0 e).

Inductive tree := Leaf (e : env) (it : Z) (del : bool) | Node (e : env) (ch : list tree).
Definition bounds (t : tree) : env := match t with Leaf e _ _ => e | Node e _ => e end.
Definition is_leaf (t : tree) : bool := match t with Leaf _ _ _ => true | Node _ _ => false end.

(* ---- sorting (std::sort with the comparator key(a) < key(b)) ---- *)
Module XOrder <: TotalLeBool.
  Definition t := tree.
  Definition leb (a b : tree) := keyX (bounds a) <=? keyX (bounds b).
  Theorem leb_total : forall a b, leb a b = true \/ leb b a = true.
  Proof. intros a b. unfold leb. destruct (Z.leb_spec (keyX (bounds a)) (keyX (bounds b))); [left; reflexivity|right]. apply Z.leb_le. lia. Qed.
End XOrder.
Module YOrder <: TotalLeBool.
  Definition t := tree.
  Definition leb (a b : tree) := keyY (bounds a) <=? keyY (bounds b).
  Theorem leb_total : forall a b, leb a b = true \/ leb b a = true.
  Proof. intros a b. unfold leb. destruct (Z.leb_spec (keyY (bounds a)) (keyY (bounds b))); [left; reflexivity|right]. apply Z.leb_le. lia. Qed.
End YOrder.
Module SortX := Sort XOrder.
Module SortY := Sort YOrder.

(* ---- packing arithmetic: sliceCount, sliceCapacity, treeSize ---- *)
Definition cdiv (a b : nat) : nat := (a + b - 1) / b.                        (* ceil(a/b), b > 0 *)
Definition csqrt (m : nat) : nat := let s := Nat.sqrt m in if Nat.eqb (s * s) m then s else S s.   (* ceil(sqrt m) *)
Definition sliceCount (cap n : nat) : nat := csqrt (cdiv n cap).
Definition sliceCapacity (n slices : nat) : nat := cdiv n slices.

(* number of parents created for one level of n nodes: mirror of the inner loop of treeSize *)
Fixpoint parents_of_slices (cap perSlice slices remaining : nat) : nat :=
  match slices with
  | O => O
  | S k => let inSlice := Nat.min remaining perSlice in
           cdiv inSlice cap + parents_of_slices cap perSlice k (remaining - inSlice)
  end.
Definition level_parents (cap n : nat) : nat :=
  let s := sliceCount cap n in parents_of_slices cap (sliceCapacity n s) s n.
Fixpoint treeSize_fuel (fuel cap without_parents acc : nat) : option nat :=
  if Nat.leb without_parents 1 then Some acc else
  match fuel with
  | O => None
  | S f => let p := level_parents cap without_parents in treeSize_fuel f cap p (acc + p)
  end.
Definition treeSize (cap n : nat) : option nat := treeSize_fuel n cap n n.

(* ---- build ---- *)
Definition hull_list (l : list tree) : env :=
  match l with [] => mkEnv 0 0 0 0 | c :: r => fold_left (fun b t => hull b (bounds t)) r (bounds c) end.
Definition mkNode (ch : list tree) : tree := Node (hull_list ch) ch.

(* consecutive runs of at most k elements (k > 0); fuel = length *)
Fixpoint chunks_fuel {A} (fuel k : nat) (l : list A) : list (list A) :=
  match fuel, l with
  | _, [] => []
  | O, _ => [l]
  | S f, _ => firstn k l :: chunks_fuel f k (skipn k l)
  end.
Definition chunks {A} (k : nat) (l : list A) : list (list A) := chunks_fuel (length l) k l.

(* addParentNodesFromVerticalSlice *)
Definition slice_parents (cap : nat) (slice : list tree) : list tree :=
  map mkNode (chunks cap (SortY.sort slice)).
(* createParentNodes: the for-loop over numSlices slices of nodesPerSlice nodes each (the last ones may be short or empty) *)
Fixpoint slices_loop (perSlice slices : nat) (l : list tree) : list (list tree) :=
  match slices with
  | O => []
  | S k => firstn perSlice l :: slices_loop perSlice k (skipn perSlice l)
  end.
Definition build_level (cap : nat) (l : list tree) : list tree :=
  let n := length l in
  let s := sliceCount cap n in
  let per := sliceCapacity n s in
  flat_map (slice_parents cap) (slices_loop per s (SortX.sort l)).
Fixpoint build_fuel (fuel cap : nat) (l : list tree) : option tree :=
  match l with
  | [] => None
  | [t] => Some t
  | _ => match fuel with O => None | S f => build_fuel f cap (build_level cap l) end
  end.
(* build(): None = empty tree (root stays nullptr) or out of fuel (excluded by build_terminates for cap >= 2) *)
Definition build (cap : nat) (leaves : list tree) : option tree := build_fuel (length leaves) cap leaves.

(* ---- queries on a built tree ---- *)
Fixpoint qnode (q : env) (t : tree) : list Z :=
  match t with
  | Leaf e it del => if inter e q && negb del then [it] else []
  | Node e ch => if inter e q then flat_map (qnode q) ch else []
  end.
(* query(): root tested, then root-is-leaf special case (now with the deleted test, fix F11) or recursive descent *)
Definition query (q : env) (root : option tree) : list Z :=
  match root with None => [] | Some t => qnode q t end.

Fixpoint live (t : tree) : list (env * Z) :=
  match t with Leaf e it del => if del then [] else [(e, it)] | Node _ ch => flat_map live ch end.
Definition spec_query (q : env) (l : list (env * Z)) : list Z := map snd (filter (fun p => inter (fst p) q) l).

(* remove(queryEnv, node, item): first live leaf with that item reached through intersecting bounds *)
(* the loop over children: the first child in which the removal succeeds is replaced, the rest is untouched *)
Definition first_some {A} (f : A -> option A) : list A -> option (list A) :=
  fix go (l : list A) : option (list A) :=
  match l with
  | [] => None
  | c :: r => match f c with
              | Some c' => Some (c' :: r)
              | None => match go r with Some r' => Some (c :: r') | None => None end
              end
  end.
Fixpoint remove_node (q : env) (it : Z) (t : tree) : option tree :=
  match t with
  | Leaf e i del => if inter e q && negb del && (i =? it) then Some (Leaf e i true) else None
  | Node e ch =>
      if inter e q then
        match first_some (remove_node q it) ch with
        | Some ch' => Some (Node e ch')
        | None => None
        end
      else None
  end.
(* remove(): a root that is a leaf is compared by item only (no bounds test), as in the code *)
Definition remove (q : env) (it : Z) (root : option tree) : option tree * bool :=
  match root with
  | None => (None, false)
  | Some (Leaf e i del) => if negb del && (i =? it) then (Some (Leaf e i true), true) else (root, false)
  | Some t => match remove_node q it t with Some t' => (Some t', true) | None => (root, false) end
  end.

(* ---- nearest neighbour of a query (env, item) under an item metric:  best-first search with a priority list ---- *)
Section NN.
  Variable idist : Z -> Z.            (* squared metric between the query item and a tree item *)
  Variable qenv : env.
  Definition pdist (t : tree) : Z := match t with Leaf _ it _ => idist it | Node e _ => edist2 e qenv end.
  Fixpoint pq_insert (d : Z) (t : tree) (q : list (Z * tree)) : list (Z * tree) :=
    match q with
    | [] => [(d, t)]
    | (d', t') :: r => if d <? d' then (d, t) :: q else (d', t') :: pq_insert d t r
    end.
  (* expand(): children pushed unless pruned by the current bound; deleted leaves skipped (fix F3) *)
  Definition expand (bound : option Z) (ch : list tree) (q : list (Z * tree)) : list (Z * tree) :=
    fold_left (fun q c =>
                 match c with
                 | Leaf _ _ true => q
                 | _ => let d := pdist c in
                        match bound with
                        | Some b => if d <? b then pq_insert d c q else q
                        | None => pq_insert d c q
                        end
                 end) ch q.
  Fixpoint nn_loop (fuel : nat) (q : list (Z * tree)) (best : option (Z * Z)) : option (Z * Z) :=
    match fuel with
    | O => best
    | S f =>
        match q with
        | [] => best
        | (d, t) :: r =>
            match best with
            | Some (bd, _) => if (bd <=? 0) || (bd <=? d) then best else
                                match t with
                                | Leaf _ it _ => nn_loop f r (Some (d, it))
                                | Node _ ch => nn_loop f (expand (Some bd) ch r) best
                                end
            | None => match t with
                      | Leaf _ it _ => nn_loop f r (Some (d, it))
                      | Node _ ch => nn_loop f (expand None ch r) best
                      end
            end
        end
    end.
  Fixpoint nnodes (t : tree) : nat := match t with Leaf _ _ _ => 1 | Node _ ch => S (fold_left (fun a c => a + nnodes c)%nat ch O) end.
  (* (squared distance, item) of the answer; None = no live item *)
  Definition nearest (root : option tree) : option (Z * Z) :=
    match root with
    | None => None
    | Some (Leaf _ _ true) => None
    | Some t => nn_loop (S (nnodes t)) [(pdist t, t)] None
    end.
End NN.

(* ---- the tree object and its operation histories ---- *)
Record st := mkSt { s_cap : nat; s_pending : list tree; s_root : option tree; s_built : bool }.
Inductive op :=
| Insert (e : env) (it : Z)
| Build
| Query (q : env)
| Remove (e : env) (it : Z)
| Iterate
| Nearest (e : env) (px py : Z).   (* items are points looked up through a table: metric = squared point distance *)
Inductive out := ONone | OItems (l : list Z) | OBool (b : bool) | ONear (r : option (Z * Z)) | OIllegal.

Definition init (cap : nat) : st := mkSt cap [] None false.
Definition do_build (s : st) : st :=
  if s_built s then s else
  match s_pending s with
  | [] => s                                       (* nodes.empty(): stays unbuilt *)
  | l => mkSt (s_cap s) l (build (s_cap s) l) true
  end.
Definition iterate_items (s : st) : list Z :=
  if s_built s then match s_root s with Some t => map snd (live t) | None => [] end
  else flat_map (fun t => map snd (live t)) (s_pending s).

Section Step.
  Variable coords : Z -> Z * Z.      (* item id -> point, for the nearest-neighbour metric of the harness *)
  Definition sqd (px py it : Z) : Z := let '(x, y) := coords it in (x - px) * (x - px) + (y - py) * (y - py).
  Definition step (s : st) (o : op) : st * out :=
    match o with
    | Insert e it =>
        if s_built s then (s, OIllegal) else
        if is_null e then (s, ONone) else (mkSt (s_cap s) (s_pending s ++ [Leaf e it false]) None false, ONone)
    | Build => (do_build s, ONone)
    | Query q => let s' := do_build s in (s', OItems (query q (s_root s')))
    | Remove e it => let s' := do_build s in
                     let '(r, b) := remove e it (s_root s') in (mkSt (s_cap s') (s_pending s') r (s_built s'), OBool b)
    | Iterate => (s, OItems (iterate_items s))
    | Nearest e px py => let s' := do_build s in (s', ONear (nearest (sqd px py) e (s_root s')))
    end.
  Fixpoint run (s : st) (ops : list op) : list out :=
    match ops with [] => [] | o :: r => let '(s', x) := step s o in x :: run s' r end.
End Step.

(* the nearest-neighbour metric used by the correspondence harness: every item is the point (x0,y0) of the envelope it
   was inserted with (a corner of its own envelope, so the metric is admissible when the query point lies in the query envelope) *)
Fixpoint coords_of (ops : list op) (id : Z) : Z * Z :=
  match ops with
  | [] => (0, 0)
  | Insert e it :: r => if it =? id then (x0 e, y0 e) else coords_of r id
  | _ :: r => coords_of r id
  end.
Definition run_top (cap : nat) (ops : list op) : list out := run (coords_of ops) (init cap) ops.
