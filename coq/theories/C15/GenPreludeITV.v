(* C15/GenPreludeITV — representation boundary of the generated interval-R-tree units (ITV_intersects, ITV_branchBounds,
   ITV_compare): an IntervalRTreeNode is the record of its two data members; a `double` is an integer (Lib.GenPreludeZ). *)
From Coq Require Import ZArith Bool.
From GeosV.Lib Require Export GenPreludeZ.
Local Open Scope Z_scope.

Record itvnode := mkItv { f_min : Z; f_max : Z }.
Definition m_getMin_0 (n : itvnode) : Z := f_min n.
Definition m_getMax_0 (n : itvnode) : Z := f_max n.
