(* C15/ITVDefs — code-level model of the 1-D packed interval R-tree (index/intervalrtree/SortedPackedIntervalRTree.cpp,
   IntervalRTreeBranchNode, IntervalRTreeLeafNode).  Executable definitions only.  The three leaf decisions are NOT
   hand-written: the pruning test, the bounds of a branch node and the sort key are the units regenerated from the C++
   (Gen/ITV_intersects, Gen/ITV_branchBounds, Gen/ITV_compare); this file adds the control structure around them:
   buildLevel (pair neighbours, an odd last node moves up unchanged), buildTree (repeat until one node is left),
   and the recursive query of branch and leaf nodes. *)
From Coq Require Import ZArith List Bool.
From GeosV.C15 Require Import GenPreludeITV.
From GeosV.Gen Require Import ITV_intersects ITV_branchBounds ITV_compare.
Import ListNotations.
Local Open Scope Z_scope.

Inductive itree :=
| ILeaf (lo hi : Z) (item : Z)
| IBranch (lo hi : Z) (t1 t2 : itree).

Definition ibounds (t : itree) : itvnode :=
  match t with ILeaf lo hi _ => mkItv lo hi | IBranch lo hi _ _ => mkItv lo hi end.

(* branches.emplace_back(n1, n2): the bounds are what the constructor's base initializer computes *)
Definition mk_branch (t1 t2 : itree) : itree :=
  let '(lo, hi) := g_itv_branchBounds (ibounds t1) (ibounds t2) in IBranch lo hi t1 t2.

(* buildLevel: for (i = 0; i < ni; i += 2) { n1 = src[i]; if (i + 1 < ni) dest.push_back(branch(n1, src[i+1])) else dest.push_back(n1) } *)
Fixpoint build_level (src : list itree) : list itree :=
  match src with
  | a :: b :: r => mk_branch a b :: build_level r
  | l => l
  end.

(* buildTree: while (true) { buildLevel(src, dest); if (dest.size() == 1) return dest[0]; swap(src, dest); }
   on explicit fuel; ITVProofs.itv_build_terminates shows that fuel = number of leaves is never exhausted on a non-empty input *)
Fixpoint build_iter (fuel : nat) (src : list itree) : option itree :=
  match fuel with
  | O => None
  | S f => match build_level src with
           | [t] => Some t
           | [] => None
           | l => build_iter f l
           end
  end.

Definition leaf_of (l : Z * Z * Z) : itree := let '(lo, hi, it) := l in ILeaf lo hi it.

(* the leaves in the order std::sort left them (any order: the theorems quantify over every permutation) *)
Definition build_sorted (sorted_leaves : list (Z * Z * Z)) : option itree :=
  build_iter (length sorted_leaves) (map leaf_of sorted_leaves).

(* IntervalRTreeBranchNode::query / IntervalRTreeLeafNode::query *)
Fixpoint iquery (qlo qhi : Z) (t : itree) : list Z :=
  match t with
  | ILeaf lo hi it => if g_itv_intersects (mkItv lo hi) qlo qhi then [it] else []
  | IBranch lo hi t1 t2 =>
      if g_itv_intersects (mkItv lo hi) qlo qhi then iquery qlo qhi t1 ++ iquery qlo qhi t2 else []
  end.

Definition iquery_root (qlo qhi : Z) (root : option itree) : list Z :=
  match root with None => [] | Some t => iquery qlo qhi t end.

(* specification: the items whose closed interval meets the closed query interval, by a linear scan *)
Definition itv_meets (qlo qhi : Z) (l : Z * Z * Z) : bool := let '(lo, hi, _) := l in (lo <=? qhi) && (qlo <=? hi).
Definition itv_spec (qlo qhi : Z) (leaves : list (Z * Z * Z)) : list Z :=
  map (fun l => snd l) (filter (itv_meets qlo qhi) leaves).

Fixpoint ileaves (t : itree) : list (Z * Z * Z) :=
  match t with ILeaf lo hi it => [(lo, hi, it)] | IBranch _ _ t1 t2 => ileaves t1 ++ ileaves t2 end.

(* insertion sort by the generated comparator (descending midpoint), used only to run the model; the theorems do not depend on it *)
Fixpoint ins_by (x : Z * Z * Z) (l : list (Z * Z * Z)) : list (Z * Z * Z) :=
  match l with
  | [] => [x]
  | y :: r => if g_itv_compare (ibounds (leaf_of x)) (ibounds (leaf_of y)) then x :: l else y :: ins_by x r
  end.
Definition sort_leaves (l : list (Z * Z * Z)) : list (Z * Z * Z) := fold_right ins_by [] l.
Definition itv_run (leaves : list (Z * Z * Z)) (qlo qhi : Z) : list Z :=
  match leaves with [] => [] | _ => iquery_root qlo qhi (build_sorted (sort_leaves leaves)) end.
