(* C15/STRGen — tie G for the packing arithmetic: the units regenerated from TemplateSTRtree.h on every run
   (Gen/STR_sliceCount, STR_sliceCapacity, STR_treeSize) equal the model functions of STRDefs.v that STRSize.v and
   STRProofs.v reason about.  A change to the C++ arithmetic (a floor for a ceil, an off-by-one, a different loop exit)
   changes the generated term and these proofs stop. *)
From Coq Require Import ZArith List Bool Lia Arith.
From GeosV.C15 Require Import STRDefs GenPreludeSTR.
From GeosV.Gen Require Import STR_sliceCount STR_sliceCapacity STR_treeSize.
Import ListNotations.
Local Open Scope Z_scope.

Lemma zceil_div_nat a b : (0 < b)%nat -> zceil_div (Z.of_nat a) (Z.of_nat b) = Z.of_nat (cdiv a b).
Proof. intros Hb. unfold zceil_div, cdiv. rewrite Nat2Z.inj_div. f_equal. lia. Qed.

Lemma zceil_sqrt_nat m : zceil_sqrt (Z.of_nat m) = Z.of_nat (csqrt m).
Proof. unfold zceil_sqrt, csqrt.
  assert (Hs : Z.sqrt (Z.of_nat m) = Z.of_nat (Nat.sqrt m)).
  { apply Z.sqrt_unique. pose proof (Nat.sqrt_specif m) as H. nia. }
  rewrite Hs. cbv zeta.
  destruct (Nat.eqb_spec (Nat.sqrt m * Nat.sqrt m) m) as [E|E];
    destruct (Z.eqb_spec (Z.of_nat (Nat.sqrt m) * Z.of_nat (Nat.sqrt m)) (Z.of_nat m)) as [E'|E']; try lia; nia. Qed.

Definition tr (cap : nat) : strtree := mkTree (Z.of_nat cap).

Theorem gen_sliceCount cap n : (0 < cap)%nat -> m_sliceCount_1 (tr cap) (Z.of_nat n) = Z.of_nat (sliceCount cap n).
Proof. intros Hc. unfold m_sliceCount_1, sliceCount, tr, ofZ, div, c_ceil_1, c_sqrt_1, toZ. cbn [f_nodeCapacity].
  rewrite zceil_div_nat by assumption. apply zceil_sqrt_nat. Qed.

Theorem gen_sliceCapacity n s : (0 < s)%nat -> c_sliceCapacity_2 (Z.of_nat n) (Z.of_nat s) = Z.of_nat (sliceCapacity n s).
Proof. intros Hs. unfold c_sliceCapacity_2, sliceCapacity, ofZ, div, c_ceil_1, toZ. apply zceil_div_nat; assumption. Qed.

(* a fold that ignores the list elements is iteration *)
Fixpoint iterl {A} (n : nat) (f : A -> A) (x : A) : A := match n with O => x | S k => iterl k f (f x) end.
Lemma fold_left_ignore {A B} (f : A -> A) (l : list B) x : fold_left (fun a _ => f a) l x = iterl (length l) f x.
Proof. revert x. induction l as [|b l IH]; intros x; [reflexivity|]. cbn [fold_left length iterl]. apply IH. Qed.
Lemma zrange_length n : length (zrange 0 (Z.of_nat n)) = n.
Proof. unfold zrange. rewrite map_length, seq_length. lia. Qed.

(* what is left to distribute after `slices` slices *)
Fixpoint rem_after (per slices rem : nat) : nat :=
  match slices with O => rem | S k => rem_after per k (rem - Nat.min rem per) end.

Definition inner_step (cap per : nat) (acc : Z * Z) : Z * Z :=
  let '(r, p) := acc in
  let i := c_min_2 r (Z.of_nat per) in
  (r - i, p + toZ (c_ceil_1 (div (ofZ i) (ofZ (Z.of_nat cap))))).

Lemma inner_iter cap per : (0 < cap)%nat -> forall slices rem acc,
  iterl slices (inner_step cap per) (Z.of_nat rem, Z.of_nat acc) =
  (Z.of_nat (rem_after per slices rem), Z.of_nat (acc + parents_of_slices cap per slices rem)).
Proof. intros Hc. induction slices as [|k IH]; intros rem acc.
  - cbn [iterl rem_after parents_of_slices]. f_equal. f_equal. lia.
  - cbn [iterl rem_after parents_of_slices]. unfold inner_step at 2. unfold c_min_2, ofZ, div, c_ceil_1, toZ.
    rewrite <- Nat2Z.inj_min, zceil_div_nat by assumption.
    replace (Z.of_nat rem - Z.of_nat (Nat.min rem per)) with (Z.of_nat (rem - Nat.min rem per)) by lia.
    rewrite <- Nat2Z.inj_add, IH. f_equal. f_equal. lia. Qed.

Lemma sliceCount_pos cap n : (0 < cap)%nat -> (0 < n)%nat -> (0 < sliceCount cap n)%nat.
Proof. intros Hc Hn. unfold sliceCount, csqrt.
  assert (H1 : (0 < cdiv n cap)%nat).
  { unfold cdiv. apply Nat.div_str_pos. lia. }
  pose proof (Nat.sqrt_specif (cdiv n cap)) as Hs. cbv zeta.
  destruct (Nat.eqb_spec (Nat.sqrt (cdiv n cap) * Nat.sqrt (cdiv n cap)) (cdiv n cap)); nia. Qed.

(* one round of the outer loop *)
Definition outer_cond (acc : Z * Z) : bool := let '(_, w) := acc in Z.gtb w 1.
Definition outer_body (cap : nat) (acc : Z * Z) : Z * Z :=
  let '(v_nodesInTree, v_nodesWithoutParents) := acc in
  let v_numSlices := m_sliceCount_1 (tr cap) v_nodesWithoutParents in
  let v_nodesPerSlice := c_sliceCapacity_2 v_nodesWithoutParents v_numSlices in
  let v_parentNodesAdded := 0 in
  let '(v_nodesWithoutParents, v_parentNodesAdded) :=
    fold_left (fun acc (_ : Z) => let '(r, p) := acc in
      let i := c_min_2 r v_nodesPerSlice in
      let r := r - i in
      let p := p + toZ (c_ceil_1 (div (ofZ i) (ofZ (f_nodeCapacity (tr cap))))) in (r, p))
      (zrange 0 v_numSlices) (v_nodesWithoutParents, v_parentNodesAdded) in
  let v_nodesInTree := v_nodesInTree + v_parentNodesAdded in
  (v_nodesInTree, v_parentNodesAdded).

Lemma outer_body_nat cap acc wp : (0 < cap)%nat -> (0 < wp)%nat ->
  outer_body cap (Z.of_nat acc, Z.of_nat wp) = (Z.of_nat (acc + level_parents cap wp), Z.of_nat (level_parents cap wp)).
Proof. intros Hc Hw. unfold outer_body, level_parents.
  rewrite gen_sliceCount by assumption.
  pose proof (sliceCount_pos cap wp Hc Hw) as Hs.
  rewrite gen_sliceCapacity by assumption. cbv zeta.
  set (s := sliceCount cap wp) in *. set (per := sliceCapacity wp s).
  change (fun (acc0 : Z * Z) (_ : Z) => let '(r, p) := acc0 in
            let i := c_min_2 r (Z.of_nat per) in let r0 := r - i in
            let p0 := p + toZ (c_ceil_1 (div (ofZ i) (ofZ (f_nodeCapacity (tr cap))))) in (r0, p0))
    with (fun (acc0 : Z * Z) (_ : Z) => inner_step cap per acc0).
  rewrite (fold_left_ignore (inner_step cap per)), zrange_length.
  change 0 with (Z.of_nat 0) at 1. rewrite inner_iter by assumption. cbn [Nat.add].
  f_equal. lia. Qed.

Lemma while_treeSize cap : (0 < cap)%nat -> forall fuel wp acc k,
  treeSize_fuel fuel cap wp acc = Some k ->
  exists w, while_loop fuel outer_cond (outer_body cap) (Z.of_nat acc, Z.of_nat wp) = Some (Z.of_nat k, w).
Proof. intros Hc. induction fuel as [|f IH]; intros wp acc k H.
  - cbn [treeSize_fuel] in H. destruct (Nat.leb_spec wp 1) as [Hle|Hgt]; [|discriminate]. injection H as <-.
    cbn [while_loop outer_cond]. destruct (Z.gtb_spec (Z.of_nat wp) 1) as [G|G]; [lia|]. eexists; reflexivity.
  - cbn [treeSize_fuel] in H. destruct (Nat.leb_spec wp 1) as [Hle|Hgt].
    + injection H as <-. cbn [while_loop outer_cond]. destruct (Z.gtb_spec (Z.of_nat wp) 1) as [G|G]; [lia|]. eexists; reflexivity.
    + cbn [while_loop]. unfold outer_cond at 1. destruct (Z.gtb_spec (Z.of_nat wp) 1) as [G|G]; [|lia].
      rewrite outer_body_nat by lia. apply IH. exact H. Qed.

(* the generated treeSize is the model's, whenever the model's fuel suffices (STRSize.treeSize_exact shows it does
   for every tree build() produces with capacity >= 2) *)
Theorem gen_treeSize cap n k : (0 < cap)%nat -> treeSize cap n = Some k ->
  m_treeSize_1 (tr cap) (Z.of_nat n) = Z.of_nat k.
Proof. intros Hc H. unfold treeSize in H. destruct (while_treeSize cap Hc n n n k H) as [w Hw].
  unfold m_treeSize_1. rewrite Nat2Z.id.
  change (fun acc : Z * Z => let '(_, v_nodesWithoutParents) := acc in v_nodesWithoutParents >? 1) with outer_cond.
  match goal with |- match while_loop _ _ ?b _ with _ => _ end = _ => change b with (outer_body cap) end.
  rewrite Hw. reflexivity. Qed.
